module genconsts

go 1.17
