// genconsts — translator: reads constants and literal tables out of /repo's Go
// sources (go/parser, syntactic constant folding) and rewrites coq/Gen/*.v.
// The Coq development proves its model constants equal to these generated ones
// (Proofs/GenTie.v) and proves table-dependent theorems (blech32 syndromes, key
// tables, network prefixes) directly over them, so they are re-checked against
// what the code says on every run.
//
//	genconsts <repo> <outdir>
package main

import (
	"fmt"
	"go/ast"
	"go/parser"
	"go/token"
	"math/big"
	"os"
	"path/filepath"
	"sort"
	"strconv"
	"strings"
)

type env map[string]*big.Int

func evalExpr(e ast.Expr, en env, iota int) (*big.Int, bool) {
	switch x := e.(type) {
	case *ast.BasicLit:
		switch x.Kind {
		case token.INT:
			v, ok := new(big.Int).SetString(strings.ReplaceAll(x.Value, "_", ""), 0)
			return v, ok
		case token.CHAR:
			s, err := strconv.Unquote(x.Value)
			if err != nil || len(s) == 0 {
				return nil, false
			}
			return big.NewInt(int64([]rune(s)[0])), true
		}
		return nil, false
	case *ast.ParenExpr:
		return evalExpr(x.X, en, iota)
	case *ast.Ident:
		if x.Name == "iota" {
			return big.NewInt(int64(iota)), true
		}
		v, ok := en[x.Name]
		return v, ok
	case *ast.SelectorExpr:
		v, ok := en[x.Sel.Name]
		return v, ok
	case *ast.CallExpr: // type conversion uint8(x), byte(x), ...
		if len(x.Args) == 1 {
			return evalExpr(x.Args[0], en, iota)
		}
		return nil, false
	case *ast.UnaryExpr:
		v, ok := evalExpr(x.X, en, iota)
		if !ok {
			return nil, false
		}
		switch x.Op {
		case token.SUB:
			return new(big.Int).Neg(v), true
		case token.ADD:
			return v, true
		}
		return nil, false
	case *ast.BinaryExpr:
		a, ok1 := evalExpr(x.X, en, iota)
		b, ok2 := evalExpr(x.Y, en, iota)
		if !ok1 || !ok2 {
			return nil, false
		}
		switch x.Op {
		case token.ADD:
			return new(big.Int).Add(a, b), true
		case token.SUB:
			return new(big.Int).Sub(a, b), true
		case token.MUL:
			return new(big.Int).Mul(a, b), true
		case token.SHL:
			return new(big.Int).Lsh(a, uint(b.Int64())), true
		case token.SHR:
			return new(big.Int).Rsh(a, uint(b.Int64())), true
		case token.OR:
			return new(big.Int).Or(a, b), true
		case token.AND:
			return new(big.Int).And(a, b), true
		case token.XOR:
			return new(big.Int).Xor(a, b), true
		}
	}
	return nil, false
}

type fileConsts struct {
	names []string
	vals  env
	// package-level var literals: []int / []byte / [N]byte composite literals and strings
	lists   map[string][]*big.Int
	strs    map[string]string
	listOrd []string
	strOrd  []string
	f       *ast.File
}

func parseFile(path string, pre env) (*fileConsts, error) {
	fset := token.NewFileSet()
	f, err := parser.ParseFile(fset, path, nil, 0)
	if err != nil {
		return nil, err
	}
	fc := &fileConsts{vals: env{}, lists: map[string][]*big.Int{}, strs: map[string]string{}, f: f}
	for k, v := range pre {
		fc.vals[k] = v
	}
	for _, d := range f.Decls {
		gd, ok := d.(*ast.GenDecl)
		if !ok {
			continue
		}
		if gd.Tok == token.CONST {
			var last []ast.Expr
			for i, sp := range gd.Specs {
				vs := sp.(*ast.ValueSpec)
				vals := vs.Values
				if len(vals) == 0 {
					vals = last
				} else {
					last = vals
				}
				for j, n := range vs.Names {
					if j >= len(vals) {
						continue
					}
					if bl, ok := vals[j].(*ast.BasicLit); ok && bl.Kind == token.STRING {
						s, _ := strconv.Unquote(bl.Value)
						fc.strs[n.Name] = s
						fc.strOrd = append(fc.strOrd, n.Name)
						continue
					}
					if v, ok := evalExpr(vals[j], fc.vals, i); ok {
						fc.vals[n.Name] = v
						fc.names = append(fc.names, n.Name)
					}
				}
			}
		}
		if gd.Tok == token.VAR {
			for _, sp := range gd.Specs {
				vs := sp.(*ast.ValueSpec)
				for j, n := range vs.Names {
					if j >= len(vs.Values) {
						continue
					}
					switch v := vs.Values[j].(type) {
					case *ast.CompositeLit:
						var l []*big.Int
						good := true
						for _, el := range v.Elts {
							x, ok := evalExpr(el, fc.vals, 0)
							if !ok {
								good = false
								break
							}
							l = append(l, x)
						}
						if good && len(l) > 0 {
							fc.lists[n.Name] = l
							fc.listOrd = append(fc.listOrd, n.Name)
						}
					case *ast.CallExpr: // []byte("literal") conversions (taproot tag strings)
						if _, isArr := v.Fun.(*ast.ArrayType); isArr && len(v.Args) == 1 {
							if bl, ok := v.Args[0].(*ast.BasicLit); ok && bl.Kind == token.STRING {
								s, _ := strconv.Unquote(bl.Value)
								fc.strs[n.Name] = s
								fc.strOrd = append(fc.strOrd, n.Name)
							}
						}
					case *ast.BasicLit:
						if v.Kind == token.STRING {
							s, _ := strconv.Unquote(v.Value)
							fc.strs[n.Name] = s
							fc.strOrd = append(fc.strOrd, n.Name)
						} else if x, ok := evalExpr(v, fc.vals, 0); ok {
							fc.vals[n.Name] = x
							fc.names = append(fc.names, n.Name)
						}
					}
				}
			}
		}
	}
	return fc, nil
}

func coqIdent(s string) string { return "g_" + s }

func emitZ(b *strings.Builder, name string, v *big.Int) {
	fmt.Fprintf(b, "Definition %s : Z := %s.\n", coqIdent(name), zlit(v))
}
func zlit(v *big.Int) string {
	if v.Sign() < 0 {
		return "(" + v.String() + ")"
	}
	return v.String()
}
func emitList(b *strings.Builder, name string, l []*big.Int) {
	var xs []string
	for _, v := range l {
		xs = append(xs, zlit(v))
	}
	fmt.Fprintf(b, "Definition %s : list Z := [%s].\n", coqIdent(name), strings.Join(xs, "; "))
}
func emitStr(b *strings.Builder, name string, s string) {
	var xs []string
	for _, c := range []byte(s) {
		xs = append(xs, strconv.Itoa(int(c)))
	}
	fmt.Fprintf(b, "Definition %s : list Z := [%s].  (* %q *)\n", coqIdent(name), strings.Join(xs, "; "), s)
}

func header(src string) string {
	return "(* GENERATED by tools/genconsts from " + src + " — do not edit; rewritten on every check run. *)\n" +
		"From Coq Require Import ZArith List.\nImport ListNotations.\nOpen Scope Z_scope.\n\n"
}

func writeIfChanged(path, content string) {
	old, err := os.ReadFile(path)
	if err == nil && string(old) == content {
		return
	}
	os.MkdirAll(filepath.Dir(path), 0o755)
	if err := os.WriteFile(path, []byte(content), 0o644); err != nil {
		fmt.Fprintln(os.Stderr, err)
		os.Exit(1)
	}
}

func dumpAll(fc *fileConsts, want []string) (string, []string) {
	var b strings.Builder
	var missing []string
	seen := map[string]bool{}
	for _, n := range want {
		seen[n] = true
		if v, ok := fc.vals[n]; ok {
			emitZ(&b, n, v)
		} else if l, ok := fc.lists[n]; ok {
			emitList(&b, n, l)
		} else if s, ok := fc.strs[n]; ok {
			emitStr(&b, n, s)
		} else {
			missing = append(missing, n)
		}
	}
	return b.String(), missing
}

func main() {
	if len(os.Args) != 3 {
		fmt.Fprintln(os.Stderr, "usage: genconsts <repo> <outdir>")
		os.Exit(2)
	}
	repo, out := os.Args[1], os.Args[2]
	failed := false
	type job struct {
		src, dst string
		want     []string
		pre      env
		all      bool // emit every integer constant of the file (sorted by declaration order)
		prefix   string
	}
	txscript := env{"SigHashAll": big.NewInt(1), "SigHashNone": big.NewInt(2), "SigHashSingle": big.NewInt(3), "SigHashAnyOneCanPay": big.NewInt(0x80), "SigHashDefault": big.NewInt(0)}
	jobs := []job{
		{src: "transaction/transaction.go", dst: "TxConsts.v", pre: txscript,
			want: []string{"WitnessScaleFactor", "DefaultSequence", "MinusOne", "OutpointIndexMask", "OutpointIssuanceFlag", "OutpointPeginFlag",
				"advancedTransactionFlag", "advancedTransactionMarker", "SighashRangeproof", "sighashInputMask", "sighashOutputMask", "One", "Zero", "MaxConfidentialValue"}},
		{src: "blech32/blech32.go", dst: "Blech32Consts.v", all: true},
		{src: "address/address.go", dst: "AddressConsts.v", all: true},
		{src: "block/merkle_block.go", dst: "MerkleConsts.v", all: true},
		{src: "psetv2/global.go", dst: "PsetV2GlobalConsts.v", all: true},
		{src: "psetv2/input.go", dst: "PsetV2InputConsts.v", all: true},
		{src: "psetv2/output.go", dst: "PsetV2OutputConsts.v", all: true},
		{src: "psetv2/pset.go", dst: "PsetV2Consts.v", all: true},
		{src: "pset/pset.go", dst: "PsetV0Consts.v", all: true},
		{src: "taproot/taproot.go", dst: "TaprootConsts.v", all: true},
		{src: "transaction/issuance.go", dst: "IssuanceConsts.v", all: true},
	}
	for _, j := range jobs {
		fc, err := parseFile(filepath.Join(repo, j.src), j.pre)
		if err != nil {
			fmt.Fprintf(os.Stderr, "genconsts: cannot parse %s: %v\n", j.src, err)
			failed = true
			continue
		}
		var body string
		if j.all {
			var b strings.Builder
			for _, n := range fc.names {
				emitZ(&b, n, fc.vals[n])
			}
			for _, n := range fc.listOrd {
				emitList(&b, n, fc.lists[n])
			}
			for _, n := range fc.strOrd {
				emitStr(&b, n, fc.strs[n])
			}
			body = b.String()
		} else {
			var missing []string
			body, missing = dumpAll(fc, j.want)
			if len(missing) > 0 {
				fmt.Fprintf(os.Stderr, "genconsts: %s: constants no longer found (source pattern changed): %v\n", j.src, missing)
				failed = true
			}
		}
		writeIfChanged(filepath.Join(out, j.dst), header(j.src)+body)
	}
	// network parameters: struct literals of network.Network
	if err := genNetwork(repo, out); err != nil {
		fmt.Fprintln(os.Stderr, "genconsts: network:", err)
		failed = true
	}
	if failed {
		os.Exit(1)
	}
	_ = sort.Strings
}

func genNetwork(repo, out string) error {
	fset := token.NewFileSet()
	f, err := parser.ParseFile(fset, filepath.Join(repo, "network/network.go"), nil, 0)
	if err != nil {
		return err
	}
	var b strings.Builder
	b.WriteString(header("network/network.go"))
	count := 0
	for _, d := range f.Decls {
		gd, ok := d.(*ast.GenDecl)
		if !ok || gd.Tok != token.VAR {
			continue
		}
		for _, sp := range gd.Specs {
			vs := sp.(*ast.ValueSpec)
			for j, n := range vs.Names {
				if j >= len(vs.Values) {
					continue
				}
				cl, ok := vs.Values[j].(*ast.CompositeLit)
				if !ok {
					continue
				}
				for _, el := range cl.Elts {
					kv, ok := el.(*ast.KeyValueExpr)
					if !ok {
						continue
					}
					key := kv.Key.(*ast.Ident).Name
					if bl, ok := kv.Value.(*ast.BasicLit); ok && bl.Kind == token.STRING {
						s, _ := strconv.Unquote(bl.Value)
						emitStr(&b, n.Name+"_"+key, s)
					} else if v, ok := evalExpr(kv.Value, env{}, 0); ok {
						emitZ(&b, n.Name+"_"+key, v)
					}
				}
				count++
			}
		}
	}
	if count < 3 {
		return fmt.Errorf("expected three network.Network literals, found %d", count)
	}
	writeIfChanged(filepath.Join(out, "NetConsts.v"), b.String())
	return nil
}
