(* drv_blind.ml — C05 families bv2 (psetv2 blinder, several parties) and bv0 (pset v0 blinder).
   Reads the case line written by the harness generator (shape, true openings of the spent outputs,
   then what the library's generator produced) and prints what the extracted model predicts. *)
open Model
open Drv_util

let rec z_of_int i = if i = 0 then Z0 else if i > 0 then Zpos (pos_of_int i) else Zneg (pos_of_int (-i))
let opt_hex s = if s = "-" then None else Some (bytes_of_hex s)
let next_opt t = opt_hex (next t)
let next_bool t = next_int t = 1
let next_z t = z_of_int (next_int t)

type sin = { s_conf : bool; s_asset : int; s_value : int; s_iss : int; s_issv : int; s_isst : int; s_issb : bool }
type sout = { q_asset : int; q_value : int; q_blind : bool; q_bidx : int; q_fee : bool }

let read_common t =
  let _seed = next t in
  let _spec = next_int t in
  let ins = next_list t (fun t ->
    let c = next_bool t in let a = next_int t in let v = next_int t in let k = next_int t in
    let iv = next_int t in let it = next_int t in let ib = (next_int t = 1) in
    { s_conf = c; s_asset = a; s_value = v; s_iss = k; s_issv = iv; s_isst = it; s_issb = ib }) in
  let outs = next_list t (fun t ->
    let a = next_int t in let v = next_int t in let b = next_bool t in let bi = next_int t in let f = next_bool t in
    { q_asset = a; q_value = v; q_blind = b; q_bidx = bi; q_fee = f }) in
  (ins, outs)

let hexo = function None -> "-" | Some b -> hex_of_bytes b

(* ---------------- bv2 ---------------- *)
let bv2_line t : string =
  let (ins, outs) = read_common t in
  let parties = next_list t (fun t ->
    let _ctor = next_int t in
    let own = next_list t next_int in let os = next_list t next_int in let is = next_list t next_int in
    let fl = next_list t next_int in
    (own, os, is, fl)) in
  let opens = Stdlib.List.map (fun _ -> let a = next_hex t in let v = next_hex t in (a, v)) ins in
  if next t <> "|" then failwith "format";
  let nobs = next_int t in
  let obs = Stdlib.List.init nobs (fun _ ->
    let genres = next_int t in
    let vok = next_bool t in
    let owned = next_list t (fun t ->
      let i = next_n t in let v = next_z t in let ab = next_opt t in let vb = next_opt t in
      { bow_idx = i; bow_value = v; bow_abf = ab; bow_vbf = vb }) in
    let iss = next_list t (fun t ->
      let i = next_n t in let vb = next_opt t in let tb = next_opt t in let hv = next_bool t in let ht = next_bool t in
      { bia_idx = i; bia_vbf = vb; bia_tbf = tb; bia_hasvc = hv; bia_hastc = ht }) in
    let oas = next_list t (fun t ->
      let i = next_n t in let ab = next_opt t in let vb = next_opt t in
      { boa_idx = i; boa_abf = ab; boa_vbf = vb }) in
    let fvok = next_bool t in
    let fas = next_list t (fun t ->
      let i = next_n t in let ab = next_opt t in let vb = next_opt t in
      { boa_idx = i; boa_abf = ab; boa_vbf = vb }) in
    (genres, { bpa_genok = (genres = 1); bpa_vok = vok; bpa_owned = owned; bpa_iss = iss; bpa_outs = oas }, fvok, fas)) in
  let p0 = {
    bps_ins = Stdlib.List.map (fun i ->
      { bpi_conf = i.s_conf;
        bpi_issv = z_of_int (if i.s_iss <> 0 then i.s_issv else 0);
        bpi_issk = z_of_int (if i.s_iss = 1 then i.s_isst else 0);
        bpi_vopen = None; bpi_topen = None }) ins;
    bps_outs = Stdlib.List.map (fun o ->
      { bpo_value = z_of_int o.q_value; bpo_blind = o.q_blind; bpo_bidx = n_of_int o.q_bidx; bpo_open = None }) outs;
    bps_scalars = [] } in
  let nparties = Stdlib.List.length parties in
  let ws = Stdlib.List.map2 (fun i (a, v) ->
    { bwi_asset = n_of_int i.s_asset; bwi_value = z_of_int i.s_value; bwi_abf = a; bwi_vbf = v;
      bwi_iss = n_of_int i.s_iss; bwi_issv = z_of_int i.s_issv;
      bwi_isst = z_of_int (if i.s_iss = 1 then i.s_isst else 0) }) ins opens in
  let buf = Buffer.create 256 in
  let show_ok k last s pre =
    if last then Buffer.add_string buf (Printf.sprintf "p%d=%sok:last:%s " k pre (hexo s.bso_lastvbf))
    else Buffer.add_string buf (Printf.sprintf "p%d=%sok:%s " k pre (hexo s.bso_scalar)) in
  let rec go k p obs =
    match obs with
    | [] -> Some p
    | (genres, pa, fvok, fas) :: rest ->
      let last = (k = nparties - 1) in
      if genres <> 1 then begin
        Buffer.add_string buf (Printf.sprintf "p%d=%s " k (if genres = 2 then "panic" else "abort")); None
      end else begin
        (* what UnblindInputs must have returned for this packet *)
        let (own, _, _, fl) = Stdlib.List.nth parties k in
        let pred = bl_unblind_inputs ws (Stdlib.List.map n_of_int own) in
        Buffer.add_string buf (Printf.sprintf "o%d=%s " k (Stdlib.String.concat "," (Stdlib.List.map (fun o ->
          Printf.sprintf "%d:%d:%s:%s" (int_of_n o.bow_idx) (int_of_z o.bow_value) (hexo o.bow_abf) (hexo o.bow_vbf)) pred)));
        if fl = [] then
          match bl_party_step p pa last with
          | BOk s -> show_ok k last s ""; go (k + 1) s.bso_pset rest
          | BErr -> Buffer.add_string buf (Printf.sprintf "p%d=err " k); None
          | BPanic -> Buffer.add_string buf (Printf.sprintf "p%d=panic " k); None
        else if not (bl_new_blinder p pa.bpa_owned) then begin
          Buffer.add_string buf (Printf.sprintf "p%d=err " k); None end
        else
          (* a first call with the partial arguments, then the real one on the same Blinder *)
          match bl_blind p pa.bpa_owned pa.bpa_iss fas last fvok with
          | BPanic -> Buffer.add_string buf (Printf.sprintf "p%d=panic " k); None
          | first ->
            let (pre, p1) = (match first with BOk s -> ("try.ok.1/", s.bso_pset) | _ -> ("try.err.1/", p)) in
            (match bl_blind p1 pa.bpa_owned pa.bpa_iss pa.bpa_outs last pa.bpa_vok with
             | BOk s -> show_ok k last s pre; go (k + 1) s.bso_pset rest
             | BErr -> Buffer.add_string buf (Printf.sprintf "p%d=%serr " k pre); None
             | BPanic -> Buffer.add_string buf (Printf.sprintf "p%d=panic " k); None)
      end in
  let fin = go 0 p0 obs in
  (match fin with
   | Some p when Stdlib.List.length obs = nparties ->
     let wos = Stdlib.List.map (fun o -> { bwo_asset = n_of_int o.q_asset; bwo_value = z_of_int o.q_value }) outs in
     let bl = Stdlib.String.concat "" (Stdlib.List.map (fun o -> match o.bpo_open with Some _ -> "1" | None -> "0") p.bps_outs) in
     Buffer.add_string buf (Printf.sprintf "done=1 bl=%s bal=%s" bl (b2s (bl_balanced ws wos p)))
   | _ -> Buffer.add_string buf "done=0");
  Buffer.contents buf

let cmd_bv2 t = print_endline (bv2_line t)

(* history: sub-scenarios separated by ";;", each a pure function of its own packet and keys *)
let cmd_bvh t =
  let rec split acc cur = function
    | [] -> Stdlib.List.rev (if cur = [] then acc else Stdlib.List.rev cur :: acc)
    | ";;" :: r -> split (Stdlib.List.rev cur :: acc) [] r
    | x :: r -> split acc (x :: cur) r in
  let subs = split [] [] t.l in
  print_endline (Stdlib.String.concat " ;; " (Stdlib.List.map (fun l -> bv2_line { l = l }) subs))

(* ---------------- bv0 ---------------- *)
let cmd_bv0 t =
  let (ins, outs) = read_common t in
  let sel = next_list t next_n in
  let km = next_int t in
  let keys = km >= 1 in let tokkey = km <> 2 in
  let _ctor = next_int t in
  let opens = Stdlib.List.map (fun _ -> let a = next_hex t in let v = next_hex t in (a, v)) ins in
  if next t <> "|" then failwith "format";
  let sok = next_bool t in
  let rng = next_list t next_hex in
  let mins = Stdlib.List.map2 (fun i (a, v) ->
    { bi0_asset = n_of_int i.s_asset; bi0_value = z_of_int i.s_value; bi0_abf = a; bi0_vbf = v;
      bi0_iss = n_of_int i.s_iss; bi0_issv = z_of_int i.s_issv;
      bi0_isst = z_of_int (if i.s_iss = 1 then i.s_isst else 0) }) ins opens in
  let mouts = Stdlib.List.map (fun o ->
    { bo0_asset = n_of_int o.q_asset; bo0_value = z_of_int o.q_value; bo0_noscript = o.q_fee }) outs in
  match b0_blind mins mouts sel keys tokkey sok rng with
  | BErr -> print_endline "res=err"
  | BPanic -> print_endline "res=panic"
  | BOk r ->
    let os = Stdlib.List.map (function None -> "-" | Some (a, v) -> hex_of_bytes a ^ ":" ^ hex_of_bytes v) r.br0_outs in
    let is = Stdlib.List.map (function
      | (None, _) -> "-"
      | (Some v, None) -> hex_of_bytes v ^ ":-"
      | (Some v, Some w) -> hex_of_bytes v ^ ":" ^ hex_of_bytes w) r.br0_iss in
    Printf.printf "res=ok o=%s iss=%s bal=%s\n" (Stdlib.String.concat "," os) (Stdlib.String.concat "," is)
      (b2s (b0_balanced mins mouts r))

let () = register "bv2" cmd_bv2; register "bv0" cmd_bv0; register "bvh" cmd_bvh
