(* drv_roles.ml — family "hist" (C11): runs the extracted role state machine (Model.R11) on an
   operation history and prints the same projection line as harness/roles.go *)
open Model
open Drv_util
open R11

let z_of_int i = if i = 0 then Z0 else if i > 0 then Zpos (pos_of_int i) else Zneg (pos_of_int (-i))
let ni = int_of_n
let b01 b = if b then "1" else "0"

let rec script_of_name (s : string) : script =
  let pre p = Stdlib.String.length s > Stdlib.String.length p && Stdlib.String.sub s 0 (Stdlib.String.length p) = p in
  let rest p = Stdlib.String.sub s (Stdlib.String.length p) (Stdlib.String.length s - Stdlib.String.length p) in
  if s = "e" then SEmpty else if s = "tr" then STr else if s = "junk" then SJunk
  else if pre "sh." then SSh (script_of_name (rest "sh."))
  else if pre "wsh." then SWsh (script_of_name (rest "wsh."))
  else if pre "wpkh" then SWpkh (n_of_int (int_of_string (rest "wpkh")))
  else if pre "pkh" then SPkh (n_of_int (int_of_string (rest "pkh")))
  else if pre "ms" then SMs (n_of_int (int_of_string (rest "ms")))
  else failwith ("script " ^ s)
let oscript_of_tok s = if s = "n" then None else Some (script_of_name s)
let rec name_of_script = function
  | SEmpty -> "e" | STr -> "tr" | SJunk -> "junk"
  | SPkh k -> "pkh" ^ string_of_int (ni k) | SWpkh k -> "wpkh" ^ string_of_int (ni k)
  | SMs m -> "ms" ^ string_of_int (ni m)
  | SSh s -> "sh." ^ name_of_script s | SWsh s -> "wsh." ^ name_of_script s
let name_of_oscript = function None -> "n" | Some s -> name_of_script s

let key_of_tok s = match s with
  | "k0" -> Some (n_of_int 0) | "k1" -> Some (n_of_int 1) | "k2" -> Some (n_of_int 2) | _ -> None
let addr_of_tok s = n_of_int (match s with "-" -> 0 | "u0" -> 1 | "c0" -> 2 | _ -> 3)

let read_inarg t =
  let cls = next_n t in let tt = next_n t in let idx = next_n t in let seq = next_n t in
  let h = next_n t in let tm = next_n t in
  { ia_cls = cls; ia_t = tt; ia_idx = idx; ia_seq = seq; ia_height = h; ia_time = tm }
let read_outarg t =
  let cls = next_n t in let amt = next_n t in let s = oscript_of_tok (next t) in
  let bk = n_of_int (match next t with "-" -> 0 | "bad" -> 2 | _ -> 1) in
  let bidx = next_n t in
  { oa_cls = cls; oa_amount = amt; oa_script = s; oa_bk = bk; oa_bidx = bidx }

let read_op t : string * op =
  let name = next t in
  (name,
  let idx () = z_of_int (next_int t) in
  match name with
  | "setmod" -> let f = next t in OSetMod (if f = "nil" then None else Some (n_of_int (int_of_string f)))
  | "addins" -> OAddInputs (next_list t read_inarg)
  | "addouts" -> OAddOutputs (next_list t read_outarg)
  | "nwutxo" -> let i = idx () in let tt = next_n t in ONwUtxo (i, tt)
  | "wutxo" -> let i = idx () in let s = next t in let c = next_int t = 1 in
    OWUtxo (i, if s = "nil" then None else Some { u_script = script_of_name s; u_conf = c })
  | "redeem" -> let i = idx () in ORedeem (i, oscript_of_tok (next t))
  | "wscript" -> let i = idx () in OWScript (i, oscript_of_tok (next t))
  | "bip32" -> let i = idx () in let k = key_of_tok (next t) in let pl = next_int t in OBip32 (i, k, pl > 0)
  | "obip32" -> let i = idx () in let k = key_of_tok (next t) in let pl = next_int t in OOutBip32 (i, k, pl > 0)
  | "sighash" -> let i = idx () in OSighash (i, next_n t)
  | "utxorp" -> let i = idx () in OUtxoRp (i, next_int t = 1)
  | "expasset" -> let i = idx () in let l = next_int t = 1 in let p = next_int t = 1 in OExpAsset (i, l, p)
  | "expvalue" -> let i = idx () in let v = next_n t in let p = next_int t = 1 in OExpValue (i, v, p)
  | "issue" ->
    let i = idx () in let prec = next_n t in let c = next_n t in let aamt = next_n t in let tamt = next_n t in
    let aa = addr_of_tok (next t) in let ta = addr_of_tok (next t) in let bl = next_int t = 1 in
    OIssue (i, { is_prec = prec; is_contract = c; is_aamt = aamt; is_tamt = tamt; is_aaddr = aa; is_taddr = ta; is_blinded = bl })
  | "reissue" ->
    let i = idx () in let b = next_n t in let e = next_n t in let aamt = next_n t in let aa = addr_of_tok (next t) in
    let tamt = next_n t in let ta = addr_of_tok (next t) in
    OReissue (i, { ri_blinder = b; ri_entropy = e; ri_aamt = aamt; ri_aaddr = aa; ri_tamt = tamt; ri_taddr = ta })
  | "tapik" -> let i = idx () in OTapIk (i, next_n t)
  | "tapmr" -> let i = idx () in OTapMr (i, next_n t)
  | "tapleaf" -> let i = idx () in OTapLeaf (i, next_n t)
  | "tapbip32" ->
    let i = idx () in let k = (match key_of_tok (next t) with Some k -> k | None -> failwith "key") in
    let nh = next_int t in let hl = next_int t in let pl = next_int t in
    OTapBip32 (i, { tb_key = k; tb_nh = n_of_int nh; tb_hlen = n_of_int (if nh = 0 then 0 else hl); tb_path = pl > 0 })
  | "oredeem" -> let i = idx () in OOutRedeem (i, oscript_of_tok (next t))
  | "owscript" -> let i = idx () in OOutWScript (i, oscript_of_tok (next t))
  | "sign" ->
    let i = idx () in let sc = next_int t in let ht = next_n t in let k = key_of_tok (next t) in
    let rs = oscript_of_tok (next t) in let ws = oscript_of_tok (next t) in
    OSign (i, sc = 0, ht, k, rs, ws)
  | "tapkeysig" -> let i = idx () in OTapKeySig (i, next_n t)
  | "tapscriptsig" ->
    let i = idx () in let pkl = next_n t in let sl = next_n t in let leaf = next_n t in let lhok = next_int t in
    let pkid = next_n t in
    OTapScriptSig (i, { ts_pk = pkid; ts_pklen = pkl; ts_siglen = sl; ts_leaf = leaf; ts_lhlen = n_of_int (if lhok = 0 then 31 else 32) })
  | "blind" ->
    let last = next_int t = 1 in
    let owned = next_list t next_n in
    let iss = next_list t (fun t -> let i = next_n t in let c = next_n t in (i, c)) in
    let outs = next_list t (fun t -> let i = next_n t in let c = next_n t in (i, c)) in
    let surj = next_int t = 1 in let ba = next_int t = 1 in let rg = next_int t = 1 in let bv = next_int t = 1 in
    let gf = next_n t in let sc = next_n t in
    OBlind { bl_last = last; bl_owned = owned; bl_iss = iss; bl_outs = outs; bl_surj = surj; bl_basset = ba;
             bl_range = rg; bl_bvalue = bv; bl_gfail = gf; bl_scalar = sc }
  | "finalize" -> OFinalize (idx ())
  | "maybefinalize" -> OMaybeFinalize (idx ())
  | "finalizeall" -> OFinalizeAll
  | "maybefinalizeall" -> OMaybeFinalizeAll
  | _ -> failwith ("op " ^ name))

let proj_input (c : core) (a : aux) : string =
  let cat = Stdlib.String.concat "" in
  let f = [
    Printf.sprintf "%d%s:%d" (ni c.c_t) (if c.c_short then "s" else "") (ni c.c_idx);
    string_of_int (ni c.c_seq); string_of_int (ni c.c_time); string_of_int (ni c.c_height);
    "nw" ^ b01 a.a_nw ^ b01 a.a_nwrp;
    (match a.a_w with None -> "w-" | Some u -> "w" ^ name_of_script u.u_script ^ "/" ^ b01 u.u_conf);
    "ps" ^ cat (Stdlib.List.map (fun (k, h) -> Printf.sprintf "_%dh%d" (ni k) (ni h)) a.a_psigs);
    "sh" ^ string_of_int (ni a.a_sighash);
    "r" ^ name_of_oscript a.a_redeem; "ws" ^ name_of_oscript a.a_wscript;
    "b" ^ cat (Stdlib.List.map (fun (k, p) -> Printf.sprintf "_%d%s" (ni k) (b01 p)) a.a_bip32);
    "f" ^ b01 a.a_fss ^ b01 a.a_fsw;
    Printf.sprintf "iss%d.%d.%s.%s.%s.%s" (ni a.a_issval) (ni a.a_isskeys) (b01 a.a_entropy) (b01 a.a_nonce)
      (match a.a_blindediss with None -> "n" | Some b -> b01 b)
      (Stdlib.String.make 6 (if a.a_issblind then '1' else '0'));
    "urp" ^ b01 a.a_urp;
    Printf.sprintf "ev%d.%s.%d.%s" (ni a.a_expval) (b01 a.a_valproof) (ni a.a_expasset) (b01 a.a_assetproof);
    "tk" ^ string_of_int (ni a.a_tapkeysig);
    "ts" ^ cat (Stdlib.List.map (fun s -> Printf.sprintf "_%d.%d.%d.%d.%d" (ni s.ts_pk) (ni s.ts_pklen) (ni s.ts_siglen) (ni s.ts_leaf) (ni s.ts_lhlen)) a.a_tapss);
    "tl" ^ cat (Stdlib.List.map (fun l -> "_" ^ string_of_int (ni l)) a.a_tapleaves);
    "tb" ^ cat (Stdlib.List.map (fun d -> Printf.sprintf "_%d.%d.%d.%s" (ni d.tb_key) (ni d.tb_nh) (ni d.tb_hlen) (b01 d.tb_path)) a.a_tapbip32);
    "ik" ^ string_of_int (ni a.a_tapik); "mr" ^ string_of_int (ni a.a_tapmr) ] in
  Stdlib.String.concat "," f

let proj_output (o : outp) : string =
  let cat = Stdlib.String.concat "" in
  Stdlib.String.concat "," [
    string_of_int (ni o.o_value); "a" ^ string_of_int (ni o.o_assetlen); name_of_oscript o.o_script;
    "bk" ^ string_of_int (ni o.o_bk); "bi" ^ string_of_int (ni o.o_bidx);
    "c" ^ Stdlib.String.make 7 (if o.o_blinded then '1' else '0');
    "r" ^ name_of_oscript o.o_redeem; "ws" ^ name_of_oscript o.o_wscript;
    "b" ^ cat (Stdlib.List.map (fun (k, p) -> Printf.sprintf "_%d%s" (ni k) (b01 p)) o.o_bip32) ]

let proj_pset (p : pset) : string =
  let flags = match p.g_flags with None -> "n" | Some f -> string_of_int (ni f) in
  let fb = match p.g_fallback with None -> "n" | Some f -> string_of_int (ni f) in
  let sc = "sc" ^ Stdlib.String.concat "" (Stdlib.List.map (fun s -> "_" ^ string_of_int (ni s)) p.g_scalars) in
  let rec zip cs auxs = match cs, auxs with c :: cs', a :: as' -> proj_input c a :: zip cs' as' | _, _ -> [] in
  Printf.sprintf "g:%d.%d.%s.%s.%s.lt%d|%s|%s|rt:%s" (ni p.g_nin) (ni p.g_nout) flags fb sc (ni (locktime p))
    (Stdlib.String.concat ";" (zip p.p_cores p.p_auxs))
    (Stdlib.String.concat ";" (Stdlib.List.map proj_output p.p_outs))
    (match rt_class p with RtSame -> "same" | RtDiff -> "diff" | RtFail -> "fail")

let cmd_hist t =
  let ins = next_list t read_inarg in
  let outs = next_list t read_outarg in
  let fb = (match next t with "n" -> None | x -> Some (n_of_int (int_of_string x))) in
  let ops = next_list t read_op in
  match init ins outs fb with
  | IErr -> print_string "new=err\n"
  | IPanic -> print_string "new=panic\n"
  | IOk p0 ->
    let b = Buffer.create 4096 in
    Buffer.add_string b "new=ok";
    Buffer.add_string b (Printf.sprintf " s0=new:ok|%s" (proj_pset p0));
    let p = ref p0 in
    Stdlib.List.iteri (fun k (name, o) ->
      let (p', r) = step !p o in
      p := p';
      Buffer.add_string b (Printf.sprintf " s%d=%s:%s|%s" (k + 1) name (match r with Ok -> "ok" | Err -> "err" | Panic -> "panic") (proj_pset p'))) ops;
    Buffer.add_char b '\n';
    print_string (Buffer.contents b)

let () = register "hist" cmd_hist
