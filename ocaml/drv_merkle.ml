(* drv_merkle.ml — merkle family (C20): mk (Bitcoin's builder from the spec + the extractor),
   proof (raw merkle block: parse + ExtractMatches), claim (pegin.Claim) *)
open Model
open Drv_util

let hexlist (l : byte list list) : string =
  match l with [] -> "-" | _ -> Stdlib.String.concat "," (Stdlib.List.map hex_of_bytes l)

let show_proof (r : proof_result) : string =
  let parsed (m : merkle_block) =
    Printf.sprintf "cnt=%s nh=%d flags=%s hroot=%s" (hex_of_n m.mb_count) (Stdlib.List.length m.mb_hashes)
      (hex_of_bytes m.mb_flags) (hex_of_bytes (header_root m.mb_header)) in
  match r with
  | PParseErr -> "err res=parse-err"
  | PExtractErr m -> Printf.sprintf "err res=extract-err %s" (parsed m)
  | POk (m, root, ms) -> Printf.sprintf "res=ok %s root=%s matches=%s" (parsed m) (hex_of_bytes root) (hexlist ms)

(* mk <header> <n> (<txid> <0|1>)*n *)
let cmd_mk t =
  let header = next_hex t in
  let l = next_list t (fun t -> let h = next_hex t in let m = next_int t = 1 in (h, m)) in
  let mroot = match mkl_root (Stdlib.List.map fst l) with Some r -> hex_of_bytes r | None -> "none" in
  match mkl_build header l with
  | None -> Printf.printf "blob=none mroot=%s\n" mroot
  | Some blob -> Printf.printf "blob=%s mroot=%s %s\n" (hex_of_bytes blob) mroot (show_proof (mkl_run blob))

(* proof <blob> *)
let cmd_proof t =
  let blob = next_hex t in
  Printf.printf "%s\n" (show_proof (mkl_run blob))

(* claim <dyn> <asset> <genesis> <fedpeg> <contract> <btctx> <proof> <claimscript> <num hex> <k>
         <0 | 1 <txid> <stripped> <mainscript> <nouts> (<value hex> <script>)*> *)
let cmd_claim t =
  let _dyn = next_int t in
  let asset = next_hex t in let genesis = next_hex t in
  let _fedpeg = next_hex t in let _contract = next_hex t in let _btctx = next_hex t in
  let proof = next_hex t in let cs = next_hex t in
  let num = n_of_hex (next t) in let k = next_n t in
  let bv = if next_int t = 1 then begin
      let txid = next_hex t in let stripped = next_hex t in let ms = next_hex t in
      let outs = next_list t (fun t -> let v = n_of_hex (next t) in let s = next_hex t in (v, s)) in
      Some { bv_txid = txid; bv_stripped = stripped; bv_outs = outs; bv_main_script = ms } end
    else None in
  match mkl_claim asset genesis cs proof bv num k with
  | PgOk x -> Printf.printf "res=ok tx=%s\n" (hex_of_bytes (ser_full x))
  | PgErr -> Printf.printf "err res=err\n"
  | PgPanic -> Printf.printf "panic\n"

(* mhist <blob> <nops> (x | c <count hex> | f <bit index> | h <hash index> <byte index> <mask> | ha <i> <byte> | hd <i> | he <i>)* *)
let cmd_hist t =
  let blob = next_hex t in
  let ops = next_list t (fun t ->
    match next t with
    | "x" -> HExtract
    | "c" -> HCount (n_of_hex (next t))
    | "f" -> HFlip (nat_of_int (next_int t))
    | "h" -> let i = next_int t in let j = next_int t in let m = next_int t in
             HHash (nat_of_int i, nat_of_int j, n_of_int m)
    | "ha" -> let i = next_int t in let b = next_int t in HAppend (nat_of_int i, n_of_int b)
    | "hd" -> HDropLast (nat_of_int (next_int t))
    | "he" -> HEmpty (nat_of_int (next_int t))
    | o -> failwith ("op " ^ o)) in
  match mkl_hist blob ops with
  | None -> Printf.printf "err res=parse-err\n"
  | Some None -> Printf.printf "panic\n"
  | Some (Some l) ->
    let show = function
      | None -> "err"
      | Some (root, ms) -> Printf.sprintf "ok:%s:%s" (hex_of_bytes root) (hexlist ms) in
    Printf.printf "calls=%d %s\n" (Stdlib.List.length l)
      (Stdlib.String.concat " " (Stdlib.List.mapi (fun i r -> Printf.sprintf "x%d=%s" i (show r)) l))

let () =
  register "mhist" cmd_hist;
  register "mk" cmd_mk; register "mkc" cmd_mk; register "mkdense" cmd_mk; register "mkdbig" cmd_mk; register "proof" cmd_proof; register "claim" cmd_claim
