(* drv_taproot.ml — taproot family: taptree, tapcb, taptweak (property C16) *)
open Model
open Drv_util

let byte_of_hex1 (s : string) : byte = byte_tbl.(int_of_string ("0x" ^ s))

(* taptree <key33> <qx> <qodd> <n> (<ver> <script>)*n
   key33: compressed internal key; qx/qodd: x-only bytes and parity of the output key
   (curve arithmetic: computed by the generator with the implementation's library) *)
let cmd_taptree t =
  let key33 = next_hex t in
  let qx = next_hex t in
  let qodd = next_int t = 1 in
  let leaves = next_list t (fun t ->
    let v = byte_of_hex1 (next t) in let s = next_hex t in { tlf_version = v; tlf_script = s }) in
  let keyx = match key33 with _ :: r -> r | [] -> [] in
  match assemble_c leaves with
  | GoPanic -> Printf.printf "panic\n"
  | OutOfFuel -> Printf.printf "out-of-fuel\n"
  | Done (None, _) -> Printf.printf "res=ok root=none\n"
  | Done (Some root, st) ->
    let rooth = tnode_hash root in
    let cbs = Stdlib.List.map (fun e -> to_cb e keyx qodd) st in
    let sers = Stdlib.List.map ser_cb cbs in
    (* byte round trip; the internal key is valid by construction of the case *)
    let rts = Stdlib.List.map (fun s ->
      match parse_cb (fun _ -> true) s with
      | Some c -> Some c
      | None -> None) sers in
    let rt = Stdlib.List.for_all2 (fun s r -> match r with Some c -> ser_cb c = s | None -> false) sers rts in
    (* the verdict is recomputed for leaves 0, 1, n/2 and n-1 only (the control blocks of
       all leaves are compared byte for byte anyway) *)
    let n = Stdlib.List.length st in
    let pick i = i = 0 || i = 1 || i = n / 2 || i = n - 1 in
    let vers = Stdlib.List.filteri (fun i _ -> pick i) (Stdlib.List.map2 (fun (e : proof_entry) r -> (e, r)) st rts) in
    let vers = Stdlib.List.map (fun ((e : proof_entry), r) ->
      match r with
      | Some c -> cb_root_c c e.pe_leaf.tlf_script = rooth && verify_with_oracle c qx qx qodd
      | None -> false) vers in
    (* the same leaves with the control block as built in memory (leaf version unmasked, also
       when it is odd), and with a forged block whose leaf version differs in bit 0 only *)
    let mems = Stdlib.List.filteri (fun i _ -> pick i) (Stdlib.List.map2 (fun (e : proof_entry) c -> (e, c)) st cbs) in
    let mem = Stdlib.List.map (fun ((e : proof_entry), c) ->
      cb_root_c c e.pe_leaf.tlf_script = rooth && verify_with_oracle c qx qx qodd) mems in
    let flip = Stdlib.List.map (fun ((e : proof_entry), c) ->
      let c' = { c with cb_version = byte_tbl.((int_of_byte c.cb_version) lxor 1) } in
      cb_root_c c' e.pe_leaf.tlf_script = rooth && verify_with_oracle c' qx qx qodd) mems in
    let kv = match leaves, cbs with
      | l :: _, c :: _ when l.tlf_script <> [] ->
        let (k, v) = tapleaf_kv l c in
        let back = (match parse_tapleaf_kv_c k v with
          | KvOk (l', c') -> if l' = l && c' = c then "ok" else "differs"
          | KvErr -> "err" | KvPanic -> "panic") in
        Printf.sprintf "kvk=%s kvv=%s kvrt=%s" (hex_of_bytes k) (hex_of_bytes v) back
      | _ -> "kvk=- kvv=- kvrt=-" in
    Printf.printf "res=ok root=%s cbs=%s rt=%s ver=%s mem=%s flip=%s %s\n" (hex_of_bytes rooth)
      (Stdlib.String.concat "," (Stdlib.List.map hex_of_bytes sers))
      (b2s rt) (Stdlib.String.concat "" (Stdlib.List.map b2s vers))
      (Stdlib.String.concat "" (Stdlib.List.map b2s mem))
      (Stdlib.String.concat "" (Stdlib.List.map b2s flip)) kv

(* tapcb <cb bytes> <script> <program> <qx> <qodd>
   qx/qodd: output key of (key in cb, root) as computed by the curve library, "-"/0 if the
   block does not parse *)
let cmd_tapcb t =
  let bs = next_hex t in
  let script = next_hex t in
  let prog = next_hex t in
  let qx = next_hex t in
  let qodd = next_int t = 1 in
  match parse_cb_c bs with
  | None -> Printf.printf "res=err\n"
  | Some c ->
    Printf.printf "res=ok key=%s odd=%s lv=%02x proof=%s root=%s verdict=%s reser=%s\n"
      (hex_of_bytes c.cb_key) (b2s c.cb_odd) (int_of_byte c.cb_version) (hex_of_bytes c.cb_proof)
      (hex_of_bytes (cb_root_c c script)) (b2s (verify_with_oracle c prog qx qodd))
      (hex_of_bytes (ser_cb c))

(* taptweak <d 32 bytes> <root> <pkx> <pkodd>: pkx/pkodd = x-only bytes and parity of d*G *)
let cmd_taptweak t =
  let d = next_hex t in
  let root = next_hex t in
  let pkx = next_hex t in
  let pkodd = next_int t = 1 in
  let (tw, after) = tweak_priv pkodd pkx (scalar_of_bytes d) root in
  Printf.printf "tw=%s after=%s\n" (hex_of_bytes (scalar_to_bytes tw)) (hex_of_bytes (scalar_to_bytes after))

(* tapkeys <n> (<ver> <script>)*n <k> (<key33> <qx> <qodd>)*k <m> (<key index> <leaf index>)*m
   one tree, several internal keys; the model is a function of (leaf entry, key): order-free *)
let cmd_tapkeys t =
  let leaves = next_list t (fun t ->
    let v = byte_of_hex1 (next t) in let s = next_hex t in { tlf_version = v; tlf_script = s }) in
  let keys = Array.of_list (next_list t (fun t ->
    let k33 = next_hex t in let qx = next_hex t in let qodd = next_int t = 1 in
    ((match k33 with _ :: r -> r | [] -> []), qx, qodd))) in
  let ops = next_list t (fun t -> let k = next_int t in let l = next_int t in (k, l)) in
  match assemble_c leaves with
  | Done (Some root, st) ->
    let rooth = tnode_hash root in
    let sta = Array.of_list st in
    let res = Stdlib.List.map (fun (k, l) ->
      let (keyx, qx, qodd) = keys.(k) in
      let (e : proof_entry) = sta.(l) in
      let s = ser_cb (to_cb e keyx qodd) in
      let v = (match parse_cb (fun _ -> true) s with
        | Some c -> cb_root_c c e.pe_leaf.tlf_script = rooth && verify_with_oracle c qx qx qodd
        | None -> false) in
      (hex_of_bytes s, b2s v)) ops in
    Printf.printf "res=ok root=%s cbs=%s ver=%s\n" (hex_of_bytes rooth)
      (Stdlib.String.concat "," (Stdlib.List.map fst res))
      (Stdlib.String.concat "" (Stdlib.List.map snd res))
  | Done (None, _) -> Printf.printf "res=ok root=none\n"
  | GoPanic -> Printf.printf "panic\n"
  | OutOfFuel -> Printf.printf "out-of-fuel\n"

let () =
  register "tapbig" cmd_taptree; register "tapkeys" cmd_tapkeys;
  register "taptree" cmd_taptree; register "tapcb" cmd_tapcb; register "taptweak" cmd_taptweak
