(* drv_txiss.ml — families issid, issmid, isscon, issv0, issv2 (C13) *)
open Model
open Drv_util

let n_of_dec (s : string) : n =
  let acc = ref N0 in
  Stdlib.String.iter (fun c ->
    acc := N.add (N.mul !acc (n_of_int 10)) (n_of_int (Char.code c - 48))) s;
  !acc
let dec_of_n (x : n) : string =
  (* decimal via repeated division; used for 64-bit quantities only *)
  let rec go x acc =
    let (q, r) = N.div_eucl x (n_of_int 10) in
    let acc = string_of_int (int_of_n r) :: acc in
    match q with N0 -> acc | _ -> go q acc in
  Stdlib.String.concat "" (go x [])
let next_dec t = n_of_dec (next t)

let opt_of_tok s = if s = "nil" then None else Some (bytes_of_hex s)
let tok_of_opt o = match o with None -> "nil" | Some b -> hex_of_bytes b
let next_opt t = opt_of_tok (next t)

let res_opt o = match o with None -> "err" | Some b -> hex_of_bytes b

let cmd_issid t =
  let hash = next_hex t in
  let index = next_dec t in
  let chash = next_hex t in
  let entropy = next_hex t in
  let flag = next_dec t in
  let nonce = next_hex t in
  let ient = next_hex t in
  let fi = match new_from_input hash index { iss_nonce = nonce; iss_entropy = ient; iss_amount = []; iss_token = [] } with
    | None -> "err"
    | Some ie -> hex_of_bytes ie.ie_iss.iss_entropy ^ "/" ^ hex_of_bytes ie.ie_chash in
  Printf.printf "entropy=%s asset=%s token=%s frominput=%s\n"
    (res_opt (compute_entropy hash index chash)) (res_opt (compute_asset entropy))
    (res_opt (compute_token entropy flag)) fi

let cmd_issmid t =
  let b = next_hex t in
  Printf.printf "mid=%s\n" (hex_of_bytes (midstate256 b))

let read_contract t : iss_contract option =
  if next_int t = 0 then None else begin
    let name = next_hex t in let ticker = next_hex t in
    let version = next_dec t in let precision = next_dec t in
    let pk = next_hex t in let dom = next_hex t in
    Some { c_name = name; c_ticker = ticker; c_version = version; c_precision = precision; c_pubkey = pk; c_domain = dom }
  end

let cmd_isscon t =
  let asset = next_dec t in let token = next_dec t in let prec = next_dec t in
  let c = read_contract t in
  match new_tx_issuance asset token prec c with
  | None -> Printf.printf "res=err\n"
  | Some ie ->
    (* outside wf_contract (escape-free ASCII, numbers below 2^53) the document is not modelled *)
    let chash = match c with
      | Some ct when not (wf_contract ct) -> "unmodelled"
      | _ -> hex_of_bytes ie.ie_chash in
    Printf.printf "res=ok chash=%s amount=%s token=%s nonce=%s entropy=%s precision=%s\n"
      chash (hex_of_bytes ie.ie_iss.iss_amount) (hex_of_bytes ie.ie_iss.iss_token)
      (hex_of_bytes ie.ie_iss.iss_nonce) (hex_of_bytes ie.ie_iss.iss_entropy) (dec_of_n ie.ie_precision)

let read_addr t : iss_addr =
  let _ = next t in
  let present = next_int t = 1 in let valid = next_int t = 1 in let conf = next_int t = 1 in
  let script = next_hex t in let key = next_hex t in
  { ad_present = present; ad_valid = valid; ad_conf = conf; ad_script = script; ad_key = key }

let read_iss_args t : iss_args =
  let prec = next_dec t in
  let c = read_contract t in
  let asset = next_dec t in let token = next_dec t in
  let aa = read_addr t in let ta = read_addr t in
  let bl = next_int t = 1 in
  { ia_precision = prec; ia_contract = c; ia_asset = asset; ia_token = token; ia_aaddr = aa; ia_taddr = ta; ia_blinded = bl }

(* one v0 step (the op token has been read) *)
let v0_step t op (p : v0pkt) : bool * v0pkt =
  if op = "add" then v0_add_issuance p (read_iss_args t)
  else begin
    let utxo_ok = next_int t = 1 in
    let _ = next t in let hash = next_opt t in
    let idx = next_dec t in
    let bl = next_hex t in
    let _ = next t in let ent = next_opt t in
    let asset = next_dec t in let token = next_dec t in
    let aa = read_addr t in let ta = read_addr t in
    v0_add_reissuance p { rva_utxo_ok = utxo_ok; rva_hash = hash; rva_index = idx; rva_blinder = bl; rva_entropy = ent;
                          rva_asset = asset; rva_token = token; rva_aaddr = aa; rva_taddr = ta }
  end

let cmd_issv0 t =
  let op = next t in
  let nin = next_dec t in let nout = next_dec t in
  let tx = Drv_tx.read_tx t in
  let p = { v0_tx = tx; v0_nin = nin; v0_nout = nout } in
  let (ok, p') = v0_step t op p in
  Printf.printf "res=%s nin=%s nout=%s tx=%s\n" (if ok then "ok" else "err") (dec_of_n p'.v0_nin) (dec_of_n p'.v0_nout)
    (Drv_tx.dump_tx p'.v0_tx)

(* a history of calls on one updater: the packet a call leaves behind (also a failed one) is the next call's *)
let cmd_issh0 t =
  let nin = next_dec t in let nout = next_dec t in
  let tx = Drv_tx.read_tx t in
  let p = ref { v0_tx = tx; v0_nin = nin; v0_nout = nout } in
  let n = next_int t in
  let out = ref [] in
  for i = 1 to n do
    let op = next t in
    let (ok, p') = v0_step t op !p in
    p := p';
    out := Printf.sprintf "r%d=%s n%d=%s/%s t%d=%s" i (if ok then "ok" else "err") i (dec_of_n p'.v0_nin) (dec_of_n p'.v0_nout)
             i (Drv_tx.dump_tx p'.v0_tx) :: !out
  done;
  print_endline (Stdlib.String.concat " " (Stdlib.List.rev !out))

let read_v2pkt t : v2pkt =
  let incount = next_dec t in let outcount = next_dec t in
  let modif = next_int t = 1 in
  let ins = next_list t (fun t ->
    let txid = next_hex t in let index = next_dec t in let seq = next_dec t in
    let value = next_dec t in let vc = next_opt t in
    let keys = next_dec t in let kc = next_opt t in
    let nonce = next_opt t in let ent = next_opt t in
    let bl = (match next t with "0" -> Some false | "1" -> Some true | _ -> None) in
    let pegin = next_int t = 1 in
    { vi_txid = txid; vi_index = index; vi_seq = seq; vi_value = value; vi_vcommit = vc; vi_keys = keys; vi_kcommit = kc;
      vi_nonce = nonce; vi_entropy = ent; vi_blinded = bl; vi_pegin = pegin }) in
  let outs = next_list t (fun t ->
    let value = next_dec t in let asset = next_hex t in let script = next_hex t in
    let bkey = next_hex t in let bidx = next_dec t in
    let vc = next_opt t in let ac = next_opt t in let ec = next_opt t in
    { vo_value = value; vo_asset = asset; vo_script = script; vo_bkey = bkey; vo_bidx = bidx;
      vo_vcommit = vc; vo_acommit = ac; vo_ecdh = ec }) in
  { v2_incount = incount; v2_outcount = outcount; v2_outs_modifiable = modif; v2_ins = ins; v2_outs = outs }

let dump_v2pkt (p : v2pkt) : string =
  let b = Buffer.create 256 in
  let add s = Buffer.add_string b s; Buffer.add_char b ',' in
  add (dec_of_n p.v2_incount); add (dec_of_n p.v2_outcount); add (b2s p.v2_outs_modifiable);
  add (string_of_int (Stdlib.List.length p.v2_ins));
  Stdlib.List.iter (fun i ->
    add (hex_of_bytes i.vi_txid); add (dec_of_n i.vi_index); add (dec_of_n i.vi_seq);
    add (dec_of_n i.vi_value); add (tok_of_opt i.vi_vcommit); add (dec_of_n i.vi_keys); add (tok_of_opt i.vi_kcommit);
    add (tok_of_opt i.vi_nonce); add (tok_of_opt i.vi_entropy);
    add (match i.vi_blinded with None -> "n" | Some true -> "1" | Some false -> "0"); add (b2s i.vi_pegin)) p.v2_ins;
  add (string_of_int (Stdlib.List.length p.v2_outs));
  Stdlib.List.iter (fun o ->
    add (dec_of_n o.vo_value); add (hex_of_bytes o.vo_asset); add (hex_of_bytes o.vo_script); add (hex_of_bytes o.vo_bkey);
    add (dec_of_n o.vo_bidx); add (tok_of_opt o.vo_vcommit); add (tok_of_opt o.vo_acommit); add (tok_of_opt o.vo_ecdh)) p.v2_outs;
  let s = Buffer.contents b in
  Stdlib.String.sub s 0 (Stdlib.String.length s - 1)

let iss_dump (s : issuance option) : string =
  match s with
  | None -> "0"
  | Some s -> "1/" ^ hex_of_bytes s.iss_nonce ^ "/" ^ hex_of_bytes s.iss_entropy ^ "/" ^ hex_of_bytes s.iss_amount ^ "/" ^ hex_of_bytes s.iss_token

let tx_view (g : v2in -> bool) (f : v2in -> issuance option) (p : v2pkt) : string =
  let ins = Stdlib.List.map (fun i -> b2s (g i) ^ ":" ^ iss_dump (f i)) p.v2_ins in
  let outs = Stdlib.List.map (fun o -> let x = unsigned_output o in
    hex_of_bytes x.o_asset ^ "/" ^ hex_of_bytes x.o_value ^ "/" ^ hex_of_bytes x.o_script ^ "/" ^ hex_of_bytes x.o_nonce) p.v2_outs in
  Stdlib.String.concat "," (ins @ ["o"] @ outs)

let v2_step t op (p : v2pkt) : bool * v2pkt =
  let idx = int_of_string (next t) in
  let zidx = if idx = 0 then Z0 else if idx > 0 then Zpos (pos_of_int idx) else Zneg (pos_of_int (- idx)) in
  if op = "add" then v2_add_in_issuance p zidx (read_iss_args t)
  else begin
    let bl = next_hex t in
    let _ = next t in let ent = next_opt t in
    let asset = next_dec t in let token = next_dec t in
    let aa = read_addr t in let ta = read_addr t in
    v2_add_in_reissuance p zidx { r2_blinder = bl; r2_entropy = ent; r2_asset = asset; r2_token = token; r2_aaddr = aa; r2_taddr = ta }
  end

let v2_getters (p : v2pkt) : string =
  Stdlib.String.concat "," (Stdlib.List.map (fun i ->
    tok_of_opt (get_issuance_asset_hash i) ^ "/" ^ tok_of_opt (get_issuance_keys_hash i)) p.v2_ins)

let cmd_issv2 t =
  let op = next t in
  let p = read_v2pkt t in
  let (ok, p') = v2_step t op p in
  Printf.printf "res=%s pkt=%s utx=%s ext=%s get=%s\n" (if ok then "ok" else "err") (dump_v2pkt p')
    (tx_view unsigned_pegin unsigned_issuance p') (tx_view extract_pegin extract_issuance p') (v2_getters p')

let cmd_issh2 t =
  let p = ref (read_v2pkt t) in
  let n = next_int t in
  let out = ref [] in
  for i = 1 to n do
    let op = next t in
    let (ok, p') = v2_step t op !p in
    p := p';
    out := Printf.sprintf "r%d=%s p%d=%s u%d=%s e%d=%s g%d=%s" i (if ok then "ok" else "err") i (dump_v2pkt p')
             i (tx_view unsigned_pegin unsigned_issuance p') i (tx_view extract_pegin extract_issuance p') i (v2_getters p') :: !out
  done;
  print_endline (Stdlib.String.concat " " (Stdlib.List.rev !out))

let () =
  register "issid" cmd_issid; register "issmid" cmd_issmid; register "isscon" cmd_isscon;
  register "issv0" cmd_issv0; register "issv2" cmd_issv2; register "issh0" cmd_issh0; register "issh2" cmd_issh2
