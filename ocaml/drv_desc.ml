(* drv_desc.ml — desc family (C12): descriptor.Parse and the methods of the accepted wallet.
   desc <mk> <text hex> <npk> (<raw hex> <0|1>)* <nwif> (<text hex> <pub hex|->)*
        <nhd> (<text hex> <path len> <elem hex>* <0|1> <pub hex|->)*
   The three tables are the answers of btcec / btcutil / hdkeychain recorded by the harness; a question the
   model asks that is not in them is reported (token oracle-miss), so the choice of questions is not trusted. *)
open Model
open Drv_util

let desc_path (p : n list) : string =
  match p with [] -> "-" | _ -> Stdlib.String.concat "," (Stdlib.List.map hex_of_n p)

let desc_opt (o : byte list option) : string =
  match o with None -> "-" | Some b -> hex_of_bytes b

let cmd_desc t =
  let _mk = next_int t in
  let text = next_hex t in
  let pk = next_list t (fun t -> let raw = next_hex t in let v = next_int t = 1 in (raw, v)) in
  let wif = next_list t (fun t -> let k = next_hex t in let p = next t in (k, if p = "-" then None else Some (bytes_of_hex p))) in
  let hd = next_list t (fun t ->
    let k = next_hex t in
    let path = next_list t (fun t -> n_of_hex (next t)) in
    let ok = next_int t = 1 in
    let p = next t in
    ((k, path), (ok, if p = "-" then None else Some (bytes_of_hex p)))) in
  let miss = ref false in
  let look tbl key dflt = match Stdlib.List.assoc_opt key tbl with Some v -> v | None -> miss := true; dflt in
  let o = { Desc.o_pub = (fun raw -> look pk raw false);
            Desc.o_wif = (fun k -> look wif k None);
            Desc.o_hd_ok = (fun k p -> fst (look hd (k, p) (false, None)));
            Desc.o_hd_pub = (fun k p -> snd (look hd (k, p) (false, None))) } in
  let line =
    match Desc.parse o text with
    | Desc.PErr -> "err res=err"
    | Desc.PNilNil -> "res=nilnil"
    | Desc.PPanic -> "panic"
    | Desc.POk w ->
      let org, fp, opath = match w.Desc.ki_origin with
        | None -> "0", "0", "-"
        | Some ko -> "1", hex_of_n ko.Desc.ko_fingerprint, desc_path ko.Desc.ko_path in
      let ext, key, kt, rng, epath = match w.Desc.ki_ext with
        | None -> "0", "-", "-", "0", "-"
        | Some e -> "1", hex_of_bytes e.Desc.ek_key, (match e.Desc.ek_type with Desc.XPrv -> "xprv" | Desc.XPub -> "xpub"),
                    b2s e.Desc.ek_range, desc_path e.Desc.ek_path in
      let call name opts =
        let r = match Desc.script o w opts with
          | Desc.Err -> "err"
          | Desc.Panic -> "panic"
          | Desc.Ok l ->
            Printf.sprintf "%d:%s" (Stdlib.List.length l)
              (Stdlib.String.concat ";" (Stdlib.List.map (fun (dp, s) -> desc_path dp ^ "/" ^ hex_of_bytes s) l)) in
        name ^ "=" ^ r in
      let z i = if i >= 0 then Zpos (pos_of_int i) else Zneg (pos_of_int (- i)) in
      Stdlib.String.concat " " [
        "res=ok"; "org=" ^ org; "fp=" ^ fp; "opath=" ^ opath;
        "pub=" ^ desc_opt w.Desc.ki_pub; "wif=" ^ desc_opt w.Desc.ki_wif; "ext=" ^ ext; "key=" ^ key; "kt=" ^ kt;
        "rng=" ^ rng; "epath=" ^ epath; "type=wpkh"; "isrange=" ^ b2s (Desc.is_range w);
        call "s_nil" Desc.ONil; call "s_i0" (Desc.OIndex N0); call "s_i7" (Desc.OIndex (n_of_int 7));
        call "s_ih" (Desc.OIndex (n_of_hex "80000000")); call "s_r3" (Desc.ORange (z 3)); call "s_r0" (Desc.ORange Z0);
        call "s_rm1" (Desc.ORange (z (-1))); call "s_zero" Desc.OZero ] in
  Printf.printf "%s%s\n" line (if !miss then " oracle-miss" else "")

let () = register "desc" cmd_desc
