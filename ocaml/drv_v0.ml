(* drv_v0.ml — PSET v0 family: v0 (abstract packet) and v0raw (byte stream) *)
open Model
open Drv_util
open Drv_tx

(* oracle tables for the external validity predicates: <n> hex... *)
let read_oracle t =
  let vp = next_list t next_hex in
  let vs = next_list t next_hex in
  ((fun x -> Stdlib.List.mem x vp), (fun x -> Stdlib.List.mem x vs))

let read_opt t f = if next_int t = 1 then Some (f t) else None

let read_out t : txout =
  let a = next_hex t in let v = next_hex t in let s = next_hex t in let n = next_hex t in
  let rp = next_hex t in let sp = next_hex t in
  { o_asset = a; o_value = v; o_script = s; o_nonce = n; o_rp = rp; o_sp = sp }

let read_der t : v0der =
  let pk = next_hex t in let fp = next_n t in let path = next_list t next_n in
  { dv_pk = pk; dv_fp = fp; dv_path = path }

let read_unk t : v0unk =
  let k = next_hex t in let v = next_hex t in { uk_key = k; uk_val = v }

let read_in t : v0in =
  let nwu = read_opt t read_tx in
  let wu = read_opt t read_out in
  let sigs = next_list t (fun t -> let pk = next_hex t in let s = next_hex t in { sg_pk = pk; sg_sig = s }) in
  let sh = next_n t in
  let redeem = read_opt t next_hex in
  let ws = read_opt t next_hex in
  let ders = next_list t read_der in
  let fsig = read_opt t next_hex in
  let fwit = read_opt t next_hex in
  let unk = next_list t read_unk in
  { vi_nwu = nwu; vi_wu = wu; vi_sigs = sigs; vi_sighash = sh; vi_redeem = redeem; vi_wscript = ws;
    vi_ders = ders; vi_fsig = fsig; vi_fwit = fwit; vi_unk = unk }

let read_pout t : v0out =
  let redeem = read_opt t next_hex in
  let ws = read_opt t next_hex in
  let ders = next_list t read_der in
  { vo_redeem = redeem; vo_wscript = ws; vo_ders = ders }

let read_pset t : v0pset =
  let x = read_tx t in
  let ins = next_list t read_in in
  let outs = next_list t read_pout in
  let unk = next_list t read_unk in
  { vp_tx = x; vp_ins = ins; vp_outs = outs; vp_unk = unk }

let dump_pset (p : v0pset) : string =
  let b = Buffer.create 512 in
  let add s = Buffer.add_string b s; Buffer.add_char b ',' in
  let addn v = add (string_of_int (int_of_n v)) in
  let addh h = add (hex_of_bytes h) in
  let addo o f = match o with Some x -> add "1"; f x | None -> add "0" in
  let addcount l = add (string_of_int (Stdlib.List.length l)) in
  let addder d = addh d.dv_pk; addn d.dv_fp; addcount d.dv_path; Stdlib.List.iter addn d.dv_path in
  let addunk u = addh u.uk_key; addh u.uk_val in
  add (dump_tx p.vp_tx);
  addcount p.vp_ins;
  Stdlib.List.iter (fun i ->
    addo i.vi_nwu (fun x -> add (dump_tx x));
    addo i.vi_wu (fun o -> addh o.o_asset; addh o.o_value; addh o.o_script; addh o.o_nonce; addh o.o_rp; addh o.o_sp);
    addcount i.vi_sigs; Stdlib.List.iter (fun s -> addh s.sg_pk; addh s.sg_sig) i.vi_sigs;
    addn i.vi_sighash;
    addo i.vi_redeem addh; addo i.vi_wscript addh;
    addcount i.vi_ders; Stdlib.List.iter addder i.vi_ders;
    addo i.vi_fsig addh; addo i.vi_fwit addh;
    addcount i.vi_unk; Stdlib.List.iter addunk i.vi_unk) p.vp_ins;
  addcount p.vp_outs;
  Stdlib.List.iter (fun o ->
    addo o.vo_redeem addh; addo o.vo_wscript addh;
    addcount o.vo_ders; Stdlib.List.iter addder o.vo_ders) p.vp_outs;
  addcount p.vp_unk; Stdlib.List.iter addunk p.vp_unk;
  let s = Buffer.contents b in
  Stdlib.String.sub s 0 (Stdlib.String.length s - 1)

let reser vp vs q = match v0_ser q with Some bs -> hex_of_bytes bs | None -> "sererr"

(* v0 <tag> <oracle> <packet> *)
let cmd_v0 t =
  let _tag = next t in
  let (vp, vs) = read_oracle t in
  let p = read_pset t in
  let wf = b2s (v0_wf vp vs p) and wfc = b2s (v0_wf_core vp vs p) in
  let canon = b2s (v0_canon p) in
  match v0_ser p with
  | None -> Printf.printf "res=sererr wf=%s wfcore=%s canon=%s\n" wf wfc canon
  | Some bs ->
    (match v0_parse vp vs bs with
     | None -> Printf.printf "res=ok ser=%s parse=err wf=%s wfcore=%s canon=%s\n" (hex_of_bytes bs) wf wfc canon
     | Some q ->
       Printf.printf "res=ok ser=%s parse=%s reser=%s wf=%s wfcore=%s canon=%s\n" (hex_of_bytes bs) (dump_pset q)
         (reser vp vs q) wf wfc canon)

(* v0raw <oracle> <hex> *)
let cmd_v0raw t =
  let (vp, vs) = read_oracle t in
  let bs = next_hex t in
  match v0_parse vp vs bs with
  | None -> Printf.printf "res=none\n"
  | Some q ->
    let rs = v0_ser q in
    let again = match rs with
      | None -> "none"
      | Some b -> (match v0_parse vp vs b with None -> "err" | Some q2 -> if dump_pset q2 = dump_pset (v0_norm q) then "norm" else "other") in
    Printf.printf "res=ok parse=%s reser=%s again=%s wf=%s wfcore=%s canon=%s\n" (dump_pset q)
      (match rs with Some b -> hex_of_bytes b | None -> "sererr") again
      (b2s (v0_wf vp vs q)) (b2s (v0_wf_core vp vs q)) (b2s (v0_canon q))

(* v0fin <idx> <opt fsig> <opt fwit> <packet before Finalize>: the packet the finalizer leaves *)
let cmd_v0fin t =
  let idx = next_int t in
  let fs = read_opt t next_hex in
  let fw = read_opt t next_hex in
  let p = read_pset t in
  Printf.printf "res=ok fin=%s\n" (dump_pset (v0_finalize_at p (nat_of_int idx) fs fw))

let () = register "v0" cmd_v0; register "v0raw" cmd_v0raw; register "v0fin" cmd_v0fin
