(* drv_b32.ml — blech32 family: b32dec, b32sub2, b32enc, b32cb *)
open Model
open Drv_util

let cmd_b32dec t =
  let s = next_hex t in
  let g = match B32.decode_generic s with
    | B32.GOk (hrp, data, chk) ->
      Printf.sprintf "gen=ok ghrp=%s gdata=%s gchk=%s" (hex_of_bytes hrp) (hex_of_bytes data) (hex_of_bytes chk)
    | B32.GErr -> "gen=err"
    | B32.GPanic -> "gen=panic" in
  let d = match B32.decode s with
    | B32.DOk (hrp, data) -> Printf.sprintf "dec=ok hrp=%s data=%s" (hex_of_bytes hrp) (hex_of_bytes data)
    | B32.DErr -> "dec=err"
    | B32.DPanic -> "dec=panic" in
  Printf.printf "%s %s\n" g d

let cmd_b32enc t =
  let hrp = next_hex t in
  let data = next_hex t in
  let enc = n_of_hex (next t) in
  match B32.encode hrp data enc with
  | Some s -> Printf.printf "res=ok s=%s\n" (hex_of_bytes s)
  | None -> Printf.printf "res=err\n"

let cmd_b32cb t =
  let data = next_hex t in
  let from = next_n t in let to_ = next_n t in let pad = next_int t = 1 in
  match B32.convert_bits data from to_ pad with
  | Some o -> Printf.printf "res=ok out=%s\n" (hex_of_bytes o)
  | None -> Printf.printf "res=err\n"

let () =
  register "b32dec" cmd_b32dec; register "b32sub2" cmd_b32dec;
  register "b32enc" cmd_b32enc; register "b32cb" cmd_b32cb
