(* drv_sfe.ml — C09 families sfe0 (pset v0) and sfe2 (psetv2): sign, finalize, extract.
   Reads the case line of harness/sfe.go, runs coq/Model/Spend.v and prints the same
   result line as runSfe0 / runSfe2. *)
open Model
open Drv_util

let opt_tok (x : byte list option) = match x with None -> "~" | Some b -> hex_of_bytes b
let read_opt t : byte list option =
  match next t with "~" -> None | "-" -> Some [] | s -> Some (bytes_of_hex s)
let read_hex t : byte list = match next t with "~" | "-" -> [] | s -> bytes_of_hex s

let read_txout t : txout =
  let a = read_hex t in let v = read_hex t in let s = read_hex t in let n = read_hex t in
  let rp = read_hex t in let sp = read_hex t in
  { o_asset = a; o_value = v; o_script = s; o_nonce = n; o_rp = rp; o_sp = sp }

let read_in t : pin =
  let kind = next_int t in
  let nw = if kind = 1 || kind = 3 then Some (Drv_tx.read_tx t) else None in
  let wu = if kind = 2 || kind = 3 then Some (read_txout t) else None in
  let sht = next_n t in
  let rs = read_opt t in let ws = read_opt t in let fs = read_opt t in let fw = read_opt t in
  { pi_nwu = nw; pi_wu = wu; pi_sigs = []; pi_sht = sht; pi_redeem = rs; pi_wscript = ws; pi_fsig = fs; pi_fwit = fw }

(* leaf commitment oracle entries collected while reading: (cb, script, bit) *)
let commits : (byte list * byte list * bool) list ref = ref []

let read_in2 t (b : pin) : pin2 =
  let txid = read_hex t in let index = next_n t in let seq = next_n t in
  let tlock = next_n t in let hlock = next_n t in
  let iv = next_n t in let ivc = read_opt t in let ivrp = read_opt t in let ikrp = read_opt t in
  let ik = next_n t in let ikc = read_opt t in let inonce = read_opt t in let ient = read_opt t in
  let ivp = read_hex t in let ikp = read_hex t in
  let pegwit = (match next t with "~" -> None | s -> Some (Stdlib.List.init (int_of_string s) (fun _ -> read_hex t))) in
  let tks = read_hex t in
  let tsigs = next_list t (fun t ->
    let pk = read_hex t in let sg = read_hex t in let lf = read_hex t in
    { ts_pk = pk; ts_sig = sg; ts_leaf = lf }) in
  let tleafs = next_list t (fun t ->
    let sc = read_hex t in let v = next_n t in let cb = read_hex t in let ok = next_int t = 1 in
    commits := (cb, sc, ok) :: !commits;
    { tl_script = sc; tl_version = v; tl_cb = cb }) in
  let tint = read_hex t in let tmr = read_hex t in
  { q_base = b; q_txid = txid; q_index = index; q_seq = seq; q_tlock = tlock; q_hlock = hlock;
    q_iss_value = iv; q_iss_vcommit = ivc; q_iss_vrp = ivrp; q_iss_krp = ikrp; q_iss_keys = ik;
    q_iss_kcommit = ikc; q_iss_nonce = inonce; q_iss_entropy = ient; q_iss_vproof = ivp; q_iss_kproof = ikp;
    q_pegwit = pegwit; q_tapkeysig = tks; q_tapsigs = tsigs; q_tapleafs = tleafs;
    q_tapinternal = tint; q_tapmerkle = tmr }

let read_out2 t : pout2 =
  let v = next_n t in let vc = read_opt t in let a = read_opt t in let ac = read_opt t in
  let s = read_hex t in let e = read_opt t in let rp = read_opt t in let sp = read_opt t in
  let bpk = read_hex t in let bi = next_n t in let vp = read_hex t in let ap = read_hex t in
  { po_value = v; po_vcommit = vc; po_asset = a; po_acommit = ac; po_script = s; po_ecdh = e;
    po_rp = rp; po_sp = sp; po_blindpk = bpk; po_blinder = bi; po_vproof = vp; po_aproof = ap }

type op =
  | OpS of int * byte list * byte list * bool * byte list option * byte list option
  | OpH | OpF of int | OpM of int | OpFA | OpMA | OpX
  | OpTK of int * byte list
  | OpTS of int * byte list * byte list * byte list
  | OpAI of byte list * n * n * n * n
  | OpAW of int * txout

let read_tail t =
  let orc = next_list t (fun t ->
    let k = next_int t in let pk = read_hex t in let sg = read_hex t in let bit = next_int t = 1 in
    (k, pk, sg, bit)) in
  let ops = next_list t (fun t ->
    match next t with
    | "S" -> let k = next_int t in let sg = read_hex t in let pk = read_hex t in let f = next_int t = 1 in
             let rs = read_opt t in let ws = read_opt t in OpS (k, sg, pk, f, rs, ws)
    | "H" -> OpH | "FA" -> OpFA | "MA" -> OpMA | "X" -> OpX
    | "F" -> OpF (next_int t) | "M" -> OpM (next_int t)
    | "TK" -> let k = next_int t in let sg = read_hex t in OpTK (k, sg)
    | "AI" -> let txid = read_hex t in let idx = next_n t in let sq = next_n t in let hl = next_n t in let tl = next_n t in
              OpAI (txid, idx, sq, hl, tl)
    | "AW" -> let k = next_int t in let o = read_txout t in OpAW (k, o)
    | "TS" -> let k = next_int t in let pk = read_hex t in let sg = read_hex t in let lf = read_hex t in OpTS (k, pk, sg, lf)
    | s -> failwith ("op " ^ s)) in
  (orc, ops)

let hx = hex_of_bytes
let dump_utxo (i : pin) =
  let s = (match i.pi_nwu with Some _ -> "n" | None -> "") ^
          (match i.pi_wu with
           | Some o -> "w" ^ hx o.o_asset ^ "." ^ hx o.o_value ^ "." ^ hx o.o_script ^ "." ^ hx o.o_nonce ^ "." ^ hx o.o_rp ^ "." ^ hx o.o_sp
           | None -> "") in
  if s = "" then "0" else s
let dump_sigs (i : pin) =
  Stdlib.String.concat "," (Stdlib.List.map (fun (pk, sg) -> hx pk ^ ":" ^ hx sg) i.pi_sigs)
let dump_in0 (i : pin) =
  Printf.sprintf "u%s/s%s/t%d/r%s/w%s/f%s/g%s" (dump_utxo i) (dump_sigs i) (int_of_n i.pi_sht)
    (opt_tok i.pi_redeem) (opt_tok i.pi_wscript) (opt_tok i.pi_fsig) (opt_tok i.pi_fwit)
let ob = function Some b -> b | None -> []
let dump_in2 (q : pin2) =
  let i = q.q_base in
  Printf.sprintf "u%s/s%s/t%d/r%s/w%s/f%s/g%s/k%s/n%s" (dump_utxo i) (dump_sigs i) (int_of_n i.pi_sht)
    (opt_tok i.pi_redeem) (opt_tok i.pi_wscript) (hx (ob i.pi_fsig)) (hx (ob i.pi_fwit)) (hx q.q_tapkeysig)
    (Stdlib.String.concat "," (Stdlib.List.map (fun s -> hx s.ts_pk ^ ":" ^ hx s.ts_sig ^ ":" ^ hx s.ts_leaf) q.q_tapsigs))

exception Model_panic
let status = function StOk -> "ok" | StErr -> "err" | StPanic -> raise Model_panic

(* the signature oracle of input k: validity bits of the case line *)
let chk_of orc k = fun (_ : salgo) (_ : byte list) (pk : byte list) (sg : byte list) ->
  Stdlib.List.exists (fun (k', pk', sg', bit) -> k' = k && pk' = pk && sg' = sg && bit) orc
let commit_of = fun cb script (_ : byte list) ->
  Stdlib.List.exists (fun (cb', sc', bit) -> cb' = cb && sc' = script && bit) !commits

let sat_line orc (prevs : txout option list) (t : tx) (u : tx) =
  if strip_tx t <> strip_tx u then "na" else
  Stdlib.String.concat "" (Stdlib.List.mapi (fun k (ti : txin) ->
    match Stdlib.List.nth_opt prevs k with
    | Some (Some o) -> if satisfies (chk_of orc k) commit_of o.o_script ti.in_script ti.in_witness then "1" else "0"
    | _ -> "0") t.t_ins)

let prevout_of (b : pin) (idx : n) : txout option =
  match b.pi_wu with
  | Some o -> Some o
  | None -> (match b.pi_nwu with
             | Some t -> let i = int_of_n idx in Stdlib.List.nth_opt t.t_outs i
             | None -> None)

let cmd_sfe0 t =
  let tx = Drv_tx.read_tx t in
  let ins = next_list t read_in in
  let (orc, ops) = read_tail t in
  let prevs = Stdlib.List.mapi (fun k b ->
    match Stdlib.List.nth_opt tx.t_ins k with Some ti -> prevout_of b ti.in_index | None -> prevout_of b N0) ins in
  let p = ref { p0_tx = tx; p0_ins = ins } in
  let out = ref [] in
  let dump_all () = Stdlib.String.concat ";" (Stdlib.List.map dump_in0 !p.p0_ins) in
  let touched k = match Stdlib.List.nth_opt !p.p0_ins k with Some i -> dump_in0 i | None -> raise Model_panic in
  (try
    Stdlib.List.iteri (fun j o ->
      let step (q, s) = p := q; status s in
      let line = match o with
        | OpS (k, sg, pk, f, rs, ws) -> let s = step (sign0 !p (nat_of_int k) sg pk f rs ws) in Printf.sprintf "o%d=%s:%s" j s (touched k)
        | OpF k -> let s = step (finalize0 !p (nat_of_int k)) in Printf.sprintf "o%d=%s:%s" j s (touched k)
        | OpM k -> let s = step (maybe_finalize0 !p (nat_of_int k)) in Printf.sprintf "o%d=%s:%s" j s (touched k)
        | OpH -> let s = step (hop0_st !p) in Printf.sprintf "o%d=%s:%s" j s (dump_all ())
        | OpFA -> let s = step (finalize_all0 !p) in Printf.sprintf "o%d=%s:%s" j s (dump_all ())
        | OpMA -> let s = step (maybe_finalize_all0 !p) in Printf.sprintf "o%d=%s:%s" j s (dump_all ())
        | OpX -> (match extract0 !p with
                  | OcOk x -> Printf.sprintf "o%d=ok:%s:%s" j (Drv_tx.dump_tx x) (sat_line orc prevs x !p.p0_tx)
                  | OcErr -> Printf.sprintf "o%d=err" j
                  | OcPanic -> raise Model_panic)
        | _ -> failwith "op" in
      out := line :: !out) ops;
    print_endline (Stdlib.String.concat " " (Stdlib.List.rev !out))
  with Model_panic -> print_endline "panic")

let cmd_sfe2 t =
  commits := [];
  let txversion = next_n t in
  let fallback = (match next t with "~" -> None | s -> Some (n_of_int (int_of_string s))) in
  let nscalars = next_n t in
  let ins = next_list t (fun t -> let b = read_in t in read_in2 t b) in
  let outs = next_list t read_out2 in
  let (orc, ops) = read_tail t in
  let nin0 = Stdlib.List.length ins in
  let nadded = Stdlib.List.length (Stdlib.List.filter (function OpAI _ -> true | _ -> false) ops) in
  let added k = Stdlib.List.fold_left (fun acc o -> match o with OpAW (k', wu) when k' = k -> Some wu | _ -> acc) None ops in
  let prevs = Stdlib.List.map (fun q -> prevout_of q.q_base q.q_index) ins
              @ Stdlib.List.init nadded (fun j -> added (nin0 + j)) in
  let p = ref { g_txversion = txversion; g_fallback = fallback; g_nscalars = nscalars; q_ins = ins; q_outs = outs } in
  let out = ref [] in
  let dump_all () = Stdlib.String.concat ";" (Stdlib.List.map dump_in2 !p.q_ins) in
  let touched k = match Stdlib.List.nth_opt !p.q_ins k with Some i -> dump_in2 i | None -> "" in
  (try
    Stdlib.List.iteri (fun j o ->
      let step (q, s) = p := q; status s in
      let line = match o with
        | OpS (k, sg, pk, f, rs, ws) -> let s = step (sign2 !p (nat_of_int k) sg pk f rs ws) in Printf.sprintf "o%d=%s:%s" j s (touched k)
        | OpTK (k, sg) -> let s = step (sign_tap_key2 !p (nat_of_int k) sg) in Printf.sprintf "o%d=%s:%s" j s (touched k)
        | OpTS (k, pk, sg, lf) -> let s = step (sign_tap_script2 !p (nat_of_int k) { ts_pk = pk; ts_sig = sg; ts_leaf = lf }) in
                                  Printf.sprintf "o%d=%s:%s" j s (touched k)
        | OpF k -> let s = step (finalize2 !p (nat_of_int k)) in Printf.sprintf "o%d=%s:%s" j s (touched k)
        | OpM k -> let s = step (maybe_finalize2 !p (nat_of_int k)) in Printf.sprintf "o%d=%s:%s" j s (touched k)
        | OpAI (txid, idx, sq, hl, tl) -> let s = step (add_input2 !p (new_pin2 txid idx sq hl tl)) in
                                          Printf.sprintf "o%d=%s:%s" j s (dump_all ())
        | OpAW (k, o) -> let s = step (add_witness_utxo2 !p (nat_of_int k) o) in Printf.sprintf "o%d=%s:%s" j s (touched k)
        | OpH -> let s = step (hop2_st !p) in Printf.sprintf "o%d=%s:%s" j s (dump_all ())
        | OpFA -> let s = step (finalize_all2 !p) in Printf.sprintf "o%d=%s:%s" j s (dump_all ())
        | OpMA -> let s = step (maybe_finalize_all2 !p) in Printf.sprintf "o%d=%s:%s" j s (dump_all ())
        | OpX -> let u = unsigned_tx2 !p in
                 let us = Printf.sprintf " u%d=%s" j (Drv_tx.dump_tx u) in
                 (match extract2 !p with
                  | OcOk x -> Printf.sprintf "o%d=ok:%s:%s%s" j (Drv_tx.dump_tx x) (sat_line orc prevs x u) us
                  | OcErr -> Printf.sprintf "o%d=err%s" j us
                  | OcPanic -> raise Model_panic) in
      out := line :: !out) ops;
    print_endline (Stdlib.String.concat " " (Stdlib.List.rev !out))
  with Model_panic -> print_endline "panic")

let () = register "sfe0" cmd_sfe0; register "sfe2" cmd_sfe2
