(* drv_v2pset.ml — PSET v2 family: pset (abstract packet), psetraw (byte stream).
   Case formats (shared with harness/v2pset.go):
     oracle  := <n> { <hex> <flags> <canon> }      flags: letters p/P d/D x/X ('-' none)  canon: '?' | '!' | hex
     section := per table position: single -> <hex> ; multi -> <n> { <kd> <v> }
                then props <n> { <id> <sub> <kd> <v> } then unknowns <n> { <kt> <kd> <v> }
     pset    := oracle section(global) <nin> section* <nout> section*
     psetraw := oracle <hex> *)
open Model
open Drv_util

exception Oracle_miss of string

type orc = { tbl : (string, string * string) Hashtbl.t }

let read_orc t : orc =
  let n = next_int t in
  let h = Hashtbl.create 16 in
  for _ = 1 to n do
    let k = next t in let f = next t in let c = next t in
    (* several entries for the same bytes are merged *)
    (match Hashtbl.find_opt h k with
     | Some (f0, c0) -> Hashtbl.replace h k ((if f = "-" then f0 else if f0 = "-" then f else f0 ^ f), (if c = "?" then c0 else c))
     | None -> Hashtbl.replace h k (f, c))
  done;
  { tbl = h }

let flag (o : orc) (what : string) (lo : char) (hi : char) (bs : byte list) : bool =
  let k = hex_of_bytes bs in
  match Hashtbl.find_opt o.tbl k with
  | Some (f, _) when Stdlib.String.contains f hi -> true
  | Some (f, _) when Stdlib.String.contains f lo -> false
  | _ -> raise (Oracle_miss (what ^ ":" ^ k))

let pk_ok o bs =
  let l = Stdlib.List.length bs in
  if l <> 33 && l <> 65 then false   (* btcec.ParsePubKey rejects every other length *)
  else flag o "pk" 'p' 'P' bs
let der_ok o bs = flag o "der" 'd' 'D' bs
let xonly_ok o bs = flag o "xonly" 'x' 'X' bs
let canon o bs =
  let k = hex_of_bytes bs in
  match Hashtbl.find_opt o.tbl k with
  | Some (_, "!") -> None
  | Some (_, "?") | None -> raise (Oracle_miss ("msgtx:" ^ k))
  | Some (_, c) -> Some (bytes_of_hex c)

(* ---- reading / dumping sections ---- *)
let read_sec (tbl : slot list) t : sec =
  let vals = ref [] and lists = ref [] in
  Stdlib.List.iter (fun s ->
    match s.sl_k with
    | SS (_, _) -> vals := next_hex t :: !vals; lists := [] :: !lists
    | MS _ ->
      let l = next_list t (fun t -> let kd = next_hex t in let v = next_hex t in (kd, v)) in
      vals := [] :: !vals; lists := l :: !lists) tbl;
  let props = next_list t (fun t ->
    let id = next_hex t in let sub = next_n t in let kd = next_hex t in let v = next_hex t in
    { pd_id = id; pd_sub = sub; pd_kd = kd; pd_val = v }) in
  let unks = next_list t (fun t ->
    let kt = next_n t in let kd = next_hex t in let v = next_hex t in
    { k_type = kt; k_data = kd; k_val = v }) in
  { s_vals = Stdlib.List.rev !vals; s_lists = Stdlib.List.rev !lists; s_props = props; s_unks = unks }

let read_pset t : pset =
  let g = read_sec global_tbl t in
  let ins = next_list t (read_sec input_tbl) in
  let outs = next_list t (read_sec output_tbl) in
  { p_global = g; p_ins = ins; p_outs = outs }

let is_map = function MS (MMap _) -> true | _ -> false

let dump_sec (b : Buffer.t) (tbl : slot list) (s : sec) =
  let add x = Buffer.add_string b x; Buffer.add_char b ',' in
  let rec go tbl vals lists = match tbl, vals, lists with
    | sl :: tr, v :: vr, l :: lr ->
      (match sl.sl_k with
       | SS (_, _) -> add (hex_of_bytes v)
       | MS _ ->
         let l = Stdlib.List.map (fun (kd, v) -> (hex_of_bytes kd, hex_of_bytes v)) l in
         (* Go maps have no order: the dump lists them by key *)
         let l = if is_map sl.sl_k then Stdlib.List.sort compare l else l in
         add (string_of_int (Stdlib.List.length l));
         Stdlib.List.iter (fun (kd, v) -> add kd; add v) l);
      go tr vr lr
    | [], [], [] -> ()
    | _ -> add "SHAPE" in
  go tbl s.s_vals s.s_lists;
  add (string_of_int (Stdlib.List.length s.s_props));
  Stdlib.List.iter (fun p -> add (hex_of_bytes p.pd_id); add (string_of_int (int_of_n p.pd_sub));
                     add (hex_of_bytes p.pd_kd); add (hex_of_bytes p.pd_val)) s.s_props;
  add (string_of_int (Stdlib.List.length s.s_unks));
  Stdlib.List.iter (fun k -> add (string_of_int (int_of_n k.k_type));
                     add (hex_of_bytes k.k_data); add (hex_of_bytes k.k_val)) s.s_unks

let dump_pset (p : pset) : string =
  let b = Buffer.create 1024 in
  dump_sec b global_tbl p.p_global;
  Buffer.add_string b (string_of_int (Stdlib.List.length p.p_ins)); Buffer.add_char b ',';
  Stdlib.List.iter (dump_sec b input_tbl) p.p_ins;
  Buffer.add_string b (string_of_int (Stdlib.List.length p.p_outs)); Buffer.add_char b ',';
  Stdlib.List.iter (dump_sec b output_tbl) p.p_outs;
  let s = Buffer.contents b in
  Stdlib.String.sub s 0 (Stdlib.String.length s - 1)

let parse o bs = parse_pset (pk_ok o) (der_ok o) (xonly_ok o) (canon o) bs
let wf o p = wf_pset (pk_ok o) (der_ok o) (xonly_ok o) (canon o) p

let show_parse = function
  | ROk p -> dump_pset p
  | RErr -> "err"
  | RPanic -> "panic"

(* pset: abstract packet -> ser, wf, parse(ser) *)
let cmd_pset t =
  let o = read_orc t in
  let p = read_pset t in
  let w = try b2s (wf o p) with Oracle_miss m -> "miss(" ^ m ^ ")" in
  match ser_pset p with
  | RPanic -> Printf.printf "ser=panic wf=%s parse=-\n" w
  | RErr -> Printf.printf "ser=err wf=%s parse=-\n" w
  | ROk bs ->
    let pr = try show_parse (parse o bs) with Oracle_miss m -> "miss(" ^ m ^ ")" in
    Printf.printf "ser=%s wf=%s parse=%s\n" (hex_of_bytes bs) w pr

(* psetraw: bytes -> parse, re-serialization, re-parse *)
let cmd_psetraw t =
  let o = read_orc t in
  let bs = next_hex t in
  try
    match parse o bs with
    | RErr -> Printf.printf "parse=none\n"
    | RPanic -> Printf.printf "parse=panic reser=- re=-\n"
    | ROk p ->
      let dc = dump_pset p in
      let d = dc ^ " pwf=" ^ b2s (wf o p) in   (* is the accepted packet inside the round-trip domain? *)
      (match ser_pset p with
       | RPanic -> Printf.printf "parse=%s reser=panic re=-\n" d
       | RErr -> Printf.printf "parse=%s reser=err re=-\n" d
       | ROk bs2 ->
         let re = match parse o bs2 with
           | ROk p2 -> if dump_pset p2 = dc then "same" else "diff:" ^ dump_pset p2
           | RErr -> "err" | RPanic -> "panic" in
         Printf.printf "parse=%s reser=%s re=%s\n" d (hex_of_bytes bs2) re)
  with Oracle_miss m -> Printf.printf "oracle-miss %s\n" m

let () = register "pset" cmd_pset; register "psetraw" cmd_psetraw
