(* drv_scalar.ml — family "scal": the blinding-scalar helpers (C17) *)
open Model
open Drv_util

(* decimal uint64 (exceeds OCaml's int) *)
let n_of_dec (s : string) : n =
  let acc = ref N0 in
  Stdlib.String.iter (fun c ->
    acc := N.add (N.mul !acc (n_of_int 10)) (n_of_int (Char.code c - 48))) s;
  !acc

(* "nil" = nil slice, "-" = empty non-nil slice, else hex *)
let scal_arg (s : string) : byte list option =
  if s = "nil" then None else Some (bytes_of_hex s)
let scal_tok (o : byte list option) : string =
  match o with None -> "nil" | Some b -> hex_of_bytes b

let cmd_scal t =
  let op = next t in
  let v = n_of_dec (next t) in
  let x0 = scal_arg (next t) in
  let x1 = scal_arg (next t) in
  let x2 = scal_arg (next t) in
  let (r, w), befores =
    match op with
    | "calc" -> go_calc_offset v x1 x2, [| x1; x2; None |]
    | "sub" -> go_sub_scalars x1 x2, [| x1; x2; None |]
    | "add" -> go_add_offset x0 v x1 x2, [| x0; x1; x2 |]
    | _ -> failwith "bad op" in
  (* model argument positions -> case line positions *)
  let after i = scal_tok (sarg_after (nat_of_int i) befores.(i) w) in
  let args =
    if op = "add" then Printf.sprintf "a0=%s a1=%s a2=%s" (after 0) (after 1) (after 2)
    else Printf.sprintf "a0=%s a1=%s a2=%s" (scal_tok x0) (after 0) (after 1) in
  match sout_of r with
  | SOErr -> Printf.printf "res=err %s\n" args
  | SOOk o -> Printf.printf "res=ok out=%s glob=%s %s\n" (scal_tok o) (b2s (sreturns_global r)) args

let () = register "scal" cmd_scal
