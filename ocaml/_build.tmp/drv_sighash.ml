(* drv_sighash.ml — signature-hash family: sh legacy|v0|v1 ... *)
open Model
open Drv_util
open Drv_tx

let opt_hex t = if next_int t = 1 then Some (next_hex t) else None

(* sh <algo> <idx> <ht> <script> <value> <nscripts> s.. <nassets> a.. <nvalues> v.. <genesis> <hasleaf> [leaf] <hasannex> [annex] <tx...> *)
let cmd_sh t =
  let algo = next t in
  let idx = next_int t in
  let ht = next_n t in
  let script = next_hex t in
  let value = next_hex t in
  let scripts = next_list t next_hex in
  let assets = next_list t next_hex in
  let values = next_list t next_hex in
  let genesis = next_hex t in
  let leaf = opt_hex t in
  let annex = opt_hex t in
  let x = read_tx t in
  let i = nat_of_int idx in
  let d = match algo with
    | "legacy" -> hex_of_bytes (digest_legacy dsha256 x i script ht)
    | "v0" -> (match digest_v0 dsha256 x i script value ht with Some d -> hex_of_bytes d | None -> "panic")
    | "v1" ->
      let a = { v1_scripts = scripts; v1_assets = assets; v1_values = values; v1_genesis = genesis; v1_leaf = leaf; v1_annex = annex } in
      (match digest_v1 x i a ht with Some d -> hex_of_bytes d | None -> "panic")
    | _ -> "bad-algo" in
  Printf.printf "d=%s\n" d

let () = register "sh" cmd_sh

(* shd: same case format; prints the digest computed by the SPECIFICATION layouts (domain of C03) *)
let cmd_shd t =
  let algo = next t in
  let idx = next_int t in
  let ht = next_n t in
  let script = next_hex t in
  let value = next_hex t in
  let scripts = next_list t next_hex in
  let assets = next_list t next_hex in
  let values = next_list t next_hex in
  let genesis = next_hex t in
  let leaf = opt_hex t in
  let annex = opt_hex t in
  let x = read_tx t in
  let i = nat_of_int idx in
  let d = match algo with
    | "legacy" -> hex_of_bytes (spec_legacy_digest x i script ht)
    | "v0" -> (match spec_v0_digest x i script value ht with Some d -> hex_of_bytes d | None -> "panic")
    | "v1" ->
      let rec zip3 s a v = match s, a, v with
        | s1 :: sr, a1 :: ar, v1 :: vr -> { sp_script = s1; sp_asset = a1; sp_value = v1 } :: zip3 sr ar vr
        | _ -> [] in
      (match spec_v1_digest x i (zip3 scripts assets values) genesis leaf annex ht with Some d -> hex_of_bytes d | None -> "panic")
    | _ -> "bad-algo" in
  Printf.printf "d=%s\n" d

let () = register "shd" cmd_shd
