(* drv_main.ml — reads case lines on stdin, dispatches on the first token, prints one result line per case *)
open Drv_util

let () =
  (try
    while true do
      let line = input_line stdin in
      let line = Stdlib.String.trim line in
      if line <> "" then begin
        let t = { l = Stdlib.String.split_on_char ' ' line } in
        let c = next t in
        (match Hashtbl.find_opt dispatch c with
         | Some f -> (try f t with e -> Printf.printf "driver-error %s\n" (Printexc.to_string e))
         | None -> Printf.printf "unknown-command %s\n" c)
      end
    done
  with End_of_file -> ());
  flush stdout
