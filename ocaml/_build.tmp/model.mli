
val negb : bool -> bool

type nat =
| O
| S of nat

val option_map : ('a1 -> 'a2) -> 'a1 option -> 'a2 option

val fst : ('a1 * 'a2) -> 'a1

val snd : ('a1 * 'a2) -> 'a2

val length : 'a1 list -> nat

val app : 'a1 list -> 'a1 list -> 'a1 list

type comparison =
| Eq
| Lt
| Gt

val compOpp : comparison -> comparison

val pred : nat -> nat

val add : nat -> nat -> nat

val mul : nat -> nat -> nat

val sub : nat -> nat -> nat

type byte =
| X00
| X01
| X02
| X03
| X04
| X05
| X06
| X07
| X08
| X09
| X0a
| X0b
| X0c
| X0d
| X0e
| X0f
| X10
| X11
| X12
| X13
| X14
| X15
| X16
| X17
| X18
| X19
| X1a
| X1b
| X1c
| X1d
| X1e
| X1f
| X20
| X21
| X22
| X23
| X24
| X25
| X26
| X27
| X28
| X29
| X2a
| X2b
| X2c
| X2d
| X2e
| X2f
| X30
| X31
| X32
| X33
| X34
| X35
| X36
| X37
| X38
| X39
| X3a
| X3b
| X3c
| X3d
| X3e
| X3f
| X40
| X41
| X42
| X43
| X44
| X45
| X46
| X47
| X48
| X49
| X4a
| X4b
| X4c
| X4d
| X4e
| X4f
| X50
| X51
| X52
| X53
| X54
| X55
| X56
| X57
| X58
| X59
| X5a
| X5b
| X5c
| X5d
| X5e
| X5f
| X60
| X61
| X62
| X63
| X64
| X65
| X66
| X67
| X68
| X69
| X6a
| X6b
| X6c
| X6d
| X6e
| X6f
| X70
| X71
| X72
| X73
| X74
| X75
| X76
| X77
| X78
| X79
| X7a
| X7b
| X7c
| X7d
| X7e
| X7f
| X80
| X81
| X82
| X83
| X84
| X85
| X86
| X87
| X88
| X89
| X8a
| X8b
| X8c
| X8d
| X8e
| X8f
| X90
| X91
| X92
| X93
| X94
| X95
| X96
| X97
| X98
| X99
| X9a
| X9b
| X9c
| X9d
| X9e
| X9f
| Xa0
| Xa1
| Xa2
| Xa3
| Xa4
| Xa5
| Xa6
| Xa7
| Xa8
| Xa9
| Xaa
| Xab
| Xac
| Xad
| Xae
| Xaf
| Xb0
| Xb1
| Xb2
| Xb3
| Xb4
| Xb5
| Xb6
| Xb7
| Xb8
| Xb9
| Xba
| Xbb
| Xbc
| Xbd
| Xbe
| Xbf
| Xc0
| Xc1
| Xc2
| Xc3
| Xc4
| Xc5
| Xc6
| Xc7
| Xc8
| Xc9
| Xca
| Xcb
| Xcc
| Xcd
| Xce
| Xcf
| Xd0
| Xd1
| Xd2
| Xd3
| Xd4
| Xd5
| Xd6
| Xd7
| Xd8
| Xd9
| Xda
| Xdb
| Xdc
| Xdd
| Xde
| Xdf
| Xe0
| Xe1
| Xe2
| Xe3
| Xe4
| Xe5
| Xe6
| Xe7
| Xe8
| Xe9
| Xea
| Xeb
| Xec
| Xed
| Xee
| Xef
| Xf0
| Xf1
| Xf2
| Xf3
| Xf4
| Xf5
| Xf6
| Xf7
| Xf8
| Xf9
| Xfa
| Xfb
| Xfc
| Xfd
| Xfe
| Xff

val to_bits :
  byte -> bool * (bool * (bool * (bool * (bool * (bool * (bool * bool))))))

val eqb : bool -> bool -> bool

module Nat :
 sig
  val sub : nat -> nat -> nat

  val eqb : nat -> nat -> bool

  val leb : nat -> nat -> bool

  val ltb : nat -> nat -> bool

  val divmod : nat -> nat -> nat -> nat -> nat * nat

  val div : nat -> nat -> nat

  val modulo : nat -> nat -> nat
 end

val tl : 'a1 list -> 'a1 list

val nth : nat -> 'a1 list -> 'a1 -> 'a1

val nth_error : 'a1 list -> nat -> 'a1 option

val removelast : 'a1 list -> 'a1 list

val rev : 'a1 list -> 'a1 list

val concat : 'a1 list list -> 'a1 list

val map : ('a1 -> 'a2) -> 'a1 list -> 'a2 list

val flat_map : ('a1 -> 'a2 list) -> 'a1 list -> 'a2 list

val fold_left : ('a1 -> 'a2 -> 'a1) -> 'a2 list -> 'a1 -> 'a1

val fold_right : ('a2 -> 'a1 -> 'a1) -> 'a1 -> 'a2 list -> 'a1

val existsb : ('a1 -> bool) -> 'a1 list -> bool

val forallb : ('a1 -> bool) -> 'a1 list -> bool

val filter : ('a1 -> bool) -> 'a1 list -> 'a1 list

val find : ('a1 -> bool) -> 'a1 list -> 'a1 option

val combine : 'a1 list -> 'a2 list -> ('a1 * 'a2) list

val firstn : nat -> 'a1 list -> 'a1 list

val skipn : nat -> 'a1 list -> 'a1 list

val seq : nat -> nat -> nat list

val repeat : 'a1 -> nat -> 'a1 list

type positive =
| XI of positive
| XO of positive
| XH

type n =
| N0
| Npos of positive

type z =
| Z0
| Zpos of positive
| Zneg of positive

module Pos :
 sig
  type mask =
  | IsNul
  | IsPos of positive
  | IsNeg
 end

module Coq_Pos :
 sig
  val succ : positive -> positive

  val add : positive -> positive -> positive

  val add_carry : positive -> positive -> positive

  val pred_double : positive -> positive

  val pred_N : positive -> n

  type mask = Pos.mask =
  | IsNul
  | IsPos of positive
  | IsNeg

  val succ_double_mask : mask -> mask

  val double_mask : mask -> mask

  val double_pred_mask : positive -> mask

  val sub_mask : positive -> positive -> mask

  val sub_mask_carry : positive -> positive -> mask

  val mul : positive -> positive -> positive

  val iter : ('a1 -> 'a1) -> 'a1 -> positive -> 'a1

  val pow : positive -> positive -> positive

  val size : positive -> positive

  val compare_cont : comparison -> positive -> positive -> comparison

  val compare : positive -> positive -> comparison

  val eqb : positive -> positive -> bool

  val coq_Nsucc_double : n -> n

  val coq_Ndouble : n -> n

  val coq_lor : positive -> positive -> positive

  val coq_land : positive -> positive -> n

  val coq_lxor : positive -> positive -> n

  val shiftl : positive -> n -> positive

  val testbit : positive -> n -> bool

  val iter_op : ('a1 -> 'a1 -> 'a1) -> positive -> 'a1 -> 'a1

  val to_nat : positive -> nat

  val of_succ_nat : nat -> positive
 end

module N :
 sig
  val succ_double : n -> n

  val double : n -> n

  val succ : n -> n

  val pred : n -> n

  val add : n -> n -> n

  val sub : n -> n -> n

  val mul : n -> n -> n

  val compare : n -> n -> comparison

  val eqb : n -> n -> bool

  val leb : n -> n -> bool

  val ltb : n -> n -> bool

  val max : n -> n -> n

  val div2 : n -> n

  val pow : n -> n -> n

  val log2 : n -> n

  val pos_div_eucl : positive -> n -> n * n

  val div_eucl : n -> n -> n * n

  val div : n -> n -> n

  val modulo : n -> n -> n

  val coq_lor : n -> n -> n

  val coq_land : n -> n -> n

  val coq_lxor : n -> n -> n

  val shiftl : n -> n -> n

  val shiftr : n -> n -> n

  val testbit : n -> n -> bool

  val to_nat : n -> nat

  val of_nat : nat -> n

  val log2_up : n -> n
 end

val eqb0 : byte -> byte -> bool

val to_N : byte -> n

val of_N : n -> byte option

module Z :
 sig
  val double : z -> z

  val succ_double : z -> z

  val pred_double : z -> z

  val pos_sub : positive -> positive -> z

  val add : z -> z -> z

  val opp : z -> z

  val sub : z -> z -> z

  val mul : z -> z -> z

  val compare : z -> z -> comparison

  val leb : z -> z -> bool

  val ltb : z -> z -> bool

  val eqb : z -> z -> bool

  val to_nat : z -> nat

  val to_N : z -> n

  val of_nat : nat -> z

  val of_N : n -> z

  val pos_div_eucl : positive -> z -> z * z

  val div_eucl : z -> z -> z * z

  val div : z -> z -> z

  val modulo : z -> z -> z

  val quotrem : z -> z -> z * z

  val quot : z -> z -> z

  val rem : z -> z -> z
 end

type bytes = byte list

val b8 : n -> byte

val n8 : byte -> n

val beqb : byte -> byte -> bool

val bytes_eqb : bytes -> bytes -> bool

val le_enc : nat -> n -> bytes

val le_dec : bytes -> n

val be_enc : nat -> n -> bytes

val be_dec : bytes -> n

type 'a parser0 = bytes -> ('a * bytes) option

val ret : 'a1 -> 'a1 parser0

val bind : 'a1 parser0 -> ('a1 -> 'a2 parser0) -> 'a2 parser0

val pfail : 'a1 parser0

val take : nat -> bytes parser0

val takeN : n -> bytes parser0

val p_u8 : n parser0

val p_le : nat -> n parser0

val lenN : bytes -> n

val lenL : 'a1 list -> n

val u32max : n

val two32 : n

val two64 : n

val varint : n -> bytes

val varint_size : n -> n

val p_varint : n parser0

val var_slice : bytes -> bytes

val var_slice_size : bytes -> n

val p_var_slice : bytes parser0

val p_count : 'a1 parser0 -> nat -> n -> 'a1 list parser0

val p_list : 'a1 parser0 -> n -> 'a1 list parser0

val enc_list : ('a1 -> bytes) -> 'a1 list -> bytes

val vector : bytes list -> bytes

val vector_size : bytes list -> n

val p_vector : bytes list parser0

val mask32 : n

val add32 : n -> n -> n

val rotr : n -> n -> n

val shr : n -> n -> n

val not32 : n -> n

val ch : n -> n -> n -> n

val maj : n -> n -> n -> n

val bS0 : n -> n

val bS1 : n -> n

val sS0 : n -> n

val sS1 : n -> n

val k256 : n list

val iV256 : n list

val words_of : nat -> bytes -> n list

val nthN : n list -> nat -> n

val expand : nat -> n list -> n list

val schedule : n list -> n list

val round : n list -> (n * n) -> n list

val compress : n list -> bytes -> n list

val blocks : nat -> n list -> bytes -> n list

val pad : bytes -> bytes

val digest_of : n list -> bytes

val sha256 : bytes -> bytes

val dsha256 : bytes -> bytes

val midstate256 : bytes -> bytes

val tagged_hash : bytes -> bytes -> bytes

type issuance = { iss_nonce : bytes; iss_entropy : bytes; iss_amount : 
                  bytes; iss_token : bytes }

type txin = { in_hash : bytes; in_index : n; in_seq : n; in_script : 
              bytes; in_witness : bytes list; in_pegin : bool;
              in_pegwit : bytes list; in_iss : issuance option;
              in_irp : bytes; in_inrp : bytes }

type txout = { o_asset : bytes; o_value : bytes; o_script : bytes;
               o_nonce : bytes; o_rp : bytes; o_sp : bytes }

type tx = { t_version : n; t_flag : n; t_locktime : n; t_ins : txin list;
            t_outs : txout list }

val minusOne : n

val outpointIndexMask : n

val outpointIssuanceFlag : n

val outpointPeginFlag : n

val witnessScaleFactor : n

val nonempty : 'a1 list -> bool

val any_witness_input : tx -> bool

val any_conf_output : tx -> bool

val has_witness : tx -> bool

val raw_index : txin -> n

val ser_iss : issuance -> bytes

val ser_in : txin -> bytes

val ser_out : bool -> bool -> txout -> bytes

val ser_in_wit : txin -> bytes

val ser_out_wit : txout -> bytes

val ser_tx : bool -> bool -> bool -> bool -> tx -> bytes

val ser_full : tx -> bytes

val ser_txid : tx -> bytes

val ser_wtxid : tx -> bytes

val p_value : bytes parser0

val p_asset : bytes parser0

val p_nonce : bytes parser0

val p_issuance : issuance parser0

val p_in : txin parser0

val p_out : txout parser0

type in_wit = { w_irp : bytes; w_inrp : bytes; w_wit : bytes list;
                w_peg : bytes list }

val p_in_wit : in_wit parser0

val p_out_wit : (bytes * bytes) parser0

val set_in_wit : txin -> in_wit -> txin

val set_out_wit : txout -> (bytes * bytes) -> txout

val zip_with : ('a1 -> 'a2 -> 'a3) -> 'a1 list -> 'a2 list -> 'a3 list

val parse_tx : tx parser0

val is_value : bytes -> bool

val is_asset : bytes -> bool

val is_nonce : bytes -> bool

val wf_iss : issuance -> bool

val wf_slice : bytes -> bool

val wf_vec : bytes list -> bool

val wf_in : txin -> bool

val wf_out : txout -> bool

val wf_tx : tx -> bool

val norm_tx : tx -> tx

val canonical_flag : tx -> bool

val size_in : txin -> n

val size_out : txout -> n

val sumN : ('a1 -> n) -> 'a1 list -> n

val base_size : bool -> tx -> n

val size_in_wit : txin -> n

val size_out_wit : txout -> n

val size_tx : bool -> bool -> tx -> n

val weight : tx -> n

val vsize : tx -> n

val is_conf_out : txout -> bool

val discount_out : txout -> z

val discount_weight : tx -> z

val discount_vsize_go : tx -> z

val copy_in : txin -> txin

val copy_tx : tx -> tx

val txid : tx -> bytes

val wtxid : tx -> bytes

val v0_magic : bytes

val v0_T_UnsignedTx : n

val v0_T_NonWitnessUtxo : n

val v0_T_WitnessUtxo : n

val v0_T_PartialSig : n

val v0_T_Sighash : n

val v0_T_RedeemScript : n

val v0_T_WitnessScript : n

val v0_T_Bip32 : n

val v0_T_FinalScriptSig : n

val v0_T_FinalScriptWitness : n

val v0_TO_RedeemScript : n

val v0_TO_WitnessScript : n

val v0_TO_Bip32 : n

val v0_MaxKeyLen : n

val v0_MaxValLen : n

val v0_MinTxOutLen : nat

type v0sig = { sg_pk : bytes; sg_sig : bytes }

type v0der = { dv_pk : bytes; dv_fp : n; dv_path : n list }

type v0unk = { uk_key : bytes; uk_val : bytes }

type v0in = { vi_nwu : tx option; vi_wu : txout option; vi_sigs : v0sig list;
              vi_sighash : n; vi_redeem : bytes option;
              vi_wscript : bytes option; vi_ders : v0der list;
              vi_fsig : bytes option; vi_fwit : bytes option;
              vi_unk : v0unk list }

type v0out = { vo_redeem : bytes option; vo_wscript : bytes option;
               vo_ders : v0der list }

type v0pset = { vp_tx : tx; vp_ins : v0in list; vp_outs : v0out list;
                vp_unk : v0unk list }

val v0_in_empty : v0in

val v0_out_empty : v0out

val v0_set_nwu : v0in -> tx option -> v0in

val v0_set_wu : v0in -> txout option -> v0in

val v0_set_sigs : v0in -> v0sig list -> v0in

val v0_set_sighash : v0in -> n -> v0in

val v0_set_redeem : v0in -> bytes option -> v0in

val v0_set_wscript : v0in -> bytes option -> v0in

val v0_set_ders : v0in -> v0der list -> v0in

val v0_set_fsig : v0in -> bytes option -> v0in

val v0_set_fwit : v0in -> bytes option -> v0in

val v0_set_unk : v0in -> v0unk list -> v0in

val v0_is_some : 'a1 option -> bool

val v0_bytes_ltb : bytes -> bytes -> bool

val v0_insert : ('a1 -> bytes) -> 'a1 -> 'a1 list -> 'a1 list

val v0_sort : ('a1 -> bytes) -> 'a1 list -> 'a1 list

val v0_sane : v0in -> bool

val v0_finalized : v0in -> bool

val v0_unsigned_ok : tx -> bool

val v0_kv : (bytes * bytes) -> bytes

val v0_is_conf : txout -> bool

val v0_ser_wu : txout -> bytes

val v0_ser_bip32 : v0der -> bytes

val v0_opt_kv : n -> bytes option -> (bytes * bytes) list

val v0_sig_kv : v0sig -> bytes * bytes

val v0_der_kv : n -> v0der -> bytes * bytes

val v0_unk_kv : v0unk -> bytes * bytes

val v0_in_kvs : v0in -> (bytes * bytes) list

val v0_out_kvs : v0out -> (bytes * bytes) list

val v0_sep : bytes

val v0_ser_section : (bytes * bytes) list -> bytes

val v0_global_kvs : v0pset -> (bytes * bytes) list

val v0_ser : v0pset -> bytes option

val v0_p_key : bytes option parser0

val v0_p_val : bytes parser0

val v0_p_section :
  ('a1 -> bytes -> bytes -> 'a1 option) -> nat -> 'a1 -> 'a1 parser0

val v0_section : ('a1 -> bytes -> bytes -> 'a1 option) -> 'a1 -> 'a1 parser0

val v0_read_txout : bytes -> txout option

val v0_words : bytes -> n list option

val v0_read_bip32 : bytes -> (n * n list) option

val v0_parse_tx_value : bytes -> tx option

val v0_no_kd : bytes -> bool

val v0_in_step :
  (bytes -> bool) -> (bytes -> bool) -> v0in -> bytes -> bytes -> v0in option

val v0_out_step : (bytes -> bool) -> v0out -> bytes -> bytes -> v0out option

val v0_gunk_step : v0unk list -> bytes -> bytes -> v0unk list option

val v0_sections : 'a1 parser0 -> 'a2 list -> 'a1 list parser0

val v0_parse : (bytes -> bool) -> (bytes -> bool) -> bytes -> v0pset option

val v0_len_ok : n -> bytes -> bool

val v0_nodupb : ('a1 -> 'a1 -> bool) -> 'a1 list -> bool

val v0_wf_nwu : tx -> bool

val v0_wf_wu : txout -> bool

val v0_wu45 : txout -> bool

val v0_wf_sig : (bytes -> bool) -> (bytes -> bool) -> v0sig -> bool

val v0_wf_der : (bytes -> bool) -> v0der -> bool

val v0_known_in_type : n -> bool

val v0_wf_unk : v0unk -> bool

val v0_wf_script : bytes option -> bool

val v0_unk_eqb : v0unk -> v0unk -> bool

val v0_wf_in_core : (bytes -> bool) -> (bytes -> bool) -> v0in -> bool

val v0_wf_out : (bytes -> bool) -> v0out -> bool

val v0_wf_core : (bytes -> bool) -> (bytes -> bool) -> v0pset -> bool

val v0_wu45_in : v0in -> bool

val v0_wu45_all : v0pset -> bool

val v0_wf : (bytes -> bool) -> (bytes -> bool) -> v0pset -> bool

val v0_norm_wu : txout -> txout

val v0_norm_in : v0in -> v0in

val v0_norm_out : v0out -> v0out

val v0_norm : v0pset -> v0pset

val v0_sortedb : ('a1 -> bytes) -> 'a1 list -> bool

val v0_flag_canon : tx -> bool

val v0_wu_canon : txout -> bool

val v0_canon_in : v0in -> bool

val v0_canon : v0pset -> bool

val zero32 : bytes

val one32 : bytes

val max_conf_value : bytes

val ht_base : n -> n

val ht_acp : n -> bool

val ht_rp : n -> bool

val ht_none : n -> bool

val ht_single : n -> bool

val ser_prevout : txin -> bytes

val ser_prevouts : txin list -> bytes

val ser_sequences : txin list -> bytes

val ser_iss_or_zero : txin -> bytes

val ser_issuances : txin list -> bytes

val ser_outputs : txout list -> bytes

val ser_out_proofs_rs : txout -> bytes

val ser_rangeproofs : txout list -> bytes

val set_seq : n -> txin -> txin

val set_script : bytes -> txin -> txin

val map_idx : (nat -> 'a1 -> 'a1) -> nat -> 'a1 list -> 'a1 list

val zero_other_seqs : nat -> txin list -> txin list

val blank_out : txout -> txout

val legacy_tx : tx -> nat -> bytes -> n -> tx option

val preimage_legacy : tx -> nat -> bytes -> n -> bytes option

val digest_legacy : (bytes -> bytes) -> tx -> nat -> bytes -> n -> bytes

val own_input_v0 : txin -> bytes -> bytes -> bytes

val covered_outs : tx -> nat -> n -> txout list option

val preimage_v0 :
  (bytes -> bytes) -> tx -> nat -> bytes -> bytes -> n -> bytes option

val digest_v0 :
  (bytes -> bytes) -> tx -> nat -> bytes -> bytes -> n -> bytes option

val input_flag : txin -> n

val ser_flags : txin list -> bytes

val ser_issuance_proofs : txin list -> bytes

val ser_out_witnesses : txout list -> bytes

val ser_scripts : bytes list -> bytes

val ser_asset_amounts : bytes list -> bytes list -> bytes option

type v1_args = { v1_scripts : bytes list; v1_assets : bytes list;
                 v1_values : bytes list; v1_genesis : bytes;
                 v1_leaf : bytes option; v1_annex : bytes option }

val v1_acp : n -> bool

val v1_out_type : n -> n

val v1_ins_part : (bytes -> bytes) -> tx -> v1_args -> n -> bytes option

val v1_own_part :
  (bytes -> bytes) -> txin -> nat -> v1_args -> n -> bytes option

val v1_outs_all : (bytes -> bytes) -> tx -> n -> bytes

val v1_outs_single : (bytes -> bytes) -> tx -> nat -> n -> bytes

val v1_spend_type : v1_args -> n

val preimage_v1 :
  (bytes -> bytes) -> tx -> nat -> v1_args -> n -> bytes option

val tag_tapsighash_elements : bytes

val digest_v1 : tx -> nat -> v1_args -> n -> bytes option

type part = byte list

val layout : part list -> bytes

val u32 : n -> part

val u8 : n -> part

val zero_hash : part

val s_outpoint : txin -> part

val s_issuance : issuance -> part

val s_issuance_or_null : txin -> part

val s_txout : txout -> part

val s_all : ('a1 -> part) -> 'a1 list -> part

val base_type : n -> n

val anyonecanpay : n -> bool

val spec_v0_preimage : tx -> nat -> bytes -> bytes -> n -> bytes option

val spec_v0_digest : tx -> nat -> bytes -> bytes -> n -> bytes option

val s_outpoint_flags : txin -> part

val legacy_inputs : nat -> nat -> bytes -> bool -> txin list -> part

val spec_legacy_preimage : tx -> nat -> bytes -> n -> bytes option

val spec_legacy_digest : tx -> nat -> bytes -> n -> bytes

type spent = { sp_script : bytes; sp_asset : bytes; sp_value : bytes }

val outpoint_flag : txin -> n

val s_issuance_proofs : txin -> part

val s_out_witness : txout -> part

val spec_v1_preimage :
  tx -> nat -> spent list -> bytes -> bytes option -> bytes option -> n ->
  bytes option

val spec_v1_digest :
  tx -> nat -> spent list -> bytes -> bytes option -> bytes option -> n ->
  bytes option

val g_separator : z

val g_maxPsbtKeyLength : z

val g_PsetProprietary : z

val g_magicPrefix : z list

val g_GlobalXpub : z

val g_GlobalTxVersion : z

val g_GlobalFallbackLocktime : z

val g_GlobalInputCount : z

val g_GlobalOutputCount : z

val g_GlobalTxModifiable : z

val g_GlobalVersion : z

val g_GlobalScalar : z

val g_GlobalModifiable : z

val g_pubKeyLength : z

val g_InputNonWitnessUtxo : z

val g_InputWitnessUtxo : z

val g_InputPartialSig : z

val g_InputSighashType : z

val g_InputRedeemScript : z

val g_InputWitnessScript : z

val g_InputBip32Derivation : z

val g_InputFinalScriptsig : z

val g_InputFinalScriptwitness : z

val g_InputRipemd160 : z

val g_InputSha256 : z

val g_InputHash160 : z

val g_InputHash256 : z

val g_InputPreviousTxid : z

val g_InputPreviousTxIndex : z

val g_InputSequence : z

val g_InputRequiredTimeLocktime : z

val g_InputRequiredHeightLocktime : z

val g_InputTapKeySig : z

val g_InputTapScriptSig : z

val g_InputTapLeafScript : z

val g_InputTapBip32Derivation : z

val g_InputTapInternalKey : z

val g_InputTapMerkleRoot : z

val g_InputIssuanceValue : z

val g_InputIssuanceValueCommitment : z

val g_InputIssuanceValueRangeproof : z

val g_InputIssuanceInflationKeysRangeproof : z

val g_InputPeginTx : z

val g_InputPeginTxoutProof : z

val g_InputPeginGenesis : z

val g_InputPeginClaimScript : z

val g_InputPeginValue : z

val g_InputPeginWitness : z

val g_InputIssuanceInflationKeys : z

val g_InputIssuanceInflationKeysCommitment : z

val g_InputIssuanceBlindingNonce : z

val g_InputIssuanceAssetEntropy : z

val g_InputUtxoRangeProof : z

val g_InputIssuanceBlindValueProof : z

val g_InputIssuanceBlindInflationKeysProof : z

val g_InputExplicitValue : z

val g_InputValueProof : z

val g_InputExplicitAsset : z

val g_InputAssetProof : z

val g_InputBlindedIssuanceValue : z

val g_OutputRedeemScript : z

val g_OutputWitnessScript : z

val g_OutputBip32Derivation : z

val g_OutputAmount : z

val g_OutputScript : z

val g_OutputValueCommitment : z

val g_OutputAsset : z

val g_OutputAssetCommitment : z

val g_OutputValueRangeproof : z

val g_OutputAssetSurjectionProof : z

val g_OutputBlindingPubkey : z

val g_OutputEcdhPubkey : z

val g_OutputBlinderIndex : z

val g_OutputBlindValueProof : z

val g_OutputBlindAssetProof : z

type 'a cres =
| ROk of 'a
| RErr
| RPanic

val cbind : 'a1 cres -> ('a1 -> 'a2 cres) -> 'a2 cres

val psetProprietary : n

val maxKeyLen : n

val pset_magic : bytes

val magic_sep : bytes

val pset_sep : byte

type kpair = { k_type : n; k_data : bytes; k_val : bytes }

val ser_kp : kpair -> bytes

type kpread =
| KEnd of bytes
| KGot of kpair * bytes
| KErr

val read_kp : bytes -> kpread

val prop_key : n -> bytes -> bytes

type pdata = { pd_id : bytes; pd_sub : n; pd_kd : bytes; pd_val : bytes }

val parse_prop : kpair -> pdata option

type mentry = bytes * bytes

type sec = { s_vals : bytes list; s_lists : mentry list list;
             s_props : pdata list; s_unks : kpair list }

val lset : nat -> 'a1 -> 'a1 list -> 'a1 list

val val_at : nat -> sec -> bytes

val list_at : nat -> sec -> mentry list

val set_val : nat -> bytes -> sec -> sec

val set_list : nat -> mentry list -> sec -> sec

val add_prop : pdata -> sec -> sec

val add_unk : kpair -> sec -> sec

type lenreq =
| LAny
| LEq of nat
| LEq2 of nat * nat

val len_ok : lenreq -> bytes -> bool

type skind =
| KBytes of lenreq
| KInt of nat
| KPtr of nat
| KModif
| KBool
| KCount
| KTx
| KTxOut
| KMsgTx
| KVec
| KPub
| KPanicInt of nat

type mkind =
| MXpub
| MScalar
| MPartialSig
| MBip32
| MMap of nat
| MTapScriptSig
| MTapLeaf
| MTapBip32

type slotk =
| SS of skind * bool
| MS of mkind

type keyid =
| KStd of n
| KProp of n

val keyid_eqb : keyid -> keyid -> bool

type slot = { sl_ekey : keyid; sl_dkey : keyid; sl_k : slotk }

val nonemptyb : 'a1 list -> bool

val bip32_ok : bytes -> bool

val fixlen : nat -> bytes -> bytes

val map_put : bytes -> bytes -> mentry list -> mentry list

val has_key : bytes -> mentry list -> bool

val read_txout : bytes -> bytes option

val makeslice_panics : n -> bool

val s_dec :
  (bytes -> bool) -> (bytes -> bytes option) -> skind -> bytes -> bytes cres

val s_emit : skind -> bytes -> bytes

val s_emits : skind -> bool -> bytes -> bool

val s_panics : skind -> bytes -> bool

val m_step :
  (bytes -> bool) -> (bytes -> bool) -> (bytes -> bool) -> mkind -> bytes ->
  bytes -> mentry list -> mentry list cres

val find_slot_from : nat -> keyid -> slot list -> (nat * slot) option

val find_slot : keyid -> slot list -> (nat * slot) option

val apply_slot :
  (bytes -> bool) -> (bytes -> bool) -> (bytes -> bool) -> (bytes -> bytes
  option) -> nat -> slot -> bytes -> bytes -> sec -> sec cres

val sec_step :
  (bytes -> bool) -> (bytes -> bool) -> (bytes -> bool) -> (bytes -> bytes
  option) -> slot list -> sec -> kpair -> sec cres

val empty_sec : slot list -> sec

val parse_kps :
  (bytes -> bool) -> (bytes -> bool) -> (bytes -> bool) -> (bytes -> bytes
  option) -> slot list -> nat -> sec -> bytes -> (sec * bytes) cres

val parse_section :
  (bytes -> bool) -> (bytes -> bool) -> (bytes -> bool) -> (bytes -> bytes
  option) -> slot list -> (sec -> bool) -> bytes -> (sec * bytes) cres

val mk_kp_id : keyid -> bytes -> bytes -> kpair

val emit_slot : nat -> slot -> sec -> kpair list cres

val emit_slots : nat -> slot list -> sec -> kpair list cres

val prop_kp : pdata -> kpair

val kps_of : slot list -> sec -> kpair list cres

val enc_kps : kpair list -> bytes

val ser_section : slot list -> sec -> bytes cres

val kS : z -> keyid

val kP : z -> keyid

val sl : keyid -> slotk -> slot

val global_tbl : slot list

val gXpubs : nat

val gTxVersion : nat

val gInputCount : nat

val gOutputCount : nat

val gTxModifiable : nat

val gScalars : nat

val gVersion : nat

val gModifiable : nat

val input_tbl : slot list

val iWitnessUtxo : nat

val iWitnessScript : nat

val iFinalScriptWitness : nat

val iPreviousTxid : nat

val iIssuanceValue : nat

val iIssuanceValueCommitment : nat

val iIssuanceInflationKeys : nat

val iIssuanceInflationKeysCommitment : nat

val iIssuanceBlindValueProof : nat

val iIssuanceBlindInflationKeysProof : nat

val iExplicitValue : nat

val iValueProof : nat

val iExplicitAsset : nat

val iAssetProof : nat

val iTapKeySig : nat

val iTapScriptSig : nat

val iTapLeafScript : nat

val iTapBip32 : nat

val iTapInternalKey : nat

val iTapMerkleRoot : nat

val output_tbl : slot list

val oValue : nat

val oValueCommitment : nat

val oAssetCommitment : nat

val oAsset : nat

val oValueRangeproof : nat

val oAssetSurjectionProof : nat

val oBlindingPubkey : nat

val oEcdhPubkey : nat

val oBlinderIndex : nat

val oBlindValueProof : nat

val oBlindAssetProof : nat

val has_val : nat -> sec -> bool

val num_val : nat -> sec -> n

val dup_keys : mentry list -> bool

val global_sanity : sec -> bool

val tapleaf_ok : mentry -> bool

val tapsig_ok : mentry -> bool

val tapbip_ok : mentry -> bool

val xorb' : bool -> bool -> bool

val input_sanity : sec -> bool

val out_partially_blinded : sec -> bool

val out_fully_blinded : sec -> bool

val out_needs_blinding : sec -> bool

val output_sanity : sec -> bool

type pset = { p_global : sec; p_ins : sec list; p_outs : sec list }

val pset_needs_blinding : pset -> bool

val pset_sanity : pset -> bool

val parse_secs :
  (bytes -> bool) -> (bytes -> bool) -> (bytes -> bool) -> (bytes -> bytes
  option) -> slot list -> (sec -> bool) -> nat -> n -> bytes -> (sec
  list * bytes) cres

val parse_pset :
  (bytes -> bool) -> (bytes -> bool) -> (bytes -> bool) -> (bytes -> bytes
  option) -> bytes -> pset cres

val ser_secs : slot list -> sec list -> bytes cres

val ser_pset : pset -> bytes cres

val norm_vals : slot list -> bytes list -> bytes list

val norm_sec : slot list -> sec -> sec

val norm_pset : pset -> pset

val cres_bytes_eqb : bytes cres -> bytes -> bool

val s_wf :
  (bytes -> bool) -> (bytes -> bytes option) -> skind -> bool -> bytes -> bool

val entry_eqb : mentry -> mentry -> bool

val entries_eqb : mentry list -> mentry list -> bool

val m_replay :
  (bytes -> bool) -> (bytes -> bool) -> (bytes -> bool) -> mkind -> mentry
  list -> mentry list -> mentry list cres

val m_wf :
  (bytes -> bool) -> (bytes -> bool) -> (bytes -> bool) -> mkind -> mentry
  list -> bool

val frame_ok : kpair -> bool

val slot_wf :
  (bytes -> bool) -> (bytes -> bool) -> (bytes -> bool) -> (bytes -> bytes
  option) -> nat -> slot -> sec -> bool

val slots_wf :
  (bytes -> bool) -> (bytes -> bool) -> (bytes -> bool) -> (bytes -> bytes
  option) -> nat -> slot list -> sec -> bool

val prop_wf : slot list -> pdata -> bool

val unk_wf : slot list -> kpair -> bool

val wf_sec :
  (bytes -> bool) -> (bytes -> bool) -> (bytes -> bool) -> (bytes -> bytes
  option) -> slot list -> (sec -> bool) -> sec -> bool

val wf_pset :
  (bytes -> bool) -> (bytes -> bool) -> (bytes -> bool) -> (bytes -> bytes
  option) -> pset -> bool

val secp_n : z

val sc : bytes -> z

val enc32 : z -> bytes

val zero0 : bytes

val len32 : bytes -> bool

val ec_negate : bytes -> bool * bytes

val ec_tweak_add : bytes -> bytes -> bool * bytes

val ec_tweak_mul : bytes -> bytes -> bool * bytes

type sowner =
| SCaller of nat
| SGlobal
| SLocal

type sbuf = { sb_own : sowner; sb_dat : bytes }

type swlog = (sowner * bytes) list

val scopy : sbuf option -> sbuf option

val sdat : sbuf option -> bytes

val sbuf_eqb : sbuf option -> sbuf option -> bool

val sinplace :
  (bytes -> bool * bytes) -> sbuf option -> swlog -> (bool * sbuf
  option) * swlog

val szero_buf : sbuf

type sres =
| SOk of sbuf option
| SErr

val val32 : n -> bytes

val calc_offset_w : n -> sbuf option -> sbuf option -> swlog -> sres * swlog

val sub_scalars_w : sbuf option -> sbuf option -> swlog -> sres * swlog

val add_offset_w :
  sbuf option -> n -> sbuf option -> sbuf option -> swlog -> sres * swlog

val sarg : nat -> bytes option -> sbuf option

type soutcome =
| SOOk of bytes option
| SOErr

val sout_of : sres -> soutcome

val go_calc_offset : n -> bytes option -> bytes option -> sres * swlog

val go_sub_scalars : bytes option -> bytes option -> sres * swlog

val go_add_offset :
  bytes option -> n -> bytes option -> bytes option -> sres * swlog

val sarg_after : nat -> bytes option -> swlog -> bytes option

val sreturns_global : sres -> bool

val pair_up : ('a1 -> 'a1 -> 'a1) -> 'a1 list -> 'a1 list

val root_levels : ('a1 -> 'a1 -> 'a1) -> nat -> 'a1 list -> 'a1 option

val merkle_root : ('a1 -> 'a1 -> 'a1) -> 'a1 list -> 'a1 option

type 'a mtree =
| Leaf of 'a * bool
| Node2 of 'a mtree * 'a mtree
| Node1 of 'a mtree

val ttake : nat -> ('a1 * bool) list -> ('a1 mtree * ('a1 * bool) list) option

val tree_height : n -> nat

val tree_of : ('a1 * bool) list -> 'a1 mtree option

val thash : ('a1 -> 'a1 -> 'a1) -> 'a1 mtree -> 'a1

val tany : 'a1 mtree -> bool

val tbits : 'a1 mtree -> bool list

val thashes : ('a1 -> 'a1 -> 'a1) -> 'a1 mtree -> 'a1 list

val pad8 : bool list -> bool list

val build :
  ('a1 -> 'a1 -> 'a1) -> ('a1 * bool) list -> (bool list * 'a1 list) option

val g_maxBlockWeight : z

val g_minTransactionWeight : z

val max_txs : n

val width : n -> n -> n

val height_loop : nat -> n -> n -> n option

type 'a st = { s_bits : bool list; s_hashes : 'a list; s_match : 'a list;
               s_bad : bool }

val traverse :
  ('a1 -> 'a1 -> 'a1) -> ('a1 -> 'a1 -> bool) -> n -> nat -> n -> 'a1 st ->
  ('a1 * 'a1 st) option

val extract :
  ('a1 -> 'a1 -> 'a1) -> ('a1 -> 'a1 -> bool) -> n -> 'a1 list -> bool list
  -> ('a1 * 'a1 list) option

val byte_bits : byte -> bool list

val bits_of_bytes : bytes -> bool list

type merkle_block = { mb_header : bytes; mb_count : n;
                      mb_hashes : bytes list; mb_flags : bytes }

val wire_max_hashes : n

val wire_max_flags : n

val parse_merkle_block : merkle_block parser0

val header_root : bytes -> bytes

val node_hash : bytes -> bytes -> bytes

val extract_mb : merkle_block -> (bytes * bytes list) option

type proof_result =
| PParseErr
| PExtractErr of merkle_block
| POk of merkle_block * bytes * bytes list

val run_proof : bytes -> proof_result

val pack_byte : bool list -> nat -> n -> n

val pack_bits : nat -> bool list -> bytes

val flags_of_bits : bool list -> bytes

val ser_merkle_block : merkle_block -> bytes

type btc_view = { bv_txid : bytes; bv_stripped : bytes;
                  bv_outs : (n * bytes) list; bv_main_script : bytes }

val defaultSequence : n

val value_bytes : n -> bytes

val serialize_value : n -> bytes

val find_out :
  (n * bytes) list -> bytes -> n -> (n * n) option -> (n * n) option

val new_index : n -> n

val pegin_input : bytes -> n -> bytes list -> txin

type 'x pegres =
| PgOk of 'x
| PgErr
| PgPanic

val create_pegin_input :
  bytes -> bytes -> bytes -> bytes -> btc_view option -> (txin * n) pegres

val claim_out0 : bytes -> bytes -> n -> txout

val claim_out1 : bytes -> n -> txout

val claim_tx : txin -> bytes -> bytes -> n -> (n -> n) -> tx

val claim :
  bytes -> bytes -> bytes -> bytes -> btc_view option -> (n -> n) -> tx pegres

val fee_dyadic : n -> n -> n -> n

val mkl_build : bytes -> (bytes * bool) list -> bytes option

val mkl_root : bytes list -> bytes option

val mkl_run : bytes -> proof_result

val mkl_claim :
  bytes -> bytes -> bytes -> bytes -> btc_view option -> n -> n -> tx pegres

val rotl32 : n -> n -> n

val rmd_f : nat -> n -> n -> n -> n

val rmd_KL : n list

val rmd_KR : n list

val rmd_RL : nat list

val rmd_RR : nat list

val rmd_SL : n list

val rmd_SR : n list

val le_words_of : nat -> bytes -> n list

type rmd_state = (((n * n) * n) * n) * n

val rmd_step : bool -> n list -> rmd_state -> nat -> rmd_state

val rmd_compress : rmd_state -> bytes -> rmd_state

val rmd_blocks : nat -> rmd_state -> bytes -> rmd_state

val rmd_pad : bytes -> bytes

val rmd_IV : rmd_state

val rmd_digest_of : rmd_state -> bytes

val ripemd160 : bytes -> bytes

val hash160 : bytes -> bytes

type rstat =
| StOk
| StErr
| StPanic

type 'a oc =
| OcOk of 'a
| OcErr
| OcPanic

val obind : 'a1 oc -> ('a1 -> 'a2 oc) -> 'a2 oc

val osome : 'a1 option -> bool

val onone : 'a1 option -> bool

val obytes : bytes option -> bytes

val nthN_err : 'a1 list -> n -> 'a1 option

val lupd : 'a1 list -> nat -> ('a1 -> 'a1) -> 'a1 list

val last_byte : bytes -> byte option

val sOP_0 : byte

val sOP_PUSHDATA1 : byte

val sOP_PUSHDATA2 : byte

val sOP_PUSHDATA4 : byte

val sOP_1NEGATE : byte

val sOP_DUP : byte

val sOP_EQUAL : byte

val sOP_EQUALVERIFY : byte

val sOP_HASH160 : byte

val sOP_CHECKSIG : byte

val sOP_CHECKMULTISIG : byte

val maxScriptSize : n

val maxScriptElementSize : n

val add_data_raw : bytes -> bytes

type builder = bytes option

val sb_new : builder

val sb_op : builder -> byte -> builder

val sb_data : builder -> bytes -> builder

val tokenize_f : nat -> bytes -> (byte * bytes) list option

val tokenize : bytes -> (byte * bytes) list option

val small_int_op : byte -> bool

val as_small_int : byte -> n

val ms_count :
  (byte * bytes) list -> n -> ((n * byte) * (byte * bytes) list) option

val ms_stats : bytes -> (n * n) option

val ms_keys : (byte * bytes) list -> bytes list

val ms_parse : bytes -> (n * bytes list) option

val is_witness_program : bytes -> bool

val is_p2sh : bytes -> bool

val is_p2wsh : bytes -> bool

val is_p2wpkh : bytes -> bool

val is_p2pkh : bytes -> bool

val is_p2tr : bytes -> bool

val p2pkh_script : bytes -> bytes

val built_p2sh : bytes -> builder

val built_p2wsh : bytes -> builder

val built_p2wpkh : bytes -> builder

type pin = { pi_nwu : tx option; pi_wu : txout option;
             pi_sigs : (bytes * bytes) list; pi_sht : n;
             pi_redeem : bytes option; pi_wscript : bytes option;
             pi_fsig : bytes option; pi_fwit : bytes option }

val empty_pin : pin

val set_nwu : tx option -> pin -> pin

val set_wu : txout option -> pin -> pin

val set_sigs : (bytes * bytes) list -> pin -> pin

val set_redeem : bytes option -> pin -> pin

val set_wscript : bytes option -> pin -> pin

val set_fsig : bytes option -> pin -> pin

val set_fwit : bytes option -> pin -> pin

type pset0 = { p0_tx : tx; p0_ins : pin list }

val sane_in0 : pin -> bool

val validate_unsigned : tx -> bool

val sanity0 : pset0 -> bool

val with_in0 : pset0 -> nat -> (pin -> pin) -> pset0

val beq_builder : builder -> bytes -> bool option

val admit_checks : pin -> bytes -> bool -> bytes -> n -> unit oc

val has_sig_for : pin -> bytes -> bool

val add_partial_sig0 : pset0 -> nat -> bytes -> bytes -> bool -> pset0 * rstat

val nw_prevout0 : pset0 -> nat -> pin -> txout oc

val nw_to_w0 : pset0 -> nat -> pset0 * rstat

val is_final0 : pin -> bool

val sign0 :
  pset0 -> nat -> bytes -> bytes -> bool -> bytes option -> bytes option ->
  pset0 * rstat

val is_prefix : bytes -> bytes -> bool

val bindex_from : bytes -> bytes -> n -> n option

val bindex_of : bytes -> bytes -> n option

val insert_pos : (n * 'a1) -> (n * 'a1) list -> (n * 'a1) list

val sort_pos : (n * 'a1) list -> (n * 'a1) list

val positions : bytes -> (bytes * bytes) list -> (n * bytes) list option

val extract_key_order : bytes -> (bytes * bytes) list -> bytes list option

val ser_witness : bytes list -> bytes

val multisig_witness : bytes -> (bytes * bytes) list -> bytes option

val expected_sht : pin -> n

val check_sigs_sht : n -> (bytes * bytes) list -> unit oc

val has_f : bool -> bytes option -> bool

val of_builder : builder -> bytes oc

val legacy_sigscript : bool -> pin -> bytes oc

val witness_final : bool -> pin -> (bytes * bytes) oc

val new_pin : tx option -> txout option -> pin

val finalize0 : pset0 -> nat -> pset0 * rstat

val finalizable_witness : bool -> pin -> bytes -> bool -> bool

val finalizable_legacy : bool -> pin -> txout -> bool

val finalizable0 : pset0 -> nat -> pin -> bool oc

val maybe_finalize0 : pset0 -> nat -> pset0 * rstat

val for_all_inputs :
  ('a1 -> nat -> 'a1 * rstat) -> 'a1 -> nat list -> 'a1 * rstat

val finalize_all0 : pset0 -> pset0 * rstat

val maybe_finalize_all0 : pset0 -> pset0 * rstat

val read_witness : bytes -> bytes list option

val set_in_final : txin -> pin -> txin option

val extract_ins : txin list -> pin list -> txin list oc

val all_final0 : txin list -> pin list -> bool oc

val extract0 : pset0 -> tx oc

val bytes_leb : bytes -> bytes -> bool

val insert_pk :
  (bytes * bytes) -> (bytes * bytes) list -> (bytes * bytes) list

val sort_pk : (bytes * bytes) list -> (bytes * bytes) list

val hop_in0 : pin -> pin

val hop0 : pset0 -> pset0

type tsig = { ts_pk : bytes; ts_sig : bytes; ts_leaf : bytes }

type tleaf = { tl_script : bytes; tl_version : n; tl_cb : bytes }

type pin2 = { q_base : pin; q_txid : bytes; q_index : n; q_seq : n;
              q_tlock : n; q_hlock : n; q_iss_value : n;
              q_iss_vcommit : bytes option; q_iss_vrp : bytes option;
              q_iss_krp : bytes option; q_iss_keys : n;
              q_iss_kcommit : bytes option; q_iss_nonce : bytes option;
              q_iss_entropy : bytes option; q_iss_vproof : bytes;
              q_iss_kproof : bytes; q_pegwit : bytes list option;
              q_tapkeysig : bytes; q_tapsigs : tsig list;
              q_tapleafs : tleaf list; q_tapinternal : bytes;
              q_tapmerkle : bytes }

val set_base : pin -> pin2 -> pin2

val on_base : (pin -> pin) -> pin2 -> pin2

val set_tapkeysig : bytes -> pin2 -> pin2

val set_tapsigs : tsig list -> pin2 -> pin2

type pout2 = { po_value : n; po_vcommit : bytes option;
               po_asset : bytes option; po_acommit : bytes option;
               po_script : bytes; po_ecdh : bytes option;
               po_rp : bytes option; po_sp : bytes option;
               po_blindpk : bytes; po_blinder : n; po_vproof : bytes;
               po_aproof : bytes }

type pset2 = { g_txversion : n; g_fallback : n option; g_nscalars : n;
               q_ins : pin2 list; q_outs : pout2 list }

val with_in2 : pset2 -> nat -> (pin2 -> pin2) -> pset2

val olen : bytes option -> bool

val out_needs_blinding0 : pout2 -> bool

val out_partially_blinded0 : pout2 -> bool

val out_fully_blinded0 : pout2 -> bool

val sane_out2 : pout2 -> bool

val sane_tapsig : tsig -> bool

val sane_in2 : pin2 -> bool

val needs_blinding2 : pset2 -> bool

val sanity2 : pset2 -> bool

val is_final2 : pin2 -> bool

val is_taproot : pin2 -> bool

val add_partial_sig2 : pset2 -> nat -> bytes -> bytes -> bool -> pset2 * rstat

val nw_prevout2 : pin2 -> txout oc

val nw_to_w2 : pset2 -> nat -> pset2 * rstat

val sign2 :
  pset2 -> nat -> bytes -> bytes -> bool -> bytes option -> bytes option ->
  pset2 * rstat

val sign_tap_key2 : pset2 -> nat -> bytes -> pset2 * rstat

val sign_tap_script2 : pset2 -> nat -> tsig -> pset2 * rstat

val tag_tapleaf_elements : bytes

val tapleaf_hash : tleaf -> bytes

val taproot_final : pin2 -> bytes oc

val finalize2 : pset2 -> nat -> pset2 * rstat

val finalize_all2 : pset2 -> pset2 * rstat

val tap_finalizable : pin2 -> bool

val finalizable2 : pin2 -> bool oc

val maybe_finalize2 : pset2 -> nat -> pset2 * rstat

val maybe_finalize_all2 : pset2 -> pset2 * rstat

val locktime2 : pset2 -> n

val value_to_bytes : n -> bytes

val out_to_txout : pout2 -> txout

val iss_amount0 : pin2 -> bytes

val iss_token0 : pin2 -> bytes

val iss_of : pin2 -> issuance

val unsigned_in2 : pin2 -> txin

val unsigned_tx2 : pset2 -> tx

val extract_in2 : pin2 -> txin option

val extract_ins2 : pin2 list -> txin list option

val extract2 : pset2 -> tx oc

val sort_in0 : pin -> pin

val ser_side_effect : pin list -> pin list * bool

val hop0_st : pset0 -> pset0 * rstat

val norm_opt : bytes option -> bytes option

val hop_in2 : pin2 -> pin2

val hop2_st : pset2 -> pset2 * rstat

val strip_in : txin -> txin

val strip_tx : tx -> tx

type salgo =
| ALegacy
| AWitV0
| ATapKey
| ATapLeaf

val pushes_of : (byte * bytes) list -> bytes list option

val parse_pushes : bytes -> bytes list option

val cms_loop : (bytes -> bytes -> bool) -> bytes list -> bytes list -> bool

val checkmultisig :
  (bytes -> bytes -> bool) -> n -> bytes list -> bytes list -> bool

val unsnoc : 'a1 list -> ('a1 list * 'a1) option

val eval_multisig :
  (salgo -> bytes -> bytes -> bytes -> bool) -> salgo -> bytes -> bytes list
  -> bool

val eval_wpkh :
  (salgo -> bytes -> bytes -> bytes -> bool) -> bytes -> bytes list -> bool

val eval_wsh :
  (salgo -> bytes -> bytes -> bytes -> bool) -> bytes -> bytes list -> bool

val eval_witness_program :
  (salgo -> bytes -> bytes -> bytes -> bool) -> bytes -> bytes list -> bool

val eval_taproot :
  (salgo -> bytes -> bytes -> bytes -> bool) -> (bytes -> bytes -> bytes ->
  bool) -> bytes -> bytes list -> bool

val satisfies :
  (salgo -> bytes -> bytes -> bytes -> bool) -> (bytes -> bytes -> bytes ->
  bool) -> bytes -> bytes -> bytes list -> bool

val bl_n : z

val bl_sc : bytes -> z

val bl_enc : z -> bytes

val bl_zero32 : bytes

val bl_len32 : bytes -> bool

type 'a bres =
| BOk of 'a
| BErr
| BPanic

val bl_negate : bytes -> bytes option

val bl_tweak_add : bytes -> bytes -> bytes option

val bl_tweak_mul : bytes -> z -> bytes option

val bl_calc_offset : z -> bytes option -> bytes option -> bytes option option

val bl_sub : bytes option -> bytes option -> bytes option option

val bl_add_offset :
  bytes option -> z -> bytes option -> bytes option -> bytes option option

type bl_pin = { bpi_conf : bool; bpi_issv : z; bpi_issk : z;
                bpi_vopen : bytes option; bpi_topen : bytes option }

type bl_pout = { bpo_value : z; bpo_blind : bool; bpo_bidx : n;
                 bpo_open : (bytes * bytes) option }

type bl_pset = { bps_ins : bl_pin list; bps_outs : bl_pout list;
                 bps_scalars : bytes list }

type bl_owned = { bow_idx : n; bow_value : z; bow_abf : bytes option;
                  bow_vbf : bytes option }

type bl_issarg = { bia_idx : n; bia_vbf : bytes option;
                   bia_tbf : bytes option; bia_hasvc : bool; bia_hastc : 
                   bool }

type bl_outarg = { boa_idx : n; boa_abf : bytes option; boa_vbf : bytes option }

val bl_nth : 'a1 list -> n -> 'a1 option

val bl_upd : 'a1 list -> nat -> 'a1 -> 'a1 list

val bl_out_needs : bl_pout -> bool

val bl_out_full : bl_pout -> bool

val bl_needs_blinding : bl_pset -> bool

val bl_is_fully_blinded : bl_pset -> bool

val bl_sanity : bl_pset -> bool

val bl_optlen_ok : bytes option -> bool

val bl_owned_ok : bl_pset -> bl_owned -> bool

val bl_new_blinder : bl_pset -> bl_owned list -> bool

val bl_has_issuance : bl_pin -> bool

val bl_issarg_ok : bl_pset -> bl_issarg -> bool

val bl_outarg_ok : bl_pset -> bl_outarg -> bool

val bl_insert : bl_outarg -> bl_outarg list -> bl_outarg list

val bl_sort : bl_outarg list -> bl_outarg list

val bl_own_output : bl_owned list -> n -> bool

val bl_validate_args :
  bl_pset -> bl_owned list -> bl_outarg list -> bool -> bool

val bl_or_zero : bytes option -> bytes option

val bl_input_scalar :
  bl_pset -> bl_issarg list -> bl_owned list -> bytes option -> bytes option
  option

val bl_output_sum :
  bl_pset -> bl_outarg list -> bytes option -> bytes option option

val bl_output_scalar :
  bool -> bl_pset -> bytes option -> bl_outarg list -> bool -> bytes option
  option

val bl_sub_all : bytes option -> bytes list -> bytes option option

val bl_last_vbf : bl_pset -> bl_outarg -> bytes option -> bytes option option

val bl_write_iss : bl_pin list -> bl_issarg -> bl_pin list

val bl_write_out : bl_pout list -> n -> bytes -> bytes -> bl_pout list

val bl_ob : bytes option -> bytes

val bl_write_outs :
  bl_pout list -> bl_outarg list -> bool -> bytes -> bl_pout list

type bl_step_out = { bso_pset : bl_pset; bso_scalar : bytes option;
                     bso_lastvbf : bytes option }

val bl_blind :
  bool -> bl_pset -> bl_owned list -> bl_issarg list -> bl_outarg list ->
  bool -> bool -> bl_step_out bres

type bl_party = { bpa_genok : bool; bpa_vok : bool;
                  bpa_owned : bl_owned list; bpa_iss : bl_issarg list;
                  bpa_outs : bl_outarg list }

val bl_party_step : bool -> bl_pset -> bl_party -> bool -> bl_step_out bres

type bl_lin = (n * z) list * z

val bl_lin0 : bl_lin

val bl_lin_add : bl_lin -> bl_lin -> bl_lin

val bl_commit : n -> z -> z -> z -> bl_lin

val bl_explicit : n -> z -> bl_lin

val bl_coef : (n * z) list -> n -> z

val bl_lin_eqb : bl_lin -> bl_lin -> bool

val bl_lin_sum : bl_lin list -> bl_lin

type bl_win = { bwi_asset : n; bwi_value : z; bwi_abf : bytes;
                bwi_vbf : bytes; bwi_iss : n; bwi_issv : z; bwi_isst : 
                z }

type bl_wout = { bwo_asset : n; bwo_value : z }

val bl_in_commit : bl_win -> bl_lin

val bl_amount : n -> z -> bytes option -> bl_lin

val bl_tx_in : n -> bl_win list -> bl_pin list -> bl_lin list

val bl_tx_out : bl_wout list -> bl_pout list -> bl_lin list

val bl_balanced : bl_win list -> bl_wout list -> bl_pset -> bool

type b0_in = { bi0_asset : n; bi0_value : z; bi0_abf : bytes;
               bi0_vbf : bytes; bi0_iss : n; bi0_issv : z; bi0_isst : 
               z }

type b0_out = { bo0_asset : n; bo0_value : z; bo0_noscript : bool }

val b0_draw : bytes list -> (bytes * bytes list) option

val b0_draws : nat -> bytes list -> (bytes list * bytes list) option

type b0_ent = { ben_asset : n; ben_value : z; ben_abf : bytes; ben_vbf : bytes }

val b0_pseudo :
  bool -> n -> b0_in list -> bytes list -> (b0_ent list * bytes list) option

val b0_ins : n -> n list -> n list

val b0_sort : n list -> n list

val b0_bsum : z list -> bytes list -> bytes list -> nat -> z -> z option

val b0_final_vbf :
  z list -> z list -> bytes list -> bytes list -> bytes list -> bytes list ->
  bytes option

type b0_result = { br0_outs : (bytes * bytes) option list;
                   br0_iss : (bytes option * bytes option) list }

val b0_zip3 : z list -> bytes list -> bytes list -> ((z * bytes) * bytes) list

val b0_writeback :
  n list -> (bytes * bytes) list -> (bytes * bytes) option list ->
  (bytes * bytes) option list bres

val b0_writeback_fixed :
  n list -> (bytes * bytes) list -> (bytes * bytes) option list ->
  (bytes * bytes) option list bres

val b0_iss_open :
  bool -> n -> b0_in list -> b0_ent list -> (bytes option * bytes option) list

val b0_blind :
  bool -> b0_in list -> b0_out list -> n list -> bool -> bool -> bytes list
  -> b0_result bres

val b0_tx_in :
  n -> b0_in list -> (bytes option * bytes option) list -> bl_lin list

val b0_tx_out : b0_out list -> (bytes * bytes) option list -> bl_lin list

val b0_balanced : b0_in list -> b0_out list -> b0_result -> bool

val g_TagTapLeafElements : z list

val g_TagTapBranchElements : z list

val g_TagTapTweakElements : z list

val bytes_compare : bytes -> bytes -> comparison

val bytes_gt : bytes -> bytes -> bool

val tag_of : z list -> bytes

val tag_leaf : bytes

val tag_branch : bytes

val tag_tweak : bytes

type tapleaf = { tlf_version : byte; tlf_script : bytes }

val tag_prefix : bytes -> bytes

val tag_mid : bytes -> n list

val tagged_from_mid : bytes -> n list -> bytes -> bytes

val leaf_pre : bytes

val leaf_mid : n list

val branch_pre : bytes

val branch_mid : n list

val tweak_pre : bytes

val tweak_mid : n list

val leaf_hash : tapleaf -> bytes

val branch_hash_raw : bytes -> bytes -> bytes

type 'a toutcome =
| Done of 'a
| GoPanic
| OutOfFuel

val tobind : 'a1 toutcome -> ('a1 -> 'a2 toutcome) -> 'a2 toutcome

val tupd : nat -> ('a1 -> 'a1) -> 'a1 list -> 'a1 list toutcome

val split_last : 'a1 list -> ('a1 list * 'a1) option

val branch : (bytes -> bytes -> bytes) -> bytes -> bytes -> bytes

type tnode =
| TLeaf of bytes * tapleaf
| TBranch of bytes * tnode * tnode

val tnode_hash : tnode -> bytes

val mk_leaf : (tapleaf -> bytes) -> tapleaf -> tnode

val mk_branch : (bytes -> bytes -> bytes) -> tnode -> tnode -> tnode

val leaves_of : tnode -> tnode list

type proof_entry = { pe_leaf : tapleaf; pe_proof : bytes }

val zero_entry : proof_entry

val add_proof : bytes -> proof_entry -> proof_entry

val set_leaf_add : tapleaf -> bytes -> proof_entry -> proof_entry

type index = (bytes * nat) list

val idx_get : index -> bytes -> nat

val build_index : (tapleaf -> bytes) -> nat -> tapleaf list -> index -> index

type tbranch = tnode * tnode

val bnode : (bytes -> bytes -> bytes) -> tbranch -> tnode

val pair_pass :
  (tapleaf -> bytes) -> (bytes -> bytes -> bytes) -> index -> nat -> tapleaf
  list -> tbranch list -> proof_entry list -> (tbranch list * proof_entry
  list) toutcome

val add_to_leaves :
  index -> tnode list -> bytes -> proof_entry list -> proof_entry list
  toutcome

val merge_phase :
  (bytes -> bytes -> bytes) -> index -> nat -> tbranch list -> proof_entry
  list -> (tnode option * proof_entry list) toutcome

val assemble :
  (tapleaf -> bytes) -> (bytes -> bytes -> bytes) -> tapleaf list -> (tnode
  option * proof_entry list) toutcome

val root_from : (bytes -> bytes -> bytes) -> nat -> bytes -> bytes -> bytes

val proof_root : (bytes -> bytes -> bytes) -> bytes -> bytes -> bytes

type cblock = { cb_key : bytes; cb_odd : bool; cb_version : byte;
                cb_proof : bytes }

val ser_cb : cblock -> bytes

val cb_base_size : nat

val cb_node_size : nat

val cb_max_size : nat

val tap_p : z

val tap_n : z

val powmod_pos : z -> positive -> z -> z

val x_on_curve : bytes -> bool

val parse_cb : (bytes -> bool) -> bytes -> cblock option

val to_cb : proof_entry -> bytes -> bool -> cblock

val cb_root :
  (tapleaf -> bytes) -> (bytes -> bytes -> bytes) -> cblock -> bytes -> bytes

val tapleaf_kv : tapleaf -> cblock -> bytes * bytes

type kv_result =
| KvOk of tapleaf * cblock
| KvErr
| KvPanic

val parse_tapleaf_kv : (bytes -> bool) -> bytes -> bytes -> kv_result

val scalar_of_bytes : bytes -> z

val scalar_to_bytes : z -> bytes

val tweak_hash : bytes -> bytes -> bytes

val tweak_scalar : bytes -> bytes -> z

val tweak_priv_with :
  (bytes -> bytes -> z) -> bool -> bytes -> z -> bytes -> z * z

val tweak_priv : bool -> bytes -> z -> bytes -> z * z

val verify_with_oracle : cblock -> bytes -> bytes -> bool -> bool

val assemble_c : tapleaf list -> (tnode option * proof_entry list) toutcome

val cb_root_c : cblock -> bytes -> bytes

val parse_cb_c : bytes -> cblock option

val parse_tapleaf_kv_c : bytes -> bytes -> kv_result
