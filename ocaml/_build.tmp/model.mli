
val negb : bool -> bool

type nat =
| O
| S of nat

val option_map : ('a1 -> 'a2) -> 'a1 option -> 'a2 option

type ('a, 'b) sum =
| Inl of 'a
| Inr of 'b

val fst : ('a1 * 'a2) -> 'a1

val snd : ('a1 * 'a2) -> 'a2

val length : 'a1 list -> nat

val app : 'a1 list -> 'a1 list -> 'a1 list

type comparison =
| Eq
| Lt
| Gt

val compOpp : comparison -> comparison

val pred : nat -> nat

val add : nat -> nat -> nat

val mul : nat -> nat -> nat

val sub : nat -> nat -> nat

type byte =
| X00
| X01
| X02
| X03
| X04
| X05
| X06
| X07
| X08
| X09
| X0a
| X0b
| X0c
| X0d
| X0e
| X0f
| X10
| X11
| X12
| X13
| X14
| X15
| X16
| X17
| X18
| X19
| X1a
| X1b
| X1c
| X1d
| X1e
| X1f
| X20
| X21
| X22
| X23
| X24
| X25
| X26
| X27
| X28
| X29
| X2a
| X2b
| X2c
| X2d
| X2e
| X2f
| X30
| X31
| X32
| X33
| X34
| X35
| X36
| X37
| X38
| X39
| X3a
| X3b
| X3c
| X3d
| X3e
| X3f
| X40
| X41
| X42
| X43
| X44
| X45
| X46
| X47
| X48
| X49
| X4a
| X4b
| X4c
| X4d
| X4e
| X4f
| X50
| X51
| X52
| X53
| X54
| X55
| X56
| X57
| X58
| X59
| X5a
| X5b
| X5c
| X5d
| X5e
| X5f
| X60
| X61
| X62
| X63
| X64
| X65
| X66
| X67
| X68
| X69
| X6a
| X6b
| X6c
| X6d
| X6e
| X6f
| X70
| X71
| X72
| X73
| X74
| X75
| X76
| X77
| X78
| X79
| X7a
| X7b
| X7c
| X7d
| X7e
| X7f
| X80
| X81
| X82
| X83
| X84
| X85
| X86
| X87
| X88
| X89
| X8a
| X8b
| X8c
| X8d
| X8e
| X8f
| X90
| X91
| X92
| X93
| X94
| X95
| X96
| X97
| X98
| X99
| X9a
| X9b
| X9c
| X9d
| X9e
| X9f
| Xa0
| Xa1
| Xa2
| Xa3
| Xa4
| Xa5
| Xa6
| Xa7
| Xa8
| Xa9
| Xaa
| Xab
| Xac
| Xad
| Xae
| Xaf
| Xb0
| Xb1
| Xb2
| Xb3
| Xb4
| Xb5
| Xb6
| Xb7
| Xb8
| Xb9
| Xba
| Xbb
| Xbc
| Xbd
| Xbe
| Xbf
| Xc0
| Xc1
| Xc2
| Xc3
| Xc4
| Xc5
| Xc6
| Xc7
| Xc8
| Xc9
| Xca
| Xcb
| Xcc
| Xcd
| Xce
| Xcf
| Xd0
| Xd1
| Xd2
| Xd3
| Xd4
| Xd5
| Xd6
| Xd7
| Xd8
| Xd9
| Xda
| Xdb
| Xdc
| Xdd
| Xde
| Xdf
| Xe0
| Xe1
| Xe2
| Xe3
| Xe4
| Xe5
| Xe6
| Xe7
| Xe8
| Xe9
| Xea
| Xeb
| Xec
| Xed
| Xee
| Xef
| Xf0
| Xf1
| Xf2
| Xf3
| Xf4
| Xf5
| Xf6
| Xf7
| Xf8
| Xf9
| Xfa
| Xfb
| Xfc
| Xfd
| Xfe
| Xff

val to_bits :
  byte -> bool * (bool * (bool * (bool * (bool * (bool * (bool * bool))))))

val eqb : bool -> bool -> bool

module Nat :
 sig
  val sub : nat -> nat -> nat

  val eqb : nat -> nat -> bool

  val leb : nat -> nat -> bool

  val ltb : nat -> nat -> bool

  val max : nat -> nat -> nat

  val min : nat -> nat -> nat

  val divmod : nat -> nat -> nat -> nat -> nat * nat

  val div : nat -> nat -> nat

  val modulo : nat -> nat -> nat
 end

val hd : 'a1 -> 'a1 list -> 'a1

val tl : 'a1 list -> 'a1 list

val nth : nat -> 'a1 list -> 'a1 -> 'a1

val nth_error : 'a1 list -> nat -> 'a1 option

val removelast : 'a1 list -> 'a1 list

val rev : 'a1 list -> 'a1 list

val concat : 'a1 list list -> 'a1 list

val map : ('a1 -> 'a2) -> 'a1 list -> 'a2 list

val flat_map : ('a1 -> 'a2 list) -> 'a1 list -> 'a2 list

val fold_left : ('a1 -> 'a2 -> 'a1) -> 'a2 list -> 'a1 -> 'a1

val fold_right : ('a2 -> 'a1 -> 'a1) -> 'a1 -> 'a2 list -> 'a1

val existsb : ('a1 -> bool) -> 'a1 list -> bool

val forallb : ('a1 -> bool) -> 'a1 list -> bool

val filter : ('a1 -> bool) -> 'a1 list -> 'a1 list

val find : ('a1 -> bool) -> 'a1 list -> 'a1 option

val combine : 'a1 list -> 'a2 list -> ('a1 * 'a2) list

val firstn : nat -> 'a1 list -> 'a1 list

val skipn : nat -> 'a1 list -> 'a1 list

val seq : nat -> nat -> nat list

val repeat : 'a1 -> nat -> 'a1 list

type positive =
| XI of positive
| XO of positive
| XH

type n =
| N0
| Npos of positive

type z =
| Z0
| Zpos of positive
| Zneg of positive

module Pos :
 sig
  type mask =
  | IsNul
  | IsPos of positive
  | IsNeg
 end

module Coq_Pos :
 sig
  val succ : positive -> positive

  val add : positive -> positive -> positive

  val add_carry : positive -> positive -> positive

  val pred_double : positive -> positive

  val pred_N : positive -> n

  type mask = Pos.mask =
  | IsNul
  | IsPos of positive
  | IsNeg

  val succ_double_mask : mask -> mask

  val double_mask : mask -> mask

  val double_pred_mask : positive -> mask

  val sub_mask : positive -> positive -> mask

  val sub_mask_carry : positive -> positive -> mask

  val mul : positive -> positive -> positive

  val iter : ('a1 -> 'a1) -> 'a1 -> positive -> 'a1

  val pow : positive -> positive -> positive

  val size : positive -> positive

  val compare_cont : comparison -> positive -> positive -> comparison

  val compare : positive -> positive -> comparison

  val eqb : positive -> positive -> bool

  val coq_Nsucc_double : n -> n

  val coq_Ndouble : n -> n

  val coq_lor : positive -> positive -> positive

  val coq_land : positive -> positive -> n

  val coq_lxor : positive -> positive -> n

  val shiftl : positive -> n -> positive

  val testbit : positive -> n -> bool

  val iter_op : ('a1 -> 'a1 -> 'a1) -> positive -> 'a1 -> 'a1

  val to_nat : positive -> nat

  val of_succ_nat : nat -> positive
 end

module N :
 sig
  val succ_double : n -> n

  val double : n -> n

  val succ : n -> n

  val pred : n -> n

  val add : n -> n -> n

  val sub : n -> n -> n

  val mul : n -> n -> n

  val compare : n -> n -> comparison

  val eqb : n -> n -> bool

  val leb : n -> n -> bool

  val ltb : n -> n -> bool

  val min : n -> n -> n

  val max : n -> n -> n

  val div2 : n -> n

  val pow : n -> n -> n

  val log2 : n -> n

  val pos_div_eucl : positive -> n -> n * n

  val div_eucl : n -> n -> n * n

  val div : n -> n -> n

  val modulo : n -> n -> n

  val coq_lor : n -> n -> n

  val coq_land : n -> n -> n

  val coq_lxor : n -> n -> n

  val shiftl : n -> n -> n

  val shiftr : n -> n -> n

  val testbit : n -> n -> bool

  val to_nat : n -> nat

  val of_nat : nat -> n

  val log2_up : n -> n
 end

val eqb0 : byte -> byte -> bool

val to_N : byte -> n

val of_N : n -> byte option

module Z :
 sig
  val double : z -> z

  val succ_double : z -> z

  val pred_double : z -> z

  val pos_sub : positive -> positive -> z

  val add : z -> z -> z

  val opp : z -> z

  val sub : z -> z -> z

  val mul : z -> z -> z

  val compare : z -> z -> comparison

  val leb : z -> z -> bool

  val ltb : z -> z -> bool

  val eqb : z -> z -> bool

  val to_nat : z -> nat

  val to_N : z -> n

  val of_nat : nat -> z

  val of_N : n -> z

  val pos_div_eucl : positive -> z -> z * z

  val div_eucl : z -> z -> z * z

  val div : z -> z -> z

  val modulo : z -> z -> z

  val quotrem : z -> z -> z * z

  val quot : z -> z -> z

  val rem : z -> z -> z
 end

type bytes = byte list

val b8 : n -> byte

val n8 : byte -> n

val beqb : byte -> byte -> bool

val bytes_eqb : bytes -> bytes -> bool

val le_enc : nat -> n -> bytes

val le_dec : bytes -> n

val be_enc : nat -> n -> bytes

val be_dec : bytes -> n

type 'a parser0 = bytes -> ('a * bytes) option

val ret : 'a1 -> 'a1 parser0

val bind : 'a1 parser0 -> ('a1 -> 'a2 parser0) -> 'a2 parser0

val pfail : 'a1 parser0

val take : nat -> bytes parser0

val takeN : n -> bytes parser0

val p_u8 : n parser0

val p_le : nat -> n parser0

val lenN : bytes -> n

val lenL : 'a1 list -> n

val u32max : n

val two32 : n

val two64 : n

val varint : n -> bytes

val varint_size : n -> n

val p_varint : n parser0

val var_slice : bytes -> bytes

val var_slice_size : bytes -> n

val p_var_slice : bytes parser0

val p_count : 'a1 parser0 -> nat -> n -> 'a1 list parser0

val p_list : 'a1 parser0 -> n -> 'a1 list parser0

val enc_list : ('a1 -> bytes) -> 'a1 list -> bytes

val vector : bytes list -> bytes

val vector_size : bytes list -> n

val p_vector : bytes list parser0

val mask32 : n

val add32 : n -> n -> n

val rotr : n -> n -> n

val shr : n -> n -> n

val not32 : n -> n

val ch : n -> n -> n -> n

val maj : n -> n -> n -> n

val bS0 : n -> n

val bS1 : n -> n

val sS0 : n -> n

val sS1 : n -> n

val k256 : n list

val iV256 : n list

val words_of : nat -> bytes -> n list

val nthN : n list -> nat -> n

val expand : nat -> n list -> n list

val schedule : n list -> n list

val round : n list -> (n * n) -> n list

val compress : n list -> bytes -> n list

val blocks : nat -> n list -> bytes -> n list

val pad : bytes -> bytes

val digest_of : n list -> bytes

val sha256 : bytes -> bytes

val dsha256 : bytes -> bytes

val midstate256 : bytes -> bytes

val tagged_hash : bytes -> bytes -> bytes

val hexdigit : n -> byte

val to_hex : bytes -> bytes

type issuance = { iss_nonce : bytes; iss_entropy : bytes; iss_amount : 
                  bytes; iss_token : bytes }

type txin = { in_hash : bytes; in_index : n; in_seq : n; in_script : 
              bytes; in_witness : bytes list; in_pegin : bool;
              in_pegwit : bytes list; in_iss : issuance option;
              in_irp : bytes; in_inrp : bytes }

type txout = { o_asset : bytes; o_value : bytes; o_script : bytes;
               o_nonce : bytes; o_rp : bytes; o_sp : bytes }

type tx = { t_version : n; t_flag : n; t_locktime : n; t_ins : txin list;
            t_outs : txout list }

val minusOne : n

val outpointIndexMask : n

val outpointIssuanceFlag : n

val outpointPeginFlag : n

val witnessScaleFactor : n

val nonempty : 'a1 list -> bool

val any_witness_input : tx -> bool

val any_conf_output : tx -> bool

val has_witness : tx -> bool

val raw_index : txin -> n

val ser_iss : issuance -> bytes

val ser_in : txin -> bytes

val ser_out : bool -> bool -> txout -> bytes

val ser_in_wit : txin -> bytes

val ser_out_wit : txout -> bytes

val ser_tx : bool -> bool -> bool -> bool -> tx -> bytes

val ser_full : tx -> bytes

val ser_txid : tx -> bytes

val ser_wtxid : tx -> bytes

val p_value : bytes parser0

val p_asset : bytes parser0

val p_nonce : bytes parser0

val p_issuance : issuance parser0

val p_in : txin parser0

val p_out : txout parser0

type in_wit = { w_irp : bytes; w_inrp : bytes; w_wit : bytes list;
                w_peg : bytes list }

val p_in_wit : in_wit parser0

val p_out_wit : (bytes * bytes) parser0

val set_in_wit : txin -> in_wit -> txin

val set_out_wit : txout -> (bytes * bytes) -> txout

val zip_with : ('a1 -> 'a2 -> 'a3) -> 'a1 list -> 'a2 list -> 'a3 list

val parse_tx : tx parser0

val is_value : bytes -> bool

val is_asset : bytes -> bool

val is_nonce : bytes -> bool

val wf_iss : issuance -> bool

val wf_slice : bytes -> bool

val wf_vec : bytes list -> bool

val wf_in : txin -> bool

val wf_out : txout -> bool

val wf_tx : tx -> bool

val norm_tx : tx -> tx

val canonical_flag : tx -> bool

val size_in : txin -> n

val size_out : txout -> n

val sumN : ('a1 -> n) -> 'a1 list -> n

val base_size : bool -> tx -> n

val size_in_wit : txin -> n

val size_out_wit : txout -> n

val size_tx : bool -> bool -> tx -> n

val weight : tx -> n

val vsize : tx -> n

val is_conf_out : txout -> bool

val discount_out : txout -> z

val discount_weight : tx -> z

val discount_vsize_go : tx -> z

val copy_in : txin -> txin

val copy_tx : tx -> tx

val txid : tx -> bytes

val wtxid : tx -> bytes

val v0_magic : bytes

val v0_T_UnsignedTx : n

val v0_T_NonWitnessUtxo : n

val v0_T_WitnessUtxo : n

val v0_T_PartialSig : n

val v0_T_Sighash : n

val v0_T_RedeemScript : n

val v0_T_WitnessScript : n

val v0_T_Bip32 : n

val v0_T_FinalScriptSig : n

val v0_T_FinalScriptWitness : n

val v0_TO_RedeemScript : n

val v0_TO_WitnessScript : n

val v0_TO_Bip32 : n

val v0_MaxKeyLen : n

val v0_MaxValLen : n

val v0_MinTxOutLen : nat

type v0sig = { sg_pk : bytes; sg_sig : bytes }

type v0der = { dv_pk : bytes; dv_fp : n; dv_path : n list }

type v0unk = { uk_key : bytes; uk_val : bytes }

type v0in = { vi_nwu : tx option; vi_wu : txout option; vi_sigs : v0sig list;
              vi_sighash : n; vi_redeem : bytes option;
              vi_wscript : bytes option; vi_ders : v0der list;
              vi_fsig : bytes option; vi_fwit : bytes option;
              vi_unk : v0unk list }

type v0out = { vo_redeem : bytes option; vo_wscript : bytes option;
               vo_ders : v0der list }

type v0pset = { vp_tx : tx; vp_ins : v0in list; vp_outs : v0out list;
                vp_unk : v0unk list }

val v0_in_empty : v0in

val v0_out_empty : v0out

val v0_set_nwu : v0in -> tx option -> v0in

val v0_set_wu : v0in -> txout option -> v0in

val v0_set_sigs : v0in -> v0sig list -> v0in

val v0_set_sighash : v0in -> n -> v0in

val v0_set_redeem : v0in -> bytes option -> v0in

val v0_set_wscript : v0in -> bytes option -> v0in

val v0_set_ders : v0in -> v0der list -> v0in

val v0_set_fsig : v0in -> bytes option -> v0in

val v0_set_fwit : v0in -> bytes option -> v0in

val v0_set_unk : v0in -> v0unk list -> v0in

val v0_is_some : 'a1 option -> bool

val v0_bytes_ltb : bytes -> bytes -> bool

val v0_insert : ('a1 -> bytes) -> 'a1 -> 'a1 list -> 'a1 list

val v0_sort : ('a1 -> bytes) -> 'a1 list -> 'a1 list

val v0_sane : v0in -> bool

val v0_finalized : v0in -> bool

val v0_unsigned_ok : tx -> bool

val v0_kv : (bytes * bytes) -> bytes

val v0_is_conf : txout -> bool

val v0_ser_wu : txout -> bytes

val v0_ser_bip32 : v0der -> bytes

val v0_opt_kv : n -> bytes option -> (bytes * bytes) list

val v0_sig_kv : v0sig -> bytes * bytes

val v0_der_kv : n -> v0der -> bytes * bytes

val v0_unk_kv : v0unk -> bytes * bytes

val v0_in_kvs : v0in -> (bytes * bytes) list

val v0_out_kvs : v0out -> (bytes * bytes) list

val v0_sep : bytes

val v0_ser_section : (bytes * bytes) list -> bytes

val v0_global_kvs : v0pset -> (bytes * bytes) list

val v0_ser : v0pset -> bytes option

val v0_p_key : bytes option parser0

val v0_p_val : bytes parser0

val v0_p_section :
  ('a1 -> bytes -> bytes -> 'a1 option) -> nat -> 'a1 -> 'a1 parser0

val v0_section : ('a1 -> bytes -> bytes -> 'a1 option) -> 'a1 -> 'a1 parser0

val v0_read_txout : bytes -> txout option

val v0_words : bytes -> n list option

val v0_read_bip32 : bytes -> (n * n list) option

val v0_parse_tx_value : bytes -> tx option

val v0_no_kd : bytes -> bool

val v0_in_step :
  (bytes -> bool) -> (bytes -> bool) -> v0in -> bytes -> bytes -> v0in option

val v0_out_step : (bytes -> bool) -> v0out -> bytes -> bytes -> v0out option

val v0_gunk_step : v0unk list -> bytes -> bytes -> v0unk list option

val v0_sections : 'a1 parser0 -> 'a2 list -> 'a1 list parser0

val v0_parse_rest : (bytes -> bool) -> (bytes -> bool) -> v0pset parser0

val v0_parse : (bytes -> bool) -> (bytes -> bool) -> bytes -> v0pset option

val v0_len_ok : n -> bytes -> bool

val v0_nodupb : ('a1 -> 'a1 -> bool) -> 'a1 list -> bool

val v0_wf_nwu : tx -> bool

val v0_wf_wu : txout -> bool

val v0_wufloor : txout -> bool

val v0_wf_sig : (bytes -> bool) -> (bytes -> bool) -> v0sig -> bool

val v0_wf_der : (bytes -> bool) -> v0der -> bool

val v0_known_in_type : n -> bool

val v0_wf_unk : v0unk -> bool

val v0_wf_gunk : v0unk -> bool

val v0_wf_script : bytes option -> bool

val v0_unk_eqb : v0unk -> v0unk -> bool

val v0_wf_in_core : (bytes -> bool) -> (bytes -> bool) -> v0in -> bool

val v0_wf_out : (bytes -> bool) -> v0out -> bool

val v0_wf_core : (bytes -> bool) -> (bytes -> bool) -> v0pset -> bool

val v0_wufloor_in : v0in -> bool

val v0_wufloor_all : v0pset -> bool

val v0_wf : (bytes -> bool) -> (bytes -> bool) -> v0pset -> bool

val v0_norm_wu : txout -> txout

val v0_norm_in : v0in -> v0in

val v0_norm_out : v0out -> v0out

val v0_norm : v0pset -> v0pset

val v0_sortedb : ('a1 -> bytes) -> 'a1 list -> bool

val v0_flag_canon : tx -> bool

val v0_wu_canon : txout -> bool

val v0_canon_in : v0in -> bool

val v0_canon : v0pset -> bool

val zero32 : bytes

val one32 : bytes

val max_conf_value : bytes

val ht_base : n -> n

val ht_acp : n -> bool

val ht_rp : n -> bool

val ht_none : n -> bool

val ht_single : n -> bool

val ser_prevout : txin -> bytes

val ser_prevouts : txin list -> bytes

val ser_sequences : txin list -> bytes

val ser_iss_or_zero : txin -> bytes

val ser_issuances : txin list -> bytes

val ser_outputs : txout list -> bytes

val ser_out_proofs_rs : txout -> bytes

val ser_rangeproofs : txout list -> bytes

val set_seq : n -> txin -> txin

val set_script : bytes -> txin -> txin

val map_idx : (nat -> 'a1 -> 'a1) -> nat -> 'a1 list -> 'a1 list

val zero_other_seqs : nat -> txin list -> txin list

val blank_out : txout -> txout

val legacy_tx : tx -> nat -> bytes -> n -> tx option

val preimage_legacy : tx -> nat -> bytes -> n -> bytes option

val digest_legacy : (bytes -> bytes) -> tx -> nat -> bytes -> n -> bytes

val own_input_v0 : txin -> bytes -> bytes -> bytes

val covered_outs : tx -> nat -> n -> txout list option

val preimage_v0 :
  (bytes -> bytes) -> tx -> nat -> bytes -> bytes -> n -> bytes option

val digest_v0 :
  (bytes -> bytes) -> tx -> nat -> bytes -> bytes -> n -> bytes option

val input_flag : txin -> n

val ser_flags : txin list -> bytes

val ser_issuance_proofs : txin list -> bytes

val ser_out_witnesses : txout list -> bytes

val ser_scripts : bytes list -> bytes

val ser_asset_amounts : bytes list -> bytes list -> bytes option

type v1_args = { v1_scripts : bytes list; v1_assets : bytes list;
                 v1_values : bytes list; v1_genesis : bytes;
                 v1_leaf : bytes option; v1_annex : bytes option }

val v1_acp : n -> bool

val v1_out_type : n -> n

val v1_ins_part : (bytes -> bytes) -> tx -> v1_args -> n -> bytes option

val v1_own_part :
  (bytes -> bytes) -> txin -> nat -> v1_args -> n -> bytes option

val v1_outs_all : (bytes -> bytes) -> tx -> n -> bytes

val v1_outs_single : (bytes -> bytes) -> tx -> nat -> n -> bytes

val v1_spend_type : v1_args -> n

val preimage_v1 :
  (bytes -> bytes) -> tx -> nat -> v1_args -> n -> bytes option

val tag_tapsighash_elements : bytes

val digest_v1 : tx -> nat -> v1_args -> n -> bytes option

type part = byte list

val layout : part list -> bytes

val u32 : n -> part

val u8 : n -> part

val zero_hash : part

val s_outpoint : txin -> part

val s_issuance : issuance -> part

val s_issuance_or_null : txin -> part

val s_txout : txout -> part

val s_all : ('a1 -> part) -> 'a1 list -> part

val base_type : n -> n

val anyonecanpay : n -> bool

val spec_v0_preimage : tx -> nat -> bytes -> bytes -> n -> bytes option

val spec_v0_digest : tx -> nat -> bytes -> bytes -> n -> bytes option

val s_outpoint_flags : txin -> part

val legacy_inputs : nat -> nat -> bytes -> bool -> txin list -> part

val spec_legacy_preimage : tx -> nat -> bytes -> n -> bytes option

val spec_legacy_digest : tx -> nat -> bytes -> n -> bytes

type spent = { sp_script : bytes; sp_asset : bytes; sp_value : bytes }

val outpoint_flag : txin -> n

val s_issuance_proofs : txin -> part

val s_out_witness : txout -> part

val spec_v1_preimage :
  tx -> nat -> spent list -> bytes -> bytes option -> bytes option -> n ->
  bytes option

val spec_v1_digest :
  tx -> nat -> spent list -> bytes -> bytes option -> bytes option -> n ->
  bytes option

val g_separator : z

val g_maxPsbtKeyLength : z

val g_PsetProprietary : z

val g_magicPrefix : z list

val g_GlobalXpub : z

val g_GlobalTxVersion : z

val g_GlobalFallbackLocktime : z

val g_GlobalInputCount : z

val g_GlobalOutputCount : z

val g_GlobalTxModifiable : z

val g_GlobalVersion : z

val g_GlobalScalar : z

val g_GlobalModifiable : z

val g_pubKeyLength : z

val g_InputNonWitnessUtxo : z

val g_InputWitnessUtxo : z

val g_InputPartialSig : z

val g_InputSighashType : z

val g_InputRedeemScript : z

val g_InputWitnessScript : z

val g_InputBip32Derivation : z

val g_InputFinalScriptsig : z

val g_InputFinalScriptwitness : z

val g_InputRipemd160 : z

val g_InputSha256 : z

val g_InputHash160 : z

val g_InputHash256 : z

val g_InputPreviousTxid : z

val g_InputPreviousTxIndex : z

val g_InputSequence : z

val g_InputRequiredTimeLocktime : z

val g_InputRequiredHeightLocktime : z

val g_InputTapKeySig : z

val g_InputTapScriptSig : z

val g_InputTapLeafScript : z

val g_InputTapBip32Derivation : z

val g_InputTapInternalKey : z

val g_InputTapMerkleRoot : z

val g_InputIssuanceValue : z

val g_InputIssuanceValueCommitment : z

val g_InputIssuanceValueRangeproof : z

val g_InputIssuanceInflationKeysRangeproof : z

val g_InputPeginTx : z

val g_InputPeginTxoutProof : z

val g_InputPeginGenesis : z

val g_InputPeginClaimScript : z

val g_InputPeginValue : z

val g_InputPeginWitness : z

val g_InputIssuanceInflationKeys : z

val g_InputIssuanceInflationKeysCommitment : z

val g_InputIssuanceBlindingNonce : z

val g_InputIssuanceAssetEntropy : z

val g_InputUtxoRangeProof : z

val g_InputIssuanceBlindValueProof : z

val g_InputIssuanceBlindInflationKeysProof : z

val g_InputExplicitValue : z

val g_InputValueProof : z

val g_InputExplicitAsset : z

val g_InputAssetProof : z

val g_InputBlindedIssuanceValue : z

val g_OutputRedeemScript : z

val g_OutputWitnessScript : z

val g_OutputBip32Derivation : z

val g_OutputAmount : z

val g_OutputScript : z

val g_OutputValueCommitment : z

val g_OutputAsset : z

val g_OutputAssetCommitment : z

val g_OutputValueRangeproof : z

val g_OutputAssetSurjectionProof : z

val g_OutputBlindingPubkey : z

val g_OutputEcdhPubkey : z

val g_OutputBlinderIndex : z

val g_OutputBlindValueProof : z

val g_OutputBlindAssetProof : z

type 'a cres =
| ROk of 'a
| RErr
| RPanic

val cbind : 'a1 cres -> ('a1 -> 'a2 cres) -> 'a2 cres

val psetProprietary : n

val maxKeyLen : n

val pset_magic : bytes

val magic_sep : bytes

val pset_sep : byte

type kpair = { k_type : n; k_data : bytes; k_val : bytes }

val ser_kp : kpair -> bytes

type kpread =
| KEnd of bytes
| KGot of kpair * bytes
| KErr

val read_kp : bytes -> kpread

val prop_key_id : bytes -> n -> bytes -> bytes

val eff_id : bytes -> bytes

val prop_key : n -> bytes -> bytes

type pdata = { pd_id : bytes; pd_sub : n; pd_kd : bytes; pd_val : bytes }

val parse_prop : kpair -> pdata option

type mentry = bytes * bytes

type sec = { s_vals : bytes list; s_lists : mentry list list;
             s_props : pdata list; s_unks : kpair list }

val lset : nat -> 'a1 -> 'a1 list -> 'a1 list

val val_at : nat -> sec -> bytes

val list_at : nat -> sec -> mentry list

val set_val : nat -> bytes -> sec -> sec

val set_list : nat -> mentry list -> sec -> sec

val add_prop : pdata -> sec -> sec

val add_unk : kpair -> sec -> sec

type lenreq =
| LAny
| LEq of nat
| LEq2 of nat * nat

val len_ok : lenreq -> bytes -> bool

type skind =
| KBytes of lenreq
| KInt of nat
| KPtr of nat
| KModif
| KBool
| KCount
| KTx
| KTxOut
| KMsgTx
| KVec
| KPub

type mkind =
| MXpub
| MScalar
| MPartialSig
| MBip32
| MMap of nat
| MTapScriptSig
| MTapLeaf
| MTapBip32

type slotk =
| SS of skind * bool
| MS of mkind

type keyid =
| KStd of n
| KProp of n

val keyid_eqb : keyid -> keyid -> bool

type slot = { sl_ekey : keyid; sl_dkey : keyid; sl_k : slotk }

val nonemptyb : 'a1 list -> bool

val bip32_ok : bytes -> bool

val fixlen : nat -> bytes -> bytes

val map_put : bytes -> bytes -> mentry list -> mentry list

val has_key : bytes -> mentry list -> bool

val read_txout : bytes -> bytes option

val key_num : mentry -> n

val ins_entry : mentry -> mentry list -> mentry list

val sort_entries : mentry list -> mentry list

val s_dec :
  (bytes -> bool) -> (bytes -> bytes option) -> skind -> bytes -> bytes cres

val s_emit : skind -> bytes -> bytes

val s_emits : skind -> bool -> bytes -> bool

val m_step :
  (bytes -> bool) -> (bytes -> bool) -> (bytes -> bool) -> mkind -> bytes ->
  bytes -> mentry list -> mentry list cres

val find_slot_from : nat -> keyid -> slot list -> (nat * slot) option

val find_slot : keyid -> slot list -> (nat * slot) option

val apply_slot :
  (bytes -> bool) -> (bytes -> bool) -> (bytes -> bool) -> (bytes -> bytes
  option) -> nat -> slot -> bytes -> bytes -> sec -> sec cres

val sec_step :
  (bytes -> bool) -> (bytes -> bool) -> (bytes -> bool) -> (bytes -> bytes
  option) -> slot list -> sec -> kpair -> sec cres

val empty_sec : slot list -> sec

val parse_kps :
  (bytes -> bool) -> (bytes -> bool) -> (bytes -> bool) -> (bytes -> bytes
  option) -> slot list -> nat -> sec -> bytes -> (sec * bytes) cres

val parse_section :
  (bytes -> bool) -> (bytes -> bool) -> (bytes -> bool) -> (bytes -> bytes
  option) -> slot list -> (sec -> bool) -> bytes -> (sec * bytes) cres

val m_emit : mkind -> mentry list -> mentry list

val mk_kp_id : keyid -> bytes -> bytes -> kpair

val emit_slot : nat -> slot -> sec -> kpair list cres

val emit_slots : nat -> slot list -> sec -> kpair list cres

val prop_kp : pdata -> kpair

val kps_of : slot list -> sec -> kpair list cres

val enc_kps : kpair list -> bytes

val ser_section : slot list -> sec -> bytes cres

val kS : z -> keyid

val kP : z -> keyid

val sl : keyid -> slotk -> slot

val global_tbl : slot list

val gXpubs : nat

val gTxVersion : nat

val gInputCount : nat

val gOutputCount : nat

val gTxModifiable : nat

val gScalars : nat

val gVersion : nat

val gModifiable : nat

val input_tbl : slot list

val iWitnessUtxo : nat

val iWitnessScript : nat

val iFinalScriptWitness : nat

val iPreviousTxid : nat

val iIssuanceValue : nat

val iIssuanceValueCommitment : nat

val iIssuanceInflationKeys : nat

val iIssuanceInflationKeysCommitment : nat

val iIssuanceBlindValueProof : nat

val iIssuanceBlindInflationKeysProof : nat

val iExplicitValue : nat

val iValueProof : nat

val iExplicitAsset : nat

val iAssetProof : nat

val iTapKeySig : nat

val iTapScriptSig : nat

val iTapLeafScript : nat

val iTapBip32 : nat

val iTapInternalKey : nat

val iTapMerkleRoot : nat

val output_tbl : slot list

val oValue : nat

val oValueCommitment : nat

val oAssetCommitment : nat

val oAsset : nat

val oValueRangeproof : nat

val oAssetSurjectionProof : nat

val oBlindingPubkey : nat

val oEcdhPubkey : nat

val oBlinderIndex : nat

val oBlindValueProof : nat

val oBlindAssetProof : nat

val has_val : nat -> sec -> bool

val num_val : nat -> sec -> n

val dup_keys : mentry list -> bool

val global_sanity : sec -> bool

val tapleaf_ok : mentry -> bool

val tapsig_ok : mentry -> bool

val tapbip_ok : mentry -> bool

val xorb' : bool -> bool -> bool

val input_sanity : sec -> bool

val out_partially_blinded : sec -> bool

val out_fully_blinded : sec -> bool

val out_needs_blinding : sec -> bool

val output_sanity : sec -> bool

type pset = { p_global : sec; p_ins : sec list; p_outs : sec list }

val pset_needs_blinding : pset -> bool

val pset_sanity : pset -> bool

val parse_secs :
  (bytes -> bool) -> (bytes -> bool) -> (bytes -> bool) -> (bytes -> bytes
  option) -> slot list -> (sec -> bool) -> nat -> n -> bytes -> (sec
  list * bytes) cres

val parse_pset :
  (bytes -> bool) -> (bytes -> bool) -> (bytes -> bool) -> (bytes -> bytes
  option) -> bytes -> pset cres

val ser_secs : slot list -> sec list -> bytes cres

val ser_pset : pset -> bytes cres

val norm_vals : slot list -> bytes list -> bytes list

val norm_lists : slot list -> mentry list list -> mentry list list

val norm_pd : pdata -> pdata

val norm_sec : slot list -> sec -> sec

val norm_pset : pset -> pset

val cres_bytes_eqb : bytes cres -> bytes -> bool

val s_wf :
  (bytes -> bool) -> (bytes -> bytes option) -> skind -> bool -> bytes -> bool

val entry_eqb : mentry -> mentry -> bool

val entries_eqb : mentry list -> mentry list -> bool

val m_replay :
  (bytes -> bool) -> (bytes -> bool) -> (bytes -> bool) -> mkind -> mentry
  list -> mentry list -> mentry list cres

val m_wf :
  (bytes -> bool) -> (bytes -> bool) -> (bytes -> bool) -> mkind -> mentry
  list -> bool

val frame_ok : kpair -> bool

val slot_wf :
  (bytes -> bool) -> (bytes -> bool) -> (bytes -> bool) -> (bytes -> bytes
  option) -> nat -> slot -> sec -> bool

val slots_wf :
  (bytes -> bool) -> (bytes -> bool) -> (bytes -> bool) -> (bytes -> bytes
  option) -> nat -> slot list -> sec -> bool

val prop_wf : slot list -> pdata -> bool

val unk_wf : slot list -> kpair -> bool

val wf_sec :
  (bytes -> bool) -> (bytes -> bool) -> (bytes -> bool) -> (bytes -> bytes
  option) -> slot list -> (sec -> bool) -> sec -> bool

val wf_pset :
  (bytes -> bool) -> (bytes -> bool) -> (bytes -> bool) -> (bytes -> bytes
  option) -> pset -> bool

type bproof = { p_challenge : bytes; p_solution : bytes }

type compact_params = { cp_script : bytes; cp_limit : n; cp_root : bytes }

type full_params = { fp_script : bytes; fp_limit : n; fp_program : bytes;
                     fp_fedscript : bytes; fp_ext : bytes list }

type dparams =
| DNull
| DCompact of compact_params
| DFull of full_params

type dynafed = { d_current : dparams; d_proposed : dparams;
                 d_witness : bytes list }

type extdata =
| EProof of bproof
| EDyna of dynafed

type header = { h_version : n; h_prev : bytes; h_merkle : bytes; h_time : 
                n; h_height : n; h_ext : extdata }

type block = { b_header : header; b_txs : tx list }

val dYNAFED_HF_MASK : n

val ser_dparams : dparams -> bytes

val ser_ext : bool -> extdata -> bytes

val is_dyna : extdata -> bool

val ser_header : bool -> header -> bytes

val ser_block : block -> bytes

val p_dparams : dparams parser0

val p_ext : bool -> extdata parser0

val parse_header : header parser0

val parse_block : block parser0

val wf_dparams : dparams -> bool

val wf_ext : extdata -> bool

val wf_header : header -> bool

val wf_block : block -> bool

val norm_block : block -> block

val secp_n : z

val sc : bytes -> z

val enc32 : z -> bytes

val zero0 : bytes

val len32 : bytes -> bool

val ec_negate : bytes -> bool * bytes

val ec_tweak_add : bytes -> bytes -> bool * bytes

val ec_tweak_mul : bytes -> bytes -> bool * bytes

type sowner =
| SCaller of nat
| SGlobal
| SLocal

type sbuf = { sb_own : sowner; sb_dat : bytes }

type swlog = (sowner * bytes) list

val scopy : sbuf option -> sbuf option

val sdat : sbuf option -> bytes

val sbuf_eqb : sbuf option -> sbuf option -> bool

val sinplace :
  (bytes -> bool * bytes) -> sbuf option -> swlog -> (bool * sbuf
  option) * swlog

type sres =
| SOk of sbuf option
| SErr

val val32 : n -> bytes

val calc_offset_w : n -> sbuf option -> sbuf option -> swlog -> sres * swlog

val sub_scalars_w : sbuf option -> sbuf option -> swlog -> sres * swlog

val add_offset_w :
  sbuf option -> n -> sbuf option -> sbuf option -> swlog -> sres * swlog

val sarg : nat -> bytes option -> sbuf option

type soutcome =
| SOOk of bytes option
| SOErr

val sout_of : sres -> soutcome

val go_calc_offset : n -> bytes option -> bytes option -> sres * swlog

val go_sub_scalars : bytes option -> bytes option -> sres * swlog

val go_add_offset :
  bytes option -> n -> bytes option -> bytes option -> sres * swlog

val sarg_after : nat -> bytes option -> swlog -> bytes option

val sreturns_global : sres -> bool

val pair_up : ('a1 -> 'a1 -> 'a1) -> 'a1 list -> 'a1 list

val root_levels : ('a1 -> 'a1 -> 'a1) -> nat -> 'a1 list -> 'a1 option

val merkle_root : ('a1 -> 'a1 -> 'a1) -> 'a1 list -> 'a1 option

type 'a mtree =
| Leaf of 'a * bool
| Node2 of 'a mtree * 'a mtree
| Node1 of 'a mtree

val ttake : nat -> ('a1 * bool) list -> ('a1 mtree * ('a1 * bool) list) option

val tree_height : n -> nat

val tree_of : ('a1 * bool) list -> 'a1 mtree option

val thash : ('a1 -> 'a1 -> 'a1) -> 'a1 mtree -> 'a1

val tany : 'a1 mtree -> bool

val tbits : 'a1 mtree -> bool list

val thashes : ('a1 -> 'a1 -> 'a1) -> 'a1 mtree -> 'a1 list

val pad8 : bool list -> bool list

val build :
  ('a1 -> 'a1 -> 'a1) -> ('a1 * bool) list -> (bool list * 'a1 list) option

val g_maxBlockWeight : z

val g_minTransactionWeight : z

val max_txs : n

val width : n -> n -> n

val height_loop : nat -> n -> n -> n option

type 'a st = { s_bits : bool list; s_hashes : 'a list; s_match : 'a list;
               s_bad : bool }

val traverse :
  ('a1 -> 'a1 -> 'a1) -> ('a1 -> 'a1 -> bool) -> n -> nat -> n -> 'a1 st ->
  ('a1 * 'a1 st) option

val extract :
  ('a1 -> 'a1 -> 'a1) -> ('a1 -> 'a1 -> bool) -> n -> 'a1 list -> bool list
  -> ('a1 * 'a1 list) option

val byte_bits : byte -> bool list

val bits_of_bytes : bytes -> bool list

type merkle_block = { mb_header : bytes; mb_count : n;
                      mb_hashes : bytes list; mb_flags : bytes }

val wire_max_hashes : n

val wire_max_flags : n

val parse_merkle_block : merkle_block parser0

val header_root : bytes -> bytes

val node_hash : bytes -> bytes -> bytes

val extract_mb : merkle_block -> (bytes * bytes list) option

type proof_result =
| PParseErr
| PExtractErr of merkle_block
| POk of merkle_block * bytes * bytes list

val run_proof : bytes -> proof_result

val pack_byte : bool list -> nat -> n -> n

val pack_bits : nat -> bool list -> bytes

val flags_of_bits : bool list -> bytes

val ser_merkle_block : merkle_block -> bytes

type btc_view = { bv_txid : bytes; bv_stripped : bytes;
                  bv_outs : (n * bytes) list; bv_main_script : bytes }

val defaultSequence : n

val value_bytes : n -> bytes

val serialize_value : n -> bytes

val find_out :
  (n * bytes) list -> bytes -> n -> (n * n) option -> (n * n) option

val new_index : n -> n

val pegin_input : bytes -> n -> bytes list -> txin

type 'x pegres =
| PgOk of 'x
| PgErr
| PgPanic

val create_pegin_input :
  bytes -> bytes -> bytes -> bytes -> btc_view option -> (txin * n) pegres

val claim_out0 : bytes -> bytes -> n -> txout

val claim_out1 : bytes -> n -> txout

val claim_tx : txin -> bytes -> bytes -> n -> (n -> n) -> tx

val claim_fee : txin -> bytes -> bytes -> n -> (n -> n) -> n

val claim :
  bytes -> bytes -> bytes -> bytes -> btc_view option -> (n -> n) -> tx pegres

val fee_dyadic : n -> n -> n -> n

val mkl_build : bytes -> (bytes * bool) list -> bytes option

val mkl_root : bytes list -> bytes option

val mkl_run : bytes -> proof_result

val mkl_claim :
  bytes -> bytes -> bytes -> bytes -> btc_view option -> n -> n -> tx pegres

val rotl32 : n -> n -> n

val rmd_f : nat -> n -> n -> n -> n

val rmd_KL : n list

val rmd_KR : n list

val rmd_RL : nat list

val rmd_RR : nat list

val rmd_SL : n list

val rmd_SR : n list

val le_words_of : nat -> bytes -> n list

type rmd_state = (((n * n) * n) * n) * n

val rmd_step : bool -> n list -> rmd_state -> nat -> rmd_state

val rmd_compress : rmd_state -> bytes -> rmd_state

val rmd_blocks : nat -> rmd_state -> bytes -> rmd_state

val rmd_pad : bytes -> bytes

val rmd_IV : rmd_state

val rmd_digest_of : rmd_state -> bytes

val ripemd160 : bytes -> bytes

val hash160 : bytes -> bytes

type rstat =
| StOk
| StErr
| StPanic

type 'a oc =
| OcOk of 'a
| OcErr
| OcPanic

val obind : 'a1 oc -> ('a1 -> 'a2 oc) -> 'a2 oc

val osome : 'a1 option -> bool

val onone : 'a1 option -> bool

val obytes : bytes option -> bytes

val nthN_err : 'a1 list -> n -> 'a1 option

val lupd : 'a1 list -> nat -> ('a1 -> 'a1) -> 'a1 list

val last_byte : bytes -> byte option

val sOP_0 : byte

val sOP_PUSHDATA1 : byte

val sOP_PUSHDATA2 : byte

val sOP_PUSHDATA4 : byte

val sOP_1NEGATE : byte

val sOP_DUP : byte

val sOP_EQUAL : byte

val sOP_EQUALVERIFY : byte

val sOP_HASH160 : byte

val sOP_CHECKSIG : byte

val sOP_CHECKMULTISIG : byte

val maxScriptSize : n

val maxScriptElementSize : n

val add_data_raw : bytes -> bytes

type builder = bytes option

val sb_new : builder

val sb_op : builder -> byte -> builder

val sb_data : builder -> bytes -> builder

val tokenize_f : nat -> bytes -> (byte * bytes) list option

val tokenize : bytes -> (byte * bytes) list option

val small_int_op : byte -> bool

val as_small_int : byte -> n

val ms_count :
  (byte * bytes) list -> n -> ((n * byte) * (byte * bytes) list) option

val ms_stats : bytes -> (n * n) option

val ms_keys : (byte * bytes) list -> bytes list

val ms_parse : bytes -> (n * bytes list) option

val is_witness_program : bytes -> bool

val is_p2sh : bytes -> bool

val is_p2wsh : bytes -> bool

val is_p2wpkh : bytes -> bool

val is_p2pkh : bytes -> bool

val is_p2tr : bytes -> bool

val p2pkh_script : bytes -> bytes

val built_p2sh : bytes -> builder

val built_p2wsh : bytes -> builder

val built_p2wpkh : bytes -> builder

type pin = { pi_nwu : tx option; pi_wu : txout option;
             pi_sigs : (bytes * bytes) list; pi_sht : n;
             pi_redeem : bytes option; pi_wscript : bytes option;
             pi_fsig : bytes option; pi_fwit : bytes option }

val empty_pin : pin

val set_nwu : tx option -> pin -> pin

val set_wu : txout option -> pin -> pin

val set_sigs : (bytes * bytes) list -> pin -> pin

val set_redeem : bytes option -> pin -> pin

val set_wscript : bytes option -> pin -> pin

val set_fsig : bytes option -> pin -> pin

val set_fwit : bytes option -> pin -> pin

type pset0 = { p0_tx : tx; p0_ins : pin list }

val sane_in0 : pin -> bool

val validate_unsigned : tx -> bool

val sanity0 : pset0 -> bool

val with_in0 : pset0 -> nat -> (pin -> pin) -> pset0

val beq_builder : builder -> bytes -> bool option

val admit_checks : pin -> bytes -> bool -> bytes -> n -> unit oc

val has_sig_for : pin -> bytes -> bool

val add_partial_sig0 : pset0 -> nat -> bytes -> bytes -> bool -> pset0 * rstat

val nw_prevout0 : pset0 -> nat -> pin -> txout oc

val nw_to_w0 : pset0 -> nat -> pset0 * rstat

val is_final0 : pin -> bool

val sign0 :
  pset0 -> nat -> bytes -> bytes -> bool -> bytes option -> bytes option ->
  pset0 * rstat

val is_push_op : byte -> bool

val tok_size : (byte * bytes) -> n

val push_index : bytes -> (byte * bytes) list -> n -> n option

val key_position : bytes -> bytes -> n option

val insert_pos : (n * 'a1) -> (n * 'a1) list -> (n * 'a1) list

val sort_pos : (n * 'a1) list -> (n * 'a1) list

val positions : bytes -> (bytes * bytes) list -> (n * bytes) list option

val extract_key_order : bytes -> (bytes * bytes) list -> bytes list option

val ser_witness : bytes list -> bytes

val multisig_witness : bytes -> (bytes * bytes) list -> bytes option

val expected_sht : pin -> n

val check_sigs_sht : n -> (bytes * bytes) list -> unit oc

val has_f : bool -> bytes option -> bool

val of_builder : builder -> bytes oc

val legacy_sigscript : bool -> pin -> bytes oc

val witness_final : bool -> pin -> (bytes * bytes) oc

val new_pin : tx option -> txout option -> pin

val finalize0 : pset0 -> nat -> pset0 * rstat

val finalizable_witness : bool -> pin -> bytes -> bool -> bool

val finalizable_legacy : bool -> pin -> txout -> bool

val finalizable0 : pset0 -> nat -> pin -> bool oc

val maybe_finalize0 : pset0 -> nat -> pset0 * rstat

val for_all_inputs :
  ('a1 -> nat -> 'a1 * rstat) -> 'a1 -> nat list -> 'a1 * rstat

val finalize_all0 : pset0 -> pset0 * rstat

val maybe_finalize_all0 : pset0 -> pset0 * rstat

val read_witness : bytes -> bytes list option

val set_in_final : txin -> pin -> txin option

val extract_ins : txin list -> pin list -> txin list oc

val all_final0 : txin list -> pin list -> bool oc

val extract0 : pset0 -> tx oc

val bytes_leb : bytes -> bytes -> bool

val insert_pk :
  (bytes * bytes) -> (bytes * bytes) list -> (bytes * bytes) list

val sort_pk : (bytes * bytes) list -> (bytes * bytes) list

val hop_in0 : pin -> pin

val hop0 : pset0 -> pset0

type tsig = { ts_pk : bytes; ts_sig : bytes; ts_leaf : bytes }

type tleaf = { tl_script : bytes; tl_version : n; tl_cb : bytes }

type pin2 = { q_base : pin; q_txid : bytes; q_index : n; q_seq : n;
              q_tlock : n; q_hlock : n; q_iss_value : n;
              q_iss_vcommit : bytes option; q_iss_vrp : bytes option;
              q_iss_krp : bytes option; q_iss_keys : n;
              q_iss_kcommit : bytes option; q_iss_nonce : bytes option;
              q_iss_entropy : bytes option; q_iss_vproof : bytes;
              q_iss_kproof : bytes; q_pegwit : bytes list option;
              q_tapkeysig : bytes; q_tapsigs : tsig list;
              q_tapleafs : tleaf list; q_tapinternal : bytes;
              q_tapmerkle : bytes }

val set_base : pin -> pin2 -> pin2

val on_base : (pin -> pin) -> pin2 -> pin2

val set_tapkeysig : bytes -> pin2 -> pin2

val set_tapsigs : tsig list -> pin2 -> pin2

type pout2 = { po_value : n; po_vcommit : bytes option;
               po_asset : bytes option; po_acommit : bytes option;
               po_script : bytes; po_ecdh : bytes option;
               po_rp : bytes option; po_sp : bytes option;
               po_blindpk : bytes; po_blinder : n; po_vproof : bytes;
               po_aproof : bytes }

type pset2 = { g_txversion : n; g_fallback : n option; g_nscalars : n;
               q_ins : pin2 list; q_outs : pout2 list }

val with_in2 : pset2 -> nat -> (pin2 -> pin2) -> pset2

val olen : bytes option -> bool

val out_needs_blinding0 : pout2 -> bool

val out_partially_blinded0 : pout2 -> bool

val out_fully_blinded0 : pout2 -> bool

val sane_out2 : pout2 -> bool

val sane_tapsig : tsig -> bool

val sane_in2 : pin2 -> bool

val needs_blinding2 : pset2 -> bool

val sanity2 : pset2 -> bool

val is_final2 : pin2 -> bool

val is_taproot : pin2 -> bool

val add_partial_sig2 : pset2 -> nat -> bytes -> bytes -> bool -> pset2 * rstat

val nw_prevout2 : pin2 -> txout oc

val nw_to_w2 : pset2 -> nat -> pset2 * rstat

val sign2_staged :
  pset2 -> nat -> bytes -> bytes -> bool -> bytes option -> bytes option ->
  pset2 * rstat

val atomic2 : pset2 -> (pset2 * rstat) -> pset2 * rstat

val sign2 :
  pset2 -> nat -> bytes -> bytes -> bool -> bytes option -> bytes option ->
  pset2 * rstat

val sign_tap_key2 : pset2 -> nat -> bytes -> pset2 * rstat

val sign_tap_script2 : pset2 -> nat -> tsig -> pset2 * rstat

val tag_tapleaf_elements : bytes

val tapleaf_hash : tleaf -> bytes

val tap_norm : n -> n

val tap_sig_ok : n -> bytes -> bool

val taproot_final : pin2 -> bytes oc

val finalize2 : pset2 -> nat -> pset2 * rstat

val finalize_all2 : pset2 -> pset2 * rstat

val tap_finalizable : pin2 -> bool

val finalizable2 : pin2 -> bool oc

val maybe_finalize2 : pset2 -> nat -> pset2 * rstat

val maybe_finalize_all2 : pset2 -> pset2 * rstat

val locktime2 : pset2 -> n

val new_pin2 : bytes -> n -> n -> n -> n -> pin2

val lock_walk : pin2 list -> n -> n -> bool -> ((n * n) * bool) option

val add_input_lock_ok : pset2 -> pin2 -> bool

val add_input2 : pset2 -> pin2 -> pset2 * rstat

val add_witness_utxo2 : pset2 -> nat -> txout -> pset2 * rstat

val value_to_bytes : n -> bytes

val out_to_txout : pout2 -> txout

val iss_amount0 : pin2 -> bytes

val iss_token0 : pin2 -> bytes

val iss_of : pin2 -> issuance

val unsigned_in2 : pin2 -> txin

val unsigned_tx2 : pset2 -> tx

val extract_in2 : pin2 -> txin option

val extract_ins2 : pin2 list -> txin list option

val extract2 : pset2 -> tx oc

val hop0_st : pset0 -> pset0 * rstat

val norm_opt : bytes option -> bytes option

val hop_in2 : pin2 -> pin2

val hop2_st : pset2 -> pset2 * rstat

val strip_in : txin -> txin

val strip_tx : tx -> tx

type salgo =
| ALegacy
| AWitV0
| ATapKey
| ATapLeaf

val pushes_of : (byte * bytes) list -> bytes list option

val parse_pushes : bytes -> bytes list option

val cms_loop : (bytes -> bytes -> bool) -> bytes list -> bytes list -> bool

val checkmultisig :
  (bytes -> bytes -> bool) -> n -> bytes list -> bytes list -> bool

val unsnoc : 'a1 list -> ('a1 list * 'a1) option

val eval_multisig :
  (salgo -> bytes -> bytes -> bytes -> bool) -> salgo -> bytes -> bytes list
  -> bool

val eval_wpkh :
  (salgo -> bytes -> bytes -> bytes -> bool) -> bytes -> bytes list -> bool

val eval_wsh :
  (salgo -> bytes -> bytes -> bytes -> bool) -> bytes -> bytes list -> bool

val eval_witness_program :
  (salgo -> bytes -> bytes -> bytes -> bool) -> bytes -> bytes list -> bool

val eval_taproot :
  (salgo -> bytes -> bytes -> bytes -> bool) -> (bytes -> bytes -> bytes ->
  bool) -> bytes -> bytes list -> bool

val satisfies :
  (salgo -> bytes -> bytes -> bytes -> bool) -> (bytes -> bytes -> bytes ->
  bool) -> bytes -> bytes -> bytes list -> bool

val bl_n : z

val bl_sc : bytes -> z

val bl_enc : z -> bytes

val bl_zero32 : bytes

val bl_len32 : bytes -> bool

type 'a bres =
| BOk of 'a
| BErr
| BPanic

val bl_negate : bytes -> bytes option

val bl_tweak_add : bytes -> bytes -> bytes option

val bl_tweak_mul : bytes -> z -> bytes option

val bl_calc_offset : z -> bytes option -> bytes option -> bytes option option

val bl_sub : bytes option -> bytes option -> bytes option option

val bl_add_offset :
  bytes option -> z -> bytes option -> bytes option -> bytes option option

type bl_pin = { bpi_conf : bool; bpi_issv : z; bpi_issk : z;
                bpi_vopen : bytes option; bpi_topen : bytes option }

type bl_pout = { bpo_value : z; bpo_blind : bool; bpo_bidx : n;
                 bpo_open : (bytes * bytes) option }

type bl_pset = { bps_ins : bl_pin list; bps_outs : bl_pout list;
                 bps_scalars : bytes list }

type bl_owned = { bow_idx : n; bow_value : z; bow_abf : bytes option;
                  bow_vbf : bytes option }

type bl_issarg = { bia_idx : n; bia_vbf : bytes option;
                   bia_tbf : bytes option; bia_hasvc : bool; bia_hastc : 
                   bool }

type bl_outarg = { boa_idx : n; boa_abf : bytes option; boa_vbf : bytes option }

val bl_nth : 'a1 list -> n -> 'a1 option

val bl_upd : 'a1 list -> nat -> 'a1 -> 'a1 list

val bl_out_needs : bl_pout -> bool

val bl_out_full : bl_pout -> bool

val bl_needs_blinding : bl_pset -> bool

val bl_is_fully_blinded : bl_pset -> bool

val bl_sanity : bl_pset -> bool

val bl_optlen_ok : bytes option -> bool

val bl_owned_ok : bl_pset -> bl_owned -> bool

val bl_new_blinder : bl_pset -> bl_owned list -> bool

val bl_has_issuance : bl_pin -> bool

val bl_issarg_ok : bl_pset -> bl_issarg -> bool

val bl_outarg_ok : bl_pset -> bl_outarg -> bool

val bl_insert : bl_outarg -> bl_outarg list -> bl_outarg list

val bl_sort : bl_outarg list -> bl_outarg list

val bl_own_output : bl_owned list -> n -> bool

val bl_validate_args :
  bl_pset -> bl_owned list -> bl_outarg list -> bool -> bool

val bl_or_zero : bytes option -> bytes option

val bl_input_scalar :
  bl_pset -> bl_issarg list -> bl_owned list -> bytes option -> bytes option
  option

val bl_output_sum :
  bl_pset -> bl_outarg list -> bytes option -> bytes option option

val bl_output_scalar :
  bl_pset -> bytes option -> bl_outarg list -> bool -> bytes option option

val bl_sub_all : bytes option -> bytes list -> bytes option option

val bl_last_vbf : bl_pset -> bl_outarg -> bytes option -> bytes option option

val bl_write_iss : bl_pin list -> bl_issarg -> bl_pin list

val bl_write_out : bl_pout list -> n -> bytes -> bytes -> bl_pout list

val bl_ob : bytes option -> bytes

val bl_write_outs :
  bl_pout list -> bl_outarg list -> bool -> bytes -> bl_pout list

type bl_step_out = { bso_pset : bl_pset; bso_scalar : bytes option;
                     bso_lastvbf : bytes option }

val bl_blind :
  bl_pset -> bl_owned list -> bl_issarg list -> bl_outarg list -> bool ->
  bool -> bl_step_out bres

type bl_party = { bpa_genok : bool; bpa_vok : bool;
                  bpa_owned : bl_owned list; bpa_iss : bl_issarg list;
                  bpa_outs : bl_outarg list }

val bl_party_step : bl_pset -> bl_party -> bool -> bl_step_out bres

type bl_lin = (n * z) list * z

val bl_lin0 : bl_lin

val bl_lin_add : bl_lin -> bl_lin -> bl_lin

val bl_commit : n -> z -> z -> z -> bl_lin

val bl_explicit : n -> z -> bl_lin

val bl_coef : (n * z) list -> n -> z

val bl_lin_eqb : bl_lin -> bl_lin -> bool

val bl_lin_sum : bl_lin list -> bl_lin

type bl_win = { bwi_asset : n; bwi_value : z; bwi_abf : bytes;
                bwi_vbf : bytes; bwi_iss : n; bwi_issv : z; bwi_isst : 
                z }

type bl_wout = { bwo_asset : n; bwo_value : z }

val bl_in_commit : bl_win -> bl_lin

val bl_amount : n -> z -> bytes option -> bl_lin

val bl_tx_in : n -> bl_win list -> bl_pin list -> bl_lin list

val bl_tx_out : bl_wout list -> bl_pout list -> bl_lin list

val bl_balanced : bl_win list -> bl_wout list -> bl_pset -> bool

val bl_unblind_inputs : bl_win list -> n list -> bl_owned list

type b0_in = { bi0_asset : n; bi0_value : z; bi0_abf : bytes;
               bi0_vbf : bytes; bi0_iss : n; bi0_issv : z; bi0_isst : 
               z }

type b0_out = { bo0_asset : n; bo0_value : z; bo0_noscript : bool }

val b0_draw : bytes list -> (bytes * bytes list) option

val b0_draws : nat -> bytes list -> (bytes list * bytes list) option

type b0_ent = { ben_asset : n; ben_value : z; ben_abf : bytes; ben_vbf : bytes }

val b0_pseudo :
  bool -> n -> b0_in list -> bytes list -> (b0_ent list * bytes list) option

val b0_ins : n -> n list -> n list

val b0_sort : n list -> n list

val b0_bsum : z list -> bytes list -> bytes list -> nat -> z -> z option

val b0_final_vbf :
  z list -> z list -> bytes list -> bytes list -> bytes list -> bytes list ->
  bytes option

type b0_result = { br0_outs : (bytes * bytes) option list;
                   br0_iss : (bytes option * bytes option) list }

val b0_zip3 : z list -> bytes list -> bytes list -> ((z * bytes) * bytes) list

val b0_writeback :
  n list -> (bytes * bytes) list -> (bytes * bytes) option list ->
  (bytes * bytes) option list bres

val b0_iss_open :
  bool -> n -> b0_in list -> b0_ent list -> (bytes option * bytes option) list

val b0_blind :
  b0_in list -> b0_out list -> n list -> bool -> bool -> bytes list ->
  b0_result bres

val b0_tx_in :
  n -> b0_in list -> (bytes option * bytes option) list -> bl_lin list

val b0_tx_out : b0_out list -> (bytes * bytes) option list -> bl_lin list

val b0_balanced : b0_in list -> b0_out list -> b0_result -> bool

val g_TagTapLeafElements : z list

val g_TagTapBranchElements : z list

val g_TagTapTweakElements : z list

val bytes_compare : bytes -> bytes -> comparison

val bytes_gt : bytes -> bytes -> bool

val tag_of : z list -> bytes

val tag_leaf : bytes

val tag_branch : bytes

val tag_tweak : bytes

type tapleaf = { tlf_version : byte; tlf_script : bytes }

val tag_prefix : bytes -> bytes

val tag_mid : bytes -> n list

val tagged_from_mid : bytes -> n list -> bytes -> bytes

val leaf_pre : bytes

val leaf_mid : n list

val branch_pre : bytes

val branch_mid : n list

val tweak_pre : bytes

val tweak_mid : n list

val leaf_hash : tapleaf -> bytes

val branch_hash_raw : bytes -> bytes -> bytes

type 'a toutcome =
| Done of 'a
| GoPanic
| OutOfFuel

val tobind : 'a1 toutcome -> ('a1 -> 'a2 toutcome) -> 'a2 toutcome

val tupd : nat -> ('a1 -> 'a1) -> 'a1 list -> 'a1 list toutcome

val split_last : 'a1 list -> ('a1 list * 'a1) option

val branch : (bytes -> bytes -> bytes) -> bytes -> bytes -> bytes

type tnode =
| TLeaf of bytes * tapleaf
| TBranch of bytes * tnode * tnode

val tnode_hash : tnode -> bytes

val mk_leaf : (tapleaf -> bytes) -> tapleaf -> tnode

val mk_branch : (bytes -> bytes -> bytes) -> tnode -> tnode -> tnode

val leaves_of : tnode -> tnode list

type proof_entry = { pe_leaf : tapleaf; pe_proof : bytes }

val zero_entry : proof_entry

val add_proof : bytes -> proof_entry -> proof_entry

val set_leaf_add : tapleaf -> bytes -> proof_entry -> proof_entry

type index = (bytes * nat) list

val idx_get : index -> bytes -> nat

val build_index : (tapleaf -> bytes) -> nat -> tapleaf list -> index -> index

type tbranch = tnode * tnode

val bnode : (bytes -> bytes -> bytes) -> tbranch -> tnode

val pair_pass :
  (tapleaf -> bytes) -> (bytes -> bytes -> bytes) -> index -> nat -> tapleaf
  list -> tbranch list -> proof_entry list -> (tbranch list * proof_entry
  list) toutcome

val add_to_leaves :
  index -> tnode list -> bytes -> proof_entry list -> proof_entry list
  toutcome

val merge_phase :
  (bytes -> bytes -> bytes) -> index -> nat -> tbranch list -> proof_entry
  list -> (tnode option * proof_entry list) toutcome

val assemble :
  (tapleaf -> bytes) -> (bytes -> bytes -> bytes) -> tapleaf list -> (tnode
  option * proof_entry list) toutcome

val root_from : (bytes -> bytes -> bytes) -> nat -> bytes -> bytes -> bytes

val proof_root : (bytes -> bytes -> bytes) -> bytes -> bytes -> bytes

type cblock = { cb_key : bytes; cb_odd : bool; cb_version : byte;
                cb_proof : bytes }

val ser_cb : cblock -> bytes

val cb_base_size : nat

val cb_node_size : nat

val cb_max_size : nat

val tap_p : z

val tap_n : z

val powmod_pos : z -> positive -> z -> z

val x_on_curve : bytes -> bool

val parse_cb : (bytes -> bool) -> bytes -> cblock option

val to_cb : proof_entry -> bytes -> bool -> cblock

val cb_root :
  (tapleaf -> bytes) -> (bytes -> bytes -> bytes) -> cblock -> bytes -> bytes

val tapleaf_kv : tapleaf -> cblock -> bytes * bytes

type kv_result =
| KvOk of tapleaf * cblock
| KvErr
| KvPanic

val parse_tapleaf_kv : (bytes -> bool) -> bytes -> bytes -> kv_result

val scalar_of_bytes : bytes -> z

val scalar_to_bytes : z -> bytes

val tweak_hash : bytes -> bytes -> bytes

val tweak_scalar : bytes -> bytes -> z

val tweak_priv_with :
  (bytes -> bytes -> z) -> bool -> bytes -> z -> bytes -> z * z

val tweak_priv : bool -> bytes -> z -> bytes -> z * z

val verify_with_oracle : cblock -> bytes -> bytes -> bool -> bool

val assemble_c : tapleaf list -> (tnode option * proof_entry list) toutcome

val cb_root_c : cblock -> bytes -> bytes

val parse_cb_c : bytes -> cblock option

val parse_tapleaf_kv_c : bytes -> bytes -> kv_result

type vsite =
| VPInputIndex
| VPSigNil
| VPTxInputIndex
| VPDigestIndex

type 'a vres =
| VOk of 'a
| VErr
| VPanic of vsite

val vbind : 'a1 vres -> ('a1 -> 'a2 vres) -> 'a2 vres

val vs_opnames : bytes list

val vs_opname : n -> bytes

val vs_tokenize : nat -> bytes -> (n * bytes option) list option

val vs_script_tokens : bytes -> (n * bytes option) list option

val vs_token_text : (n * bytes option) -> bytes

val vs_join : bytes list -> bytes

val vs_disasm : bytes -> bytes option

type vstype =
| StP2WPKH
| StP2WSH
| StP2TR
| StP2SH
| StP2PKH
| StOther

val vs_script_type : bytes -> vstype

val vs_p2pkh_code : bytes -> bytes

type vsig = { svg_pub : bytes option; svg_sig : bytes }

type vinput = { svi_nonwit : tx option; svi_wit : txout option;
                svi_redeem : bytes option; svi_witscript : bytes option;
                svi_sigs : vsig option list; svi_prev_txid : bytes;
                svi_prev_index : n }

type vpacket = { svp_tx : tx; svp_ins : vinput list }

type vver =
| VsV0
| VsV2

type valgo =
| VLegacy
| VSegwitV0

val vs_opt : bytes option -> bytes

val vs_p2sh_prog : bytes -> bytes option

val vs_p2wsh_prog : bytes -> bytes option

val vs_is_witness_of : bytes -> bytes -> bool

val vs_outpoint : vver -> vpacket -> nat -> vinput -> (bytes * n) vres

val vs_prev_id_ok : bytes -> bytes -> bool

val vs_is_redeem_of : (bytes -> bytes) -> bytes -> bytes -> bool

val vs_pick_script : (bytes -> bytes) -> vinput -> bytes -> bytes vres

val vs_digest_v0 :
  (valgo -> tx -> nat -> bytes -> bytes -> n -> bytes) -> vpacket -> nat ->
  bytes -> bytes -> n -> bytes vres

val vs_hash_and_script :
  (valgo -> tx -> nat -> bytes -> bytes -> n -> bytes) -> (bytes -> bytes) ->
  vver -> vpacket -> nat -> vinput -> n -> (bytes * bytes) vres

val vs_key_in_pushes :
  (bytes -> bytes) -> bytes -> bytes -> (n * bytes option) list -> bool

val vs_verify_script :
  (bytes -> bytes option) -> (bytes -> bytes) -> bytes -> bytes -> bool vres

val vs_pub_missing : vver -> vsig -> bool

val vs_validate_sig :
  (valgo -> tx -> nat -> bytes -> bytes -> n -> bytes) -> (bytes -> bytes
  option) -> (bytes -> bool) -> (bytes -> bytes -> bytes -> bool) -> (bytes
  -> bytes) -> vver -> vpacket -> nat -> vinput -> vsig option -> bool vres

val vs_validate_sigs :
  (valgo -> tx -> nat -> bytes -> bytes -> n -> bytes) -> (bytes -> bytes
  option) -> (bytes -> bool) -> (bytes -> bytes -> bytes -> bool) -> (bytes
  -> bytes) -> vver -> vpacket -> nat -> vinput -> vsig option list -> bool
  vres

val vs_validate_input :
  (valgo -> tx -> nat -> bytes -> bytes -> n -> bytes) -> (bytes -> bytes
  option) -> (bytes -> bool) -> (bytes -> bytes -> bytes -> bool) -> (bytes
  -> bytes) -> vver -> vpacket -> nat -> bool vres

val vs_validate_from :
  (valgo -> tx -> nat -> bytes -> bytes -> n -> bytes) -> (bytes -> bytes
  option) -> (bytes -> bool) -> (bytes -> bytes -> bytes -> bool) -> (bytes
  -> bytes) -> vver -> vpacket -> nat -> nat -> bool vres

val vs_validate_all :
  (valgo -> tx -> nat -> bytes -> bytes -> n -> bytes) -> (bytes -> bytes
  option) -> (bytes -> bool) -> (bytes -> bytes -> bytes -> bool) -> (bytes
  -> bytes) -> vver -> vpacket -> bool vres

module R11 :
 sig
  type script =
  | SEmpty
  | SPkh of n
  | SWpkh of n
  | SMs of n
  | STr
  | SJunk
  | SSh of script
  | SWsh of script

  val script_eqb : script -> script -> bool

  val is_witness_program : script -> bool

  val is_p2wsh : script -> bool

  val is_p2wpkh : script -> bool

  val is_p2tr : script -> bool

  val is_p2sh : script -> bool

  val parse_ok : script -> bool

  val nonempty : script option -> bool

  val non_nil : script option -> bool

  val or_empty : script option -> script

  val prevouts : script list

  type utxo = { u_script : script; u_conf : bool }

  val u_script : utxo -> script

  val u_conf : utxo -> bool

  type tss = { ts_pk : n; ts_pklen : n; ts_siglen : n; ts_leaf : n;
               ts_lhlen : n }

  val ts_pk : tss -> n

  val ts_pklen : tss -> n

  val ts_siglen : tss -> n

  val ts_leaf : tss -> n

  val ts_lhlen : tss -> n

  type tbd = { tb_key : n; tb_nh : n; tb_hlen : n; tb_path : bool }

  val tb_key : tbd -> n

  val tb_nh : tbd -> n

  val tb_hlen : tbd -> n

  type core = { c_t : n; c_short : bool; c_idx : n; c_seq : n; c_time : 
                n; c_height : n }

  val c_t : core -> n

  val c_short : core -> bool

  val c_idx : core -> n

  val c_time : core -> n

  val c_height : core -> n

  type aux = { a_nw : bool; a_nwrp : bool; a_w : utxo option;
               a_psigs : (n * n) list; a_sighash : n;
               a_redeem : script option; a_wscript : script option;
               a_bip32 : (n * bool) list; a_fss : bool; a_fsw : bool;
               a_issval : n; a_isskeys : n; a_entropy : bool; a_nonce : 
               bool; a_blindediss : bool option; a_issblind : bool;
               a_urp : bool; a_expval : n; a_valproof : bool; a_expasset : 
               n; a_assetproof : bool; a_tapkeysig : n; a_tapss : tss list;
               a_tapleaves : n list; a_tapbip32 : tbd list; a_tapik : 
               n; a_tapmr : n }

  val a_nw : aux -> bool

  val a_nwrp : aux -> bool

  val a_w : aux -> utxo option

  val a_psigs : aux -> (n * n) list

  val a_sighash : aux -> n

  val a_redeem : aux -> script option

  val a_wscript : aux -> script option

  val a_bip32 : aux -> (n * bool) list

  val a_fss : aux -> bool

  val a_fsw : aux -> bool

  val a_issval : aux -> n

  val a_isskeys : aux -> n

  val a_entropy : aux -> bool

  val a_nonce : aux -> bool

  val a_blindediss : aux -> bool option

  val a_issblind : aux -> bool

  val a_urp : aux -> bool

  val a_expval : aux -> n

  val a_valproof : aux -> bool

  val a_expasset : aux -> n

  val a_assetproof : aux -> bool

  val a_tapkeysig : aux -> n

  val a_tapss : aux -> tss list

  val a_tapleaves : aux -> n list

  val a_tapbip32 : aux -> tbd list

  val a_tapik : aux -> n

  val a_tapmr : aux -> n

  val set_a_nw : bool -> aux -> aux

  val set_a_nwrp : bool -> aux -> aux

  val set_a_w : utxo option -> aux -> aux

  val set_a_psigs : (n * n) list -> aux -> aux

  val set_a_sighash : n -> aux -> aux

  val set_a_redeem : script option -> aux -> aux

  val set_a_wscript : script option -> aux -> aux

  val set_a_bip32 : (n * bool) list -> aux -> aux

  val set_a_fss : bool -> aux -> aux

  val set_a_fsw : bool -> aux -> aux

  val set_a_issval : n -> aux -> aux

  val set_a_isskeys : n -> aux -> aux

  val set_a_entropy : bool -> aux -> aux

  val set_a_nonce : bool -> aux -> aux

  val set_a_blindediss : bool option -> aux -> aux

  val set_a_issblind : bool -> aux -> aux

  val set_a_urp : bool -> aux -> aux

  val set_a_expval : n -> aux -> aux

  val set_a_valproof : bool -> aux -> aux

  val set_a_expasset : n -> aux -> aux

  val set_a_assetproof : bool -> aux -> aux

  val set_a_tapkeysig : n -> aux -> aux

  val set_a_tapss : tss list -> aux -> aux

  val set_a_tapleaves : n list -> aux -> aux

  val set_a_tapbip32 : tbd list -> aux -> aux

  val set_a_tapik : n -> aux -> aux

  val set_a_tapmr : n -> aux -> aux

  type outp = { o_value : n; o_assetlen : n; o_script : script option;
                o_bk : n; o_bidx : n; o_blinded : bool;
                o_redeem : script option; o_wscript : script option;
                o_bip32 : (n * bool) list }

  val o_value : outp -> n

  val o_assetlen : outp -> n

  val o_script : outp -> script option

  val o_bk : outp -> n

  val o_bidx : outp -> n

  val o_blinded : outp -> bool

  val o_redeem : outp -> script option

  val o_wscript : outp -> script option

  val o_bip32 : outp -> (n * bool) list

  val set_o_bidx : n -> outp -> outp

  val set_o_blinded : bool -> outp -> outp

  val set_o_redeem : script option -> outp -> outp

  val set_o_wscript : script option -> outp -> outp

  val set_o_bip32 : (n * bool) list -> outp -> outp

  val aux0 : aux

  type pset = { g_nin : n; g_nout : n; g_flags : n option;
                g_fallback : n option; g_scalars : n list;
                p_cores : core list; p_auxs : aux list; p_outs : outp list }

  val g_nin : pset -> n

  val g_nout : pset -> n

  val g_flags : pset -> n option

  val g_fallback : pset -> n option

  val g_scalars : pset -> n list

  val p_cores : pset -> core list

  val p_auxs : pset -> aux list

  val p_outs : pset -> outp list

  type outcome =
  | Ok
  | Err
  | Panic

  val upd : pset -> aux list -> outp list -> n list -> pset

  val set_nth : nat -> 'a1 -> 'a1 list -> 'a1 list

  val testbit : n option -> n -> bool -> bool

  val inputs_modifiable : pset -> bool

  val outputs_modifiable : pset -> bool

  val needs_blinding_o : outp -> bool

  val needs_blinding : pset -> bool

  val is_fully_blinded : pset -> bool

  val finalized : aux -> bool

  val is_taproot : aux -> bool

  val len_ok_0_32 : n -> bool

  val siglen_ok : n -> bool

  val in_sane : aux -> bool

  val out_sane : outp -> bool

  val sanity_parts : aux list -> outp list -> n list -> bool

  val sanity : pset -> bool

  val max_time : core list -> n

  val max_height : core list -> n

  val fallback_or_0 : pset -> n

  val locktime : pset -> n

  type inarg = { ia_cls : n; ia_t : n; ia_idx : n; ia_seq : n; ia_height : 
                 n; ia_time : n }

  val ia_cls : inarg -> n

  val ia_t : inarg -> n

  val ia_idx : inarg -> n

  val ia_seq : inarg -> n

  val ia_height : inarg -> n

  val ia_time : inarg -> n

  type outarg = { oa_cls : n; oa_amount : n; oa_script : script option;
                  oa_bk : n; oa_bidx : n }

  val oa_cls : outarg -> n

  val oa_amount : outarg -> n

  val oa_script : outarg -> script option

  val oa_bk : outarg -> n

  val oa_bidx : outarg -> n

  val to_core : inarg -> core

  val same_outpoint : core -> core -> bool

  val lock_loop :
    core list -> aux list -> n -> n -> bool -> ((n * n) * bool) option

  val add_input : pset -> inarg -> pset option

  val add_inputs : pset -> inarg list -> pset option

  val to_outp : outarg -> outp

  val add_output : pset -> outp -> pset option

  val add_outputs : pset -> outp list -> pset option

  type init_res =
  | IOk of pset
  | IErr
  | IPanic

  val empty_pset : n option -> pset

  val outarg_valid : outarg -> bool

  val new_ins : pset -> inarg list -> pset option

  val new_outs : pset -> outarg list -> init_res

  val init : inarg list -> outarg list -> n option -> init_res

  type issue_args = { is_prec : n; is_contract : n; is_aamt : n; is_tamt : 
                      n; is_aaddr : n; is_taddr : n; is_blinded : bool }

  val is_prec : issue_args -> n

  val is_contract : issue_args -> n

  val is_aamt : issue_args -> n

  val is_tamt : issue_args -> n

  val is_aaddr : issue_args -> n

  val is_taddr : issue_args -> n

  val is_blinded : issue_args -> bool

  type reissue_args = { ri_blinder : n; ri_entropy : n; ri_aamt : n;
                        ri_aaddr : n; ri_tamt : n; ri_taddr : n }

  val ri_blinder : reissue_args -> n

  val ri_entropy : reissue_args -> n

  val ri_aamt : reissue_args -> n

  val ri_aaddr : reissue_args -> n

  val ri_tamt : reissue_args -> n

  val ri_taddr : reissue_args -> n

  type blind_args = { bl_last : bool; bl_owned : n list;
                      bl_iss : (n * bool) list; bl_outs : (n * n) list;
                      bl_surj : bool; bl_basset : bool; bl_range : bool;
                      bl_bvalue : bool; bl_gfail : n; bl_scalar : n }

  val bl_last : blind_args -> bool

  val bl_owned : blind_args -> n list

  val bl_iss : blind_args -> (n * bool) list

  val bl_outs : blind_args -> (n * n) list

  val bl_surj : blind_args -> bool

  val bl_basset : blind_args -> bool

  val bl_range : blind_args -> bool

  val bl_bvalue : blind_args -> bool

  val bl_gfail : blind_args -> n

  val bl_scalar : blind_args -> n

  type op =
  | OSetMod of n option
  | OAddInputs of inarg list
  | OAddOutputs of outarg list
  | ONwUtxo of z * n
  | OWUtxo of z * utxo option
  | ORedeem of z * script option
  | OWScript of z * script option
  | OBip32 of z * n option * bool
  | OSighash of z * n
  | OUtxoRp of z * bool
  | OExpAsset of z * bool * bool
  | OExpValue of z * n * bool
  | OIssue of z * issue_args
  | OReissue of z * reissue_args
  | OTapIk of z * n
  | OTapMr of z * n
  | OTapLeaf of z * n
  | OTapBip32 of z * tbd
  | OOutBip32 of z * n option * bool
  | OOutRedeem of z * script option
  | OOutWScript of z * script option
  | OSign of z * bool * n * n option * script option * script option
  | OTapKeySig of z * n
  | OTapScriptSig of z * tss
  | OBlind of blind_args
  | OFinalize of z
  | OMaybeFinalize of z
  | OFinalizeAll
  | OMaybeFinalizeAll

  type lres =
  | LSan
  | LOk
  | LErr
  | LPanic

  val finish : lres -> bool -> outcome

  val in_index : pset -> z -> bool -> ((nat * core) * aux, outcome) sum

  val out_index : pset -> z -> (nat * outp, outcome) sum

  val on_input :
    pset -> z -> bool -> (core -> aux -> aux * lres) -> ((aux list * outp
    list) * n list) * outcome

  val on_output :
    pset -> z -> (outp -> outp * lres) -> ((aux list * outp list) * n
    list) * outcome

  type gu =
  | GuNil
  | GuPanic
  | GuSome of utxo * aux

  val get_utxo : core -> aux -> gu

  val prevout_script : core -> script option

  val key_in : n -> (n * bool) list -> bool

  val nw_to_w : core -> aux -> aux option

  val p2wpkh_of : n -> script

  val add_psig : core -> aux -> bool -> n -> n option -> aux * lres

  val sign_local :
    bool -> bool -> bool -> n -> n option -> script option -> script option
    -> core -> aux -> aux * lres

  val expected_sighash : aux -> n

  val sigs_ok : aux -> bool

  val nsigs : aux -> n

  val multisig_ok : script -> aux -> bool

  val finalize_witness : aux -> aux option

  val finalize_nonwitness : aux -> aux option

  val norm_sighash : n -> n

  val tap_sig_ok : aux -> n -> bool

  val finalize_taproot : aux -> aux option

  val finalize_local : core -> aux -> aux * lres

  val is_finalizable : core -> aux -> bool option

  val maybe_finalize_local : core -> aux -> aux * lres

  val finalize_loop :
    (core -> aux -> aux * lres) -> core list -> nat -> nat -> aux list ->
    outp list -> n list -> aux list * outcome

  val insert_by_idx : (n * n) -> (n * n) list -> (n * n) list

  val sort_by_idx : (n * n) list -> (n * n) list

  type bres =
  | BGo of aux list
  | BStop of aux list * outcome

  val owned_validate : pset -> aux list -> n list -> bres

  val prevout_loop : core list -> nat -> aux list -> n list -> bres

  val outargs_validate : pset -> bool -> (n * n) list -> bool

  val outargs_proofs : pset -> blind_args -> (n * n) list -> bool

  val blind_outs : blind_args -> (n * n) list -> outp list -> outp list * bool

  val do_blind :
    pset -> blind_args -> ((aux list * outp list) * n list) * outcome

  val publish : pset -> pset -> pset * outcome

  val staged_parts :
    pset -> (((aux list * outp list) * n list) * outcome) -> ((aux
    list * outp list) * n list) * outcome

  val addr_ok : n -> bool

  val addr_bk : n -> n

  val issue_validate : issue_args -> bool

  val mk_out : n -> n -> n -> outp

  val do_issue : pset -> z -> issue_args -> pset * outcome

  val reissue_validate : reissue_args -> bool

  val do_reissue : pset -> z -> reissue_args -> pset * outcome

  val rest_sane : pset -> nat -> bool

  val blocked : pset -> bool

  val local_step : pset -> op -> ((aux list * outp list) * n list) * outcome

  val set_flags : pset -> n option -> pset

  val step : pset -> op -> pset * outcome

  val nodup_n : n list -> bool

  val core_reparses : core -> bool

  val nodup_pairs : (n * n) list -> bool

  val aux_reparses : aux -> bool

  val out_reparses : outp -> bool

  val rt : pset -> bool

  type rtc =
  | RtSame
  | RtDiff
  | RtFail

  val rt_class : pset -> rtc
 end

type ('g, 'c) prims = { p_hash : (bytes -> bytes);
                        p_ecdh : (bytes -> bytes -> bytes option);
                        p_gen_parse : (bytes -> 'g option);
                        p_gen_ser : ('g -> bytes);
                        p_gen_generate : (bytes -> 'g option);
                        p_gen_blinded : (bytes -> bytes -> 'g option);
                        p_commit_parse : (bytes -> 'c option);
                        p_commit_ser : ('c -> bytes);
                        p_commit : (bytes -> n -> 'g -> 'c option);
                        p_sign : (n -> 'c -> bytes -> bytes -> z -> z -> n ->
                                 bytes -> bytes -> 'g -> bytes option);
                        p_rewind : ('c -> bytes -> bytes -> bytes -> 'g ->
                                   ((bytes * n) * bytes) option);
                        p_verify : ('c -> bytes -> bytes -> 'g -> bool) }

type 'a ures =
| UOk of 'a
| UErr
| UPanic

val ub_zero32 : bytes

val ub_fit : nat -> bytes -> bytes

val ub_obind : 'a1 option -> ('a1 -> 'a2 option) -> 'a2 option

type unb_result = { u_value : n; u_asset : bytes; u_vbf : bytes; u_abf : bytes }

type rp_args = { ra_value : n; ra_nonce : bytes; ra_asset : bytes;
                 ra_abf : bytes; ra_vbf : bytes; ra_vcommit : bytes;
                 ra_script : bytes; ra_exp : z; ra_minbits : z }

val uB_OP_RETURN : n

val ub_maxScriptSize : n

val is_unspendable : bytes -> bool

val ra_min_value : rp_args -> n

val ra_exp_eff : rp_args -> z

val ra_minbits_eff : rp_args -> z

val value_from_bytes : bytes -> n option

val nonce_hash : ('a1, 'a2) prims -> bytes -> bytes -> bytes option

val asset_commitment : ('a1, 'a2) prims -> bytes -> bytes -> bytes option

val value_commitment : ('a1, 'a2) prims -> n -> bytes -> bytes -> bytes option

val range_proof : ('a1, 'a2) prims -> rp_args -> bytes option

val verify_range_proof :
  ('a1, 'a2) prims -> bytes -> bytes -> bytes -> bytes -> bool

val unblind_output : ('a1, 'a2) prims -> txout -> bytes -> unb_result ures

val unblind_explicit : txout -> unb_result ures

val unblind_with_key : ('a1, 'a2) prims -> txout -> bytes -> unb_result ures

val unblind_with_nonce : ('a1, 'a2) prims -> txout -> bytes -> unb_result ures

val ub_is_reissuance : issuance -> bool

val has_token_amount : issuance -> bool

val ub_compute_entropy : bytes -> n -> bytes -> bytes option

val ub_compute_asset : bytes -> bytes option

val ub_compute_token : bytes -> n -> bytes option

val issuance_entropy : txin -> issuance -> bytes option

val calc_asset_hash : txin -> issuance -> bytes option

val calc_token_hash : txin -> issuance -> bytes option

val unblind_issuance_amount :
  ('a1, 'a2) prims -> txout -> bytes -> unb_result ures

val unblind_issuance :
  ('a1, 'a2) prims -> txin -> bytes list -> (unb_result * unb_result option)
  ures

type ub_blinded = { bl_asset : bytes; bl_value : bytes; bl_nonce : bytes;
                    bl_proof : bytes }

val blind_output :
  ('a1, 'a2) prims -> n -> bytes -> bytes -> bytes -> bytes -> bytes -> bytes
  -> z -> z -> ub_blinded option

val blind_issuance_amount :
  ('a1, 'a2) prims -> n -> bytes -> bytes -> bytes -> ub_blinded option

val last_value_range_proof :
  ('a1, 'a2) prims -> n -> bytes -> bytes -> bytes -> bytes -> bytes -> bytes
  -> bytes option

type sign_entry = { se_min : n; se_commit : bytes; se_vbf : bytes;
                    se_nonce : bytes; se_exp : z; se_mb : z; se_value : 
                    n; se_msg : bytes; se_extra : bytes; se_gen : bytes;
                    se_proof : bytes option }

type ub_oracle = { or_ecdh : ((bytes * bytes) * bytes option) list;
                   or_genb : ((bytes * bytes) * bytes option) list;
                   or_geng : (bytes * bytes option) list;
                   or_commit : (((bytes * n) * bytes) * bytes option) list;
                   or_sign : sign_entry list }

val obytes_eqb : bytes option -> bytes option -> bool

val lookup2 :
  ((bytes * bytes) * bytes option) list -> bytes -> bytes -> bytes option

val lookup1 : (bytes * bytes option) list -> bytes -> bytes option

val lookup_commit :
  (((bytes * n) * bytes) * bytes option) list -> bytes -> n -> bytes -> bytes
  option

val se_args_eqb :
  sign_entry -> n -> bytes -> bytes -> bytes -> z -> z -> n -> bytes -> bytes
  -> bytes -> bool

val lookup_sign :
  sign_entry list -> n -> bytes -> bytes -> bytes -> z -> z -> n -> bytes ->
  bytes -> bytes -> bytes option

val find_proof : sign_entry list -> bytes -> sign_entry option

val has_prefix : bytes -> n -> n -> bool

val oracle_rewind :
  ub_oracle -> bytes -> bytes -> bytes -> bytes -> bytes ->
  ((bytes * n) * bytes) option

val oracle_verify : ub_oracle -> bytes -> bytes -> bytes -> bytes -> bool

val oracle_prims : ub_oracle -> (bytes, bytes) prims

val o_nonce_hash : ub_oracle -> bytes -> bytes -> bytes option

val o_asset_commitment : ub_oracle -> bytes -> bytes -> bytes option

val o_value_commitment : ub_oracle -> n -> bytes -> bytes -> bytes option

val o_range_proof : ub_oracle -> rp_args -> bytes option

val o_verify_range_proof :
  ub_oracle -> bytes -> bytes -> bytes -> bytes -> bool

val o_blind_output :
  ub_oracle -> n -> bytes -> bytes -> bytes -> bytes -> bytes -> bytes -> z
  -> z -> ub_blinded option

val o_blind_issuance_amount :
  ub_oracle -> n -> bytes -> bytes -> bytes -> ub_blinded option

val o_unblind_with_key : ub_oracle -> txout -> bytes -> unb_result ures

val o_unblind_with_nonce : ub_oracle -> txout -> bytes -> unb_result ures

val o_unblind_issuance :
  ub_oracle -> txin -> bytes list -> (unb_result * unb_result option) ures

val o_last_value_range_proof :
  ub_oracle -> n -> bytes -> bytes -> bytes -> bytes -> bytes -> bytes ->
  bytes option

type owned_input = { ow_index : n; ow_value : n; ow_asset : bytes;
                     ow_vbf : bytes; ow_abf : bytes }

type gen_keys =
| GKeys of bytes list
| GMaster of (bytes -> bytes)

val keys_for : gen_keys -> txout -> bytes list

val try_keys : ('a1, 'a2) prims -> bytes list -> txout -> unb_result ures

val gen_unblind_output :
  ('a1, 'a2) prims -> gen_keys -> txout -> unb_result ures

val unblind_each :
  ('a1, 'a2) prims -> gen_keys -> txout list -> n list -> owned_input list
  ures

val unblind_inputs :
  ('a1, 'a2) prims -> gen_keys -> txout list -> n list -> owned_input list
  ures

type packet = txout list * n list

val gen_step :
  ('a1, 'a2) prims -> gen_keys -> packet -> gen_keys * owned_input list ures

val gen_run :
  ('a1, 'a2) prims -> gen_keys -> packet list -> gen_keys * owned_input list
  ures list

val o_gen_run :
  ub_oracle -> gen_keys -> packet list -> gen_keys * owned_input list ures
  list

val g_BLECH32 : z

val g_BLECH32M : z

val g_gen : z list

val g_charset : z list

module B32 :
 sig
  val coq_BLECH32 : n

  val coq_BLECH32M : n

  val gen : n list

  val charset : bytes

  val encoding_of_version : byte -> n option

  val apply_gen : n -> n list -> n -> n -> n

  val mask55 : n

  val polymod_step : n -> n -> n

  val polymod_from : n -> n list -> n

  val polymod : n list -> n

  val hrp_expand : bytes -> n list

  val ints : bytes -> n list

  val idx12 : n list

  val checksum_symbols : n -> bytes

  val create_checksum : bytes -> bytes -> n -> bytes

  val verify_checksum : bytes -> bytes -> n -> bool

  val index_of : byte -> bytes -> n -> n option

  val to_bytes : bytes -> bytes option

  val nth_opt : 'a1 list -> n -> 'a1 option

  val to_chars : bytes -> bytes option

  val to_lower : byte -> byte

  val to_upper : byte -> byte

  val sep : byte

  val last_index_from : byte -> bytes -> nat -> nat option -> nat option

  val last_index : byte -> bytes -> nat option

  type gres =
  | GOk of bytes * bytes * bytes
  | GErr
  | GPanic

  val char_ok : byte -> bool

  val decode_generic : bytes -> gres

  type dres =
  | DOk of bytes * bytes
  | DErr
  | DPanic

  val decode : bytes -> dres

  val encode : bytes -> bytes -> n -> bytes option

  val u8 : n -> n

  type cb_state = { cb_out : bytes; cb_next : n; cb_filled : n }

  val cb_out : cb_state -> bytes

  val cb_next : cb_state -> n

  val cb_filled : cb_state -> n

  val cb_inner : nat -> n -> n -> n -> cb_state -> cb_state

  val cb_byte : n -> n -> cb_state -> byte -> cb_state

  val convert_bits : bytes -> n -> n -> bool -> bytes option
 end

module XC :
 sig
  val b58_alphabet : bytes

  val b58_value : bytes -> n -> n option

  val be_bytes : nat -> n -> bytes

  val leading : byte -> bytes -> nat

  val b58_decode : bytes -> bytes

  val b58_digits : nat -> n -> bytes

  val b58_encode : bytes -> bytes

  val check_encode : bytes -> byte -> bytes

  val check_decode : bytes -> (bytes * byte) option

  val bech_gen : n list

  val bech_const : bool -> n

  val bech_step : n -> n -> n

  val bech_polymod : bytes -> n list -> n

  val bech_checksum : bytes -> bytes -> bool -> bytes

  val has_lower : bytes -> bool

  val has_upper : bytes -> bool

  val bech_decode : bytes -> ((bytes * bytes) * bool) option

  val bech_encode : bool -> bytes -> bytes -> bytes option
 end

val g_Liquid_Bech32 : z list

val g_Liquid_Blech32 : z list

val g_Liquid_PubKeyHash : z

val g_Liquid_ScriptHash : z

val g_Liquid_Confidential : z

val g_Regtest_Bech32 : z list

val g_Regtest_Blech32 : z list

val g_Regtest_PubKeyHash : z

val g_Regtest_ScriptHash : z

val g_Regtest_Confidential : z

val g_Testnet_Bech32 : z list

val g_Testnet_Blech32 : z list

val g_Testnet_PubKeyHash : z

val g_Testnet_ScriptHash : z

val g_Testnet_Confidential : z

val g_P2Pkh : z

val g_P2Sh : z

val g_ConfidentialP2Pkh : z

val g_ConfidentialP2Sh : z

val g_P2Wpkh : z

val g_P2Wsh : z

val g_ConfidentialP2Wpkh : z

val g_ConfidentialP2Wsh : z

val g_P2TR : z

val g_ConfidentialP2TR : z

module Addr :
 sig
  type 'a res =
  | Ok of 'a
  | Err
  | Panic

  type net = { n_id : n; n_bech32 : bytes; n_blech32 : bytes; n_pkh : 
               byte; n_sh : byte; n_conf : byte }

  val n_id : net -> n

  val n_bech32 : net -> bytes

  val n_blech32 : net -> bytes

  val n_pkh : net -> byte

  val n_sh : net -> byte

  val n_conf : net -> byte

  val zs : z list -> bytes

  val zb : z -> byte

  val liquid : net

  val regtest : net

  val testnet : net

  val nets : net list

  val coq_P2Pkh : n

  val coq_P2Sh : n

  val coq_ConfidentialP2Pkh : n

  val coq_ConfidentialP2Sh : n

  val coq_P2Wpkh : n

  val coq_P2Wsh : n

  val coq_ConfidentialP2Wpkh : n

  val coq_ConfidentialP2Wsh : n

  val coq_P2TR : n

  val coq_ConfidentialP2TR : n

  val segwit_prefix : bytes -> bytes

  val is_hrp : bytes -> bytes -> bool

  val lenb : bytes -> nat -> bool

  val coq_OP_0 : byte

  val coq_OP_1 : byte

  val coq_OP_DUP : byte

  val coq_OP_HASH160 : byte

  val coq_OP_EQUAL : byte

  val coq_OP_EQUALVERIFY : byte

  val coq_OP_CHECKSIG : byte

  val add_data : bytes -> bytes option

  val script_p2pkh : bytes -> bytes option

  val script_p2sh : bytes -> bytes option

  val script_segwit : byte -> bytes -> bytes option

  val from_base58 :
    (bytes -> (bytes * byte) option) -> bytes -> (byte * bytes) res

  val to_base58 : (bytes -> byte -> bytes) -> byte -> bytes -> bytes

  val from_base58_conf :
    (bytes -> (bytes * byte) option) -> bytes ->
    (((byte * byte) * bytes) * bytes) res

  val to_base58_conf :
    (bytes -> byte -> bytes) -> byte -> byte -> bytes -> bytes -> bytes

  val from_bech32 :
    (bytes -> ((bytes * bytes) * bool) option) -> (bytes -> n -> n -> bool ->
    bytes option) -> bytes -> ((bytes * byte) * bytes) res

  val to_bech32 :
    (bool -> bytes -> bytes -> bytes option) -> (bytes -> n -> n -> bool ->
    bytes option) -> bytes -> byte -> bytes -> bytes res

  val from_blech32 : bytes -> (((bytes * byte) * bytes) * bytes) res

  val to_blech32 : bytes -> byte -> bytes -> bytes -> bytes res

  val net_by_hrp : bytes -> net option

  val net_by_version : byte -> net option

  val network_for_address :
    (bytes -> (bytes * byte) option) -> bytes -> net res

  val decode_segwit_type : n -> n -> n -> byte -> bytes -> n res

  val decode_blech32 : bytes -> n res

  val decode_bech32 :
    (bytes -> ((bytes * bytes) * bool) option) -> (bytes -> n -> n -> bool ->
    bytes option) -> bytes -> n res

  val pick_type : bool -> bool -> n -> n -> n res

  val decode_base58 :
    (bytes -> (bytes * byte) option) -> bytes -> net -> n res

  val decode_type :
    (bytes -> (bytes * byte) option) -> (bytes -> ((bytes * bytes) * bool)
    option) -> (bytes -> n -> n -> bool -> bytes option) -> bytes -> n res

  val is_conf_type : n -> bool

  val is_confidential :
    (bytes -> (bytes * byte) option) -> (bytes -> ((bytes * bytes) * bool)
    option) -> (bytes -> n -> n -> bool -> bytes option) -> bytes -> bool res

  val of_opt : 'a1 option -> 'a1 res

  val to_output_script :
    (bytes -> (bytes * byte) option) -> (bytes -> ((bytes * bytes) * bool)
    option) -> (bytes -> n -> n -> bool -> bytes option) -> bytes -> bytes res

  val from_confidential :
    (bytes -> byte -> bytes) -> (bytes -> (bytes * byte) option) -> (bytes ->
    ((bytes * bytes) * bool) option) -> (bool -> bytes -> bytes -> bytes
    option) -> (bytes -> n -> n -> bool -> bytes option) -> bytes ->
    ((bytes * bytes) * bytes) res

  val to_confidential :
    (bytes -> byte -> bytes) -> (bytes -> (bytes * byte) option) -> (bytes ->
    ((bytes * bytes) * bool) option) -> (bytes -> n -> n -> bool -> bytes
    option) -> bytes -> bytes -> bytes res

  val swallow : bytes res -> bytes res

  val nonempty_b : bytes -> bool

  val pay_address :
    (bytes -> byte -> bytes) -> (bool -> bytes -> bytes -> bytes option) ->
    (bytes -> n -> n -> bool -> bytes option) -> n -> net -> bytes -> bytes
    -> bytes -> bytes -> bytes res
 end

val zero32b : bytes

val compute_entropy : bytes -> n -> bytes -> bytes option

val compute_asset : bytes -> bytes option

val compute_token : bytes -> n -> bytes option

type iss_contract = { c_name : bytes; c_ticker : bytes; c_version : n;
                      c_precision : n; c_pubkey : bytes; c_domain : bytes }

val dec_digits : nat -> n -> bytes -> bytes

val dec_of_N : n -> bytes

type iss_jvalue =
| JStr of bytes
| JNum of n
| JObj of (bytes * iss_jvalue) list

val bytes_ltb : bytes -> bytes -> bool

val insert_field :
  (bytes * iss_jvalue) -> (bytes * iss_jvalue) list -> (bytes * iss_jvalue)
  list

val sort_fields : (bytes * iss_jvalue) list -> (bytes * iss_jvalue) list

val iss_quote : byte

val jstr : bytes -> bytes

val ser_json : nat -> iss_jvalue -> bytes

val iss_ascii : n list -> bytes

val k_name : bytes

val k_ticker : bytes

val k_version : bytes

val k_precision : bytes

val k_pubkey : bytes

val k_entity : bytes

val k_domain : bytes

val contract_fields : iss_contract -> (bytes * iss_jvalue) list

val contract_json : iss_contract -> bytes

val contract_hash : iss_contract -> bytes

type iss_ext = { ie_iss : issuance; ie_precision : n; ie_chash : bytes }

val iss_value_to_bytes : n -> bytes

val issuance_amount : n -> bytes

val new_tx_issuance : n -> n -> n -> iss_contract option -> iss_ext option

val generate_entropy : iss_ext -> bytes -> n -> iss_ext option

val generate_asset : iss_ext -> bytes option

val generate_token : iss_ext -> n -> bytes option

val is_reissuance : issuance -> bool

val from_entropy : bytes -> iss_ext

val from_contract_hash : bytes -> iss_ext

val new_from_input : bytes -> n -> issuance -> iss_ext option

type iss_addr = { ad_present : bool; ad_valid : bool; ad_conf : bool;
                  ad_script : bytes; ad_key : bytes }

type iss_args = { ia_precision : n; ia_contract : iss_contract option;
                  ia_asset : n; ia_token : n; ia_aaddr : iss_addr;
                  ia_taddr : iss_addr; ia_blinded : bool }

val explicit_asset : bytes -> bytes

val new_tx_output : bytes -> bytes -> bytes -> txout

type v0pkt = { v0_tx : tx; v0_nin : n; v0_nout : n }

val v0_add_output : v0pkt -> txout -> v0pkt

val v0_add_input : v0pkt -> txin -> v0pkt

val set_in_iss : txin -> issuance -> txin

val iss_set_nth : nat -> ('a1 -> 'a1) -> 'a1 list -> 'a1 list

val v0_set_iss : v0pkt -> nat -> issuance -> v0pkt

val find_empty : txin list -> nat -> (nat * txin) option

val v0_validate : iss_args -> bool

val iss_flag_of : bool -> n

val v0_add_issuance : v0pkt -> iss_args -> bool * v0pkt

type v0_reiss_args = { rva_utxo_ok : bool; rva_hash : bytes option;
                       rva_index : n; rva_blinder : bytes;
                       rva_entropy : bytes option; rva_asset : n;
                       rva_token : n; rva_aaddr : iss_addr;
                       rva_taddr : iss_addr }

val iss_hex32 : bytes option -> bool

val iss_obytes : bytes option -> bytes

val v0_reiss_validate : v0_reiss_args -> bool

val new_tx_input : bytes -> n -> txin

val v0_add_reissuance : v0pkt -> v0_reiss_args -> bool * v0pkt

type v2in = { vi_txid : bytes; vi_index : n; vi_seq : n; vi_value : n;
              vi_vcommit : bytes option; vi_keys : n;
              vi_kcommit : bytes option; vi_nonce : bytes option;
              vi_entropy : bytes option; vi_blinded : bool option }

type v2out = { vo_value : n; vo_asset : bytes; vo_script : bytes;
               vo_bkey : bytes; vo_bidx : n; vo_vcommit : bytes option;
               vo_acommit : bytes option; vo_ecdh : bytes option }

type v2pkt = { v2_incount : n; v2_outcount : n; v2_outs_modifiable : 
               bool; v2_ins : v2in list; v2_outs : v2out list }

val iss_olen : bytes option -> nat

val iss_is_some : 'a1 option -> bool

val vi_has_issuance : v2in -> bool

val vi_has_reissuance : v2in -> bool

val vi_is_blinded : v2in -> bool

val vi_issuance : v2in -> iss_ext

val get_issuance_asset_hash : v2in -> bytes option

val get_issuance_keys_hash : v2in -> bytes option

val v2_validate : iss_args -> bool

val v2_index_ok : v2pkt -> z -> v2in option

val v2_new_output : bytes -> n -> iss_addr -> n -> n -> v2out

val v2_add_output : v2pkt -> v2out -> v2pkt option

val v2_set_in : v2pkt -> nat -> (v2in -> v2in) -> v2pkt

val v2_add_in_issuance : v2pkt -> z -> iss_args -> bool * v2pkt

type reiss2_args = { r2_blinder : bytes; r2_entropy : bytes option;
                     r2_asset : n; r2_token : n; r2_aaddr : iss_addr;
                     r2_taddr : iss_addr }

val v2_reiss_validate : reiss2_args -> bool

val v2_add_in_reissuance : v2pkt -> z -> reiss2_args -> bool * v2pkt

val tx_issuance_of : v2in -> issuance option

val unsigned_issuance : v2in -> issuance option

val extract_issuance : v2in -> issuance option

val unsigned_output : v2out -> txout

val expected_issuance : v2in -> issuance option

type heap = bytes list

type slice = { s_arr : nat; s_off : nat; s_len : nat; s_cap : nat }

val arr : heap -> nat -> bytes

val upd0 : heap -> nat -> bytes -> heap

val alloc : heap -> bytes -> heap * nat

val zeros : nat -> bytes

val window : nat -> nat -> bytes -> bytes

val splice : bytes -> nat -> bytes -> bytes

val wr : heap -> nat -> nat -> bytes -> heap

val rd : heap -> slice -> bytes

val rd_cap : heap -> slice -> bytes

type policy = nat -> nat -> nat

val exact_policy : policy

val go_policy : policy

val go_append : policy -> heap -> slice -> bytes -> heap * slice

val go_make : heap -> nat -> nat -> heap * slice

val go_lit : heap -> bytes -> heap * slice

val go_sub : slice -> nat -> nat -> slice option

val go_copy : heap -> slice -> slice -> heap * nat

val go_set : heap -> slice -> nat -> byte -> heap option

val go_get : heap -> slice -> nat -> byte option

val wf_sliceb : heap -> slice -> bool

val run : ('a1 -> nat -> 'a1) -> 'a1 -> nat list -> 'a1

module Al :
 sig
  val concat2 : policy -> heap -> slice -> slice -> heap * slice

  val compute_asset : heap -> slice -> heap * slice option

  val compute_token : policy -> heap -> slice -> n -> heap * slice option

  val final_vbf_values : policy -> heap -> slice -> slice -> heap * slice

  val range_proof_message : policy -> heap -> slice -> slice -> heap * slice

  val b32_encode :
    policy -> heap -> bytes -> slice -> n -> heap * slice option

  type dres =
  | DOk of bytes * slice
  | DErr
  | DPanic

  val b32_decode : policy -> heap -> bytes -> heap * dres

  val to_base58_conf :
    policy -> heap -> byte -> byte -> slice -> slice -> heap * slice

  val to_blech32_gen :
    (policy -> heap -> slice -> slice -> heap * slice) -> policy -> heap ->
    bytes -> byte -> slice -> slice -> heap * slice option

  val to_blech32 :
    policy -> heap -> bytes -> byte -> slice -> slice -> heap * slice option

  val tap_script_sigs_gen :
    (policy -> heap -> slice -> slice -> heap * slice) -> policy -> heap ->
    (slice * slice) list -> heap * slice list

  val tap_script_sigs :
    policy -> heap -> (slice * slice) list -> heap * slice list

  val append_byte : policy -> heap -> slice -> byte -> heap * slice

  val tap_leaf_scripts_gen :
    (policy -> heap -> slice -> byte -> heap * slice) -> policy -> heap ->
    (slice * byte) list -> heap * slice list

  val tap_leaf_scripts :
    policy -> heap -> (slice * byte) list -> heap * slice list

  type txo = { txo_rest : slice list; txo_rp : slice }

  val txo_rest : txo -> slice list

  type ostore = txo list

  type v2in = { i_witness_utxo : nat option;
                i_nonwitness_outs : nat list option; i_prev_index : nat;
                i_utxo_rp : slice }

  val i_witness_utxo : v2in -> nat option

  val i_nonwitness_outs : v2in -> nat list option

  val i_prev_index : v2in -> nat

  val i_utxo_rp : v2in -> slice

  type gres =
  | GNil
  | GPtr of nat
  | GPanic

  val pick_utxo : v2in -> gres

  val get_utxo : ostore -> v2in -> ostore * gres

  val rev_loop : heap -> slice -> nat -> heap option

  val reverse_bytes : heap -> slice -> heap * slice option

  type vres =
  | VOk of n
  | VErr
  | VPanic

  val value_from_bytes : heap -> slice -> heap * vres

  val asset_hash_from_bytes : heap -> slice -> heap * slice option

  val txid_from_bytes : heap -> slice -> heap * slice option

  val ser_new : heap -> heap * slice

  val ser_write_slice : policy -> heap -> slice -> slice -> heap * slice

  val ser_write_varint : policy -> heap -> slice -> n -> heap * slice

  val ser_write_var_slice : policy -> heap -> slice -> slice -> heap * slice

  val ser_write_items : policy -> heap -> slice -> slice list -> heap * slice

  val ser_write_vector : policy -> heap -> slice -> slice list -> heap * slice

  val ser_vector : policy -> heap -> slice list -> heap * slice

  val copy_bytes : heap -> slice -> heap * slice

  val copy_all : heap -> slice list -> heap * slice list

  val read_all : heap -> slice list -> bytes list

  val of_codes : n list -> bytes

  val pkg_tx_one : bytes

  val pkg_tx_zero : bytes

  val pkg_max_conf_value : bytes

  val pkg_conf_zero : bytes

  val pkg_tag_leaf : bytes

  val pkg_tag_branch : bytes

  val pkg_tag_sighash : bytes

  val pkg_tag_tweak : bytes

  val pkg_liquid_hdpub : bytes

  val pkg_liquid_hdprv : bytes

  val pkg_regtest_hdpub : bytes

  val pkg_regtest_hdprv : bytes

  val pkg_testnet_hdpub : bytes

  val pkg_testnet_hdprv : bytes

  val pkg_globals : heap
 end

module FL :
 sig
  type op =
  | Put of nat * n
  | Get of nat

  type pc =
  | Idle
  | PBorrowed of nat * nat * n
  | PFilled of nat * nat * n
  | PWritten of nat * nat * n
  | PReturned of nat * nat * n
  | GBorrowed of nat * nat
  | GRead of nat * nat * bool * bytes
  | GDecoded of nat * nat * bytes * n
  | GReturned of nat * nat * bytes

  type thread = { t_prog : op list; t_todo : op list; t_done : op list;
                  t_pc : pc; t_out : bytes; t_in : bytes;
                  t_res : (bytes * n option) list }

  val t_prog : thread -> op list

  val t_todo : thread -> op list

  val t_done : thread -> op list

  val t_pc : thread -> pc

  val t_out : thread -> bytes

  val t_in : thread -> bytes

  val t_res : thread -> (bytes * n option) list

  type state = { chan : nat list; bufs : bytes list; threads : thread list }

  val chan : state -> nat list

  val bufs : state -> bytes list

  val threads : state -> thread list

  val flist_cap : nat

  val zeros8 : bytes

  val set_nth : 'a1 list -> nat -> 'a1 -> 'a1 list

  val bget : bytes list -> nat -> bytes

  val bput : bytes list -> nat -> bytes -> bytes list

  val recv_or_alloc : nat list -> bytes list -> (nat list * bytes list) * nat

  val send : nat -> nat list -> nat -> nat list

  val set_pc : thread -> pc -> thread

  val set_out : thread -> bytes -> thread

  val set_in : thread -> bytes -> thread

  val finish : thread -> op -> thread

  val add_res : thread -> (bytes * n option) -> thread

  val tstep :
    bool -> nat -> nat list -> bytes list -> thread -> (nat list * bytes
    list) * thread

  val step : bool -> nat -> state -> nat -> state

  val run_sched : bool -> nat -> state -> nat list -> state

  val new_thread : op list -> bytes -> thread

  val init : (op list * bytes) list -> state

  val run_seq : nat -> op list -> bytes -> state
 end

val extract_hist :
  ('a1 -> 'a1 -> 'a1) -> ('a1 -> 'a1 -> bool) -> bool -> n -> 'a1 list ->
  bool list -> ('a1 * 'a1 list) option * bool

type hop =
| HExtract
| HCount of n
| HFlip of nat
| HHash of nat * nat * n

type hobj = { h_count : n; h_hashes : bytes list; h_bits : bool list;
              h_bad : bool }

val upd_nth : 'a1 list -> nat -> ('a1 -> 'a1 option) -> 'a1 list option

val hobj_of : merkle_block -> hobj

val hstep : hobj -> hop -> (hobj * (bytes * bytes list) option option) option

val run_hist : hobj -> hop list -> (bytes * bytes list) option list option

val mkl_hist :
  bytes -> hop list -> (bytes * bytes list) option list option option
