(* drv_addr.ml — address family: adrdec, adrenc, adrpay, adrscr, adrform.
   The external codecs of the address model are instantiated with the executable
   re-implementations of Model/AddrCodecs.v (XC) and blech32's ConvertBits. *)
open Model
open Drv_util

let e58 = XC.check_encode
let d58 = XC.check_decode
let bdec = XC.bech_decode
let benc = XC.bech_encode
let bcb = B32.convert_bits

let i_of_byte b = string_of_int (int_of_byte b)
let byte_of_int i = byte_tbl.(i land 255)
let net_of_int i = match i with 0 -> Addr.liquid | 1 -> Addr.regtest | _ -> Addr.testnet

let show (f : 'a -> string) (r : 'a Addr.res) : string =
  match r with Addr.Ok a -> f a | Addr.Err -> "err" | Addr.Panic -> "panic"
let okhex s = "ok:" ^ hex_of_bytes s

let adrdec_line s =
  let net = show (fun n -> string_of_int (int_of_n (Addr.n_id n))) (Addr.network_for_address d58 s) in
  let ty = show (fun n -> string_of_int (int_of_n n)) (Addr.decode_type d58 bdec bcb s) in
  let conf = show b2s (Addr.is_confidential d58 bdec bcb s) in
  let script = show okhex (Addr.to_output_script d58 bdec bcb s) in
  let b58 = show (fun (v, d) -> Printf.sprintf "ok:%s:%s" (i_of_byte v) (hex_of_bytes d)) (Addr.from_base58 d58 s) in
  let b58c = show (fun (((cv, v), k), d) -> Printf.sprintf "ok:%s:%s:%s:%s" (i_of_byte cv) (i_of_byte v) (hex_of_bytes k) (hex_of_bytes d))
      (Addr.from_base58_conf d58 s) in
  let bech = show (fun ((p, v), pr) -> Printf.sprintf "ok:%s:%s:%s" (hex_of_bytes p) (i_of_byte v) (hex_of_bytes pr))
      (Addr.from_bech32 bdec bcb s) in
  let blech = show (fun (((p, v), k), pr) -> Printf.sprintf "ok:%s:%s:%s:%s" (hex_of_bytes p) (i_of_byte v) (hex_of_bytes k) (hex_of_bytes pr))
      (Addr.from_blech32 s) in
  let fc = show (fun ((a, k), sc) -> Printf.sprintf "ok:%s:%s:%s" (hex_of_bytes a) (hex_of_bytes k) (hex_of_bytes sc))
      (Addr.from_confidential e58 d58 bdec benc bcb s) in
  Printf.sprintf "net=%s type=%s conf=%s script=%s b58=%s b58c=%s bech=%s blech=%s fc=%s" net ty conf script b58 b58c bech blech fc

let cmd_adrdec t = print_endline (adrdec_line (next_hex t))

(* the model is a pure function: the last answers of a history are the answers *)
let cmd_adrhist t =
  let s1 = next_hex t in let s2 = next_hex t in
  print_endline (adrdec_line s1 ^ " ;; " ^ adrdec_line s2)

let cmd_adrenc t =
  let kind = next t in
  let r = match kind with
    | "58" -> let v = next_int t in let d = next_hex t in okhex (Addr.to_base58 e58 (byte_of_int v) d)
    | "58c" -> let cv = next_int t in let v = next_int t in let k = next_hex t in let d = next_hex t in
      okhex (Addr.to_base58_conf e58 (byte_of_int cv) (byte_of_int v) k d)
    | "b" -> let p = next_hex t in let v = next_int t in let pr = next_hex t in
      show okhex (Addr.to_bech32 benc bcb p (byte_of_int v) pr)
    | "bl" -> let p = next_hex t in let v = next_int t in let k = next_hex t in let pr = next_hex t in
      show okhex (Addr.to_blech32 p (byte_of_int v) k pr)
    | "tc" -> let a = next_hex t in let k = next_hex t in
      show okhex (Addr.to_confidential e58 d58 bdec bcb a k)
    | _ -> failwith "bad adrenc kind" in
  Printf.printf "res=%s\n" r

let cmd_adrpay t =
  let net = net_of_int (next_int t) in
  let hash = next_hex t in let whash = next_hex t in let tapkey = next_hex t in let key = next_hex t in
  let parts = Stdlib.List.init 10 (fun i ->
    Printf.sprintf "a%d=%s" i (show okhex (Addr.pay_address e58 benc bcb (n_of_int i) net hash whash tapkey key))) in
  print_endline (Stdlib.String.concat " " parts)

let opt_hex o = match o with Some s -> hex_of_bytes s | None -> "none"

let cmd_adrscr t =
  let pub = next_hex t in let redeem = next_hex t in
  let pkh = hash160 pub in
  let sh = hash160 redeem in let wsh = sha256 redeem in
  Printf.printf "pkh=%s p2pkh=%s p2wpkh=%s sh=%s wsh=%s p2sh=%s p2wsh=%s\n" (hex_of_bytes pkh)
    (opt_hex (Addr.script_p2pkh pkh)) (opt_hex (Addr.script_segwit (byte_of_int 0) pkh))
    (hex_of_bytes sh) (hex_of_bytes wsh) (opt_hex (Addr.script_p2sh sh)) (opt_hex (Addr.script_segwit (byte_of_int 0) wsh))

(* the address of (net, type 0..4, payload, key or none) through the model's encoders *)
let cmd_adrform t =
  let net = net_of_int (next_int t) in
  let ty = next_int t in
  let payload = next_hex t in let key = next_hex t in
  let unconf = match ty with
    | 0 -> Addr.Ok (Addr.to_base58 e58 (Addr.n_pkh net) payload)
    | 1 -> Addr.Ok (Addr.to_base58 e58 (Addr.n_sh net) payload)
    | _ -> Addr.to_bech32 benc bcb (Addr.n_bech32 net) (byte_of_int (if ty = 4 then 1 else 0)) payload in
  let conf = match ty with
    | 0 -> Addr.Ok (Addr.to_base58_conf e58 (Addr.n_conf net) (Addr.n_pkh net) key payload)
    | 1 -> Addr.Ok (Addr.to_base58_conf e58 (Addr.n_conf net) (Addr.n_sh net) key payload)
    | _ -> Addr.to_blech32 (Addr.n_blech32 net) (byte_of_int (if ty = 4 then 1 else 0)) key payload in
  match unconf, conf with
  | Addr.Ok u, Addr.Ok c -> Printf.printf "res=ok u=%s c=%s\n" (hex_of_bytes u) (hex_of_bytes c)
  | _ -> Printf.printf "res=err\n"

let form_addrs net ty payload key =
  let ver = byte_of_int (if ty = 4 then 1 else 0) in
  let u = Addr.to_bech32 benc bcb (Addr.n_bech32 net) ver payload in
  let c = Addr.to_blech32 (Addr.n_blech32 net) ver key payload in
  (ver, u, c)

let upper s = Stdlib.List.map B32.to_upper s

let cmd_adrcase t =
  let net = net_of_int (next_int t) in
  let ty = next_int t in
  let payload = next_hex t in let key = next_hex t in
  match form_addrs net ty payload key with
  | (_, Addr.Ok u, Addr.Ok c) ->
    let uu = upper u and cc = upper c in
    let ub = Addr.from_bech32 bdec bcb uu in
    let show_b = show (fun ((p, v), pr) -> Printf.sprintf "ok:%s:%s:%s" (hex_of_bytes p) (i_of_byte v) (hex_of_bytes pr)) in
    let ur = match ub with Addr.Ok ((p, v), pr) -> show okhex (Addr.to_bech32 benc bcb p v pr) | Addr.Err -> "err" | Addr.Panic -> "panic" in
    let cb = Addr.from_blech32 cc in
    let show_c = show (fun (((p, v), k), pr) -> Printf.sprintf "ok:%s:%s:%s:%s" (hex_of_bytes p) (i_of_byte v) (hex_of_bytes k) (hex_of_bytes pr)) in
    let cr = match cb with Addr.Ok (((p, v), k), pr) -> show okhex (Addr.to_blech32 p v k pr) | Addr.Err -> "err" | Addr.Panic -> "panic" in
    Printf.printf "ub=%s ur=%s cb=%s cr=%s\n" (show_b ub) ur (show_c cb) cr
  | _ -> Printf.printf "res=err\n"

let cmd_adrconst t =
  let net = net_of_int (next_int t) in
  let ty = next_int t in
  let payload = next_hex t in let key = next_hex t in
  let ver = if ty = 4 then 1 else if ty >= 2 then 0 else int_of_byte (if ty = 0 then Addr.n_pkh net else Addr.n_sh net) in
  let vb = byte_of_int ver in
  let str o = match o with Some s -> s | None -> [] in
  let conv = str (bcb payload (n_of_int 8) (n_of_int 5) true) in
  let x = str (benc (ver = 0) (Addr.n_bech32 net) (vb :: conv)) in
  let bconv = str (bcb (key @ payload) (n_of_int 8) (n_of_int 5) true) in
  let other = if ver = 1 then B32.coq_BLECH32 else B32.coq_BLECH32M in
  let y = str (B32.encode (Addr.n_blech32 net) (vb :: bconv) other) in
  let ty2 s = show (fun n -> string_of_int (int_of_n n)) (Addr.decode_type d58 bdec bcb s) in
  let xb = show (fun ((p, v), pr) -> Printf.sprintf "ok:%s:%s:%s" (hex_of_bytes p) (i_of_byte v) (hex_of_bytes pr)) (Addr.from_bech32 bdec bcb x) in
  Printf.printf "x=%s xt=%s xb=%s y=%s yt=%s\n" (hex_of_bytes x) (ty2 x) xb (hex_of_bytes y) (ty2 y)

(* ---- nested payments: FromScript / FromPublicKey / FromPayment / copy, composed from the model's
   hash and script functions; a level is (hash, witness hash, script, witness script) ---- *)
let some_or_empty o = match o with Some s -> s | None -> []
let level_line net key (h, wh, sc, ws) =
  let parts = Stdlib.List.init 10 (fun i ->
    Printf.sprintf "a%d=%s" i (show okhex (Addr.pay_address e58 benc bcb (n_of_int i) net h wh [] key))) in
  Printf.sprintf "h=%s wh=%s s=%s ws=%s %s" (hex_of_bytes h) (hex_of_bytes wh) (hex_of_bytes sc) (hex_of_bytes ws)
    (Stdlib.String.concat " " parts)
(* FromPayment: hash160 / sha256 of the witness script if there is one, else of the script *)
let wrap (_, _, sc, ws) =
  let sth = if ws <> [] then ws else sc in
  let h = hash160 sth in let wh = sha256 sth in
  (h, wh, some_or_empty (Addr.script_p2sh h), some_or_empty (Addr.script_segwit (byte_of_int 0) wh))

let cmd_adrnest t =
  let kind = next_int t in
  let net = net_of_int (next_int t) in
  let key = next_hex t in
  let levels = match kind with
    | 0 ->
      let m = next_int t in let n = next_int t in
      let keys = Stdlib.List.init n (fun _ -> next_hex t) in
      let ms = [byte_of_int (0x50 + m)] @ Stdlib.List.concat_map (fun k -> byte_of_int 0x21 :: k) keys
               @ [byte_of_int (0x50 + n); byte_of_int 0xae] in
      let l0 = ([], [], ms, []) in
      let inner = wrap l0 in
      let outer = wrap inner in
      [outer; inner; l0]
    | 1 ->
      let h = next_hex t in
      if Stdlib.List.length h = 20 then begin
        let p = (h, [], some_or_empty (Addr.script_p2sh h), []) in
        [wrap p; p]
      end else
        [([], h, [], some_or_empty (Addr.script_segwit (byte_of_int 0) h))]
    | _ ->
      let pk = next_hex t in
      let h = hash160 pk in
      let p = (h, h, some_or_empty (Addr.script_p2pkh h), some_or_empty (Addr.script_segwit (byte_of_int 0) h)) in
      let mid = wrap p in
      [wrap mid; mid; p] in
  print_endline (Stdlib.String.concat " ;; " (Stdlib.List.map (level_line net key) levels))

(* foreign prefix "<hrp>x": the model's answers for the bech32 and the blech32 spelling *)
let cmd_adrforeign t =
  let net = net_of_int (next_int t) in
  let ty = next_int t in
  let payload = next_hex t in let key = next_hex t in
  let ver = if ty = 4 then 1 else if ty >= 2 then 0 else int_of_byte (if ty = 0 then Addr.n_pkh net else Addr.n_sh net) in
  let vb = byte_of_int ver in
  let str o = match o with Some s -> s | None -> [] in
  let xb = byte_of_int 120 in
  let conv = str (bcb payload (n_of_int 8) (n_of_int 5) true) in
  let x = str (benc (ver = 1) (Addr.n_bech32 net @ [xb]) (vb :: conv)) in
  let bconv = str (bcb (key @ payload) (n_of_int 8) (n_of_int 5) true) in
  let enc = if ver = 1 then B32.coq_BLECH32M else B32.coq_BLECH32 in
  let y = str (B32.encode (Addr.n_blech32 net @ [xb]) (vb :: bconv) enc) in
  print_endline (adrdec_line x ^ " ;; " ^ adrdec_line y)

let () =
  register "adrforeign" cmd_adrforeign; register "adrnest" cmd_adrnest; register "adrhist" cmd_adrhist; register "adrcase" cmd_adrcase; register "adrconst" cmd_adrconst;
  register "adrdec" cmd_adrdec; register "adrenc" cmd_adrenc; register "adrpay" cmd_adrpay;
  register "adrscr" cmd_adrscr; register "adrform" cmd_adrform
