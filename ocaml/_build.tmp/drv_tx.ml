(* drv_tx.ml — transaction family: tx, raw, sha, varint, rvarint *)
open Model
open Drv_util

(* ---- abstract transaction text format ---- *)
let read_tx t : tx =
  let ver = next_n t in let flag = next_n t in let lt = next_n t in
  let ins = next_list t (fun t ->
    let h = next_hex t in let idx = next_n t in let sq = next_n t in let scr = next_hex t in
    let peg = next_int t = 1 in
    let iss = if next_int t = 1 then begin
        let a = next_hex t in let b = next_hex t in let c = next_hex t in let d = next_hex t in
        Some { iss_nonce = a; iss_entropy = b; iss_amount = c; iss_token = d } end else None in
    let irp = next_hex t in let inrp = next_hex t in
    let wit = next_list t next_hex in let pw = next_list t next_hex in
    { in_hash = h; in_index = idx; in_seq = sq; in_script = scr; in_witness = wit; in_pegin = peg;
      in_pegwit = pw; in_iss = iss; in_irp = irp; in_inrp = inrp }) in
  let outs = next_list t (fun t ->
    let a = next_hex t in let v = next_hex t in let s = next_hex t in let n = next_hex t in
    let rp = next_hex t in let sp = next_hex t in
    { o_asset = a; o_value = v; o_script = s; o_nonce = n; o_rp = rp; o_sp = sp }) in
  { t_version = ver; t_flag = flag; t_locktime = lt; t_ins = ins; t_outs = outs }

let dump_tx (x : tx) : string =
  let b = Buffer.create 256 in
  let add s = Buffer.add_string b s; Buffer.add_char b ' ' in
  let addn v = add (string_of_int (int_of_n v)) in
  let addh h = add (hex_of_bytes h) in
  let addl l = add (string_of_int (Stdlib.List.length l)); Stdlib.List.iter addh l in
  addn x.t_version; addn x.t_flag; addn x.t_locktime;
  add (string_of_int (Stdlib.List.length x.t_ins));
  Stdlib.List.iter (fun i ->
    addh i.in_hash; addn i.in_index; addn i.in_seq; addh i.in_script;
    add (if i.in_pegin then "1" else "0");
    (match i.in_iss with
     | Some s -> add "1"; addh s.iss_nonce; addh s.iss_entropy; addh s.iss_amount; addh s.iss_token
     | None -> add "0");
    addh i.in_irp; addh i.in_inrp; addl i.in_witness; addl i.in_pegwit) x.t_ins;
  add (string_of_int (Stdlib.List.length x.t_outs));
  Stdlib.List.iter (fun o ->
    addh o.o_asset; addh o.o_value; addh o.o_script; addh o.o_nonce; addh o.o_rp; addh o.o_sp) x.t_outs;
  let s = Buffer.contents b in
  Stdlib.String.map (fun c -> if c = ' ' then ',' else c) (Stdlib.String.trim s)


let cmd_tx t =
  let x = read_tx t in
  let ser = ser_full x in
  let parsed = match parse_tx ser with
    | Some (y, rest) -> Printf.sprintf "%s/rest=%d" (dump_tx y) (Stdlib.List.length rest)
    | None -> "none" in
  Printf.printf "ser=%s sz0=%s sz1=%s w=%s vs=%s dw=%d dvs=%d hasw=%s txid=%s wtxid=%s parse=%s copy=%s\n"
    (hex_of_bytes ser) (hex_of_n (size_tx false false x)) (hex_of_n (size_tx true false x))
    (hex_of_n (weight x)) (hex_of_n (vsize x)) (int_of_z (discount_weight x)) (int_of_z (discount_vsize_go x))
    (b2s (has_witness x)) (hex_of_bytes (txid x)) (hex_of_bytes (wtxid x)) parsed (dump_tx (copy_tx x))

let cmd_raw t =
  let bs = next_hex t in
  match parse_tx bs with
  | None -> Printf.printf "parse=none\n"
  | Some (y, rest) ->
    Printf.printf "parse=%s rest=%d reser=%s canon=%s\n" (dump_tx y) (Stdlib.List.length rest)
      (hex_of_bytes (ser_full y)) (b2s (canonical_flag y))

let cmd_sha t =
  let bs = next_hex t in
  Printf.printf "sha=%s dsha=%s mid=%s\n" (hex_of_bytes (sha256 bs)) (hex_of_bytes (dsha256 bs)) (hex_of_bytes (midstate256 bs))

let cmd_varint t =
  let v = n_of_hex (next t) in
  let e = varint v in
  let back = match p_varint e with Some (w, []) -> hex_of_n w | _ -> "bad" in
  Printf.printf "enc=%s back=%s\n" (hex_of_bytes e) back

let cmd_rvarint t =
  let bs = next_hex t in
  match p_varint bs with
  | Some (w, rest) -> Printf.printf "v=%s rest=%d\n" (hex_of_n w) (Stdlib.List.length rest)
  | None -> Printf.printf "v=none\n"


let () =
  register "tx" cmd_tx; register "raw" cmd_raw; register "sha" cmd_sha;
  register "varint" cmd_varint; register "rvarint" cmd_rvarint
