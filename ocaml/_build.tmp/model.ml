
(** val negb : bool -> bool **)

let negb = function
| true -> false
| false -> true

type nat =
| O
| S of nat

(** val option_map : ('a1 -> 'a2) -> 'a1 option -> 'a2 option **)

let option_map f = function
| Some a -> Some (f a)
| None -> None

type ('a, 'b) sum =
| Inl of 'a
| Inr of 'b

(** val fst : ('a1 * 'a2) -> 'a1 **)

let fst = function
| (x, _) -> x

(** val snd : ('a1 * 'a2) -> 'a2 **)

let snd = function
| (_, y) -> y

(** val length : 'a1 list -> nat **)

let rec length = function
| [] -> O
| _ :: l' -> S (length l')

(** val app : 'a1 list -> 'a1 list -> 'a1 list **)

let rec app l m =
  match l with
  | [] -> m
  | a :: l1 -> a :: (app l1 m)

type comparison =
| Eq
| Lt
| Gt

(** val compOpp : comparison -> comparison **)

let compOpp = function
| Eq -> Eq
| Lt -> Gt
| Gt -> Lt

(** val pred : nat -> nat **)

let pred n0 = match n0 with
| O -> n0
| S u -> u

module Coq__1 = struct
 (** val add : nat -> nat -> nat **)
 let rec add n0 m =
   match n0 with
   | O -> m
   | S p -> S (add p m)
end
include Coq__1

(** val mul : nat -> nat -> nat **)

let rec mul n0 m =
  match n0 with
  | O -> O
  | S p -> add m (mul p m)

(** val sub : nat -> nat -> nat **)

let rec sub n0 m =
  match n0 with
  | O -> n0
  | S k -> (match m with
            | O -> n0
            | S l -> sub k l)

type byte =
| X00
| X01
| X02
| X03
| X04
| X05
| X06
| X07
| X08
| X09
| X0a
| X0b
| X0c
| X0d
| X0e
| X0f
| X10
| X11
| X12
| X13
| X14
| X15
| X16
| X17
| X18
| X19
| X1a
| X1b
| X1c
| X1d
| X1e
| X1f
| X20
| X21
| X22
| X23
| X24
| X25
| X26
| X27
| X28
| X29
| X2a
| X2b
| X2c
| X2d
| X2e
| X2f
| X30
| X31
| X32
| X33
| X34
| X35
| X36
| X37
| X38
| X39
| X3a
| X3b
| X3c
| X3d
| X3e
| X3f
| X40
| X41
| X42
| X43
| X44
| X45
| X46
| X47
| X48
| X49
| X4a
| X4b
| X4c
| X4d
| X4e
| X4f
| X50
| X51
| X52
| X53
| X54
| X55
| X56
| X57
| X58
| X59
| X5a
| X5b
| X5c
| X5d
| X5e
| X5f
| X60
| X61
| X62
| X63
| X64
| X65
| X66
| X67
| X68
| X69
| X6a
| X6b
| X6c
| X6d
| X6e
| X6f
| X70
| X71
| X72
| X73
| X74
| X75
| X76
| X77
| X78
| X79
| X7a
| X7b
| X7c
| X7d
| X7e
| X7f
| X80
| X81
| X82
| X83
| X84
| X85
| X86
| X87
| X88
| X89
| X8a
| X8b
| X8c
| X8d
| X8e
| X8f
| X90
| X91
| X92
| X93
| X94
| X95
| X96
| X97
| X98
| X99
| X9a
| X9b
| X9c
| X9d
| X9e
| X9f
| Xa0
| Xa1
| Xa2
| Xa3
| Xa4
| Xa5
| Xa6
| Xa7
| Xa8
| Xa9
| Xaa
| Xab
| Xac
| Xad
| Xae
| Xaf
| Xb0
| Xb1
| Xb2
| Xb3
| Xb4
| Xb5
| Xb6
| Xb7
| Xb8
| Xb9
| Xba
| Xbb
| Xbc
| Xbd
| Xbe
| Xbf
| Xc0
| Xc1
| Xc2
| Xc3
| Xc4
| Xc5
| Xc6
| Xc7
| Xc8
| Xc9
| Xca
| Xcb
| Xcc
| Xcd
| Xce
| Xcf
| Xd0
| Xd1
| Xd2
| Xd3
| Xd4
| Xd5
| Xd6
| Xd7
| Xd8
| Xd9
| Xda
| Xdb
| Xdc
| Xdd
| Xde
| Xdf
| Xe0
| Xe1
| Xe2
| Xe3
| Xe4
| Xe5
| Xe6
| Xe7
| Xe8
| Xe9
| Xea
| Xeb
| Xec
| Xed
| Xee
| Xef
| Xf0
| Xf1
| Xf2
| Xf3
| Xf4
| Xf5
| Xf6
| Xf7
| Xf8
| Xf9
| Xfa
| Xfb
| Xfc
| Xfd
| Xfe
| Xff

(** val to_bits :
    byte -> bool * (bool * (bool * (bool * (bool * (bool * (bool * bool)))))) **)

let to_bits = function
| X00 -> (false, (false, (false, (false, (false, (false, (false, false)))))))
| X01 -> (true, (false, (false, (false, (false, (false, (false, false)))))))
| X02 -> (false, (true, (false, (false, (false, (false, (false, false)))))))
| X03 -> (true, (true, (false, (false, (false, (false, (false, false)))))))
| X04 -> (false, (false, (true, (false, (false, (false, (false, false)))))))
| X05 -> (true, (false, (true, (false, (false, (false, (false, false)))))))
| X06 -> (false, (true, (true, (false, (false, (false, (false, false)))))))
| X07 -> (true, (true, (true, (false, (false, (false, (false, false)))))))
| X08 -> (false, (false, (false, (true, (false, (false, (false, false)))))))
| X09 -> (true, (false, (false, (true, (false, (false, (false, false)))))))
| X0a -> (false, (true, (false, (true, (false, (false, (false, false)))))))
| X0b -> (true, (true, (false, (true, (false, (false, (false, false)))))))
| X0c -> (false, (false, (true, (true, (false, (false, (false, false)))))))
| X0d -> (true, (false, (true, (true, (false, (false, (false, false)))))))
| X0e -> (false, (true, (true, (true, (false, (false, (false, false)))))))
| X0f -> (true, (true, (true, (true, (false, (false, (false, false)))))))
| X10 -> (false, (false, (false, (false, (true, (false, (false, false)))))))
| X11 -> (true, (false, (false, (false, (true, (false, (false, false)))))))
| X12 -> (false, (true, (false, (false, (true, (false, (false, false)))))))
| X13 -> (true, (true, (false, (false, (true, (false, (false, false)))))))
| X14 -> (false, (false, (true, (false, (true, (false, (false, false)))))))
| X15 -> (true, (false, (true, (false, (true, (false, (false, false)))))))
| X16 -> (false, (true, (true, (false, (true, (false, (false, false)))))))
| X17 -> (true, (true, (true, (false, (true, (false, (false, false)))))))
| X18 -> (false, (false, (false, (true, (true, (false, (false, false)))))))
| X19 -> (true, (false, (false, (true, (true, (false, (false, false)))))))
| X1a -> (false, (true, (false, (true, (true, (false, (false, false)))))))
| X1b -> (true, (true, (false, (true, (true, (false, (false, false)))))))
| X1c -> (false, (false, (true, (true, (true, (false, (false, false)))))))
| X1d -> (true, (false, (true, (true, (true, (false, (false, false)))))))
| X1e -> (false, (true, (true, (true, (true, (false, (false, false)))))))
| X1f -> (true, (true, (true, (true, (true, (false, (false, false)))))))
| X20 -> (false, (false, (false, (false, (false, (true, (false, false)))))))
| X21 -> (true, (false, (false, (false, (false, (true, (false, false)))))))
| X22 -> (false, (true, (false, (false, (false, (true, (false, false)))))))
| X23 -> (true, (true, (false, (false, (false, (true, (false, false)))))))
| X24 -> (false, (false, (true, (false, (false, (true, (false, false)))))))
| X25 -> (true, (false, (true, (false, (false, (true, (false, false)))))))
| X26 -> (false, (true, (true, (false, (false, (true, (false, false)))))))
| X27 -> (true, (true, (true, (false, (false, (true, (false, false)))))))
| X28 -> (false, (false, (false, (true, (false, (true, (false, false)))))))
| X29 -> (true, (false, (false, (true, (false, (true, (false, false)))))))
| X2a -> (false, (true, (false, (true, (false, (true, (false, false)))))))
| X2b -> (true, (true, (false, (true, (false, (true, (false, false)))))))
| X2c -> (false, (false, (true, (true, (false, (true, (false, false)))))))
| X2d -> (true, (false, (true, (true, (false, (true, (false, false)))))))
| X2e -> (false, (true, (true, (true, (false, (true, (false, false)))))))
| X2f -> (true, (true, (true, (true, (false, (true, (false, false)))))))
| X30 -> (false, (false, (false, (false, (true, (true, (false, false)))))))
| X31 -> (true, (false, (false, (false, (true, (true, (false, false)))))))
| X32 -> (false, (true, (false, (false, (true, (true, (false, false)))))))
| X33 -> (true, (true, (false, (false, (true, (true, (false, false)))))))
| X34 -> (false, (false, (true, (false, (true, (true, (false, false)))))))
| X35 -> (true, (false, (true, (false, (true, (true, (false, false)))))))
| X36 -> (false, (true, (true, (false, (true, (true, (false, false)))))))
| X37 -> (true, (true, (true, (false, (true, (true, (false, false)))))))
| X38 -> (false, (false, (false, (true, (true, (true, (false, false)))))))
| X39 -> (true, (false, (false, (true, (true, (true, (false, false)))))))
| X3a -> (false, (true, (false, (true, (true, (true, (false, false)))))))
| X3b -> (true, (true, (false, (true, (true, (true, (false, false)))))))
| X3c -> (false, (false, (true, (true, (true, (true, (false, false)))))))
| X3d -> (true, (false, (true, (true, (true, (true, (false, false)))))))
| X3e -> (false, (true, (true, (true, (true, (true, (false, false)))))))
| X3f -> (true, (true, (true, (true, (true, (true, (false, false)))))))
| X40 -> (false, (false, (false, (false, (false, (false, (true, false)))))))
| X41 -> (true, (false, (false, (false, (false, (false, (true, false)))))))
| X42 -> (false, (true, (false, (false, (false, (false, (true, false)))))))
| X43 -> (true, (true, (false, (false, (false, (false, (true, false)))))))
| X44 -> (false, (false, (true, (false, (false, (false, (true, false)))))))
| X45 -> (true, (false, (true, (false, (false, (false, (true, false)))))))
| X46 -> (false, (true, (true, (false, (false, (false, (true, false)))))))
| X47 -> (true, (true, (true, (false, (false, (false, (true, false)))))))
| X48 -> (false, (false, (false, (true, (false, (false, (true, false)))))))
| X49 -> (true, (false, (false, (true, (false, (false, (true, false)))))))
| X4a -> (false, (true, (false, (true, (false, (false, (true, false)))))))
| X4b -> (true, (true, (false, (true, (false, (false, (true, false)))))))
| X4c -> (false, (false, (true, (true, (false, (false, (true, false)))))))
| X4d -> (true, (false, (true, (true, (false, (false, (true, false)))))))
| X4e -> (false, (true, (true, (true, (false, (false, (true, false)))))))
| X4f -> (true, (true, (true, (true, (false, (false, (true, false)))))))
| X50 -> (false, (false, (false, (false, (true, (false, (true, false)))))))
| X51 -> (true, (false, (false, (false, (true, (false, (true, false)))))))
| X52 -> (false, (true, (false, (false, (true, (false, (true, false)))))))
| X53 -> (true, (true, (false, (false, (true, (false, (true, false)))))))
| X54 -> (false, (false, (true, (false, (true, (false, (true, false)))))))
| X55 -> (true, (false, (true, (false, (true, (false, (true, false)))))))
| X56 -> (false, (true, (true, (false, (true, (false, (true, false)))))))
| X57 -> (true, (true, (true, (false, (true, (false, (true, false)))))))
| X58 -> (false, (false, (false, (true, (true, (false, (true, false)))))))
| X59 -> (true, (false, (false, (true, (true, (false, (true, false)))))))
| X5a -> (false, (true, (false, (true, (true, (false, (true, false)))))))
| X5b -> (true, (true, (false, (true, (true, (false, (true, false)))))))
| X5c -> (false, (false, (true, (true, (true, (false, (true, false)))))))
| X5d -> (true, (false, (true, (true, (true, (false, (true, false)))))))
| X5e -> (false, (true, (true, (true, (true, (false, (true, false)))))))
| X5f -> (true, (true, (true, (true, (true, (false, (true, false)))))))
| X60 -> (false, (false, (false, (false, (false, (true, (true, false)))))))
| X61 -> (true, (false, (false, (false, (false, (true, (true, false)))))))
| X62 -> (false, (true, (false, (false, (false, (true, (true, false)))))))
| X63 -> (true, (true, (false, (false, (false, (true, (true, false)))))))
| X64 -> (false, (false, (true, (false, (false, (true, (true, false)))))))
| X65 -> (true, (false, (true, (false, (false, (true, (true, false)))))))
| X66 -> (false, (true, (true, (false, (false, (true, (true, false)))))))
| X67 -> (true, (true, (true, (false, (false, (true, (true, false)))))))
| X68 -> (false, (false, (false, (true, (false, (true, (true, false)))))))
| X69 -> (true, (false, (false, (true, (false, (true, (true, false)))))))
| X6a -> (false, (true, (false, (true, (false, (true, (true, false)))))))
| X6b -> (true, (true, (false, (true, (false, (true, (true, false)))))))
| X6c -> (false, (false, (true, (true, (false, (true, (true, false)))))))
| X6d -> (true, (false, (true, (true, (false, (true, (true, false)))))))
| X6e -> (false, (true, (true, (true, (false, (true, (true, false)))))))
| X6f -> (true, (true, (true, (true, (false, (true, (true, false)))))))
| X70 -> (false, (false, (false, (false, (true, (true, (true, false)))))))
| X71 -> (true, (false, (false, (false, (true, (true, (true, false)))))))
| X72 -> (false, (true, (false, (false, (true, (true, (true, false)))))))
| X73 -> (true, (true, (false, (false, (true, (true, (true, false)))))))
| X74 -> (false, (false, (true, (false, (true, (true, (true, false)))))))
| X75 -> (true, (false, (true, (false, (true, (true, (true, false)))))))
| X76 -> (false, (true, (true, (false, (true, (true, (true, false)))))))
| X77 -> (true, (true, (true, (false, (true, (true, (true, false)))))))
| X78 -> (false, (false, (false, (true, (true, (true, (true, false)))))))
| X79 -> (true, (false, (false, (true, (true, (true, (true, false)))))))
| X7a -> (false, (true, (false, (true, (true, (true, (true, false)))))))
| X7b -> (true, (true, (false, (true, (true, (true, (true, false)))))))
| X7c -> (false, (false, (true, (true, (true, (true, (true, false)))))))
| X7d -> (true, (false, (true, (true, (true, (true, (true, false)))))))
| X7e -> (false, (true, (true, (true, (true, (true, (true, false)))))))
| X7f -> (true, (true, (true, (true, (true, (true, (true, false)))))))
| X80 -> (false, (false, (false, (false, (false, (false, (false, true)))))))
| X81 -> (true, (false, (false, (false, (false, (false, (false, true)))))))
| X82 -> (false, (true, (false, (false, (false, (false, (false, true)))))))
| X83 -> (true, (true, (false, (false, (false, (false, (false, true)))))))
| X84 -> (false, (false, (true, (false, (false, (false, (false, true)))))))
| X85 -> (true, (false, (true, (false, (false, (false, (false, true)))))))
| X86 -> (false, (true, (true, (false, (false, (false, (false, true)))))))
| X87 -> (true, (true, (true, (false, (false, (false, (false, true)))))))
| X88 -> (false, (false, (false, (true, (false, (false, (false, true)))))))
| X89 -> (true, (false, (false, (true, (false, (false, (false, true)))))))
| X8a -> (false, (true, (false, (true, (false, (false, (false, true)))))))
| X8b -> (true, (true, (false, (true, (false, (false, (false, true)))))))
| X8c -> (false, (false, (true, (true, (false, (false, (false, true)))))))
| X8d -> (true, (false, (true, (true, (false, (false, (false, true)))))))
| X8e -> (false, (true, (true, (true, (false, (false, (false, true)))))))
| X8f -> (true, (true, (true, (true, (false, (false, (false, true)))))))
| X90 -> (false, (false, (false, (false, (true, (false, (false, true)))))))
| X91 -> (true, (false, (false, (false, (true, (false, (false, true)))))))
| X92 -> (false, (true, (false, (false, (true, (false, (false, true)))))))
| X93 -> (true, (true, (false, (false, (true, (false, (false, true)))))))
| X94 -> (false, (false, (true, (false, (true, (false, (false, true)))))))
| X95 -> (true, (false, (true, (false, (true, (false, (false, true)))))))
| X96 -> (false, (true, (true, (false, (true, (false, (false, true)))))))
| X97 -> (true, (true, (true, (false, (true, (false, (false, true)))))))
| X98 -> (false, (false, (false, (true, (true, (false, (false, true)))))))
| X99 -> (true, (false, (false, (true, (true, (false, (false, true)))))))
| X9a -> (false, (true, (false, (true, (true, (false, (false, true)))))))
| X9b -> (true, (true, (false, (true, (true, (false, (false, true)))))))
| X9c -> (false, (false, (true, (true, (true, (false, (false, true)))))))
| X9d -> (true, (false, (true, (true, (true, (false, (false, true)))))))
| X9e -> (false, (true, (true, (true, (true, (false, (false, true)))))))
| X9f -> (true, (true, (true, (true, (true, (false, (false, true)))))))
| Xa0 -> (false, (false, (false, (false, (false, (true, (false, true)))))))
| Xa1 -> (true, (false, (false, (false, (false, (true, (false, true)))))))
| Xa2 -> (false, (true, (false, (false, (false, (true, (false, true)))))))
| Xa3 -> (true, (true, (false, (false, (false, (true, (false, true)))))))
| Xa4 -> (false, (false, (true, (false, (false, (true, (false, true)))))))
| Xa5 -> (true, (false, (true, (false, (false, (true, (false, true)))))))
| Xa6 -> (false, (true, (true, (false, (false, (true, (false, true)))))))
| Xa7 -> (true, (true, (true, (false, (false, (true, (false, true)))))))
| Xa8 -> (false, (false, (false, (true, (false, (true, (false, true)))))))
| Xa9 -> (true, (false, (false, (true, (false, (true, (false, true)))))))
| Xaa -> (false, (true, (false, (true, (false, (true, (false, true)))))))
| Xab -> (true, (true, (false, (true, (false, (true, (false, true)))))))
| Xac -> (false, (false, (true, (true, (false, (true, (false, true)))))))
| Xad -> (true, (false, (true, (true, (false, (true, (false, true)))))))
| Xae -> (false, (true, (true, (true, (false, (true, (false, true)))))))
| Xaf -> (true, (true, (true, (true, (false, (true, (false, true)))))))
| Xb0 -> (false, (false, (false, (false, (true, (true, (false, true)))))))
| Xb1 -> (true, (false, (false, (false, (true, (true, (false, true)))))))
| Xb2 -> (false, (true, (false, (false, (true, (true, (false, true)))))))
| Xb3 -> (true, (true, (false, (false, (true, (true, (false, true)))))))
| Xb4 -> (false, (false, (true, (false, (true, (true, (false, true)))))))
| Xb5 -> (true, (false, (true, (false, (true, (true, (false, true)))))))
| Xb6 -> (false, (true, (true, (false, (true, (true, (false, true)))))))
| Xb7 -> (true, (true, (true, (false, (true, (true, (false, true)))))))
| Xb8 -> (false, (false, (false, (true, (true, (true, (false, true)))))))
| Xb9 -> (true, (false, (false, (true, (true, (true, (false, true)))))))
| Xba -> (false, (true, (false, (true, (true, (true, (false, true)))))))
| Xbb -> (true, (true, (false, (true, (true, (true, (false, true)))))))
| Xbc -> (false, (false, (true, (true, (true, (true, (false, true)))))))
| Xbd -> (true, (false, (true, (true, (true, (true, (false, true)))))))
| Xbe -> (false, (true, (true, (true, (true, (true, (false, true)))))))
| Xbf -> (true, (true, (true, (true, (true, (true, (false, true)))))))
| Xc0 -> (false, (false, (false, (false, (false, (false, (true, true)))))))
| Xc1 -> (true, (false, (false, (false, (false, (false, (true, true)))))))
| Xc2 -> (false, (true, (false, (false, (false, (false, (true, true)))))))
| Xc3 -> (true, (true, (false, (false, (false, (false, (true, true)))))))
| Xc4 -> (false, (false, (true, (false, (false, (false, (true, true)))))))
| Xc5 -> (true, (false, (true, (false, (false, (false, (true, true)))))))
| Xc6 -> (false, (true, (true, (false, (false, (false, (true, true)))))))
| Xc7 -> (true, (true, (true, (false, (false, (false, (true, true)))))))
| Xc8 -> (false, (false, (false, (true, (false, (false, (true, true)))))))
| Xc9 -> (true, (false, (false, (true, (false, (false, (true, true)))))))
| Xca -> (false, (true, (false, (true, (false, (false, (true, true)))))))
| Xcb -> (true, (true, (false, (true, (false, (false, (true, true)))))))
| Xcc -> (false, (false, (true, (true, (false, (false, (true, true)))))))
| Xcd -> (true, (false, (true, (true, (false, (false, (true, true)))))))
| Xce -> (false, (true, (true, (true, (false, (false, (true, true)))))))
| Xcf -> (true, (true, (true, (true, (false, (false, (true, true)))))))
| Xd0 -> (false, (false, (false, (false, (true, (false, (true, true)))))))
| Xd1 -> (true, (false, (false, (false, (true, (false, (true, true)))))))
| Xd2 -> (false, (true, (false, (false, (true, (false, (true, true)))))))
| Xd3 -> (true, (true, (false, (false, (true, (false, (true, true)))))))
| Xd4 -> (false, (false, (true, (false, (true, (false, (true, true)))))))
| Xd5 -> (true, (false, (true, (false, (true, (false, (true, true)))))))
| Xd6 -> (false, (true, (true, (false, (true, (false, (true, true)))))))
| Xd7 -> (true, (true, (true, (false, (true, (false, (true, true)))))))
| Xd8 -> (false, (false, (false, (true, (true, (false, (true, true)))))))
| Xd9 -> (true, (false, (false, (true, (true, (false, (true, true)))))))
| Xda -> (false, (true, (false, (true, (true, (false, (true, true)))))))
| Xdb -> (true, (true, (false, (true, (true, (false, (true, true)))))))
| Xdc -> (false, (false, (true, (true, (true, (false, (true, true)))))))
| Xdd -> (true, (false, (true, (true, (true, (false, (true, true)))))))
| Xde -> (false, (true, (true, (true, (true, (false, (true, true)))))))
| Xdf -> (true, (true, (true, (true, (true, (false, (true, true)))))))
| Xe0 -> (false, (false, (false, (false, (false, (true, (true, true)))))))
| Xe1 -> (true, (false, (false, (false, (false, (true, (true, true)))))))
| Xe2 -> (false, (true, (false, (false, (false, (true, (true, true)))))))
| Xe3 -> (true, (true, (false, (false, (false, (true, (true, true)))))))
| Xe4 -> (false, (false, (true, (false, (false, (true, (true, true)))))))
| Xe5 -> (true, (false, (true, (false, (false, (true, (true, true)))))))
| Xe6 -> (false, (true, (true, (false, (false, (true, (true, true)))))))
| Xe7 -> (true, (true, (true, (false, (false, (true, (true, true)))))))
| Xe8 -> (false, (false, (false, (true, (false, (true, (true, true)))))))
| Xe9 -> (true, (false, (false, (true, (false, (true, (true, true)))))))
| Xea -> (false, (true, (false, (true, (false, (true, (true, true)))))))
| Xeb -> (true, (true, (false, (true, (false, (true, (true, true)))))))
| Xec -> (false, (false, (true, (true, (false, (true, (true, true)))))))
| Xed -> (true, (false, (true, (true, (false, (true, (true, true)))))))
| Xee -> (false, (true, (true, (true, (false, (true, (true, true)))))))
| Xef -> (true, (true, (true, (true, (false, (true, (true, true)))))))
| Xf0 -> (false, (false, (false, (false, (true, (true, (true, true)))))))
| Xf1 -> (true, (false, (false, (false, (true, (true, (true, true)))))))
| Xf2 -> (false, (true, (false, (false, (true, (true, (true, true)))))))
| Xf3 -> (true, (true, (false, (false, (true, (true, (true, true)))))))
| Xf4 -> (false, (false, (true, (false, (true, (true, (true, true)))))))
| Xf5 -> (true, (false, (true, (false, (true, (true, (true, true)))))))
| Xf6 -> (false, (true, (true, (false, (true, (true, (true, true)))))))
| Xf7 -> (true, (true, (true, (false, (true, (true, (true, true)))))))
| Xf8 -> (false, (false, (false, (true, (true, (true, (true, true)))))))
| Xf9 -> (true, (false, (false, (true, (true, (true, (true, true)))))))
| Xfa -> (false, (true, (false, (true, (true, (true, (true, true)))))))
| Xfb -> (true, (true, (false, (true, (true, (true, (true, true)))))))
| Xfc -> (false, (false, (true, (true, (true, (true, (true, true)))))))
| Xfd -> (true, (false, (true, (true, (true, (true, (true, true)))))))
| Xfe -> (false, (true, (true, (true, (true, (true, (true, true)))))))
| Xff -> (true, (true, (true, (true, (true, (true, (true, true)))))))

(** val eqb : bool -> bool -> bool **)

let eqb b1 b2 =
  if b1 then b2 else if b2 then false else true

module Nat =
 struct
  (** val sub : nat -> nat -> nat **)

  let rec sub n0 m =
    match n0 with
    | O -> n0
    | S k -> (match m with
              | O -> n0
              | S l -> sub k l)

  (** val eqb : nat -> nat -> bool **)

  let rec eqb n0 m =
    match n0 with
    | O -> (match m with
            | O -> true
            | S _ -> false)
    | S n' -> (match m with
               | O -> false
               | S m' -> eqb n' m')

  (** val leb : nat -> nat -> bool **)

  let rec leb n0 m =
    match n0 with
    | O -> true
    | S n' -> (match m with
               | O -> false
               | S m' -> leb n' m')

  (** val ltb : nat -> nat -> bool **)

  let ltb n0 m =
    leb (S n0) m

  (** val max : nat -> nat -> nat **)

  let rec max n0 m =
    match n0 with
    | O -> m
    | S n' -> (match m with
               | O -> n0
               | S m' -> S (max n' m'))

  (** val min : nat -> nat -> nat **)

  let rec min n0 m =
    match n0 with
    | O -> O
    | S n' -> (match m with
               | O -> O
               | S m' -> S (min n' m'))

  (** val divmod : nat -> nat -> nat -> nat -> nat * nat **)

  let rec divmod x y q u =
    match x with
    | O -> (q, u)
    | S x' ->
      (match u with
       | O -> divmod x' y (S q) y
       | S u' -> divmod x' y q u')

  (** val div : nat -> nat -> nat **)

  let div x y = match y with
  | O -> y
  | S y' -> fst (divmod x y' O y')

  (** val modulo : nat -> nat -> nat **)

  let modulo x = function
  | O -> x
  | S y' -> sub y' (snd (divmod x y' O y'))
 end

(** val hd : 'a1 -> 'a1 list -> 'a1 **)

let hd default = function
| [] -> default
| x :: _ -> x

(** val tl : 'a1 list -> 'a1 list **)

let tl = function
| [] -> []
| _ :: m -> m

(** val nth : nat -> 'a1 list -> 'a1 -> 'a1 **)

let rec nth n0 l default =
  match n0 with
  | O -> (match l with
          | [] -> default
          | x :: _ -> x)
  | S m -> (match l with
            | [] -> default
            | _ :: t -> nth m t default)

(** val nth_error : 'a1 list -> nat -> 'a1 option **)

let rec nth_error l = function
| O -> (match l with
        | [] -> None
        | x :: _ -> Some x)
| S n1 -> (match l with
           | [] -> None
           | _ :: l0 -> nth_error l0 n1)

(** val removelast : 'a1 list -> 'a1 list **)

let rec removelast = function
| [] -> []
| a :: l0 -> (match l0 with
              | [] -> []
              | _ :: _ -> a :: (removelast l0))

(** val rev : 'a1 list -> 'a1 list **)

let rec rev = function
| [] -> []
| x :: l' -> app (rev l') (x :: [])

(** val concat : 'a1 list list -> 'a1 list **)

let rec concat = function
| [] -> []
| x :: l0 -> app x (concat l0)

(** val map : ('a1 -> 'a2) -> 'a1 list -> 'a2 list **)

let rec map f = function
| [] -> []
| a :: t -> (f a) :: (map f t)

(** val flat_map : ('a1 -> 'a2 list) -> 'a1 list -> 'a2 list **)

let rec flat_map f = function
| [] -> []
| x :: t -> app (f x) (flat_map f t)

(** val fold_left : ('a1 -> 'a2 -> 'a1) -> 'a2 list -> 'a1 -> 'a1 **)

let rec fold_left f l a0 =
  match l with
  | [] -> a0
  | b :: t -> fold_left f t (f a0 b)

(** val fold_right : ('a2 -> 'a1 -> 'a1) -> 'a1 -> 'a2 list -> 'a1 **)

let rec fold_right f a0 = function
| [] -> a0
| b :: t -> f b (fold_right f a0 t)

(** val existsb : ('a1 -> bool) -> 'a1 list -> bool **)

let rec existsb f = function
| [] -> false
| a :: l0 -> (||) (f a) (existsb f l0)

(** val forallb : ('a1 -> bool) -> 'a1 list -> bool **)

let rec forallb f = function
| [] -> true
| a :: l0 -> (&&) (f a) (forallb f l0)

(** val filter : ('a1 -> bool) -> 'a1 list -> 'a1 list **)

let rec filter f = function
| [] -> []
| x :: l0 -> if f x then x :: (filter f l0) else filter f l0

(** val find : ('a1 -> bool) -> 'a1 list -> 'a1 option **)

let rec find f = function
| [] -> None
| x :: tl0 -> if f x then Some x else find f tl0

(** val combine : 'a1 list -> 'a2 list -> ('a1 * 'a2) list **)

let rec combine l l' =
  match l with
  | [] -> []
  | x :: tl0 ->
    (match l' with
     | [] -> []
     | y :: tl' -> (x, y) :: (combine tl0 tl'))

(** val firstn : nat -> 'a1 list -> 'a1 list **)

let rec firstn n0 l =
  match n0 with
  | O -> []
  | S n1 -> (match l with
             | [] -> []
             | a :: l0 -> a :: (firstn n1 l0))

(** val skipn : nat -> 'a1 list -> 'a1 list **)

let rec skipn n0 l =
  match n0 with
  | O -> l
  | S n1 -> (match l with
             | [] -> []
             | _ :: l0 -> skipn n1 l0)

(** val seq : nat -> nat -> nat list **)

let rec seq start = function
| O -> []
| S len0 -> start :: (seq (S start) len0)

(** val repeat : 'a1 -> nat -> 'a1 list **)

let rec repeat x = function
| O -> []
| S k -> x :: (repeat x k)

type positive =
| XI of positive
| XO of positive
| XH

type n =
| N0
| Npos of positive

type z =
| Z0
| Zpos of positive
| Zneg of positive

module Pos =
 struct
  type mask =
  | IsNul
  | IsPos of positive
  | IsNeg
 end

module Coq_Pos =
 struct
  (** val succ : positive -> positive **)

  let rec succ = function
  | XI p -> XO (succ p)
  | XO p -> XI p
  | XH -> XO XH

  (** val add : positive -> positive -> positive **)

  let rec add x y =
    match x with
    | XI p ->
      (match y with
       | XI q -> XO (add_carry p q)
       | XO q -> XI (add p q)
       | XH -> XO (succ p))
    | XO p ->
      (match y with
       | XI q -> XI (add p q)
       | XO q -> XO (add p q)
       | XH -> XI p)
    | XH -> (match y with
             | XI q -> XO (succ q)
             | XO q -> XI q
             | XH -> XO XH)

  (** val add_carry : positive -> positive -> positive **)

  and add_carry x y =
    match x with
    | XI p ->
      (match y with
       | XI q -> XI (add_carry p q)
       | XO q -> XO (add_carry p q)
       | XH -> XI (succ p))
    | XO p ->
      (match y with
       | XI q -> XO (add_carry p q)
       | XO q -> XI (add p q)
       | XH -> XO (succ p))
    | XH ->
      (match y with
       | XI q -> XI (succ q)
       | XO q -> XO (succ q)
       | XH -> XI XH)

  (** val pred_double : positive -> positive **)

  let rec pred_double = function
  | XI p -> XI (XO p)
  | XO p -> XI (pred_double p)
  | XH -> XH

  (** val pred_N : positive -> n **)

  let pred_N = function
  | XI p -> Npos (XO p)
  | XO p -> Npos (pred_double p)
  | XH -> N0

  type mask = Pos.mask =
  | IsNul
  | IsPos of positive
  | IsNeg

  (** val succ_double_mask : mask -> mask **)

  let succ_double_mask = function
  | IsNul -> IsPos XH
  | IsPos p -> IsPos (XI p)
  | IsNeg -> IsNeg

  (** val double_mask : mask -> mask **)

  let double_mask = function
  | IsPos p -> IsPos (XO p)
  | x0 -> x0

  (** val double_pred_mask : positive -> mask **)

  let double_pred_mask = function
  | XI p -> IsPos (XO (XO p))
  | XO p -> IsPos (XO (pred_double p))
  | XH -> IsNul

  (** val sub_mask : positive -> positive -> mask **)

  let rec sub_mask x y =
    match x with
    | XI p ->
      (match y with
       | XI q -> double_mask (sub_mask p q)
       | XO q -> succ_double_mask (sub_mask p q)
       | XH -> IsPos (XO p))
    | XO p ->
      (match y with
       | XI q -> succ_double_mask (sub_mask_carry p q)
       | XO q -> double_mask (sub_mask p q)
       | XH -> IsPos (pred_double p))
    | XH -> (match y with
             | XH -> IsNul
             | _ -> IsNeg)

  (** val sub_mask_carry : positive -> positive -> mask **)

  and sub_mask_carry x y =
    match x with
    | XI p ->
      (match y with
       | XI q -> succ_double_mask (sub_mask_carry p q)
       | XO q -> double_mask (sub_mask p q)
       | XH -> IsPos (pred_double p))
    | XO p ->
      (match y with
       | XI q -> double_mask (sub_mask_carry p q)
       | XO q -> succ_double_mask (sub_mask_carry p q)
       | XH -> double_pred_mask p)
    | XH -> IsNeg

  (** val mul : positive -> positive -> positive **)

  let rec mul x y =
    match x with
    | XI p -> add y (XO (mul p y))
    | XO p -> XO (mul p y)
    | XH -> y

  (** val iter : ('a1 -> 'a1) -> 'a1 -> positive -> 'a1 **)

  let rec iter f x = function
  | XI n' -> f (iter f (iter f x n') n')
  | XO n' -> iter f (iter f x n') n'
  | XH -> f x

  (** val pow : positive -> positive -> positive **)

  let pow x =
    iter (mul x) XH

  (** val size : positive -> positive **)

  let rec size = function
  | XI p0 -> succ (size p0)
  | XO p0 -> succ (size p0)
  | XH -> XH

  (** val compare_cont : comparison -> positive -> positive -> comparison **)

  let rec compare_cont r x y =
    match x with
    | XI p ->
      (match y with
       | XI q -> compare_cont r p q
       | XO q -> compare_cont Gt p q
       | XH -> Gt)
    | XO p ->
      (match y with
       | XI q -> compare_cont Lt p q
       | XO q -> compare_cont r p q
       | XH -> Gt)
    | XH -> (match y with
             | XH -> r
             | _ -> Lt)

  (** val compare : positive -> positive -> comparison **)

  let compare =
    compare_cont Eq

  (** val eqb : positive -> positive -> bool **)

  let rec eqb p q =
    match p with
    | XI p0 -> (match q with
                | XI q0 -> eqb p0 q0
                | _ -> false)
    | XO p0 -> (match q with
                | XO q0 -> eqb p0 q0
                | _ -> false)
    | XH -> (match q with
             | XH -> true
             | _ -> false)

  (** val coq_Nsucc_double : n -> n **)

  let coq_Nsucc_double = function
  | N0 -> Npos XH
  | Npos p -> Npos (XI p)

  (** val coq_Ndouble : n -> n **)

  let coq_Ndouble = function
  | N0 -> N0
  | Npos p -> Npos (XO p)

  (** val coq_lor : positive -> positive -> positive **)

  let rec coq_lor p q =
    match p with
    | XI p0 ->
      (match q with
       | XI q0 -> XI (coq_lor p0 q0)
       | XO q0 -> XI (coq_lor p0 q0)
       | XH -> p)
    | XO p0 ->
      (match q with
       | XI q0 -> XI (coq_lor p0 q0)
       | XO q0 -> XO (coq_lor p0 q0)
       | XH -> XI p0)
    | XH -> (match q with
             | XO q0 -> XI q0
             | _ -> q)

  (** val coq_land : positive -> positive -> n **)

  let rec coq_land p q =
    match p with
    | XI p0 ->
      (match q with
       | XI q0 -> coq_Nsucc_double (coq_land p0 q0)
       | XO q0 -> coq_Ndouble (coq_land p0 q0)
       | XH -> Npos XH)
    | XO p0 ->
      (match q with
       | XI q0 -> coq_Ndouble (coq_land p0 q0)
       | XO q0 -> coq_Ndouble (coq_land p0 q0)
       | XH -> N0)
    | XH -> (match q with
             | XO _ -> N0
             | _ -> Npos XH)

  (** val coq_lxor : positive -> positive -> n **)

  let rec coq_lxor p q =
    match p with
    | XI p0 ->
      (match q with
       | XI q0 -> coq_Ndouble (coq_lxor p0 q0)
       | XO q0 -> coq_Nsucc_double (coq_lxor p0 q0)
       | XH -> Npos (XO p0))
    | XO p0 ->
      (match q with
       | XI q0 -> coq_Nsucc_double (coq_lxor p0 q0)
       | XO q0 -> coq_Ndouble (coq_lxor p0 q0)
       | XH -> Npos (XI p0))
    | XH ->
      (match q with
       | XI q0 -> Npos (XO q0)
       | XO q0 -> Npos (XI q0)
       | XH -> N0)

  (** val shiftl : positive -> n -> positive **)

  let shiftl p = function
  | N0 -> p
  | Npos n1 -> iter (fun x -> XO x) p n1

  (** val testbit : positive -> n -> bool **)

  let rec testbit p n0 =
    match p with
    | XI p0 -> (match n0 with
                | N0 -> true
                | Npos n1 -> testbit p0 (pred_N n1))
    | XO p0 -> (match n0 with
                | N0 -> false
                | Npos n1 -> testbit p0 (pred_N n1))
    | XH -> (match n0 with
             | N0 -> true
             | Npos _ -> false)

  (** val iter_op : ('a1 -> 'a1 -> 'a1) -> positive -> 'a1 -> 'a1 **)

  let rec iter_op op0 p a =
    match p with
    | XI p0 -> op0 a (iter_op op0 p0 (op0 a a))
    | XO p0 -> iter_op op0 p0 (op0 a a)
    | XH -> a

  (** val to_nat : positive -> nat **)

  let to_nat x =
    iter_op Coq__1.add x (S O)

  (** val of_succ_nat : nat -> positive **)

  let rec of_succ_nat = function
  | O -> XH
  | S x -> succ (of_succ_nat x)
 end

module N =
 struct
  (** val succ_double : n -> n **)

  let succ_double = function
  | N0 -> Npos XH
  | Npos p -> Npos (XI p)

  (** val double : n -> n **)

  let double = function
  | N0 -> N0
  | Npos p -> Npos (XO p)

  (** val succ : n -> n **)

  let succ = function
  | N0 -> Npos XH
  | Npos p -> Npos (Coq_Pos.succ p)

  (** val pred : n -> n **)

  let pred = function
  | N0 -> N0
  | Npos p -> Coq_Pos.pred_N p

  (** val add : n -> n -> n **)

  let add n0 m =
    match n0 with
    | N0 -> m
    | Npos p -> (match m with
                 | N0 -> n0
                 | Npos q -> Npos (Coq_Pos.add p q))

  (** val sub : n -> n -> n **)

  let sub n0 m =
    match n0 with
    | N0 -> N0
    | Npos n' ->
      (match m with
       | N0 -> n0
       | Npos m' ->
         (match Coq_Pos.sub_mask n' m' with
          | Coq_Pos.IsPos p -> Npos p
          | _ -> N0))

  (** val mul : n -> n -> n **)

  let mul n0 m =
    match n0 with
    | N0 -> N0
    | Npos p -> (match m with
                 | N0 -> N0
                 | Npos q -> Npos (Coq_Pos.mul p q))

  (** val compare : n -> n -> comparison **)

  let compare n0 m =
    match n0 with
    | N0 -> (match m with
             | N0 -> Eq
             | Npos _ -> Lt)
    | Npos n' -> (match m with
                  | N0 -> Gt
                  | Npos m' -> Coq_Pos.compare n' m')

  (** val eqb : n -> n -> bool **)

  let eqb n0 m =
    match n0 with
    | N0 -> (match m with
             | N0 -> true
             | Npos _ -> false)
    | Npos p -> (match m with
                 | N0 -> false
                 | Npos q -> Coq_Pos.eqb p q)

  (** val leb : n -> n -> bool **)

  let leb x y =
    match compare x y with
    | Gt -> false
    | _ -> true

  (** val ltb : n -> n -> bool **)

  let ltb x y =
    match compare x y with
    | Lt -> true
    | _ -> false

  (** val min : n -> n -> n **)

  let min n0 n' =
    match compare n0 n' with
    | Gt -> n'
    | _ -> n0

  (** val max : n -> n -> n **)

  let max n0 n' =
    match compare n0 n' with
    | Gt -> n0
    | _ -> n'

  (** val div2 : n -> n **)

  let div2 = function
  | N0 -> N0
  | Npos p0 -> (match p0 with
                | XI p -> Npos p
                | XO p -> Npos p
                | XH -> N0)

  (** val pow : n -> n -> n **)

  let pow n0 = function
  | N0 -> Npos XH
  | Npos p0 -> (match n0 with
                | N0 -> N0
                | Npos q -> Npos (Coq_Pos.pow q p0))

  (** val log2 : n -> n **)

  let log2 = function
  | N0 -> N0
  | Npos p0 ->
    (match p0 with
     | XI p -> Npos (Coq_Pos.size p)
     | XO p -> Npos (Coq_Pos.size p)
     | XH -> N0)

  (** val pos_div_eucl : positive -> n -> n * n **)

  let rec pos_div_eucl a b =
    match a with
    | XI a' ->
      let (q, r) = pos_div_eucl a' b in
      let r' = succ_double r in
      if leb b r' then ((succ_double q), (sub r' b)) else ((double q), r')
    | XO a' ->
      let (q, r) = pos_div_eucl a' b in
      let r' = double r in
      if leb b r' then ((succ_double q), (sub r' b)) else ((double q), r')
    | XH ->
      (match b with
       | N0 -> (N0, (Npos XH))
       | Npos p -> (match p with
                    | XH -> ((Npos XH), N0)
                    | _ -> (N0, (Npos XH))))

  (** val div_eucl : n -> n -> n * n **)

  let div_eucl a b =
    match a with
    | N0 -> (N0, N0)
    | Npos na -> (match b with
                  | N0 -> (N0, a)
                  | Npos _ -> pos_div_eucl na b)

  (** val div : n -> n -> n **)

  let div a b =
    fst (div_eucl a b)

  (** val modulo : n -> n -> n **)

  let modulo a b =
    snd (div_eucl a b)

  (** val coq_lor : n -> n -> n **)

  let coq_lor n0 m =
    match n0 with
    | N0 -> m
    | Npos p -> (match m with
                 | N0 -> n0
                 | Npos q -> Npos (Coq_Pos.coq_lor p q))

  (** val coq_land : n -> n -> n **)

  let coq_land n0 m =
    match n0 with
    | N0 -> N0
    | Npos p -> (match m with
                 | N0 -> N0
                 | Npos q -> Coq_Pos.coq_land p q)

  (** val coq_lxor : n -> n -> n **)

  let coq_lxor n0 m =
    match n0 with
    | N0 -> m
    | Npos p -> (match m with
                 | N0 -> n0
                 | Npos q -> Coq_Pos.coq_lxor p q)

  (** val shiftl : n -> n -> n **)

  let shiftl a n0 =
    match a with
    | N0 -> N0
    | Npos a0 -> Npos (Coq_Pos.shiftl a0 n0)

  (** val shiftr : n -> n -> n **)

  let shiftr a = function
  | N0 -> a
  | Npos p -> Coq_Pos.iter div2 a p

  (** val testbit : n -> n -> bool **)

  let testbit a n0 =
    match a with
    | N0 -> false
    | Npos p -> Coq_Pos.testbit p n0

  (** val to_nat : n -> nat **)

  let to_nat = function
  | N0 -> O
  | Npos p -> Coq_Pos.to_nat p

  (** val of_nat : nat -> n **)

  let of_nat = function
  | O -> N0
  | S n' -> Npos (Coq_Pos.of_succ_nat n')

  (** val log2_up : n -> n **)

  let log2_up a =
    match compare (Npos XH) a with
    | Lt -> succ (log2 (pred a))
    | _ -> N0
 end

(** val eqb0 : byte -> byte -> bool **)

let eqb0 a b =
  let (a0, p) = to_bits a in
  let (a1, p0) = p in
  let (a2, p1) = p0 in
  let (a3, p2) = p1 in
  let (a4, p3) = p2 in
  let (a5, p4) = p3 in
  let (a6, a7) = p4 in
  let (b0, p5) = to_bits b in
  let (b1, p6) = p5 in
  let (b2, p7) = p6 in
  let (b3, p8) = p7 in
  let (b4, p9) = p8 in
  let (b5, p10) = p9 in
  let (b6, b7) = p10 in
  (&&)
    ((&&)
      ((&&)
        ((&&)
          ((&&) ((&&) ((&&) (eqb a0 b0) (eqb a1 b1)) (eqb a2 b2)) (eqb a3 b3))
          (eqb a4 b4)) (eqb a5 b5)) (eqb a6 b6)) (eqb a7 b7)

(** val to_N : byte -> n **)

let to_N = function
| X00 -> N0
| X01 -> Npos XH
| X02 -> Npos (XO XH)
| X03 -> Npos (XI XH)
| X04 -> Npos (XO (XO XH))
| X05 -> Npos (XI (XO XH))
| X06 -> Npos (XO (XI XH))
| X07 -> Npos (XI (XI XH))
| X08 -> Npos (XO (XO (XO XH)))
| X09 -> Npos (XI (XO (XO XH)))
| X0a -> Npos (XO (XI (XO XH)))
| X0b -> Npos (XI (XI (XO XH)))
| X0c -> Npos (XO (XO (XI XH)))
| X0d -> Npos (XI (XO (XI XH)))
| X0e -> Npos (XO (XI (XI XH)))
| X0f -> Npos (XI (XI (XI XH)))
| X10 -> Npos (XO (XO (XO (XO XH))))
| X11 -> Npos (XI (XO (XO (XO XH))))
| X12 -> Npos (XO (XI (XO (XO XH))))
| X13 -> Npos (XI (XI (XO (XO XH))))
| X14 -> Npos (XO (XO (XI (XO XH))))
| X15 -> Npos (XI (XO (XI (XO XH))))
| X16 -> Npos (XO (XI (XI (XO XH))))
| X17 -> Npos (XI (XI (XI (XO XH))))
| X18 -> Npos (XO (XO (XO (XI XH))))
| X19 -> Npos (XI (XO (XO (XI XH))))
| X1a -> Npos (XO (XI (XO (XI XH))))
| X1b -> Npos (XI (XI (XO (XI XH))))
| X1c -> Npos (XO (XO (XI (XI XH))))
| X1d -> Npos (XI (XO (XI (XI XH))))
| X1e -> Npos (XO (XI (XI (XI XH))))
| X1f -> Npos (XI (XI (XI (XI XH))))
| X20 -> Npos (XO (XO (XO (XO (XO XH)))))
| X21 -> Npos (XI (XO (XO (XO (XO XH)))))
| X22 -> Npos (XO (XI (XO (XO (XO XH)))))
| X23 -> Npos (XI (XI (XO (XO (XO XH)))))
| X24 -> Npos (XO (XO (XI (XO (XO XH)))))
| X25 -> Npos (XI (XO (XI (XO (XO XH)))))
| X26 -> Npos (XO (XI (XI (XO (XO XH)))))
| X27 -> Npos (XI (XI (XI (XO (XO XH)))))
| X28 -> Npos (XO (XO (XO (XI (XO XH)))))
| X29 -> Npos (XI (XO (XO (XI (XO XH)))))
| X2a -> Npos (XO (XI (XO (XI (XO XH)))))
| X2b -> Npos (XI (XI (XO (XI (XO XH)))))
| X2c -> Npos (XO (XO (XI (XI (XO XH)))))
| X2d -> Npos (XI (XO (XI (XI (XO XH)))))
| X2e -> Npos (XO (XI (XI (XI (XO XH)))))
| X2f -> Npos (XI (XI (XI (XI (XO XH)))))
| X30 -> Npos (XO (XO (XO (XO (XI XH)))))
| X31 -> Npos (XI (XO (XO (XO (XI XH)))))
| X32 -> Npos (XO (XI (XO (XO (XI XH)))))
| X33 -> Npos (XI (XI (XO (XO (XI XH)))))
| X34 -> Npos (XO (XO (XI (XO (XI XH)))))
| X35 -> Npos (XI (XO (XI (XO (XI XH)))))
| X36 -> Npos (XO (XI (XI (XO (XI XH)))))
| X37 -> Npos (XI (XI (XI (XO (XI XH)))))
| X38 -> Npos (XO (XO (XO (XI (XI XH)))))
| X39 -> Npos (XI (XO (XO (XI (XI XH)))))
| X3a -> Npos (XO (XI (XO (XI (XI XH)))))
| X3b -> Npos (XI (XI (XO (XI (XI XH)))))
| X3c -> Npos (XO (XO (XI (XI (XI XH)))))
| X3d -> Npos (XI (XO (XI (XI (XI XH)))))
| X3e -> Npos (XO (XI (XI (XI (XI XH)))))
| X3f -> Npos (XI (XI (XI (XI (XI XH)))))
| X40 -> Npos (XO (XO (XO (XO (XO (XO XH))))))
| X41 -> Npos (XI (XO (XO (XO (XO (XO XH))))))
| X42 -> Npos (XO (XI (XO (XO (XO (XO XH))))))
| X43 -> Npos (XI (XI (XO (XO (XO (XO XH))))))
| X44 -> Npos (XO (XO (XI (XO (XO (XO XH))))))
| X45 -> Npos (XI (XO (XI (XO (XO (XO XH))))))
| X46 -> Npos (XO (XI (XI (XO (XO (XO XH))))))
| X47 -> Npos (XI (XI (XI (XO (XO (XO XH))))))
| X48 -> Npos (XO (XO (XO (XI (XO (XO XH))))))
| X49 -> Npos (XI (XO (XO (XI (XO (XO XH))))))
| X4a -> Npos (XO (XI (XO (XI (XO (XO XH))))))
| X4b -> Npos (XI (XI (XO (XI (XO (XO XH))))))
| X4c -> Npos (XO (XO (XI (XI (XO (XO XH))))))
| X4d -> Npos (XI (XO (XI (XI (XO (XO XH))))))
| X4e -> Npos (XO (XI (XI (XI (XO (XO XH))))))
| X4f -> Npos (XI (XI (XI (XI (XO (XO XH))))))
| X50 -> Npos (XO (XO (XO (XO (XI (XO XH))))))
| X51 -> Npos (XI (XO (XO (XO (XI (XO XH))))))
| X52 -> Npos (XO (XI (XO (XO (XI (XO XH))))))
| X53 -> Npos (XI (XI (XO (XO (XI (XO XH))))))
| X54 -> Npos (XO (XO (XI (XO (XI (XO XH))))))
| X55 -> Npos (XI (XO (XI (XO (XI (XO XH))))))
| X56 -> Npos (XO (XI (XI (XO (XI (XO XH))))))
| X57 -> Npos (XI (XI (XI (XO (XI (XO XH))))))
| X58 -> Npos (XO (XO (XO (XI (XI (XO XH))))))
| X59 -> Npos (XI (XO (XO (XI (XI (XO XH))))))
| X5a -> Npos (XO (XI (XO (XI (XI (XO XH))))))
| X5b -> Npos (XI (XI (XO (XI (XI (XO XH))))))
| X5c -> Npos (XO (XO (XI (XI (XI (XO XH))))))
| X5d -> Npos (XI (XO (XI (XI (XI (XO XH))))))
| X5e -> Npos (XO (XI (XI (XI (XI (XO XH))))))
| X5f -> Npos (XI (XI (XI (XI (XI (XO XH))))))
| X60 -> Npos (XO (XO (XO (XO (XO (XI XH))))))
| X61 -> Npos (XI (XO (XO (XO (XO (XI XH))))))
| X62 -> Npos (XO (XI (XO (XO (XO (XI XH))))))
| X63 -> Npos (XI (XI (XO (XO (XO (XI XH))))))
| X64 -> Npos (XO (XO (XI (XO (XO (XI XH))))))
| X65 -> Npos (XI (XO (XI (XO (XO (XI XH))))))
| X66 -> Npos (XO (XI (XI (XO (XO (XI XH))))))
| X67 -> Npos (XI (XI (XI (XO (XO (XI XH))))))
| X68 -> Npos (XO (XO (XO (XI (XO (XI XH))))))
| X69 -> Npos (XI (XO (XO (XI (XO (XI XH))))))
| X6a -> Npos (XO (XI (XO (XI (XO (XI XH))))))
| X6b -> Npos (XI (XI (XO (XI (XO (XI XH))))))
| X6c -> Npos (XO (XO (XI (XI (XO (XI XH))))))
| X6d -> Npos (XI (XO (XI (XI (XO (XI XH))))))
| X6e -> Npos (XO (XI (XI (XI (XO (XI XH))))))
| X6f -> Npos (XI (XI (XI (XI (XO (XI XH))))))
| X70 -> Npos (XO (XO (XO (XO (XI (XI XH))))))
| X71 -> Npos (XI (XO (XO (XO (XI (XI XH))))))
| X72 -> Npos (XO (XI (XO (XO (XI (XI XH))))))
| X73 -> Npos (XI (XI (XO (XO (XI (XI XH))))))
| X74 -> Npos (XO (XO (XI (XO (XI (XI XH))))))
| X75 -> Npos (XI (XO (XI (XO (XI (XI XH))))))
| X76 -> Npos (XO (XI (XI (XO (XI (XI XH))))))
| X77 -> Npos (XI (XI (XI (XO (XI (XI XH))))))
| X78 -> Npos (XO (XO (XO (XI (XI (XI XH))))))
| X79 -> Npos (XI (XO (XO (XI (XI (XI XH))))))
| X7a -> Npos (XO (XI (XO (XI (XI (XI XH))))))
| X7b -> Npos (XI (XI (XO (XI (XI (XI XH))))))
| X7c -> Npos (XO (XO (XI (XI (XI (XI XH))))))
| X7d -> Npos (XI (XO (XI (XI (XI (XI XH))))))
| X7e -> Npos (XO (XI (XI (XI (XI (XI XH))))))
| X7f -> Npos (XI (XI (XI (XI (XI (XI XH))))))
| X80 -> Npos (XO (XO (XO (XO (XO (XO (XO XH)))))))
| X81 -> Npos (XI (XO (XO (XO (XO (XO (XO XH)))))))
| X82 -> Npos (XO (XI (XO (XO (XO (XO (XO XH)))))))
| X83 -> Npos (XI (XI (XO (XO (XO (XO (XO XH)))))))
| X84 -> Npos (XO (XO (XI (XO (XO (XO (XO XH)))))))
| X85 -> Npos (XI (XO (XI (XO (XO (XO (XO XH)))))))
| X86 -> Npos (XO (XI (XI (XO (XO (XO (XO XH)))))))
| X87 -> Npos (XI (XI (XI (XO (XO (XO (XO XH)))))))
| X88 -> Npos (XO (XO (XO (XI (XO (XO (XO XH)))))))
| X89 -> Npos (XI (XO (XO (XI (XO (XO (XO XH)))))))
| X8a -> Npos (XO (XI (XO (XI (XO (XO (XO XH)))))))
| X8b -> Npos (XI (XI (XO (XI (XO (XO (XO XH)))))))
| X8c -> Npos (XO (XO (XI (XI (XO (XO (XO XH)))))))
| X8d -> Npos (XI (XO (XI (XI (XO (XO (XO XH)))))))
| X8e -> Npos (XO (XI (XI (XI (XO (XO (XO XH)))))))
| X8f -> Npos (XI (XI (XI (XI (XO (XO (XO XH)))))))
| X90 -> Npos (XO (XO (XO (XO (XI (XO (XO XH)))))))
| X91 -> Npos (XI (XO (XO (XO (XI (XO (XO XH)))))))
| X92 -> Npos (XO (XI (XO (XO (XI (XO (XO XH)))))))
| X93 -> Npos (XI (XI (XO (XO (XI (XO (XO XH)))))))
| X94 -> Npos (XO (XO (XI (XO (XI (XO (XO XH)))))))
| X95 -> Npos (XI (XO (XI (XO (XI (XO (XO XH)))))))
| X96 -> Npos (XO (XI (XI (XO (XI (XO (XO XH)))))))
| X97 -> Npos (XI (XI (XI (XO (XI (XO (XO XH)))))))
| X98 -> Npos (XO (XO (XO (XI (XI (XO (XO XH)))))))
| X99 -> Npos (XI (XO (XO (XI (XI (XO (XO XH)))))))
| X9a -> Npos (XO (XI (XO (XI (XI (XO (XO XH)))))))
| X9b -> Npos (XI (XI (XO (XI (XI (XO (XO XH)))))))
| X9c -> Npos (XO (XO (XI (XI (XI (XO (XO XH)))))))
| X9d -> Npos (XI (XO (XI (XI (XI (XO (XO XH)))))))
| X9e -> Npos (XO (XI (XI (XI (XI (XO (XO XH)))))))
| X9f -> Npos (XI (XI (XI (XI (XI (XO (XO XH)))))))
| Xa0 -> Npos (XO (XO (XO (XO (XO (XI (XO XH)))))))
| Xa1 -> Npos (XI (XO (XO (XO (XO (XI (XO XH)))))))
| Xa2 -> Npos (XO (XI (XO (XO (XO (XI (XO XH)))))))
| Xa3 -> Npos (XI (XI (XO (XO (XO (XI (XO XH)))))))
| Xa4 -> Npos (XO (XO (XI (XO (XO (XI (XO XH)))))))
| Xa5 -> Npos (XI (XO (XI (XO (XO (XI (XO XH)))))))
| Xa6 -> Npos (XO (XI (XI (XO (XO (XI (XO XH)))))))
| Xa7 -> Npos (XI (XI (XI (XO (XO (XI (XO XH)))))))
| Xa8 -> Npos (XO (XO (XO (XI (XO (XI (XO XH)))))))
| Xa9 -> Npos (XI (XO (XO (XI (XO (XI (XO XH)))))))
| Xaa -> Npos (XO (XI (XO (XI (XO (XI (XO XH)))))))
| Xab -> Npos (XI (XI (XO (XI (XO (XI (XO XH)))))))
| Xac -> Npos (XO (XO (XI (XI (XO (XI (XO XH)))))))
| Xad -> Npos (XI (XO (XI (XI (XO (XI (XO XH)))))))
| Xae -> Npos (XO (XI (XI (XI (XO (XI (XO XH)))))))
| Xaf -> Npos (XI (XI (XI (XI (XO (XI (XO XH)))))))
| Xb0 -> Npos (XO (XO (XO (XO (XI (XI (XO XH)))))))
| Xb1 -> Npos (XI (XO (XO (XO (XI (XI (XO XH)))))))
| Xb2 -> Npos (XO (XI (XO (XO (XI (XI (XO XH)))))))
| Xb3 -> Npos (XI (XI (XO (XO (XI (XI (XO XH)))))))
| Xb4 -> Npos (XO (XO (XI (XO (XI (XI (XO XH)))))))
| Xb5 -> Npos (XI (XO (XI (XO (XI (XI (XO XH)))))))
| Xb6 -> Npos (XO (XI (XI (XO (XI (XI (XO XH)))))))
| Xb7 -> Npos (XI (XI (XI (XO (XI (XI (XO XH)))))))
| Xb8 -> Npos (XO (XO (XO (XI (XI (XI (XO XH)))))))
| Xb9 -> Npos (XI (XO (XO (XI (XI (XI (XO XH)))))))
| Xba -> Npos (XO (XI (XO (XI (XI (XI (XO XH)))))))
| Xbb -> Npos (XI (XI (XO (XI (XI (XI (XO XH)))))))
| Xbc -> Npos (XO (XO (XI (XI (XI (XI (XO XH)))))))
| Xbd -> Npos (XI (XO (XI (XI (XI (XI (XO XH)))))))
| Xbe -> Npos (XO (XI (XI (XI (XI (XI (XO XH)))))))
| Xbf -> Npos (XI (XI (XI (XI (XI (XI (XO XH)))))))
| Xc0 -> Npos (XO (XO (XO (XO (XO (XO (XI XH)))))))
| Xc1 -> Npos (XI (XO (XO (XO (XO (XO (XI XH)))))))
| Xc2 -> Npos (XO (XI (XO (XO (XO (XO (XI XH)))))))
| Xc3 -> Npos (XI (XI (XO (XO (XO (XO (XI XH)))))))
| Xc4 -> Npos (XO (XO (XI (XO (XO (XO (XI XH)))))))
| Xc5 -> Npos (XI (XO (XI (XO (XO (XO (XI XH)))))))
| Xc6 -> Npos (XO (XI (XI (XO (XO (XO (XI XH)))))))
| Xc7 -> Npos (XI (XI (XI (XO (XO (XO (XI XH)))))))
| Xc8 -> Npos (XO (XO (XO (XI (XO (XO (XI XH)))))))
| Xc9 -> Npos (XI (XO (XO (XI (XO (XO (XI XH)))))))
| Xca -> Npos (XO (XI (XO (XI (XO (XO (XI XH)))))))
| Xcb -> Npos (XI (XI (XO (XI (XO (XO (XI XH)))))))
| Xcc -> Npos (XO (XO (XI (XI (XO (XO (XI XH)))))))
| Xcd -> Npos (XI (XO (XI (XI (XO (XO (XI XH)))))))
| Xce -> Npos (XO (XI (XI (XI (XO (XO (XI XH)))))))
| Xcf -> Npos (XI (XI (XI (XI (XO (XO (XI XH)))))))
| Xd0 -> Npos (XO (XO (XO (XO (XI (XO (XI XH)))))))
| Xd1 -> Npos (XI (XO (XO (XO (XI (XO (XI XH)))))))
| Xd2 -> Npos (XO (XI (XO (XO (XI (XO (XI XH)))))))
| Xd3 -> Npos (XI (XI (XO (XO (XI (XO (XI XH)))))))
| Xd4 -> Npos (XO (XO (XI (XO (XI (XO (XI XH)))))))
| Xd5 -> Npos (XI (XO (XI (XO (XI (XO (XI XH)))))))
| Xd6 -> Npos (XO (XI (XI (XO (XI (XO (XI XH)))))))
| Xd7 -> Npos (XI (XI (XI (XO (XI (XO (XI XH)))))))
| Xd8 -> Npos (XO (XO (XO (XI (XI (XO (XI XH)))))))
| Xd9 -> Npos (XI (XO (XO (XI (XI (XO (XI XH)))))))
| Xda -> Npos (XO (XI (XO (XI (XI (XO (XI XH)))))))
| Xdb -> Npos (XI (XI (XO (XI (XI (XO (XI XH)))))))
| Xdc -> Npos (XO (XO (XI (XI (XI (XO (XI XH)))))))
| Xdd -> Npos (XI (XO (XI (XI (XI (XO (XI XH)))))))
| Xde -> Npos (XO (XI (XI (XI (XI (XO (XI XH)))))))
| Xdf -> Npos (XI (XI (XI (XI (XI (XO (XI XH)))))))
| Xe0 -> Npos (XO (XO (XO (XO (XO (XI (XI XH)))))))
| Xe1 -> Npos (XI (XO (XO (XO (XO (XI (XI XH)))))))
| Xe2 -> Npos (XO (XI (XO (XO (XO (XI (XI XH)))))))
| Xe3 -> Npos (XI (XI (XO (XO (XO (XI (XI XH)))))))
| Xe4 -> Npos (XO (XO (XI (XO (XO (XI (XI XH)))))))
| Xe5 -> Npos (XI (XO (XI (XO (XO (XI (XI XH)))))))
| Xe6 -> Npos (XO (XI (XI (XO (XO (XI (XI XH)))))))
| Xe7 -> Npos (XI (XI (XI (XO (XO (XI (XI XH)))))))
| Xe8 -> Npos (XO (XO (XO (XI (XO (XI (XI XH)))))))
| Xe9 -> Npos (XI (XO (XO (XI (XO (XI (XI XH)))))))
| Xea -> Npos (XO (XI (XO (XI (XO (XI (XI XH)))))))
| Xeb -> Npos (XI (XI (XO (XI (XO (XI (XI XH)))))))
| Xec -> Npos (XO (XO (XI (XI (XO (XI (XI XH)))))))
| Xed -> Npos (XI (XO (XI (XI (XO (XI (XI XH)))))))
| Xee -> Npos (XO (XI (XI (XI (XO (XI (XI XH)))))))
| Xef -> Npos (XI (XI (XI (XI (XO (XI (XI XH)))))))
| Xf0 -> Npos (XO (XO (XO (XO (XI (XI (XI XH)))))))
| Xf1 -> Npos (XI (XO (XO (XO (XI (XI (XI XH)))))))
| Xf2 -> Npos (XO (XI (XO (XO (XI (XI (XI XH)))))))
| Xf3 -> Npos (XI (XI (XO (XO (XI (XI (XI XH)))))))
| Xf4 -> Npos (XO (XO (XI (XO (XI (XI (XI XH)))))))
| Xf5 -> Npos (XI (XO (XI (XO (XI (XI (XI XH)))))))
| Xf6 -> Npos (XO (XI (XI (XO (XI (XI (XI XH)))))))
| Xf7 -> Npos (XI (XI (XI (XO (XI (XI (XI XH)))))))
| Xf8 -> Npos (XO (XO (XO (XI (XI (XI (XI XH)))))))
| Xf9 -> Npos (XI (XO (XO (XI (XI (XI (XI XH)))))))
| Xfa -> Npos (XO (XI (XO (XI (XI (XI (XI XH)))))))
| Xfb -> Npos (XI (XI (XO (XI (XI (XI (XI XH)))))))
| Xfc -> Npos (XO (XO (XI (XI (XI (XI (XI XH)))))))
| Xfd -> Npos (XI (XO (XI (XI (XI (XI (XI XH)))))))
| Xfe -> Npos (XO (XI (XI (XI (XI (XI (XI XH)))))))
| Xff -> Npos (XI (XI (XI (XI (XI (XI (XI XH)))))))

(** val of_N : n -> byte option **)

let of_N = function
| N0 -> Some X00
| Npos p ->
  (match p with
   | XI p0 ->
     (match p0 with
      | XI p1 ->
        (match p1 with
         | XI p2 ->
           (match p2 with
            | XI p3 ->
              (match p3 with
               | XI p4 ->
                 (match p4 with
                  | XI p5 ->
                    (match p5 with
                     | XI p6 -> (match p6 with
                                 | XH -> Some Xff
                                 | _ -> None)
                     | XO p6 -> (match p6 with
                                 | XH -> Some Xbf
                                 | _ -> None)
                     | XH -> Some X7f)
                  | XO p5 ->
                    (match p5 with
                     | XI p6 -> (match p6 with
                                 | XH -> Some Xdf
                                 | _ -> None)
                     | XO p6 -> (match p6 with
                                 | XH -> Some X9f
                                 | _ -> None)
                     | XH -> Some X5f)
                  | XH -> Some X3f)
               | XO p4 ->
                 (match p4 with
                  | XI p5 ->
                    (match p5 with
                     | XI p6 -> (match p6 with
                                 | XH -> Some Xef
                                 | _ -> None)
                     | XO p6 -> (match p6 with
                                 | XH -> Some Xaf
                                 | _ -> None)
                     | XH -> Some X6f)
                  | XO p5 ->
                    (match p5 with
                     | XI p6 -> (match p6 with
                                 | XH -> Some Xcf
                                 | _ -> None)
                     | XO p6 -> (match p6 with
                                 | XH -> Some X8f
                                 | _ -> None)
                     | XH -> Some X4f)
                  | XH -> Some X2f)
               | XH -> Some X1f)
            | XO p3 ->
              (match p3 with
               | XI p4 ->
                 (match p4 with
                  | XI p5 ->
                    (match p5 with
                     | XI p6 -> (match p6 with
                                 | XH -> Some Xf7
                                 | _ -> None)
                     | XO p6 -> (match p6 with
                                 | XH -> Some Xb7
                                 | _ -> None)
                     | XH -> Some X77)
                  | XO p5 ->
                    (match p5 with
                     | XI p6 -> (match p6 with
                                 | XH -> Some Xd7
                                 | _ -> None)
                     | XO p6 -> (match p6 with
                                 | XH -> Some X97
                                 | _ -> None)
                     | XH -> Some X57)
                  | XH -> Some X37)
               | XO p4 ->
                 (match p4 with
                  | XI p5 ->
                    (match p5 with
                     | XI p6 -> (match p6 with
                                 | XH -> Some Xe7
                                 | _ -> None)
                     | XO p6 -> (match p6 with
                                 | XH -> Some Xa7
                                 | _ -> None)
                     | XH -> Some X67)
                  | XO p5 ->
                    (match p5 with
                     | XI p6 -> (match p6 with
                                 | XH -> Some Xc7
                                 | _ -> None)
                     | XO p6 -> (match p6 with
                                 | XH -> Some X87
                                 | _ -> None)
                     | XH -> Some X47)
                  | XH -> Some X27)
               | XH -> Some X17)
            | XH -> Some X0f)
         | XO p2 ->
           (match p2 with
            | XI p3 ->
              (match p3 with
               | XI p4 ->
                 (match p4 with
                  | XI p5 ->
                    (match p5 with
                     | XI p6 -> (match p6 with
                                 | XH -> Some Xfb
                                 | _ -> None)
                     | XO p6 -> (match p6 with
                                 | XH -> Some Xbb
                                 | _ -> None)
                     | XH -> Some X7b)
                  | XO p5 ->
                    (match p5 with
                     | XI p6 -> (match p6 with
                                 | XH -> Some Xdb
                                 | _ -> None)
                     | XO p6 -> (match p6 with
                                 | XH -> Some X9b
                                 | _ -> None)
                     | XH -> Some X5b)
                  | XH -> Some X3b)
               | XO p4 ->
                 (match p4 with
                  | XI p5 ->
                    (match p5 with
                     | XI p6 -> (match p6 with
                                 | XH -> Some Xeb
                                 | _ -> None)
                     | XO p6 -> (match p6 with
                                 | XH -> Some Xab
                                 | _ -> None)
                     | XH -> Some X6b)
                  | XO p5 ->
                    (match p5 with
                     | XI p6 -> (match p6 with
                                 | XH -> Some Xcb
                                 | _ -> None)
                     | XO p6 -> (match p6 with
                                 | XH -> Some X8b
                                 | _ -> None)
                     | XH -> Some X4b)
                  | XH -> Some X2b)
               | XH -> Some X1b)
            | XO p3 ->
              (match p3 with
               | XI p4 ->
                 (match p4 with
                  | XI p5 ->
                    (match p5 with
                     | XI p6 -> (match p6 with
                                 | XH -> Some Xf3
                                 | _ -> None)
                     | XO p6 -> (match p6 with
                                 | XH -> Some Xb3
                                 | _ -> None)
                     | XH -> Some X73)
                  | XO p5 ->
                    (match p5 with
                     | XI p6 -> (match p6 with
                                 | XH -> Some Xd3
                                 | _ -> None)
                     | XO p6 -> (match p6 with
                                 | XH -> Some X93
                                 | _ -> None)
                     | XH -> Some X53)
                  | XH -> Some X33)
               | XO p4 ->
                 (match p4 with
                  | XI p5 ->
                    (match p5 with
                     | XI p6 -> (match p6 with
                                 | XH -> Some Xe3
                                 | _ -> None)
                     | XO p6 -> (match p6 with
                                 | XH -> Some Xa3
                                 | _ -> None)
                     | XH -> Some X63)
                  | XO p5 ->
                    (match p5 with
                     | XI p6 -> (match p6 with
                                 | XH -> Some Xc3
                                 | _ -> None)
                     | XO p6 -> (match p6 with
                                 | XH -> Some X83
                                 | _ -> None)
                     | XH -> Some X43)
                  | XH -> Some X23)
               | XH -> Some X13)
            | XH -> Some X0b)
         | XH -> Some X07)
      | XO p1 ->
        (match p1 with
         | XI p2 ->
           (match p2 with
            | XI p3 ->
              (match p3 with
               | XI p4 ->
                 (match p4 with
                  | XI p5 ->
                    (match p5 with
                     | XI p6 -> (match p6 with
                                 | XH -> Some Xfd
                                 | _ -> None)
                     | XO p6 -> (match p6 with
                                 | XH -> Some Xbd
                                 | _ -> None)
                     | XH -> Some X7d)
                  | XO p5 ->
                    (match p5 with
                     | XI p6 -> (match p6 with
                                 | XH -> Some Xdd
                                 | _ -> None)
                     | XO p6 -> (match p6 with
                                 | XH -> Some X9d
                                 | _ -> None)
                     | XH -> Some X5d)
                  | XH -> Some X3d)
               | XO p4 ->
                 (match p4 with
                  | XI p5 ->
                    (match p5 with
                     | XI p6 -> (match p6 with
                                 | XH -> Some Xed
                                 | _ -> None)
                     | XO p6 -> (match p6 with
                                 | XH -> Some Xad
                                 | _ -> None)
                     | XH -> Some X6d)
                  | XO p5 ->
                    (match p5 with
                     | XI p6 -> (match p6 with
                                 | XH -> Some Xcd
                                 | _ -> None)
                     | XO p6 -> (match p6 with
                                 | XH -> Some X8d
                                 | _ -> None)
                     | XH -> Some X4d)
                  | XH -> Some X2d)
               | XH -> Some X1d)
            | XO p3 ->
              (match p3 with
               | XI p4 ->
                 (match p4 with
                  | XI p5 ->
                    (match p5 with
                     | XI p6 -> (match p6 with
                                 | XH -> Some Xf5
                                 | _ -> None)
                     | XO p6 -> (match p6 with
                                 | XH -> Some Xb5
                                 | _ -> None)
                     | XH -> Some X75)
                  | XO p5 ->
                    (match p5 with
                     | XI p6 -> (match p6 with
                                 | XH -> Some Xd5
                                 | _ -> None)
                     | XO p6 -> (match p6 with
                                 | XH -> Some X95
                                 | _ -> None)
                     | XH -> Some X55)
                  | XH -> Some X35)
               | XO p4 ->
                 (match p4 with
                  | XI p5 ->
                    (match p5 with
                     | XI p6 -> (match p6 with
                                 | XH -> Some Xe5
                                 | _ -> None)
                     | XO p6 -> (match p6 with
                                 | XH -> Some Xa5
                                 | _ -> None)
                     | XH -> Some X65)
                  | XO p5 ->
                    (match p5 with
                     | XI p6 -> (match p6 with
                                 | XH -> Some Xc5
                                 | _ -> None)
                     | XO p6 -> (match p6 with
                                 | XH -> Some X85
                                 | _ -> None)
                     | XH -> Some X45)
                  | XH -> Some X25)
               | XH -> Some X15)
            | XH -> Some X0d)
         | XO p2 ->
           (match p2 with
            | XI p3 ->
              (match p3 with
               | XI p4 ->
                 (match p4 with
                  | XI p5 ->
                    (match p5 with
                     | XI p6 -> (match p6 with
                                 | XH -> Some Xf9
                                 | _ -> None)
                     | XO p6 -> (match p6 with
                                 | XH -> Some Xb9
                                 | _ -> None)
                     | XH -> Some X79)
                  | XO p5 ->
                    (match p5 with
                     | XI p6 -> (match p6 with
                                 | XH -> Some Xd9
                                 | _ -> None)
                     | XO p6 -> (match p6 with
                                 | XH -> Some X99
                                 | _ -> None)
                     | XH -> Some X59)
                  | XH -> Some X39)
               | XO p4 ->
                 (match p4 with
                  | XI p5 ->
                    (match p5 with
                     | XI p6 -> (match p6 with
                                 | XH -> Some Xe9
                                 | _ -> None)
                     | XO p6 -> (match p6 with
                                 | XH -> Some Xa9
                                 | _ -> None)
                     | XH -> Some X69)
                  | XO p5 ->
                    (match p5 with
                     | XI p6 -> (match p6 with
                                 | XH -> Some Xc9
                                 | _ -> None)
                     | XO p6 -> (match p6 with
                                 | XH -> Some X89
                                 | _ -> None)
                     | XH -> Some X49)
                  | XH -> Some X29)
               | XH -> Some X19)
            | XO p3 ->
              (match p3 with
               | XI p4 ->
                 (match p4 with
                  | XI p5 ->
                    (match p5 with
                     | XI p6 -> (match p6 with
                                 | XH -> Some Xf1
                                 | _ -> None)
                     | XO p6 -> (match p6 with
                                 | XH -> Some Xb1
                                 | _ -> None)
                     | XH -> Some X71)
                  | XO p5 ->
                    (match p5 with
                     | XI p6 -> (match p6 with
                                 | XH -> Some Xd1
                                 | _ -> None)
                     | XO p6 -> (match p6 with
                                 | XH -> Some X91
                                 | _ -> None)
                     | XH -> Some X51)
                  | XH -> Some X31)
               | XO p4 ->
                 (match p4 with
                  | XI p5 ->
                    (match p5 with
                     | XI p6 -> (match p6 with
                                 | XH -> Some Xe1
                                 | _ -> None)
                     | XO p6 -> (match p6 with
                                 | XH -> Some Xa1
                                 | _ -> None)
                     | XH -> Some X61)
                  | XO p5 ->
                    (match p5 with
                     | XI p6 -> (match p6 with
                                 | XH -> Some Xc1
                                 | _ -> None)
                     | XO p6 -> (match p6 with
                                 | XH -> Some X81
                                 | _ -> None)
                     | XH -> Some X41)
                  | XH -> Some X21)
               | XH -> Some X11)
            | XH -> Some X09)
         | XH -> Some X05)
      | XH -> Some X03)
   | XO p0 ->
     (match p0 with
      | XI p1 ->
        (match p1 with
         | XI p2 ->
           (match p2 with
            | XI p3 ->
              (match p3 with
               | XI p4 ->
                 (match p4 with
                  | XI p5 ->
                    (match p5 with
                     | XI p6 -> (match p6 with
                                 | XH -> Some Xfe
                                 | _ -> None)
                     | XO p6 -> (match p6 with
                                 | XH -> Some Xbe
                                 | _ -> None)
                     | XH -> Some X7e)
                  | XO p5 ->
                    (match p5 with
                     | XI p6 -> (match p6 with
                                 | XH -> Some Xde
                                 | _ -> None)
                     | XO p6 -> (match p6 with
                                 | XH -> Some X9e
                                 | _ -> None)
                     | XH -> Some X5e)
                  | XH -> Some X3e)
               | XO p4 ->
                 (match p4 with
                  | XI p5 ->
                    (match p5 with
                     | XI p6 -> (match p6 with
                                 | XH -> Some Xee
                                 | _ -> None)
                     | XO p6 -> (match p6 with
                                 | XH -> Some Xae
                                 | _ -> None)
                     | XH -> Some X6e)
                  | XO p5 ->
                    (match p5 with
                     | XI p6 -> (match p6 with
                                 | XH -> Some Xce
                                 | _ -> None)
                     | XO p6 -> (match p6 with
                                 | XH -> Some X8e
                                 | _ -> None)
                     | XH -> Some X4e)
                  | XH -> Some X2e)
               | XH -> Some X1e)
            | XO p3 ->
              (match p3 with
               | XI p4 ->
                 (match p4 with
                  | XI p5 ->
                    (match p5 with
                     | XI p6 -> (match p6 with
                                 | XH -> Some Xf6
                                 | _ -> None)
                     | XO p6 -> (match p6 with
                                 | XH -> Some Xb6
                                 | _ -> None)
                     | XH -> Some X76)
                  | XO p5 ->
                    (match p5 with
                     | XI p6 -> (match p6 with
                                 | XH -> Some Xd6
                                 | _ -> None)
                     | XO p6 -> (match p6 with
                                 | XH -> Some X96
                                 | _ -> None)
                     | XH -> Some X56)
                  | XH -> Some X36)
               | XO p4 ->
                 (match p4 with
                  | XI p5 ->
                    (match p5 with
                     | XI p6 -> (match p6 with
                                 | XH -> Some Xe6
                                 | _ -> None)
                     | XO p6 -> (match p6 with
                                 | XH -> Some Xa6
                                 | _ -> None)
                     | XH -> Some X66)
                  | XO p5 ->
                    (match p5 with
                     | XI p6 -> (match p6 with
                                 | XH -> Some Xc6
                                 | _ -> None)
                     | XO p6 -> (match p6 with
                                 | XH -> Some X86
                                 | _ -> None)
                     | XH -> Some X46)
                  | XH -> Some X26)
               | XH -> Some X16)
            | XH -> Some X0e)
         | XO p2 ->
           (match p2 with
            | XI p3 ->
              (match p3 with
               | XI p4 ->
                 (match p4 with
                  | XI p5 ->
                    (match p5 with
                     | XI p6 -> (match p6 with
                                 | XH -> Some Xfa
                                 | _ -> None)
                     | XO p6 -> (match p6 with
                                 | XH -> Some Xba
                                 | _ -> None)
                     | XH -> Some X7a)
                  | XO p5 ->
                    (match p5 with
                     | XI p6 -> (match p6 with
                                 | XH -> Some Xda
                                 | _ -> None)
                     | XO p6 -> (match p6 with
                                 | XH -> Some X9a
                                 | _ -> None)
                     | XH -> Some X5a)
                  | XH -> Some X3a)
               | XO p4 ->
                 (match p4 with
                  | XI p5 ->
                    (match p5 with
                     | XI p6 -> (match p6 with
                                 | XH -> Some Xea
                                 | _ -> None)
                     | XO p6 -> (match p6 with
                                 | XH -> Some Xaa
                                 | _ -> None)
                     | XH -> Some X6a)
                  | XO p5 ->
                    (match p5 with
                     | XI p6 -> (match p6 with
                                 | XH -> Some Xca
                                 | _ -> None)
                     | XO p6 -> (match p6 with
                                 | XH -> Some X8a
                                 | _ -> None)
                     | XH -> Some X4a)
                  | XH -> Some X2a)
               | XH -> Some X1a)
            | XO p3 ->
              (match p3 with
               | XI p4 ->
                 (match p4 with
                  | XI p5 ->
                    (match p5 with
                     | XI p6 -> (match p6 with
                                 | XH -> Some Xf2
                                 | _ -> None)
                     | XO p6 -> (match p6 with
                                 | XH -> Some Xb2
                                 | _ -> None)
                     | XH -> Some X72)
                  | XO p5 ->
                    (match p5 with
                     | XI p6 -> (match p6 with
                                 | XH -> Some Xd2
                                 | _ -> None)
                     | XO p6 -> (match p6 with
                                 | XH -> Some X92
                                 | _ -> None)
                     | XH -> Some X52)
                  | XH -> Some X32)
               | XO p4 ->
                 (match p4 with
                  | XI p5 ->
                    (match p5 with
                     | XI p6 -> (match p6 with
                                 | XH -> Some Xe2
                                 | _ -> None)
                     | XO p6 -> (match p6 with
                                 | XH -> Some Xa2
                                 | _ -> None)
                     | XH -> Some X62)
                  | XO p5 ->
                    (match p5 with
                     | XI p6 -> (match p6 with
                                 | XH -> Some Xc2
                                 | _ -> None)
                     | XO p6 -> (match p6 with
                                 | XH -> Some X82
                                 | _ -> None)
                     | XH -> Some X42)
                  | XH -> Some X22)
               | XH -> Some X12)
            | XH -> Some X0a)
         | XH -> Some X06)
      | XO p1 ->
        (match p1 with
         | XI p2 ->
           (match p2 with
            | XI p3 ->
              (match p3 with
               | XI p4 ->
                 (match p4 with
                  | XI p5 ->
                    (match p5 with
                     | XI p6 -> (match p6 with
                                 | XH -> Some Xfc
                                 | _ -> None)
                     | XO p6 -> (match p6 with
                                 | XH -> Some Xbc
                                 | _ -> None)
                     | XH -> Some X7c)
                  | XO p5 ->
                    (match p5 with
                     | XI p6 -> (match p6 with
                                 | XH -> Some Xdc
                                 | _ -> None)
                     | XO p6 -> (match p6 with
                                 | XH -> Some X9c
                                 | _ -> None)
                     | XH -> Some X5c)
                  | XH -> Some X3c)
               | XO p4 ->
                 (match p4 with
                  | XI p5 ->
                    (match p5 with
                     | XI p6 -> (match p6 with
                                 | XH -> Some Xec
                                 | _ -> None)
                     | XO p6 -> (match p6 with
                                 | XH -> Some Xac
                                 | _ -> None)
                     | XH -> Some X6c)
                  | XO p5 ->
                    (match p5 with
                     | XI p6 -> (match p6 with
                                 | XH -> Some Xcc
                                 | _ -> None)
                     | XO p6 -> (match p6 with
                                 | XH -> Some X8c
                                 | _ -> None)
                     | XH -> Some X4c)
                  | XH -> Some X2c)
               | XH -> Some X1c)
            | XO p3 ->
              (match p3 with
               | XI p4 ->
                 (match p4 with
                  | XI p5 ->
                    (match p5 with
                     | XI p6 -> (match p6 with
                                 | XH -> Some Xf4
                                 | _ -> None)
                     | XO p6 -> (match p6 with
                                 | XH -> Some Xb4
                                 | _ -> None)
                     | XH -> Some X74)
                  | XO p5 ->
                    (match p5 with
                     | XI p6 -> (match p6 with
                                 | XH -> Some Xd4
                                 | _ -> None)
                     | XO p6 -> (match p6 with
                                 | XH -> Some X94
                                 | _ -> None)
                     | XH -> Some X54)
                  | XH -> Some X34)
               | XO p4 ->
                 (match p4 with
                  | XI p5 ->
                    (match p5 with
                     | XI p6 -> (match p6 with
                                 | XH -> Some Xe4
                                 | _ -> None)
                     | XO p6 -> (match p6 with
                                 | XH -> Some Xa4
                                 | _ -> None)
                     | XH -> Some X64)
                  | XO p5 ->
                    (match p5 with
                     | XI p6 -> (match p6 with
                                 | XH -> Some Xc4
                                 | _ -> None)
                     | XO p6 -> (match p6 with
                                 | XH -> Some X84
                                 | _ -> None)
                     | XH -> Some X44)
                  | XH -> Some X24)
               | XH -> Some X14)
            | XH -> Some X0c)
         | XO p2 ->
           (match p2 with
            | XI p3 ->
              (match p3 with
               | XI p4 ->
                 (match p4 with
                  | XI p5 ->
                    (match p5 with
                     | XI p6 -> (match p6 with
                                 | XH -> Some Xf8
                                 | _ -> None)
                     | XO p6 -> (match p6 with
                                 | XH -> Some Xb8
                                 | _ -> None)
                     | XH -> Some X78)
                  | XO p5 ->
                    (match p5 with
                     | XI p6 -> (match p6 with
                                 | XH -> Some Xd8
                                 | _ -> None)
                     | XO p6 -> (match p6 with
                                 | XH -> Some X98
                                 | _ -> None)
                     | XH -> Some X58)
                  | XH -> Some X38)
               | XO p4 ->
                 (match p4 with
                  | XI p5 ->
                    (match p5 with
                     | XI p6 -> (match p6 with
                                 | XH -> Some Xe8
                                 | _ -> None)
                     | XO p6 -> (match p6 with
                                 | XH -> Some Xa8
                                 | _ -> None)
                     | XH -> Some X68)
                  | XO p5 ->
                    (match p5 with
                     | XI p6 -> (match p6 with
                                 | XH -> Some Xc8
                                 | _ -> None)
                     | XO p6 -> (match p6 with
                                 | XH -> Some X88
                                 | _ -> None)
                     | XH -> Some X48)
                  | XH -> Some X28)
               | XH -> Some X18)
            | XO p3 ->
              (match p3 with
               | XI p4 ->
                 (match p4 with
                  | XI p5 ->
                    (match p5 with
                     | XI p6 -> (match p6 with
                                 | XH -> Some Xf0
                                 | _ -> None)
                     | XO p6 -> (match p6 with
                                 | XH -> Some Xb0
                                 | _ -> None)
                     | XH -> Some X70)
                  | XO p5 ->
                    (match p5 with
                     | XI p6 -> (match p6 with
                                 | XH -> Some Xd0
                                 | _ -> None)
                     | XO p6 -> (match p6 with
                                 | XH -> Some X90
                                 | _ -> None)
                     | XH -> Some X50)
                  | XH -> Some X30)
               | XO p4 ->
                 (match p4 with
                  | XI p5 ->
                    (match p5 with
                     | XI p6 -> (match p6 with
                                 | XH -> Some Xe0
                                 | _ -> None)
                     | XO p6 -> (match p6 with
                                 | XH -> Some Xa0
                                 | _ -> None)
                     | XH -> Some X60)
                  | XO p5 ->
                    (match p5 with
                     | XI p6 -> (match p6 with
                                 | XH -> Some Xc0
                                 | _ -> None)
                     | XO p6 -> (match p6 with
                                 | XH -> Some X80
                                 | _ -> None)
                     | XH -> Some X40)
                  | XH -> Some X20)
               | XH -> Some X10)
            | XH -> Some X08)
         | XH -> Some X04)
      | XH -> Some X02)
   | XH -> Some X01)

module Z =
 struct
  (** val double : z -> z **)

  let double = function
  | Z0 -> Z0
  | Zpos p -> Zpos (XO p)
  | Zneg p -> Zneg (XO p)

  (** val succ_double : z -> z **)

  let succ_double = function
  | Z0 -> Zpos XH
  | Zpos p -> Zpos (XI p)
  | Zneg p -> Zneg (Coq_Pos.pred_double p)

  (** val pred_double : z -> z **)

  let pred_double = function
  | Z0 -> Zneg XH
  | Zpos p -> Zpos (Coq_Pos.pred_double p)
  | Zneg p -> Zneg (XI p)

  (** val pos_sub : positive -> positive -> z **)

  let rec pos_sub x y =
    match x with
    | XI p ->
      (match y with
       | XI q -> double (pos_sub p q)
       | XO q -> succ_double (pos_sub p q)
       | XH -> Zpos (XO p))
    | XO p ->
      (match y with
       | XI q -> pred_double (pos_sub p q)
       | XO q -> double (pos_sub p q)
       | XH -> Zpos (Coq_Pos.pred_double p))
    | XH ->
      (match y with
       | XI q -> Zneg (XO q)
       | XO q -> Zneg (Coq_Pos.pred_double q)
       | XH -> Z0)

  (** val add : z -> z -> z **)

  let add x y =
    match x with
    | Z0 -> y
    | Zpos x' ->
      (match y with
       | Z0 -> x
       | Zpos y' -> Zpos (Coq_Pos.add x' y')
       | Zneg y' -> pos_sub x' y')
    | Zneg x' ->
      (match y with
       | Z0 -> x
       | Zpos y' -> pos_sub y' x'
       | Zneg y' -> Zneg (Coq_Pos.add x' y'))

  (** val opp : z -> z **)

  let opp = function
  | Z0 -> Z0
  | Zpos x0 -> Zneg x0
  | Zneg x0 -> Zpos x0

  (** val sub : z -> z -> z **)

  let sub m n0 =
    add m (opp n0)

  (** val mul : z -> z -> z **)

  let mul x y =
    match x with
    | Z0 -> Z0
    | Zpos x' ->
      (match y with
       | Z0 -> Z0
       | Zpos y' -> Zpos (Coq_Pos.mul x' y')
       | Zneg y' -> Zneg (Coq_Pos.mul x' y'))
    | Zneg x' ->
      (match y with
       | Z0 -> Z0
       | Zpos y' -> Zneg (Coq_Pos.mul x' y')
       | Zneg y' -> Zpos (Coq_Pos.mul x' y'))

  (** val compare : z -> z -> comparison **)

  let compare x y =
    match x with
    | Z0 -> (match y with
             | Z0 -> Eq
             | Zpos _ -> Lt
             | Zneg _ -> Gt)
    | Zpos x' -> (match y with
                  | Zpos y' -> Coq_Pos.compare x' y'
                  | _ -> Gt)
    | Zneg x' ->
      (match y with
       | Zneg y' -> compOpp (Coq_Pos.compare x' y')
       | _ -> Lt)

  (** val leb : z -> z -> bool **)

  let leb x y =
    match compare x y with
    | Gt -> false
    | _ -> true

  (** val ltb : z -> z -> bool **)

  let ltb x y =
    match compare x y with
    | Lt -> true
    | _ -> false

  (** val eqb : z -> z -> bool **)

  let eqb x y =
    match x with
    | Z0 -> (match y with
             | Z0 -> true
             | _ -> false)
    | Zpos p -> (match y with
                 | Zpos q -> Coq_Pos.eqb p q
                 | _ -> false)
    | Zneg p -> (match y with
                 | Zneg q -> Coq_Pos.eqb p q
                 | _ -> false)

  (** val to_nat : z -> nat **)

  let to_nat = function
  | Zpos p -> Coq_Pos.to_nat p
  | _ -> O

  (** val to_N : z -> n **)

  let to_N = function
  | Zpos p -> Npos p
  | _ -> N0

  (** val of_nat : nat -> z **)

  let of_nat = function
  | O -> Z0
  | S n1 -> Zpos (Coq_Pos.of_succ_nat n1)

  (** val of_N : n -> z **)

  let of_N = function
  | N0 -> Z0
  | Npos p -> Zpos p

  (** val pos_div_eucl : positive -> z -> z * z **)

  let rec pos_div_eucl a b =
    match a with
    | XI a' ->
      let (q, r) = pos_div_eucl a' b in
      let r' = add (mul (Zpos (XO XH)) r) (Zpos XH) in
      if ltb r' b
      then ((mul (Zpos (XO XH)) q), r')
      else ((add (mul (Zpos (XO XH)) q) (Zpos XH)), (sub r' b))
    | XO a' ->
      let (q, r) = pos_div_eucl a' b in
      let r' = mul (Zpos (XO XH)) r in
      if ltb r' b
      then ((mul (Zpos (XO XH)) q), r')
      else ((add (mul (Zpos (XO XH)) q) (Zpos XH)), (sub r' b))
    | XH -> if leb (Zpos (XO XH)) b then (Z0, (Zpos XH)) else ((Zpos XH), Z0)

  (** val div_eucl : z -> z -> z * z **)

  let div_eucl a b =
    match a with
    | Z0 -> (Z0, Z0)
    | Zpos a' ->
      (match b with
       | Z0 -> (Z0, a)
       | Zpos _ -> pos_div_eucl a' b
       | Zneg b' ->
         let (q, r) = pos_div_eucl a' (Zpos b') in
         (match r with
          | Z0 -> ((opp q), Z0)
          | _ -> ((opp (add q (Zpos XH))), (add b r))))
    | Zneg a' ->
      (match b with
       | Z0 -> (Z0, a)
       | Zpos _ ->
         let (q, r) = pos_div_eucl a' b in
         (match r with
          | Z0 -> ((opp q), Z0)
          | _ -> ((opp (add q (Zpos XH))), (sub b r)))
       | Zneg b' -> let (q, r) = pos_div_eucl a' (Zpos b') in (q, (opp r)))

  (** val div : z -> z -> z **)

  let div a b =
    let (q, _) = div_eucl a b in q

  (** val modulo : z -> z -> z **)

  let modulo a b =
    let (_, r) = div_eucl a b in r

  (** val quotrem : z -> z -> z * z **)

  let quotrem a b =
    match a with
    | Z0 -> (Z0, Z0)
    | Zpos a0 ->
      (match b with
       | Z0 -> (Z0, a)
       | Zpos b0 ->
         let (q, r) = N.pos_div_eucl a0 (Npos b0) in ((of_N q), (of_N r))
       | Zneg b0 ->
         let (q, r) = N.pos_div_eucl a0 (Npos b0) in
         ((opp (of_N q)), (of_N r)))
    | Zneg a0 ->
      (match b with
       | Z0 -> (Z0, a)
       | Zpos b0 ->
         let (q, r) = N.pos_div_eucl a0 (Npos b0) in
         ((opp (of_N q)), (opp (of_N r)))
       | Zneg b0 ->
         let (q, r) = N.pos_div_eucl a0 (Npos b0) in
         ((of_N q), (opp (of_N r))))

  (** val quot : z -> z -> z **)

  let quot a b =
    fst (quotrem a b)

  (** val rem : z -> z -> z **)

  let rem a b =
    snd (quotrem a b)
 end

type bytes = byte list

(** val b8 : n -> byte **)

let b8 v =
  match of_N (N.modulo v (Npos (XO (XO (XO (XO (XO (XO (XO (XO XH)))))))))) with
  | Some b -> b
  | None -> X00

(** val n8 : byte -> n **)

let n8 =
  to_N

(** val beqb : byte -> byte -> bool **)

let beqb =
  eqb0

(** val bytes_eqb : bytes -> bytes -> bool **)

let rec bytes_eqb a b =
  match a with
  | [] -> (match b with
           | [] -> true
           | _ :: _ -> false)
  | x :: a' ->
    (match b with
     | [] -> false
     | y :: b' -> (&&) (beqb x y) (bytes_eqb a' b'))

(** val le_enc : nat -> n -> bytes **)

let rec le_enc n0 v =
  match n0 with
  | O -> []
  | S k ->
    (b8 v) :: (le_enc k
                (N.div v (Npos (XO (XO (XO (XO (XO (XO (XO (XO XH)))))))))))

(** val le_dec : bytes -> n **)

let rec le_dec = function
| [] -> N0
| b :: r ->
  N.add (n8 b)
    (N.mul (Npos (XO (XO (XO (XO (XO (XO (XO (XO XH))))))))) (le_dec r))

(** val be_enc : nat -> n -> bytes **)

let be_enc n0 v =
  rev (le_enc n0 v)

(** val be_dec : bytes -> n **)

let be_dec bs =
  le_dec (rev bs)

type 'a parser0 = bytes -> ('a * bytes) option

(** val ret : 'a1 -> 'a1 parser0 **)

let ret a bs =
  Some (a, bs)

(** val bind : 'a1 parser0 -> ('a1 -> 'a2 parser0) -> 'a2 parser0 **)

let bind p f bs =
  match p bs with
  | Some p0 -> let (a, r) = p0 in f a r
  | None -> None

(** val pfail : 'a1 parser0 **)

let pfail _ =
  None

(** val take : nat -> bytes parser0 **)

let take n0 bs =
  if Nat.leb n0 (length bs)
  then Some ((firstn n0 bs), (skipn n0 bs))
  else None

(** val takeN : n -> bytes parser0 **)

let takeN n0 bs =
  if N.leb n0 (N.of_nat (length bs)) then take (N.to_nat n0) bs else None

(** val p_u8 : n parser0 **)

let p_u8 = function
| [] -> None
| b :: r -> Some ((n8 b), r)

(** val p_le : nat -> n parser0 **)

let p_le n0 bs =
  match take n0 bs with
  | Some p -> let (x, r) = p in Some ((le_dec x), r)
  | None -> None

(** val lenN : bytes -> n **)

let lenN bs =
  N.of_nat (length bs)

(** val lenL : 'a1 list -> n **)

let lenL l =
  N.of_nat (length l)

(** val u32max : n **)

let u32max =
  Npos (XI (XI (XI (XI (XI (XI (XI (XI (XI (XI (XI (XI (XI (XI (XI (XI (XI
    (XI (XI (XI (XI (XI (XI (XI (XI (XI (XI (XI (XI (XI (XI
    XH)))))))))))))))))))))))))))))))

(** val two32 : n **)

let two32 =
  Npos (XO (XO (XO (XO (XO (XO (XO (XO (XO (XO (XO (XO (XO (XO (XO (XO (XO
    (XO (XO (XO (XO (XO (XO (XO (XO (XO (XO (XO (XO (XO (XO (XO
    XH))))))))))))))))))))))))))))))))

(** val two64 : n **)

let two64 =
  Npos (XO (XO (XO (XO (XO (XO (XO (XO (XO (XO (XO (XO (XO (XO (XO (XO (XO
    (XO (XO (XO (XO (XO (XO (XO (XO (XO (XO (XO (XO (XO (XO (XO (XO (XO (XO
    (XO (XO (XO (XO (XO (XO (XO (XO (XO (XO (XO (XO (XO (XO (XO (XO (XO (XO
    (XO (XO (XO (XO (XO (XO (XO (XO (XO (XO (XO
    XH))))))))))))))))))))))))))))))))))))))))))))))))))))))))))))))))

(** val varint : n -> bytes **)

let varint v =
  if N.ltb v (Npos (XI (XO (XI (XI (XI (XI (XI XH))))))))
  then (b8 v) :: []
  else if N.leb v (Npos (XI (XI (XI (XI (XI (XI (XI (XI (XI (XI (XI (XI (XI
            (XI (XI XH))))))))))))))))
       then (b8 (Npos (XI (XO (XI (XI (XI (XI (XI XH))))))))) :: (le_enc (S
                                                                   (S O)) v)
       else if N.leb v (Npos (XI (XI (XI (XI (XI (XI (XI (XI (XI (XI (XI (XI
                 (XI (XI (XI (XI (XI (XI (XI (XI (XI (XI (XI (XI (XI (XI (XI
                 (XI (XI (XI (XI XH))))))))))))))))))))))))))))))))
            then (b8 (Npos (XO (XI (XI (XI (XI (XI (XI XH))))))))) :: 
                   (le_enc (S (S (S (S O)))) v)
            else (b8 (Npos (XI (XI (XI (XI (XI (XI (XI XH))))))))) :: 
                   (le_enc (S (S (S (S (S (S (S (S O)))))))) v)

(** val varint_size : n -> n **)

let varint_size v =
  if N.ltb v (Npos (XI (XO (XI (XI (XI (XI (XI XH))))))))
  then Npos XH
  else if N.leb v (Npos (XI (XI (XI (XI (XI (XI (XI (XI (XI (XI (XI (XI (XI
            (XI (XI XH))))))))))))))))
       then Npos (XI XH)
       else if N.leb v (Npos (XI (XI (XI (XI (XI (XI (XI (XI (XI (XI (XI (XI
                 (XI (XI (XI (XI (XI (XI (XI (XI (XI (XI (XI (XI (XI (XI (XI
                 (XI (XI (XI (XI XH))))))))))))))))))))))))))))))))
            then Npos (XI (XO XH))
            else Npos (XI (XO (XO XH)))

(** val p_varint : n parser0 **)

let p_varint = function
| [] -> None
| d :: r ->
  let dn = n8 d in
  if N.eqb dn (Npos (XI (XI (XI (XI (XI (XI (XI XH))))))))
  then (match p_le (S (S (S (S (S (S (S (S O)))))))) r with
        | Some p ->
          let (v, r') = p in
          if N.ltb v (Npos (XO (XO (XO (XO (XO (XO (XO (XO (XO (XO (XO (XO
               (XO (XO (XO (XO (XO (XO (XO (XO (XO (XO (XO (XO (XO (XO (XO
               (XO (XO (XO (XO (XO XH)))))))))))))))))))))))))))))))))
          then None
          else Some (v, r')
        | None -> None)
  else if N.eqb dn (Npos (XO (XI (XI (XI (XI (XI (XI XH))))))))
       then (match p_le (S (S (S (S O)))) r with
             | Some p ->
               let (v, r') = p in
               if N.ltb v (Npos (XO (XO (XO (XO (XO (XO (XO (XO (XO (XO (XO
                    (XO (XO (XO (XO (XO XH)))))))))))))))))
               then None
               else Some (v, r')
             | None -> None)
       else if N.eqb dn (Npos (XI (XO (XI (XI (XI (XI (XI XH))))))))
            then (match p_le (S (S O)) r with
                  | Some p ->
                    let (v, r') = p in
                    if N.ltb v (Npos (XI (XO (XI (XI (XI (XI (XI XH))))))))
                    then None
                    else Some (v, r')
                  | None -> None)
            else Some (dn, r)

(** val var_slice : bytes -> bytes **)

let var_slice x =
  app (varint (lenN x)) x

(** val var_slice_size : bytes -> n **)

let var_slice_size x =
  N.add (varint_size (lenN x)) (lenN x)

(** val p_var_slice : bytes parser0 **)

let p_var_slice =
  bind p_varint takeN

(** val p_count : 'a1 parser0 -> nat -> n -> 'a1 list parser0 **)

let rec p_count p fuel n0 bs =
  if N.eqb n0 N0
  then Some ([], bs)
  else (match fuel with
        | O -> None
        | S f ->
          (match p bs with
           | Some p0 ->
             let (a, r) = p0 in
             (match p_count p f (N.pred n0) r with
              | Some p1 -> let (l, r') = p1 in Some ((a :: l), r')
              | None -> None)
           | None -> None))

(** val p_list : 'a1 parser0 -> n -> 'a1 list parser0 **)

let p_list p n0 bs =
  p_count p (length bs) n0 bs

(** val enc_list : ('a1 -> bytes) -> 'a1 list -> bytes **)

let enc_list e l =
  concat (map e l)

(** val vector : bytes list -> bytes **)

let vector v =
  app (varint (lenL v)) (enc_list var_slice v)

(** val vector_size : bytes list -> n **)

let vector_size v =
  N.add (varint_size (lenL v))
    (fold_right (fun x acc -> N.add (var_slice_size x) acc) N0 v)

(** val p_vector : bytes list parser0 **)

let p_vector =
  bind p_varint (fun n0 -> p_list p_var_slice n0)

(** val mask32 : n **)

let mask32 =
  Npos (XI (XI (XI (XI (XI (XI (XI (XI (XI (XI (XI (XI (XI (XI (XI (XI (XI
    (XI (XI (XI (XI (XI (XI (XI (XI (XI (XI (XI (XI (XI (XI
    XH)))))))))))))))))))))))))))))))

(** val add32 : n -> n -> n **)

let add32 a b =
  N.coq_land (N.add a b) mask32

(** val rotr : n -> n -> n **)

let rotr n0 x =
  N.coq_lor (N.shiftr x n0)
    (N.coq_land (N.shiftl x (N.sub (Npos (XO (XO (XO (XO (XO XH)))))) n0))
      mask32)

(** val shr : n -> n -> n **)

let shr n0 x =
  N.shiftr x n0

(** val not32 : n -> n **)

let not32 x =
  N.coq_lxor x (Npos (XI (XI (XI (XI (XI (XI (XI (XI (XI (XI (XI (XI (XI (XI
    (XI (XI (XI (XI (XI (XI (XI (XI (XI (XI (XI (XI (XI (XI (XI (XI (XI
    XH))))))))))))))))))))))))))))))))

(** val ch : n -> n -> n -> n **)

let ch x y z0 =
  N.coq_lxor (N.coq_land x y) (N.coq_land (not32 x) z0)

(** val maj : n -> n -> n -> n **)

let maj x y z0 =
  N.coq_lxor (N.coq_lxor (N.coq_land x y) (N.coq_land x z0)) (N.coq_land y z0)

(** val bS0 : n -> n **)

let bS0 x =
  N.coq_lxor
    (N.coq_lxor (rotr (Npos (XO XH)) x) (rotr (Npos (XI (XO (XI XH)))) x))
    (rotr (Npos (XO (XI (XI (XO XH))))) x)

(** val bS1 : n -> n **)

let bS1 x =
  N.coq_lxor
    (N.coq_lxor (rotr (Npos (XO (XI XH))) x)
      (rotr (Npos (XI (XI (XO XH)))) x))
    (rotr (Npos (XI (XO (XO (XI XH))))) x)

(** val sS0 : n -> n **)

let sS0 x =
  N.coq_lxor
    (N.coq_lxor (rotr (Npos (XI (XI XH))) x)
      (rotr (Npos (XO (XI (XO (XO XH))))) x)) (shr (Npos (XI XH)) x)

(** val sS1 : n -> n **)

let sS1 x =
  N.coq_lxor
    (N.coq_lxor (rotr (Npos (XI (XO (XO (XO XH))))) x)
      (rotr (Npos (XI (XI (XO (XO XH))))) x)) (shr (Npos (XO (XI (XO XH)))) x)

(** val k256 : n list **)

let k256 =
  (Npos (XO (XO (XO (XI (XI (XO (XO (XI (XI (XI (XI (XI (XO (XI (XO (XO (XO
    (XI (XO (XI (XO (XO (XO (XI (XO (XI (XO (XO (XO (XO
    XH))))))))))))))))))))))))))))))) :: ((Npos (XI (XO (XO (XO (XI (XO (XO
    (XI (XO (XO (XI (XO (XO (XO (XI (XO (XI (XI (XI (XO (XI (XI (XO (XO (XI
    (XO (XO (XO (XI (XI XH))))))))))))))))))))))))))))))) :: ((Npos (XI (XI
    (XI (XI (XO (XO (XI (XI (XI (XI (XO (XI (XI (XI (XI (XI (XO (XO (XO (XO
    (XO (XO (XI (XI (XI (XO (XI (XO (XI (XI (XO
    XH)))))))))))))))))))))))))))))))) :: ((Npos (XI (XO (XI (XO (XO (XI (XO
    (XI (XI (XI (XO (XI (XI (XO (XI (XI (XI (XO (XI (XO (XI (XI (XO (XI (XI
    (XO (XO (XI (XO (XI (XI XH)))))))))))))))))))))))))))))))) :: ((Npos (XI
    (XI (XO (XI (XI (XO (XI (XO (XO (XI (XO (XO (XO (XO (XI (XI (XO (XI (XI
    (XO (XI (XO (XI (XO (XI (XO (XO (XI (XI
    XH)))))))))))))))))))))))))))))) :: ((Npos (XI (XO (XO (XO (XI (XI (XI
    (XI (XI (XO (XO (XO (XI (XO (XO (XO (XI (XO (XO (XO (XI (XI (XI (XI (XI
    (XO (XO (XI (XI (XO XH))))))))))))))))))))))))))))))) :: ((Npos (XO (XO
    (XI (XO (XO (XI (XO (XI (XO (XI (XO (XO (XO (XO (XO (XI (XI (XI (XI (XI
    (XI (XI (XO (XO (XO (XI (XO (XO (XI (XO (XO
    XH)))))))))))))))))))))))))))))))) :: ((Npos (XI (XO (XI (XO (XI (XO (XI
    (XI (XO (XI (XI (XI (XI (XO (XI (XO (XO (XO (XI (XI (XI (XO (XO (XO (XI
    (XI (XO (XI (XO (XI (XO XH)))))))))))))))))))))))))))))))) :: ((Npos (XO
    (XO (XO (XI (XI (XO (XO (XI (XO (XI (XO (XI (XO (XI (XO (XI (XI (XI (XI
    (XO (XO (XO (XO (XO (XO (XO (XO (XI (XI (XO (XI
    XH)))))))))))))))))))))))))))))))) :: ((Npos (XI (XO (XO (XO (XO (XO (XO
    (XO (XI (XI (XO (XI (XI (XO (XI (XO (XI (XI (XO (XO (XO (XO (XO (XI (XO
    (XI (XO (XO XH))))))))))))))))))))))))))))) :: ((Npos (XO (XI (XI (XI (XI
    (XI (XO (XI (XI (XO (XI (XO (XO (XO (XO (XI (XI (XO (XO (XO (XI (XI (XO
    (XO (XO (XO (XI (XO (XO XH)))))))))))))))))))))))))))))) :: ((Npos (XI
    (XI (XO (XO (XO (XO (XI (XI (XI (XO (XI (XI (XI (XI (XI (XO (XO (XO (XI
    (XI (XO (XO (XO (XO (XI (XO (XI (XO (XI (XO
    XH))))))))))))))))))))))))))))))) :: ((Npos (XO (XO (XI (XO (XI (XI (XI
    (XO (XI (XO (XI (XI (XI (XO (XI (XO (XO (XI (XI (XI (XI (XI (XO (XI (XO
    (XI (XO (XO (XI (XI XH))))))))))))))))))))))))))))))) :: ((Npos (XO (XI
    (XI (XI (XI (XI (XI (XI (XI (XO (XO (XO (XI (XI (XO (XI (XO (XI (XI (XI
    (XI (XO (XI (XI (XO (XO (XO (XO (XO (XO (XO
    XH)))))))))))))))))))))))))))))))) :: ((Npos (XI (XI (XI (XO (XO (XI (XO
    (XI (XO (XI (XI (XO (XO (XO (XO (XO (XO (XO (XI (XI (XI (XO (XI (XI (XI
    (XI (XO (XI (XI (XO (XO XH)))))))))))))))))))))))))))))))) :: ((Npos (XO
    (XO (XI (XO (XI (XI (XI (XO (XI (XO (XO (XO (XI (XI (XI (XI (XI (XI (XO
    (XI (XI (XO (XO (XI (XI (XO (XO (XO (XO (XO (XI
    XH)))))))))))))))))))))))))))))))) :: ((Npos (XI (XO (XO (XO (XO (XO (XI
    (XI (XI (XO (XO (XI (XO (XI (XI (XO (XI (XI (XO (XI (XI (XO (XO (XI (XO
    (XO (XI (XO (XO (XI (XI XH)))))))))))))))))))))))))))))))) :: ((Npos (XO
    (XI (XI (XO (XO (XO (XO (XI (XI (XI (XI (XO (XO (XO (XI (XO (XO (XI (XI
    (XI (XI (XI (XO (XI (XI (XI (XI (XI (XO (XI (XI
    XH)))))))))))))))))))))))))))))))) :: ((Npos (XO (XI (XI (XO (XO (XO (XI
    (XI (XI (XO (XI (XI (XI (XO (XO (XI (XI (XO (XO (XO (XO (XO (XI (XI (XI
    (XI (XI XH)))))))))))))))))))))))))))) :: ((Npos (XO (XO (XI (XI (XO (XO
    (XI (XI (XI (XO (XO (XO (XO (XI (XO (XI (XO (XO (XI (XI (XO (XO (XO (XO
    (XO (XO (XI (XO (XO XH)))))))))))))))))))))))))))))) :: ((Npos (XI (XI
    (XI (XI (XO (XI (XI (XO (XO (XO (XI (XI (XO (XI (XO (XO (XI (XO (XO (XI
    (XO (XI (XI (XI (XI (XO (XI (XI (XO
    XH)))))))))))))))))))))))))))))) :: ((Npos (XO (XI (XO (XI (XO (XI (XO
    (XI (XO (XO (XI (XO (XO (XO (XO (XI (XO (XO (XI (XO (XI (XI (XI (XO (XO
    (XI (XO (XI (XO (XO XH))))))))))))))))))))))))))))))) :: ((Npos (XO (XO
    (XI (XI (XI (XO (XI (XI (XI (XO (XO (XI (XO (XI (XO (XI (XO (XO (XO (XO
    (XI (XI (XO (XI (XO (XO (XI (XI (XI (XO
    XH))))))))))))))))))))))))))))))) :: ((Npos (XO (XI (XO (XI (XI (XO (XI
    (XI (XO (XO (XO (XI (XO (XO (XO (XI (XI (XO (XO (XI (XI (XI (XI (XI (XO
    (XI (XI (XO (XI (XI XH))))))))))))))))))))))))))))))) :: ((Npos (XO (XI
    (XO (XO (XI (XO (XI (XO (XI (XO (XO (XO (XI (XO (XI (XO (XO (XI (XI (XI
    (XI (XI (XO (XO (XO (XO (XO (XI (XI (XO (XO
    XH)))))))))))))))))))))))))))))))) :: ((Npos (XI (XO (XI (XI (XO (XI (XI
    (XO (XO (XI (XI (XO (XO (XO (XI (XI (XI (XO (XO (XO (XI (XI (XO (XO (XO
    (XO (XO (XI (XO (XI (XO XH)))))))))))))))))))))))))))))))) :: ((Npos (XO
    (XO (XO (XI (XO (XO (XI (XI (XI (XI (XI (XO (XO (XI (XO (XO (XI (XI (XO
    (XO (XO (XO (XO (XO (XO (XO (XO (XO (XI (XI (XO
    XH)))))))))))))))))))))))))))))))) :: ((Npos (XI (XI (XI (XO (XO (XO (XI
    (XI (XI (XI (XI (XI (XI (XI (XI (XO (XI (XO (XO (XI (XI (XO (XI (XO (XI
    (XI (XI (XI (XI (XI (XO XH)))))))))))))))))))))))))))))))) :: ((Npos (XI
    (XI (XO (XO (XI (XI (XI (XI (XI (XI (XO (XI (XO (XO (XO (XO (XO (XO (XO
    (XO (XO (XI (XI (XI (XO (XI (XI (XO (XO (XO (XI
    XH)))))))))))))))))))))))))))))))) :: ((Npos (XI (XI (XI (XO (XO (XO (XI
    (XO (XI (XO (XO (XO (XI (XO (XO (XI (XI (XI (XI (XO (XO (XI (XO (XI (XI
    (XO (XI (XO (XI (XO (XI XH)))))))))))))))))))))))))))))))) :: ((Npos (XI
    (XO (XO (XO (XI (XO (XI (XO (XI (XI (XO (XO (XO (XI (XI (XO (XO (XI (XO
    (XI (XO (XO (XI (XI (XO (XI XH))))))))))))))))))))))))))) :: ((Npos (XI
    (XI (XI (XO (XO (XI (XI (XO (XI (XO (XO (XI (XO (XI (XO (XO (XI (XO (XO
    (XI (XO (XI (XO (XO (XO (XO (XI (XO
    XH))))))))))))))))))))))))))))) :: ((Npos (XI (XO (XI (XO (XO (XO (XO (XI
    (XO (XI (XO (XI (XO (XO (XO (XO (XI (XI (XI (XO (XI (XI (XO (XI (XI (XI
    (XI (XO (XO XH)))))))))))))))))))))))))))))) :: ((Npos (XO (XO (XO (XI
    (XI (XI (XO (XO (XI (XO (XO (XO (XO (XI (XO (XO (XI (XI (XO (XI (XI (XO
    (XO (XO (XO (XI (XI (XI (XO XH)))))))))))))))))))))))))))))) :: ((Npos
    (XO (XO (XI (XI (XI (XI (XI (XI (XI (XO (XI (XI (XO (XI (XI (XO (XO (XO
    (XI (XI (XO (XI (XO (XO (XI (XO (XI (XI (XO (XO
    XH))))))))))))))))))))))))))))))) :: ((Npos (XI (XI (XO (XO (XI (XO (XO
    (XO (XI (XO (XI (XI (XO (XO (XO (XO (XO (XO (XO (XI (XI (XI (XO (XO (XI
    (XI (XO (XO (XI (XO XH))))))))))))))))))))))))))))))) :: ((Npos (XO (XO
    (XI (XO (XI (XO (XI (XO (XI (XI (XO (XO (XI (XI (XI (XO (XO (XI (XO (XI
    (XO (XO (XO (XO (XI (XO (XI (XO (XO (XI
    XH))))))))))))))))))))))))))))))) :: ((Npos (XI (XI (XO (XI (XI (XI (XO
    (XI (XO (XI (XO (XI (XO (XO (XO (XO (XO (XI (XO (XI (XO (XI (XI (XO (XO
    (XI (XI (XO (XI (XI XH))))))))))))))))))))))))))))))) :: ((Npos (XO (XI
    (XI (XI (XO (XI (XO (XO (XI (XO (XO (XI (XO (XO (XI (XI (XO (XI (XO (XO
    (XO (XO (XI (XI (XI (XO (XO (XO (XO (XO (XO
    XH)))))))))))))))))))))))))))))))) :: ((Npos (XI (XO (XI (XO (XO (XO (XO
    (XI (XO (XO (XI (XI (XO (XI (XO (XO (XO (XI (XO (XO (XI (XI (XI (XO (XO
    (XI (XO (XO (XI (XO (XO XH)))))))))))))))))))))))))))))))) :: ((Npos (XI
    (XO (XO (XO (XO (XI (XO (XI (XO (XO (XO (XI (XO (XI (XI (XI (XI (XI (XI
    (XI (XI (XI (XO (XI (XO (XI (XO (XO (XO (XI (XO
    XH)))))))))))))))))))))))))))))))) :: ((Npos (XI (XI (XO (XI (XO (XO (XI
    (XO (XO (XI (XI (XO (XO (XI (XI (XO (XO (XI (XO (XI (XI (XO (XO (XO (XO
    (XO (XO (XI (XO (XI (XO XH)))))))))))))))))))))))))))))))) :: ((Npos (XO
    (XO (XO (XO (XI (XI (XI (XO (XI (XI (XO (XI (XO (XO (XO (XI (XI (XI (XO
    (XI (XO (XO (XI (XO (XO (XI (XO (XO (XO (XO (XI
    XH)))))))))))))))))))))))))))))))) :: ((Npos (XI (XI (XO (XO (XO (XI (XO
    (XI (XI (XO (XO (XO (XI (XO (XI (XO (XO (XO (XI (XI (XO (XI (XI (XO (XI
    (XI (XI (XO (XO (XO (XI XH)))))))))))))))))))))))))))))))) :: ((Npos (XI
    (XO (XO (XI (XI (XO (XO (XO (XO (XO (XO (XI (XO (XI (XI (XI (XO (XI (XO
    (XO (XI (XO (XO (XI (XI (XO (XO (XO (XI (XO (XI
    XH)))))))))))))))))))))))))))))))) :: ((Npos (XO (XO (XI (XO (XO (XI (XO
    (XO (XO (XI (XI (XO (XO (XO (XO (XO (XI (XO (XO (XI (XI (XO (XO (XI (XO
    (XI (XI (XO (XI (XO (XI XH)))))))))))))))))))))))))))))))) :: ((Npos (XI
    (XO (XI (XO (XO (XO (XO (XI (XI (XO (XI (XO (XI (XI (XO (XO (XO (XI (XI
    (XI (XO (XO (XO (XO (XO (XO (XI (XO (XI (XI (XI
    XH)))))))))))))))))))))))))))))))) :: ((Npos (XO (XO (XO (XO (XI (XI (XI
    (XO (XO (XO (XO (XO (XO (XI (XO (XI (XO (XI (XO (XI (XO (XI (XI (XO (XO
    (XO (XO (XO XH))))))))))))))))))))))))))))) :: ((Npos (XO (XI (XI (XO (XI
    (XO (XO (XO (XI (XO (XO (XO (XO (XO (XI (XI (XO (XO (XI (XO (XO (XI (XO
    (XI (XI (XO (XO (XI XH))))))))))))))))))))))))))))) :: ((Npos (XO (XO (XO
    (XI (XO (XO (XO (XO (XO (XO (XI (XI (XO (XI (XI (XO (XI (XI (XI (XO (XI
    (XI (XO (XO (XO (XI (XI (XI XH))))))))))))))))))))))))))))) :: ((Npos (XO
    (XO (XI (XI (XO (XO (XI (XO (XI (XI (XI (XO (XI (XI (XI (XO (XO (XO (XO
    (XI (XO (XO (XI (XO (XI (XI (XI (XO (XO
    XH)))))))))))))))))))))))))))))) :: ((Npos (XI (XO (XI (XO (XI (XI (XO
    (XI (XO (XO (XI (XI (XI (XI (XO (XI (XO (XO (XO (XO (XI (XI (XO (XI (XO
    (XO (XI (XO (XI XH)))))))))))))))))))))))))))))) :: ((Npos (XI (XI (XO
    (XO (XI (XI (XO (XI (XO (XO (XI (XI (XO (XO (XO (XO (XO (XO (XI (XI (XI
    (XO (XO (XO (XI (XO (XO (XI (XI
    XH)))))))))))))))))))))))))))))) :: ((Npos (XO (XI (XO (XI (XO (XO (XI
    (XO (XO (XI (XO (XI (XO (XI (XO (XI (XO (XO (XO (XI (XI (XO (XI (XI (XO
    (XI (XI (XI (XO (XO XH))))))))))))))))))))))))))))))) :: ((Npos (XI (XI
    (XI (XI (XO (XO (XI (XO (XO (XI (XO (XI (XO (XO (XI (XI (XO (XO (XI (XI
    (XI (XO (XO (XI (XI (XI (XO (XI (XI (XO
    XH))))))))))))))))))))))))))))))) :: ((Npos (XI (XI (XO (XO (XI (XI (XI
    (XI (XI (XI (XI (XI (XO (XI (XI (XO (XO (XI (XI (XI (XO (XI (XO (XO (XO
    (XO (XO (XI (XO (XI XH))))))))))))))))))))))))))))))) :: ((Npos (XO (XI
    (XI (XI (XO (XI (XI (XI (XO (XI (XO (XO (XO (XO (XO (XI (XI (XI (XI (XI
    (XO (XO (XO (XI (XO (XO (XI (XO (XI (XI
    XH))))))))))))))))))))))))))))))) :: ((Npos (XI (XI (XI (XI (XO (XI (XI
    (XO (XI (XI (XO (XO (XO (XI (XI (XO (XI (XO (XI (XO (XO (XI (XO (XI (XO
    (XO (XO (XI (XI (XI XH))))))))))))))))))))))))))))))) :: ((Npos (XO (XO
    (XI (XO (XI (XO (XO (XO (XO (XO (XO (XI (XI (XI (XI (XO (XO (XO (XO (XI
    (XO (XO (XI (XI (XO (XO (XI (XO (XO (XO (XO
    XH)))))))))))))))))))))))))))))))) :: ((Npos (XO (XO (XO (XI (XO (XO (XO
    (XO (XO (XI (XO (XO (XO (XO (XO (XO (XI (XI (XI (XO (XO (XO (XI (XI (XO
    (XO (XI (XI (XO (XO (XO XH)))))))))))))))))))))))))))))))) :: ((Npos (XO
    (XI (XO (XI (XI (XI (XI (XI (XI (XI (XI (XI (XI (XI (XI (XI (XO (XI (XI
    (XI (XI (XI (XO (XI (XO (XO (XO (XO (XI (XO (XO
    XH)))))))))))))))))))))))))))))))) :: ((Npos (XI (XI (XO (XI (XO (XI (XI
    (XI (XO (XO (XI (XI (XO (XI (XI (XO (XO (XO (XO (XO (XI (XO (XI (XO (XO
    (XO (XI (XO (XO (XI (XO XH)))))))))))))))))))))))))))))))) :: ((Npos (XI
    (XI (XI (XO (XI (XI (XI (XI (XI (XI (XO (XO (XO (XI (XO (XI (XI (XO (XO
    (XI (XI (XI (XI (XI (XO (XI (XI (XI (XI (XI (XO
    XH)))))))))))))))))))))))))))))))) :: ((Npos (XO (XI (XO (XO (XI (XI (XI
    (XI (XO (XO (XO (XI (XI (XI (XI (XO (XI (XO (XO (XO (XI (XI (XI (XO (XO
    (XI (XI (XO (XO (XO (XI
    XH)))))))))))))))))))))))))))))))) :: [])))))))))))))))))))))))))))))))))))))))))))))))))))))))))))))))

(** val iV256 : n list **)

let iV256 =
  (Npos (XI (XI (XI (XO (XO (XI (XI (XO (XO (XI (XI (XO (XO (XI (XI (XI (XI
    (XO (XO (XI (XO (XO (XO (XO (XO (XI (XO (XI (XO (XI
    XH))))))))))))))))))))))))))))))) :: ((Npos (XI (XO (XI (XO (XO (XO (XO
    (XI (XO (XI (XI (XI (XO (XI (XO (XI (XI (XI (XI (XO (XO (XI (XI (XO (XI
    (XI (XO (XI (XI (XI (XO XH)))))))))))))))))))))))))))))))) :: ((Npos (XO
    (XI (XO (XO (XI (XI (XI (XO (XI (XI (XO (XO (XI (XI (XI (XI (XO (XI (XI
    (XI (XO (XI (XI (XO (XO (XO (XI (XI (XI
    XH)))))))))))))))))))))))))))))) :: ((Npos (XO (XI (XO (XI (XI (XI (XO
    (XO (XI (XO (XI (XO (XI (XI (XI (XI (XI (XI (XI (XI (XO (XO (XI (XO (XI
    (XO (XI (XO (XO (XI (XO XH)))))))))))))))))))))))))))))))) :: ((Npos (XI
    (XI (XI (XI (XI (XI (XI (XO (XO (XI (XO (XO (XI (XO (XI (XO (XO (XI (XI
    (XI (XO (XO (XO (XO (XI (XO (XO (XO (XI (XO
    XH))))))))))))))))))))))))))))))) :: ((Npos (XO (XO (XI (XI (XO (XO (XO
    (XI (XO (XO (XO (XI (XO (XI (XI (XO (XI (XO (XI (XO (XO (XO (XO (XO (XI
    (XI (XO (XI (XI (XO (XO XH)))))))))))))))))))))))))))))))) :: ((Npos (XI
    (XI (XO (XI (XO (XI (XO (XI (XI (XO (XO (XI (XI (XO (XI (XI (XI (XI (XO
    (XO (XO (XO (XO (XI (XI (XI (XI (XI
    XH))))))))))))))))))))))))))))) :: ((Npos (XI (XO (XO (XI (XI (XO (XO (XO
    (XI (XO (XI (XI (XO (XO (XI (XI (XO (XO (XO (XO (XO (XI (XI (XI (XI (XI
    (XO (XI (XI (XO XH))))))))))))))))))))))))))))))) :: [])))))))

(** val words_of : nat -> bytes -> n list **)

let rec words_of fuel bs =
  match fuel with
  | O -> []
  | S f ->
    (match bs with
     | [] -> []
     | a :: l ->
       (match l with
        | [] -> []
        | b :: l0 ->
          (match l0 with
           | [] -> []
           | c :: l1 ->
             (match l1 with
              | [] -> []
              | d :: r ->
                (N.add
                  (N.mul
                    (N.add
                      (N.mul
                        (N.add
                          (N.mul (n8 a) (Npos (XO (XO (XO (XO (XO (XO (XO (XO
                            XH)))))))))) (n8 b)) (Npos (XO (XO (XO (XO (XO
                        (XO (XO (XO XH)))))))))) (n8 c)) (Npos (XO (XO (XO
                    (XO (XO (XO (XO (XO XH)))))))))) (n8 d)) :: (words_of f r)))))

(** val nthN : n list -> nat -> n **)

let nthN l i =
  nth i l N0

(** val expand : nat -> n list -> n list **)

let rec expand n0 w =
  match n0 with
  | O -> w
  | S k ->
    let x =
      add32 (add32 (sS1 (nthN w (S O))) (nthN w (S (S (S (S (S (S O))))))))
        (add32
          (sS0
            (nthN w (S (S (S (S (S (S (S (S (S (S (S (S (S (S O))))))))))))))))
          (nthN w (S (S (S (S (S (S (S (S (S (S (S (S (S (S (S
            O)))))))))))))))))
    in
    expand k (x :: w)

(** val schedule : n list -> n list **)

let schedule block0 =
  rev
    (expand (S (S (S (S (S (S (S (S (S (S (S (S (S (S (S (S (S (S (S (S (S (S
      (S (S (S (S (S (S (S (S (S (S (S (S (S (S (S (S (S (S (S (S (S (S (S (S
      (S (S O)))))))))))))))))))))))))))))))))))))))))))))))) (rev block0))

(** val round : n list -> (n * n) -> n list **)

let round st0 kw =
  match st0 with
  | [] -> st0
  | a :: l ->
    (match l with
     | [] -> st0
     | b :: l0 ->
       (match l0 with
        | [] -> st0
        | c :: l1 ->
          (match l1 with
           | [] -> st0
           | d :: l2 ->
             (match l2 with
              | [] -> st0
              | e :: l3 ->
                (match l3 with
                 | [] -> st0
                 | f :: l4 ->
                   (match l4 with
                    | [] -> st0
                    | g :: l5 ->
                      (match l5 with
                       | [] -> st0
                       | h :: l6 ->
                         (match l6 with
                          | [] ->
                            let t1 =
                              add32
                                (add32 (add32 h (bS1 e))
                                  (add32 (ch e f g) (fst kw))) (snd kw)
                            in
                            let t2 = add32 (bS0 a) (maj a b c) in
                            (add32 t1 t2) :: (a :: (b :: (c :: ((add32 d t1) :: (e :: (f :: (g :: [])))))))
                          | _ :: _ -> st0))))))))

(** val compress : n list -> bytes -> n list **)

let compress st0 block0 =
  let w =
    schedule
      (words_of (S (S (S (S (S (S (S (S (S (S (S (S (S (S (S (S
        O)))))))))))))))) block0)
  in
  let st' = fold_left round (combine k256 w) st0 in
  map (fun p -> add32 (fst p) (snd p)) (combine st0 st')

(** val blocks : nat -> n list -> bytes -> n list **)

let rec blocks fuel st0 bs =
  match fuel with
  | O -> st0
  | S f ->
    (match bs with
     | [] -> st0
     | _ :: _ ->
       blocks f
         (compress st0
           (firstn (S (S (S (S (S (S (S (S (S (S (S (S (S (S (S (S (S (S (S
             (S (S (S (S (S (S (S (S (S (S (S (S (S (S (S (S (S (S (S (S (S
             (S (S (S (S (S (S (S (S (S (S (S (S (S (S (S (S (S (S (S (S (S
             (S (S (S
             O))))))))))))))))))))))))))))))))))))))))))))))))))))))))))))))))
             bs))
         (skipn (S (S (S (S (S (S (S (S (S (S (S (S (S (S (S (S (S (S (S (S
           (S (S (S (S (S (S (S (S (S (S (S (S (S (S (S (S (S (S (S (S (S (S
           (S (S (S (S (S (S (S (S (S (S (S (S (S (S (S (S (S (S (S (S (S (S
           O))))))))))))))))))))))))))))))))))))))))))))))))))))))))))))))))
           bs))

(** val pad : bytes -> bytes **)

let pad msg =
  let l = length msg in
  let k =
    Nat.modulo
      (sub (S (S (S (S (S (S (S (S (S (S (S (S (S (S (S (S (S (S (S (S (S (S
        (S (S (S (S (S (S (S (S (S (S (S (S (S (S (S (S (S (S (S (S (S (S (S
        (S (S (S (S (S (S (S (S (S (S (S (S (S (S (S (S (S (S (S
        O))))))))))))))))))))))))))))))))))))))))))))))))))))))))))))))))
        (Nat.modulo (add l (S (S (S (S (S (S (S (S (S O)))))))))) (S (S (S (S
          (S (S (S (S (S (S (S (S (S (S (S (S (S (S (S (S (S (S (S (S (S (S
          (S (S (S (S (S (S (S (S (S (S (S (S (S (S (S (S (S (S (S (S (S (S
          (S (S (S (S (S (S (S (S (S (S (S (S (S (S (S (S
          O))))))))))))))))))))))))))))))))))))))))))))))))))))))))))))))))))
      (S (S (S (S (S (S (S (S (S (S (S (S (S (S (S (S (S (S (S (S (S (S (S (S
      (S (S (S (S (S (S (S (S (S (S (S (S (S (S (S (S (S (S (S (S (S (S (S (S
      (S (S (S (S (S (S (S (S (S (S (S (S (S (S (S (S
      O))))))))))))))))))))))))))))))))))))))))))))))))))))))))))))))))
  in
  app msg
    (X80 :: (app (repeat X00 k)
              (be_enc (S (S (S (S (S (S (S (S O))))))))
                (N.mul (Npos (XO (XO (XO XH)))) (N.of_nat l)))))

(** val digest_of : n list -> bytes **)

let digest_of st0 =
  concat (map (be_enc (S (S (S (S O))))) st0)

(** val sha256 : bytes -> bytes **)

let sha256 msg =
  let p = pad msg in
  digest_of
    (blocks (S
      (Nat.div (length p) (S (S (S (S (S (S (S (S (S (S (S (S (S (S (S (S (S
        (S (S (S (S (S (S (S (S (S (S (S (S (S (S (S (S (S (S (S (S (S (S (S
        (S (S (S (S (S (S (S (S (S (S (S (S (S (S (S (S (S (S (S (S (S (S (S
        (S O))))))))))))))))))))))))))))))))))))))))))))))))))))))))))))))))))
      iV256 p)

(** val dsha256 : bytes -> bytes **)

let dsha256 msg =
  sha256 (sha256 msg)

(** val midstate256 : bytes -> bytes **)

let midstate256 msg =
  if Nat.ltb (length msg) (S (S (S (S (S (S (S (S (S (S (S (S (S (S (S (S (S
       (S (S (S (S (S (S (S (S (S (S (S (S (S (S (S (S (S (S (S (S (S (S (S
       (S (S (S (S (S (S (S (S (S (S (S (S (S (S (S (S (S (S (S (S (S (S (S
       (S O))))))))))))))))))))))))))))))))))))))))))))))))))))))))))))))))
  then digest_of iV256
  else digest_of
         (compress iV256
           (firstn (S (S (S (S (S (S (S (S (S (S (S (S (S (S (S (S (S (S (S
             (S (S (S (S (S (S (S (S (S (S (S (S (S (S (S (S (S (S (S (S (S
             (S (S (S (S (S (S (S (S (S (S (S (S (S (S (S (S (S (S (S (S (S
             (S (S (S
             O))))))))))))))))))))))))))))))))))))))))))))))))))))))))))))))))
             msg))

(** val tagged_hash : bytes -> bytes -> bytes **)

let tagged_hash tag msg =
  let t = sha256 tag in sha256 (app t (app t msg))

(** val hexdigit : n -> byte **)

let hexdigit n0 =
  b8
    (if N.ltb n0 (Npos (XO (XI (XO XH))))
     then N.add (Npos (XO (XO (XO (XO (XI XH)))))) n0
     else N.add (Npos (XI (XI (XI (XO (XI (XO XH))))))) n0)

(** val to_hex : bytes -> bytes **)

let rec to_hex = function
| [] -> []
| b :: r ->
  (hexdigit (N.div (n8 b) (Npos (XO (XO (XO (XO XH))))))) :: ((hexdigit
                                                                (N.modulo
                                                                  (n8 b)
                                                                  (Npos (XO
                                                                  (XO (XO (XO
                                                                  XH))))))) :: 
    (to_hex r))

type issuance = { iss_nonce : bytes; iss_entropy : bytes; iss_amount : 
                  bytes; iss_token : bytes }

type txin = { in_hash : bytes; in_index : n; in_seq : n; in_script : 
              bytes; in_witness : bytes list; in_pegin : bool;
              in_pegwit : bytes list; in_iss : issuance option;
              in_irp : bytes; in_inrp : bytes }

type txout = { o_asset : bytes; o_value : bytes; o_script : bytes;
               o_nonce : bytes; o_rp : bytes; o_sp : bytes }

type tx = { t_version : n; t_flag : n; t_locktime : n; t_ins : txin list;
            t_outs : txout list }

(** val minusOne : n **)

let minusOne =
  Npos (XI (XI (XI (XI (XI (XI (XI (XI (XI (XI (XI (XI (XI (XI (XI (XI (XI
    (XI (XI (XI (XI (XI (XI (XI (XI (XI (XI (XI (XI (XI (XI
    XH)))))))))))))))))))))))))))))))

(** val outpointIndexMask : n **)

let outpointIndexMask =
  Npos (XI (XI (XI (XI (XI (XI (XI (XI (XI (XI (XI (XI (XI (XI (XI (XI (XI
    (XI (XI (XI (XI (XI (XI (XI (XI (XI (XI (XI (XI
    XH)))))))))))))))))))))))))))))

(** val outpointIssuanceFlag : n **)

let outpointIssuanceFlag =
  Npos (XO (XO (XO (XO (XO (XO (XO (XO (XO (XO (XO (XO (XO (XO (XO (XO (XO
    (XO (XO (XO (XO (XO (XO (XO (XO (XO (XO (XO (XO (XO (XO
    XH)))))))))))))))))))))))))))))))

(** val outpointPeginFlag : n **)

let outpointPeginFlag =
  Npos (XO (XO (XO (XO (XO (XO (XO (XO (XO (XO (XO (XO (XO (XO (XO (XO (XO
    (XO (XO (XO (XO (XO (XO (XO (XO (XO (XO (XO (XO (XO
    XH))))))))))))))))))))))))))))))

(** val witnessScaleFactor : n **)

let witnessScaleFactor =
  Npos (XO (XO XH))

(** val nonempty : 'a1 list -> bool **)

let nonempty = function
| [] -> false
| _ :: _ -> true

(** val any_witness_input : tx -> bool **)

let any_witness_input t =
  existsb (fun i ->
    (||)
      ((||) ((||) (nonempty i.in_witness) (nonempty i.in_pegwit))
        (nonempty i.in_irp)) (nonempty i.in_inrp)) t.t_ins

(** val any_conf_output : tx -> bool **)

let any_conf_output t =
  existsb (fun o -> (||) (nonempty o.o_rp) (nonempty o.o_sp)) t.t_outs

(** val has_witness : tx -> bool **)

let has_witness t =
  (||) ((||) (N.eqb t.t_flag (Npos XH)) (any_witness_input t))
    (any_conf_output t)

(** val raw_index : txin -> n **)

let raw_index i =
  let a =
    match i.in_iss with
    | Some _ -> N.coq_lor i.in_index outpointIssuanceFlag
    | None -> i.in_index
  in
  if i.in_pegin then N.coq_lor a outpointPeginFlag else a

(** val ser_iss : issuance -> bytes **)

let ser_iss s =
  app s.iss_nonce (app s.iss_entropy (app s.iss_amount s.iss_token))

(** val ser_in : txin -> bytes **)

let ser_in i =
  app i.in_hash
    (app (le_enc (S (S (S (S O)))) (raw_index i))
      (app (var_slice i.in_script)
        (app (le_enc (S (S (S (S O)))) i.in_seq)
          (match i.in_iss with
           | Some s -> ser_iss s
           | None -> []))))

(** val ser_out : bool -> bool -> txout -> bytes **)

let ser_out sig_wit with_rp o =
  app o.o_asset
    (app (if sig_wit then [] else o.o_value)
      (app o.o_nonce
        (app
          (if sig_wit then le_enc (S (S (S (S (S (S (S (S O)))))))) N0 else [])
          (app (var_slice o.o_script)
            (if with_rp then app (var_slice o.o_rp) (var_slice o.o_sp) else [])))))

(** val ser_in_wit : txin -> bytes **)

let ser_in_wit i =
  app (var_slice i.in_irp)
    (app (var_slice i.in_inrp)
      (app (vector i.in_witness) (vector i.in_pegwit)))

(** val ser_out_wit : txout -> bytes **)

let ser_out_wit o =
  app (var_slice o.o_sp) (var_slice o.o_rp)

(** val ser_tx : bool -> bool -> bool -> bool -> tx -> bytes **)

let ser_tx allow_witness zero_flag for_sig with_rp t =
  let hasw = (&&) allow_witness (has_witness t) in
  app (le_enc (S (S (S (S O)))) t.t_version)
    (app
      (if for_sig
       then []
       else (if (&&) hasw (negb zero_flag) then b8 (Npos XH) else b8 N0) :: [])
      (app (varint (lenL t.t_ins))
        (app (enc_list ser_in t.t_ins)
          (app (varint (lenL t.t_outs))
            (app (enc_list (ser_out ((&&) for_sig hasw) with_rp) t.t_outs)
              (app (le_enc (S (S (S (S O)))) t.t_locktime)
                (if (&&) (negb for_sig) hasw
                 then app (enc_list ser_in_wit t.t_ins)
                        (enc_list ser_out_wit t.t_outs)
                 else [])))))))

(** val ser_full : tx -> bytes **)

let ser_full t =
  ser_tx true false false false t

(** val ser_txid : tx -> bytes **)

let ser_txid t =
  ser_tx false true false false t

(** val ser_wtxid : tx -> bytes **)

let ser_wtxid t =
  if has_witness t then ser_tx true true false false t else ser_txid t

(** val p_value : bytes parser0 **)

let p_value = function
| [] -> None
| v :: r ->
  let n0 = n8 v in
  if N.eqb n0 N0
  then Some ((v :: []), r)
  else if N.eqb n0 (Npos XH)
       then (match take (S (S (S (S (S (S (S (S O)))))))) r with
             | Some p -> let (x, r') = p in Some ((v :: x), r')
             | None -> None)
       else if (||) (N.eqb n0 (Npos (XO (XO (XO XH)))))
                 (N.eqb n0 (Npos (XI (XO (XO XH)))))
            then (match take (S (S (S (S (S (S (S (S (S (S (S (S (S (S (S (S
                          (S (S (S (S (S (S (S (S (S (S (S (S (S (S (S (S
                          O)))))))))))))))))))))))))))))))) r with
                  | Some p -> let (x, r') = p in Some ((v :: x), r')
                  | None -> None)
            else None

(** val p_asset : bytes parser0 **)

let p_asset = function
| [] -> None
| v :: r ->
  let n0 = n8 v in
  if (||) ((||) (N.eqb n0 (Npos XH)) (N.eqb n0 (Npos (XO (XI (XO XH))))))
       (N.eqb n0 (Npos (XI (XI (XO XH)))))
  then (match take (S (S (S (S (S (S (S (S (S (S (S (S (S (S (S (S (S (S (S
                (S (S (S (S (S (S (S (S (S (S (S (S (S
                O)))))))))))))))))))))))))))))))) r with
        | Some p -> let (x, r') = p in Some ((v :: x), r')
        | None -> None)
  else None

(** val p_nonce : bytes parser0 **)

let p_nonce = function
| [] -> None
| v :: r ->
  let n0 = n8 v in
  if (&&) (N.leb (Npos XH) n0) (N.leb n0 (Npos (XI XH)))
  then (match take (S (S (S (S (S (S (S (S (S (S (S (S (S (S (S (S (S (S (S
                (S (S (S (S (S (S (S (S (S (S (S (S (S
                O)))))))))))))))))))))))))))))))) r with
        | Some p -> let (x, r') = p in Some ((v :: x), r')
        | None -> None)
  else Some ((v :: []), r)

(** val p_issuance : issuance parser0 **)

let p_issuance =
  bind
    (take (S (S (S (S (S (S (S (S (S (S (S (S (S (S (S (S (S (S (S (S (S (S
      (S (S (S (S (S (S (S (S (S (S O)))))))))))))))))))))))))))))))))
    (fun a ->
    bind
      (take (S (S (S (S (S (S (S (S (S (S (S (S (S (S (S (S (S (S (S (S (S (S
        (S (S (S (S (S (S (S (S (S (S O)))))))))))))))))))))))))))))))))
      (fun b ->
      bind p_value (fun c ->
        bind p_value (fun d ->
          ret { iss_nonce = a; iss_entropy = b; iss_amount = c; iss_token =
            d }))))

(** val p_in : txin parser0 **)

let p_in =
  bind
    (take (S (S (S (S (S (S (S (S (S (S (S (S (S (S (S (S (S (S (S (S (S (S
      (S (S (S (S (S (S (S (S (S (S O)))))))))))))))))))))))))))))))))
    (fun h ->
    bind (p_le (S (S (S (S O))))) (fun idx ->
      bind p_var_slice (fun scr ->
        bind (p_le (S (S (S (S O))))) (fun sq ->
          if N.eqb idx minusOne
          then ret { in_hash = h; in_index = idx; in_seq = sq; in_script =
                 scr; in_witness = []; in_pegin = false; in_pegwit = [];
                 in_iss = None; in_irp = []; in_inrp = [] }
          else bind
                 (if N.testbit idx (Npos (XI (XI (XI (XI XH)))))
                  then bind p_issuance (fun s -> ret (Some s))
                  else ret None) (fun iss ->
                 ret { in_hash = h; in_index =
                   (N.coq_land idx outpointIndexMask); in_seq = sq;
                   in_script = scr; in_witness = []; in_pegin =
                   (N.testbit idx (Npos (XO (XI (XI (XI XH)))))); in_pegwit =
                   []; in_iss = iss; in_irp = []; in_inrp = [] })))))

(** val p_out : txout parser0 **)

let p_out =
  bind p_asset (fun a ->
    bind p_value (fun v ->
      bind p_nonce (fun n0 ->
        bind p_var_slice (fun s ->
          ret { o_asset = a; o_value = v; o_script = s; o_nonce = n0; o_rp =
            []; o_sp = [] }))))

type in_wit = { w_irp : bytes; w_inrp : bytes; w_wit : bytes list;
                w_peg : bytes list }

(** val p_in_wit : in_wit parser0 **)

let p_in_wit =
  bind p_var_slice (fun a ->
    bind p_var_slice (fun b ->
      bind p_vector (fun c ->
        bind p_vector (fun d ->
          ret { w_irp = a; w_inrp = b; w_wit = c; w_peg = d }))))

(** val p_out_wit : (bytes * bytes) parser0 **)

let p_out_wit =
  bind p_var_slice (fun s -> bind p_var_slice (fun r -> ret (s, r)))

(** val set_in_wit : txin -> in_wit -> txin **)

let set_in_wit i w =
  { in_hash = i.in_hash; in_index = i.in_index; in_seq = i.in_seq;
    in_script = i.in_script; in_witness = w.w_wit; in_pegin = i.in_pegin;
    in_pegwit = w.w_peg; in_iss = i.in_iss; in_irp = w.w_irp; in_inrp =
    w.w_inrp }

(** val set_out_wit : txout -> (bytes * bytes) -> txout **)

let set_out_wit o w =
  { o_asset = o.o_asset; o_value = o.o_value; o_script = o.o_script;
    o_nonce = o.o_nonce; o_rp = (snd w); o_sp = (fst w) }

(** val zip_with : ('a1 -> 'a2 -> 'a3) -> 'a1 list -> 'a2 list -> 'a3 list **)

let rec zip_with f la lb =
  match la with
  | [] -> []
  | a :: la' ->
    (match lb with
     | [] -> []
     | b :: lb' -> (f a b) :: (zip_with f la' lb'))

(** val parse_tx : tx parser0 **)

let parse_tx =
  bind (p_le (S (S (S (S O))))) (fun ver ->
    bind p_u8 (fun flag ->
      bind p_varint (fun nin ->
        bind (p_list p_in nin) (fun ins ->
          bind p_varint (fun nout ->
            bind (p_list p_out nout) (fun outs ->
              bind (p_le (S (S (S (S O))))) (fun lt ->
                if N.eqb flag (Npos XH)
                then bind (p_list p_in_wit (lenL ins)) (fun iw ->
                       bind (p_list p_out_wit (lenL outs)) (fun ow ->
                         ret { t_version = ver; t_flag = flag; t_locktime =
                           lt; t_ins = (zip_with set_in_wit ins iw); t_outs =
                           (zip_with set_out_wit outs ow) }))
                else ret { t_version = ver; t_flag = flag; t_locktime = lt;
                       t_ins = ins; t_outs = outs })))))))

(** val is_value : bytes -> bool **)

let is_value = function
| [] -> false
| v :: r ->
  let n0 = n8 v in
  if N.eqb n0 N0
  then Nat.eqb (length r) O
  else if N.eqb n0 (Npos XH)
       then Nat.eqb (length r) (S (S (S (S (S (S (S (S O))))))))
       else if (||) (N.eqb n0 (Npos (XO (XO (XO XH)))))
                 (N.eqb n0 (Npos (XI (XO (XO XH)))))
            then Nat.eqb (length r) (S (S (S (S (S (S (S (S (S (S (S (S (S (S
                   (S (S (S (S (S (S (S (S (S (S (S (S (S (S (S (S (S (S
                   O))))))))))))))))))))))))))))))))
            else false

(** val is_asset : bytes -> bool **)

let is_asset = function
| [] -> false
| v :: r ->
  let n0 = n8 v in
  (&&)
    ((||) ((||) (N.eqb n0 (Npos XH)) (N.eqb n0 (Npos (XO (XI (XO XH))))))
      (N.eqb n0 (Npos (XI (XI (XO XH))))))
    (Nat.eqb (length r) (S (S (S (S (S (S (S (S (S (S (S (S (S (S (S (S (S (S
      (S (S (S (S (S (S (S (S (S (S (S (S (S (S
      O)))))))))))))))))))))))))))))))))

(** val is_nonce : bytes -> bool **)

let is_nonce = function
| [] -> false
| v :: r ->
  let n0 = n8 v in
  if (&&) (N.leb (Npos XH) n0) (N.leb n0 (Npos (XI XH)))
  then Nat.eqb (length r) (S (S (S (S (S (S (S (S (S (S (S (S (S (S (S (S (S
         (S (S (S (S (S (S (S (S (S (S (S (S (S (S (S
         O))))))))))))))))))))))))))))))))
  else Nat.eqb (length r) O

(** val wf_iss : issuance -> bool **)

let wf_iss s =
  (&&)
    ((&&)
      ((&&)
        (Nat.eqb (length s.iss_nonce) (S (S (S (S (S (S (S (S (S (S (S (S (S
          (S (S (S (S (S (S (S (S (S (S (S (S (S (S (S (S (S (S (S
          O)))))))))))))))))))))))))))))))))
        (Nat.eqb (length s.iss_entropy) (S (S (S (S (S (S (S (S (S (S (S (S
          (S (S (S (S (S (S (S (S (S (S (S (S (S (S (S (S (S (S (S (S
          O)))))))))))))))))))))))))))))))))) (is_value s.iss_amount))
    (is_value s.iss_token)

(** val wf_slice : bytes -> bool **)

let wf_slice x =
  N.ltb (lenN x) two64

(** val wf_vec : bytes list -> bool **)

let wf_vec v =
  (&&) (N.ltb (lenL v) two64) (forallb wf_slice v)

(** val wf_in : txin -> bool **)

let wf_in i =
  (&&)
    ((&&)
      ((&&)
        ((&&)
          ((&&)
            ((&&)
              ((&&)
                (Nat.eqb (length i.in_hash) (S (S (S (S (S (S (S (S (S (S (S
                  (S (S (S (S (S (S (S (S (S (S (S (S (S (S (S (S (S (S (S (S
                  (S O)))))))))))))))))))))))))))))))))
                (N.ltb i.in_seq two32)) (wf_slice i.in_script))
            (if N.eqb i.in_index minusOne
             then (&&) (negb i.in_pegin)
                    (match i.in_iss with
                     | Some _ -> false
                     | None -> true)
             else (&&)
                    ((&&) (N.leb i.in_index outpointIndexMask)
                      (negb
                        ((&&)
                          ((&&) (N.eqb i.in_index outpointIndexMask)
                            i.in_pegin)
                          (match i.in_iss with
                           | Some _ -> true
                           | None -> false))))
                    (match i.in_iss with
                     | Some s -> wf_iss s
                     | None -> true))) (wf_slice i.in_irp))
        (wf_slice i.in_inrp)) (wf_vec i.in_witness)) (wf_vec i.in_pegwit)

(** val wf_out : txout -> bool **)

let wf_out o =
  (&&)
    ((&&)
      ((&&)
        ((&&) ((&&) (is_asset o.o_asset) (is_value o.o_value))
          (is_nonce o.o_nonce)) (wf_slice o.o_script)) (wf_slice o.o_rp))
    (wf_slice o.o_sp)

(** val wf_tx : tx -> bool **)

let wf_tx t =
  (&&)
    ((&&)
      ((&&)
        ((&&) ((&&) (N.ltb t.t_version two32) (N.ltb t.t_locktime two32))
          (N.ltb (lenL t.t_ins) two64)) (N.ltb (lenL t.t_outs) two64))
      (forallb wf_in t.t_ins)) (forallb wf_out t.t_outs)

(** val norm_tx : tx -> tx **)

let norm_tx t =
  { t_version = t.t_version; t_flag =
    (if has_witness t then Npos XH else N0); t_locktime = t.t_locktime;
    t_ins = t.t_ins; t_outs = t.t_outs }

(** val canonical_flag : tx -> bool **)

let canonical_flag t =
  (||) (N.eqb t.t_flag N0) (N.eqb t.t_flag (Npos XH))

(** val size_in : txin -> n **)

let size_in i =
  N.add
    (N.add (Npos (XO (XO (XO (XI (XO XH)))))) (var_slice_size i.in_script))
    (match i.in_iss with
     | Some s ->
       N.add
         (N.add (Npos (XO (XO (XO (XO (XO (XO XH))))))) (lenN s.iss_amount))
         (lenN s.iss_token)
     | None -> N0)

(** val size_out : txout -> n **)

let size_out o =
  N.add (N.add (N.add (lenN o.o_asset) (lenN o.o_value)) (lenN o.o_nonce))
    (var_slice_size o.o_script)

(** val sumN : ('a1 -> n) -> 'a1 list -> n **)

let sumN f l =
  fold_right (fun x acc -> N.add (f x) acc) N0 l

(** val base_size : bool -> tx -> n **)

let base_size for_sig t =
  N.add
    (N.add
      (N.add
        (N.add
          (N.add (Npos (XO (XO (XO XH)))) (if for_sig then N0 else Npos XH))
          (varint_size (lenL t.t_ins))) (varint_size (lenL t.t_outs)))
      (sumN size_in t.t_ins)) (sumN size_out t.t_outs)

(** val size_in_wit : txin -> n **)

let size_in_wit i =
  N.add
    (N.add (N.add (var_slice_size i.in_irp) (var_slice_size i.in_inrp))
      (vector_size i.in_witness)) (vector_size i.in_pegwit)

(** val size_out_wit : txout -> n **)

let size_out_wit o =
  N.add (var_slice_size o.o_sp) (var_slice_size o.o_rp)

(** val size_tx : bool -> bool -> tx -> n **)

let size_tx allow_witness for_sig t =
  N.add (base_size for_sig t)
    (if (&&) allow_witness (has_witness t)
     then N.add (sumN size_in_wit t.t_ins) (sumN size_out_wit t.t_outs)
     else N0)

(** val weight : tx -> n **)

let weight t =
  N.add (N.mul (size_tx false false t) (N.sub witnessScaleFactor (Npos XH)))
    (size_tx true false t)

(** val vsize : tx -> n **)

let vsize t =
  N.div (N.sub (N.add (weight t) witnessScaleFactor) (Npos XH))
    witnessScaleFactor

(** val is_conf_out : txout -> bool **)

let is_conf_out o =
  Nat.ltb (S O) (length o.o_nonce)

(** val discount_out : txout -> z **)

let discount_out o =
  if is_conf_out o
  then let ww =
         Z.add (Z.add (Zneg (XO XH)) (Z.of_N (var_slice_size o.o_rp)))
           (Z.of_N (var_slice_size o.o_sp))
       in
       Z.add
         (Z.add (if Z.ltb Z0 ww then ww else Z0)
           (Z.mul
             (Z.sub (Zpos (XI (XO (XO (XO (XO XH)))))) (Zpos (XI (XO (XO
               XH))))) (Zpos (XO (XO XH)))))
         (Z.mul (Z.sub (Zpos (XI (XO (XO (XO (XO XH)))))) (Zpos XH)) (Zpos
           (XO (XO XH))))
  else Z0

(** val discount_weight : tx -> z **)

let discount_weight t =
  Z.sub (Z.of_N (weight t))
    (fold_right (fun o acc -> Z.add (discount_out o) acc) Z0 t.t_outs)

(** val discount_vsize_go : tx -> z **)

let discount_vsize_go t =
  Z.quot (Z.sub (Z.add (discount_weight t) (Zpos (XO (XO XH)))) (Zpos XH))
    (Zpos (XO (XO XH)))

(** val copy_in : txin -> txin **)

let copy_in i =
  i

(** val copy_tx : tx -> tx **)

let copy_tx t =
  { t_version = t.t_version; t_flag = t.t_flag; t_locktime = t.t_locktime;
    t_ins = (map copy_in t.t_ins); t_outs = t.t_outs }

(** val txid : tx -> bytes **)

let txid t =
  dsha256 (ser_txid t)

(** val wtxid : tx -> bytes **)

let wtxid t =
  dsha256 (ser_wtxid t)

(** val v0_magic : bytes **)

let v0_magic =
  X70 :: (X73 :: (X65 :: (X74 :: (Xff :: []))))

(** val v0_T_UnsignedTx : n **)

let v0_T_UnsignedTx =
  N0

(** val v0_T_NonWitnessUtxo : n **)

let v0_T_NonWitnessUtxo =
  N0

(** val v0_T_WitnessUtxo : n **)

let v0_T_WitnessUtxo =
  Npos XH

(** val v0_T_PartialSig : n **)

let v0_T_PartialSig =
  Npos (XO XH)

(** val v0_T_Sighash : n **)

let v0_T_Sighash =
  Npos (XI XH)

(** val v0_T_RedeemScript : n **)

let v0_T_RedeemScript =
  Npos (XO (XO XH))

(** val v0_T_WitnessScript : n **)

let v0_T_WitnessScript =
  Npos (XI (XO XH))

(** val v0_T_Bip32 : n **)

let v0_T_Bip32 =
  Npos (XO (XI XH))

(** val v0_T_FinalScriptSig : n **)

let v0_T_FinalScriptSig =
  Npos (XI (XI XH))

(** val v0_T_FinalScriptWitness : n **)

let v0_T_FinalScriptWitness =
  Npos (XO (XO (XO XH)))

(** val v0_TO_RedeemScript : n **)

let v0_TO_RedeemScript =
  N0

(** val v0_TO_WitnessScript : n **)

let v0_TO_WitnessScript =
  Npos XH

(** val v0_TO_Bip32 : n **)

let v0_TO_Bip32 =
  Npos (XO XH)

(** val v0_MaxKeyLen : n **)

let v0_MaxKeyLen =
  Npos (XO (XO (XO (XO (XI (XO (XO (XO (XI (XI (XI (XO (XO XH)))))))))))))

(** val v0_MaxValLen : n **)

let v0_MaxValLen =
  Npos (XO (XO (XO (XO (XO (XO (XO (XO (XI (XO (XO (XI (XO (XO (XO (XO (XI
    (XO (XI (XI (XI XH)))))))))))))))))))))

(** val v0_MinTxOutLen : nat **)

let v0_MinTxOutLen =
  S (S (S (S (S (S (S (S (S (S (S (S (S (S (S (S (S (S (S (S (S (S (S (S (S
    (S (S (S (S (S (S (S (S (S (S (S (S (S (S (S (S (S (S (S
    O)))))))))))))))))))))))))))))))))))))))))))

type v0sig = { sg_pk : bytes; sg_sig : bytes }

type v0der = { dv_pk : bytes; dv_fp : n; dv_path : n list }

type v0unk = { uk_key : bytes; uk_val : bytes }

type v0in = { vi_nwu : tx option; vi_wu : txout option; vi_sigs : v0sig list;
              vi_sighash : n; vi_redeem : bytes option;
              vi_wscript : bytes option; vi_ders : v0der list;
              vi_fsig : bytes option; vi_fwit : bytes option;
              vi_unk : v0unk list }

type v0out = { vo_redeem : bytes option; vo_wscript : bytes option;
               vo_ders : v0der list }

type v0pset = { vp_tx : tx; vp_ins : v0in list; vp_outs : v0out list;
                vp_unk : v0unk list }

(** val v0_in_empty : v0in **)

let v0_in_empty =
  { vi_nwu = None; vi_wu = None; vi_sigs = []; vi_sighash = N0; vi_redeem =
    None; vi_wscript = None; vi_ders = []; vi_fsig = None; vi_fwit = None;
    vi_unk = [] }

(** val v0_out_empty : v0out **)

let v0_out_empty =
  { vo_redeem = None; vo_wscript = None; vo_ders = [] }

(** val v0_set_nwu : v0in -> tx option -> v0in **)

let v0_set_nwu i x =
  { vi_nwu = x; vi_wu = i.vi_wu; vi_sigs = i.vi_sigs; vi_sighash =
    i.vi_sighash; vi_redeem = i.vi_redeem; vi_wscript = i.vi_wscript;
    vi_ders = i.vi_ders; vi_fsig = i.vi_fsig; vi_fwit = i.vi_fwit; vi_unk =
    i.vi_unk }

(** val v0_set_wu : v0in -> txout option -> v0in **)

let v0_set_wu i x =
  { vi_nwu = i.vi_nwu; vi_wu = x; vi_sigs = i.vi_sigs; vi_sighash =
    i.vi_sighash; vi_redeem = i.vi_redeem; vi_wscript = i.vi_wscript;
    vi_ders = i.vi_ders; vi_fsig = i.vi_fsig; vi_fwit = i.vi_fwit; vi_unk =
    i.vi_unk }

(** val v0_set_sigs : v0in -> v0sig list -> v0in **)

let v0_set_sigs i x =
  { vi_nwu = i.vi_nwu; vi_wu = i.vi_wu; vi_sigs = x; vi_sighash =
    i.vi_sighash; vi_redeem = i.vi_redeem; vi_wscript = i.vi_wscript;
    vi_ders = i.vi_ders; vi_fsig = i.vi_fsig; vi_fwit = i.vi_fwit; vi_unk =
    i.vi_unk }

(** val v0_set_sighash : v0in -> n -> v0in **)

let v0_set_sighash i x =
  { vi_nwu = i.vi_nwu; vi_wu = i.vi_wu; vi_sigs = i.vi_sigs; vi_sighash = x;
    vi_redeem = i.vi_redeem; vi_wscript = i.vi_wscript; vi_ders = i.vi_ders;
    vi_fsig = i.vi_fsig; vi_fwit = i.vi_fwit; vi_unk = i.vi_unk }

(** val v0_set_redeem : v0in -> bytes option -> v0in **)

let v0_set_redeem i x =
  { vi_nwu = i.vi_nwu; vi_wu = i.vi_wu; vi_sigs = i.vi_sigs; vi_sighash =
    i.vi_sighash; vi_redeem = x; vi_wscript = i.vi_wscript; vi_ders =
    i.vi_ders; vi_fsig = i.vi_fsig; vi_fwit = i.vi_fwit; vi_unk = i.vi_unk }

(** val v0_set_wscript : v0in -> bytes option -> v0in **)

let v0_set_wscript i x =
  { vi_nwu = i.vi_nwu; vi_wu = i.vi_wu; vi_sigs = i.vi_sigs; vi_sighash =
    i.vi_sighash; vi_redeem = i.vi_redeem; vi_wscript = x; vi_ders =
    i.vi_ders; vi_fsig = i.vi_fsig; vi_fwit = i.vi_fwit; vi_unk = i.vi_unk }

(** val v0_set_ders : v0in -> v0der list -> v0in **)

let v0_set_ders i x =
  { vi_nwu = i.vi_nwu; vi_wu = i.vi_wu; vi_sigs = i.vi_sigs; vi_sighash =
    i.vi_sighash; vi_redeem = i.vi_redeem; vi_wscript = i.vi_wscript;
    vi_ders = x; vi_fsig = i.vi_fsig; vi_fwit = i.vi_fwit; vi_unk = i.vi_unk }

(** val v0_set_fsig : v0in -> bytes option -> v0in **)

let v0_set_fsig i x =
  { vi_nwu = i.vi_nwu; vi_wu = i.vi_wu; vi_sigs = i.vi_sigs; vi_sighash =
    i.vi_sighash; vi_redeem = i.vi_redeem; vi_wscript = i.vi_wscript;
    vi_ders = i.vi_ders; vi_fsig = x; vi_fwit = i.vi_fwit; vi_unk = i.vi_unk }

(** val v0_set_fwit : v0in -> bytes option -> v0in **)

let v0_set_fwit i x =
  { vi_nwu = i.vi_nwu; vi_wu = i.vi_wu; vi_sigs = i.vi_sigs; vi_sighash =
    i.vi_sighash; vi_redeem = i.vi_redeem; vi_wscript = i.vi_wscript;
    vi_ders = i.vi_ders; vi_fsig = i.vi_fsig; vi_fwit = x; vi_unk = i.vi_unk }

(** val v0_set_unk : v0in -> v0unk list -> v0in **)

let v0_set_unk i x =
  { vi_nwu = i.vi_nwu; vi_wu = i.vi_wu; vi_sigs = i.vi_sigs; vi_sighash =
    i.vi_sighash; vi_redeem = i.vi_redeem; vi_wscript = i.vi_wscript;
    vi_ders = i.vi_ders; vi_fsig = i.vi_fsig; vi_fwit = i.vi_fwit; vi_unk =
    x }

(** val v0_is_some : 'a1 option -> bool **)

let v0_is_some = function
| Some _ -> true
| None -> false

(** val v0_bytes_ltb : bytes -> bytes -> bool **)

let rec v0_bytes_ltb a b =
  match a with
  | [] -> (match b with
           | [] -> false
           | _ :: _ -> true)
  | x :: a' ->
    (match b with
     | [] -> false
     | y :: b' ->
       if N.ltb (n8 x) (n8 y)
       then true
       else if N.ltb (n8 y) (n8 x) then false else v0_bytes_ltb a' b')

(** val v0_insert : ('a1 -> bytes) -> 'a1 -> 'a1 list -> 'a1 list **)

let rec v0_insert key a = function
| [] -> a :: []
| y :: r ->
  if v0_bytes_ltb (key y) (key a)
  then y :: (v0_insert key a r)
  else a :: (y :: r)

(** val v0_sort : ('a1 -> bytes) -> 'a1 list -> 'a1 list **)

let v0_sort key l =
  fold_right (v0_insert key) [] l

(** val v0_sane : v0in -> bool **)

let v0_sane i =
  (&&)
    ((&&) (negb ((&&) (v0_is_some i.vi_nwu) (v0_is_some i.vi_wu)))
      (negb ((&&) (negb (v0_is_some i.vi_wu)) (v0_is_some i.vi_wscript))))
    (negb ((&&) (negb (v0_is_some i.vi_wu)) (v0_is_some i.vi_fwit)))

(** val v0_finalized : v0in -> bool **)

let v0_finalized i =
  (||) (v0_is_some i.vi_fsig) (v0_is_some i.vi_fwit)

(** val v0_unsigned_ok : tx -> bool **)

let v0_unsigned_ok t =
  forallb (fun i ->
    (&&) (negb (nonempty i.in_script)) (negb (nonempty i.in_witness))) t.t_ins

(** val v0_kv : (bytes * bytes) -> bytes **)

let v0_kv kv =
  app (var_slice (fst kv)) (var_slice (snd kv))

(** val v0_is_conf : txout -> bool **)

let v0_is_conf o =
  Nat.ltb (S O) (length o.o_nonce)

(** val v0_ser_wu : txout -> bytes **)

let v0_ser_wu o =
  app (ser_out false false o)
    (if v0_is_conf o then app (var_slice o.o_sp) (var_slice o.o_rp) else [])

(** val v0_ser_bip32 : v0der -> bytes **)

let v0_ser_bip32 d =
  app (le_enc (S (S (S (S O)))) d.dv_fp)
    (concat (map (le_enc (S (S (S (S O))))) d.dv_path))

(** val v0_opt_kv : n -> bytes option -> (bytes * bytes) list **)

let v0_opt_kv ty = function
| Some v -> (((b8 ty) :: []), v) :: []
| None -> []

(** val v0_sig_kv : v0sig -> bytes * bytes **)

let v0_sig_kv s =
  (((b8 v0_T_PartialSig) :: s.sg_pk), s.sg_sig)

(** val v0_der_kv : n -> v0der -> bytes * bytes **)

let v0_der_kv ty d =
  (((b8 ty) :: d.dv_pk), (v0_ser_bip32 d))

(** val v0_unk_kv : v0unk -> bytes * bytes **)

let v0_unk_kv u =
  (u.uk_key, u.uk_val)

(** val v0_in_kvs : v0in -> (bytes * bytes) list **)

let v0_in_kvs i =
  app
    (match i.vi_nwu with
     | Some t -> (((b8 v0_T_NonWitnessUtxo) :: []), (ser_full t)) :: []
     | None -> [])
    (app
      (match i.vi_wu with
       | Some o -> (((b8 v0_T_WitnessUtxo) :: []), (v0_ser_wu o)) :: []
       | None -> [])
      (app
        (if v0_finalized i
         then []
         else app (map v0_sig_kv (v0_sort (fun v -> v.sg_pk) i.vi_sigs))
                (app
                  (if N.eqb i.vi_sighash N0
                   then []
                   else (((b8 v0_T_Sighash) :: []),
                          (le_enc (S (S (S (S O)))) i.vi_sighash)) :: [])
                  (app (v0_opt_kv v0_T_RedeemScript i.vi_redeem)
                    (app (v0_opt_kv v0_T_WitnessScript i.vi_wscript)
                      (map (v0_der_kv v0_T_Bip32)
                        (v0_sort (fun v -> v.dv_pk) i.vi_ders))))))
        (app (v0_opt_kv v0_T_FinalScriptSig i.vi_fsig)
          (app (v0_opt_kv v0_T_FinalScriptWitness i.vi_fwit)
            (map v0_unk_kv i.vi_unk)))))

(** val v0_out_kvs : v0out -> (bytes * bytes) list **)

let v0_out_kvs o =
  app (v0_opt_kv v0_TO_RedeemScript o.vo_redeem)
    (app (v0_opt_kv v0_TO_WitnessScript o.vo_wscript)
      (map (v0_der_kv v0_TO_Bip32) (v0_sort (fun v -> v.dv_pk) o.vo_ders)))

(** val v0_sep : bytes **)

let v0_sep =
  X00 :: []

(** val v0_ser_section : (bytes * bytes) list -> bytes **)

let v0_ser_section kvs =
  app (enc_list v0_kv kvs) v0_sep

(** val v0_global_kvs : v0pset -> (bytes * bytes) list **)

let v0_global_kvs p =
  (((b8 v0_T_UnsignedTx) :: []),
    (ser_full p.vp_tx)) :: (map v0_unk_kv p.vp_unk)

(** val v0_ser : v0pset -> bytes option **)

let v0_ser p =
  if forallb v0_sane p.vp_ins
  then Some
         (app v0_magic
           (app (v0_ser_section (v0_global_kvs p))
             (app
               (concat (map (fun i -> v0_ser_section (v0_in_kvs i)) p.vp_ins))
               (concat
                 (map (fun o -> v0_ser_section (v0_out_kvs o)) p.vp_outs)))))
  else None

(** val v0_p_key : bytes option parser0 **)

let v0_p_key =
  bind p_varint (fun n0 ->
    if N.eqb n0 N0
    then ret None
    else if N.ltb v0_MaxKeyLen n0
         then pfail
         else bind (takeN n0) (fun k -> ret (Some k)))

(** val v0_p_val : bytes parser0 **)

let v0_p_val =
  bind p_varint (fun n0 -> if N.ltb v0_MaxValLen n0 then pfail else takeN n0)

(** val v0_p_section :
    ('a1 -> bytes -> bytes -> 'a1 option) -> nat -> 'a1 -> 'a1 parser0 **)

let rec v0_p_section step0 fuel st0 bs =
  match fuel with
  | O -> None
  | S f ->
    (match v0_p_key bs with
     | Some p ->
       let (o, r) = p in
       (match o with
        | Some k ->
          (match v0_p_val r with
           | Some p0 ->
             let (v, r') = p0 in
             (match step0 st0 k v with
              | Some st' -> v0_p_section step0 f st' r'
              | None -> None)
           | None -> None)
        | None -> Some (st0, r))
     | None -> None)

(** val v0_section :
    ('a1 -> bytes -> bytes -> 'a1 option) -> 'a1 -> 'a1 parser0 **)

let v0_section step0 st0 bs =
  v0_p_section step0 (S (length bs)) st0 bs

(** val v0_read_txout : bytes -> txout option **)

let v0_read_txout v =
  if Nat.ltb (length v) v0_MinTxOutLen
  then None
  else (match bind p_out (fun o ->
                if v0_is_conf o
                then bind p_var_slice (fun sp ->
                       bind p_var_slice (fun rp ->
                         ret { o_asset = o.o_asset; o_value = o.o_value;
                           o_script = o.o_script; o_nonce = o.o_nonce; o_rp =
                           rp; o_sp = sp }))
                else ret o) v with
        | Some p -> let (o, _) = p in Some o
        | None -> None)

(** val v0_words : bytes -> n list option **)

let rec v0_words = function
| [] -> Some []
| a :: l ->
  (match l with
   | [] -> None
   | b :: l0 ->
     (match l0 with
      | [] -> None
      | c :: l1 ->
        (match l1 with
         | [] -> None
         | d :: r ->
           (match v0_words r with
            | Some l2 -> Some ((le_dec (a :: (b :: (c :: (d :: []))))) :: l2)
            | None -> None))))

(** val v0_read_bip32 : bytes -> (n * n list) option **)

let v0_read_bip32 v =
  match v0_words v with
  | Some l -> (match l with
               | [] -> None
               | fp :: rest -> Some (fp, rest))
  | None -> None

(** val v0_parse_tx_value : bytes -> tx option **)

let v0_parse_tx_value v =
  match parse_tx v with
  | Some p -> let (t, _) = p in Some t
  | None -> None

(** val v0_no_kd : bytes -> bool **)

let v0_no_kd = function
| [] -> true
| _ :: _ -> false

(** val v0_in_step :
    (bytes -> bool) -> (bytes -> bool) -> v0in -> bytes -> bytes -> v0in
    option **)

let v0_in_step valid_pk valid_sig i k v =
  match k with
  | [] -> None
  | tb :: kd ->
    let ty = n8 tb in
    if N.eqb ty v0_T_NonWitnessUtxo
    then if v0_is_some i.vi_nwu
         then None
         else if negb (v0_no_kd kd)
              then None
              else (match v0_parse_tx_value v with
                    | Some t -> Some (v0_set_nwu i (Some t))
                    | None -> None)
    else if N.eqb ty v0_T_WitnessUtxo
         then if v0_is_some i.vi_wu
              then None
              else if negb (v0_no_kd kd)
                   then None
                   else (match v0_read_txout v with
                         | Some o -> Some (v0_set_wu i (Some o))
                         | None -> None)
         else if N.eqb ty v0_T_PartialSig
              then if negb ((&&) (valid_pk kd) (valid_sig v))
                   then None
                   else if existsb (fun s -> bytes_eqb s.sg_pk kd) i.vi_sigs
                        then None
                        else Some
                               (v0_set_sigs i
                                 (app i.vi_sigs ({ sg_pk = kd; sg_sig =
                                   v } :: [])))
              else if N.eqb ty v0_T_Sighash
                   then if negb (N.eqb i.vi_sighash N0)
                        then None
                        else if negb (v0_no_kd kd)
                             then None
                             else if negb
                                       (Nat.eqb (length v) (S (S (S (S O)))))
                                  then None
                                  else Some (v0_set_sighash i (le_dec v))
                   else if N.eqb ty v0_T_RedeemScript
                        then if v0_is_some i.vi_redeem
                             then None
                             else if negb (v0_no_kd kd)
                                  then None
                                  else Some (v0_set_redeem i (Some v))
                        else if N.eqb ty v0_T_WitnessScript
                             then if v0_is_some i.vi_wscript
                                  then None
                                  else if negb (v0_no_kd kd)
                                       then None
                                       else Some (v0_set_wscript i (Some v))
                             else if N.eqb ty v0_T_Bip32
                                  then if negb (valid_pk kd)
                                       then None
                                       else (match v0_read_bip32 v with
                                             | Some p ->
                                               let (fp, path) = p in
                                               if existsb (fun d ->
                                                    bytes_eqb d.dv_pk kd)
                                                    i.vi_ders
                                               then None
                                               else Some
                                                      (v0_set_ders i
                                                        (app i.vi_ders
                                                          ({ dv_pk = kd;
                                                          dv_fp = fp;
                                                          dv_path =
                                                          path } :: [])))
                                             | None -> None)
                                  else if N.eqb ty v0_T_FinalScriptSig
                                       then if v0_is_some i.vi_fsig
                                            then None
                                            else if negb (v0_no_kd kd)
                                                 then None
                                                 else Some
                                                        (v0_set_fsig i (Some
                                                          v))
                                       else if N.eqb ty
                                                 v0_T_FinalScriptWitness
                                            then if v0_is_some i.vi_fwit
                                                 then None
                                                 else if negb (v0_no_kd kd)
                                                      then None
                                                      else Some
                                                             (v0_set_fwit i
                                                               (Some v))
                                            else if existsb (fun u ->
                                                      (&&)
                                                        (bytes_eqb u.uk_key k)
                                                        (bytes_eqb u.uk_val v))
                                                      i.vi_unk
                                                 then None
                                                 else Some
                                                        (v0_set_unk i
                                                          (app i.vi_unk
                                                            ({ uk_key = k;
                                                            uk_val =
                                                            v } :: [])))

(** val v0_out_step :
    (bytes -> bool) -> v0out -> bytes -> bytes -> v0out option **)

let v0_out_step valid_pk o k v =
  match k with
  | [] -> None
  | tb :: kd ->
    let ty = n8 tb in
    if N.eqb ty v0_TO_RedeemScript
    then if v0_is_some o.vo_redeem
         then None
         else if negb (v0_no_kd kd)
              then None
              else Some { vo_redeem = (Some v); vo_wscript = o.vo_wscript;
                     vo_ders = o.vo_ders }
    else if N.eqb ty v0_TO_WitnessScript
         then if v0_is_some o.vo_wscript
              then None
              else if negb (v0_no_kd kd)
                   then None
                   else Some { vo_redeem = o.vo_redeem; vo_wscript = (Some
                          v); vo_ders = o.vo_ders }
         else if N.eqb ty v0_TO_Bip32
              then if negb (valid_pk kd)
                   then None
                   else (match v0_read_bip32 v with
                         | Some p ->
                           let (fp, path) = p in
                           if existsb (fun d -> bytes_eqb d.dv_pk kd)
                                o.vo_ders
                           then None
                           else Some { vo_redeem = o.vo_redeem; vo_wscript =
                                  o.vo_wscript; vo_ders =
                                  (app o.vo_ders ({ dv_pk = kd; dv_fp = fp;
                                    dv_path = path } :: [])) }
                         | None -> None)
              else None

(** val v0_gunk_step : v0unk list -> bytes -> bytes -> v0unk list option **)

let v0_gunk_step l k v =
  Some (app l ({ uk_key = k; uk_val = v } :: []))

(** val v0_sections : 'a1 parser0 -> 'a2 list -> 'a1 list parser0 **)

let rec v0_sections p = function
| [] -> ret []
| _ :: r -> bind p (fun a -> bind (v0_sections p r) (fun b -> ret (a :: b)))

(** val v0_parse_rest :
    (bytes -> bool) -> (bytes -> bool) -> v0pset parser0 **)

let v0_parse_rest valid_pk valid_sig =
  bind (take (S (S (S (S (S O)))))) (fun m ->
    if negb (bytes_eqb m v0_magic)
    then pfail
    else bind v0_p_key (fun k0 ->
           match k0 with
           | Some b ->
             (match b with
              | [] -> pfail
              | tb :: l ->
                (match l with
                 | [] ->
                   if negb (N.eqb (n8 tb) v0_T_UnsignedTx)
                   then pfail
                   else bind v0_p_val (fun v ->
                          match v0_parse_tx_value v with
                          | Some t ->
                            if negb (v0_unsigned_ok t)
                            then pfail
                            else bind (v0_section v0_gunk_step [])
                                   (fun unk ->
                                   bind
                                     (v0_sections
                                       (v0_section
                                         (v0_in_step valid_pk valid_sig)
                                         v0_in_empty) t.t_ins) (fun ins ->
                                     bind
                                       (v0_sections
                                         (v0_section (v0_out_step valid_pk)
                                           v0_out_empty) t.t_outs)
                                       (fun outs ->
                                       if forallb v0_sane ins
                                       then ret { vp_tx = t; vp_ins = ins;
                                              vp_outs = outs; vp_unk = unk }
                                       else pfail)))
                          | None -> pfail)
                 | _ :: _ -> pfail))
           | None -> pfail))

(** val v0_parse :
    (bytes -> bool) -> (bytes -> bool) -> bytes -> v0pset option **)

let v0_parse valid_pk valid_sig bs =
  match v0_parse_rest valid_pk valid_sig bs with
  | Some p0 -> let (p, _) = p0 in Some p
  | None -> None

(** val v0_len_ok : n -> bytes -> bool **)

let v0_len_ok max0 x =
  N.leb (lenN x) max0

(** val v0_nodupb : ('a1 -> 'a1 -> bool) -> 'a1 list -> bool **)

let rec v0_nodupb eqb1 = function
| [] -> true
| x :: r -> (&&) (negb (existsb (eqb1 x) r)) (v0_nodupb eqb1 r)

(** val v0_wf_nwu : tx -> bool **)

let v0_wf_nwu t =
  (&&) (wf_tx t) (v0_len_ok v0_MaxValLen (ser_full t))

(** val v0_wf_wu : txout -> bool **)

let v0_wf_wu o =
  (&&) (wf_out o) (v0_len_ok v0_MaxValLen (v0_ser_wu o))

(** val v0_wufloor : txout -> bool **)

let v0_wufloor o =
  Nat.leb v0_MinTxOutLen (length (v0_ser_wu o))

(** val v0_wf_sig : (bytes -> bool) -> (bytes -> bool) -> v0sig -> bool **)

let v0_wf_sig valid_pk valid_sig s =
  (&&)
    ((&&) ((&&) (valid_pk s.sg_pk) (valid_sig s.sg_sig))
      (N.leb (N.add (Npos XH) (lenN s.sg_pk)) v0_MaxKeyLen))
    (v0_len_ok v0_MaxValLen s.sg_sig)

(** val v0_wf_der : (bytes -> bool) -> v0der -> bool **)

let v0_wf_der valid_pk d =
  (&&)
    ((&&)
      ((&&)
        ((&&) (valid_pk d.dv_pk)
          (N.leb (N.add (Npos XH) (lenN d.dv_pk)) v0_MaxKeyLen))
        (N.ltb d.dv_fp two32)) (forallb (fun x -> N.ltb x two32) d.dv_path))
    (v0_len_ok v0_MaxValLen (v0_ser_bip32 d))

(** val v0_known_in_type : n -> bool **)

let v0_known_in_type ty =
  N.leb ty v0_T_FinalScriptWitness

(** val v0_wf_unk : v0unk -> bool **)

let v0_wf_unk u =
  (&&)
    ((&&)
      (match u.uk_key with
       | [] -> false
       | tb :: _ -> negb (v0_known_in_type (n8 tb)))
      (v0_len_ok v0_MaxKeyLen u.uk_key)) (v0_len_ok v0_MaxValLen u.uk_val)

(** val v0_wf_gunk : v0unk -> bool **)

let v0_wf_gunk u =
  (&&) ((&&) (nonempty u.uk_key) (v0_len_ok v0_MaxKeyLen u.uk_key))
    (v0_len_ok v0_MaxValLen u.uk_val)

(** val v0_wf_script : bytes option -> bool **)

let v0_wf_script = function
| Some s -> v0_len_ok v0_MaxValLen s
| None -> true

(** val v0_unk_eqb : v0unk -> v0unk -> bool **)

let v0_unk_eqb a b =
  (&&) (bytes_eqb a.uk_key b.uk_key) (bytes_eqb a.uk_val b.uk_val)

(** val v0_wf_in_core : (bytes -> bool) -> (bytes -> bool) -> v0in -> bool **)

let v0_wf_in_core valid_pk valid_sig i =
  (&&)
    ((&&)
      ((&&)
        ((&&)
          ((&&)
            ((&&)
              ((&&)
                ((&&)
                  ((&&)
                    ((&&)
                      ((&&)
                        ((&&)
                          (match i.vi_nwu with
                           | Some t -> v0_wf_nwu t
                           | None -> true)
                          (match i.vi_wu with
                           | Some o -> v0_wf_wu o
                           | None -> true))
                        (forallb (v0_wf_sig valid_pk valid_sig) i.vi_sigs))
                      (v0_nodupb bytes_eqb (map (fun v -> v.sg_pk) i.vi_sigs)))
                    (N.ltb i.vi_sighash two32)) (v0_wf_script i.vi_redeem))
                (v0_wf_script i.vi_wscript))
              (forallb (v0_wf_der valid_pk) i.vi_ders))
            (v0_nodupb bytes_eqb (map (fun v -> v.dv_pk) i.vi_ders)))
          (v0_wf_script i.vi_fsig)) (v0_wf_script i.vi_fwit))
      (forallb v0_wf_unk i.vi_unk)) (v0_nodupb v0_unk_eqb i.vi_unk)

(** val v0_wf_out : (bytes -> bool) -> v0out -> bool **)

let v0_wf_out valid_pk o =
  (&&)
    ((&&) ((&&) (v0_wf_script o.vo_redeem) (v0_wf_script o.vo_wscript))
      (forallb (v0_wf_der valid_pk) o.vo_ders))
    (v0_nodupb bytes_eqb (map (fun v -> v.dv_pk) o.vo_ders))

(** val v0_wf_core : (bytes -> bool) -> (bytes -> bool) -> v0pset -> bool **)

let v0_wf_core valid_pk valid_sig p =
  (&&)
    ((&&)
      ((&&)
        ((&&)
          ((&&)
            ((&&)
              ((&&) ((&&) (wf_tx p.vp_tx) (v0_unsigned_ok p.vp_tx))
                (v0_len_ok v0_MaxValLen (ser_full p.vp_tx)))
              (Nat.eqb (length p.vp_ins) (length p.vp_tx.t_ins)))
            (Nat.eqb (length p.vp_outs) (length p.vp_tx.t_outs)))
          (forallb (v0_wf_in_core valid_pk valid_sig) p.vp_ins))
        (forallb v0_sane p.vp_ins)) (forallb (v0_wf_out valid_pk) p.vp_outs))
    (forallb v0_wf_gunk p.vp_unk)

(** val v0_wufloor_in : v0in -> bool **)

let v0_wufloor_in i =
  match i.vi_wu with
  | Some o -> v0_wufloor o
  | None -> true

(** val v0_wufloor_all : v0pset -> bool **)

let v0_wufloor_all p =
  forallb v0_wufloor_in p.vp_ins

(** val v0_wf : (bytes -> bool) -> (bytes -> bool) -> v0pset -> bool **)

let v0_wf valid_pk valid_sig p =
  (&&) (v0_wf_core valid_pk valid_sig p) (v0_wufloor_all p)

(** val v0_norm_wu : txout -> txout **)

let v0_norm_wu o =
  if v0_is_conf o
  then o
  else { o_asset = o.o_asset; o_value = o.o_value; o_script = o.o_script;
         o_nonce = o.o_nonce; o_rp = []; o_sp = [] }

(** val v0_norm_in : v0in -> v0in **)

let v0_norm_in i =
  let fin = v0_finalized i in
  { vi_nwu = (option_map norm_tx i.vi_nwu); vi_wu =
  (option_map v0_norm_wu i.vi_wu); vi_sigs =
  (if fin then [] else v0_sort (fun v -> v.sg_pk) i.vi_sigs); vi_sighash =
  (if fin then N0 else i.vi_sighash); vi_redeem =
  (if fin then None else i.vi_redeem); vi_wscript =
  (if fin then None else i.vi_wscript); vi_ders =
  (if fin then [] else v0_sort (fun v -> v.dv_pk) i.vi_ders); vi_fsig =
  i.vi_fsig; vi_fwit = i.vi_fwit; vi_unk = i.vi_unk }

(** val v0_norm_out : v0out -> v0out **)

let v0_norm_out o =
  { vo_redeem = o.vo_redeem; vo_wscript = o.vo_wscript; vo_ders =
    (v0_sort (fun v -> v.dv_pk) o.vo_ders) }

(** val v0_norm : v0pset -> v0pset **)

let v0_norm p =
  { vp_tx = (norm_tx p.vp_tx); vp_ins = (map v0_norm_in p.vp_ins); vp_outs =
    (map v0_norm_out p.vp_outs); vp_unk = p.vp_unk }

(** val v0_sortedb : ('a1 -> bytes) -> 'a1 list -> bool **)

let rec v0_sortedb key = function
| [] -> true
| a :: r ->
  (&&)
    (match r with
     | [] -> true
     | b :: _ -> negb (v0_bytes_ltb (key b) (key a))) (v0_sortedb key r)

(** val v0_flag_canon : tx -> bool **)

let v0_flag_canon t =
  N.eqb t.t_flag (if has_witness t then Npos XH else N0)

(** val v0_wu_canon : txout -> bool **)

let v0_wu_canon o =
  (||) (v0_is_conf o) ((&&) (negb (nonempty o.o_rp)) (negb (nonempty o.o_sp)))

(** val v0_canon_in : v0in -> bool **)

let v0_canon_in i =
  (&&)
    ((&&) (match i.vi_nwu with
           | Some t -> v0_flag_canon t
           | None -> true)
      (match i.vi_wu with
       | Some o -> v0_wu_canon o
       | None -> true))
    (if v0_finalized i
     then (&&)
            ((&&)
              ((&&)
                ((&&) (negb (nonempty i.vi_sigs)) (N.eqb i.vi_sighash N0))
                (negb (v0_is_some i.vi_redeem)))
              (negb (v0_is_some i.vi_wscript))) (negb (nonempty i.vi_ders))
     else (&&) (v0_sortedb (fun v -> v.sg_pk) i.vi_sigs)
            (v0_sortedb (fun v -> v.dv_pk) i.vi_ders))

(** val v0_canon : v0pset -> bool **)

let v0_canon p =
  (&&) ((&&) (v0_flag_canon p.vp_tx) (forallb v0_canon_in p.vp_ins))
    (forallb (fun o -> v0_sortedb (fun v -> v.dv_pk) o.vo_ders) p.vp_outs)

(** val zero32 : bytes **)

let zero32 =
  repeat X00 (S (S (S (S (S (S (S (S (S (S (S (S (S (S (S (S (S (S (S (S (S
    (S (S (S (S (S (S (S (S (S (S (S O))))))))))))))))))))))))))))))))

(** val one32 : bytes **)

let one32 =
  app
    (repeat X00 (S (S (S (S (S (S (S (S (S (S (S (S (S (S (S (S (S (S (S (S
      (S (S (S (S (S (S (S (S (S (S (S O))))))))))))))))))))))))))))))))
    (X01 :: [])

(** val max_conf_value : bytes **)

let max_conf_value =
  repeat Xff (S (S (S (S (S (S (S (S O))))))))

(** val ht_base : n -> n **)

let ht_base ht =
  N.coq_land ht (Npos (XI (XI (XI (XI XH)))))

(** val ht_acp : n -> bool **)

let ht_acp ht =
  negb (N.eqb (N.coq_land ht (Npos (XO (XO (XO (XO (XO (XO (XO XH))))))))) N0)

(** val ht_rp : n -> bool **)

let ht_rp ht =
  negb (N.eqb (N.coq_land ht (Npos (XO (XO (XO (XO (XO (XO XH)))))))) N0)

(** val ht_none : n -> bool **)

let ht_none ht =
  N.eqb (ht_base ht) (Npos (XO XH))

(** val ht_single : n -> bool **)

let ht_single ht =
  N.eqb (ht_base ht) (Npos (XI XH))

(** val ser_prevout : txin -> bytes **)

let ser_prevout i =
  app i.in_hash (le_enc (S (S (S (S O)))) i.in_index)

(** val ser_prevouts : txin list -> bytes **)

let ser_prevouts ins =
  enc_list ser_prevout ins

(** val ser_sequences : txin list -> bytes **)

let ser_sequences ins =
  enc_list (fun i -> le_enc (S (S (S (S O)))) i.in_seq) ins

(** val ser_iss_or_zero : txin -> bytes **)

let ser_iss_or_zero i =
  match i.in_iss with
  | Some s -> ser_iss s
  | None -> X00 :: []

(** val ser_issuances : txin list -> bytes **)

let ser_issuances ins =
  enc_list ser_iss_or_zero ins

(** val ser_outputs : txout list -> bytes **)

let ser_outputs outs =
  enc_list (ser_out false false) outs

(** val ser_out_proofs_rs : txout -> bytes **)

let ser_out_proofs_rs o =
  app (var_slice o.o_rp) (var_slice o.o_sp)

(** val ser_rangeproofs : txout list -> bytes **)

let ser_rangeproofs outs =
  enc_list ser_out_proofs_rs outs

(** val set_seq : n -> txin -> txin **)

let set_seq s i =
  { in_hash = i.in_hash; in_index = i.in_index; in_seq = s; in_script =
    i.in_script; in_witness = i.in_witness; in_pegin = i.in_pegin;
    in_pegwit = i.in_pegwit; in_iss = i.in_iss; in_irp = i.in_irp; in_inrp =
    i.in_inrp }

(** val set_script : bytes -> txin -> txin **)

let set_script s i =
  { in_hash = i.in_hash; in_index = i.in_index; in_seq = i.in_seq;
    in_script = s; in_witness = i.in_witness; in_pegin = i.in_pegin;
    in_pegwit = i.in_pegwit; in_iss = i.in_iss; in_irp = i.in_irp; in_inrp =
    i.in_inrp }

(** val map_idx : (nat -> 'a1 -> 'a1) -> nat -> 'a1 list -> 'a1 list **)

let rec map_idx f k = function
| [] -> []
| a :: r -> (f k a) :: (map_idx f (S k) r)

(** val zero_other_seqs : nat -> txin list -> txin list **)

let zero_other_seqs idx ins =
  map_idx (fun k i -> if Nat.eqb k idx then i else set_seq N0 i) O ins

(** val blank_out : txout -> txout **)

let blank_out _ =
  { o_asset = zero32; o_value = max_conf_value; o_script = []; o_nonce =
    zero32; o_rp = []; o_sp = [] }

(** val legacy_tx : tx -> nat -> bytes -> n -> tx option **)

let legacy_tx t idx script0 ht =
  match nth_error t.t_ins idx with
  | Some _ ->
    let step1 =
      if ht_none ht
      then Some ((zero_other_seqs idx t.t_ins), [])
      else if ht_single ht
           then if Nat.leb (length t.t_outs) idx
                then None
                else Some ((zero_other_seqs idx t.t_ins),
                       (app (map blank_out (firstn idx t.t_outs))
                         (firstn (S O) (skipn idx t.t_outs))))
           else Some (t.t_ins, t.t_outs)
    in
    (match step1 with
     | Some p ->
       let (ins1, outs1) = p in
       let ins2 =
         if ht_acp ht
         then (match nth_error ins1 idx with
               | Some own -> (set_script script0 own) :: []
               | None -> [])
         else map_idx (fun k i ->
                set_script (if Nat.eqb k idx then script0 else []) i) O ins1
       in
       Some { t_version = t.t_version; t_flag = t.t_flag; t_locktime =
       t.t_locktime; t_ins = ins2; t_outs = outs1 }
     | None -> None)
  | None -> None

(** val preimage_legacy : tx -> nat -> bytes -> n -> bytes option **)

let preimage_legacy t idx script0 ht =
  match legacy_tx t idx script0 ht with
  | Some c ->
    Some
      (app (ser_tx false true true (ht_rp ht) c)
        ((b8 ht) :: (X00 :: (X00 :: (X00 :: [])))))
  | None -> None

(** val digest_legacy :
    (bytes -> bytes) -> tx -> nat -> bytes -> n -> bytes **)

let digest_legacy h2 t idx script0 ht =
  match preimage_legacy t idx script0 ht with
  | Some p -> h2 p
  | None -> one32

(** val own_input_v0 : txin -> bytes -> bytes -> bytes **)

let own_input_v0 i script0 value =
  app i.in_hash
    (app (le_enc (S (S (S (S O)))) i.in_index)
      (app (var_slice script0)
        (app value
          (app (le_enc (S (S (S (S O)))) i.in_seq)
            (match i.in_iss with
             | Some s -> ser_iss s
             | None -> [])))))

(** val covered_outs : tx -> nat -> n -> txout list option **)

let covered_outs t idx ht =
  if negb ((||) (ht_single ht) (ht_none ht))
  then Some t.t_outs
  else if ht_single ht
       then (match nth_error t.t_outs idx with
             | Some o -> Some (o :: [])
             | None -> None)
       else None

(** val preimage_v0 :
    (bytes -> bytes) -> tx -> nat -> bytes -> bytes -> n -> bytes option **)

let preimage_v0 h2 t idx script0 value ht =
  match nth_error t.t_ins idx with
  | Some own ->
    let acp = ht_acp ht in
    let sn = (||) (ht_single ht) (ht_none ht) in
    let h_in = if acp then zero32 else h2 (ser_prevouts t.t_ins) in
    let h_seq = if (||) acp sn then zero32 else h2 (ser_sequences t.t_ins) in
    let h_iss = if acp then zero32 else h2 (ser_issuances t.t_ins) in
    let h_out =
      match covered_outs t idx ht with
      | Some l -> h2 (ser_outputs l)
      | None -> zero32
    in
    let h_rp =
      match covered_outs t idx ht with
      | Some l -> h2 (ser_rangeproofs l)
      | None -> zero32
    in
    Some
    (app (le_enc (S (S (S (S O)))) t.t_version)
      (app h_in
        (app h_seq
          (app h_iss
            (app (own_input_v0 own script0 value)
              (app h_out
                (app (if ht_rp ht then h_rp else [])
                  (app (le_enc (S (S (S (S O)))) t.t_locktime)
                    (le_enc (S (S (S (S O)))) ht)))))))))
  | None -> None

(** val digest_v0 :
    (bytes -> bytes) -> tx -> nat -> bytes -> bytes -> n -> bytes option **)

let digest_v0 h2 t idx script0 value ht =
  match preimage_v0 h2 t idx script0 value ht with
  | Some p -> Some (h2 p)
  | None -> None

(** val input_flag : txin -> n **)

let input_flag i =
  N.add
    (match i.in_iss with
     | Some _ -> Npos (XO (XO (XO (XO (XO (XO (XO XH)))))))
     | None -> N0)
    (if i.in_pegin then Npos (XO (XO (XO (XO (XO (XO XH)))))) else N0)

(** val ser_flags : txin list -> bytes **)

let ser_flags ins =
  enc_list (fun i -> (b8 (input_flag i)) :: []) ins

(** val ser_issuance_proofs : txin list -> bytes **)

let ser_issuance_proofs ins =
  enc_list (fun i -> app (var_slice i.in_irp) (var_slice i.in_inrp)) ins

(** val ser_out_witnesses : txout list -> bytes **)

let ser_out_witnesses outs =
  enc_list (fun o -> app (var_slice o.o_sp) (var_slice o.o_rp)) outs

(** val ser_scripts : bytes list -> bytes **)

let ser_scripts scripts =
  enc_list var_slice scripts

(** val ser_asset_amounts : bytes list -> bytes list -> bytes option **)

let rec ser_asset_amounts assets values =
  match assets with
  | [] -> Some []
  | a :: ar ->
    (match values with
     | [] -> None
     | v :: vr ->
       (match ser_asset_amounts ar vr with
        | Some r -> Some (app a (app v r))
        | None -> None))

type v1_args = { v1_scripts : bytes list; v1_assets : bytes list;
                 v1_values : bytes list; v1_genesis : bytes;
                 v1_leaf : bytes option; v1_annex : bytes option }

(** val v1_acp : n -> bool **)

let v1_acp ht =
  N.eqb (N.coq_land ht (Npos (XO (XO (XO (XO (XO (XO (XO XH))))))))) (Npos
    (XO (XO (XO (XO (XO (XO (XO XH))))))))

(** val v1_out_type : n -> n **)

let v1_out_type ht =
  if N.eqb ht N0 then Npos XH else N.coq_land ht (Npos (XI XH))

(** val v1_ins_part :
    (bytes -> bytes) -> tx -> v1_args -> n -> bytes option **)

let v1_ins_part h1 t a ht =
  if v1_acp ht
  then Some []
  else (match ser_asset_amounts a.v1_assets a.v1_values with
        | Some aa ->
          Some
            (app (h1 (ser_flags t.t_ins))
              (app (h1 (ser_prevouts t.t_ins))
                (app (h1 aa)
                  (app (h1 (ser_scripts a.v1_scripts))
                    (app (h1 (ser_sequences t.t_ins))
                      (app (h1 (ser_issuances t.t_ins))
                        (h1 (ser_issuance_proofs t.t_ins))))))))
        | None -> None)

(** val v1_own_part :
    (bytes -> bytes) -> txin -> nat -> v1_args -> n -> bytes option **)

let v1_own_part h1 own idx a ht =
  if v1_acp ht
  then (match nth_error a.v1_assets idx with
        | Some asset ->
          (match nth_error a.v1_values idx with
           | Some value ->
             (match nth_error a.v1_scripts idx with
              | Some script0 ->
                Some
                  (app ((b8 (input_flag own)) :: [])
                    (app own.in_hash
                      (app (le_enc (S (S (S (S O)))) own.in_index)
                        (app asset
                          (app value
                            (app (var_slice script0)
                              (app (le_enc (S (S (S (S O)))) own.in_seq)
                                (match own.in_iss with
                                 | Some s ->
                                   app (ser_iss s)
                                     (h1 (ser_issuance_proofs (own :: [])))
                                 | None -> X00 :: []))))))))
              | None -> None)
           | None -> None)
        | None -> None)
  else Some (le_enc (S (S (S (S O)))) (N.of_nat idx))

(** val v1_outs_all : (bytes -> bytes) -> tx -> n -> bytes **)

let v1_outs_all h1 t ht =
  if (&&) (negb (N.eqb (v1_out_type ht) (Npos (XO XH))))
       (negb (N.eqb (v1_out_type ht) (Npos (XI XH))))
  then app (h1 (ser_outputs t.t_outs)) (h1 (ser_out_witnesses t.t_outs))
  else []

(** val v1_outs_single : (bytes -> bytes) -> tx -> nat -> n -> bytes **)

let v1_outs_single h1 t idx ht =
  if N.eqb (v1_out_type ht) (Npos (XI XH))
  then (match nth_error t.t_outs idx with
        | Some o ->
          app (h1 (ser_outputs (o :: []))) (h1 (ser_out_witnesses (o :: [])))
        | None -> [])
  else []

(** val v1_spend_type : v1_args -> n **)

let v1_spend_type a =
  N.add
    (N.mul (Npos (XO XH))
      (match a.v1_leaf with
       | Some _ -> Npos XH
       | None -> N0)) (match a.v1_annex with
                       | Some _ -> Npos XH
                       | None -> N0)

(** val preimage_v1 :
    (bytes -> bytes) -> tx -> nat -> v1_args -> n -> bytes option **)

let preimage_v1 h1 t idx a ht =
  match nth_error t.t_ins idx with
  | Some own ->
    (match v1_ins_part h1 t a ht with
     | Some ins_part ->
       (match v1_own_part h1 own idx a ht with
        | Some own_part ->
          Some
            (app a.v1_genesis
              (app a.v1_genesis
                (app ((b8 ht) :: [])
                  (app (le_enc (S (S (S (S O)))) t.t_version)
                    (app (le_enc (S (S (S (S O)))) t.t_locktime)
                      (app ins_part
                        (app (v1_outs_all h1 t ht)
                          (app ((b8 (v1_spend_type a)) :: [])
                            (app own_part
                              (app
                                (match a.v1_annex with
                                 | Some x -> h1 (var_slice x)
                                 | None -> [])
                                (app (v1_outs_single h1 t idx ht)
                                  (match a.v1_leaf with
                                   | Some l ->
                                     app l
                                       (app (X00 :: [])
                                         (le_enc (S (S (S (S O)))) (Npos (XI
                                           (XI (XI (XI (XI (XI (XI (XI (XI
                                           (XI (XI (XI (XI (XI (XI (XI (XI
                                           (XI (XI (XI (XI (XI (XI (XI (XI
                                           (XI (XI (XI (XI (XI (XI
                                           XH))))))))))))))))))))))))))))))))))
                                   | None -> []))))))))))))
        | None -> None)
     | None -> None)
  | None -> None

(** val tag_tapsighash_elements : bytes **)

let tag_tapsighash_elements =
  map b8 ((Npos (XO (XO (XI (XO (XI (XO XH))))))) :: ((Npos (XI (XO (XO (XO
    (XO (XI XH))))))) :: ((Npos (XO (XO (XO (XO (XI (XI XH))))))) :: ((Npos
    (XI (XI (XO (XO (XI (XO XH))))))) :: ((Npos (XI (XO (XO (XI (XO (XI
    XH))))))) :: ((Npos (XI (XI (XI (XO (XO (XI XH))))))) :: ((Npos (XO (XO
    (XO (XI (XO (XI XH))))))) :: ((Npos (XI (XO (XO (XO (XO (XI
    XH))))))) :: ((Npos (XI (XI (XO (XO (XI (XI XH))))))) :: ((Npos (XO (XO
    (XO (XI (XO (XI XH))))))) :: ((Npos (XI (XI (XI (XI (XO
    XH)))))) :: ((Npos (XI (XO (XI (XO (XO (XI XH))))))) :: ((Npos (XO (XO
    (XI (XI (XO (XI XH))))))) :: ((Npos (XI (XO (XI (XO (XO (XI
    XH))))))) :: ((Npos (XI (XO (XI (XI (XO (XI XH))))))) :: ((Npos (XI (XO
    (XI (XO (XO (XI XH))))))) :: ((Npos (XO (XI (XI (XI (XO (XI
    XH))))))) :: ((Npos (XO (XO (XI (XO (XI (XI XH))))))) :: ((Npos (XI (XI
    (XO (XO (XI (XI XH))))))) :: [])))))))))))))))))))

(** val digest_v1 : tx -> nat -> v1_args -> n -> bytes option **)

let digest_v1 t idx a ht =
  match preimage_v1 sha256 t idx a ht with
  | Some p -> Some (tagged_hash tag_tapsighash_elements p)
  | None -> None

type part = byte list

(** val layout : part list -> bytes **)

let layout =
  concat

(** val u32 : n -> part **)

let u32 v =
  le_enc (S (S (S (S O)))) v

(** val u8 : n -> part **)

let u8 v =
  (b8 v) :: []

(** val zero_hash : part **)

let zero_hash =
  repeat X00 (S (S (S (S (S (S (S (S (S (S (S (S (S (S (S (S (S (S (S (S (S
    (S (S (S (S (S (S (S (S (S (S (S O))))))))))))))))))))))))))))))))

(** val s_outpoint : txin -> part **)

let s_outpoint i =
  app i.in_hash (u32 i.in_index)

(** val s_issuance : issuance -> part **)

let s_issuance s =
  app s.iss_nonce (app s.iss_entropy (app s.iss_amount s.iss_token))

(** val s_issuance_or_null : txin -> part **)

let s_issuance_or_null i =
  match i.in_iss with
  | Some s -> s_issuance s
  | None -> u8 N0

(** val s_txout : txout -> part **)

let s_txout o =
  app o.o_asset (app o.o_value (app o.o_nonce (var_slice o.o_script)))

(** val s_all : ('a1 -> part) -> 'a1 list -> part **)

let s_all f l =
  concat (map f l)

(** val base_type : n -> n **)

let base_type ht =
  N.modulo ht (Npos (XO (XO (XO (XO (XO XH))))))

(** val anyonecanpay : n -> bool **)

let anyonecanpay ht =
  N.leb (Npos (XO (XO (XO (XO (XO (XO (XO XH))))))))
    (N.modulo ht (Npos (XO (XO (XO (XO (XO (XO (XO (XO XH))))))))))

(** val spec_v0_preimage :
    tx -> nat -> bytes -> bytes -> n -> bytes option **)

let spec_v0_preimage t idx script_code amount ht =
  match nth_error t.t_ins idx with
  | Some txin0 ->
    let acp = anyonecanpay ht in
    let bt = base_type ht in
    let hashPrevouts =
      if acp then zero_hash else dsha256 (s_all s_outpoint t.t_ins)
    in
    let hashSequence =
      if (||) ((||) acp (N.eqb bt (Npos (XI XH)))) (N.eqb bt (Npos (XO XH)))
      then zero_hash
      else dsha256 (s_all (fun i -> u32 i.in_seq) t.t_ins)
    in
    let hashIssuance =
      if acp then zero_hash else dsha256 (s_all s_issuance_or_null t.t_ins)
    in
    let hashOutputs =
      if N.eqb bt (Npos (XI XH))
      then (match nth_error t.t_outs idx with
            | Some o -> dsha256 (s_txout o)
            | None -> zero_hash)
      else if N.eqb bt (Npos (XO XH))
           then zero_hash
           else dsha256 (s_all s_txout t.t_outs)
    in
    Some
    (layout
      ((u32 t.t_version) :: (hashPrevouts :: (hashSequence :: (hashIssuance :: (
      (s_outpoint txin0) :: ((var_slice script_code) :: (amount :: ((u32
                                                                    txin0.in_seq) :: ((
      match txin0.in_iss with
      | Some s -> s_issuance s
      | None -> []) :: (hashOutputs :: ((u32 t.t_locktime) :: ((u32 ht) :: [])))))))))))))
  | None -> None

(** val spec_v0_digest : tx -> nat -> bytes -> bytes -> n -> bytes option **)

let spec_v0_digest t idx script_code amount ht =
  option_map dsha256 (spec_v0_preimage t idx script_code amount ht)

(** val s_outpoint_flags : txin -> part **)

let s_outpoint_flags i =
  app i.in_hash
    (u32
      (N.add
        (N.add i.in_index
          (match i.in_iss with
           | Some _ ->
             Npos (XO (XO (XO (XO (XO (XO (XO (XO (XO (XO (XO (XO (XO (XO (XO
               (XO (XO (XO (XO (XO (XO (XO (XO (XO (XO (XO (XO (XO (XO (XO
               (XO XH)))))))))))))))))))))))))))))))
           | None -> N0))
        (if i.in_pegin
         then Npos (XO (XO (XO (XO (XO (XO (XO (XO (XO (XO (XO (XO (XO (XO
                (XO (XO (XO (XO (XO (XO (XO (XO (XO (XO (XO (XO (XO (XO (XO
                (XO XH))))))))))))))))))))))))))))))
         else N0)))

(** val legacy_inputs : nat -> nat -> bytes -> bool -> txin list -> part **)

let rec legacy_inputs k idx script_code zero_seq = function
| [] -> []
| i :: r ->
  app (s_outpoint_flags i)
    (app (if Nat.eqb k idx then var_slice script_code else u8 N0)
      (app
        (u32
          (if Nat.eqb k idx
           then i.in_seq
           else if zero_seq then N0 else i.in_seq))
        (app (match i.in_iss with
              | Some s -> s_issuance s
              | None -> []) (legacy_inputs (S k) idx script_code zero_seq r))))

(** val spec_legacy_preimage : tx -> nat -> bytes -> n -> bytes option **)

let spec_legacy_preimage t idx script_code ht =
  let bt = base_type ht in
  if Nat.leb (length t.t_ins) idx
  then None
  else if (&&) (N.eqb bt (Npos (XI XH))) (Nat.leb (length t.t_outs) idx)
       then None
       else let outs =
              if N.eqb bt (Npos (XO XH))
              then []
              else if N.eqb bt (Npos (XI XH))
                   then firstn (S O) t.t_outs
                   else t.t_outs
            in
            Some
            (layout
              ((u32 t.t_version) :: ((varint (lenL t.t_ins)) :: ((legacy_inputs
                                                                   O idx
                                                                   script_code
                                                                   ((||)
                                                                    (N.eqb bt
                                                                    (Npos (XO
                                                                    XH)))
                                                                    (N.eqb bt
                                                                    (Npos (XI
                                                                    XH))))
                                                                   t.t_ins) :: (
              (varint (lenL outs)) :: ((s_all s_txout outs) :: ((u32
                                                                  t.t_locktime) :: (
              (u32
                (N.modulo ht (Npos (XO (XO (XO (XO (XO (XO (XO (XO
                  XH))))))))))) :: []))))))))

(** val spec_legacy_digest : tx -> nat -> bytes -> n -> bytes **)

let spec_legacy_digest t idx script_code ht =
  match spec_legacy_preimage t idx script_code ht with
  | Some p -> dsha256 p
  | None ->
    app
      (repeat X00 (S (S (S (S (S (S (S (S (S (S (S (S (S (S (S (S (S (S (S (S
        (S (S (S (S (S (S (S (S (S (S (S O))))))))))))))))))))))))))))))))
      (X01 :: [])

type spent = { sp_script : bytes; sp_asset : bytes; sp_value : bytes }

(** val outpoint_flag : txin -> n **)

let outpoint_flag i =
  N.add
    (match i.in_iss with
     | Some _ -> Npos (XO (XO (XO (XO (XO (XO (XO XH)))))))
     | None -> N0)
    (if i.in_pegin then Npos (XO (XO (XO (XO (XO (XO XH)))))) else N0)

(** val s_issuance_proofs : txin -> part **)

let s_issuance_proofs i =
  app (var_slice i.in_irp) (var_slice i.in_inrp)

(** val s_out_witness : txout -> part **)

let s_out_witness o =
  app (var_slice o.o_sp) (var_slice o.o_rp)

(** val spec_v1_preimage :
    tx -> nat -> spent list -> bytes -> bytes option -> bytes option -> n ->
    bytes option **)

let spec_v1_preimage t idx spents genesis leaf annex ht =
  match nth_error t.t_ins idx with
  | Some txin0 ->
    (match nth_error spents idx with
     | Some me ->
       let acp = anyonecanpay ht in
       let out_t =
         if N.eqb ht N0 then Npos XH else N.modulo ht (Npos (XO (XO XH)))
       in
       let spend_type =
         N.add (match leaf with
                | Some _ -> Npos (XO XH)
                | None -> N0)
           (match annex with
            | Some _ -> Npos XH
            | None -> N0)
       in
       Some
       (layout
         (genesis :: (genesis :: ((u8 ht) :: ((u32 t.t_version) :: ((u32
                                                                    t.t_locktime) :: ((
         if acp
         then []
         else layout
                ((sha256 (s_all (fun i -> u8 (outpoint_flag i)) t.t_ins)) :: (
                (sha256 (s_all s_outpoint t.t_ins)) :: ((sha256
                                                          (s_all (fun s ->
                                                            app s.sp_asset
                                                              s.sp_value)
                                                            spents)) :: (
                (sha256 (s_all (fun s -> var_slice s.sp_script) spents)) :: (
                (sha256 (s_all (fun i -> u32 i.in_seq) t.t_ins)) :: (
                (sha256 (s_all s_issuance_or_null t.t_ins)) :: ((sha256
                                                                  (s_all
                                                                    s_issuance_proofs
                                                                    t.t_ins)) :: [])))))))) :: ((
         if (||) (N.eqb out_t (Npos (XO XH))) (N.eqb out_t (Npos (XI XH)))
         then []
         else layout
                ((sha256 (s_all s_txout t.t_outs)) :: ((sha256
                                                         (s_all s_out_witness
                                                           t.t_outs)) :: []))) :: (
         (u8 spend_type) :: ((if acp
                              then layout
                                     ((u8 (outpoint_flag txin0)) :: (
                                     (s_outpoint txin0) :: (me.sp_asset :: (me.sp_value :: (
                                     (var_slice me.sp_script) :: ((u32
                                                                    txin0.in_seq) :: ((
                                     match txin0.in_iss with
                                     | Some s ->
                                       app (s_issuance s)
                                         (sha256 (s_issuance_proofs txin0))
                                     | None -> u8 N0) :: [])))))))
                              else u32 (N.of_nat idx)) :: ((match annex with
                                                            | Some a ->
                                                              sha256
                                                                (var_slice a)
                                                            | None -> []) :: ((
         if N.eqb out_t (Npos (XI XH))
         then (match nth_error t.t_outs idx with
               | Some o ->
                 layout
                   ((sha256 (s_txout o)) :: ((sha256 (s_out_witness o)) :: []))
               | None -> [])
         else []) :: ((match leaf with
                       | Some l ->
                         layout
                           (l :: ((u8 N0) :: ((u32 (Npos (XI (XI (XI (XI (XI
                                                (XI (XI (XI (XI (XI (XI (XI
                                                (XI (XI (XI (XI (XI (XI (XI
                                                (XI (XI (XI (XI (XI (XI (XI
                                                (XI (XI (XI (XI (XI
                                                XH))))))))))))))))))))))))))))))))) :: [])))
                       | None -> []) :: [])))))))))))))
     | None -> None)
  | None -> None

(** val spec_v1_digest :
    tx -> nat -> spent list -> bytes -> bytes option -> bytes option -> n ->
    bytes option **)

let spec_v1_digest t idx spents genesis leaf annex ht =
  option_map
    (tagged_hash
      (map b8 ((Npos (XO (XO (XI (XO (XI (XO XH))))))) :: ((Npos (XI (XO (XO
        (XO (XO (XI XH))))))) :: ((Npos (XO (XO (XO (XO (XI (XI
        XH))))))) :: ((Npos (XI (XI (XO (XO (XI (XO XH))))))) :: ((Npos (XI
        (XO (XO (XI (XO (XI XH))))))) :: ((Npos (XI (XI (XI (XO (XO (XI
        XH))))))) :: ((Npos (XO (XO (XO (XI (XO (XI XH))))))) :: ((Npos (XI
        (XO (XO (XO (XO (XI XH))))))) :: ((Npos (XI (XI (XO (XO (XI (XI
        XH))))))) :: ((Npos (XO (XO (XO (XI (XO (XI XH))))))) :: ((Npos (XI
        (XI (XI (XI (XO XH)))))) :: ((Npos (XI (XO (XI (XO (XO (XI
        XH))))))) :: ((Npos (XO (XO (XI (XI (XO (XI XH))))))) :: ((Npos (XI
        (XO (XI (XO (XO (XI XH))))))) :: ((Npos (XI (XO (XI (XI (XO (XI
        XH))))))) :: ((Npos (XI (XO (XI (XO (XO (XI XH))))))) :: ((Npos (XO
        (XI (XI (XI (XO (XI XH))))))) :: ((Npos (XO (XO (XI (XO (XI (XI
        XH))))))) :: ((Npos (XI (XI (XO (XO (XI (XI
        XH))))))) :: [])))))))))))))))))))))
    (spec_v1_preimage t idx spents genesis leaf annex ht)

(** val g_separator : z **)

let g_separator =
  Z0

(** val g_maxPsbtKeyLength : z **)

let g_maxPsbtKeyLength =
  Zpos (XO (XO (XO (XO (XI (XO (XO (XO (XI (XI (XI (XO (XO XH)))))))))))))

(** val g_PsetProprietary : z **)

let g_PsetProprietary =
  Zpos (XO (XO (XI (XI (XI (XI (XI XH)))))))

(** val g_magicPrefix : z list **)

let g_magicPrefix =
  (Zpos (XO (XO (XO (XO (XI (XI XH))))))) :: ((Zpos (XI (XI (XO (XO (XI (XI
    XH))))))) :: ((Zpos (XI (XO (XI (XO (XO (XI XH))))))) :: ((Zpos (XO (XO
    (XI (XO (XI (XI XH))))))) :: [])))

(** val g_GlobalXpub : z **)

let g_GlobalXpub =
  Zpos XH

(** val g_GlobalTxVersion : z **)

let g_GlobalTxVersion =
  Zpos (XO XH)

(** val g_GlobalFallbackLocktime : z **)

let g_GlobalFallbackLocktime =
  Zpos (XI XH)

(** val g_GlobalInputCount : z **)

let g_GlobalInputCount =
  Zpos (XO (XO XH))

(** val g_GlobalOutputCount : z **)

let g_GlobalOutputCount =
  Zpos (XI (XO XH))

(** val g_GlobalTxModifiable : z **)

let g_GlobalTxModifiable =
  Zpos (XO (XI XH))

(** val g_GlobalVersion : z **)

let g_GlobalVersion =
  Zpos (XI (XI (XO (XI (XI (XI (XI XH)))))))

(** val g_GlobalScalar : z **)

let g_GlobalScalar =
  Z0

(** val g_GlobalModifiable : z **)

let g_GlobalModifiable =
  Zpos XH

(** val g_pubKeyLength : z **)

let g_pubKeyLength =
  Zpos (XO (XI (XI (XI (XO (XO XH))))))

(** val g_InputNonWitnessUtxo : z **)

let g_InputNonWitnessUtxo =
  Z0

(** val g_InputWitnessUtxo : z **)

let g_InputWitnessUtxo =
  Zpos XH

(** val g_InputPartialSig : z **)

let g_InputPartialSig =
  Zpos (XO XH)

(** val g_InputSighashType : z **)

let g_InputSighashType =
  Zpos (XI XH)

(** val g_InputRedeemScript : z **)

let g_InputRedeemScript =
  Zpos (XO (XO XH))

(** val g_InputWitnessScript : z **)

let g_InputWitnessScript =
  Zpos (XI (XO XH))

(** val g_InputBip32Derivation : z **)

let g_InputBip32Derivation =
  Zpos (XO (XI XH))

(** val g_InputFinalScriptsig : z **)

let g_InputFinalScriptsig =
  Zpos (XI (XI XH))

(** val g_InputFinalScriptwitness : z **)

let g_InputFinalScriptwitness =
  Zpos (XO (XO (XO XH)))

(** val g_InputRipemd160 : z **)

let g_InputRipemd160 =
  Zpos (XO (XI (XO XH)))

(** val g_InputSha256 : z **)

let g_InputSha256 =
  Zpos (XI (XI (XO XH)))

(** val g_InputHash160 : z **)

let g_InputHash160 =
  Zpos (XO (XO (XI XH)))

(** val g_InputHash256 : z **)

let g_InputHash256 =
  Zpos (XI (XO (XI XH)))

(** val g_InputPreviousTxid : z **)

let g_InputPreviousTxid =
  Zpos (XO (XI (XI XH)))

(** val g_InputPreviousTxIndex : z **)

let g_InputPreviousTxIndex =
  Zpos (XI (XI (XI XH)))

(** val g_InputSequence : z **)

let g_InputSequence =
  Zpos (XO (XO (XO (XO XH))))

(** val g_InputRequiredTimeLocktime : z **)

let g_InputRequiredTimeLocktime =
  Zpos (XI (XO (XO (XO XH))))

(** val g_InputRequiredHeightLocktime : z **)

let g_InputRequiredHeightLocktime =
  Zpos (XO (XI (XO (XO XH))))

(** val g_InputTapKeySig : z **)

let g_InputTapKeySig =
  Zpos (XI (XI (XO (XO XH))))

(** val g_InputTapScriptSig : z **)

let g_InputTapScriptSig =
  Zpos (XO (XO (XI (XO XH))))

(** val g_InputTapLeafScript : z **)

let g_InputTapLeafScript =
  Zpos (XI (XO (XI (XO XH))))

(** val g_InputTapBip32Derivation : z **)

let g_InputTapBip32Derivation =
  Zpos (XO (XI (XI (XO XH))))

(** val g_InputTapInternalKey : z **)

let g_InputTapInternalKey =
  Zpos (XI (XI (XI (XO XH))))

(** val g_InputTapMerkleRoot : z **)

let g_InputTapMerkleRoot =
  Zpos (XO (XO (XO (XI XH))))

(** val g_InputIssuanceValue : z **)

let g_InputIssuanceValue =
  Z0

(** val g_InputIssuanceValueCommitment : z **)

let g_InputIssuanceValueCommitment =
  Zpos XH

(** val g_InputIssuanceValueRangeproof : z **)

let g_InputIssuanceValueRangeproof =
  Zpos (XO XH)

(** val g_InputIssuanceInflationKeysRangeproof : z **)

let g_InputIssuanceInflationKeysRangeproof =
  Zpos (XI XH)

(** val g_InputPeginTx : z **)

let g_InputPeginTx =
  Zpos (XO (XO XH))

(** val g_InputPeginTxoutProof : z **)

let g_InputPeginTxoutProof =
  Zpos (XI (XO XH))

(** val g_InputPeginGenesis : z **)

let g_InputPeginGenesis =
  Zpos (XO (XI XH))

(** val g_InputPeginClaimScript : z **)

let g_InputPeginClaimScript =
  Zpos (XI (XI XH))

(** val g_InputPeginValue : z **)

let g_InputPeginValue =
  Zpos (XO (XO (XO XH)))

(** val g_InputPeginWitness : z **)

let g_InputPeginWitness =
  Zpos (XI (XO (XO XH)))

(** val g_InputIssuanceInflationKeys : z **)

let g_InputIssuanceInflationKeys =
  Zpos (XO (XI (XO XH)))

(** val g_InputIssuanceInflationKeysCommitment : z **)

let g_InputIssuanceInflationKeysCommitment =
  Zpos (XI (XI (XO XH)))

(** val g_InputIssuanceBlindingNonce : z **)

let g_InputIssuanceBlindingNonce =
  Zpos (XO (XO (XI XH)))

(** val g_InputIssuanceAssetEntropy : z **)

let g_InputIssuanceAssetEntropy =
  Zpos (XI (XO (XI XH)))

(** val g_InputUtxoRangeProof : z **)

let g_InputUtxoRangeProof =
  Zpos (XO (XI (XI XH)))

(** val g_InputIssuanceBlindValueProof : z **)

let g_InputIssuanceBlindValueProof =
  Zpos (XI (XI (XI XH)))

(** val g_InputIssuanceBlindInflationKeysProof : z **)

let g_InputIssuanceBlindInflationKeysProof =
  Zpos (XO (XO (XO (XO XH))))

(** val g_InputExplicitValue : z **)

let g_InputExplicitValue =
  Zpos (XI (XO (XO (XO XH))))

(** val g_InputValueProof : z **)

let g_InputValueProof =
  Zpos (XO (XI (XO (XO XH))))

(** val g_InputExplicitAsset : z **)

let g_InputExplicitAsset =
  Zpos (XI (XI (XO (XO XH))))

(** val g_InputAssetProof : z **)

let g_InputAssetProof =
  Zpos (XO (XO (XI (XO XH))))

(** val g_InputBlindedIssuanceValue : z **)

let g_InputBlindedIssuanceValue =
  Zpos (XI (XO (XI (XO XH))))

(** val g_OutputRedeemScript : z **)

let g_OutputRedeemScript =
  Z0

(** val g_OutputWitnessScript : z **)

let g_OutputWitnessScript =
  Zpos XH

(** val g_OutputBip32Derivation : z **)

let g_OutputBip32Derivation =
  Zpos (XO XH)

(** val g_OutputAmount : z **)

let g_OutputAmount =
  Zpos (XI XH)

(** val g_OutputScript : z **)

let g_OutputScript =
  Zpos (XO (XO XH))

(** val g_OutputValueCommitment : z **)

let g_OutputValueCommitment =
  Zpos XH

(** val g_OutputAsset : z **)

let g_OutputAsset =
  Zpos (XO XH)

(** val g_OutputAssetCommitment : z **)

let g_OutputAssetCommitment =
  Zpos (XI XH)

(** val g_OutputValueRangeproof : z **)

let g_OutputValueRangeproof =
  Zpos (XO (XO XH))

(** val g_OutputAssetSurjectionProof : z **)

let g_OutputAssetSurjectionProof =
  Zpos (XI (XO XH))

(** val g_OutputBlindingPubkey : z **)

let g_OutputBlindingPubkey =
  Zpos (XO (XI XH))

(** val g_OutputEcdhPubkey : z **)

let g_OutputEcdhPubkey =
  Zpos (XI (XI XH))

(** val g_OutputBlinderIndex : z **)

let g_OutputBlinderIndex =
  Zpos (XO (XO (XO XH)))

(** val g_OutputBlindValueProof : z **)

let g_OutputBlindValueProof =
  Zpos (XI (XO (XO XH)))

(** val g_OutputBlindAssetProof : z **)

let g_OutputBlindAssetProof =
  Zpos (XO (XI (XO XH)))

type 'a cres =
| ROk of 'a
| RErr
| RPanic

(** val cbind : 'a1 cres -> ('a1 -> 'a2 cres) -> 'a2 cres **)

let cbind x f =
  match x with
  | ROk a -> f a
  | RErr -> RErr
  | RPanic -> RPanic

(** val psetProprietary : n **)

let psetProprietary =
  Z.to_N g_PsetProprietary

(** val maxKeyLen : n **)

let maxKeyLen =
  Z.to_N g_maxPsbtKeyLength

(** val pset_magic : bytes **)

let pset_magic =
  map (fun z0 -> b8 (Z.to_N z0)) g_magicPrefix

(** val magic_sep : bytes **)

let magic_sep =
  app pset_magic ((b8 (Npos (XI (XI (XI (XI (XI (XI (XI XH))))))))) :: [])

(** val pset_sep : byte **)

let pset_sep =
  b8 (Z.to_N g_separator)

type kpair = { k_type : n; k_data : bytes; k_val : bytes }

(** val ser_kp : kpair -> bytes **)

let ser_kp k =
  app (var_slice ((b8 k.k_type) :: k.k_data)) (var_slice k.k_val)

type kpread =
| KEnd of bytes
| KGot of kpair * bytes
| KErr

(** val read_kp : bytes -> kpread **)

let read_kp bs =
  match p_var_slice bs with
  | Some p ->
    let (key, r) = p in
    (match key with
     | [] -> KEnd r
     | t :: kd ->
       if N.ltb maxKeyLen (lenN key)
       then KErr
       else (match p_var_slice r with
             | Some p0 ->
               let (v, r') = p0 in
               KGot ({ k_type = (n8 t); k_data = kd; k_val = v }, r')
             | None -> KErr))
  | None -> KErr

(** val prop_key_id : bytes -> n -> bytes -> bytes **)

let prop_key_id id sub0 kd =
  app (var_slice id) (app ((b8 sub0) :: []) kd)

(** val eff_id : bytes -> bytes **)

let eff_id id = match id with
| [] -> pset_magic
| _ :: _ -> id

(** val prop_key : n -> bytes -> bytes **)

let prop_key sub0 kd =
  prop_key_id pset_magic sub0 kd

type pdata = { pd_id : bytes; pd_sub : n; pd_kd : bytes; pd_val : bytes }

(** val parse_prop : kpair -> pdata option **)

let parse_prop k =
  match p_varint k.k_data with
  | Some p ->
    let (n0, r) = p in
    if N.eqb n0 N0
    then None
    else (match takeN n0 r with
          | Some p0 ->
            let (id, r2) = p0 in
            (match r2 with
             | [] -> None
             | s :: kd ->
               Some { pd_id = id; pd_sub = (n8 s); pd_kd = kd; pd_val =
                 k.k_val })
          | None -> None)
  | None -> None

type mentry = bytes * bytes

type sec = { s_vals : bytes list; s_lists : mentry list list;
             s_props : pdata list; s_unks : kpair list }

(** val lset : nat -> 'a1 -> 'a1 list -> 'a1 list **)

let rec lset i x = function
| [] -> []
| y :: r -> (match i with
             | O -> x :: r
             | S j -> y :: (lset j x r))

(** val val_at : nat -> sec -> bytes **)

let val_at i s =
  nth i s.s_vals []

(** val list_at : nat -> sec -> mentry list **)

let list_at i s =
  nth i s.s_lists []

(** val set_val : nat -> bytes -> sec -> sec **)

let set_val i b s =
  { s_vals = (lset i b s.s_vals); s_lists = s.s_lists; s_props = s.s_props;
    s_unks = s.s_unks }

(** val set_list : nat -> mentry list -> sec -> sec **)

let set_list i l s =
  { s_vals = s.s_vals; s_lists = (lset i l s.s_lists); s_props = s.s_props;
    s_unks = s.s_unks }

(** val add_prop : pdata -> sec -> sec **)

let add_prop p s =
  { s_vals = s.s_vals; s_lists = s.s_lists; s_props =
    (app s.s_props (p :: [])); s_unks = s.s_unks }

(** val add_unk : kpair -> sec -> sec **)

let add_unk k s =
  { s_vals = s.s_vals; s_lists = s.s_lists; s_props = s.s_props; s_unks =
    (app s.s_unks (k :: [])) }

type lenreq =
| LAny
| LEq of nat
| LEq2 of nat * nat

(** val len_ok : lenreq -> bytes -> bool **)

let len_ok l v =
  match l with
  | LAny -> true
  | LEq n0 -> Nat.eqb (length v) n0
  | LEq2 (n0, m) -> (||) (Nat.eqb (length v) n0) (Nat.eqb (length v) m)

type skind =
| KBytes of lenreq
| KInt of nat
| KPtr of nat
| KModif
| KBool
| KCount
| KTx
| KTxOut
| KMsgTx
| KVec
| KPub

type mkind =
| MXpub
| MScalar
| MPartialSig
| MBip32
| MMap of nat
| MTapScriptSig
| MTapLeaf
| MTapBip32

type slotk =
| SS of skind * bool
| MS of mkind

type keyid =
| KStd of n
| KProp of n

(** val keyid_eqb : keyid -> keyid -> bool **)

let keyid_eqb a b =
  match a with
  | KStd x -> (match b with
               | KStd y -> N.eqb x y
               | KProp _ -> false)
  | KProp x -> (match b with
                | KStd _ -> false
                | KProp y -> N.eqb x y)

type slot = { sl_ekey : keyid; sl_dkey : keyid; sl_k : slotk }

(** val nonemptyb : 'a1 list -> bool **)

let nonemptyb = function
| [] -> false
| _ :: _ -> true

(** val bip32_ok : bytes -> bool **)

let bip32_ok v =
  (&&) (Nat.eqb (Nat.modulo (length v) (S (S (S (S O))))) O)
    (Nat.leb (S (S (S (S O)))) (length v))

(** val fixlen : nat -> bytes -> bytes **)

let fixlen n0 kd =
  firstn n0 (app kd (repeat X00 n0))

(** val map_put : bytes -> bytes -> mentry list -> mentry list **)

let rec map_put k v = function
| [] -> (k, v) :: []
| m :: r ->
  let (k', v') = m in
  if bytes_eqb k' k then (k', v) :: r else (k', v') :: (map_put k v r)

(** val has_key : bytes -> mentry list -> bool **)

let has_key k l =
  existsb (fun e -> bytes_eqb (fst e) k) l

(** val read_txout : bytes -> bytes option **)

let read_txout v =
  if Nat.ltb (length v) (S (S (S (S (S (S (S (S (S (S (S (S (S (S (S (S (S (S
       (S (S (S (S (S (S (S (S (S (S (S (S (S (S (S (S (S (S (S (S (S (S (S
       (S (S (S O))))))))))))))))))))))))))))))))))))))))))))
  then None
  else (match p_asset v with
        | Some p ->
          let (a, r1) = p in
          (match p_value r1 with
           | Some p0 ->
             let (val0, r2) = p0 in
             (match p_nonce r2 with
              | Some p1 ->
                let (n0, r3) = p1 in
                (match p_var_slice r3 with
                 | Some p2 ->
                   let (s, _) = p2 in
                   Some (app a (app val0 (app n0 (var_slice s))))
                 | None -> None)
              | None -> None)
           | None -> None)
        | None -> None)

(** val key_num : mentry -> n **)

let key_num e =
  be_dec (fst e)

(** val ins_entry : mentry -> mentry list -> mentry list **)

let rec ins_entry e = function
| [] -> e :: []
| x :: r ->
  if N.ltb (key_num e) (key_num x)
  then e :: (x :: r)
  else x :: (ins_entry e r)

(** val sort_entries : mentry list -> mentry list **)

let sort_entries l =
  fold_right ins_entry [] l

(** val s_dec :
    (bytes -> bool) -> (bytes -> bytes option) -> skind -> bytes -> bytes cres **)

let s_dec pk_ok msgtx_canon k v =
  match k with
  | KBytes l -> if len_ok l v then ROk v else RErr
  | KInt n0 ->
    if Nat.eqb (length v) n0
    then ROk (if N.eqb (le_dec v) N0 then [] else v)
    else RErr
  | KPtr n0 -> if Nat.eqb (length v) n0 then ROk v else RErr
  | KModif -> if Nat.eqb (length v) (S O) then ROk v else RErr
  | KBool ->
    (match v with
     | [] -> RErr
     | b :: l ->
       (match l with
        | [] -> ROk ((if N.eqb (n8 b) (Npos XH) then X01 else X00) :: [])
        | _ :: _ -> RErr))
  | KCount ->
    (match p_varint v with
     | Some p ->
       let (n0, b) = p in
       (match b with
        | [] ->
          ROk
            (if N.eqb n0 N0
             then []
             else le_enc (S (S (S (S (S (S (S (S O)))))))) n0)
        | _ :: _ -> RErr)
     | None -> RErr)
  | KTx ->
    (match parse_tx v with
     | Some p -> let (t, _) = p in ROk (ser_full t)
     | None -> RErr)
  | KTxOut -> (match read_txout v with
               | Some b -> ROk b
               | None -> RErr)
  | KMsgTx -> (match msgtx_canon v with
               | Some c -> ROk c
               | None -> RErr)
  | KVec ->
    (match p_vector v with
     | Some p ->
       let (l, _) = p in ROk (match l with
                              | [] -> []
                              | _ :: _ -> vector l)
     | None -> RErr)
  | KPub -> if pk_ok v then ROk v else RErr

(** val s_emit : skind -> bytes -> bytes **)

let s_emit k b =
  match k with
  | KInt n0 -> (match b with
                | [] -> repeat X00 n0
                | _ :: _ -> b)
  | KCount -> varint (le_dec b)
  | _ -> b

(** val s_emits : skind -> bool -> bytes -> bool **)

let s_emits k always b =
  (||) always
    (match k with
     | KModif -> negb (N.eqb (le_dec b) N0)
     | _ -> nonemptyb b)

(** val m_step :
    (bytes -> bool) -> (bytes -> bool) -> (bytes -> bool) -> mkind -> bytes
    -> bytes -> mentry list -> mentry list cres **)

let m_step pk_ok der_ok xonly_ok m kd v l =
  match m with
  | MXpub ->
    if Nat.eqb (length kd) (Z.to_nat g_pubKeyLength)
    then if bip32_ok v then ROk (app l ((kd, v) :: [])) else RErr
    else RErr
  | MScalar ->
    if Nat.eqb (length kd) (S (S (S (S (S (S (S (S (S (S (S (S (S (S (S (S (S
         (S (S (S (S (S (S (S (S (S (S (S (S (S (S (S
         O))))))))))))))))))))))))))))))))
    then ROk (app l ((kd, []) :: []))
    else RErr
  | MPartialSig ->
    if (&&) (pk_ok kd) (der_ok v)
    then if has_key kd l then RErr else ROk (app l ((kd, v) :: []))
    else RErr
  | MBip32 ->
    if pk_ok kd
    then if bip32_ok v
         then if has_key kd l then RErr else ROk (app l ((kd, v) :: []))
         else RErr
    else RErr
  | MMap n0 -> ROk (map_put (fixlen n0 kd) v l)
  | MTapScriptSig ->
    if Nat.eqb (length kd) (S (S (S (S (S (S (S (S (S (S (S (S (S (S (S (S (S
         (S (S (S (S (S (S (S (S (S (S (S (S (S (S (S (S (S (S (S (S (S (S (S
         (S (S (S (S (S (S (S (S (S (S (S (S (S (S (S (S (S (S (S (S (S (S (S
         (S O))))))))))))))))))))))))))))))))))))))))))))))))))))))))))))))))
    then if has_key kd l
         then RErr
         else if (||)
                   (Nat.eqb (length v) (S (S (S (S (S (S (S (S (S (S (S (S (S
                     (S (S (S (S (S (S (S (S (S (S (S (S (S (S (S (S (S (S (S
                     (S (S (S (S (S (S (S (S (S (S (S (S (S (S (S (S (S (S (S
                     (S (S (S (S (S (S (S (S (S (S (S (S (S
                     O)))))))))))))))))))))))))))))))))))))))))))))))))))))))))))))))))
                   (Nat.eqb (length v) (S (S (S (S (S (S (S (S (S (S (S (S (S
                     (S (S (S (S (S (S (S (S (S (S (S (S (S (S (S (S (S (S (S
                     (S (S (S (S (S (S (S (S (S (S (S (S (S (S (S (S (S (S (S
                     (S (S (S (S (S (S (S (S (S (S (S (S (S (S
                     O))))))))))))))))))))))))))))))))))))))))))))))))))))))))))))))))))
              then ROk (app l ((kd, v) :: []))
              else RErr
    else RErr
  | MTapLeaf ->
    (match kd with
     | [] -> RErr
     | c0 :: tl0 ->
       if negb
            (Nat.eqb
              (Nat.modulo (length tl0) (S (S (S (S (S (S (S (S (S (S (S (S (S
                (S (S (S (S (S (S (S (S (S (S (S (S (S (S (S (S (S (S (S
                O))))))))))))))))))))))))))))))))) O)
       then RErr
       else if Nat.ltb (length kd) (S (S (S (S (S (S (S (S (S (S (S (S (S (S
                 (S (S (S (S (S (S (S (S (S (S (S (S (S (S (S (S (S (S (S
                 O)))))))))))))))))))))))))))))))))
            then RErr
            else if Nat.ltb (S (S (S (S (S (S (S (S (S (S (S (S (S (S (S (S
                      (S (S (S (S (S (S (S (S (S (S (S (S (S (S (S (S (S (S
                      (S (S (S (S (S (S (S (S (S (S (S (S (S (S (S (S (S (S
                      (S (S (S (S (S (S (S (S (S (S (S (S (S (S (S (S (S (S
                      (S (S (S (S (S (S (S (S (S (S (S (S (S (S (S (S (S (S
                      (S (S (S (S (S (S (S (S (S (S (S (S (S (S (S (S (S (S
                      (S (S (S (S (S (S (S (S (S (S (S (S (S (S (S (S (S (S
                      (S (S (S (S (S (S (S (S (S (S (S (S (S (S (S (S (S (S
                      (S (S (S (S (S (S (S (S (S (S (S (S (S (S (S (S (S (S
                      (S (S (S (S (S (S (S (S (S (S (S (S (S (S (S (S (S (S
                      (S (S (S (S (S (S (S (S (S (S (S (S (S (S (S (S (S (S
                      (S (S (S (S (S (S (S (S (S (S (S (S (S (S (S (S (S (S
                      (S (S (S (S (S (S (S (S (S (S (S (S (S (S (S (S (S (S
                      (S (S (S (S (S (S (S (S (S (S (S (S (S (S (S (S (S (S
                      (S (S (S (S (S (S (S (S (S (S (S (S (S (S (S (S (S (S
                      (S (S (S (S (S (S (S (S (S (S (S (S (S (S (S (S (S (S
                      (S (S (S (S (S (S (S (S (S (S (S (S (S (S (S (S (S (S
                      (S (S (S (S (S (S (S (S (S (S (S (S (S (S (S (S (S (S
                      (S (S (S (S (S (S (S (S (S (S (S (S (S (S (S (S (S (S
                      (S (S (S (S (S (S (S (S (S (S (S (S (S (S (S (S (S (S
                      (S (S (S (S (S (S (S (S (S (S (S (S (S (S (S (S (S (S
                      (S (S (S (S (S (S (S (S (S (S (S (S (S (S (S (S (S (S
                      (S (S (S (S (S (S (S (S (S (S (S (S (S (S (S (S (S (S
                      (S (S (S (S (S (S (S (S (S (S (S (S (S (S (S (S (S (S
                      (S (S (S (S (S (S (S (S (S (S (S (S (S (S (S (S (S (S
                      (S (S (S (S (S (S (S (S (S (S (S (S (S (S (S (S (S (S
                      (S (S (S (S (S (S (S (S (S (S (S (S (S (S (S (S (S (S
                      (S (S (S (S (S (S (S (S (S (S (S (S (S (S (S (S (S (S
                      (S (S (S (S (S (S (S (S (S (S (S (S (S (S (S (S (S (S
                      (S (S (S (S (S (S (S (S (S (S (S (S (S (S (S (S (S (S
                      (S (S (S (S (S (S (S (S (S (S (S (S (S (S (S (S (S (S
                      (S (S (S (S (S (S (S (S (S (S (S (S (S (S (S (S (S (S
                      (S (S (S (S (S (S (S (S (S (S (S (S (S (S (S (S (S (S
                      (S (S (S (S (S (S (S (S (S (S (S (S (S (S (S (S (S (S
                      (S (S (S (S (S (S (S (S (S (S (S (S (S (S (S (S (S (S
                      (S (S (S (S (S (S (S (S (S (S (S (S (S (S (S (S (S (S
                      (S (S (S (S (S (S (S (S (S (S (S (S (S (S (S (S (S (S
                      (S (S (S (S (S (S (S (S (S (S (S (S (S (S (S (S (S (S
                      (S (S (S (S (S (S (S (S (S (S (S (S (S (S (S (S (S (S
                      (S (S (S (S (S (S (S (S (S (S (S (S (S (S (S (S (S (S
                      (S (S (S (S (S (S (S (S (S (S (S (S (S (S (S (S (S (S
                      (S (S (S (S (S (S (S (S (S (S (S (S (S (S (S (S (S (S
                      (S (S (S (S (S (S (S (S (S (S (S (S (S (S (S (S (S (S
                      (S (S (S (S (S (S (S (S (S (S (S (S (S (S (S (S (S (S
                      (S (S (S (S (S (S (S (S (S (S (S (S (S (S (S (S (S (S
                      (S (S (S (S (S (S (S (S (S (S (S (S (S (S (S (S (S (S
                      (S (S (S (S (S (S (S (S (S (S (S (S (S (S (S (S (S (S
                      (S (S (S (S (S (S (S (S (S (S (S (S (S (S (S (S (S (S
                      (S (S (S (S (S (S (S (S (S (S (S (S (S (S (S (S (S (S
                      (S (S (S (S (S (S (S (S (S (S (S (S (S (S (S (S (S (S
                      (S (S (S (S (S (S (S (S (S (S (S (S (S (S (S (S (S (S
                      (S (S (S (S (S (S (S (S (S (S (S (S (S (S (S (S (S (S
                      (S (S (S (S (S (S (S (S (S (S (S (S (S (S (S (S (S (S
                      (S (S (S (S (S (S (S (S (S (S (S (S (S (S (S (S (S (S
                      (S (S (S (S (S (S (S (S (S (S (S (S (S (S (S (S (S (S
                      (S (S (S (S (S (S (S (S (S (S (S (S (S (S (S (S (S (S
                      (S (S (S (S (S (S (S (S (S (S (S (S (S (S (S (S (S (S
                      (S (S (S (S (S (S (S (S (S (S (S (S (S (S (S (S (S (S
                      (S (S (S (S (S (S (S (S (S (S (S (S (S (S (S (S (S (S
                      (S (S (S (S (S (S (S (S (S (S (S (S (S (S (S (S (S (S
                      (S (S (S (S (S (S (S (S (S (S (S (S (S (S (S (S (S (S
                      (S (S (S (S (S (S (S (S (S (S (S (S (S (S (S (S (S (S
                      (S (S (S (S (S (S (S (S (S (S (S (S (S (S (S (S (S (S
                      (S (S (S (S (S (S (S (S (S (S (S (S (S (S (S (S (S (S
                      (S (S (S (S (S (S (S (S (S (S (S (S (S (S (S (S (S (S
                      (S (S (S (S (S (S (S (S (S (S (S (S (S (S (S (S (S (S
                      (S (S (S (S (S (S (S (S (S (S (S (S (S (S (S (S (S (S
                      (S (S (S (S (S (S (S (S (S (S (S (S (S (S (S (S (S (S
                      (S (S (S (S (S (S (S (S (S (S (S (S (S (S (S (S (S (S
                      (S (S (S (S (S (S (S (S (S (S (S (S (S (S (S (S (S (S
                      (S (S (S (S (S (S (S (S (S (S (S (S (S (S (S (S (S (S
                      (S (S (S (S (S (S (S (S (S (S (S (S (S (S (S (S (S (S
                      (S (S (S (S (S (S (S (S (S (S (S (S (S (S (S (S (S (S
                      (S (S (S (S (S (S (S (S (S (S (S (S (S (S (S (S (S (S
                      (S (S (S (S (S (S (S (S (S (S (S (S (S (S (S (S (S (S
                      (S (S (S (S (S (S (S (S (S (S (S (S (S (S (S (S (S (S
                      (S (S (S (S (S (S (S (S (S (S (S (S (S (S (S (S (S (S
                      (S (S (S (S (S (S (S (S (S (S (S (S (S (S (S (S (S (S
                      (S (S (S (S (S (S (S (S (S (S (S (S (S (S (S (S (S (S
                      (S (S (S (S (S (S (S (S (S (S (S (S (S (S (S (S (S (S
                      (S (S (S (S (S (S (S (S (S (S (S (S (S (S (S (S (S (S
                      (S (S (S (S (S (S (S (S (S (S (S (S (S (S (S (S (S (S
                      (S (S (S (S (S (S (S (S (S (S (S (S (S (S (S (S (S (S
                      (S (S (S (S (S (S (S (S (S (S (S (S (S (S (S (S (S (S
                      (S (S (S (S (S (S (S (S (S (S (S (S (S (S (S (S (S (S
                      (S (S (S (S (S (S (S (S (S (S (S (S (S (S (S (S (S (S
                      (S (S (S (S (S (S (S (S (S (S (S (S (S (S (S (S (S (S
                      (S (S (S (S (S (S (S (S (S (S (S (S (S (S (S (S (S (S
                      (S (S (S (S (S (S (S (S (S (S (S (S (S (S (S (S (S (S
                      (S (S (S (S (S (S (S (S (S (S (S (S (S (S (S (S (S (S
                      (S (S (S (S (S (S (S (S (S (S (S (S (S (S (S (S (S (S
                      (S (S (S (S (S (S (S (S (S (S (S (S (S (S (S (S (S (S
                      (S (S (S (S (S (S (S (S (S (S (S (S (S (S (S (S (S (S
                      (S (S (S (S (S (S (S (S (S (S (S (S (S (S (S (S (S (S
                      (S (S (S (S (S (S (S (S (S (S (S (S (S (S (S (S (S (S
                      (S (S (S (S (S (S (S (S (S (S (S (S (S (S (S (S (S (S
                      (S (S (S (S (S (S (S (S (S (S (S (S (S (S (S (S (S (S
                      (S (S (S (S (S (S (S (S (S (S (S (S (S (S (S (S (S (S
                      (S (S (S (S (S (S (S (S (S (S (S (S (S (S (S (S (S (S
                      (S (S (S (S (S (S (S (S (S (S (S (S (S (S (S (S (S (S
                      (S (S (S (S (S (S (S (S (S (S (S (S (S (S (S (S (S (S
                      (S (S (S (S (S (S (S (S (S (S (S (S (S (S (S (S (S (S
                      (S (S (S (S (S (S (S (S (S (S (S (S (S (S (S (S (S (S
                      (S (S (S (S (S (S (S (S (S (S (S (S (S (S (S (S (S (S
                      (S (S (S (S (S (S (S (S (S (S (S (S (S (S (S (S (S (S
                      (S (S (S (S (S (S (S (S (S (S (S (S (S (S (S (S (S (S
                      (S (S (S (S (S (S (S (S (S (S (S (S (S (S (S (S (S (S
                      (S (S (S (S (S (S (S (S (S (S (S (S (S (S (S (S (S (S
                      (S (S (S (S (S (S (S (S (S (S (S (S (S (S (S (S (S (S
                      (S (S (S (S (S (S (S (S (S (S (S (S (S (S (S (S (S (S
                      (S (S (S (S (S (S (S (S (S (S (S (S (S (S (S (S (S (S
                      (S (S (S (S (S (S (S (S (S (S (S (S (S (S (S (S (S (S
                      (S (S (S (S (S (S (S (S (S (S (S (S (S (S (S (S (S (S
                      (S (S (S (S (S (S (S (S (S (S (S (S (S (S (S (S (S (S
                      (S (S (S (S (S (S (S (S (S (S (S (S (S (S (S (S (S (S
                      (S (S (S (S (S (S (S (S (S (S (S (S (S (S (S (S (S (S
                      (S (S (S (S (S (S (S (S (S (S (S (S (S (S (S (S (S (S
                      (S (S (S (S (S (S (S (S (S (S (S (S (S (S (S (S (S (S
                      (S (S (S (S (S (S (S (S (S (S (S (S (S (S (S (S (S (S
                      (S (S (S (S (S (S (S (S (S (S (S (S (S (S (S (S (S (S
                      (S (S (S (S (S (S (S (S (S (S (S (S (S (S (S (S (S (S
                      (S (S (S (S (S (S (S (S (S (S (S (S (S (S (S (S (S (S
                      (S (S (S (S (S (S (S (S (S (S (S (S (S (S (S (S (S (S
                      (S (S (S (S (S (S (S (S (S (S (S (S (S (S (S (S (S (S
                      (S (S (S (S (S (S (S (S (S (S (S (S (S (S (S (S (S (S
                      (S (S (S (S (S (S (S (S (S (S (S (S (S (S (S (S (S (S
                      (S (S (S (S (S (S (S (S (S (S (S (S (S (S (S (S (S (S
                      (S (S (S (S (S (S (S (S (S (S (S (S (S (S (S (S (S (S
                      (S (S (S (S (S (S (S (S (S (S (S (S (S (S (S (S (S (S
                      (S (S (S (S (S (S (S (S (S (S (S (S (S (S (S (S (S (S
                      (S (S (S (S (S (S (S (S (S (S (S (S (S (S (S (S (S (S
                      (S (S (S (S (S (S (S (S (S (S (S (S (S (S (S (S (S (S
                      (S (S (S (S (S (S (S (S (S (S (S (S (S (S (S (S (S (S
                      (S (S (S (S (S (S (S (S (S (S (S (S (S (S (S (S (S (S
                      (S (S (S (S (S (S (S (S (S (S (S (S (S (S (S (S (S (S
                      (S (S (S (S (S (S (S (S (S (S (S (S (S (S (S (S (S (S
                      (S (S (S (S (S (S (S (S (S (S (S (S (S (S (S (S (S (S
                      (S (S (S (S (S (S (S (S (S (S (S (S (S (S (S (S (S (S
                      (S (S (S (S (S (S (S (S (S (S (S (S (S (S (S (S (S (S
                      (S (S (S (S (S (S (S (S (S (S (S (S (S (S (S (S (S (S
                      (S (S (S (S (S (S (S (S (S (S (S (S (S (S (S (S (S (S
                      (S (S (S (S (S (S (S (S (S (S (S (S (S (S (S (S (S (S
                      (S (S (S (S (S (S (S (S (S (S (S (S (S (S (S (S (S (S
                      (S (S (S (S (S (S (S (S (S (S (S (S (S (S (S (S (S (S
                      (S (S (S (S (S (S (S (S (S (S (S (S (S (S (S (S (S (S
                      (S (S (S (S (S (S (S (S (S (S (S (S (S (S (S (S (S (S
                      (S (S (S (S (S (S (S (S (S (S (S (S (S (S (S (S (S (S
                      (S (S (S (S (S (S (S (S (S (S (S (S (S (S (S (S (S (S
                      (S (S (S (S (S (S (S (S (S (S (S (S (S (S (S (S (S (S
                      (S (S (S (S (S (S (S (S (S (S (S (S (S (S (S (S (S (S
                      (S (S (S (S (S (S (S (S (S (S (S (S (S (S (S (S (S (S
                      (S (S (S (S (S (S (S (S (S (S (S (S (S (S (S (S (S (S
                      (S (S (S (S (S (S (S (S (S (S (S (S (S (S (S (S (S (S
                      (S (S (S (S (S (S (S (S (S (S (S (S (S (S (S (S (S (S
                      (S (S (S (S (S (S (S (S (S (S (S (S (S (S (S (S (S (S
                      (S (S (S (S (S (S (S (S (S (S (S (S (S (S (S (S (S (S
                      (S (S (S (S (S (S (S (S (S (S (S (S (S (S (S (S (S (S
                      (S (S (S (S (S (S (S (S (S (S (S (S (S (S (S (S (S (S
                      (S (S (S (S (S (S (S (S (S (S (S (S (S (S (S (S (S (S
                      (S (S (S (S (S (S (S (S (S (S (S (S (S (S (S (S (S (S
                      (S (S (S (S (S (S (S (S (S (S (S (S (S (S (S (S (S (S
                      (S (S (S (S (S (S (S (S (S (S (S (S (S (S (S (S (S (S
                      (S (S (S (S (S (S (S (S (S (S (S (S (S (S (S (S (S (S
                      (S (S (S (S (S (S (S (S (S (S (S (S (S (S (S (S (S (S
                      (S (S (S (S (S (S (S (S (S (S (S (S (S (S (S (S (S (S
                      (S (S (S (S (S (S (S (S (S (S (S (S (S (S (S (S (S (S
                      (S (S (S (S (S (S (S (S (S (S (S (S (S (S (S (S (S (S
                      (S (S (S (S (S (S (S (S (S (S (S (S (S (S (S (S (S (S
                      (S (S (S (S (S (S (S (S (S (S (S (S (S (S (S (S (S (S
                      (S (S (S (S (S (S (S (S (S (S (S (S (S (S (S (S (S (S
                      (S (S (S (S (S (S (S (S (S (S (S (S (S (S (S (S (S (S
                      (S (S (S (S (S (S (S (S (S (S (S (S (S (S (S (S (S (S
                      (S (S (S (S (S (S (S (S (S (S (S (S (S (S (S (S (S (S
                      (S (S (S (S (S (S (S (S (S (S (S (S (S (S (S (S (S (S
                      (S (S (S (S (S (S (S (S (S (S (S (S (S (S (S (S (S (S
                      (S (S (S (S (S (S (S (S (S (S (S (S (S (S (S (S (S (S
                      (S (S (S (S (S (S (S (S (S (S (S (S (S (S (S (S (S (S
                      (S (S (S (S (S (S (S (S (S (S (S (S (S (S (S (S (S (S
                      (S (S (S (S (S (S (S (S (S (S (S (S (S (S (S (S (S (S
                      (S (S (S (S (S (S (S (S (S (S (S (S (S (S (S (S (S (S
                      (S (S (S (S (S (S (S (S (S (S (S (S (S (S (S (S (S (S
                      (S (S (S (S (S (S (S (S (S (S (S (S (S (S (S (S (S (S
                      (S (S (S (S (S (S (S (S (S (S (S (S (S (S (S (S (S (S
                      (S (S (S (S (S (S (S (S (S (S (S (S (S (S (S (S (S (S
                      (S (S (S (S (S (S (S (S (S (S (S (S (S (S (S (S (S (S
                      (S (S (S (S (S (S (S (S (S (S (S (S (S (S (S (S (S (S
                      (S (S (S (S (S (S (S (S (S (S (S (S (S (S (S (S (S (S
                      (S (S (S (S (S (S (S (S (S (S (S (S (S (S (S (S (S (S
                      (S (S (S (S (S (S (S (S (S (S (S (S (S (S (S (S (S (S
                      (S (S (S (S (S (S (S (S (S (S (S (S (S (S (S (S (S (S
                      (S (S (S (S (S (S (S (S (S (S (S (S (S (S (S (S (S (S
                      (S (S (S (S (S (S (S (S (S (S (S (S (S (S (S (S (S (S
                      (S (S (S (S (S (S (S (S (S (S (S (S (S (S (S (S (S (S
                      (S (S (S (S (S (S (S (S (S (S (S (S (S (S (S (S (S (S
                      (S (S (S (S (S (S (S (S (S (S (S (S (S (S (S (S (S (S
                      (S (S (S (S (S (S (S (S (S (S (S (S (S (S (S (S (S (S
                      (S (S (S (S (S (S (S (S (S (S (S (S (S (S (S (S (S (S
                      (S (S (S (S (S (S (S (S (S (S (S (S (S (S (S (S (S (S
                      (S (S (S (S (S (S (S (S (S (S (S (S (S (S (S (S (S (S
                      (S (S (S (S (S (S (S (S (S (S (S (S (S (S (S (S (S (S
                      (S (S (S (S (S (S (S (S (S (S (S (S (S (S (S (S (S (S
                      (S (S (S (S (S (S (S (S (S (S (S (S (S (S (S (S (S (S
                      (S (S (S (S (S (S (S (S (S (S (S (S (S (S (S (S (S (S
                      (S (S (S (S (S (S (S (S (S (S (S (S (S (S (S (S (S (S
                      (S (S (S (S (S (S (S (S (S (S (S (S (S (S (S (S (S (S
                      (S (S (S (S (S (S (S (S (S (S (S (S (S (S (S (S (S (S
                      (S (S (S (S (S (S (S (S (S (S (S (S (S (S (S (S (S (S
                      (S (S (S (S (S (S (S (S (S (S (S (S (S (S (S (S (S (S
                      (S (S (S (S (S (S (S (S (S (S (S (S (S (S (S (S (S (S
                      (S (S (S (S (S (S (S (S (S (S (S (S (S (S (S (S (S (S
                      (S (S (S (S (S (S (S (S (S (S (S (S (S (S (S (S (S (S
                      (S (S (S (S (S (S (S (S (S (S (S (S (S (S (S (S (S (S
                      (S (S (S (S (S (S (S (S (S (S (S (S (S (S (S (S (S (S
                      (S (S (S (S (S (S (S (S (S (S (S (S (S (S (S (S (S (S
                      (S (S (S (S (S (S (S (S (S (S (S (S (S (S (S (S (S (S
                      (S (S (S (S (S (S (S (S (S (S (S (S (S (S (S (S (S (S
                      (S (S (S (S (S (S (S (S (S (S (S (S (S (S (S (S (S (S
                      (S (S (S (S (S (S (S (S (S (S (S (S (S (S (S (S (S (S
                      (S (S (S (S (S (S (S (S (S (S (S (S (S (S (S (S (S (S
                      (S (S (S (S (S (S (S (S (S (S (S (S (S (S (S (S (S (S
                      (S (S (S (S (S (S (S (S (S (S (S (S (S (S (S (S (S (S
                      (S (S (S (S (S (S (S (S (S (S (S (S (S (S (S (S (S (S
                      (S (S (S (S (S (S (S (S (S (S (S (S (S (S (S (S (S (S
                      (S (S (S (S (S (S (S (S (S (S (S (S (S (S (S (S (S (S
                      (S (S (S (S (S (S (S (S (S (S (S (S (S (S (S (S (S (S
                      (S (S (S (S (S (S (S (S (S (S (S (S (S (S (S (S (S (S
                      (S (S (S (S (S (S (S (S (S (S (S (S (S (S (S (S (S (S
                      (S (S (S (S (S (S (S (S (S (S (S (S (S (S (S (S (S (S
                      (S (S (S (S (S (S (S (S (S (S (S (S (S (S (S (S (S (S
                      (S (S (S (S (S (S (S (S (S
                      O)))))))))))))))))))))))))))))))))))))))))))))))))))))))))))))))))))))))))))))))))))))))))))))))))))))))))))))))))))))))))))))))))))))))))))))))))))))))))))))))))))))))))))))))))))))))))))))))))))))))))))))))))))))))))))))))))))))))))))))))))))))))))))))))))))))))))))))))))))))))))))))))))))))))))))))))))))))))))))))))))))))))))))))))))))))))))))))))))))))))))))))))))))))))))))))))))))))))))))))))))))))))))))))))))))))))))))))))))))))))))))))))))))))))))))))))))))))))))))))))))))))))))))))))))))))))))))))))))))))))))))))))))))))))))))))))))))))))))))))))))))))))))))))))))))))))))))))))))))))))))))))))))))))))))))))))))))))))))))))))))))))))))))))))))))))))))))))))))))))))))))))))))))))))))))))))))))))))))))))))))))))))))))))))))))))))))))))))))))))))))))))))))))))))))))))))))))))))))))))))))))))))))))))))))))))))))))))))))))))))))))))))))))))))))))))))))))))))))))))))))))))))))))))))))))))))))))))))))))))))))))))))))))))))))))))))))))))))))))))))))))))))))))))))))))))))))))))))))))))))))))))))))))))))))))))))))))))))))))))))))))))))))))))))))))))))))))))))))))))))))))))))))))))))))))))))))))))))))))))))))))))))))))))))))))))))))))))))))))))))))))))))))))))))))))))))))))))))))))))))))))))))))))))))))))))))))))))))))))))))))))))))))))))))))))))))))))))))))))))))))))))))))))))))))))))))))))))))))))))))))))))))))))))))))))))))))))))))))))))))))))))))))))))))))))))))))))))))))))))))))))))))))))))))))))))))))))))))))))))))))))))))))))))))))))))))))))))))))))))))))))))))))))))))))))))))))))))))))))))))))))))))))))))))))))))))))))))))))))))))))))))))))))))))))))))))))))))))))))))))))))))))))))))))))))))))))))))))))))))))))))))))))))))))))))))))))))))))))))))))))))))))))))))))))))))))))))))))))))))))))))))))))))))))))))))))))))))))))))))))))))))))))))))))))))))))))))))))))))))))))))))))))))))))))))))))))))))))))))))))))))))))))))))))))))))))))))))))))))))))))))))))))))))))))))))))))))))))))))))))))))))))))))))))))))))))))))))))))))))))))))))))))))))))))))))))))))))))))))))))))))))))))))))))))))))))))))))))))))))))))))))))))))))))))))))))))))))))))))))))))))))))))))))))))))))))))))))))))))))))))))))))))))))))))))))))))))))))))))))))))))))))))))))))))))))))))))))))))))))))))))))))))))))))))))))))))))))))))))))))))))))))))))))))))))))))))))))))))))))))))))))))))))))))))))))))))))))))))))))))))))))))))))))))))))))))))))))))))))))))))))))))))))))))))))))))))))))))))))))))))))))))))))))))))))))))))))))))))))))))))))))))))))))))))))))))))))))))))))))))))))))))))))))))))))))))))))))))))))))))))))))))))))))))))))))))))))))))))))))))))))))))))))))))))))))))))))))))))))))))))))))))))))))))))))))))))))))))))))))))))))))))))))))))))))))))))))))))))))))))))))))))))))))))))))))))))))))))))))))))))))))))))))))))))))))))))))))))))))))))))))))))))))))))))))))))))))))))))))))))))))))))))))))))))))))))))))))))))))))))))))))))))))))))))))))))))))))))))))))))))))))))))))))))))))))))))))))))))))))))))))))))))))))))))))))))))))))))))))))))))))))))))))))))))))))))))))))))))))))))))))))))))))))))))))))))))))))))))))))))))))))))))))))))))))))))))))))))))))))))))))))))))))))))))))))))))))))))))))))))))))))))))))))))))))))))))))))))))))))))))))))))))))))))))))))))))))))))))))))))))))))))))))))))))))))))))))))))))))))))))))))))))))))))))))))))))))))))))))))))))))))))))))))))))))))))))))))))))))))))))))))))))))))))))))))))))))))))))))))))))))))))))))))))))))))))))))))))))))))))))))))))))))))))))))))))))))))))))))))))))))))))))))))))))))))))))))))))))))))))))))))))))))))))))))))))))))))))))))))))))))))))))))))))))))))))))))))))))))))))))))))))))))))))))))))))))))))))))))))))))))))))))))))))))))))))))))))))))))))))))))))))))))))))))))))))))))))))))))))))))))))))))))))))))))))))))))))))))))))))))))))))))))))))))))))))))))))))))))))))))))))))))))))))))))))))))))))))))))))))))))))))))))))))))))))))))))))))))))))))))))))))))))))))))))))))))))))))))))))))))))))))))))))))))))))))))))))))))))))))))))))))))))))))))))))))))))))))))))))))))))))))))))))))))))))))))))))))))))))))))))))))))))))))))))))))))))))))))))))))))))))))))))))))))))))))))))))))))))))))))))))))))))))))))))))))))))))))))))))))))))))))))
                      (length kd)
                 then RErr
                 else if negb
                           (xonly_ok
                             (firstn (S (S (S (S (S (S (S (S (S (S (S (S (S
                               (S (S (S (S (S (S (S (S (S (S (S (S (S (S (S
                               (S (S (S (S O))))))))))))))))))))))))))))))))
                               tl0))
                      then RErr
                      else (match rev v with
                            | [] -> RErr
                            | lv :: _ ->
                              if N.eqb
                                   (N.coq_land (n8 c0) (Npos (XO (XI (XI (XI
                                     (XI (XI (XI XH))))))))) (n8 lv)
                              then ROk (app l ((kd, v) :: []))
                              else RErr))
  | MTapBip32 ->
    if Nat.eqb (length kd) (S (S (S (S (S (S (S (S (S (S (S (S (S (S (S (S (S
         (S (S (S (S (S (S (S (S (S (S (S (S (S (S (S (S
         O)))))))))))))))))))))))))))))))))
    then if has_key kd l
         then RErr
         else (match p_varint v with
               | Some p ->
                 let (n0, r) = p in
                 (match p_list
                          (take (S (S (S (S (S (S (S (S (S (S (S (S (S (S (S
                            (S (S (S (S (S (S (S (S (S (S (S (S (S (S (S (S
                            (S O))))))))))))))))))))))))))))))))) n0 r with
                  | Some p0 ->
                    let (_, deriv) = p0 in
                    if bip32_ok deriv
                    then ROk (app l ((kd, v) :: []))
                    else RErr
                  | None -> RErr)
               | None -> RErr)
    else RErr

(** val find_slot_from : nat -> keyid -> slot list -> (nat * slot) option **)

let rec find_slot_from i key = function
| [] -> None
| sl0 :: r ->
  if keyid_eqb sl0.sl_dkey key
  then Some (i, sl0)
  else find_slot_from (S i) key r

(** val find_slot : keyid -> slot list -> (nat * slot) option **)

let find_slot =
  find_slot_from O

(** val apply_slot :
    (bytes -> bool) -> (bytes -> bool) -> (bytes -> bool) -> (bytes -> bytes
    option) -> nat -> slot -> bytes -> bytes -> sec -> sec cres **)

let apply_slot pk_ok der_ok xonly_ok msgtx_canon i sl0 kd v s =
  match sl0.sl_k with
  | SS (k, _) ->
    if nonemptyb (val_at i s)
    then RErr
    else cbind (s_dec pk_ok msgtx_canon k v) (fun b -> ROk (set_val i b s))
  | MS m ->
    cbind (m_step pk_ok der_ok xonly_ok m kd v (list_at i s)) (fun l -> ROk
      (set_list i l s))

(** val sec_step :
    (bytes -> bool) -> (bytes -> bool) -> (bytes -> bool) -> (bytes -> bytes
    option) -> slot list -> sec -> kpair -> sec cres **)

let sec_step pk_ok der_ok xonly_ok msgtx_canon tbl s k =
  if N.eqb k.k_type psetProprietary
  then (match parse_prop k with
        | Some pd ->
          if bytes_eqb pd.pd_id pset_magic
          then (match find_slot (KProp pd.pd_sub) tbl with
                | Some p ->
                  let (i, sl0) = p in
                  apply_slot pk_ok der_ok xonly_ok msgtx_canon i sl0 pd.pd_kd
                    k.k_val s
                | None -> ROk (add_prop pd s))
          else ROk (add_prop pd s)
        | None -> RErr)
  else (match find_slot (KStd k.k_type) tbl with
        | Some p ->
          let (i, sl0) = p in
          apply_slot pk_ok der_ok xonly_ok msgtx_canon i sl0 k.k_data k.k_val
            s
        | None -> ROk (add_unk k s))

(** val empty_sec : slot list -> sec **)

let empty_sec tbl =
  { s_vals = (repeat [] (length tbl)); s_lists = (repeat [] (length tbl));
    s_props = []; s_unks = [] }

(** val parse_kps :
    (bytes -> bool) -> (bytes -> bool) -> (bytes -> bool) -> (bytes -> bytes
    option) -> slot list -> nat -> sec -> bytes -> (sec * bytes) cres **)

let rec parse_kps pk_ok der_ok xonly_ok msgtx_canon tbl fuel s bs =
  match fuel with
  | O -> RErr
  | S f ->
    (match read_kp bs with
     | KEnd r -> ROk (s, r)
     | KGot (k, r) ->
       cbind (sec_step pk_ok der_ok xonly_ok msgtx_canon tbl s k) (fun s' ->
         parse_kps pk_ok der_ok xonly_ok msgtx_canon tbl f s' r)
     | KErr -> RErr)

(** val parse_section :
    (bytes -> bool) -> (bytes -> bool) -> (bytes -> bool) -> (bytes -> bytes
    option) -> slot list -> (sec -> bool) -> bytes -> (sec * bytes) cres **)

let parse_section pk_ok der_ok xonly_ok msgtx_canon tbl sanity1 bs =
  cbind
    (parse_kps pk_ok der_ok xonly_ok msgtx_canon tbl (S (length bs))
      (empty_sec tbl) bs) (fun sr ->
    if sanity1 (fst sr) then ROk sr else RErr)

(** val m_emit : mkind -> mentry list -> mentry list **)

let m_emit m l =
  match m with
  | MMap _ -> sort_entries l
  | _ -> l

(** val mk_kp_id : keyid -> bytes -> bytes -> kpair **)

let mk_kp_id key kd v =
  match key with
  | KStd t -> { k_type = t; k_data = kd; k_val = v }
  | KProp sub0 ->
    { k_type = psetProprietary; k_data = (prop_key sub0 kd); k_val = v }

(** val emit_slot : nat -> slot -> sec -> kpair list cres **)

let emit_slot i sl0 s =
  match sl0.sl_k with
  | SS (k, al) ->
    let b = val_at i s in
    if s_emits k al b
    then ROk ((mk_kp_id sl0.sl_ekey [] (s_emit k b)) :: [])
    else ROk []
  | MS m ->
    ROk
      (map (fun e -> mk_kp_id sl0.sl_ekey (fst e) (snd e))
        (m_emit m (list_at i s)))

(** val emit_slots : nat -> slot list -> sec -> kpair list cres **)

let rec emit_slots i tbl s =
  match tbl with
  | [] -> ROk []
  | sl0 :: r ->
    cbind (emit_slot i sl0 s) (fun a ->
      cbind (emit_slots (S i) r s) (fun b -> ROk (app a b)))

(** val prop_kp : pdata -> kpair **)

let prop_kp p =
  { k_type = psetProprietary; k_data =
    (prop_key_id (eff_id p.pd_id) p.pd_sub p.pd_kd); k_val = p.pd_val }

(** val kps_of : slot list -> sec -> kpair list cres **)

let kps_of tbl s =
  cbind (emit_slots O tbl s) (fun a -> ROk
    (app a (app (map prop_kp s.s_props) s.s_unks)))

(** val enc_kps : kpair list -> bytes **)

let enc_kps l =
  concat (map ser_kp l)

(** val ser_section : slot list -> sec -> bytes cres **)

let ser_section tbl s =
  cbind (kps_of tbl s) (fun l -> ROk (app (enc_kps l) (pset_sep :: [])))

(** val kS : z -> keyid **)

let kS z0 =
  KStd (Z.to_N z0)

(** val kP : z -> keyid **)

let kP z0 =
  KProp (Z.to_N z0)

(** val sl : keyid -> slotk -> slot **)

let sl key k =
  { sl_ekey = key; sl_dkey = key; sl_k = k }

(** val global_tbl : slot list **)

let global_tbl =
  (sl (kS g_GlobalXpub) (MS MXpub)) :: ((sl (kS g_GlobalTxVersion) (SS ((KInt
                                          (S (S (S (S O))))), true))) :: (
    (sl (kS g_GlobalFallbackLocktime) (SS ((KPtr (S (S (S (S O))))), false))) :: (
    (sl (kS g_GlobalInputCount) (SS (KCount, true))) :: ((sl
                                                           (kS
                                                             g_GlobalOutputCount)
                                                           (SS (KCount,
                                                           true))) :: (
    (sl (kS g_GlobalTxModifiable) (SS ((KPtr (S O)), false))) :: ((sl
                                                                    (kP
                                                                    g_GlobalScalar)
                                                                    (MS
                                                                    MScalar)) :: (
    (sl (kS g_GlobalVersion) (SS ((KInt (S (S (S (S O))))), true))) :: (
    (sl (kP g_GlobalModifiable) (SS (KModif, false))) :: []))))))))

(** val gXpubs : nat **)

let gXpubs =
  O

(** val gTxVersion : nat **)

let gTxVersion =
  S O

(** val gInputCount : nat **)

let gInputCount =
  S (S (S O))

(** val gOutputCount : nat **)

let gOutputCount =
  S (S (S (S O)))

(** val gTxModifiable : nat **)

let gTxModifiable =
  S (S (S (S (S O))))

(** val gScalars : nat **)

let gScalars =
  S (S (S (S (S (S O)))))

(** val gVersion : nat **)

let gVersion =
  S (S (S (S (S (S (S O))))))

(** val gModifiable : nat **)

let gModifiable =
  S (S (S (S (S (S (S (S O)))))))

(** val input_tbl : slot list **)

let input_tbl =
  (sl (kS g_InputNonWitnessUtxo) (SS (KTx, false))) :: ((sl
                                                          (kS
                                                            g_InputWitnessUtxo)
                                                          (SS (KTxOut,
                                                          false))) :: (
    (sl (kS g_InputPartialSig) (MS MPartialSig)) :: ((sl
                                                       (kS g_InputSighashType)
                                                       (SS ((KInt (S (S (S (S
                                                       O))))), false))) :: (
    (sl (kS g_InputRedeemScript) (SS ((KBytes LAny), false))) :: ((sl
                                                                    (kS
                                                                    g_InputWitnessScript)
                                                                    (SS
                                                                    ((KBytes
                                                                    LAny),
                                                                    false))) :: (
    (sl (kS g_InputBip32Derivation) (MS MBip32)) :: ((sl
                                                       (kS
                                                         g_InputFinalScriptsig)
                                                       (SS ((KBytes LAny),
                                                       false))) :: ((sl
                                                                    (kS
                                                                    g_InputFinalScriptwitness)
                                                                    (SS
                                                                    ((KBytes
                                                                    LAny),
                                                                    false))) :: (
    (sl (kS g_InputRipemd160) (MS (MMap (S (S (S (S (S (S (S (S (S (S (S (S
      (S (S (S (S (S (S (S (S O))))))))))))))))))))))) :: ((sl
                                                             (kS
                                                               g_InputSha256)
                                                             (MS (MMap (S (S
                                                             (S (S (S (S (S
                                                             (S (S (S (S (S
                                                             (S (S (S (S (S
                                                             (S (S (S (S (S
                                                             (S (S (S (S (S
                                                             (S (S (S (S (S
                                                             O))))))))))))))))))))))))))))))))))) :: (
    (sl (kS g_InputHash160) (MS (MMap (S (S (S (S (S (S (S (S (S (S (S (S (S
      (S (S (S (S (S (S (S O))))))))))))))))))))))) :: ((sl
                                                          (kS g_InputHash256)
                                                          (MS (MMap (S (S (S
                                                          (S (S (S (S (S (S
                                                          (S (S (S (S (S (S
                                                          (S (S (S (S (S (S
                                                          (S (S (S (S (S (S
                                                          (S (S (S (S (S
                                                          O))))))))))))))))))))))))))))))))))) :: (
    (sl (kS g_InputPreviousTxid) (SS ((KBytes (LEq (S (S (S (S (S (S (S (S (S
      (S (S (S (S (S (S (S (S (S (S (S (S (S (S (S (S (S (S (S (S (S (S (S
      O)))))))))))))))))))))))))))))))))), true))) :: ((sl
                                                         (kS
                                                           g_InputPreviousTxIndex)
                                                         (SS ((KInt (S (S (S
                                                         (S O))))), true))) :: (
    (sl (kS g_InputSequence) (SS ((KInt (S (S (S (S O))))), false))) :: (
    (sl (kS g_InputRequiredTimeLocktime) (SS ((KInt (S (S (S (S O))))),
      false))) :: ((sl (kS g_InputRequiredHeightLocktime) (SS ((KInt (S (S (S
                     (S O))))), false))) :: ((sl (kP g_InputIssuanceValue)
                                               (SS ((KInt (S (S (S (S (S (S
                                               (S (S O))))))))), false))) :: (
    (sl (kP g_InputIssuanceValueCommitment) (SS ((KBytes (LEq (S (S (S (S (S
      (S (S (S (S (S (S (S (S (S (S (S (S (S (S (S (S (S (S (S (S (S (S (S (S
      (S (S (S (S O))))))))))))))))))))))))))))))))))), false))) :: (
    (sl (kP g_InputIssuanceValueRangeproof) (SS ((KBytes LAny), false))) :: (
    (sl (kP g_InputIssuanceInflationKeysRangeproof) (SS ((KBytes LAny),
      false))) :: ((sl (kP g_InputPeginTx) (SS (KMsgTx, false))) :: (
    (sl (kP g_InputPeginTxoutProof) (SS ((KBytes LAny), false))) :: (
    (sl (kP g_InputPeginGenesis) (SS ((KBytes (LEq (S (S (S (S (S (S (S (S (S
      (S (S (S (S (S (S (S (S (S (S (S (S (S (S (S (S (S (S (S (S (S (S (S
      O)))))))))))))))))))))))))))))))))), false))) :: ((sl
                                                          (kP
                                                            g_InputPeginClaimScript)
                                                          (SS ((KBytes LAny),
                                                          false))) :: (
    (sl (kP g_InputPeginValue) (SS ((KInt (S (S (S (S (S (S (S (S O))))))))),
      false))) :: ((sl (kP g_InputPeginWitness) (SS (KVec, false))) :: (
    (sl (kP g_InputIssuanceInflationKeys) (SS ((KInt (S (S (S (S (S (S (S (S
      O))))))))), false))) :: ((sl
                                 (kP g_InputIssuanceInflationKeysCommitment)
                                 (SS ((KBytes (LEq (S (S (S (S (S (S (S (S (S
                                 (S (S (S (S (S (S (S (S (S (S (S (S (S (S (S
                                 (S (S (S (S (S (S (S (S (S
                                 O))))))))))))))))))))))))))))))))))),
                                 false))) :: ((sl
                                                (kP
                                                  g_InputIssuanceBlindingNonce)
                                                (SS ((KBytes (LEq (S (S (S (S
                                                (S (S (S (S (S (S (S (S (S (S
                                                (S (S (S (S (S (S (S (S (S (S
                                                (S (S (S (S (S (S (S (S
                                                O)))))))))))))))))))))))))))))))))),
                                                false))) :: ((sl
                                                               (kP
                                                                 g_InputIssuanceAssetEntropy)
                                                               (SS ((KBytes
                                                               (LEq (S (S (S
                                                               (S (S (S (S (S
                                                               (S (S (S (S (S
                                                               (S (S (S (S (S
                                                               (S (S (S (S (S
                                                               (S (S (S (S (S
                                                               (S (S (S (S
                                                               O)))))))))))))))))))))))))))))))))),
                                                               false))) :: (
    (sl (kP g_InputUtxoRangeProof) (SS ((KBytes LAny), false))) :: ((sl
                                                                    (kP
                                                                    g_InputIssuanceBlindValueProof)
                                                                    (SS
                                                                    ((KBytes
                                                                    LAny),
                                                                    false))) :: (
    (sl (kP g_InputIssuanceBlindInflationKeysProof) (SS ((KBytes LAny),
      false))) :: ((sl (kP g_InputExplicitValue) (SS ((KInt (S (S (S (S (S (S
                     (S (S O))))))))), false))) :: ((sl
                                                      (kP g_InputValueProof)
                                                      (SS ((KBytes LAny),
                                                      false))) :: ((sl
                                                                    (kP
                                                                    g_InputExplicitAsset)
                                                                    (SS
                                                                    ((KBytes
                                                                    (LEq (S
                                                                    (S (S (S
                                                                    (S (S (S
                                                                    (S (S (S
                                                                    (S (S (S
                                                                    (S (S (S
                                                                    (S (S (S
                                                                    (S (S (S
                                                                    (S (S (S
                                                                    (S (S (S
                                                                    (S (S (S
                                                                    (S
                                                                    O)))))))))))))))))))))))))))))))))),
                                                                    false))) :: (
    (sl (kP g_InputAssetProof) (SS ((KBytes LAny), false))) :: ((sl
                                                                  (kP
                                                                    g_InputBlindedIssuanceValue)
                                                                  (SS (KBool,
                                                                  false))) :: (
    (sl (kS g_InputTapKeySig) (SS ((KBytes (LEq2 ((S (S (S (S (S (S (S (S (S
      (S (S (S (S (S (S (S (S (S (S (S (S (S (S (S (S (S (S (S (S (S (S (S (S
      (S (S (S (S (S (S (S (S (S (S (S (S (S (S (S (S (S (S (S (S (S (S (S (S
      (S (S (S (S (S (S (S
      O)))))))))))))))))))))))))))))))))))))))))))))))))))))))))))))))), (S
      (S (S (S (S (S (S (S (S (S (S (S (S (S (S (S (S (S (S (S (S (S (S (S (S
      (S (S (S (S (S (S (S (S (S (S (S (S (S (S (S (S (S (S (S (S (S (S (S (S
      (S (S (S (S (S (S (S (S (S (S (S (S (S (S (S (S
      O)))))))))))))))))))))))))))))))))))))))))))))))))))))))))))))))))))),
      false))) :: ((sl (kS g_InputTapScriptSig) (MS MTapScriptSig)) :: (
    (sl (kS g_InputTapLeafScript) (MS MTapLeaf)) :: ((sl
                                                       (kS
                                                         g_InputTapBip32Derivation)
                                                       (MS MTapBip32)) :: (
    (sl (kS g_InputTapInternalKey) (SS ((KBytes (LEq (S (S (S (S (S (S (S (S
      (S (S (S (S (S (S (S (S (S (S (S (S (S (S (S (S (S (S (S (S (S (S (S (S
      O)))))))))))))))))))))))))))))))))), false))) :: ((sl
                                                          (kS
                                                            g_InputTapMerkleRoot)
                                                          (SS ((KBytes (LEq
                                                          (S (S (S (S (S (S
                                                          (S (S (S (S (S (S
                                                          (S (S (S (S (S (S
                                                          (S (S (S (S (S (S
                                                          (S (S (S (S (S (S
                                                          (S (S
                                                          O)))))))))))))))))))))))))))))))))),
                                                          false))) :: [])))))))))))))))))))))))))))))))))))))))))))))

(** val iWitnessUtxo : nat **)

let iWitnessUtxo =
  S O

(** val iWitnessScript : nat **)

let iWitnessScript =
  S (S (S (S (S O))))

(** val iFinalScriptWitness : nat **)

let iFinalScriptWitness =
  S (S (S (S (S (S (S (S O)))))))

(** val iPreviousTxid : nat **)

let iPreviousTxid =
  S (S (S (S (S (S (S (S (S (S (S (S (S O))))))))))))

(** val iIssuanceValue : nat **)

let iIssuanceValue =
  S (S (S (S (S (S (S (S (S (S (S (S (S (S (S (S (S (S O)))))))))))))))))

(** val iIssuanceValueCommitment : nat **)

let iIssuanceValueCommitment =
  S (S (S (S (S (S (S (S (S (S (S (S (S (S (S (S (S (S (S O))))))))))))))))))

(** val iIssuanceInflationKeys : nat **)

let iIssuanceInflationKeys =
  S (S (S (S (S (S (S (S (S (S (S (S (S (S (S (S (S (S (S (S (S (S (S (S (S
    (S (S (S O)))))))))))))))))))))))))))

(** val iIssuanceInflationKeysCommitment : nat **)

let iIssuanceInflationKeysCommitment =
  S (S (S (S (S (S (S (S (S (S (S (S (S (S (S (S (S (S (S (S (S (S (S (S (S
    (S (S (S (S O))))))))))))))))))))))))))))

(** val iIssuanceBlindValueProof : nat **)

let iIssuanceBlindValueProof =
  S (S (S (S (S (S (S (S (S (S (S (S (S (S (S (S (S (S (S (S (S (S (S (S (S
    (S (S (S (S (S (S (S (S O))))))))))))))))))))))))))))))))

(** val iIssuanceBlindInflationKeysProof : nat **)

let iIssuanceBlindInflationKeysProof =
  S (S (S (S (S (S (S (S (S (S (S (S (S (S (S (S (S (S (S (S (S (S (S (S (S
    (S (S (S (S (S (S (S (S (S O)))))))))))))))))))))))))))))))))

(** val iExplicitValue : nat **)

let iExplicitValue =
  S (S (S (S (S (S (S (S (S (S (S (S (S (S (S (S (S (S (S (S (S (S (S (S (S
    (S (S (S (S (S (S (S (S (S (S O))))))))))))))))))))))))))))))))))

(** val iValueProof : nat **)

let iValueProof =
  S (S (S (S (S (S (S (S (S (S (S (S (S (S (S (S (S (S (S (S (S (S (S (S (S
    (S (S (S (S (S (S (S (S (S (S (S O)))))))))))))))))))))))))))))))))))

(** val iExplicitAsset : nat **)

let iExplicitAsset =
  S (S (S (S (S (S (S (S (S (S (S (S (S (S (S (S (S (S (S (S (S (S (S (S (S
    (S (S (S (S (S (S (S (S (S (S (S (S O))))))))))))))))))))))))))))))))))))

(** val iAssetProof : nat **)

let iAssetProof =
  S (S (S (S (S (S (S (S (S (S (S (S (S (S (S (S (S (S (S (S (S (S (S (S (S
    (S (S (S (S (S (S (S (S (S (S (S (S (S
    O)))))))))))))))))))))))))))))))))))))

(** val iTapKeySig : nat **)

let iTapKeySig =
  S (S (S (S (S (S (S (S (S (S (S (S (S (S (S (S (S (S (S (S (S (S (S (S (S
    (S (S (S (S (S (S (S (S (S (S (S (S (S (S (S
    O)))))))))))))))))))))))))))))))))))))))

(** val iTapScriptSig : nat **)

let iTapScriptSig =
  S (S (S (S (S (S (S (S (S (S (S (S (S (S (S (S (S (S (S (S (S (S (S (S (S
    (S (S (S (S (S (S (S (S (S (S (S (S (S (S (S (S
    O))))))))))))))))))))))))))))))))))))))))

(** val iTapLeafScript : nat **)

let iTapLeafScript =
  S (S (S (S (S (S (S (S (S (S (S (S (S (S (S (S (S (S (S (S (S (S (S (S (S
    (S (S (S (S (S (S (S (S (S (S (S (S (S (S (S (S (S
    O)))))))))))))))))))))))))))))))))))))))))

(** val iTapBip32 : nat **)

let iTapBip32 =
  S (S (S (S (S (S (S (S (S (S (S (S (S (S (S (S (S (S (S (S (S (S (S (S (S
    (S (S (S (S (S (S (S (S (S (S (S (S (S (S (S (S (S (S
    O))))))))))))))))))))))))))))))))))))))))))

(** val iTapInternalKey : nat **)

let iTapInternalKey =
  S (S (S (S (S (S (S (S (S (S (S (S (S (S (S (S (S (S (S (S (S (S (S (S (S
    (S (S (S (S (S (S (S (S (S (S (S (S (S (S (S (S (S (S (S
    O)))))))))))))))))))))))))))))))))))))))))))

(** val iTapMerkleRoot : nat **)

let iTapMerkleRoot =
  S (S (S (S (S (S (S (S (S (S (S (S (S (S (S (S (S (S (S (S (S (S (S (S (S
    (S (S (S (S (S (S (S (S (S (S (S (S (S (S (S (S (S (S (S (S
    O))))))))))))))))))))))))))))))))))))))))))))

(** val output_tbl : slot list **)

let output_tbl =
  (sl (kS g_OutputRedeemScript) (SS ((KBytes LAny), false))) :: ((sl
                                                                   (kS
                                                                    g_OutputWitnessScript)
                                                                   (SS
                                                                   ((KBytes
                                                                   LAny),
                                                                   false))) :: (
    (sl (kS g_OutputBip32Derivation) (MS MBip32)) :: ((sl (kS g_OutputAmount)
                                                        (SS ((KInt (S (S (S
                                                        (S (S (S (S (S
                                                        O))))))))), true))) :: (
    (sl (kS g_OutputScript) (SS ((KBytes LAny), true))) :: ((sl
                                                              (kP
                                                                g_OutputValueCommitment)
                                                              (SS ((KBytes
                                                              (LEq (S (S (S
                                                              (S (S (S (S (S
                                                              (S (S (S (S (S
                                                              (S (S (S (S (S
                                                              (S (S (S (S (S
                                                              (S (S (S (S (S
                                                              (S (S (S (S (S
                                                              O))))))))))))))))))))))))))))))))))),
                                                              false))) :: (
    (sl (kP g_OutputAssetCommitment) (SS ((KBytes (LEq (S (S (S (S (S (S (S
      (S (S (S (S (S (S (S (S (S (S (S (S (S (S (S (S (S (S (S (S (S (S (S (S
      (S (S O))))))))))))))))))))))))))))))))))), false))) :: ((sl
                                                                 (kP
                                                                   g_OutputAsset)
                                                                 (SS ((KBytes
                                                                 (LEq (S (S
                                                                 (S (S (S (S
                                                                 (S (S (S (S
                                                                 (S (S (S (S
                                                                 (S (S (S (S
                                                                 (S (S (S (S
                                                                 (S (S (S (S
                                                                 (S (S (S (S
                                                                 (S (S
                                                                 O)))))))))))))))))))))))))))))))))),
                                                                 false))) :: (
    (sl (kP g_OutputValueRangeproof) (SS ((KBytes LAny), false))) :: (
    (sl (kP g_OutputAssetSurjectionProof) (SS ((KBytes LAny), false))) :: (
    (sl (kP g_OutputBlindingPubkey) (SS (KPub, false))) :: ((sl
                                                              (kP
                                                                g_OutputEcdhPubkey)
                                                              (SS (KPub,
                                                              false))) :: (
    (sl (kP g_OutputBlinderIndex) (SS ((KInt (S (S (S (S O))))), true))) :: (
    (sl (kP g_OutputBlindValueProof) (SS ((KBytes LAny), false))) :: (
    (sl (kP g_OutputBlindAssetProof) (SS ((KBytes LAny), false))) :: []))))))))))))))

(** val oValue : nat **)

let oValue =
  S (S (S O))

(** val oValueCommitment : nat **)

let oValueCommitment =
  S (S (S (S (S O))))

(** val oAssetCommitment : nat **)

let oAssetCommitment =
  S (S (S (S (S (S O)))))

(** val oAsset : nat **)

let oAsset =
  S (S (S (S (S (S (S O))))))

(** val oValueRangeproof : nat **)

let oValueRangeproof =
  S (S (S (S (S (S (S (S O)))))))

(** val oAssetSurjectionProof : nat **)

let oAssetSurjectionProof =
  S (S (S (S (S (S (S (S (S O))))))))

(** val oBlindingPubkey : nat **)

let oBlindingPubkey =
  S (S (S (S (S (S (S (S (S (S O)))))))))

(** val oEcdhPubkey : nat **)

let oEcdhPubkey =
  S (S (S (S (S (S (S (S (S (S (S O))))))))))

(** val oBlinderIndex : nat **)

let oBlinderIndex =
  S (S (S (S (S (S (S (S (S (S (S (S O)))))))))))

(** val oBlindValueProof : nat **)

let oBlindValueProof =
  S (S (S (S (S (S (S (S (S (S (S (S (S O))))))))))))

(** val oBlindAssetProof : nat **)

let oBlindAssetProof =
  S (S (S (S (S (S (S (S (S (S (S (S (S (S O)))))))))))))

(** val has_val : nat -> sec -> bool **)

let has_val i s =
  nonemptyb (val_at i s)

(** val num_val : nat -> sec -> n **)

let num_val i s =
  le_dec (val_at i s)

(** val dup_keys : mentry list -> bool **)

let rec dup_keys = function
| [] -> false
| e :: r -> (||) (has_key (fst e) r) (dup_keys r)

(** val global_sanity : sec -> bool **)

let global_sanity g =
  (&&)
    ((&&)
      ((&&)
        ((&&)
          ((&&) (negb (N.ltb (num_val gTxVersion g) (Npos (XO XH))))
            (N.eqb (num_val gVersion g) (Npos (XO XH))))
          (negb (dup_keys (list_at gXpubs g))))
        (negb (N.ltb (Npos (XI (XI XH))) (num_val gTxModifiable g))))
      (negb
        ((&&) (has_val gModifiable g)
          (negb (N.eqb (num_val gModifiable g) N0)))))
    (negb (dup_keys (list_at gScalars g)))

(** val tapleaf_ok : mentry -> bool **)

let tapleaf_ok e =
  Nat.leb (S (S O)) (length (snd e))

(** val tapsig_ok : mentry -> bool **)

let tapsig_ok e =
  (&&)
    (Nat.eqb
      (length
        (firstn (S (S (S (S (S (S (S (S (S (S (S (S (S (S (S (S (S (S (S (S
          (S (S (S (S (S (S (S (S (S (S (S (S
          O)))))))))))))))))))))))))))))))) (fst e))) (S (S (S (S (S (S (S (S
      (S (S (S (S (S (S (S (S (S (S (S (S (S (S (S (S (S (S (S (S (S (S (S (S
      O)))))))))))))))))))))))))))))))))
    ((||)
      (Nat.eqb (length (snd e)) (S (S (S (S (S (S (S (S (S (S (S (S (S (S (S
        (S (S (S (S (S (S (S (S (S (S (S (S (S (S (S (S (S (S (S (S (S (S (S
        (S (S (S (S (S (S (S (S (S (S (S (S (S (S (S (S (S (S (S (S (S (S (S
        (S (S (S
        O)))))))))))))))))))))))))))))))))))))))))))))))))))))))))))))))))
      (Nat.eqb (length (snd e)) (S (S (S (S (S (S (S (S (S (S (S (S (S (S (S
        (S (S (S (S (S (S (S (S (S (S (S (S (S (S (S (S (S (S (S (S (S (S (S
        (S (S (S (S (S (S (S (S (S (S (S (S (S (S (S (S (S (S (S (S (S (S (S
        (S (S (S (S
        O)))))))))))))))))))))))))))))))))))))))))))))))))))))))))))))))))))

(** val tapbip_ok : mentry -> bool **)

let tapbip_ok e =
  match p_varint (snd e) with
  | Some p -> let (n0, _) = p in negb (N.eqb n0 N0)
  | None -> false

(** val xorb' : bool -> bool -> bool **)

let xorb' a b =
  negb (eqb a b)

(** val input_sanity : sec -> bool **)

let input_sanity i =
  (&&)
    ((&&)
      ((&&)
        ((&&)
          ((&&)
            ((&&)
              ((&&)
                ((&&)
                  ((&&)
                    ((&&)
                      ((&&)
                        ((&&)
                          (negb
                            ((&&) (negb (has_val iWitnessUtxo i))
                              (has_val iWitnessScript i)))
                          (negb
                            ((&&) (negb (has_val iWitnessUtxo i))
                              (has_val iFinalScriptWitness i))))
                        (has_val iPreviousTxid i))
                      (negb
                        ((&&) (has_val iIssuanceValue i)
                          (xorb' (has_val iIssuanceValueCommitment i)
                            (has_val iIssuanceBlindValueProof i)))))
                    (negb
                      ((&&) (has_val iIssuanceInflationKeys i)
                        (xorb' (has_val iIssuanceInflationKeysCommitment i)
                          (has_val iIssuanceBlindInflationKeysProof i)))))
                  (negb
                    (xorb' (has_val iExplicitValue i) (has_val iValueProof i))))
                (negb
                  (xorb' (has_val iExplicitAsset i) (has_val iAssetProof i))))
              (negb
                ((&&) (has_val iTapInternalKey i)
                  (negb
                    (Nat.eqb (length (val_at iTapInternalKey i)) (S (S (S (S
                      (S (S (S (S (S (S (S (S (S (S (S (S (S (S (S (S (S (S
                      (S (S (S (S (S (S (S (S (S (S
                      O)))))))))))))))))))))))))))))))))))))
            (negb
              ((&&) (has_val iTapMerkleRoot i)
                (negb
                  (Nat.eqb (length (val_at iTapMerkleRoot i)) (S (S (S (S (S
                    (S (S (S (S (S (S (S (S (S (S (S (S (S (S (S (S (S (S (S
                    (S (S (S (S (S (S (S (S O)))))))))))))))))))))))))))))))))))))
          (negb
            ((&&) (has_val iTapKeySig i)
              (negb
                (len_ok (LEq2 ((S (S (S (S (S (S (S (S (S (S (S (S (S (S (S
                  (S (S (S (S (S (S (S (S (S (S (S (S (S (S (S (S (S (S (S (S
                  (S (S (S (S (S (S (S (S (S (S (S (S (S (S (S (S (S (S (S (S
                  (S (S (S (S (S (S (S (S (S
                  O)))))))))))))))))))))))))))))))))))))))))))))))))))))))))))))))),
                  (S (S (S (S (S (S (S (S (S (S (S (S (S (S (S (S (S (S (S (S
                  (S (S (S (S (S (S (S (S (S (S (S (S (S (S (S (S (S (S (S (S
                  (S (S (S (S (S (S (S (S (S (S (S (S (S (S (S (S (S (S (S (S
                  (S (S (S (S (S
                  O)))))))))))))))))))))))))))))))))))))))))))))))))))))))))))))))))))
                  (val_at iTapKeySig i))))))
        (forallb tapleaf_ok (list_at iTapLeafScript i)))
      (forallb tapsig_ok (list_at iTapScriptSig i)))
    (forallb tapbip_ok (list_at iTapBip32 i))

(** val out_partially_blinded : sec -> bool **)

let out_partially_blinded o =
  (||)
    ((||)
      ((||) ((||) (has_val oValueCommitment o) (has_val oAssetCommitment o))
        (has_val oValueRangeproof o)) (has_val oAssetSurjectionProof o))
    (has_val oEcdhPubkey o)

(** val out_fully_blinded : sec -> bool **)

let out_fully_blinded o =
  (&&)
    ((&&)
      ((&&) ((&&) (has_val oValueCommitment o) (has_val oAssetCommitment o))
        (has_val oValueRangeproof o)) (has_val oAssetSurjectionProof o))
    (has_val oEcdhPubkey o)

(** val out_needs_blinding : sec -> bool **)

let out_needs_blinding o =
  has_val oBlindingPubkey o

(** val output_sanity : sec -> bool **)

let output_sanity o =
  (&&)
    ((&&)
      ((&&)
        ((&&)
          (negb
            ((&&) (has_val oValue o)
              (xorb' (has_val oValueCommitment o)
                (has_val oBlindValueProof o))))
          (negb
            ((&&) (negb (has_val oAssetCommitment o))
              (negb (has_val oAsset o)))))
        (negb
          ((&&) (has_val oAsset o)
            (xorb' (has_val oAssetCommitment o) (has_val oBlindAssetProof o)))))
      (negb ((&&) (out_partially_blinded o) (negb (out_fully_blinded o)))))
    (negb ((&&) (out_fully_blinded o) (has_val oBlinderIndex o)))

type pset = { p_global : sec; p_ins : sec list; p_outs : sec list }

(** val pset_needs_blinding : pset -> bool **)

let pset_needs_blinding p =
  existsb (fun o -> (&&) (out_needs_blinding o) (negb (out_fully_blinded o)))
    p.p_outs

(** val pset_sanity : pset -> bool **)

let pset_sanity p =
  (&&) ((&&) (forallb input_sanity p.p_ins) (forallb output_sanity p.p_outs))
    (negb
      ((&&)
        ((&&) (existsb out_fully_blinded p.p_outs)
          (negb (nonemptyb (list_at gScalars p.p_global))))
        (pset_needs_blinding p)))

(** val parse_secs :
    (bytes -> bool) -> (bytes -> bool) -> (bytes -> bool) -> (bytes -> bytes
    option) -> slot list -> (sec -> bool) -> nat -> n -> bytes -> (sec
    list * bytes) cres **)

let rec parse_secs pk_ok der_ok xonly_ok msgtx_canon tbl sanity1 fuel n0 bs =
  if N.eqb n0 N0
  then ROk ([], bs)
  else (match fuel with
        | O -> RErr
        | S f ->
          cbind
            (parse_section pk_ok der_ok xonly_ok msgtx_canon tbl sanity1 bs)
            (fun sr ->
            cbind
              (parse_secs pk_ok der_ok xonly_ok msgtx_canon tbl sanity1 f
                (N.pred n0) (snd sr)) (fun lr -> ROk (((fst sr) :: (fst lr)),
              (snd lr)))))

(** val parse_pset :
    (bytes -> bool) -> (bytes -> bool) -> (bytes -> bool) -> (bytes -> bytes
    option) -> bytes -> pset cres **)

let parse_pset pk_ok der_ok xonly_ok msgtx_canon bs =
  match take (S (S (S (S (S O))))) bs with
  | Some p ->
    let (m, r) = p in
    if bytes_eqb m magic_sep
    then cbind
           (parse_section pk_ok der_ok xonly_ok msgtx_canon global_tbl
             global_sanity r) (fun gr ->
           let g = fst gr in
           cbind
             (parse_secs pk_ok der_ok xonly_ok msgtx_canon input_tbl
               input_sanity (S (length (snd gr))) (num_val gInputCount g)
               (snd gr)) (fun ir ->
             cbind
               (parse_secs pk_ok der_ok xonly_ok msgtx_canon output_tbl
                 output_sanity (S (length (snd ir))) (num_val gOutputCount g)
                 (snd ir)) (fun or_ ->
               let p0 = { p_global = g; p_ins = (fst ir); p_outs = (fst or_) }
               in
               if pset_sanity p0 then ROk p0 else RErr)))
    else RErr
  | None -> RErr

(** val ser_secs : slot list -> sec list -> bytes cres **)

let rec ser_secs tbl = function
| [] -> ROk []
| s :: r ->
  cbind (ser_section tbl s) (fun a ->
    cbind (ser_secs tbl r) (fun b -> ROk (app a b)))

(** val ser_pset : pset -> bytes cres **)

let ser_pset p =
  cbind (ser_section global_tbl p.p_global) (fun g ->
    cbind (ser_secs input_tbl p.p_ins) (fun i ->
      cbind (ser_secs output_tbl p.p_outs) (fun o -> ROk
        (app magic_sep (app g (app i o))))))

(** val norm_vals : slot list -> bytes list -> bytes list **)

let rec norm_vals tbl vs =
  match tbl with
  | [] -> vs
  | sl0 :: tr ->
    (match vs with
     | [] -> vs
     | b :: vr ->
       (match sl0.sl_k with
        | SS (k, al) -> if s_emits k al b then b else []
        | MS _ -> b) :: (norm_vals tr vr))

(** val norm_lists : slot list -> mentry list list -> mentry list list **)

let rec norm_lists tbl ls =
  match tbl with
  | [] -> ls
  | sl0 :: tr ->
    (match ls with
     | [] -> ls
     | l :: lr ->
       (match sl0.sl_k with
        | SS (_, _) -> l
        | MS m -> m_emit m l) :: (norm_lists tr lr))

(** val norm_pd : pdata -> pdata **)

let norm_pd p =
  { pd_id = (eff_id p.pd_id); pd_sub = p.pd_sub; pd_kd = p.pd_kd; pd_val =
    p.pd_val }

(** val norm_sec : slot list -> sec -> sec **)

let norm_sec tbl s =
  { s_vals = (norm_vals tbl s.s_vals); s_lists = (norm_lists tbl s.s_lists);
    s_props = (map norm_pd s.s_props); s_unks = s.s_unks }

(** val norm_pset : pset -> pset **)

let norm_pset p =
  { p_global = (norm_sec global_tbl p.p_global); p_ins =
    (map (norm_sec input_tbl) p.p_ins); p_outs =
    (map (norm_sec output_tbl) p.p_outs) }

(** val cres_bytes_eqb : bytes cres -> bytes -> bool **)

let cres_bytes_eqb a b =
  match a with
  | ROk x -> bytes_eqb x b
  | _ -> false

(** val s_wf :
    (bytes -> bool) -> (bytes -> bytes option) -> skind -> bool -> bytes ->
    bool **)

let s_wf pk_ok msgtx_canon k al b =
  if s_emits k al b
  then (&&) (cres_bytes_eqb (s_dec pk_ok msgtx_canon k (s_emit k b)) b)
         (N.ltb (lenN (s_emit k b)) two64)
  else true

(** val entry_eqb : mentry -> mentry -> bool **)

let entry_eqb a b =
  (&&) (bytes_eqb (fst a) (fst b)) (bytes_eqb (snd a) (snd b))

(** val entries_eqb : mentry list -> mentry list -> bool **)

let rec entries_eqb a b =
  match a with
  | [] -> (match b with
           | [] -> true
           | _ :: _ -> false)
  | x :: a' ->
    (match b with
     | [] -> false
     | y :: b' -> (&&) (entry_eqb x y) (entries_eqb a' b'))

(** val m_replay :
    (bytes -> bool) -> (bytes -> bool) -> (bytes -> bool) -> mkind -> mentry
    list -> mentry list -> mentry list cres **)

let rec m_replay pk_ok der_ok xonly_ok m acc = function
| [] -> ROk acc
| e :: r ->
  cbind (m_step pk_ok der_ok xonly_ok m (fst e) (snd e) acc) (fun acc' ->
    m_replay pk_ok der_ok xonly_ok m acc' r)

(** val m_wf :
    (bytes -> bool) -> (bytes -> bool) -> (bytes -> bool) -> mkind -> mentry
    list -> bool **)

let m_wf pk_ok der_ok xonly_ok m l =
  match m_replay pk_ok der_ok xonly_ok m [] (m_emit m l) with
  | ROk l' -> entries_eqb l' (m_emit m l)
  | _ -> false

(** val frame_ok : kpair -> bool **)

let frame_ok k =
  (&&)
    ((&&) (N.ltb k.k_type (Npos (XO (XO (XO (XO (XO (XO (XO (XO XH))))))))))
      (N.leb (N.add (Npos XH) (lenN k.k_data)) maxKeyLen))
    (N.ltb (lenN k.k_val) two64)

(** val slot_wf :
    (bytes -> bool) -> (bytes -> bool) -> (bytes -> bool) -> (bytes -> bytes
    option) -> nat -> slot -> sec -> bool **)

let slot_wf pk_ok der_ok xonly_ok msgtx_canon i sl0 s =
  match sl0.sl_k with
  | SS (k, al) ->
    (&&)
      ((&&) (s_wf pk_ok msgtx_canon k al (val_at i s))
        (match list_at i s with
         | [] -> true
         | _ :: _ -> false))
      ((||) (keyid_eqb sl0.sl_ekey sl0.sl_dkey)
        (negb (s_emits k al (val_at i s))))
  | MS m ->
    (&&)
      ((&&)
        ((&&) (match val_at i s with
               | [] -> true
               | _ :: _ -> false)
          (m_wf pk_ok der_ok xonly_ok m (list_at i s)))
        (keyid_eqb sl0.sl_ekey sl0.sl_dkey))
      (forallb (fun e -> frame_ok (mk_kp_id sl0.sl_ekey (fst e) (snd e)))
        (m_emit m (list_at i s)))

(** val slots_wf :
    (bytes -> bool) -> (bytes -> bool) -> (bytes -> bool) -> (bytes -> bytes
    option) -> nat -> slot list -> sec -> bool **)

let rec slots_wf pk_ok der_ok xonly_ok msgtx_canon i tbl s =
  match tbl with
  | [] -> true
  | sl0 :: r ->
    (&&) (slot_wf pk_ok der_ok xonly_ok msgtx_canon i sl0 s)
      (slots_wf pk_ok der_ok xonly_ok msgtx_canon (S i) r s)

(** val prop_wf : slot list -> pdata -> bool **)

let prop_wf tbl p =
  (&&)
    ((&&) (N.ltb p.pd_sub (Npos (XO (XO (XO (XO (XO (XO (XO (XO XH))))))))))
      (if bytes_eqb (eff_id p.pd_id) pset_magic
       then (match find_slot (KProp p.pd_sub) tbl with
             | Some _ -> false
             | None -> true)
       else true)) (frame_ok (prop_kp p))

(** val unk_wf : slot list -> kpair -> bool **)

let unk_wf tbl k =
  (&&)
    ((&&) (negb (N.eqb k.k_type psetProprietary))
      (match find_slot (KStd k.k_type) tbl with
       | Some _ -> false
       | None -> true)) (frame_ok k)

(** val wf_sec :
    (bytes -> bool) -> (bytes -> bool) -> (bytes -> bool) -> (bytes -> bytes
    option) -> slot list -> (sec -> bool) -> sec -> bool **)

let wf_sec pk_ok der_ok xonly_ok msgtx_canon tbl sanity1 s =
  (&&)
    ((&&)
      ((&&)
        ((&&)
          ((&&) (Nat.eqb (length s.s_vals) (length tbl))
            (Nat.eqb (length s.s_lists) (length tbl)))
          (slots_wf pk_ok der_ok xonly_ok msgtx_canon O tbl s))
        (forallb (prop_wf tbl) s.s_props)) (forallb (unk_wf tbl) s.s_unks))
    (sanity1 (norm_sec tbl s))

(** val wf_pset :
    (bytes -> bool) -> (bytes -> bool) -> (bytes -> bool) -> (bytes -> bytes
    option) -> pset -> bool **)

let wf_pset pk_ok der_ok xonly_ok msgtx_canon p =
  (&&)
    ((&&)
      ((&&)
        ((&&)
          ((&&)
            (wf_sec pk_ok der_ok xonly_ok msgtx_canon global_tbl
              global_sanity p.p_global)
            (forallb
              (wf_sec pk_ok der_ok xonly_ok msgtx_canon input_tbl
                input_sanity) p.p_ins))
          (forallb
            (wf_sec pk_ok der_ok xonly_ok msgtx_canon output_tbl
              output_sanity) p.p_outs))
        (N.eqb (num_val gInputCount p.p_global) (lenL p.p_ins)))
      (N.eqb (num_val gOutputCount p.p_global) (lenL p.p_outs)))
    (pset_sanity (norm_pset p))

type bproof = { p_challenge : bytes; p_solution : bytes }

type compact_params = { cp_script : bytes; cp_limit : n; cp_root : bytes }

type full_params = { fp_script : bytes; fp_limit : n; fp_program : bytes;
                     fp_fedscript : bytes; fp_ext : bytes list }

type dparams =
| DNull
| DCompact of compact_params
| DFull of full_params

type dynafed = { d_current : dparams; d_proposed : dparams;
                 d_witness : bytes list }

type extdata =
| EProof of bproof
| EDyna of dynafed

type header = { h_version : n; h_prev : bytes; h_merkle : bytes; h_time : 
                n; h_height : n; h_ext : extdata }

type block = { b_header : header; b_txs : tx list }

(** val dYNAFED_HF_MASK : n **)

let dYNAFED_HF_MASK =
  Npos (XO (XO (XO (XO (XO (XO (XO (XO (XO (XO (XO (XO (XO (XO (XO (XO (XO
    (XO (XO (XO (XO (XO (XO (XO (XO (XO (XO (XO (XO (XO (XO
    XH)))))))))))))))))))))))))))))))

(** val ser_dparams : dparams -> bytes **)

let ser_dparams = function
| DNull -> (b8 N0) :: []
| DCompact c ->
  app ((b8 (Npos XH)) :: [])
    (app (var_slice c.cp_script)
      (app (le_enc (S (S (S (S O)))) c.cp_limit) c.cp_root))
| DFull f ->
  app ((b8 (Npos (XO XH))) :: [])
    (app (var_slice f.fp_script)
      (app (le_enc (S (S (S (S O)))) f.fp_limit)
        (app (var_slice f.fp_program)
          (app (var_slice f.fp_fedscript) (vector f.fp_ext)))))

(** val ser_ext : bool -> extdata -> bytes **)

let ser_ext for_hash = function
| EProof p ->
  app (var_slice p.p_challenge)
    (if for_hash then [] else var_slice p.p_solution)
| EDyna d ->
  app (ser_dparams d.d_current)
    (app (ser_dparams d.d_proposed)
      (if for_hash then [] else vector d.d_witness))

(** val is_dyna : extdata -> bool **)

let is_dyna = function
| EProof _ -> false
| EDyna _ -> true

(** val ser_header : bool -> header -> bytes **)

let ser_header for_hash h =
  app
    (le_enc (S (S (S (S O))))
      (if is_dyna h.h_ext
       then N.coq_lor h.h_version dYNAFED_HF_MASK
       else h.h_version))
    (app h.h_prev
      (app h.h_merkle
        (app (le_enc (S (S (S (S O)))) h.h_time)
          (app (le_enc (S (S (S (S O)))) h.h_height)
            (ser_ext for_hash h.h_ext)))))

(** val ser_block : block -> bytes **)

let ser_block b =
  app (ser_header false b.b_header)
    (app (varint (lenL b.b_txs)) (enc_list ser_full b.b_txs))

(** val p_dparams : dparams parser0 **)

let p_dparams =
  bind p_u8 (fun ty ->
    if N.eqb ty N0
    then ret DNull
    else if N.eqb ty (Npos XH)
         then bind p_var_slice (fun s ->
                bind (p_le (S (S (S (S O))))) (fun l ->
                  bind
                    (take (S (S (S (S (S (S (S (S (S (S (S (S (S (S (S (S (S
                      (S (S (S (S (S (S (S (S (S (S (S (S (S (S (S
                      O))))))))))))))))))))))))))))))))) (fun r ->
                    ret (DCompact { cp_script = s; cp_limit = l; cp_root =
                      r }))))
         else if N.eqb ty (Npos (XO XH))
              then bind p_var_slice (fun s ->
                     bind (p_le (S (S (S (S O))))) (fun l ->
                       bind p_var_slice (fun pr ->
                         bind p_var_slice (fun fs ->
                           bind p_vector (fun e ->
                             ret (DFull { fp_script = s; fp_limit = l;
                               fp_program = pr; fp_fedscript = fs; fp_ext =
                               e }))))))
              else pfail)

(** val p_ext : bool -> extdata parser0 **)

let p_ext = function
| true ->
  bind p_dparams (fun c ->
    bind p_dparams (fun p ->
      bind p_vector (fun w ->
        ret (EDyna { d_current = c; d_proposed = p; d_witness = w }))))
| false ->
  bind p_var_slice (fun c ->
    bind p_var_slice (fun s ->
      ret (EProof { p_challenge = c; p_solution = s })))

(** val parse_header : header parser0 **)

let parse_header =
  bind (p_le (S (S (S (S O))))) (fun v ->
    let dyna = N.testbit v (Npos (XI (XI (XI (XI XH))))) in
    let ver =
      if dyna
      then N.coq_land v (Npos (XI (XI (XI (XI (XI (XI (XI (XI (XI (XI (XI (XI
             (XI (XI (XI (XI (XI (XI (XI (XI (XI (XI (XI (XI (XI (XI (XI (XI
             (XI (XI XH)))))))))))))))))))))))))))))))
      else v
    in
    bind
      (take (S (S (S (S (S (S (S (S (S (S (S (S (S (S (S (S (S (S (S (S (S (S
        (S (S (S (S (S (S (S (S (S (S O)))))))))))))))))))))))))))))))))
      (fun prev ->
      bind
        (take (S (S (S (S (S (S (S (S (S (S (S (S (S (S (S (S (S (S (S (S (S
          (S (S (S (S (S (S (S (S (S (S (S O)))))))))))))))))))))))))))))))))
        (fun mr ->
        bind (p_le (S (S (S (S O))))) (fun ts ->
          bind (p_le (S (S (S (S O))))) (fun ht ->
            bind (p_ext dyna) (fun e ->
              ret { h_version = ver; h_prev = prev; h_merkle = mr; h_time =
                ts; h_height = ht; h_ext = e }))))))

(** val parse_block : block parser0 **)

let parse_block =
  bind parse_header (fun h ->
    bind p_varint (fun n0 ->
      bind (p_list parse_tx n0) (fun txs -> ret { b_header = h; b_txs = txs })))

(** val wf_dparams : dparams -> bool **)

let wf_dparams = function
| DNull -> true
| DCompact c ->
  (&&) ((&&) (wf_slice c.cp_script) (N.ltb c.cp_limit two32))
    (Nat.eqb (length c.cp_root) (S (S (S (S (S (S (S (S (S (S (S (S (S (S (S
      (S (S (S (S (S (S (S (S (S (S (S (S (S (S (S (S (S
      O)))))))))))))))))))))))))))))))))
| DFull f ->
  (&&)
    ((&&)
      ((&&) ((&&) (wf_slice f.fp_script) (N.ltb f.fp_limit two32))
        (wf_slice f.fp_program)) (wf_slice f.fp_fedscript)) (wf_vec f.fp_ext)

(** val wf_ext : extdata -> bool **)

let wf_ext = function
| EProof p -> (&&) (wf_slice p.p_challenge) (wf_slice p.p_solution)
| EDyna d ->
  (&&) ((&&) (wf_dparams d.d_current) (wf_dparams d.d_proposed))
    (wf_vec d.d_witness)

(** val wf_header : header -> bool **)

let wf_header h =
  (&&)
    ((&&)
      ((&&)
        ((&&)
          ((&&)
            (N.ltb h.h_version (Npos (XO (XO (XO (XO (XO (XO (XO (XO (XO (XO
              (XO (XO (XO (XO (XO (XO (XO (XO (XO (XO (XO (XO (XO (XO (XO (XO
              (XO (XO (XO (XO (XO XH)))))))))))))))))))))))))))))))))
            (Nat.eqb (length h.h_prev) (S (S (S (S (S (S (S (S (S (S (S (S (S
              (S (S (S (S (S (S (S (S (S (S (S (S (S (S (S (S (S (S (S
              O))))))))))))))))))))))))))))))))))
          (Nat.eqb (length h.h_merkle) (S (S (S (S (S (S (S (S (S (S (S (S (S
            (S (S (S (S (S (S (S (S (S (S (S (S (S (S (S (S (S (S (S
            O)))))))))))))))))))))))))))))))))) (N.ltb h.h_time two32))
      (N.ltb h.h_height two32)) (wf_ext h.h_ext)

(** val wf_block : block -> bool **)

let wf_block b =
  (&&) ((&&) (wf_header b.b_header) (N.ltb (lenL b.b_txs) two64))
    (forallb wf_tx b.b_txs)

(** val norm_block : block -> block **)

let norm_block b =
  { b_header = b.b_header; b_txs = (map norm_tx b.b_txs) }

(** val secp_n : z **)

let secp_n =
  Zpos (XI (XO (XO (XO (XO (XO (XI (XO (XI (XO (XO (XO (XO (XO (XI (XO (XO
    (XI (XI (XO (XI (XI (XO (XO (XO (XO (XO (XO (XI (XO (XI (XI (XO (XO (XI
    (XI (XO (XO (XO (XI (XO (XI (XI (XI (XI (XO (XI (XO (XO (XI (XO (XO (XI
    (XO (XI (XI (XI (XI (XI (XI (XI (XI (XO (XI (XI (XI (XO (XI (XI (XI (XO
    (XO (XO (XO (XO (XO (XO (XI (XO (XI (XO (XO (XO (XI (XO (XO (XI (XO (XI
    (XI (XI (XI (XO (XI (XO (XI (XO (XI (XI (XO (XO (XI (XI (XI (XO (XO (XI
    (XI (XI (XO (XI (XI (XO (XI (XI (XI (XO (XI (XO (XI (XO (XI (XO (XI (XI
    (XI (XO (XI (XO (XI (XI (XI (XI (XI (XI (XI (XI (XI (XI (XI (XI (XI (XI
    (XI (XI (XI (XI (XI (XI (XI (XI (XI (XI (XI (XI (XI (XI (XI (XI (XI (XI
    (XI (XI (XI (XI (XI (XI (XI (XI (XI (XI (XI (XI (XI (XI (XI (XI (XI (XI
    (XI (XI (XI (XI (XI (XI (XI (XI (XI (XI (XI (XI (XI (XI (XI (XI (XI (XI
    (XI (XI (XI (XI (XI (XI (XI (XI (XI (XI (XI (XI (XI (XI (XI (XI (XI (XI
    (XI (XI (XI (XI (XI (XI (XI (XI (XI (XI (XI (XI (XI (XI (XI (XI (XI (XI
    (XI (XI (XI (XI (XI (XI (XI (XI (XI (XI (XI (XI (XI (XI (XI (XI (XI (XI
    (XI (XI (XI (XI
    XH)))))))))))))))))))))))))))))))))))))))))))))))))))))))))))))))))))))))))))))))))))))))))))))))))))))))))))))))))))))))))))))))))))))))))))))))))))))))))))))))))))))))))))))))))))))))))))))))))))))))))))))))))))))))))))))))))))))))))))))))))))))))))))))))

(** val sc : bytes -> z **)

let sc b =
  Z.of_N (be_dec b)

(** val enc32 : z -> bytes **)

let enc32 z0 =
  be_enc (S (S (S (S (S (S (S (S (S (S (S (S (S (S (S (S (S (S (S (S (S (S (S
    (S (S (S (S (S (S (S (S (S O)))))))))))))))))))))))))))))))) (Z.to_N z0)

(** val zero0 : bytes **)

let zero0 =
  repeat X00 (S (S (S (S (S (S (S (S (S (S (S (S (S (S (S (S (S (S (S (S (S
    (S (S (S (S (S (S (S (S (S (S (S O))))))))))))))))))))))))))))))))

(** val len32 : bytes -> bool **)

let len32 b =
  Nat.eqb (length b) (S (S (S (S (S (S (S (S (S (S (S (S (S (S (S (S (S (S (S
    (S (S (S (S (S (S (S (S (S (S (S (S (S O))))))))))))))))))))))))))))))))

(** val ec_negate : bytes -> bool * bytes **)

let ec_negate k =
  if len32 k
  then (true, (enc32 (Z.modulo (Z.opp (Z.modulo (sc k) secp_n)) secp_n)))
  else (false, k)

(** val ec_tweak_add : bytes -> bytes -> bool * bytes **)

let ec_tweak_add k t =
  if negb (len32 t)
  then (false, k)
  else if negb (len32 k)
       then (false, k)
       else if Z.leb secp_n (sc t)
            then (false, zero0)
            else let s =
                   Z.modulo (Z.add (Z.modulo (sc k) secp_n) (sc t)) secp_n
                 in
                 if Z.eqb s Z0 then (false, zero0) else (true, (enc32 s))

(** val ec_tweak_mul : bytes -> bytes -> bool * bytes **)

let ec_tweak_mul k t =
  if negb (len32 t)
  then (false, k)
  else if negb (len32 k)
       then (false, k)
       else if Z.leb secp_n (sc t)
            then (false, zero0)
            else if Z.eqb (sc t) Z0
                 then (false, zero0)
                 else (true,
                        (enc32
                          (Z.modulo (Z.mul (Z.modulo (sc k) secp_n) (sc t))
                            secp_n)))

type sowner =
| SCaller of nat
| SGlobal
| SLocal

type sbuf = { sb_own : sowner; sb_dat : bytes }

type swlog = (sowner * bytes) list

(** val scopy : sbuf option -> sbuf option **)

let scopy = function
| Some x -> Some { sb_own = SLocal; sb_dat = x.sb_dat }
| None -> None

(** val sdat : sbuf option -> bytes **)

let sdat = function
| Some x -> x.sb_dat
| None -> []

(** val sbuf_eqb : sbuf option -> sbuf option -> bool **)

let sbuf_eqb a b =
  bytes_eqb (sdat a) (sdat b)

(** val sinplace :
    (bytes -> bool * bytes) -> sbuf option -> swlog -> (bool * sbuf
    option) * swlog **)

let sinplace f b w =
  match b with
  | Some x ->
    let r = f x.sb_dat in
    (((fst r), (Some { sb_own = x.sb_own; sb_dat = (snd r) })),
    (match x.sb_own with
     | SLocal -> w
     | x0 -> (x0, (snd r)) :: w))
  | None -> (((fst (f [])), None), w)

type sres =
| SOk of sbuf option
| SErr

(** val val32 : n -> bytes **)

let val32 amount =
  app
    (repeat X00 (S (S (S (S (S (S (S (S (S (S (S (S (S (S (S (S (S (S (S (S
      (S (S (S (S O)))))))))))))))))))))))))
    (be_enc (S (S (S (S (S (S (S (S O)))))))) amount)

(** val calc_offset_w :
    n -> sbuf option -> sbuf option -> swlog -> sres * swlog **)

let calc_offset_w amount assetBlinder valueBlinder w =
  let ab = scopy assetBlinder in
  let vb = scopy valueBlinder in
  (match ab with
   | Some _ ->
     let val0 = val32 amount in
     if N.ltb N0 amount
     then let (p, w0) = sinplace (fun k -> ec_tweak_mul k val0) ab w in
          let (ok, result) = p in
          if negb ok
          then (SErr, w0)
          else (match vb with
                | Some _ ->
                  let vn = scopy valueBlinder in
                  let (p0, w1) = sinplace ec_negate vn w0 in
                  let (ok0, vn0) = p0 in
                  if negb ok0
                  then (SErr, w1)
                  else if sbuf_eqb vn0 result
                       then ((SOk (Some { sb_own = SLocal; sb_dat =
                              zero0 })), w1)
                       else let (p1, w2) =
                              sinplace (fun k -> ec_tweak_add k (sdat vb))
                                result w1
                            in
                            let (ok1, result0) = p1 in
                            if negb ok1
                            then (SErr, w2)
                            else ((SOk result0), w2)
                | None -> ((SOk result), w0))
     else ((SOk vb), w)
   | None -> ((SOk vb), w))

(** val sub_scalars_w :
    sbuf option -> sbuf option -> swlog -> sres * swlog **)

let sub_scalars_w a b w =
  let aa = scopy a in
  let bb = scopy b in
  (match bb with
   | Some _ ->
     if (&&) (match aa with
              | Some _ -> true
              | None -> false) (sbuf_eqb aa bb)
     then ((SOk (Some { sb_own = SLocal; sb_dat = zero0 })), w)
     else let (p, w0) = sinplace ec_negate bb w in
          let (ok, bb0) = p in
          if negb ok
          then (SErr, w0)
          else (match aa with
                | Some _ ->
                  let (p0, w1) =
                    sinplace (fun k -> ec_tweak_add k (sdat bb0)) aa w0
                  in
                  let (ok0, aa0) = p0 in
                  if negb ok0 then (SErr, w1) else ((SOk aa0), w1)
                | None -> ((SOk bb0), w0))
   | None -> ((SOk aa), w))

(** val add_offset_w :
    sbuf option -> n -> sbuf option -> sbuf option -> swlog -> sres * swlog **)

let add_offset_w scalar value assetBlinder valueBlinder w =
  let s = scopy scalar in
  let ab = scopy assetBlinder in
  let vb = scopy valueBlinder in
  (match ab with
   | Some _ ->
     let (r, w0) = calc_offset_w value ab vb w in
     (match r with
      | SOk scalarOffset ->
        (match scalarOffset with
         | Some _ ->
           (match s with
            | Some _ ->
              let nv = scopy scalarOffset in
              let (p, w1) = sinplace ec_negate nv w0 in
              let (ok, nv0) = p in
              if negb ok
              then (SErr, w1)
              else if sbuf_eqb s nv0
                   then ((SOk (Some { sb_own = SLocal; sb_dat = zero0 })), w1)
                   else let (p0, w2) =
                          sinplace (fun k ->
                            ec_tweak_add k (sdat scalarOffset)) s w1
                        in
                        let (ok0, s0) = p0 in
                        if negb ok0 then (SErr, w2) else ((SOk s0), w2)
            | None -> ((SOk scalarOffset), w0))
         | None -> ((SOk s), w0))
      | SErr -> (SErr, w0))
   | None ->
     (match vb with
      | Some _ ->
        let (r, w0) = calc_offset_w value ab vb w in
        (match r with
         | SOk scalarOffset ->
           (match scalarOffset with
            | Some _ ->
              (match s with
               | Some _ ->
                 let nv = scopy scalarOffset in
                 let (p, w1) = sinplace ec_negate nv w0 in
                 let (ok, nv0) = p in
                 if negb ok
                 then (SErr, w1)
                 else if sbuf_eqb s nv0
                      then ((SOk (Some { sb_own = SLocal; sb_dat = zero0 })),
                             w1)
                      else let (p0, w2) =
                             sinplace (fun k ->
                               ec_tweak_add k (sdat scalarOffset)) s w1
                           in
                           let (ok0, s0) = p0 in
                           if negb ok0 then (SErr, w2) else ((SOk s0), w2)
               | None -> ((SOk scalarOffset), w0))
            | None -> ((SOk s), w0))
         | SErr -> (SErr, w0))
      | None -> ((SOk s), w)))

(** val sarg : nat -> bytes option -> sbuf option **)

let sarg i o =
  option_map (fun x -> { sb_own = (SCaller i); sb_dat = x }) o

type soutcome =
| SOOk of bytes option
| SOErr

(** val sout_of : sres -> soutcome **)

let sout_of = function
| SOk o -> SOOk (option_map (fun s -> s.sb_dat) o)
| SErr -> SOErr

(** val go_calc_offset : n -> bytes option -> bytes option -> sres * swlog **)

let go_calc_offset amount ab vb =
  calc_offset_w amount (sarg O ab) (sarg (S O) vb) []

(** val go_sub_scalars : bytes option -> bytes option -> sres * swlog **)

let go_sub_scalars a b =
  sub_scalars_w (sarg O a) (sarg (S O) b) []

(** val go_add_offset :
    bytes option -> n -> bytes option -> bytes option -> sres * swlog **)

let go_add_offset s value ab vb =
  add_offset_w (sarg O s) value (sarg (S O) ab) (sarg (S (S O)) vb) []

(** val sarg_after : nat -> bytes option -> swlog -> bytes option **)

let rec sarg_after i before = function
| [] -> before
| p :: w' ->
  let (s, d) = p in
  (match s with
   | SCaller j ->
     (match sarg_after i before w' with
      | Some x -> if Nat.eqb i j then Some d else Some x
      | None -> None)
   | _ -> sarg_after i before w')

(** val sreturns_global : sres -> bool **)

let sreturns_global = function
| SOk r0 ->
  (match r0 with
   | Some s ->
     let { sb_own = sb_own0; sb_dat = _ } = s in
     (match sb_own0 with
      | SGlobal -> true
      | _ -> false)
   | None -> false)
| SErr -> false

(** val pair_up : ('a1 -> 'a1 -> 'a1) -> 'a1 list -> 'a1 list **)

let rec pair_up h = function
| [] -> []
| a :: l0 ->
  (match l0 with
   | [] -> (h a a) :: []
   | b :: r -> (h a b) :: (pair_up h r))

(** val root_levels : ('a1 -> 'a1 -> 'a1) -> nat -> 'a1 list -> 'a1 option **)

let rec root_levels h fuel l = match l with
| [] -> None
| a :: l0 ->
  (match l0 with
   | [] -> Some a
   | _ :: _ ->
     (match fuel with
      | O -> None
      | S f -> root_levels h f (pair_up h l)))

(** val merkle_root : ('a1 -> 'a1 -> 'a1) -> 'a1 list -> 'a1 option **)

let merkle_root h l =
  root_levels h (length l) l

type 'a mtree =
| Leaf of 'a * bool
| Node2 of 'a mtree * 'a mtree
| Node1 of 'a mtree

(** val ttake :
    nat -> ('a1 * bool) list -> ('a1 mtree * ('a1 * bool) list) option **)

let rec ttake h l =
  match h with
  | O ->
    (match l with
     | [] -> None
     | p :: r -> let (a, m) = p in Some ((Leaf (a, m)), r))
  | S h' ->
    (match ttake h' l with
     | Some p ->
       let (tl0, r) = p in
       (match r with
        | [] -> Some ((Node1 tl0), [])
        | _ :: _ ->
          (match ttake h' r with
           | Some p0 -> let (tr, r') = p0 in Some ((Node2 (tl0, tr)), r')
           | None -> None))
     | None -> None)

(** val tree_height : n -> nat **)

let tree_height n0 =
  N.to_nat (N.log2_up n0)

(** val tree_of : ('a1 * bool) list -> 'a1 mtree option **)

let tree_of l =
  match ttake (tree_height (lenL l)) l with
  | Some p -> let (t, l0) = p in (match l0 with
                                  | [] -> Some t
                                  | _ :: _ -> None)
  | None -> None

(** val thash : ('a1 -> 'a1 -> 'a1) -> 'a1 mtree -> 'a1 **)

let rec thash h = function
| Leaf (a, _) -> a
| Node2 (l, r) -> h (thash h l) (thash h r)
| Node1 l -> h (thash h l) (thash h l)

(** val tany : 'a1 mtree -> bool **)

let rec tany = function
| Leaf (_, m) -> m
| Node2 (l, r) -> (||) (tany l) (tany r)
| Node1 l -> tany l

(** val tbits : 'a1 mtree -> bool list **)

let rec tbits t =
  if tany t
  then true :: (match t with
                | Leaf (_, _) -> []
                | Node2 (l, r) -> app (tbits l) (tbits r)
                | Node1 l -> tbits l)
  else false :: []

(** val thashes : ('a1 -> 'a1 -> 'a1) -> 'a1 mtree -> 'a1 list **)

let rec thashes h t =
  if tany t
  then (match t with
        | Leaf (a, _) -> a :: []
        | Node2 (l, r) -> app (thashes h l) (thashes h r)
        | Node1 l -> thashes h l)
  else (thash h t) :: []

(** val pad8 : bool list -> bool list **)

let pad8 bits =
  app bits
    (repeat false
      (Nat.modulo
        (sub (S (S (S (S (S (S (S (S O))))))))
          (Nat.modulo (length bits) (S (S (S (S (S (S (S (S O)))))))))) (S (S
        (S (S (S (S (S (S O))))))))))

(** val build :
    ('a1 -> 'a1 -> 'a1) -> ('a1 * bool) list -> (bool list * 'a1 list) option **)

let build h l =
  match tree_of l with
  | Some t -> Some ((pad8 (tbits t)), (thashes h t))
  | None -> None

(** val g_maxBlockWeight : z **)

let g_maxBlockWeight =
  Zpos (XO (XO (XO (XO (XO (XO (XO (XO (XI (XO (XO (XI (XO (XO (XO (XO (XI
    (XO (XI (XI (XI XH)))))))))))))))))))))

(** val g_minTransactionWeight : z **)

let g_minTransactionWeight =
  Zpos (XO (XO (XO (XO (XI (XI (XI XH)))))))

(** val max_txs : n **)

let max_txs =
  Z.to_N (Z.div g_maxBlockWeight g_minTransactionWeight)

(** val width : n -> n -> n **)

let width n0 h =
  N.shiftr
    (N.modulo
      (N.add (N.add n0 (N.modulo (N.shiftl (Npos XH) h) two32))
        (N.sub two32 (Npos XH))) two32) h

(** val height_loop : nat -> n -> n -> n option **)

let rec height_loop fuel n0 h =
  match fuel with
  | O -> None
  | S f ->
    if N.ltb (Npos XH) (width n0 h)
    then height_loop f n0 (N.add h (Npos XH))
    else Some h

type 'a st = { s_bits : bool list; s_hashes : 'a list; s_match : 'a list;
               s_bad : bool }

(** val traverse :
    ('a1 -> 'a1 -> 'a1) -> ('a1 -> 'a1 -> bool) -> n -> nat -> n -> 'a1 st ->
    ('a1 * 'a1 st) option **)

let rec traverse h eqA n0 h0 pos s =
  match s.s_bits with
  | [] -> None
  | b :: bits' ->
    let leaf = fun matched_here ->
      match s.s_hashes with
      | [] -> None
      | x :: hs' ->
        Some (x, { s_bits = bits'; s_hashes = hs'; s_match =
          (if matched_here then app s.s_match (x :: []) else s.s_match);
          s_bad = s.s_bad })
    in
    (match h0 with
     | O -> leaf b
     | S h' ->
       if negb b
       then leaf false
       else (match traverse h eqA n0 h' (N.mul pos (Npos (XO XH))) { s_bits =
                     bits'; s_hashes = s.s_hashes; s_match = s.s_match;
                     s_bad = s.s_bad } with
             | Some p ->
               let (l, s1) = p in
               if N.ltb (N.add (N.mul pos (Npos (XO XH))) (Npos XH))
                    (width n0 (N.of_nat h'))
               then (match traverse h eqA n0 h'
                             (N.add (N.mul pos (Npos (XO XH))) (Npos XH)) s1 with
                     | Some p0 ->
                       let (r, s2) = p0 in
                       Some ((h l r), { s_bits = s2.s_bits; s_hashes =
                       s2.s_hashes; s_match = s2.s_match; s_bad =
                       ((||) s2.s_bad (eqA l r)) })
                     | None -> None)
               else Some ((h l l), s1)
             | None -> None))

(** val extract :
    ('a1 -> 'a1 -> 'a1) -> ('a1 -> 'a1 -> bool) -> n -> 'a1 list -> bool list
    -> ('a1 * 'a1 list) option **)

let extract h eqA n0 hashes bits =
  if N.eqb n0 N0
  then None
  else if N.ltb max_txs n0
       then None
       else if N.ltb n0 (lenL hashes)
            then None
            else if N.ltb (lenL bits) (lenL hashes)
                 then None
                 else (match height_loop (S (S (S (S (S (S (S (S (S (S (S (S
                               (S (S (S (S (S (S (S (S (S (S (S (S (S (S (S
                               (S (S (S (S (S (S (S
                               O)))))))))))))))))))))))))))))))))) n0 N0 with
                       | Some h0 ->
                         (match traverse h eqA n0 (N.to_nat h0) N0 { s_bits =
                                  bits; s_hashes = hashes; s_match = [];
                                  s_bad = false } with
                          | Some p ->
                            let (root, s) = p in
                            if s.s_bad
                            then None
                            else let bits_used =
                                   N.sub (lenL bits) (lenL s.s_bits)
                                 in
                                 if negb
                                      (N.eqb
                                        (N.div
                                          (N.add bits_used (Npos (XI (XI
                                            XH)))) (Npos (XO (XO (XO XH)))))
                                        (N.div
                                          (N.add (lenL bits) (Npos (XI (XI
                                            XH)))) (Npos (XO (XO (XO XH))))))
                                 then None
                                 else if negb (Nat.eqb (length s.s_hashes) O)
                                      then None
                                      else Some (root, s.s_match)
                          | None -> None)
                       | None -> None)

(** val byte_bits : byte -> bool list **)

let byte_bits b =
  let v = n8 b in
  (N.testbit v N0) :: ((N.testbit v (Npos XH)) :: ((N.testbit v (Npos (XO
                                                     XH))) :: ((N.testbit v
                                                                 (Npos (XI
                                                                 XH))) :: (
  (N.testbit v (Npos (XO (XO XH)))) :: ((N.testbit v (Npos (XI (XO XH)))) :: (
  (N.testbit v (Npos (XO (XI XH)))) :: ((N.testbit v (Npos (XI (XI XH)))) :: [])))))))

(** val bits_of_bytes : bytes -> bool list **)

let bits_of_bytes bs =
  flat_map byte_bits bs

type merkle_block = { mb_header : bytes; mb_count : n;
                      mb_hashes : bytes list; mb_flags : bytes }

(** val wire_max_hashes : n **)

let wire_max_hashes =
  Npos (XI (XO (XO (XO (XO (XO (XO (XI (XO (XI (XO (XI (XI (XO (XO (XO (XO
    (XI XH))))))))))))))))))

(** val wire_max_flags : n **)

let wire_max_flags =
  Npos (XO (XO (XO (XO (XI (XO (XI (XO (XI (XI (XO (XO (XO (XO (XI
    XH)))))))))))))))

(** val parse_merkle_block : merkle_block parser0 **)

let parse_merkle_block =
  bind
    (take (S (S (S (S (S (S (S (S (S (S (S (S (S (S (S (S (S (S (S (S (S (S
      (S (S (S (S (S (S (S (S (S (S (S (S (S (S (S (S (S (S (S (S (S (S (S (S
      (S (S (S (S (S (S (S (S (S (S (S (S (S (S (S (S (S (S (S (S (S (S (S (S
      (S (S (S (S (S (S (S (S (S (S
      O)))))))))))))))))))))))))))))))))))))))))))))))))))))))))))))))))))))))))))))))))
    (fun hd0 ->
    bind (p_le (S (S (S (S O))))) (fun cnt ->
      bind p_varint (fun nh ->
        if N.ltb wire_max_hashes nh
        then pfail
        else bind
               (p_list
                 (take (S (S (S (S (S (S (S (S (S (S (S (S (S (S (S (S (S (S
                   (S (S (S (S (S (S (S (S (S (S (S (S (S (S
                   O))))))))))))))))))))))))))))))))) nh) (fun hs ->
               bind p_varint (fun nf ->
                 if N.ltb wire_max_flags nf
                 then pfail
                 else bind (takeN nf) (fun fl ->
                        ret { mb_header = hd0; mb_count = cnt; mb_hashes =
                          hs; mb_flags = fl }))))))

(** val header_root : bytes -> bytes **)

let header_root hd0 =
  firstn (S (S (S (S (S (S (S (S (S (S (S (S (S (S (S (S (S (S (S (S (S (S (S
    (S (S (S (S (S (S (S (S (S O))))))))))))))))))))))))))))))))
    (skipn (S (S (S (S (S (S (S (S (S (S (S (S (S (S (S (S (S (S (S (S (S (S
      (S (S (S (S (S (S (S (S (S (S (S (S (S (S
      O)))))))))))))))))))))))))))))))))))) hd0)

(** val node_hash : bytes -> bytes -> bytes **)

let node_hash l r =
  dsha256 (app l r)

(** val extract_mb : merkle_block -> (bytes * bytes list) option **)

let extract_mb m =
  extract node_hash bytes_eqb m.mb_count m.mb_hashes
    (bits_of_bytes m.mb_flags)

type proof_result =
| PParseErr
| PExtractErr of merkle_block
| POk of merkle_block * bytes * bytes list

(** val run_proof : bytes -> proof_result **)

let run_proof bs =
  match parse_merkle_block bs with
  | Some p ->
    let (m, _) = p in
    (match extract_mb m with
     | Some p0 -> let (root, ms) = p0 in POk (m, root, ms)
     | None -> PExtractErr m)
  | None -> PParseErr

(** val pack_byte : bool list -> nat -> n -> n **)

let rec pack_byte bits i w =
  match i with
  | O -> N0
  | S i' ->
    (match bits with
     | [] -> N0
     | b :: r ->
       N.add (if b then w else N0) (pack_byte r i' (N.mul (Npos (XO XH)) w)))

(** val pack_bits : nat -> bool list -> bytes **)

let rec pack_bits fuel bits =
  match fuel with
  | O -> []
  | S f ->
    (match bits with
     | [] -> []
     | _ :: _ ->
       (b8 (pack_byte bits (S (S (S (S (S (S (S (S O)))))))) (Npos XH))) :: 
         (pack_bits f (skipn (S (S (S (S (S (S (S (S O)))))))) bits)))

(** val flags_of_bits : bool list -> bytes **)

let flags_of_bits bits =
  pack_bits (length bits) bits

(** val ser_merkle_block : merkle_block -> bytes **)

let ser_merkle_block m =
  app m.mb_header
    (app (le_enc (S (S (S (S O)))) m.mb_count)
      (app (varint (lenL m.mb_hashes))
        (app (concat m.mb_hashes) (app (varint (lenN m.mb_flags)) m.mb_flags))))

type btc_view = { bv_txid : bytes; bv_stripped : bytes;
                  bv_outs : (n * bytes) list; bv_main_script : bytes }

(** val defaultSequence : n **)

let defaultSequence =
  Npos (XI (XI (XI (XI (XI (XI (XI (XI (XI (XI (XI (XI (XI (XI (XI (XI (XI
    (XI (XI (XI (XI (XI (XI (XI (XI (XI (XI (XI (XI (XI (XI
    XH)))))))))))))))))))))))))))))))

(** val value_bytes : n -> bytes **)

let value_bytes v =
  (b8 (Npos XH)) :: (be_enc (S (S (S (S (S (S (S (S O)))))))) v)

(** val serialize_value : n -> bytes **)

let serialize_value v =
  removelast (rev (value_bytes v))

(** val find_out :
    (n * bytes) list -> bytes -> n -> (n * n) option -> (n * n) option **)

let rec find_out outs script0 i acc =
  match outs with
  | [] -> acc
  | p :: r ->
    let (v, s) = p in
    find_out r script0 (N.add i (Npos XH))
      (if bytes_eqb s script0 then Some ((N.modulo i two32), v) else acc)

(** val new_index : n -> n **)

let new_index idx =
  if N.eqb idx minusOne then idx else N.coq_land idx outpointIndexMask

(** val pegin_input : bytes -> n -> bytes list -> txin **)

let pegin_input hash idx wit =
  { in_hash = hash; in_index = (new_index idx); in_seq = defaultSequence;
    in_script = []; in_witness = []; in_pegin = true; in_pegwit = wit;
    in_iss = None; in_irp = []; in_inrp = [] }

type 'x pegres =
| PgOk of 'x
| PgErr
| PgPanic

(** val create_pegin_input :
    bytes -> bytes -> bytes -> bytes -> btc_view option -> (txin * n) pegres **)

let create_pegin_input asset genesis claim_script proof bv =
  match parse_merkle_block proof with
  | Some p ->
    let (mb, _) = p in
    (match extract_mb mb with
     | Some p0 ->
       let (root, ms) = p0 in
       if negb (bytes_eqb (header_root mb.mb_header) root)
       then PgErr
       else (match bv with
             | Some v ->
               (match ms with
                | [] -> PgErr
                | m0 :: l ->
                  (match l with
                   | [] ->
                     if negb (bytes_eqb v.bv_txid m0)
                     then PgErr
                     else (match find_out v.bv_outs v.bv_main_script N0 None with
                           | Some p1 ->
                             let (idx, amount) = p1 in
                             (match asset with
                              | [] -> PgPanic
                              | _ :: asset_tail ->
                                PgOk
                                  ((pegin_input m0 idx
                                     ((serialize_value amount) :: (asset_tail :: (
                                     (rev genesis) :: (claim_script :: (v.bv_stripped :: (proof :: []))))))),
                                  amount))
                           | None -> PgErr)
                   | _ :: _ -> PgErr))
             | None -> PgErr)
     | None -> PgErr)
  | None -> PgErr

(** val claim_out0 : bytes -> bytes -> n -> txout **)

let claim_out0 asset claim_script v =
  { o_asset = asset; o_value = (value_bytes v); o_script = claim_script;
    o_nonce = (X00 :: []); o_rp = []; o_sp = [] }

(** val claim_out1 : bytes -> n -> txout **)

let claim_out1 asset v =
  { o_asset = asset; o_value = (value_bytes v); o_script = []; o_nonce =
    (X00 :: []); o_rp = []; o_sp = [] }

(** val claim_tx : txin -> bytes -> bytes -> n -> (n -> n) -> tx **)

let claim_tx input asset claim_script amount fee_of =
  let dummy = { t_version = (Npos (XO XH)); t_flag = N0; t_locktime = N0;
    t_ins = (input :: []); t_outs =
    ((claim_out0 asset claim_script amount) :: ((claim_out1 asset N0) :: [])) }
  in
  let fee = fee_of (vsize dummy) in
  let final = N.modulo (N.sub (N.add amount two64) fee) two64 in
  { t_version = (Npos (XO XH)); t_flag = N0; t_locktime = N0; t_ins =
  (input :: []); t_outs =
  ((claim_out0 asset claim_script final) :: ((claim_out1 asset fee) :: [])) }

(** val claim_fee : txin -> bytes -> bytes -> n -> (n -> n) -> n **)

let claim_fee input asset claim_script amount fee_of =
  fee_of
    (vsize { t_version = (Npos (XO XH)); t_flag = N0; t_locktime = N0;
      t_ins = (input :: []); t_outs =
      ((claim_out0 asset claim_script amount) :: ((claim_out1 asset N0) :: [])) })

(** val claim :
    bytes -> bytes -> bytes -> bytes -> btc_view option -> (n -> n) -> tx
    pegres **)

let claim asset genesis claim_script proof bv fee_of =
  match create_pegin_input asset genesis claim_script proof bv with
  | PgOk x ->
    let (input, amount) = x in
    if (||)
         (N.leb (Npos (XO (XO (XO (XO (XO (XO (XO (XO (XO (XO (XO (XO (XO (XO
           (XO (XO (XO (XO (XO (XO (XO (XO (XO (XO (XO (XO (XO (XO (XO (XO
           (XO (XO (XO (XO (XO (XO (XO (XO (XO (XO (XO (XO (XO (XO (XO (XO
           (XO (XO (XO (XO (XO (XO (XO (XO (XO (XO (XO (XO (XO (XO (XO (XO
           (XO
           XH))))))))))))))))))))))))))))))))))))))))))))))))))))))))))))))))
           amount)
         (N.ltb amount (claim_fee input asset claim_script amount fee_of))
    then PgErr
    else PgOk (claim_tx input asset claim_script amount fee_of)
  | PgErr -> PgErr
  | PgPanic -> PgPanic

(** val fee_dyadic : n -> n -> n -> n **)

let fee_dyadic num k vs =
  N.modulo (N.div (N.mul vs num) (N.pow (Npos (XO XH)) k)) two64

(** val mkl_build : bytes -> (bytes * bool) list -> bytes option **)

let mkl_build header0 l =
  match build node_hash l with
  | Some p ->
    let (bits, hashes) = p in
    Some
    (ser_merkle_block { mb_header = header0; mb_count = (lenL l); mb_hashes =
      hashes; mb_flags = (flags_of_bits bits) })
  | None -> None

(** val mkl_root : bytes list -> bytes option **)

let mkl_root l =
  merkle_root node_hash l

(** val mkl_run : bytes -> proof_result **)

let mkl_run =
  run_proof

(** val mkl_claim :
    bytes -> bytes -> bytes -> bytes -> btc_view option -> n -> n -> tx pegres **)

let mkl_claim asset genesis cs proof bv num k =
  claim asset genesis cs proof bv (fee_dyadic num k)

(** val rotl32 : n -> n -> n **)

let rotl32 n0 x =
  N.coq_lor (N.coq_land (N.shiftl x n0) mask32)
    (N.shiftr x (N.sub (Npos (XO (XO (XO (XO (XO XH)))))) n0))

(** val rmd_f : nat -> n -> n -> n -> n **)

let rmd_f j x y z0 =
  match j with
  | O -> N.coq_lxor (N.coq_lxor x y) z0
  | S n0 ->
    (match n0 with
     | O -> N.coq_lor (N.coq_land x y) (N.coq_land (not32 x) z0)
     | S n1 ->
       (match n1 with
        | O -> N.coq_lxor (N.coq_lor x (not32 y)) z0
        | S n2 ->
          (match n2 with
           | O -> N.coq_lor (N.coq_land x z0) (N.coq_land y (not32 z0))
           | S _ -> N.coq_lxor x (N.coq_lor y (not32 z0)))))

(** val rmd_KL : n list **)

let rmd_KL =
  N0 :: ((Npos (XI (XO (XO (XI (XI (XO (XO (XI (XI (XO (XO (XI (XI (XI (XI
    (XO (XO (XI (XO (XO (XO (XO (XO (XI (XO (XI (XO (XI (XI (XO
    XH))))))))))))))))))))))))))))))) :: ((Npos (XI (XO (XO (XO (XO (XI (XO
    (XI (XI (XI (XO (XI (XO (XI (XI (XI (XI (XO (XO (XI (XI (XO (XI (XI (XO
    (XI (XI (XI (XO (XI XH))))))))))))))))))))))))))))))) :: ((Npos (XO (XO
    (XI (XI (XI (XO (XI (XI (XO (XO (XI (XI (XI (XI (XO (XI (XI (XI (XO (XI
    (XI (XO (XO (XO (XI (XI (XI (XI (XO (XO (XO
    XH)))))))))))))))))))))))))))))))) :: ((Npos (XO (XI (XI (XI (XO (XO (XI
    (XO (XI (XO (XI (XI (XI (XI (XI (XI (XI (XI (XO (XO (XI (XO (XI (XO (XI
    (XO (XO (XI (XO (XI (XO XH)))))))))))))))))))))))))))))))) :: []))))

(** val rmd_KR : n list **)

let rmd_KR =
  (Npos (XO (XI (XI (XO (XO (XI (XI (XI (XI (XI (XO (XI (XO (XO (XO (XI (XO
    (XI (XO (XO (XO (XI (XO (XI (XO (XO (XO (XO (XI (XO
    XH))))))))))))))))))))))))))))))) :: ((Npos (XO (XO (XI (XO (XO (XI (XO
    (XO (XI (XO (XO (XO (XI (XO (XI (XI (XI (XO (XI (XI (XO (XO (XI (XO (XO
    (XO (XI (XI (XI (XO XH))))))))))))))))))))))))))))))) :: ((Npos (XI (XI
    (XO (XO (XI (XI (XI (XI (XO (XI (XI (XI (XI (XI (XO (XO (XO (XO (XO (XO
    (XI (XI (XI (XO (XI (XO (XI (XI (XO (XI
    XH))))))))))))))))))))))))))))))) :: ((Npos (XI (XO (XO (XI (XO (XI (XI
    (XI (XO (XI (XI (XO (XI (XI (XI (XO (XI (XO (XI (XI (XO (XI (XI (XO (XO
    (XI (XO (XI (XI (XI XH))))))))))))))))))))))))))))))) :: (N0 :: []))))

(** val rmd_RL : nat list **)

let rmd_RL =
  O :: ((S O) :: ((S (S O)) :: ((S (S (S O))) :: ((S (S (S (S O)))) :: ((S (S
    (S (S (S O))))) :: ((S (S (S (S (S (S O)))))) :: ((S (S (S (S (S (S (S
    O))))))) :: ((S (S (S (S (S (S (S (S O)))))))) :: ((S (S (S (S (S (S (S
    (S (S O))))))))) :: ((S (S (S (S (S (S (S (S (S (S O)))))))))) :: ((S (S
    (S (S (S (S (S (S (S (S (S O))))))))))) :: ((S (S (S (S (S (S (S (S (S (S
    (S (S O)))))))))))) :: ((S (S (S (S (S (S (S (S (S (S (S (S (S
    O))))))))))))) :: ((S (S (S (S (S (S (S (S (S (S (S (S (S (S
    O)))))))))))))) :: ((S (S (S (S (S (S (S (S (S (S (S (S (S (S (S
    O))))))))))))))) :: ((S (S (S (S (S (S (S O))))))) :: ((S (S (S (S
    O)))) :: ((S (S (S (S (S (S (S (S (S (S (S (S (S O))))))))))))) :: ((S
    O) :: ((S (S (S (S (S (S (S (S (S (S O)))))))))) :: ((S (S (S (S (S (S
    O)))))) :: ((S (S (S (S (S (S (S (S (S (S (S (S (S (S (S
    O))))))))))))))) :: ((S (S (S O))) :: ((S (S (S (S (S (S (S (S (S (S (S
    (S O)))))))))))) :: (O :: ((S (S (S (S (S (S (S (S (S O))))))))) :: ((S
    (S (S (S (S O))))) :: ((S (S O)) :: ((S (S (S (S (S (S (S (S (S (S (S (S
    (S (S O)))))))))))))) :: ((S (S (S (S (S (S (S (S (S (S (S
    O))))))))))) :: ((S (S (S (S (S (S (S (S O)))))))) :: ((S (S (S
    O))) :: ((S (S (S (S (S (S (S (S (S (S O)))))))))) :: ((S (S (S (S (S (S
    (S (S (S (S (S (S (S (S O)))))))))))))) :: ((S (S (S (S O)))) :: ((S (S
    (S (S (S (S (S (S (S O))))))))) :: ((S (S (S (S (S (S (S (S (S (S (S (S
    (S (S (S O))))))))))))))) :: ((S (S (S (S (S (S (S (S O)))))))) :: ((S
    O) :: ((S (S O)) :: ((S (S (S (S (S (S (S O))))))) :: (O :: ((S (S (S (S
    (S (S O)))))) :: ((S (S (S (S (S (S (S (S (S (S (S (S (S
    O))))))))))))) :: ((S (S (S (S (S (S (S (S (S (S (S O))))))))))) :: ((S
    (S (S (S (S O))))) :: ((S (S (S (S (S (S (S (S (S (S (S (S
    O)))))))))))) :: ((S O) :: ((S (S (S (S (S (S (S (S (S O))))))))) :: ((S
    (S (S (S (S (S (S (S (S (S (S O))))))))))) :: ((S (S (S (S (S (S (S (S (S
    (S O)))))))))) :: (O :: ((S (S (S (S (S (S (S (S O)))))))) :: ((S (S (S
    (S (S (S (S (S (S (S (S (S O)))))))))))) :: ((S (S (S (S O)))) :: ((S (S
    (S (S (S (S (S (S (S (S (S (S (S O))))))))))))) :: ((S (S (S O))) :: ((S
    (S (S (S (S (S (S O))))))) :: ((S (S (S (S (S (S (S (S (S (S (S (S (S (S
    (S O))))))))))))))) :: ((S (S (S (S (S (S (S (S (S (S (S (S (S (S
    O)))))))))))))) :: ((S (S (S (S (S O))))) :: ((S (S (S (S (S (S
    O)))))) :: ((S (S O)) :: ((S (S (S (S O)))) :: (O :: ((S (S (S (S (S
    O))))) :: ((S (S (S (S (S (S (S (S (S O))))))))) :: ((S (S (S (S (S (S (S
    O))))))) :: ((S (S (S (S (S (S (S (S (S (S (S (S O)))))))))))) :: ((S (S
    O)) :: ((S (S (S (S (S (S (S (S (S (S O)))))))))) :: ((S (S (S (S (S (S
    (S (S (S (S (S (S (S (S O)))))))))))))) :: ((S O) :: ((S (S (S
    O))) :: ((S (S (S (S (S (S (S (S O)))))))) :: ((S (S (S (S (S (S (S (S (S
    (S (S O))))))))))) :: ((S (S (S (S (S (S O)))))) :: ((S (S (S (S (S (S (S
    (S (S (S (S (S (S (S (S O))))))))))))))) :: ((S (S (S (S (S (S (S (S (S
    (S (S (S (S
    O))))))))))))) :: [])))))))))))))))))))))))))))))))))))))))))))))))))))))))))))))))))))))))))))))))

(** val rmd_RR : nat list **)

let rmd_RR =
  (S (S (S (S (S O))))) :: ((S (S (S (S (S (S (S (S (S (S (S (S (S (S
    O)))))))))))))) :: ((S (S (S (S (S (S (S O))))))) :: (O :: ((S (S (S (S
    (S (S (S (S (S O))))))))) :: ((S (S O)) :: ((S (S (S (S (S (S (S (S (S (S
    (S O))))))))))) :: ((S (S (S (S O)))) :: ((S (S (S (S (S (S (S (S (S (S
    (S (S (S O))))))))))))) :: ((S (S (S (S (S (S O)))))) :: ((S (S (S (S (S
    (S (S (S (S (S (S (S (S (S (S O))))))))))))))) :: ((S (S (S (S (S (S (S
    (S O)))))))) :: ((S O) :: ((S (S (S (S (S (S (S (S (S (S
    O)))))))))) :: ((S (S (S O))) :: ((S (S (S (S (S (S (S (S (S (S (S (S
    O)))))))))))) :: ((S (S (S (S (S (S O)))))) :: ((S (S (S (S (S (S (S (S
    (S (S (S O))))))))))) :: ((S (S (S O))) :: ((S (S (S (S (S (S (S
    O))))))) :: (O :: ((S (S (S (S (S (S (S (S (S (S (S (S (S
    O))))))))))))) :: ((S (S (S (S (S O))))) :: ((S (S (S (S (S (S (S (S (S
    (S O)))))))))) :: ((S (S (S (S (S (S (S (S (S (S (S (S (S (S
    O)))))))))))))) :: ((S (S (S (S (S (S (S (S (S (S (S (S (S (S (S
    O))))))))))))))) :: ((S (S (S (S (S (S (S (S O)))))))) :: ((S (S (S (S (S
    (S (S (S (S (S (S (S O)))))))))))) :: ((S (S (S (S O)))) :: ((S (S (S (S
    (S (S (S (S (S O))))))))) :: ((S O) :: ((S (S O)) :: ((S (S (S (S (S (S
    (S (S (S (S (S (S (S (S (S O))))))))))))))) :: ((S (S (S (S (S
    O))))) :: ((S O) :: ((S (S (S O))) :: ((S (S (S (S (S (S (S
    O))))))) :: ((S (S (S (S (S (S (S (S (S (S (S (S (S (S
    O)))))))))))))) :: ((S (S (S (S (S (S O)))))) :: ((S (S (S (S (S (S (S (S
    (S O))))))))) :: ((S (S (S (S (S (S (S (S (S (S (S O))))))))))) :: ((S (S
    (S (S (S (S (S (S O)))))))) :: ((S (S (S (S (S (S (S (S (S (S (S (S
    O)))))))))))) :: ((S (S O)) :: ((S (S (S (S (S (S (S (S (S (S
    O)))))))))) :: (O :: ((S (S (S (S O)))) :: ((S (S (S (S (S (S (S (S (S (S
    (S (S (S O))))))))))))) :: ((S (S (S (S (S (S (S (S O)))))))) :: ((S (S
    (S (S (S (S O)))))) :: ((S (S (S (S O)))) :: ((S O) :: ((S (S (S
    O))) :: ((S (S (S (S (S (S (S (S (S (S (S O))))))))))) :: ((S (S (S (S (S
    (S (S (S (S (S (S (S (S (S (S O))))))))))))))) :: (O :: ((S (S (S (S (S
    O))))) :: ((S (S (S (S (S (S (S (S (S (S (S (S O)))))))))))) :: ((S (S
    O)) :: ((S (S (S (S (S (S (S (S (S (S (S (S (S O))))))))))))) :: ((S (S
    (S (S (S (S (S (S (S O))))))))) :: ((S (S (S (S (S (S (S O))))))) :: ((S
    (S (S (S (S (S (S (S (S (S O)))))))))) :: ((S (S (S (S (S (S (S (S (S (S
    (S (S (S (S O)))))))))))))) :: ((S (S (S (S (S (S (S (S (S (S (S (S
    O)))))))))))) :: ((S (S (S (S (S (S (S (S (S (S (S (S (S (S (S
    O))))))))))))))) :: ((S (S (S (S (S (S (S (S (S (S O)))))))))) :: ((S (S
    (S (S O)))) :: ((S O) :: ((S (S (S (S (S O))))) :: ((S (S (S (S (S (S (S
    (S O)))))))) :: ((S (S (S (S (S (S (S O))))))) :: ((S (S (S (S (S (S
    O)))))) :: ((S (S O)) :: ((S (S (S (S (S (S (S (S (S (S (S (S (S
    O))))))))))))) :: ((S (S (S (S (S (S (S (S (S (S (S (S (S (S
    O)))))))))))))) :: (O :: ((S (S (S O))) :: ((S (S (S (S (S (S (S (S (S
    O))))))))) :: ((S (S (S (S (S (S (S (S (S (S (S
    O))))))))))) :: [])))))))))))))))))))))))))))))))))))))))))))))))))))))))))))))))))))))))))))))))

(** val rmd_SL : n list **)

let rmd_SL =
  (Npos (XI (XI (XO XH)))) :: ((Npos (XO (XI (XI XH)))) :: ((Npos (XI (XI (XI
    XH)))) :: ((Npos (XO (XO (XI XH)))) :: ((Npos (XI (XO XH))) :: ((Npos (XO
    (XO (XO XH)))) :: ((Npos (XI (XI XH))) :: ((Npos (XI (XO (XO
    XH)))) :: ((Npos (XI (XI (XO XH)))) :: ((Npos (XI (XO (XI
    XH)))) :: ((Npos (XO (XI (XI XH)))) :: ((Npos (XI (XI (XI
    XH)))) :: ((Npos (XO (XI XH))) :: ((Npos (XI (XI XH))) :: ((Npos (XI (XO
    (XO XH)))) :: ((Npos (XO (XO (XO XH)))) :: ((Npos (XI (XI XH))) :: ((Npos
    (XO (XI XH))) :: ((Npos (XO (XO (XO XH)))) :: ((Npos (XI (XO (XI
    XH)))) :: ((Npos (XI (XI (XO XH)))) :: ((Npos (XI (XO (XO
    XH)))) :: ((Npos (XI (XI XH))) :: ((Npos (XI (XI (XI XH)))) :: ((Npos (XI
    (XI XH))) :: ((Npos (XO (XO (XI XH)))) :: ((Npos (XI (XI (XI
    XH)))) :: ((Npos (XI (XO (XO XH)))) :: ((Npos (XI (XI (XO
    XH)))) :: ((Npos (XI (XI XH))) :: ((Npos (XI (XO (XI XH)))) :: ((Npos (XO
    (XO (XI XH)))) :: ((Npos (XI (XI (XO XH)))) :: ((Npos (XI (XO (XI
    XH)))) :: ((Npos (XO (XI XH))) :: ((Npos (XI (XI XH))) :: ((Npos (XO (XI
    (XI XH)))) :: ((Npos (XI (XO (XO XH)))) :: ((Npos (XI (XO (XI
    XH)))) :: ((Npos (XI (XI (XI XH)))) :: ((Npos (XO (XI (XI
    XH)))) :: ((Npos (XO (XO (XO XH)))) :: ((Npos (XI (XO (XI
    XH)))) :: ((Npos (XO (XI XH))) :: ((Npos (XI (XO XH))) :: ((Npos (XO (XO
    (XI XH)))) :: ((Npos (XI (XI XH))) :: ((Npos (XI (XO XH))) :: ((Npos (XI
    (XI (XO XH)))) :: ((Npos (XO (XO (XI XH)))) :: ((Npos (XO (XI (XI
    XH)))) :: ((Npos (XI (XI (XI XH)))) :: ((Npos (XO (XI (XI
    XH)))) :: ((Npos (XI (XI (XI XH)))) :: ((Npos (XI (XO (XO
    XH)))) :: ((Npos (XO (XO (XO XH)))) :: ((Npos (XI (XO (XO
    XH)))) :: ((Npos (XO (XI (XI XH)))) :: ((Npos (XI (XO XH))) :: ((Npos (XO
    (XI XH))) :: ((Npos (XO (XO (XO XH)))) :: ((Npos (XO (XI XH))) :: ((Npos
    (XI (XO XH))) :: ((Npos (XO (XO (XI XH)))) :: ((Npos (XI (XO (XO
    XH)))) :: ((Npos (XI (XI (XI XH)))) :: ((Npos (XI (XO XH))) :: ((Npos (XI
    (XI (XO XH)))) :: ((Npos (XO (XI XH))) :: ((Npos (XO (XO (XO
    XH)))) :: ((Npos (XI (XO (XI XH)))) :: ((Npos (XO (XO (XI
    XH)))) :: ((Npos (XI (XO XH))) :: ((Npos (XO (XO (XI XH)))) :: ((Npos (XI
    (XO (XI XH)))) :: ((Npos (XO (XI (XI XH)))) :: ((Npos (XI (XI (XO
    XH)))) :: ((Npos (XO (XO (XO XH)))) :: ((Npos (XI (XO XH))) :: ((Npos (XO
    (XI
    XH))) :: [])))))))))))))))))))))))))))))))))))))))))))))))))))))))))))))))))))))))))))))))

(** val rmd_SR : n list **)

let rmd_SR =
  (Npos (XO (XO (XO XH)))) :: ((Npos (XI (XO (XO XH)))) :: ((Npos (XI (XO (XO
    XH)))) :: ((Npos (XI (XI (XO XH)))) :: ((Npos (XI (XO (XI
    XH)))) :: ((Npos (XI (XI (XI XH)))) :: ((Npos (XI (XI (XI
    XH)))) :: ((Npos (XI (XO XH))) :: ((Npos (XI (XI XH))) :: ((Npos (XI (XI
    XH))) :: ((Npos (XO (XO (XO XH)))) :: ((Npos (XI (XI (XO XH)))) :: ((Npos
    (XO (XI (XI XH)))) :: ((Npos (XO (XI (XI XH)))) :: ((Npos (XO (XO (XI
    XH)))) :: ((Npos (XO (XI XH))) :: ((Npos (XI (XO (XO XH)))) :: ((Npos (XI
    (XO (XI XH)))) :: ((Npos (XI (XI (XI XH)))) :: ((Npos (XI (XI
    XH))) :: ((Npos (XO (XO (XI XH)))) :: ((Npos (XO (XO (XO XH)))) :: ((Npos
    (XI (XO (XO XH)))) :: ((Npos (XI (XI (XO XH)))) :: ((Npos (XI (XI
    XH))) :: ((Npos (XI (XI XH))) :: ((Npos (XO (XO (XI XH)))) :: ((Npos (XI
    (XI XH))) :: ((Npos (XO (XI XH))) :: ((Npos (XI (XI (XI XH)))) :: ((Npos
    (XI (XO (XI XH)))) :: ((Npos (XI (XI (XO XH)))) :: ((Npos (XI (XO (XO
    XH)))) :: ((Npos (XI (XI XH))) :: ((Npos (XI (XI (XI XH)))) :: ((Npos (XI
    (XI (XO XH)))) :: ((Npos (XO (XO (XO XH)))) :: ((Npos (XO (XI
    XH))) :: ((Npos (XO (XI XH))) :: ((Npos (XO (XI (XI XH)))) :: ((Npos (XO
    (XO (XI XH)))) :: ((Npos (XI (XO (XI XH)))) :: ((Npos (XI (XO
    XH))) :: ((Npos (XO (XI (XI XH)))) :: ((Npos (XI (XO (XI XH)))) :: ((Npos
    (XI (XO (XI XH)))) :: ((Npos (XI (XI XH))) :: ((Npos (XI (XO
    XH))) :: ((Npos (XI (XI (XI XH)))) :: ((Npos (XI (XO XH))) :: ((Npos (XO
    (XO (XO XH)))) :: ((Npos (XI (XI (XO XH)))) :: ((Npos (XO (XI (XI
    XH)))) :: ((Npos (XO (XI (XI XH)))) :: ((Npos (XO (XI XH))) :: ((Npos (XO
    (XI (XI XH)))) :: ((Npos (XO (XI XH))) :: ((Npos (XI (XO (XO
    XH)))) :: ((Npos (XO (XO (XI XH)))) :: ((Npos (XI (XO (XO
    XH)))) :: ((Npos (XO (XO (XI XH)))) :: ((Npos (XI (XO XH))) :: ((Npos (XI
    (XI (XI XH)))) :: ((Npos (XO (XO (XO XH)))) :: ((Npos (XO (XO (XO
    XH)))) :: ((Npos (XI (XO XH))) :: ((Npos (XO (XO (XI XH)))) :: ((Npos (XI
    (XO (XO XH)))) :: ((Npos (XO (XO (XI XH)))) :: ((Npos (XI (XO
    XH))) :: ((Npos (XO (XI (XI XH)))) :: ((Npos (XO (XI XH))) :: ((Npos (XO
    (XO (XO XH)))) :: ((Npos (XI (XO (XI XH)))) :: ((Npos (XO (XI
    XH))) :: ((Npos (XI (XO XH))) :: ((Npos (XI (XI (XI XH)))) :: ((Npos (XI
    (XO (XI XH)))) :: ((Npos (XI (XI (XO XH)))) :: ((Npos (XI (XI (XO
    XH)))) :: [])))))))))))))))))))))))))))))))))))))))))))))))))))))))))))))))))))))))))))))))

(** val le_words_of : nat -> bytes -> n list **)

let rec le_words_of fuel bs =
  match fuel with
  | O -> []
  | S f ->
    (match bs with
     | [] -> []
     | a :: l ->
       (match l with
        | [] -> []
        | b :: l0 ->
          (match l0 with
           | [] -> []
           | c :: l1 ->
             (match l1 with
              | [] -> []
              | d :: r ->
                (N.add
                  (N.mul
                    (N.add
                      (N.mul
                        (N.add
                          (N.mul (n8 d) (Npos (XO (XO (XO (XO (XO (XO (XO (XO
                            XH)))))))))) (n8 c)) (Npos (XO (XO (XO (XO (XO
                        (XO (XO (XO XH)))))))))) (n8 b)) (Npos (XO (XO (XO
                    (XO (XO (XO (XO (XO XH)))))))))) (n8 a)) :: (le_words_of
                                                                  f r)))))

type rmd_state = (((n * n) * n) * n) * n

(** val rmd_step : bool -> n list -> rmd_state -> nat -> rmd_state **)

let rmd_step left x st0 j =
  let (p, e) = st0 in
  let (p0, d) = p in
  let (p1, c) = p0 in
  let (a, b) = p1 in
  let g =
    Nat.div j (S (S (S (S (S (S (S (S (S (S (S (S (S (S (S (S
      O))))))))))))))))
  in
  let fj =
    if left then rmd_f g b c d else rmd_f (sub (S (S (S (S O)))) g) b c d
  in
  let k = if left then nth g rmd_KL N0 else nth g rmd_KR N0 in
  let r = if left then nth j rmd_RL O else nth j rmd_RR O in
  let s = if left then nth j rmd_SL N0 else nth j rmd_SR N0 in
  let t = add32 (rotl32 s (add32 (add32 a fj) (add32 (nthN x r) k))) e in
  ((((e, t), b), (rotl32 (Npos (XO (XI (XO XH)))) c)), d)

(** val rmd_compress : rmd_state -> bytes -> rmd_state **)

let rmd_compress st0 block0 =
  let x =
    le_words_of (S (S (S (S (S (S (S (S (S (S (S (S (S (S (S (S
      O)))))))))))))))) block0
  in
  let (p, h4) = st0 in
  let (p0, h3) = p in
  let (p1, h2) = p0 in
  let (h0, h1) = p1 in
  let (p2, el) =
    fold_left (rmd_step true x)
      (seq O (S (S (S (S (S (S (S (S (S (S (S (S (S (S (S (S (S (S (S (S (S
        (S (S (S (S (S (S (S (S (S (S (S (S (S (S (S (S (S (S (S (S (S (S (S
        (S (S (S (S (S (S (S (S (S (S (S (S (S (S (S (S (S (S (S (S (S (S (S
        (S (S (S (S (S (S (S (S (S (S (S (S (S
        O)))))))))))))))))))))))))))))))))))))))))))))))))))))))))))))))))))))))))))))))))
      st0
  in
  let (p3, dl) = p2 in
  let (p4, cl) = p3 in
  let (al, bl) = p4 in
  let (p5, er) =
    fold_left (rmd_step false x)
      (seq O (S (S (S (S (S (S (S (S (S (S (S (S (S (S (S (S (S (S (S (S (S
        (S (S (S (S (S (S (S (S (S (S (S (S (S (S (S (S (S (S (S (S (S (S (S
        (S (S (S (S (S (S (S (S (S (S (S (S (S (S (S (S (S (S (S (S (S (S (S
        (S (S (S (S (S (S (S (S (S (S (S (S (S
        O)))))))))))))))))))))))))))))))))))))))))))))))))))))))))))))))))))))))))))))))))
      st0
  in
  let (p6, dr) = p5 in
  let (p7, cr) = p6 in
  let (ar, br) = p7 in
  (((((add32 (add32 h1 cl) dr), (add32 (add32 h2 dl) er)),
  (add32 (add32 h3 el) ar)), (add32 (add32 h4 al) br)),
  (add32 (add32 h0 bl) cr))

(** val rmd_blocks : nat -> rmd_state -> bytes -> rmd_state **)

let rec rmd_blocks fuel st0 bs =
  match fuel with
  | O -> st0
  | S f ->
    (match bs with
     | [] -> st0
     | _ :: _ ->
       rmd_blocks f
         (rmd_compress st0
           (firstn (S (S (S (S (S (S (S (S (S (S (S (S (S (S (S (S (S (S (S
             (S (S (S (S (S (S (S (S (S (S (S (S (S (S (S (S (S (S (S (S (S
             (S (S (S (S (S (S (S (S (S (S (S (S (S (S (S (S (S (S (S (S (S
             (S (S (S
             O))))))))))))))))))))))))))))))))))))))))))))))))))))))))))))))))
             bs))
         (skipn (S (S (S (S (S (S (S (S (S (S (S (S (S (S (S (S (S (S (S (S
           (S (S (S (S (S (S (S (S (S (S (S (S (S (S (S (S (S (S (S (S (S (S
           (S (S (S (S (S (S (S (S (S (S (S (S (S (S (S (S (S (S (S (S (S (S
           O))))))))))))))))))))))))))))))))))))))))))))))))))))))))))))))))
           bs))

(** val rmd_pad : bytes -> bytes **)

let rmd_pad msg =
  let l = length msg in
  let k =
    Nat.modulo
      (sub (S (S (S (S (S (S (S (S (S (S (S (S (S (S (S (S (S (S (S (S (S (S
        (S (S (S (S (S (S (S (S (S (S (S (S (S (S (S (S (S (S (S (S (S (S (S
        (S (S (S (S (S (S (S (S (S (S (S (S (S (S (S (S (S (S (S
        O))))))))))))))))))))))))))))))))))))))))))))))))))))))))))))))))
        (Nat.modulo (add l (S (S (S (S (S (S (S (S (S O)))))))))) (S (S (S (S
          (S (S (S (S (S (S (S (S (S (S (S (S (S (S (S (S (S (S (S (S (S (S
          (S (S (S (S (S (S (S (S (S (S (S (S (S (S (S (S (S (S (S (S (S (S
          (S (S (S (S (S (S (S (S (S (S (S (S (S (S (S (S
          O))))))))))))))))))))))))))))))))))))))))))))))))))))))))))))))))))
      (S (S (S (S (S (S (S (S (S (S (S (S (S (S (S (S (S (S (S (S (S (S (S (S
      (S (S (S (S (S (S (S (S (S (S (S (S (S (S (S (S (S (S (S (S (S (S (S (S
      (S (S (S (S (S (S (S (S (S (S (S (S (S (S (S (S
      O))))))))))))))))))))))))))))))))))))))))))))))))))))))))))))))))
  in
  app msg
    (X80 :: (app (repeat X00 k)
              (le_enc (S (S (S (S (S (S (S (S O))))))))
                (N.mul (Npos (XO (XO (XO XH)))) (N.of_nat l)))))

(** val rmd_IV : rmd_state **)

let rmd_IV =
  (((((Npos (XI (XO (XO (XO (XO (XO (XO (XO (XI (XI (XO (XO (XO (XI (XO (XO
    (XI (XO (XI (XO (XO (XO (XI (XO (XI (XI (XI (XO (XO (XI
    XH))))))))))))))))))))))))))))))), (Npos (XI (XO (XO (XI (XO (XO (XO (XI
    (XI (XI (XO (XI (XO (XI (XO (XI (XI (XO (XI (XI (XO (XO (XI (XI (XI (XI
    (XI (XI (XO (XI (XI XH))))))))))))))))))))))))))))))))), (Npos (XO (XI
    (XI (XI (XI (XI (XI (XI (XO (XO (XI (XI (XI (XO (XI (XI (XO (XI (XO (XI
    (XI (XI (XO (XI (XO (XO (XO (XI (XI (XO (XO
    XH))))))))))))))))))))))))))))))))), (Npos (XO (XI (XI (XO (XI (XI (XI
    (XO (XO (XO (XI (XO (XI (XO (XI (XO (XO (XI (XO (XO (XI (XI (XO (XO (XO
    (XO (XO (XO XH)))))))))))))))))))))))))))))), (Npos (XO (XO (XO (XO (XI
    (XI (XI (XI (XI (XO (XO (XO (XO (XI (XI (XI (XO (XI (XO (XO (XI (XO (XI
    (XI (XI (XI (XO (XO (XO (XO (XI XH)))))))))))))))))))))))))))))))))

(** val rmd_digest_of : rmd_state -> bytes **)

let rmd_digest_of = function
| (p, e) ->
  let (p0, d) = p in
  let (p1, c) = p0 in
  let (a, b) = p1 in
  app (le_enc (S (S (S (S O)))) a)
    (app (le_enc (S (S (S (S O)))) b)
      (app (le_enc (S (S (S (S O)))) c)
        (app (le_enc (S (S (S (S O)))) d) (le_enc (S (S (S (S O)))) e))))

(** val ripemd160 : bytes -> bytes **)

let ripemd160 msg =
  let p = rmd_pad msg in
  rmd_digest_of
    (rmd_blocks (S
      (Nat.div (length p) (S (S (S (S (S (S (S (S (S (S (S (S (S (S (S (S (S
        (S (S (S (S (S (S (S (S (S (S (S (S (S (S (S (S (S (S (S (S (S (S (S
        (S (S (S (S (S (S (S (S (S (S (S (S (S (S (S (S (S (S (S (S (S (S (S
        (S O))))))))))))))))))))))))))))))))))))))))))))))))))))))))))))))))))
      rmd_IV p)

(** val hash160 : bytes -> bytes **)

let hash160 msg =
  ripemd160 (sha256 msg)

type rstat =
| StOk
| StErr
| StPanic

type 'a oc =
| OcOk of 'a
| OcErr
| OcPanic

(** val obind : 'a1 oc -> ('a1 -> 'a2 oc) -> 'a2 oc **)

let obind x f =
  match x with
  | OcOk a -> f a
  | OcErr -> OcErr
  | OcPanic -> OcPanic

(** val osome : 'a1 option -> bool **)

let osome = function
| Some _ -> true
| None -> false

(** val onone : 'a1 option -> bool **)

let onone x =
  negb (osome x)

(** val obytes : bytes option -> bytes **)

let obytes = function
| Some b -> b
| None -> []

(** val nthN_err : 'a1 list -> n -> 'a1 option **)

let nthN_err l n0 =
  if N.ltb n0 (lenL l) then nth_error l (N.to_nat n0) else None

(** val lupd : 'a1 list -> nat -> ('a1 -> 'a1) -> 'a1 list **)

let rec lupd l i f =
  match l with
  | [] -> []
  | x :: r -> (match i with
               | O -> (f x) :: r
               | S j -> x :: (lupd r j f))

(** val last_byte : bytes -> byte option **)

let rec last_byte = function
| [] -> None
| b :: r -> (match r with
             | [] -> Some b
             | _ :: _ -> last_byte r)

(** val sOP_0 : byte **)

let sOP_0 =
  X00

(** val sOP_PUSHDATA1 : byte **)

let sOP_PUSHDATA1 =
  X4c

(** val sOP_PUSHDATA2 : byte **)

let sOP_PUSHDATA2 =
  X4d

(** val sOP_PUSHDATA4 : byte **)

let sOP_PUSHDATA4 =
  X4e

(** val sOP_1NEGATE : byte **)

let sOP_1NEGATE =
  X4f

(** val sOP_DUP : byte **)

let sOP_DUP =
  X76

(** val sOP_EQUAL : byte **)

let sOP_EQUAL =
  X87

(** val sOP_EQUALVERIFY : byte **)

let sOP_EQUALVERIFY =
  X88

(** val sOP_HASH160 : byte **)

let sOP_HASH160 =
  Xa9

(** val sOP_CHECKSIG : byte **)

let sOP_CHECKSIG =
  Xac

(** val sOP_CHECKMULTISIG : byte **)

let sOP_CHECKMULTISIG =
  Xae

(** val maxScriptSize : n **)

let maxScriptSize =
  Npos (XO (XO (XO (XO (XI (XO (XO (XO (XI (XI (XI (XO (XO XH)))))))))))))

(** val maxScriptElementSize : n **)

let maxScriptElementSize =
  Npos (XO (XO (XO (XI (XO (XO (XO (XO (XO XH)))))))))

(** val add_data_raw : bytes -> bytes **)

let add_data_raw d = match d with
| [] -> sOP_0 :: []
| b :: l ->
  (match l with
   | [] ->
     let n0 = n8 b in
     if N.eqb n0 N0
     then sOP_0 :: []
     else if N.leb n0 (Npos (XO (XO (XO (XO XH)))))
          then (b8 (N.add (Npos (XO (XO (XO (XO (XI (XO XH))))))) n0)) :: []
          else if N.eqb n0 (Npos (XI (XO (XO (XO (XO (XO (XO XH))))))))
               then sOP_1NEGATE :: []
               else X01 :: d
   | _ :: _ ->
     let l0 = lenN d in
     if N.ltb l0 (Npos (XO (XO (XI (XI (XO (XO XH)))))))
     then (b8 l0) :: d
     else if N.leb l0 (Npos (XI (XI (XI (XI (XI (XI (XI XH))))))))
          then sOP_PUSHDATA1 :: ((b8 l0) :: d)
          else if N.leb l0 (Npos (XI (XI (XI (XI (XI (XI (XI (XI (XI (XI (XI
                    (XI (XI (XI (XI XH))))))))))))))))
               then sOP_PUSHDATA2 :: (app (le_enc (S (S O)) l0) d)
               else sOP_PUSHDATA4 :: (app (le_enc (S (S (S (S O)))) l0) d))

type builder = bytes option

(** val sb_new : builder **)

let sb_new =
  Some []

(** val sb_op : builder -> byte -> builder **)

let sb_op b op0 =
  match b with
  | Some s ->
    if N.leb (N.add (lenN s) (Npos XH)) maxScriptSize
    then Some (app s (op0 :: []))
    else None
  | None -> None

(** val sb_data : builder -> bytes -> builder **)

let sb_data b d =
  match b with
  | Some s ->
    if (&&) (N.leb (N.add (lenN s) (lenN (add_data_raw d))) maxScriptSize)
         (N.leb (lenN d) maxScriptElementSize)
    then Some (app s (add_data_raw d))
    else None
  | None -> None

(** val tokenize_f : nat -> bytes -> (byte * bytes) list option **)

let rec tokenize_f fuel s =
  match fuel with
  | O -> None
  | S f ->
    (match s with
     | [] -> Some []
     | op0 :: r ->
       let o = n8 op0 in
       let pushed =
         if (&&) (N.leb (Npos XH) o)
              (N.leb o (Npos (XI (XI (XO (XI (XO (XO XH))))))))
         then takeN o r
         else if N.eqb o (Npos (XO (XO (XI (XI (XO (XO XH)))))))
              then (match p_le (S O) r with
                    | Some p -> let (n0, r1) = p in takeN n0 r1
                    | None -> None)
              else if N.eqb o (Npos (XI (XO (XI (XI (XO (XO XH)))))))
                   then (match p_le (S (S O)) r with
                         | Some p -> let (n0, r1) = p in takeN n0 r1
                         | None -> None)
                   else if N.eqb o (Npos (XO (XI (XI (XI (XO (XO XH)))))))
                        then (match p_le (S (S (S (S O)))) r with
                              | Some p -> let (n0, r1) = p in takeN n0 r1
                              | None -> None)
                        else Some ([], r)
       in
       (match pushed with
        | Some p ->
          let (d, r') = p in
          (match tokenize_f f r' with
           | Some l -> Some ((op0, d) :: l)
           | None -> None)
        | None -> None))

(** val tokenize : bytes -> (byte * bytes) list option **)

let tokenize s =
  tokenize_f (S (length s)) s

(** val small_int_op : byte -> bool **)

let small_int_op b =
  (||) (N.eqb (n8 b) N0)
    ((&&) (N.leb (Npos (XI (XO (XO (XO (XI (XO XH))))))) (n8 b))
      (N.leb (n8 b) (Npos (XO (XO (XO (XO (XO (XI XH)))))))))

(** val as_small_int : byte -> n **)

let as_small_int b =
  if N.eqb (n8 b) N0
  then N0
  else N.sub (n8 b) (Npos (XO (XO (XO (XO (XI (XO XH)))))))

(** val ms_count :
    (byte * bytes) list -> n -> ((n * byte) * (byte * bytes) list) option **)

let rec ms_count l n0 =
  match l with
  | [] -> None
  | p :: r ->
    let (op0, _) = p in
    if small_int_op op0
    then Some ((n0, op0), r)
    else ms_count r (N.add n0 (Npos XH))

(** val ms_stats : bytes -> (n * n) option **)

let ms_stats s =
  match tokenize s with
  | Some l ->
    (match l with
     | [] -> None
     | p :: rest ->
       let (op0, _) = p in
       if small_int_op op0
       then (match ms_count rest N0 with
             | Some p0 ->
               let (p1, l0) = p0 in
               let (n0, opn) = p1 in
               (match l0 with
                | [] -> None
                | p2 :: l1 ->
                  let (ol, b) = p2 in
                  (match b with
                   | [] ->
                     (match l1 with
                      | [] ->
                        if (&&) (N.eqb (as_small_int opn) n0)
                             (N.eqb (n8 ol) (n8 sOP_CHECKMULTISIG))
                        then Some (n0, (as_small_int op0))
                        else None
                      | _ :: _ -> None)
                   | _ :: _ -> None))
             | None -> None)
       else None)
  | None -> None

(** val ms_keys : (byte * bytes) list -> bytes list **)

let rec ms_keys = function
| [] -> []
| p :: r ->
  let (op0, d) = p in if small_int_op op0 then [] else d :: (ms_keys r)

(** val ms_parse : bytes -> (n * bytes list) option **)

let ms_parse s =
  match ms_stats s with
  | Some p ->
    let (_, m) = p in
    (match tokenize s with
     | Some l ->
       (match l with
        | [] -> None
        | _ :: rest -> Some (m, (ms_keys rest)))
     | None -> None)
  | None -> None

(** val is_witness_program : bytes -> bool **)

let is_witness_program s = match s with
| [] -> false
| v :: l0 ->
  (match l0 with
   | [] -> false
   | l :: prog ->
     (&&)
       ((&&)
         ((&&) (N.leb (Npos (XO (XO XH))) (lenN s))
           (N.leb (lenN s) (Npos (XO (XI (XO (XI (XO XH))))))))
         (small_int_op v)) (N.eqb (n8 l) (lenN prog)))

(** val is_p2sh : bytes -> bool **)

let is_p2sh s = match s with
| [] -> false
| a :: l ->
  (match l with
   | [] -> false
   | b :: r ->
     (&&)
       ((&&)
         ((&&) (N.eqb (lenN s) (Npos (XI (XI (XI (XO XH))))))
           (N.eqb (n8 a) (Npos (XI (XO (XO (XI (XO (XI (XO XH))))))))))
         (N.eqb (n8 b) (Npos (XO (XO (XI (XO XH)))))))
       (match last_byte r with
        | Some e -> N.eqb (n8 e) (Npos (XI (XI (XI (XO (XO (XO (XO XH))))))))
        | None -> false))

(** val is_p2wsh : bytes -> bool **)

let is_p2wsh s = match s with
| [] -> false
| a :: l ->
  (match l with
   | [] -> false
   | b :: _ ->
     (&&)
       ((&&) (N.eqb (lenN s) (Npos (XO (XI (XO (XO (XO XH)))))))
         (N.eqb (n8 a) N0)) (N.eqb (n8 b) (Npos (XO (XO (XO (XO (XO XH))))))))

(** val is_p2wpkh : bytes -> bool **)

let is_p2wpkh s = match s with
| [] -> false
| a :: l ->
  (match l with
   | [] -> false
   | b :: _ ->
     (&&)
       ((&&) (N.eqb (lenN s) (Npos (XO (XI (XI (XO XH)))))) (N.eqb (n8 a) N0))
       (N.eqb (n8 b) (Npos (XO (XO (XI (XO XH)))))))

(** val is_p2pkh : bytes -> bool **)

let is_p2pkh s = match s with
| [] -> false
| a :: l ->
  (match l with
   | [] -> false
   | b :: l0 ->
     (match l0 with
      | [] -> false
      | c :: r ->
        (&&)
          ((&&)
            ((&&)
              ((&&) (N.eqb (lenN s) (Npos (XI (XO (XO (XI XH))))))
                (N.eqb (n8 a) (Npos (XO (XI (XI (XO (XI (XI XH)))))))))
              (N.eqb (n8 b) (Npos (XI (XO (XO (XI (XO (XI (XO XH))))))))))
            (N.eqb (n8 c) (Npos (XO (XO (XI (XO XH)))))))
          (bytes_eqb
            (skipn (S (S (S (S (S (S (S (S (S (S (S (S (S (S (S (S (S (S (S
              (S O)))))))))))))))))))) r) (X88 :: (Xac :: [])))))

(** val is_p2tr : bytes -> bool **)

let is_p2tr s = match s with
| [] -> false
| a :: l ->
  (match l with
   | [] -> false
   | b :: _ ->
     (&&)
       ((&&) (N.eqb (lenN s) (Npos (XO (XI (XO (XO (XO XH)))))))
         (N.eqb (n8 a) (Npos (XI (XO (XO (XO (XI (XO XH)))))))))
       (N.eqb (n8 b) (Npos (XO (XO (XO (XO (XO XH))))))))

(** val p2pkh_script : bytes -> bytes **)

let p2pkh_script h =
  app (sOP_DUP :: (sOP_HASH160 :: (X14 :: [])))
    (app h (sOP_EQUALVERIFY :: (sOP_CHECKSIG :: [])))

(** val built_p2sh : bytes -> builder **)

let built_p2sh redeem =
  sb_op (sb_data (sb_op sb_new sOP_HASH160) (hash160 redeem)) sOP_EQUAL

(** val built_p2wsh : bytes -> builder **)

let built_p2wsh ws =
  sb_data (sb_op sb_new sOP_0) (sha256 ws)

(** val built_p2wpkh : bytes -> builder **)

let built_p2wpkh pk =
  sb_data (sb_op sb_new sOP_0) (hash160 pk)

type pin = { pi_nwu : tx option; pi_wu : txout option;
             pi_sigs : (bytes * bytes) list; pi_sht : n;
             pi_redeem : bytes option; pi_wscript : bytes option;
             pi_fsig : bytes option; pi_fwit : bytes option }

(** val empty_pin : pin **)

let empty_pin =
  { pi_nwu = None; pi_wu = None; pi_sigs = []; pi_sht = N0; pi_redeem = None;
    pi_wscript = None; pi_fsig = None; pi_fwit = None }

(** val set_nwu : tx option -> pin -> pin **)

let set_nwu v i =
  { pi_nwu = v; pi_wu = i.pi_wu; pi_sigs = i.pi_sigs; pi_sht = i.pi_sht;
    pi_redeem = i.pi_redeem; pi_wscript = i.pi_wscript; pi_fsig = i.pi_fsig;
    pi_fwit = i.pi_fwit }

(** val set_wu : txout option -> pin -> pin **)

let set_wu v i =
  { pi_nwu = i.pi_nwu; pi_wu = v; pi_sigs = i.pi_sigs; pi_sht = i.pi_sht;
    pi_redeem = i.pi_redeem; pi_wscript = i.pi_wscript; pi_fsig = i.pi_fsig;
    pi_fwit = i.pi_fwit }

(** val set_sigs : (bytes * bytes) list -> pin -> pin **)

let set_sigs v i =
  { pi_nwu = i.pi_nwu; pi_wu = i.pi_wu; pi_sigs = v; pi_sht = i.pi_sht;
    pi_redeem = i.pi_redeem; pi_wscript = i.pi_wscript; pi_fsig = i.pi_fsig;
    pi_fwit = i.pi_fwit }

(** val set_redeem : bytes option -> pin -> pin **)

let set_redeem v i =
  { pi_nwu = i.pi_nwu; pi_wu = i.pi_wu; pi_sigs = i.pi_sigs; pi_sht =
    i.pi_sht; pi_redeem = v; pi_wscript = i.pi_wscript; pi_fsig = i.pi_fsig;
    pi_fwit = i.pi_fwit }

(** val set_wscript : bytes option -> pin -> pin **)

let set_wscript v i =
  { pi_nwu = i.pi_nwu; pi_wu = i.pi_wu; pi_sigs = i.pi_sigs; pi_sht =
    i.pi_sht; pi_redeem = i.pi_redeem; pi_wscript = v; pi_fsig = i.pi_fsig;
    pi_fwit = i.pi_fwit }

(** val set_fsig : bytes option -> pin -> pin **)

let set_fsig v i =
  { pi_nwu = i.pi_nwu; pi_wu = i.pi_wu; pi_sigs = i.pi_sigs; pi_sht =
    i.pi_sht; pi_redeem = i.pi_redeem; pi_wscript = i.pi_wscript; pi_fsig =
    v; pi_fwit = i.pi_fwit }

(** val set_fwit : bytes option -> pin -> pin **)

let set_fwit v i =
  { pi_nwu = i.pi_nwu; pi_wu = i.pi_wu; pi_sigs = i.pi_sigs; pi_sht =
    i.pi_sht; pi_redeem = i.pi_redeem; pi_wscript = i.pi_wscript; pi_fsig =
    i.pi_fsig; pi_fwit = v }

type pset0 = { p0_tx : tx; p0_ins : pin list }

(** val sane_in0 : pin -> bool **)

let sane_in0 i =
  (&&)
    ((&&) (negb ((&&) (osome i.pi_nwu) (osome i.pi_wu)))
      (negb ((&&) (onone i.pi_wu) (osome i.pi_wscript))))
    (negb ((&&) (onone i.pi_wu) (osome i.pi_fwit)))

(** val validate_unsigned : tx -> bool **)

let validate_unsigned t =
  forallb (fun i ->
    (&&) (negb (nonempty i.in_script)) (negb (nonempty i.in_witness))) t.t_ins

(** val sanity0 : pset0 -> bool **)

let sanity0 p =
  (&&) (validate_unsigned p.p0_tx) (forallb sane_in0 p.p0_ins)

(** val with_in0 : pset0 -> nat -> (pin -> pin) -> pset0 **)

let with_in0 p k f =
  { p0_tx = p.p0_tx; p0_ins = (lupd p.p0_ins k f) }

(** val beq_builder : builder -> bytes -> bool option **)

let beq_builder b s =
  match b with
  | Some x -> Some (bytes_eqb x s)
  | None -> None

(** val admit_checks : pin -> bytes -> bool -> bytes -> n -> unit oc **)

let admit_checks i pk have_txin prev_hash prev_index =
  match i.pi_nwu with
  | Some nw ->
    if negb have_txin
    then OcErr
    else if negb (bytes_eqb (txid nw) prev_hash)
         then OcErr
         else (match i.pi_redeem with
               | Some rs ->
                 (match nthN_err nw.t_outs prev_index with
                  | Some o ->
                    (match beq_builder (built_p2sh rs) o.o_script with
                     | Some b -> if b then OcOk () else OcErr
                     | None -> OcErr)
                  | None -> OcPanic)
               | None -> OcOk ())
  | None ->
    (match i.pi_wu with
     | Some wu ->
       let spk = wu.o_script in
       obind
         (match i.pi_redeem with
          | Some rs ->
            (match beq_builder (built_p2sh rs) spk with
             | Some b -> if b then OcOk rs else OcErr
             | None -> OcErr)
          | None -> OcOk spk) (fun script0 ->
         match i.pi_wscript with
         | Some ws ->
           (match beq_builder (built_p2wsh ws) script0 with
            | Some b -> if b then OcOk () else OcErr
            | None -> OcErr)
         | None ->
           (match beq_builder (built_p2wpkh pk) script0 with
            | Some b -> if b then OcOk () else OcErr
            | None -> OcErr))
     | None -> OcErr)

(** val has_sig_for : pin -> bytes -> bool **)

let has_sig_for i pk =
  existsb (fun x -> bytes_eqb (fst x) pk) i.pi_sigs

(** val add_partial_sig0 :
    pset0 -> nat -> bytes -> bytes -> bool -> pset0 * rstat **)

let add_partial_sig0 p k sig0 pk fmt_ok =
  if negb fmt_ok
  then (p, StErr)
  else (match nth_error p.p0_ins k with
        | Some i ->
          if has_sig_for i pk
          then (p, StErr)
          else let ti = nth_error p.p0_tx.t_ins k in
               (match admit_checks i pk (osome ti)
                        (match ti with
                         | Some x -> x.in_hash
                         | None -> [])
                        (match ti with
                         | Some x -> x.in_index
                         | None -> N0) with
                | OcOk _ ->
                  let p' =
                    with_in0 p k (fun i0 ->
                      set_sigs (app i0.pi_sigs ((pk, sig0) :: [])) i0)
                  in
                  (p', (if sanity0 p' then StOk else StErr))
                | OcErr -> (p, StErr)
                | OcPanic -> (p, StPanic))
        | None -> (p, StPanic))

(** val nw_prevout0 : pset0 -> nat -> pin -> txout oc **)

let nw_prevout0 p k i =
  match nth_error p.p0_tx.t_ins k with
  | Some ti ->
    (match i.pi_nwu with
     | Some t ->
       (match nthN_err t.t_outs ti.in_index with
        | Some o -> OcOk o
        | None -> OcPanic)
     | None -> OcPanic)
  | None -> OcPanic

(** val nw_to_w0 : pset0 -> nat -> pset0 * rstat **)

let nw_to_w0 p k =
  match nth_error p.p0_ins k with
  | Some i ->
    (match nw_prevout0 p k i with
     | OcOk o ->
       let p' = with_in0 p k (fun i0 -> set_wu (Some o) (set_nwu None i0)) in
       (p', (if sanity0 p' then StOk else StErr))
     | OcErr -> (p, StErr)
     | OcPanic -> (p, StPanic))
  | None -> (p, StPanic)

(** val is_final0 : pin -> bool **)

let is_final0 i =
  (||) (osome i.pi_fsig) (osome i.pi_fwit)

(** val sign0 :
    pset0 -> nat -> bytes -> bytes -> bool -> bytes option -> bytes option ->
    pset0 * rstat **)

let sign0 p k sig0 pk fmt_ok rs ws =
  match nth_error p.p0_ins k with
  | Some i0 ->
    if is_final0 i0
    then (p, StOk)
    else let p1 =
           match ws with
           | Some _ -> with_in0 p k (set_wscript ws)
           | None -> p
         in
         if (&&) (osome ws) (negb (sanity0 p1))
         then (p1, StErr)
         else let p2 =
                match rs with
                | Some _ -> with_in0 p1 k (set_redeem rs)
                | None -> p1
              in
              if (&&) (osome rs) (negb (sanity0 p2))
              then (p2, StErr)
              else (match nth_error p2.p0_ins k with
                    | Some i2 ->
                      let convert =
                        if osome i2.pi_wscript
                        then OcOk (onone i2.pi_wu)
                        else if osome i2.pi_redeem
                             then OcOk
                                    ((&&) (is_witness_program (obytes rs))
                                      (onone i2.pi_wu))
                             else if onone i2.pi_wu
                                  then obind (nw_prevout0 p2 k i2) (fun o ->
                                         OcOk (is_witness_program o.o_script))
                                  else OcOk false
                      in
                      (match convert with
                       | OcOk a ->
                         if a
                         then let (p3, r0) = nw_to_w0 p2 k in
                              (match r0 with
                               | StOk -> add_partial_sig0 p3 k sig0 pk fmt_ok
                               | x -> (p3, x))
                         else add_partial_sig0 p2 k sig0 pk fmt_ok
                       | OcErr -> (p2, StErr)
                       | OcPanic -> (p2, StPanic))
                    | None -> (p2, StPanic))
  | None -> (p, StPanic)

(** val is_push_op : byte -> bool **)

let is_push_op op0 =
  (&&) (N.leb (Npos XH) (n8 op0))
    (N.leb (n8 op0) (Npos (XO (XI (XI (XI (XO (XO XH))))))))

(** val tok_size : (byte * bytes) -> n **)

let tok_size t =
  let o = n8 (fst t) in
  let l = lenN (snd t) in
  N.add (Npos XH)
    (if (&&) (N.leb (Npos XH) o)
          (N.leb o (Npos (XI (XI (XO (XI (XO (XO XH))))))))
     then l
     else if N.eqb o (Npos (XO (XO (XI (XI (XO (XO XH)))))))
          then N.add (Npos XH) l
          else if N.eqb o (Npos (XI (XO (XI (XI (XO (XO XH)))))))
               then N.add (Npos (XO XH)) l
               else if N.eqb o (Npos (XO (XI (XI (XI (XO (XO XH)))))))
                    then N.add (Npos (XO (XO XH))) l
                    else N0)

(** val push_index : bytes -> (byte * bytes) list -> n -> n option **)

let rec push_index k toks off =
  match toks with
  | [] -> None
  | p :: r ->
    let (op0, d) = p in
    if (&&) (is_push_op op0) (bytes_eqb d k)
    then Some off
    else push_index k r (N.add off (tok_size (op0, d)))

(** val key_position : bytes -> bytes -> n option **)

let key_position script0 k =
  match tokenize script0 with
  | Some toks -> push_index k toks N0
  | None -> None

(** val insert_pos : (n * 'a1) -> (n * 'a1) list -> (n * 'a1) list **)

let rec insert_pos x l = match l with
| [] -> x :: []
| y :: r -> if N.leb (fst y) (fst x) then y :: (insert_pos x r) else x :: l

(** val sort_pos : (n * 'a1) list -> (n * 'a1) list **)

let rec sort_pos = function
| [] -> []
| x :: r -> insert_pos x (sort_pos r)

(** val positions :
    bytes -> (bytes * bytes) list -> (n * bytes) list option **)

let rec positions script0 = function
| [] -> Some []
| p :: r ->
  let (pk, sg) = p in
  (match key_position script0 pk with
   | Some pos ->
     (match positions script0 r with
      | Some l -> Some ((pos, sg) :: l)
      | None -> None)
   | None -> None)

(** val extract_key_order :
    bytes -> (bytes * bytes) list -> bytes list option **)

let extract_key_order script0 ps =
  match ms_stats script0 with
  | Some p ->
    let (_, m) = p in
    if N.eqb m (lenL ps)
    then (match positions script0 ps with
          | Some l -> Some (map snd (sort_pos l))
          | None -> None)
    else None
  | None -> None

(** val ser_witness : bytes list -> bytes **)

let ser_witness =
  vector

(** val multisig_witness : bytes -> (bytes * bytes) list -> bytes option **)

let multisig_witness ws ps =
  match extract_key_order ws ps with
  | Some os -> Some (ser_witness ([] :: (app os (ws :: []))))
  | None -> None

(** val expected_sht : pin -> n **)

let expected_sht i =
  if N.eqb i.pi_sht N0 then Npos XH else i.pi_sht

(** val check_sigs_sht : n -> (bytes * bytes) list -> unit oc **)

let rec check_sigs_sht e = function
| [] -> OcOk ()
| p :: r ->
  let (_, sg) = p in
  (match last_byte sg with
   | Some b -> if N.eqb e (n8 b) then check_sigs_sht e r else OcErr
   | None -> OcPanic)

(** val has_f : bool -> bytes option -> bool **)

let has_f v2 = function
| Some b -> if v2 then nonempty b else true
| None -> false

(** val of_builder : builder -> bytes oc **)

let of_builder = function
| Some s -> OcOk s
| None -> OcErr

(** val legacy_sigscript : bool -> pin -> bytes oc **)

let legacy_sigscript v2 i =
  obind (check_sigs_sht (expected_sht i) i.pi_sigs) (fun _ ->
    match i.pi_sigs with
    | [] -> OcErr
    | _ :: _ ->
      if negb (has_f v2 i.pi_redeem)
      then (match i.pi_sigs with
            | [] -> OcErr
            | p :: l ->
              let (pk, sg) = p in
              (match l with
               | [] -> of_builder (sb_data (sb_data sb_new sg) pk)
               | _ :: _ -> OcErr))
      else let rs = obytes i.pi_redeem in
           (match extract_key_order rs i.pi_sigs with
            | Some os ->
              of_builder
                (sb_data (fold_left sb_data os (sb_op sb_new sOP_0)) rs)
            | None -> OcErr))

(** val witness_final : bool -> pin -> (bytes * bytes) oc **)

let witness_final v2 i =
  obind (check_sigs_sht (expected_sht i) i.pi_sigs) (fun _ ->
    match i.pi_sigs with
    | [] -> OcErr
    | _ :: _ ->
      let has_rs = has_f v2 i.pi_redeem in
      let has_ws = has_f v2 i.pi_wscript in
      if negb has_rs
      then (match i.pi_sigs with
            | [] ->
              if negb has_ws
              then OcErr
              else (match multisig_witness (obytes i.pi_wscript) i.pi_sigs with
                    | Some w -> OcOk ([], w)
                    | None -> OcErr)
            | p :: l ->
              let (pk, sg) = p in
              (match l with
               | [] ->
                 if has_ws
                 then if negb has_ws
                      then OcErr
                      else (match multisig_witness (obytes i.pi_wscript)
                                    i.pi_sigs with
                            | Some w -> OcOk ([], w)
                            | None -> OcErr)
                 else OcOk ([], (ser_witness (sg :: (pk :: []))))
               | _ :: _ ->
                 if negb has_ws
                 then OcErr
                 else (match multisig_witness (obytes i.pi_wscript) i.pi_sigs with
                       | Some w -> OcOk ([], w)
                       | None -> OcErr)))
      else obind (of_builder (sb_data sb_new (obytes i.pi_redeem)))
             (fun ss ->
             if negb has_ws
             then (match i.pi_sigs with
                   | [] -> OcErr
                   | p :: l ->
                     let (pk, sg) = p in
                     (match l with
                      | [] -> OcOk (ss, (ser_witness (sg :: (pk :: []))))
                      | _ :: _ -> OcErr))
             else (match multisig_witness (obytes i.pi_wscript) i.pi_sigs with
                   | Some w -> OcOk (ss, w)
                   | None -> OcErr)))

(** val new_pin : tx option -> txout option -> pin **)

let new_pin nw wu =
  { pi_nwu = nw; pi_wu = wu; pi_sigs = []; pi_sht = N0; pi_redeem = None;
    pi_wscript = None; pi_fsig = None; pi_fwit = None }

(** val finalize0 : pset0 -> nat -> pset0 * rstat **)

let finalize0 p k =
  match nth_error p.p0_ins k with
  | Some i ->
    let r =
      if osome i.pi_wu
      then if is_final0 i
           then OcErr
           else obind (witness_final false i) (fun sw -> OcOk
                  (set_fwit (Some (snd sw))
                    (if nonempty (fst sw)
                     then set_fsig (Some (fst sw)) (new_pin None i.pi_wu)
                     else new_pin None i.pi_wu)))
      else if osome i.pi_nwu
           then if is_final0 i
                then OcErr
                else obind (legacy_sigscript false i) (fun ss -> OcOk
                       (set_fsig (Some ss) (new_pin i.pi_nwu None)))
           else OcErr
    in
    (match r with
     | OcOk i' ->
       let p' = with_in0 p k (fun _ -> i') in
       (p', (if sanity0 p' then StOk else StErr))
     | OcErr -> (p, StErr)
     | OcPanic -> (p, StPanic))
  | None -> (p, StPanic)

(** val finalizable_witness : bool -> pin -> bytes -> bool -> bool **)

let finalizable_witness v2 i spk tap_ok =
  if is_witness_program spk
  then if is_p2wsh spk
       then (&&) (has_f v2 i.pi_wscript) (negb (has_f v2 i.pi_redeem))
       else if (&&) v2 (is_p2tr spk)
            then tap_ok
            else (&&) (negb (has_f v2 i.pi_wscript))
                   (negb (has_f v2 i.pi_redeem))
  else if is_p2sh spk
       then (&&) (has_f v2 i.pi_redeem)
              (if is_p2wsh (obytes i.pi_redeem)
               then has_f v2 i.pi_wscript
               else if is_p2wpkh (obytes i.pi_redeem)
                    then negb (has_f v2 i.pi_wscript)
                    else false)
       else false

(** val finalizable_legacy : bool -> pin -> txout -> bool **)

let finalizable_legacy v2 i prev =
  if has_f v2 i.pi_wscript
  then false
  else if is_p2sh prev.o_script
       then has_f v2 i.pi_redeem
       else negb (has_f v2 i.pi_redeem)

(** val finalizable0 : pset0 -> nat -> pin -> bool oc **)

let finalizable0 p k i =
  match i.pi_sigs with
  | [] -> OcOk false
  | _ :: _ ->
    (match i.pi_wu with
     | Some wu -> OcOk (finalizable_witness false i wu.o_script false)
     | None ->
       if osome i.pi_nwu
       then if osome i.pi_wscript
            then OcOk false
            else obind (nw_prevout0 p k i) (fun o -> OcOk
                   (finalizable_legacy false i o))
       else OcOk false)

(** val maybe_finalize0 : pset0 -> nat -> pset0 * rstat **)

let maybe_finalize0 p k =
  match nth_error p.p0_ins k with
  | Some i ->
    if is_final0 i
    then (p, StOk)
    else (match finalizable0 p k i with
          | OcOk a -> if a then finalize0 p k else (p, StErr)
          | OcErr -> (p, StErr)
          | OcPanic -> (p, StPanic))
  | None -> (p, StPanic)

(** val for_all_inputs :
    ('a1 -> nat -> 'a1 * rstat) -> 'a1 -> nat list -> 'a1 * rstat **)

let rec for_all_inputs f p = function
| [] -> (p, StOk)
| k :: r ->
  let (p', r0) = f p k in
  (match r0 with
   | StOk -> for_all_inputs f p' r
   | x -> (p', x))

(** val finalize_all0 : pset0 -> pset0 * rstat **)

let finalize_all0 p =
  for_all_inputs finalize0 p (seq O (length p.p0_ins))

(** val maybe_finalize_all0 : pset0 -> pset0 * rstat **)

let maybe_finalize_all0 p =
  for_all_inputs maybe_finalize0 p (seq O (length p.p0_tx.t_ins))

(** val read_witness : bytes -> bytes list option **)

let read_witness fw =
  match p_vector fw with
  | Some p ->
    let (w, _) = p in
    if forallb (fun x -> N.leb (lenN x) maxScriptSize) w then Some w else None
  | None -> None

(** val set_in_final : txin -> pin -> txin option **)

let set_in_final ti i =
  let s = match i.pi_fsig with
          | Some x -> x
          | None -> ti.in_script in
  (match i.pi_fwit with
   | Some fw ->
     (match read_witness fw with
      | Some w ->
        Some { in_hash = ti.in_hash; in_index = ti.in_index; in_seq =
          ti.in_seq; in_script = s; in_witness = w; in_pegin = ti.in_pegin;
          in_pegwit = ti.in_pegwit; in_iss = ti.in_iss; in_irp = ti.in_irp;
          in_inrp = ti.in_inrp }
      | None -> None)
   | None ->
     Some { in_hash = ti.in_hash; in_index = ti.in_index; in_seq = ti.in_seq;
       in_script = s; in_witness = ti.in_witness; in_pegin = ti.in_pegin;
       in_pegwit = ti.in_pegwit; in_iss = ti.in_iss; in_irp = ti.in_irp;
       in_inrp = ti.in_inrp })

(** val extract_ins : txin list -> pin list -> txin list oc **)

let rec extract_ins tis pis =
  match tis with
  | [] -> OcOk []
  | ti :: tr ->
    (match pis with
     | [] -> OcPanic
     | i :: pr ->
       (match set_in_final ti i with
        | Some ti' -> obind (extract_ins tr pr) (fun r -> OcOk (ti' :: r))
        | None -> OcErr))

(** val all_final0 : txin list -> pin list -> bool oc **)

let rec all_final0 tis pis =
  match tis with
  | [] -> OcOk true
  | _ :: tr ->
    (match pis with
     | [] -> OcPanic
     | i :: pr -> if is_final0 i then all_final0 tr pr else OcOk false)

(** val extract0 : pset0 -> tx oc **)

let extract0 p =
  obind (all_final0 p.p0_tx.t_ins p.p0_ins) (fun c ->
    if negb c
    then OcErr
    else let t = copy_tx p.p0_tx in
         obind (extract_ins t.t_ins p.p0_ins) (fun ins -> OcOk { t_version =
           t.t_version; t_flag = t.t_flag; t_locktime = t.t_locktime; t_ins =
           ins; t_outs = t.t_outs }))

(** val bytes_leb : bytes -> bytes -> bool **)

let rec bytes_leb a b =
  match a with
  | [] -> true
  | x :: a' ->
    (match b with
     | [] -> false
     | y :: b' ->
       if N.ltb (n8 x) (n8 y)
       then true
       else if N.ltb (n8 y) (n8 x) then false else bytes_leb a' b')

(** val insert_pk :
    (bytes * bytes) -> (bytes * bytes) list -> (bytes * bytes) list **)

let rec insert_pk x l = match l with
| [] -> x :: []
| y :: r -> if bytes_leb (fst y) (fst x) then y :: (insert_pk x r) else x :: l

(** val sort_pk : (bytes * bytes) list -> (bytes * bytes) list **)

let rec sort_pk = function
| [] -> []
| x :: r -> insert_pk x (sort_pk r)

(** val hop_in0 : pin -> pin **)

let hop_in0 i =
  if is_final0 i
  then { pi_nwu = i.pi_nwu; pi_wu = i.pi_wu; pi_sigs = []; pi_sht = N0;
         pi_redeem = None; pi_wscript = None; pi_fsig = i.pi_fsig; pi_fwit =
         i.pi_fwit }
  else set_sigs (sort_pk i.pi_sigs) i

(** val hop0 : pset0 -> pset0 **)

let hop0 p =
  { p0_tx = p.p0_tx; p0_ins = (map hop_in0 p.p0_ins) }

type tsig = { ts_pk : bytes; ts_sig : bytes; ts_leaf : bytes }

type tleaf = { tl_script : bytes; tl_version : n; tl_cb : bytes }

type pin2 = { q_base : pin; q_txid : bytes; q_index : n; q_seq : n;
              q_tlock : n; q_hlock : n; q_iss_value : n;
              q_iss_vcommit : bytes option; q_iss_vrp : bytes option;
              q_iss_krp : bytes option; q_iss_keys : n;
              q_iss_kcommit : bytes option; q_iss_nonce : bytes option;
              q_iss_entropy : bytes option; q_iss_vproof : bytes;
              q_iss_kproof : bytes; q_pegwit : bytes list option;
              q_tapkeysig : bytes; q_tapsigs : tsig list;
              q_tapleafs : tleaf list; q_tapinternal : bytes;
              q_tapmerkle : bytes }

(** val set_base : pin -> pin2 -> pin2 **)

let set_base b i =
  { q_base = b; q_txid = i.q_txid; q_index = i.q_index; q_seq = i.q_seq;
    q_tlock = i.q_tlock; q_hlock = i.q_hlock; q_iss_value = i.q_iss_value;
    q_iss_vcommit = i.q_iss_vcommit; q_iss_vrp = i.q_iss_vrp; q_iss_krp =
    i.q_iss_krp; q_iss_keys = i.q_iss_keys; q_iss_kcommit = i.q_iss_kcommit;
    q_iss_nonce = i.q_iss_nonce; q_iss_entropy = i.q_iss_entropy;
    q_iss_vproof = i.q_iss_vproof; q_iss_kproof = i.q_iss_kproof; q_pegwit =
    i.q_pegwit; q_tapkeysig = i.q_tapkeysig; q_tapsigs = i.q_tapsigs;
    q_tapleafs = i.q_tapleafs; q_tapinternal = i.q_tapinternal; q_tapmerkle =
    i.q_tapmerkle }

(** val on_base : (pin -> pin) -> pin2 -> pin2 **)

let on_base f i =
  set_base (f i.q_base) i

(** val set_tapkeysig : bytes -> pin2 -> pin2 **)

let set_tapkeysig v i =
  { q_base = i.q_base; q_txid = i.q_txid; q_index = i.q_index; q_seq =
    i.q_seq; q_tlock = i.q_tlock; q_hlock = i.q_hlock; q_iss_value =
    i.q_iss_value; q_iss_vcommit = i.q_iss_vcommit; q_iss_vrp = i.q_iss_vrp;
    q_iss_krp = i.q_iss_krp; q_iss_keys = i.q_iss_keys; q_iss_kcommit =
    i.q_iss_kcommit; q_iss_nonce = i.q_iss_nonce; q_iss_entropy =
    i.q_iss_entropy; q_iss_vproof = i.q_iss_vproof; q_iss_kproof =
    i.q_iss_kproof; q_pegwit = i.q_pegwit; q_tapkeysig = v; q_tapsigs =
    i.q_tapsigs; q_tapleafs = i.q_tapleafs; q_tapinternal = i.q_tapinternal;
    q_tapmerkle = i.q_tapmerkle }

(** val set_tapsigs : tsig list -> pin2 -> pin2 **)

let set_tapsigs v i =
  { q_base = i.q_base; q_txid = i.q_txid; q_index = i.q_index; q_seq =
    i.q_seq; q_tlock = i.q_tlock; q_hlock = i.q_hlock; q_iss_value =
    i.q_iss_value; q_iss_vcommit = i.q_iss_vcommit; q_iss_vrp = i.q_iss_vrp;
    q_iss_krp = i.q_iss_krp; q_iss_keys = i.q_iss_keys; q_iss_kcommit =
    i.q_iss_kcommit; q_iss_nonce = i.q_iss_nonce; q_iss_entropy =
    i.q_iss_entropy; q_iss_vproof = i.q_iss_vproof; q_iss_kproof =
    i.q_iss_kproof; q_pegwit = i.q_pegwit; q_tapkeysig = i.q_tapkeysig;
    q_tapsigs = v; q_tapleafs = i.q_tapleafs; q_tapinternal =
    i.q_tapinternal; q_tapmerkle = i.q_tapmerkle }

type pout2 = { po_value : n; po_vcommit : bytes option;
               po_asset : bytes option; po_acommit : bytes option;
               po_script : bytes; po_ecdh : bytes option;
               po_rp : bytes option; po_sp : bytes option;
               po_blindpk : bytes; po_blinder : n; po_vproof : bytes;
               po_aproof : bytes }

type pset2 = { g_txversion : n; g_fallback : n option; g_nscalars : n;
               q_ins : pin2 list; q_outs : pout2 list }

(** val with_in2 : pset2 -> nat -> (pin2 -> pin2) -> pset2 **)

let with_in2 p k f =
  { g_txversion = p.g_txversion; g_fallback = p.g_fallback; g_nscalars =
    p.g_nscalars; q_ins = (lupd p.q_ins k f); q_outs = p.q_outs }

(** val olen : bytes option -> bool **)

let olen x =
  nonempty (obytes x)

(** val out_needs_blinding0 : pout2 -> bool **)

let out_needs_blinding0 o =
  nonempty o.po_blindpk

(** val out_partially_blinded0 : pout2 -> bool **)

let out_partially_blinded0 o =
  (||)
    ((||)
      ((||) ((||) (olen o.po_vcommit) (olen o.po_acommit)) (olen o.po_rp))
      (olen o.po_sp)) (olen o.po_ecdh)

(** val out_fully_blinded0 : pout2 -> bool **)

let out_fully_blinded0 o =
  (&&)
    ((&&)
      ((&&) ((&&) (olen o.po_vcommit) (olen o.po_acommit)) (olen o.po_rp))
      (olen o.po_sp)) (olen o.po_ecdh)

(** val sane_out2 : pout2 -> bool **)

let sane_out2 o =
  (&&)
    ((&&)
      ((&&)
        ((&&)
          (negb
            ((&&) (N.ltb N0 o.po_value)
              (negb (eqb (olen o.po_vcommit) (nonempty o.po_vproof)))))
          (negb ((&&) (negb (olen o.po_acommit)) (negb (olen o.po_asset)))))
        (negb
          ((&&) (olen o.po_asset)
            (negb (eqb (olen o.po_acommit) (nonempty o.po_aproof))))))
      (negb ((&&) (out_partially_blinded0 o) (negb (out_fully_blinded0 o)))))
    (negb ((&&) (out_fully_blinded0 o) (negb (N.eqb o.po_blinder N0))))

(** val sane_tapsig : tsig -> bool **)

let sane_tapsig t =
  (&&) (N.eqb (lenN t.ts_pk) (Npos (XO (XO (XO (XO (XO XH)))))))
    ((||) (N.eqb (lenN t.ts_sig) (Npos (XO (XO (XO (XO (XO (XO XH))))))))
      (N.eqb (lenN t.ts_sig) (Npos (XI (XO (XO (XO (XO (XO XH)))))))))

(** val sane_in2 : pin2 -> bool **)

let sane_in2 i =
  let b = i.q_base in
  (&&)
    ((&&)
      ((&&)
        ((&&)
          ((&&)
            ((&&)
              ((&&)
                ((&&)
                  ((&&) (negb ((&&) (onone b.pi_wu) (olen b.pi_wscript)))
                    (negb ((&&) (onone b.pi_wu) (olen b.pi_fwit))))
                  (nonempty i.q_txid))
                (negb
                  ((&&) (N.ltb N0 i.q_iss_value)
                    (negb
                      (eqb (olen i.q_iss_vcommit) (nonempty i.q_iss_vproof))))))
              (negb
                ((&&) (N.ltb N0 i.q_iss_keys)
                  (negb
                    (eqb (olen i.q_iss_kcommit) (nonempty i.q_iss_kproof))))))
            (negb
              ((&&) (nonempty i.q_tapinternal)
                (negb
                  (N.eqb (lenN i.q_tapinternal) (Npos (XO (XO (XO (XO (XO
                    XH)))))))))))
          (negb
            ((&&) (nonempty i.q_tapmerkle)
              (negb
                (N.eqb (lenN i.q_tapmerkle) (Npos (XO (XO (XO (XO (XO
                  XH)))))))))))
        (negb
          ((&&)
            ((&&) (nonempty i.q_tapkeysig)
              (negb
                (N.eqb (lenN i.q_tapkeysig) (Npos (XO (XO (XO (XO (XO (XO
                  XH))))))))))
            (negb
              (N.eqb (lenN i.q_tapkeysig) (Npos (XI (XO (XO (XO (XO (XO
                XH))))))))))))
      (forallb (fun l -> nonempty l.tl_script) i.q_tapleafs))
    (forallb sane_tapsig i.q_tapsigs)

(** val needs_blinding2 : pset2 -> bool **)

let needs_blinding2 p =
  existsb (fun o ->
    (&&) (out_needs_blinding0 o) (negb (out_fully_blinded0 o))) p.q_outs

(** val sanity2 : pset2 -> bool **)

let sanity2 p =
  (&&) ((&&) (forallb sane_in2 p.q_ins) (forallb sane_out2 p.q_outs))
    (negb
      ((&&)
        ((&&) (existsb out_fully_blinded0 p.q_outs) (N.eqb p.g_nscalars N0))
        (needs_blinding2 p)))

(** val is_final2 : pin2 -> bool **)

let is_final2 i =
  (||) (olen i.q_base.pi_fsig) (olen i.q_base.pi_fwit)

(** val is_taproot : pin2 -> bool **)

let is_taproot i =
  (||)
    ((||)
      ((||) ((||) (nonempty i.q_tapkeysig) (nonempty i.q_tapinternal))
        (nonempty i.q_tapmerkle)) (nonempty i.q_tapleafs))
    (nonempty i.q_tapsigs)

(** val add_partial_sig2 :
    pset2 -> nat -> bytes -> bytes -> bool -> pset2 * rstat **)

let add_partial_sig2 p k sig0 pk fmt_ok =
  match nth_error p.q_ins k with
  | Some i ->
    if negb fmt_ok
    then (p, StErr)
    else if has_sig_for i.q_base pk
         then (p, StErr)
         else (match admit_checks i.q_base pk true i.q_txid i.q_index with
               | OcOk _ ->
                 let p' =
                   with_in2 p k
                     (on_base (fun b ->
                       set_sigs (app b.pi_sigs ((pk, sig0) :: [])) b))
                 in
                 (p', (if sanity2 p' then StOk else StErr))
               | OcErr -> (p, StErr)
               | OcPanic -> (p, StPanic))
  | None -> (p, StErr)

(** val nw_prevout2 : pin2 -> txout oc **)

let nw_prevout2 i =
  match i.q_base.pi_nwu with
  | Some t ->
    (match nthN_err t.t_outs i.q_index with
     | Some o -> OcOk o
     | None -> OcPanic)
  | None -> OcPanic

(** val nw_to_w2 : pset2 -> nat -> pset2 * rstat **)

let nw_to_w2 p k =
  match nth_error p.q_ins k with
  | Some i ->
    (match nw_prevout2 i with
     | OcOk o ->
       let p' =
         with_in2 p k (on_base (fun b -> set_wu (Some o) (set_nwu None b)))
       in
       (p', (if sanity2 p' then StOk else StErr))
     | OcErr -> (p, StErr)
     | OcPanic -> (p, StPanic))
  | None -> (p, StErr)

(** val sign2_staged :
    pset2 -> nat -> bytes -> bytes -> bool -> bytes option -> bytes option ->
    pset2 * rstat **)

let sign2_staged p k sig0 pk fmt_ok rs ws =
  match nth_error p.q_ins k with
  | Some i0 ->
    if is_final2 i0
    then (p, StOk)
    else if (&&)
              (N.eqb
                (N.coq_land i0.q_base.pi_sht (Npos (XI (XI (XI (XI XH))))))
                (Npos XH)) (needs_blinding2 p)
         then (p, StErr)
         else let p1 =
                match ws with
                | Some _ -> with_in2 p k (on_base (set_wscript ws))
                | None -> p
              in
              if (&&) (osome ws) (negb (sanity2 p1))
              then (p1, StErr)
              else let p2 =
                     match rs with
                     | Some _ -> with_in2 p1 k (on_base (set_redeem rs))
                     | None -> p1
                   in
                   if (&&) (osome rs) (negb (sanity2 p2))
                   then (p2, StErr)
                   else (match nth_error p2.q_ins k with
                         | Some i2 ->
                           let b = i2.q_base in
                           let convert =
                             if osome b.pi_wscript
                             then OcOk (onone b.pi_wu)
                             else if osome b.pi_redeem
                                  then OcOk
                                         ((&&)
                                           (is_witness_program (obytes rs))
                                           (onone b.pi_wu))
                                  else if onone b.pi_wu
                                       then obind (nw_prevout2 i2) (fun o ->
                                              OcOk
                                              (is_witness_program o.o_script))
                                       else OcOk false
                           in
                           (match convert with
                            | OcOk a ->
                              if a
                              then let (p3, r0) = nw_to_w2 p2 k in
                                   (match r0 with
                                    | StOk ->
                                      add_partial_sig2 p3 k sig0 pk fmt_ok
                                    | x -> (p3, x))
                              else add_partial_sig2 p2 k sig0 pk fmt_ok
                            | OcErr -> (p2, StErr)
                            | OcPanic -> (p2, StPanic))
                         | None -> (p2, StErr))
  | None -> (p, StErr)

(** val atomic2 : pset2 -> (pset2 * rstat) -> pset2 * rstat **)

let atomic2 p = function
| (p', s) -> (match s with
              | StOk -> (p', StOk)
              | _ -> (p, s))

(** val sign2 :
    pset2 -> nat -> bytes -> bytes -> bool -> bytes option -> bytes option ->
    pset2 * rstat **)

let sign2 p k sig0 pk fmt_ok rs ws =
  atomic2 p (sign2_staged p k sig0 pk fmt_ok rs ws)

(** val sign_tap_key2 : pset2 -> nat -> bytes -> pset2 * rstat **)

let sign_tap_key2 p k sig0 =
  match nth_error p.q_ins k with
  | Some i ->
    if is_final2 i
    then (p, StOk)
    else if nonempty i.q_tapsigs
         then (p, StErr)
         else let p' = with_in2 p k (set_tapkeysig sig0) in
              if sanity2 p' then (p', StOk) else (p, StErr)
  | None -> (p, StErr)

(** val sign_tap_script2 : pset2 -> nat -> tsig -> pset2 * rstat **)

let sign_tap_script2 p k s =
  match nth_error p.q_ins k with
  | Some i ->
    if is_final2 i
    then (p, StOk)
    else if nonempty i.q_tapkeysig
         then (p, StErr)
         else if negb
                   ((&&)
                     (N.eqb (lenN s.ts_pk) (Npos (XO (XO (XO (XO (XO XH)))))))
                     (N.eqb (lenN s.ts_leaf) (Npos (XO (XO (XO (XO (XO
                       XH))))))))
              then (p, StErr)
              else if negb
                        ((||)
                          (N.eqb (lenN s.ts_sig) (Npos (XO (XO (XO (XO (XO
                            (XO XH))))))))
                          (N.eqb (lenN s.ts_sig) (Npos (XI (XO (XO (XO (XO
                            (XO XH)))))))))
                   then (p, StErr)
                   else if existsb (fun x ->
                             (&&) (bytes_eqb x.ts_pk s.ts_pk)
                               (bytes_eqb x.ts_leaf s.ts_leaf)) i.q_tapsigs
                        then (p, StErr)
                        else let p' =
                               with_in2 p k (fun i0 ->
                                 set_tapsigs (app i0.q_tapsigs (s :: [])) i0)
                             in
                             if sanity2 p' then (p', StOk) else (p, StErr)
  | None -> (p, StErr)

(** val tag_tapleaf_elements : bytes **)

let tag_tapleaf_elements =
  map b8 ((Npos (XO (XO (XI (XO (XI (XO XH))))))) :: ((Npos (XI (XO (XO (XO
    (XO (XI XH))))))) :: ((Npos (XO (XO (XO (XO (XI (XI XH))))))) :: ((Npos
    (XO (XO (XI (XI (XO (XO XH))))))) :: ((Npos (XI (XO (XI (XO (XO (XI
    XH))))))) :: ((Npos (XI (XO (XO (XO (XO (XI XH))))))) :: ((Npos (XO (XI
    (XI (XO (XO (XI XH))))))) :: ((Npos (XI (XI (XI (XI (XO
    XH)))))) :: ((Npos (XI (XO (XI (XO (XO (XI XH))))))) :: ((Npos (XO (XO
    (XI (XI (XO (XI XH))))))) :: ((Npos (XI (XO (XI (XO (XO (XI
    XH))))))) :: ((Npos (XI (XO (XI (XI (XO (XI XH))))))) :: ((Npos (XI (XO
    (XI (XO (XO (XI XH))))))) :: ((Npos (XO (XI (XI (XI (XO (XI
    XH))))))) :: ((Npos (XO (XO (XI (XO (XI (XI XH))))))) :: ((Npos (XI (XI
    (XO (XO (XI (XI XH))))))) :: []))))))))))))))))

(** val tapleaf_hash : tleaf -> bytes **)

let tapleaf_hash l =
  tagged_hash tag_tapleaf_elements
    ((b8 l.tl_version) :: (var_slice l.tl_script))

(** val tap_norm : n -> n **)

let tap_norm t =
  if N.eqb t N0 then Npos XH else t

(** val tap_sig_ok : n -> bytes -> bool **)

let tap_sig_ok sht sg =
  let sig_type =
    if N.eqb (lenN sg) (Npos (XI (XO (XO (XO (XO (XO XH)))))))
    then (match last_byte sg with
          | Some b -> n8 b
          | None -> N0)
    else N0
  in
  N.eqb (tap_norm sig_type) (tap_norm sht)

(** val taproot_final : pin2 -> bytes oc **)

let taproot_final i =
  let sht = i.q_base.pi_sht in
  if is_final2 i
  then OcErr
  else if nonempty i.q_tapkeysig
       then if tap_sig_ok sht i.q_tapkeysig
            then OcOk (vector (i.q_tapkeysig :: []))
            else OcErr
       else if nonempty i.q_tapsigs
            then (match i.q_tapleafs with
                  | [] -> OcErr
                  | l :: _ ->
                    let h = tapleaf_hash l in
                    let ms =
                      filter (fun s -> bytes_eqb s.ts_leaf h) i.q_tapsigs
                    in
                    if negb (forallb (fun s -> tap_sig_ok sht s.ts_sig) ms)
                    then OcErr
                    else (match ms with
                          | [] -> OcErr
                          | _ :: _ ->
                            OcOk
                              (vector
                                (app (map (fun t -> t.ts_sig) ms)
                                  (l.tl_script :: (l.tl_cb :: []))))))
            else OcErr

(** val finalize2 : pset2 -> nat -> pset2 * rstat **)

let finalize2 p k =
  match nth_error p.q_ins k with
  | Some i ->
    let b = i.q_base in
    if (&&) (osome b.pi_wu) (is_taproot i)
    then (match taproot_final i with
          | OcOk w -> ((with_in2 p k (on_base (set_fwit (Some w)))), StOk)
          | OcErr -> (p, StErr)
          | OcPanic -> (p, StPanic))
    else let r =
           if osome b.pi_wu
           then if is_final2 i
                then OcErr
                else obind (witness_final true b) (fun sw ->
                       let b1 =
                         if nonempty (fst sw)
                         then set_fsig (Some (fst sw)) b
                         else b
                       in
                       OcOk
                       (if nonempty (snd sw)
                        then set_fwit (Some (snd sw)) b1
                        else b1))
           else if osome b.pi_nwu
                then if is_final2 i
                     then OcErr
                     else obind (legacy_sigscript true b) (fun ss -> OcOk
                            (if nonempty ss then set_fsig (Some ss) b else b))
                else OcErr
         in
         (match r with
          | OcOk b' ->
            let p' = with_in2 p k (set_base (set_sigs [] b')) in
            (p', (if sanity2 p' then StOk else StErr))
          | OcErr -> (p, StErr)
          | OcPanic -> (p, StPanic))
  | None -> (p, StPanic)

(** val finalize_all2 : pset2 -> pset2 * rstat **)

let finalize_all2 p =
  atomic2 p (for_all_inputs finalize2 p (seq O (length p.q_ins)))

(** val tap_finalizable : pin2 -> bool **)

let tap_finalizable i =
  (||) (nonempty i.q_tapkeysig)
    (forallb (fun s ->
      existsb (fun l -> bytes_eqb s.ts_leaf (tapleaf_hash l)) i.q_tapleafs)
      i.q_tapsigs)

(** val finalizable2 : pin2 -> bool oc **)

let finalizable2 i =
  let b = i.q_base in
  (match b.pi_sigs with
   | [] -> OcOk false
   | _ :: _ ->
     (match b.pi_wu with
      | Some wu ->
        OcOk (finalizable_witness true b wu.o_script (tap_finalizable i))
      | None ->
        if osome b.pi_nwu
        then if has_f true b.pi_wscript
             then OcOk false
             else obind (nw_prevout2 i) (fun o -> OcOk
                    (finalizable_legacy true b o))
        else OcOk false))

(** val maybe_finalize2 : pset2 -> nat -> pset2 * rstat **)

let maybe_finalize2 p k =
  match nth_error p.q_ins k with
  | Some i ->
    if is_final2 i
    then (p, StOk)
    else (match finalizable2 i with
          | OcOk a -> if a then finalize2 p k else (p, StErr)
          | OcErr -> (p, StErr)
          | OcPanic -> (p, StPanic))
  | None -> (p, StPanic)

(** val maybe_finalize_all2 : pset2 -> pset2 * rstat **)

let maybe_finalize_all2 p =
  for_all_inputs maybe_finalize2 p (seq O (length p.q_ins))

(** val locktime2 : pset2 -> n **)

let locktime2 p =
  let h = fold_left (fun acc i -> N.max acc i.q_hlock) p.q_ins N0 in
  let t = fold_left (fun acc i -> N.max acc i.q_tlock) p.q_ins N0 in
  let time_only =
    existsb (fun i -> (&&) (N.ltb N0 i.q_tlock) (N.eqb i.q_hlock N0)) p.q_ins
  in
  if (&&) (N.ltb N0 h) (negb time_only)
  then h
  else if N.ltb N0 t
       then t
       else (match p.g_fallback with
             | Some l -> l
             | None -> N0)

(** val new_pin2 : bytes -> n -> n -> n -> n -> pin2 **)

let new_pin2 txid0 index0 seq0 hlock tlock =
  { q_base = empty_pin; q_txid = txid0; q_index = index0; q_seq =
    (if N.eqb seq0 N0 then u32max else seq0); q_tlock = tlock; q_hlock =
    hlock; q_iss_value = N0; q_iss_vcommit = None; q_iss_vrp = None;
    q_iss_krp = None; q_iss_keys = N0; q_iss_kcommit = None; q_iss_nonce =
    None; q_iss_entropy = None; q_iss_vproof = []; q_iss_kproof = [];
    q_pegwit = None; q_tapkeysig = []; q_tapsigs = []; q_tapleafs = [];
    q_tapinternal = []; q_tapmerkle = [] }

(** val lock_walk : pin2 list -> n -> n -> bool -> ((n * n) * bool) option **)

let rec lock_walk l t h has =
  match l with
  | [] -> Some ((t, h), has)
  | x :: r ->
    let xt = x.q_tlock in
    let xh = x.q_hlock in
    let time_only = (&&) (negb (N.eqb xt N0)) (N.eqb xh N0) in
    let height_only = (&&) (N.eqb xt N0) (negb (N.eqb xh N0)) in
    let h1 = if time_only then N0 else h in
    if (&&) time_only (N.eqb t N0)
    then None
    else let t1 = if height_only then N0 else t in
         if (&&) height_only (N.eqb h1 N0)
         then None
         else let t2 =
                if (&&) (negb (N.eqb xt N0)) (negb (N.eqb t1 N0))
                then N.max t1 xt
                else t1
              in
              let h2 =
                if (&&) (negb (N.eqb xh N0)) (negb (N.eqb h1 N0))
                then N.max h1 xh
                else h1
              in
              lock_walk r t2 h2 ((||) has (nonempty x.q_base.pi_sigs))

(** val add_input_lock_ok : pset2 -> pin2 -> bool **)

let add_input_lock_ok p i =
  if (&&) (N.eqb i.q_hlock N0) (N.eqb i.q_tlock N0)
  then true
  else (match lock_walk p.q_ins i.q_tlock i.q_hlock false with
        | Some p0 ->
          let (p1, has) = p0 in
          let (t, h) = p1 in
          let l0 = match p.g_fallback with
                   | Some l -> l
                   | None -> N0 in
          let l1 = if negb (N.eqb t N0) then t else l0 in
          let l2 = if negb (N.eqb h N0) then h else l1 in
          negb ((&&) has (negb (N.eqb (locktime2 p) l2)))
        | None -> false)

(** val add_input2 : pset2 -> pin2 -> pset2 * rstat **)

let add_input2 p i =
  if negb (nonempty i.q_txid)
  then (p, StErr)
  else if existsb (fun x ->
            (&&) (bytes_eqb x.q_txid i.q_txid) (N.eqb x.q_index i.q_index))
            p.q_ins
       then (p, StErr)
       else if negb (add_input_lock_ok p i)
            then (p, StErr)
            else let p' = { g_txversion = p.g_txversion; g_fallback =
                   p.g_fallback; g_nscalars = p.g_nscalars; q_ins =
                   (app p.q_ins (i :: [])); q_outs = p.q_outs }
                 in
                 if sanity2 p' then (p', StOk) else (p, StErr)

(** val add_witness_utxo2 : pset2 -> nat -> txout -> pset2 * rstat **)

let add_witness_utxo2 p k o =
  match nth_error p.q_ins k with
  | Some _ ->
    let p' = with_in2 p k (on_base (set_wu (Some o))) in
    if sanity2 p' then (p', StOk) else (p, StErr)
  | None -> (p, StErr)

(** val value_to_bytes : n -> bytes **)

let value_to_bytes v =
  X01 :: (be_enc (S (S (S (S (S (S (S (S O)))))))) v)

(** val out_to_txout : pout2 -> txout **)

let out_to_txout o =
  { o_asset =
    (match o.po_acommit with
     | Some a -> a
     | None -> X01 :: (obytes o.po_asset)); o_value =
    (match o.po_vcommit with
     | Some v -> v
     | None -> value_to_bytes o.po_value); o_script = o.po_script; o_nonce =
    (match o.po_ecdh with
     | Some n0 -> n0
     | None -> X00 :: []); o_rp = (obytes o.po_rp); o_sp = (obytes o.po_sp) }

(** val iss_amount0 : pin2 -> bytes **)

let iss_amount0 i =
  match i.q_iss_vcommit with
  | Some v -> v
  | None ->
    if N.ltb N0 i.q_iss_value then value_to_bytes i.q_iss_value else X00 :: []

(** val iss_token0 : pin2 -> bytes **)

let iss_token0 i =
  match i.q_iss_kcommit with
  | Some v -> v
  | None ->
    if N.ltb N0 i.q_iss_keys then value_to_bytes i.q_iss_keys else X00 :: []

(** val iss_of : pin2 -> issuance **)

let iss_of i =
  { iss_nonce = (obytes i.q_iss_nonce); iss_entropy =
    (obytes i.q_iss_entropy); iss_amount = (iss_amount0 i); iss_token =
    (iss_token0 i) }

(** val unsigned_in2 : pin2 -> txin **)

let unsigned_in2 i =
  { in_hash = i.q_txid; in_index =
    (if N.eqb i.q_index minusOne
     then i.q_index
     else N.coq_land i.q_index outpointIndexMask); in_seq =
    (if N.eqb i.q_seq N0 then u32max else i.q_seq); in_script = [];
    in_witness = []; in_pegin = (osome i.q_pegwit); in_pegwit = []; in_iss =
    (if osome i.q_iss_entropy then Some (iss_of i) else None); in_irp = [];
    in_inrp = [] }

(** val unsigned_tx2 : pset2 -> tx **)

let unsigned_tx2 p =
  { t_version = p.g_txversion; t_flag = N0; t_locktime = (locktime2 p);
    t_ins = (map unsigned_in2 p.q_ins); t_outs = (map out_to_txout p.q_outs) }

(** val extract_in2 : pin2 -> txin option **)

let extract_in2 i =
  let b = i.q_base in
  let iss = if osome i.q_iss_entropy then Some (iss_of i) else None in
  let wit = match b.pi_fwit with
            | Some fw -> read_witness fw
            | None -> Some []
  in
  (match wit with
   | Some w ->
     Some { in_hash = i.q_txid; in_index = i.q_index; in_seq =
       (if N.eqb i.q_seq N0 then u32max else i.q_seq); in_script =
       (obytes b.pi_fsig); in_witness = w; in_pegin = (osome i.q_pegwit);
       in_pegwit = (match i.q_pegwit with
                    | Some l -> l
                    | None -> []); in_iss = iss; in_irp =
       (obytes i.q_iss_vrp); in_inrp = (obytes i.q_iss_krp) }
   | None -> None)

(** val extract_ins2 : pin2 list -> txin list option **)

let rec extract_ins2 = function
| [] -> Some []
| i :: r ->
  (match extract_in2 i with
   | Some x ->
     (match extract_ins2 r with
      | Some xs -> Some (x :: xs)
      | None -> None)
   | None -> None)

(** val extract2 : pset2 -> tx oc **)

let extract2 p =
  if negb (sanity2 p)
  then OcErr
  else if negb (forallb is_final2 p.q_ins)
       then OcErr
       else (match extract_ins2 p.q_ins with
             | Some ins ->
               OcOk { t_version = p.g_txversion; t_flag = N0; t_locktime =
                 (locktime2 p); t_ins = ins; t_outs =
                 (map out_to_txout p.q_outs) }
             | None -> OcErr)

(** val hop0_st : pset0 -> pset0 * rstat **)

let hop0_st p =
  if sanity0 p then ((hop0 p), StOk) else (p, StErr)

(** val norm_opt : bytes option -> bytes option **)

let norm_opt x = match x with
| Some b -> (match b with
             | [] -> None
             | _ :: _ -> x)
| None -> x

(** val hop_in2 : pin2 -> pin2 **)

let hop_in2 i =
  on_base (fun b -> { pi_nwu = b.pi_nwu; pi_wu =
    (match b.pi_wu with
     | Some o ->
       Some { o_asset = o.o_asset; o_value = o.o_value; o_script =
         o.o_script; o_nonce = o.o_nonce; o_rp = []; o_sp = [] }
     | None -> None); pi_sigs = b.pi_sigs; pi_sht = b.pi_sht; pi_redeem =
    (norm_opt b.pi_redeem); pi_wscript = (norm_opt b.pi_wscript); pi_fsig =
    (norm_opt b.pi_fsig); pi_fwit = (norm_opt b.pi_fwit) }) i

(** val hop2_st : pset2 -> pset2 * rstat **)

let hop2_st p =
  if sanity2 p
  then ({ g_txversion = p.g_txversion; g_fallback = p.g_fallback;
         g_nscalars = p.g_nscalars; q_ins = (map hop_in2 p.q_ins); q_outs =
         p.q_outs }, StOk)
  else (p, StErr)

(** val strip_in : txin -> txin **)

let strip_in i =
  { in_hash = i.in_hash; in_index = i.in_index; in_seq = i.in_seq;
    in_script = []; in_witness = []; in_pegin = i.in_pegin; in_pegwit = [];
    in_iss = i.in_iss; in_irp = []; in_inrp = [] }

(** val strip_tx : tx -> tx **)

let strip_tx t =
  { t_version = t.t_version; t_flag = t.t_flag; t_locktime = t.t_locktime;
    t_ins = (map strip_in t.t_ins); t_outs = t.t_outs }

type salgo =
| ALegacy
| AWitV0
| ATapKey
| ATapLeaf

(** val pushes_of : (byte * bytes) list -> bytes list option **)

let rec pushes_of = function
| [] -> Some []
| p :: r ->
  let (op0, d) = p in
  let o = n8 op0 in
  let item =
    if N.eqb o N0
    then Some []
    else if N.leb o (Npos (XO (XI (XI (XI (XO (XO XH)))))))
         then Some d
         else if N.eqb o (Npos (XI (XI (XI (XI (XO (XO XH)))))))
              then Some (X81 :: [])
              else if N.leb o (Npos (XO (XO (XO (XO (XO (XI XH)))))))
                   then Some
                          ((b8
                             (N.sub o (Npos (XO (XO (XO (XO (XI (XO XH))))))))) :: [])
                   else None
  in
  (match item with
   | Some x ->
     (match pushes_of r with
      | Some xs -> Some (x :: xs)
      | None -> None)
   | None -> None)

(** val parse_pushes : bytes -> bytes list option **)

let parse_pushes s =
  match tokenize s with
  | Some l -> pushes_of l
  | None -> None

(** val cms_loop :
    (bytes -> bytes -> bool) -> bytes list -> bytes list -> bool **)

let rec cms_loop chk keys sigs = match sigs with
| [] -> true
| s :: sr ->
  (match keys with
   | [] -> false
   | k :: kr -> if chk k s then cms_loop chk kr sr else cms_loop chk kr sigs)

(** val checkmultisig :
    (bytes -> bytes -> bool) -> n -> bytes list -> bytes list -> bool **)

let checkmultisig chk m keys = function
| [] -> false
| dummy :: sigs ->
  (&&)
    ((&&) ((&&) (negb (nonempty dummy)) (N.eqb (lenL sigs) m))
      (N.leb m (lenL keys))) (cms_loop chk (rev keys) (rev sigs))

(** val unsnoc : 'a1 list -> ('a1 list * 'a1) option **)

let rec unsnoc = function
| [] -> None
| x :: r ->
  (match r with
   | [] -> Some ([], x)
   | _ :: _ ->
     (match unsnoc r with
      | Some p -> let (i, z0) = p in Some ((x :: i), z0)
      | None -> None))

(** val eval_multisig :
    (salgo -> bytes -> bytes -> bytes -> bool) -> salgo -> bytes -> bytes
    list -> bool **)

let eval_multisig chk a script0 items =
  match ms_parse script0 with
  | Some p -> let (m, keys) = p in checkmultisig (chk a script0) m keys items
  | None -> false

(** val eval_wpkh :
    (salgo -> bytes -> bytes -> bytes -> bool) -> bytes -> bytes list -> bool **)

let eval_wpkh chk h = function
| [] -> false
| sg :: l ->
  (match l with
   | [] -> false
   | pk :: l0 ->
     (match l0 with
      | [] ->
        (&&) (bytes_eqb (hash160 pk) h) (chk AWitV0 (p2pkh_script h) pk sg)
      | _ :: _ -> false))

(** val eval_wsh :
    (salgo -> bytes -> bytes -> bytes -> bool) -> bytes -> bytes list -> bool **)

let eval_wsh chk h wit =
  match unsnoc wit with
  | Some p ->
    let (items, ws) = p in
    (&&) (bytes_eqb (sha256 ws) h) (eval_multisig chk AWitV0 ws items)
  | None -> false

(** val eval_witness_program :
    (salgo -> bytes -> bytes -> bytes -> bool) -> bytes -> bytes list -> bool **)

let eval_witness_program chk prog wit =
  if is_p2wpkh prog
  then eval_wpkh chk (skipn (S (S O)) prog) wit
  else if is_p2wsh prog
       then eval_wsh chk (skipn (S (S O)) prog) wit
       else false

(** val eval_taproot :
    (salgo -> bytes -> bytes -> bytes -> bool) -> (bytes -> bytes -> bytes ->
    bool) -> bytes -> bytes list -> bool **)

let eval_taproot chk commit q = function
| [] -> false
| sg :: l ->
  (match l with
   | [] -> chk ATapKey [] q sg
   | script0 :: l0 ->
     (match l0 with
      | [] -> false
      | cb :: l1 ->
        (match l1 with
         | [] ->
           (&&) (commit cb script0 q)
             (match script0 with
              | [] -> false
              | l2 :: r ->
                (&&)
                  ((&&)
                    ((&&) (N.eqb (n8 l2) (Npos (XO (XO (XO (XO (XO XH)))))))
                      (N.eqb (lenN r) (Npos (XI (XO (XO (XO (XO XH))))))))
                    (match last_byte r with
                     | Some e -> N.eqb (n8 e) (n8 sOP_CHECKSIG)
                     | None -> false))
                  (chk ATapLeaf script0
                    (firstn (S (S (S (S (S (S (S (S (S (S (S (S (S (S (S (S
                      (S (S (S (S (S (S (S (S (S (S (S (S (S (S (S (S
                      O)))))))))))))))))))))))))))))))) r) sg))
         | _ :: _ -> false)))

(** val satisfies :
    (salgo -> bytes -> bytes -> bytes -> bool) -> (bytes -> bytes -> bytes ->
    bool) -> bytes -> bytes -> bytes list -> bool **)

let satisfies chk commit spk script_sig wit =
  if (||) (is_p2wpkh spk) (is_p2wsh spk)
  then (&&) (negb (nonempty script_sig)) (eval_witness_program chk spk wit)
  else if is_p2tr spk
       then (&&) (negb (nonempty script_sig))
              (eval_taproot chk commit (skipn (S (S O)) spk) wit)
       else if is_p2sh spk
            then (match parse_pushes script_sig with
                  | Some items ->
                    (match unsnoc items with
                     | Some p ->
                       let (rest, redeem) = p in
                       (&&)
                         (bytes_eqb (hash160 redeem)
                           (firstn (S (S (S (S (S (S (S (S (S (S (S (S (S (S
                             (S (S (S (S (S (S O))))))))))))))))))))
                             (skipn (S (S O)) spk)))
                         (if is_witness_program redeem
                          then (&&) (negb (nonempty rest))
                                 (eval_witness_program chk redeem wit)
                          else (&&) (negb (nonempty wit))
                                 (eval_multisig chk ALegacy redeem rest))
                     | None -> false)
                  | None -> false)
            else if is_p2pkh spk
                 then (&&) (negb (nonempty wit))
                        (match parse_pushes script_sig with
                         | Some l ->
                           (match l with
                            | [] -> false
                            | sg :: l0 ->
                              (match l0 with
                               | [] -> false
                               | pk :: l1 ->
                                 (match l1 with
                                  | [] ->
                                    (&&)
                                      (bytes_eqb (hash160 pk)
                                        (firstn (S (S (S (S (S (S (S (S (S (S
                                          (S (S (S (S (S (S (S (S (S (S
                                          O))))))))))))))))))))
                                          (skipn (S (S (S O))) spk)))
                                      (chk ALegacy spk pk sg)
                                  | _ :: _ -> false)))
                         | None -> false)
                 else false

(** val bl_n : z **)

let bl_n =
  Zpos (XI (XO (XO (XO (XO (XO (XI (XO (XI (XO (XO (XO (XO (XO (XI (XO (XO
    (XI (XI (XO (XI (XI (XO (XO (XO (XO (XO (XO (XI (XO (XI (XI (XO (XO (XI
    (XI (XO (XO (XO (XI (XO (XI (XI (XI (XI (XO (XI (XO (XO (XI (XO (XO (XI
    (XO (XI (XI (XI (XI (XI (XI (XI (XI (XO (XI (XI (XI (XO (XI (XI (XI (XO
    (XO (XO (XO (XO (XO (XO (XI (XO (XI (XO (XO (XO (XI (XO (XO (XI (XO (XI
    (XI (XI (XI (XO (XI (XO (XI (XO (XI (XI (XO (XO (XI (XI (XI (XO (XO (XI
    (XI (XI (XO (XI (XI (XO (XI (XI (XI (XO (XI (XO (XI (XO (XI (XO (XI (XI
    (XI (XO (XI (XO (XI (XI (XI (XI (XI (XI (XI (XI (XI (XI (XI (XI (XI (XI
    (XI (XI (XI (XI (XI (XI (XI (XI (XI (XI (XI (XI (XI (XI (XI (XI (XI (XI
    (XI (XI (XI (XI (XI (XI (XI (XI (XI (XI (XI (XI (XI (XI (XI (XI (XI (XI
    (XI (XI (XI (XI (XI (XI (XI (XI (XI (XI (XI (XI (XI (XI (XI (XI (XI (XI
    (XI (XI (XI (XI (XI (XI (XI (XI (XI (XI (XI (XI (XI (XI (XI (XI (XI (XI
    (XI (XI (XI (XI (XI (XI (XI (XI (XI (XI (XI (XI (XI (XI (XI (XI (XI (XI
    (XI (XI (XI (XI (XI (XI (XI (XI (XI (XI (XI (XI (XI (XI (XI (XI (XI (XI
    (XI (XI (XI (XI
    XH)))))))))))))))))))))))))))))))))))))))))))))))))))))))))))))))))))))))))))))))))))))))))))))))))))))))))))))))))))))))))))))))))))))))))))))))))))))))))))))))))))))))))))))))))))))))))))))))))))))))))))))))))))))))))))))))))))))))))))))))))))))))))))))))

(** val bl_sc : bytes -> z **)

let bl_sc b =
  Z.of_N (be_dec b)

(** val bl_enc : z -> bytes **)

let bl_enc z0 =
  be_enc (S (S (S (S (S (S (S (S (S (S (S (S (S (S (S (S (S (S (S (S (S (S (S
    (S (S (S (S (S (S (S (S (S O)))))))))))))))))))))))))))))))) (Z.to_N z0)

(** val bl_zero32 : bytes **)

let bl_zero32 =
  repeat X00 (S (S (S (S (S (S (S (S (S (S (S (S (S (S (S (S (S (S (S (S (S
    (S (S (S (S (S (S (S (S (S (S (S O))))))))))))))))))))))))))))))))

(** val bl_len32 : bytes -> bool **)

let bl_len32 b =
  Nat.eqb (length b) (S (S (S (S (S (S (S (S (S (S (S (S (S (S (S (S (S (S (S
    (S (S (S (S (S (S (S (S (S (S (S (S (S O))))))))))))))))))))))))))))))))

type 'a bres =
| BOk of 'a
| BErr
| BPanic

(** val bl_negate : bytes -> bytes option **)

let bl_negate k =
  if bl_len32 k then Some (bl_enc (Z.modulo (Z.opp (bl_sc k)) bl_n)) else None

(** val bl_tweak_add : bytes -> bytes -> bytes option **)

let bl_tweak_add k t =
  if (&&) (bl_len32 k) (bl_len32 t)
  then if Z.leb bl_n (bl_sc t)
       then None
       else let s = Z.modulo (Z.add (bl_sc k) (bl_sc t)) bl_n in
            if Z.eqb s Z0 then None else Some (bl_enc s)
  else None

(** val bl_tweak_mul : bytes -> z -> bytes option **)

let bl_tweak_mul k v =
  if bl_len32 k
  then if Z.eqb v Z0
       then None
       else Some (bl_enc (Z.modulo (Z.mul (bl_sc k) v) bl_n))
  else None

(** val bl_calc_offset :
    z -> bytes option -> bytes option -> bytes option option **)

let bl_calc_offset amount ab vb =
  match ab with
  | Some a ->
    if Z.ltb Z0 amount
    then (match bl_tweak_mul a amount with
          | Some r ->
            (match vb with
             | Some v ->
               (match bl_negate v with
                | Some vn ->
                  if bytes_eqb vn r
                  then Some (Some bl_zero32)
                  else (match bl_tweak_add r v with
                        | Some r' -> Some (Some r')
                        | None -> None)
                | None -> None)
             | None -> Some (Some r))
          | None -> None)
    else Some vb
  | None -> Some vb

(** val bl_sub : bytes option -> bytes option -> bytes option option **)

let bl_sub a = function
| Some bb ->
  if match a with
     | Some aa -> bytes_eqb aa bb
     | None -> false
  then Some (Some bl_zero32)
  else (match bl_negate bb with
        | Some nb ->
          (match a with
           | Some aa ->
             (match bl_tweak_add aa nb with
              | Some r -> Some (Some r)
              | None -> None)
           | None -> Some (Some nb))
        | None -> None)
| None -> Some a

(** val bl_add_offset :
    bytes option -> z -> bytes option -> bytes option -> bytes option option **)

let bl_add_offset s value ab vb =
  match ab with
  | Some _ ->
    (match bl_calc_offset value ab vb with
     | Some so ->
       (match so with
        | Some o ->
          (match s with
           | Some ss ->
             (match bl_negate o with
              | Some nv ->
                if bytes_eqb ss nv
                then Some (Some bl_zero32)
                else (match bl_tweak_add ss o with
                      | Some r -> Some (Some r)
                      | None -> None)
              | None -> None)
           | None -> Some so)
        | None -> Some s)
     | None -> None)
  | None ->
    (match vb with
     | Some _ ->
       (match bl_calc_offset value ab vb with
        | Some so ->
          (match so with
           | Some o ->
             (match s with
              | Some ss ->
                (match bl_negate o with
                 | Some nv ->
                   if bytes_eqb ss nv
                   then Some (Some bl_zero32)
                   else (match bl_tweak_add ss o with
                         | Some r -> Some (Some r)
                         | None -> None)
                 | None -> None)
              | None -> Some so)
           | None -> Some s)
        | None -> None)
     | None -> Some s)

type bl_pin = { bpi_conf : bool; bpi_issv : z; bpi_issk : z;
                bpi_vopen : bytes option; bpi_topen : bytes option }

type bl_pout = { bpo_value : z; bpo_blind : bool; bpo_bidx : n;
                 bpo_open : (bytes * bytes) option }

type bl_pset = { bps_ins : bl_pin list; bps_outs : bl_pout list;
                 bps_scalars : bytes list }

type bl_owned = { bow_idx : n; bow_value : z; bow_abf : bytes option;
                  bow_vbf : bytes option }

type bl_issarg = { bia_idx : n; bia_vbf : bytes option;
                   bia_tbf : bytes option; bia_hasvc : bool; bia_hastc : 
                   bool }

type bl_outarg = { boa_idx : n; boa_abf : bytes option; boa_vbf : bytes option }

(** val bl_nth : 'a1 list -> n -> 'a1 option **)

let bl_nth l i =
  if N.ltb i (N.of_nat (length l)) then nth_error l (N.to_nat i) else None

(** val bl_upd : 'a1 list -> nat -> 'a1 -> 'a1 list **)

let rec bl_upd l i x =
  match l with
  | [] -> []
  | h :: t -> (match i with
               | O -> x :: t
               | S j -> h :: (bl_upd t j x))

(** val bl_out_needs : bl_pout -> bool **)

let bl_out_needs o =
  o.bpo_blind

(** val bl_out_full : bl_pout -> bool **)

let bl_out_full o =
  match o.bpo_open with
  | Some _ -> true
  | None -> false

(** val bl_needs_blinding : bl_pset -> bool **)

let bl_needs_blinding p =
  existsb (fun o -> (&&) (bl_out_needs o) (negb (bl_out_full o))) p.bps_outs

(** val bl_is_fully_blinded : bl_pset -> bool **)

let bl_is_fully_blinded p =
  if negb (bl_needs_blinding p)
  then false
  else negb
         (existsb (fun o -> (&&) (bl_out_needs o) (negb (bl_out_full o)))
           p.bps_outs)

(** val bl_sanity : bl_pset -> bool **)

let bl_sanity p =
  (&&)
    (forallb (fun o ->
      negb ((&&) (bl_out_full o) (negb (N.eqb o.bpo_bidx N0)))) p.bps_outs)
    (negb
      ((&&)
        ((&&) (existsb bl_out_full p.bps_outs)
          (Nat.eqb (length p.bps_scalars) O)) (bl_needs_blinding p)))

(** val bl_optlen_ok : bytes option -> bool **)

let bl_optlen_ok = function
| Some x -> bl_len32 x
| None -> false

(** val bl_owned_ok : bl_pset -> bl_owned -> bool **)

let bl_owned_ok p o =
  match bl_nth p.bps_ins o.bow_idx with
  | Some i ->
    if i.bpi_conf
    then (&&) ((&&) (negb (Z.eqb o.bow_value Z0)) (bl_optlen_ok o.bow_vbf))
           (bl_optlen_ok o.bow_abf)
    else true
  | None -> false

(** val bl_new_blinder : bl_pset -> bl_owned list -> bool **)

let bl_new_blinder p owned =
  (&&)
    ((&&) ((&&) (bl_sanity p) (bl_needs_blinding p))
      (negb (Nat.eqb (length owned) O))) (forallb (bl_owned_ok p) owned)

(** val bl_has_issuance : bl_pin -> bool **)

let bl_has_issuance i =
  (||) (Z.ltb Z0 i.bpi_issv) (Z.ltb Z0 i.bpi_issk)

(** val bl_issarg_ok : bl_pset -> bl_issarg -> bool **)

let bl_issarg_ok p a =
  match bl_nth p.bps_ins a.bia_idx with
  | Some i ->
    if (&&) (Z.ltb Z0 i.bpi_issk) a.bia_hastc
    then bl_optlen_ok a.bia_tbf
    else true
  | None -> false

(** val bl_outarg_ok : bl_pset -> bl_outarg -> bool **)

let bl_outarg_ok p a =
  match bl_nth p.bps_outs a.boa_idx with
  | Some o ->
    (&&) ((&&) (bl_out_needs o) (bl_optlen_ok a.boa_vbf))
      (bl_optlen_ok a.boa_abf)
  | None -> false

(** val bl_insert : bl_outarg -> bl_outarg list -> bl_outarg list **)

let rec bl_insert a l = match l with
| [] -> a :: []
| h :: t -> if N.ltb a.boa_idx h.boa_idx then a :: l else h :: (bl_insert a t)

(** val bl_sort : bl_outarg list -> bl_outarg list **)

let bl_sort l =
  fold_right bl_insert [] l

(** val bl_own_output : bl_owned list -> n -> bool **)

let bl_own_output owned bidx =
  existsb (fun o -> N.eqb o.bow_idx bidx) owned

(** val bl_validate_args :
    bl_pset -> bl_owned list -> bl_outarg list -> bool -> bool **)

let bl_validate_args p owned args vok =
  (&&)
    (forallb (fun a ->
      match bl_nth p.bps_outs a.boa_idx with
      | Some o -> bl_own_output owned o.bpo_bidx
      | None -> false) args) vok

(** val bl_or_zero : bytes option -> bytes option **)

let bl_or_zero = function
| Some x -> if Nat.eqb (length x) O then Some bl_zero32 else Some x
| None -> Some bl_zero32

(** val bl_input_scalar :
    bl_pset -> bl_issarg list -> bl_owned list -> bytes option -> bytes
    option option **)

let rec bl_input_scalar p iss owned s =
  match owned with
  | [] -> Some s
  | o :: rest ->
    (match bl_add_offset s o.bow_value o.bow_abf o.bow_vbf with
     | Some s1 ->
       (match bl_nth p.bps_ins o.bow_idx with
        | Some i ->
          let s2 =
            if bl_has_issuance i
            then (match find (fun a -> N.eqb a.bia_idx o.bow_idx) iss with
                  | Some a ->
                    (match bl_add_offset s1 i.bpi_issv (Some bl_zero32)
                             (bl_or_zero a.bia_vbf) with
                     | Some s' ->
                       if Z.ltb Z0 i.bpi_issk
                       then bl_add_offset s' i.bpi_issk (Some bl_zero32)
                              (bl_or_zero a.bia_tbf)
                       else Some s'
                     | None -> None)
                  | None -> Some s1)
            else Some s1
          in
          (match s2 with
           | Some s3 -> bl_input_scalar p iss rest s3
           | None -> None)
        | None -> None)
     | None -> None)

(** val bl_output_sum :
    bl_pset -> bl_outarg list -> bytes option -> bytes option option **)

let rec bl_output_sum p args s =
  match args with
  | [] -> Some s
  | a :: rest ->
    (match bl_nth p.bps_outs a.boa_idx with
     | Some o ->
       (match bl_add_offset s o.bpo_value a.boa_abf a.boa_vbf with
        | Some s' -> bl_output_sum p rest s'
        | None -> None)
     | None -> None)

(** val bl_output_scalar :
    bl_pset -> bytes option -> bl_outarg list -> bool -> bytes option option **)

let bl_output_scalar p inS args _ =
  match bl_output_sum p args None with
  | Some s -> bl_sub s inS
  | None -> None

(** val bl_sub_all : bytes option -> bytes list -> bytes option option **)

let rec bl_sub_all s = function
| [] -> Some s
| x :: t ->
  (match bl_sub s (Some x) with
   | Some s' -> bl_sub_all s' t
   | None -> None)

(** val bl_last_vbf :
    bl_pset -> bl_outarg -> bytes option -> bytes option option **)

let bl_last_vbf p lastarg outS =
  match bl_sub lastarg.boa_vbf outS with
  | Some s -> bl_sub_all s p.bps_scalars
  | None -> None

(** val bl_write_iss : bl_pin list -> bl_issarg -> bl_pin list **)

let bl_write_iss ins a =
  match bl_nth ins a.bia_idx with
  | Some i ->
    bl_upd ins (N.to_nat a.bia_idx) { bpi_conf = i.bpi_conf; bpi_issv =
      i.bpi_issv; bpi_issk = i.bpi_issk; bpi_vopen =
      (if a.bia_hasvc then bl_or_zero a.bia_vbf else None); bpi_topen =
      (if a.bia_hastc then bl_or_zero a.bia_tbf else None) }
  | None -> ins

(** val bl_write_out : bl_pout list -> n -> bytes -> bytes -> bl_pout list **)

let bl_write_out outs idx abf vbf =
  match bl_nth outs idx with
  | Some o ->
    bl_upd outs (N.to_nat idx) { bpo_value = o.bpo_value; bpo_blind =
      o.bpo_blind; bpo_bidx = N0; bpo_open = (Some (abf, vbf)) }
  | None -> outs

(** val bl_ob : bytes option -> bytes **)

let bl_ob = function
| Some x -> x
| None -> []

(** val bl_write_outs :
    bl_pout list -> bl_outarg list -> bool -> bytes -> bl_pout list **)

let rec bl_write_outs outs args last lastvbf =
  match args with
  | [] -> outs
  | a :: rest ->
    let islast = (&&) last (match rest with
                            | [] -> true
                            | _ :: _ -> false) in
    bl_write_outs
      (bl_write_out outs a.boa_idx (bl_ob a.boa_abf)
        (if islast then lastvbf else bl_ob a.boa_vbf)) rest last lastvbf

type bl_step_out = { bso_pset : bl_pset; bso_scalar : bytes option;
                     bso_lastvbf : bytes option }

(** val bl_blind :
    bl_pset -> bl_owned list -> bl_issarg list -> bl_outarg list -> bool ->
    bool -> bl_step_out bres **)

let bl_blind p owned iss args0 last vok =
  if bl_is_fully_blinded p
  then BOk { bso_pset = p; bso_scalar = None; bso_lastvbf = None }
  else if negb (forallb (bl_issarg_ok p) iss)
       then BErr
       else let args = bl_sort args0 in
            if negb (forallb (bl_outarg_ok p) args)
            then BErr
            else if negb (bl_validate_args p owned args vok)
                 then BErr
                 else (match bl_input_scalar p iss owned None with
                       | Some inS ->
                         (match bl_output_scalar p inS args last with
                          | Some outS ->
                            (match rev args with
                             | [] -> BPanic
                             | lastarg :: _ ->
                               (match if last
                                      then bl_last_vbf p lastarg outS
                                      else Some None with
                                | Some lv ->
                                  let ins' =
                                    fold_left bl_write_iss iss p.bps_ins
                                  in
                                  let outs' =
                                    bl_write_outs p.bps_outs args last
                                      (bl_ob lv)
                                  in
                                  let scal' =
                                    if last
                                    then []
                                    else app p.bps_scalars
                                           ((bl_ob outS) :: [])
                                  in
                                  let p' = { bps_ins = ins'; bps_outs =
                                    outs'; bps_scalars = scal' }
                                  in
                                  if bl_sanity p'
                                  then BOk { bso_pset = p'; bso_scalar =
                                         (if last then None else outS);
                                         bso_lastvbf = lv }
                                  else BErr
                                | None -> BErr))
                          | None -> BErr)
                       | None -> BErr)

type bl_party = { bpa_genok : bool; bpa_vok : bool;
                  bpa_owned : bl_owned list; bpa_iss : bl_issarg list;
                  bpa_outs : bl_outarg list }

(** val bl_party_step : bl_pset -> bl_party -> bool -> bl_step_out bres **)

let bl_party_step p pa last =
  if negb (bl_new_blinder p pa.bpa_owned)
  then BErr
  else bl_blind p pa.bpa_owned pa.bpa_iss pa.bpa_outs last pa.bpa_vok

type bl_lin = (n * z) list * z

(** val bl_lin0 : bl_lin **)

let bl_lin0 =
  ([], Z0)

(** val bl_lin_add : bl_lin -> bl_lin -> bl_lin **)

let bl_lin_add a b =
  ((app (fst a) (fst b)), (Z.modulo (Z.add (snd a) (snd b)) bl_n))

(** val bl_commit : n -> z -> z -> z -> bl_lin **)

let bl_commit asset v abf vbf =
  (((asset, v) :: []), (Z.modulo (Z.add (Z.mul v abf) vbf) bl_n))

(** val bl_explicit : n -> z -> bl_lin **)

let bl_explicit asset v =
  (((asset, v) :: []), Z0)

(** val bl_coef : (n * z) list -> n -> z **)

let rec bl_coef l a =
  match l with
  | [] -> Z0
  | p :: t ->
    let (b, c) = p in
    Z.modulo (Z.add (if N.eqb a b then c else Z0) (bl_coef t a)) bl_n

(** val bl_lin_eqb : bl_lin -> bl_lin -> bool **)

let bl_lin_eqb x y =
  (&&) (Z.eqb (Z.modulo (snd x) bl_n) (Z.modulo (snd y) bl_n))
    (forallb (fun a -> Z.eqb (bl_coef (fst x) a) (bl_coef (fst y) a))
      (app (map fst (fst x)) (map fst (fst y))))

(** val bl_lin_sum : bl_lin list -> bl_lin **)

let bl_lin_sum l =
  fold_right bl_lin_add bl_lin0 l

type bl_win = { bwi_asset : n; bwi_value : z; bwi_abf : bytes;
                bwi_vbf : bytes; bwi_iss : n; bwi_issv : z; bwi_isst : 
                z }

type bl_wout = { bwo_asset : n; bwo_value : z }

(** val bl_in_commit : bl_win -> bl_lin **)

let bl_in_commit w =
  bl_commit w.bwi_asset w.bwi_value (bl_sc w.bwi_abf) (bl_sc w.bwi_vbf)

(** val bl_amount : n -> z -> bytes option -> bl_lin **)

let bl_amount asset v = function
| Some vbf -> bl_commit asset v Z0 (bl_sc vbf)
| None -> bl_explicit asset v

(** val bl_tx_in : n -> bl_win list -> bl_pin list -> bl_lin list **)

let rec bl_tx_in k ws pis =
  match ws with
  | [] -> []
  | w :: ws' ->
    (match pis with
     | [] -> []
     | i :: pis' ->
       (bl_in_commit w) :: (app
                             (if N.eqb w.bwi_iss N0
                              then []
                              else app
                                     (if Z.ltb Z0 w.bwi_issv
                                      then (bl_amount
                                             (N.add (Npos (XO (XO (XI (XO (XO
                                               (XI XH))))))) k) w.bwi_issv
                                             i.bpi_vopen) :: []
                                      else [])
                                     (if Z.ltb Z0 w.bwi_isst
                                      then (bl_amount
                                             (N.add (Npos (XO (XO (XO (XI (XO
                                               (XO (XI XH)))))))) k)
                                             w.bwi_isst i.bpi_topen) :: []
                                      else []))
                             (bl_tx_in (N.add k (Npos XH)) ws' pis')))

(** val bl_tx_out : bl_wout list -> bl_pout list -> bl_lin list **)

let rec bl_tx_out wos pos =
  match wos with
  | [] -> []
  | w :: wos' ->
    (match pos with
     | [] -> []
     | o :: pos' ->
       (match o.bpo_open with
        | Some p ->
          let (abf, vbf) = p in
          bl_commit w.bwo_asset w.bwo_value (bl_sc abf) (bl_sc vbf)
        | None -> bl_explicit w.bwo_asset w.bwo_value) :: (bl_tx_out wos'
                                                            pos'))

(** val bl_balanced : bl_win list -> bl_wout list -> bl_pset -> bool **)

let bl_balanced ws wos p =
  bl_lin_eqb (bl_lin_sum (bl_tx_in N0 ws p.bps_ins))
    (bl_lin_sum (bl_tx_out wos p.bps_outs))

(** val bl_unblind_inputs : bl_win list -> n list -> bl_owned list **)

let bl_unblind_inputs ws idxs =
  flat_map (fun i ->
    match bl_nth ws i with
    | Some w ->
      { bow_idx = i; bow_value = w.bwi_value; bow_abf = (Some w.bwi_abf);
        bow_vbf = (Some w.bwi_vbf) } :: []
    | None -> []) idxs

type b0_in = { bi0_asset : n; bi0_value : z; bi0_abf : bytes;
               bi0_vbf : bytes; bi0_iss : n; bi0_issv : z; bi0_isst : 
               z }

type b0_out = { bo0_asset : n; bo0_value : z; bo0_noscript : bool }

(** val b0_draw : bytes list -> (bytes * bytes list) option **)

let b0_draw = function
| [] -> None
| x :: t -> Some (x, t)

(** val b0_draws : nat -> bytes list -> (bytes list * bytes list) option **)

let rec b0_draws k rng =
  match k with
  | O -> Some ([], rng)
  | S k' ->
    (match b0_draw rng with
     | Some p ->
       let (x, r) = p in
       (match b0_draws k' r with
        | Some p0 -> let (l, r') = p0 in Some ((x :: l), r')
        | None -> None)
     | None -> None)

type b0_ent = { ben_asset : n; ben_value : z; ben_abf : bytes; ben_vbf : bytes }

(** val b0_pseudo :
    bool -> n -> b0_in list -> bytes list -> (b0_ent list * bytes list) option **)

let rec b0_pseudo keys k ins rng =
  match ins with
  | [] -> Some ([], rng)
  | i :: rest ->
    if N.eqb i.bi0_iss N0
    then b0_pseudo keys (N.add k (Npos XH)) rest rng
    else (match if keys then b0_draw rng else Some (bl_zero32, rng) with
          | Some p ->
            let (vbf, r1) = p in
            let e1 = { ben_asset =
              (N.add (Npos (XO (XO (XI (XO (XO (XI XH))))))) k); ben_value =
              i.bi0_issv; ben_abf = bl_zero32; ben_vbf = vbf }
            in
            if (&&) (N.eqb i.bi0_iss (Npos XH)) (Z.ltb Z0 i.bi0_isst)
            then (match if keys then b0_draw r1 else Some (bl_zero32, r1) with
                  | Some p0 ->
                    let (tbf, r2) = p0 in
                    (match b0_pseudo keys (N.add k (Npos XH)) rest r2 with
                     | Some p1 ->
                       let (l, r3) = p1 in
                       Some ((e1 :: ({ ben_asset =
                       (N.add (Npos (XO (XO (XO (XI (XO (XO (XI XH)))))))) k);
                       ben_value = i.bi0_isst; ben_abf = bl_zero32; ben_vbf =
                       tbf } :: l)), r3)
                     | None -> None)
                  | None -> None)
            else (match b0_pseudo keys (N.add k (Npos XH)) rest r1 with
                  | Some p0 -> let (l, r3) = p0 in Some ((e1 :: l), r3)
                  | None -> None)
          | None -> None)

(** val b0_ins : n -> n list -> n list **)

let rec b0_ins a l = match l with
| [] -> a :: []
| h :: t -> if N.ltb a h then a :: l else h :: (b0_ins a t)

(** val b0_sort : n list -> n list **)

let b0_sort l =
  fold_right b0_ins [] l

(** val b0_bsum :
    z list -> bytes list -> bytes list -> nat -> z -> z option **)

let rec b0_bsum vals gens facs nin acc =
  match vals with
  | [] -> Some acc
  | v :: vals' ->
    (match gens with
     | [] -> Some acc
     | g :: gens' ->
       let f = match facs with
               | [] -> bl_zero32
               | x :: _ -> x in
       if (||) (Z.leb bl_n (bl_sc g)) (Z.leb bl_n (bl_sc f))
       then None
       else let add0 = Z.modulo (Z.add (Z.mul v (bl_sc g)) (bl_sc f)) bl_n in
            let add' =
              match nin with
              | O -> add0
              | S _ -> Z.modulo (Z.opp add0) bl_n
            in
            b0_bsum vals' gens' (tl facs) (pred nin)
              (Z.modulo (Z.add acc add') bl_n))

(** val b0_final_vbf :
    z list -> z list -> bytes list -> bytes list -> bytes list -> bytes list
    -> bytes option **)

let b0_final_vbf inV outV inG outG inF outF =
  let vals = app inV outV in
  let gens = app inG outG in
  let facs = app inF outF in
  if negb
       ((&&) (Nat.eqb (length vals) (length gens))
         (Nat.eqb (length gens) (add (length facs) (S O))))
  then None
  else (match b0_bsum vals gens facs (length inV) Z0 with
        | Some s -> Some (bl_enc (Z.modulo (Z.opp s) bl_n))
        | None -> None)

type b0_result = { br0_outs : (bytes * bytes) option list;
                   br0_iss : (bytes option * bytes option) list }

(** val b0_zip3 :
    z list -> bytes list -> bytes list -> ((z * bytes) * bytes) list **)

let rec b0_zip3 a b c =
  match a with
  | [] -> []
  | x :: a' ->
    (match b with
     | [] -> []
     | y :: b' ->
       (match c with
        | [] -> []
        | z0 :: c' -> ((x, y), z0) :: (b0_zip3 a' b' c')))

(** val b0_writeback :
    n list -> (bytes * bytes) list -> (bytes * bytes) option list ->
    (bytes * bytes) option list bres **)

let rec b0_writeback sel arr0 outs =
  match sel with
  | [] -> BOk outs
  | idx :: rest ->
    (match arr0 with
     | [] -> BPanic
     | x :: arr' ->
       (match bl_nth outs idx with
        | Some _ ->
          b0_writeback rest arr' (bl_upd outs (N.to_nat idx) (Some x))
        | None -> BPanic))

(** val b0_iss_open :
    bool -> n -> b0_in list -> b0_ent list -> (bytes option * bytes option)
    list **)

let rec b0_iss_open keys k ins ps =
  match ins with
  | [] -> []
  | i :: rest ->
    let look = fun a ->
      match find (fun e -> N.eqb e.ben_asset a) ps with
      | Some e -> Some e.ben_vbf
      | None -> None
    in
    (if (&&) keys (negb (N.eqb i.bi0_iss N0))
     then ((look (N.add (Npos (XO (XO (XI (XO (XO (XI XH))))))) k)),
            (if (&&) (N.eqb i.bi0_iss (Npos XH)) (Z.ltb Z0 i.bi0_isst)
             then look (N.add (Npos (XO (XO (XO (XI (XO (XO (XI XH)))))))) k)
             else None))
     else (None, None)) :: (b0_iss_open keys (N.add k (Npos XH)) rest ps)

(** val b0_blind :
    b0_in list -> b0_out list -> n list -> bool -> bool -> bytes list ->
    b0_result bres **)

let b0_blind ins outs sel keys sok rng =
  match b0_pseudo keys N0 ins rng with
  | Some p ->
    let (pseudo, r1) = p in
    let ssel = b0_sort sel in
    if negb (forallb (fun i -> N.ltb i (N.of_nat (length outs))) ssel)
    then BPanic
    else let chosen =
           flat_map (fun i ->
             match bl_nth outs i with
             | Some o -> if o.bo0_noscript then [] else o :: []
             | None -> []) ssel
         in
         let outV = map (fun b -> b.bo0_value) chosen in
         let ents =
           app
             (map (fun i -> { ben_asset = i.bi0_asset; ben_value =
               i.bi0_value; ben_abf = i.bi0_abf; ben_vbf = i.bi0_vbf }) ins)
             pseudo
         in
         let nout = length sel in
         (match b0_draws nout r1 with
          | Some p0 ->
            let (abfs, r2) = p0 in
            (match b0_draws (pred nout) r2 with
             | Some p1 ->
               let (vbfs, r3) = p1 in
               (match b0_final_vbf (map (fun b -> b.ben_value) ents) outV
                        (map (fun b -> b.ben_abf) ents) abfs
                        (map (fun b -> b.ben_vbf) ents) vbfs with
                | Some fv ->
                  let vbfs' = app vbfs (fv :: []) in
                  (match b0_draws (length chosen) r3 with
                   | Some _ ->
                     if negb sok
                     then BErr
                     else let arr0 =
                            map (fun t -> ((snd (fst t)), (snd t)))
                              (b0_zip3 outV abfs vbfs')
                          in
                          let arr' = firstn (length chosen) arr0 in
                          let start = map (fun _ -> None) outs in
                          (match b0_writeback
                                   (filter (fun i ->
                                     match bl_nth outs i with
                                     | Some o -> negb o.bo0_noscript
                                     | None -> false) ssel) arr' start with
                           | BOk w ->
                             BOk { br0_outs = w; br0_iss =
                               (b0_iss_open keys N0 ins pseudo) }
                           | BErr -> BErr
                           | BPanic -> BPanic)
                   | None -> BErr)
                | None -> BErr)
             | None -> BErr)
          | None -> BErr)
  | None -> BErr

(** val b0_tx_in :
    n -> b0_in list -> (bytes option * bytes option) list -> bl_lin list **)

let rec b0_tx_in k ins io =
  match ins with
  | [] -> []
  | i :: ins' ->
    (match io with
     | [] -> []
     | o :: io' ->
       (bl_commit i.bi0_asset i.bi0_value (bl_sc i.bi0_abf) (bl_sc i.bi0_vbf)) :: 
         (app
           (if N.eqb i.bi0_iss N0
            then []
            else app
                   (if Z.ltb Z0 i.bi0_issv
                    then (bl_amount
                           (N.add (Npos (XO (XO (XI (XO (XO (XI XH))))))) k)
                           i.bi0_issv (fst o)) :: []
                    else [])
                   (if (&&) (N.eqb i.bi0_iss (Npos XH)) (Z.ltb Z0 i.bi0_isst)
                    then (bl_amount
                           (N.add (Npos (XO (XO (XO (XI (XO (XO (XI
                             XH)))))))) k) i.bi0_isst (snd o)) :: []
                    else [])) (b0_tx_in (N.add k (Npos XH)) ins' io')))

(** val b0_tx_out :
    b0_out list -> (bytes * bytes) option list -> bl_lin list **)

let rec b0_tx_out outs w =
  match outs with
  | [] -> []
  | o :: outs' ->
    (match w with
     | [] -> []
     | x :: w' ->
       (match x with
        | Some p ->
          let (abf, vbf) = p in
          bl_commit o.bo0_asset o.bo0_value (bl_sc abf) (bl_sc vbf)
        | None -> bl_explicit o.bo0_asset o.bo0_value) :: (b0_tx_out outs' w'))

(** val b0_balanced : b0_in list -> b0_out list -> b0_result -> bool **)

let b0_balanced ins outs r =
  bl_lin_eqb (bl_lin_sum (b0_tx_in N0 ins r.br0_iss))
    (bl_lin_sum (b0_tx_out outs r.br0_outs))

(** val g_TagTapLeafElements : z list **)

let g_TagTapLeafElements =
  (Zpos (XO (XO (XI (XO (XI (XO XH))))))) :: ((Zpos (XI (XO (XO (XO (XO (XI
    XH))))))) :: ((Zpos (XO (XO (XO (XO (XI (XI XH))))))) :: ((Zpos (XO (XO
    (XI (XI (XO (XO XH))))))) :: ((Zpos (XI (XO (XI (XO (XO (XI
    XH))))))) :: ((Zpos (XI (XO (XO (XO (XO (XI XH))))))) :: ((Zpos (XO (XI
    (XI (XO (XO (XI XH))))))) :: ((Zpos (XI (XI (XI (XI (XO
    XH)))))) :: ((Zpos (XI (XO (XI (XO (XO (XI XH))))))) :: ((Zpos (XO (XO
    (XI (XI (XO (XI XH))))))) :: ((Zpos (XI (XO (XI (XO (XO (XI
    XH))))))) :: ((Zpos (XI (XO (XI (XI (XO (XI XH))))))) :: ((Zpos (XI (XO
    (XI (XO (XO (XI XH))))))) :: ((Zpos (XO (XI (XI (XI (XO (XI
    XH))))))) :: ((Zpos (XO (XO (XI (XO (XI (XI XH))))))) :: ((Zpos (XI (XI
    (XO (XO (XI (XI XH))))))) :: [])))))))))))))))

(** val g_TagTapBranchElements : z list **)

let g_TagTapBranchElements =
  (Zpos (XO (XO (XI (XO (XI (XO XH))))))) :: ((Zpos (XI (XO (XO (XO (XO (XI
    XH))))))) :: ((Zpos (XO (XO (XO (XO (XI (XI XH))))))) :: ((Zpos (XO (XI
    (XO (XO (XO (XO XH))))))) :: ((Zpos (XO (XI (XO (XO (XI (XI
    XH))))))) :: ((Zpos (XI (XO (XO (XO (XO (XI XH))))))) :: ((Zpos (XO (XI
    (XI (XI (XO (XI XH))))))) :: ((Zpos (XI (XI (XO (XO (XO (XI
    XH))))))) :: ((Zpos (XO (XO (XO (XI (XO (XI XH))))))) :: ((Zpos (XI (XI
    (XI (XI (XO XH)))))) :: ((Zpos (XI (XO (XI (XO (XO (XI
    XH))))))) :: ((Zpos (XO (XO (XI (XI (XO (XI XH))))))) :: ((Zpos (XI (XO
    (XI (XO (XO (XI XH))))))) :: ((Zpos (XI (XO (XI (XI (XO (XI
    XH))))))) :: ((Zpos (XI (XO (XI (XO (XO (XI XH))))))) :: ((Zpos (XO (XI
    (XI (XI (XO (XI XH))))))) :: ((Zpos (XO (XO (XI (XO (XI (XI
    XH))))))) :: ((Zpos (XI (XI (XO (XO (XI (XI
    XH))))))) :: [])))))))))))))))))

(** val g_TagTapTweakElements : z list **)

let g_TagTapTweakElements =
  (Zpos (XO (XO (XI (XO (XI (XO XH))))))) :: ((Zpos (XI (XO (XO (XO (XO (XI
    XH))))))) :: ((Zpos (XO (XO (XO (XO (XI (XI XH))))))) :: ((Zpos (XO (XO
    (XI (XO (XI (XO XH))))))) :: ((Zpos (XI (XI (XI (XO (XI (XI
    XH))))))) :: ((Zpos (XI (XO (XI (XO (XO (XI XH))))))) :: ((Zpos (XI (XO
    (XO (XO (XO (XI XH))))))) :: ((Zpos (XI (XI (XO (XI (XO (XI
    XH))))))) :: ((Zpos (XI (XI (XI (XI (XO XH)))))) :: ((Zpos (XI (XO (XI
    (XO (XO (XI XH))))))) :: ((Zpos (XO (XO (XI (XI (XO (XI
    XH))))))) :: ((Zpos (XI (XO (XI (XO (XO (XI XH))))))) :: ((Zpos (XI (XO
    (XI (XI (XO (XI XH))))))) :: ((Zpos (XI (XO (XI (XO (XO (XI
    XH))))))) :: ((Zpos (XO (XI (XI (XI (XO (XI XH))))))) :: ((Zpos (XO (XO
    (XI (XO (XI (XI XH))))))) :: ((Zpos (XI (XI (XO (XO (XI (XI
    XH))))))) :: []))))))))))))))))

(** val bytes_compare : bytes -> bytes -> comparison **)

let rec bytes_compare a b =
  match a with
  | [] -> (match b with
           | [] -> Eq
           | _ :: _ -> Lt)
  | x :: a' ->
    (match b with
     | [] -> Gt
     | y :: b' ->
       (match N.compare (n8 x) (n8 y) with
        | Eq -> bytes_compare a' b'
        | x0 -> x0))

(** val bytes_gt : bytes -> bytes -> bool **)

let bytes_gt a b =
  match bytes_compare a b with
  | Gt -> true
  | _ -> false

(** val tag_of : z list -> bytes **)

let tag_of l =
  map (fun z0 -> b8 (Z.to_N z0)) l

(** val tag_leaf : bytes **)

let tag_leaf =
  tag_of g_TagTapLeafElements

(** val tag_branch : bytes **)

let tag_branch =
  tag_of g_TagTapBranchElements

(** val tag_tweak : bytes **)

let tag_tweak =
  tag_of g_TagTapTweakElements

type tapleaf = { tlf_version : byte; tlf_script : bytes }

(** val tag_prefix : bytes -> bytes **)

let tag_prefix tag =
  let t = sha256 tag in app t t

(** val tag_mid : bytes -> n list **)

let tag_mid tag =
  compress iV256 (tag_prefix tag)

(** val tagged_from_mid : bytes -> n list -> bytes -> bytes **)

let tagged_from_mid pre mid msg =
  let p = pad (app pre msg) in
  digest_of
    (blocks
      (Nat.div (length p) (S (S (S (S (S (S (S (S (S (S (S (S (S (S (S (S (S
        (S (S (S (S (S (S (S (S (S (S (S (S (S (S (S (S (S (S (S (S (S (S (S
        (S (S (S (S (S (S (S (S (S (S (S (S (S (S (S (S (S (S (S (S (S (S (S
        (S O)))))))))))))))))))))))))))))))))))))))))))))))))))))))))))))))))
      mid
      (skipn (S (S (S (S (S (S (S (S (S (S (S (S (S (S (S (S (S (S (S (S (S
        (S (S (S (S (S (S (S (S (S (S (S (S (S (S (S (S (S (S (S (S (S (S (S
        (S (S (S (S (S (S (S (S (S (S (S (S (S (S (S (S (S (S (S (S
        O)))))))))))))))))))))))))))))))))))))))))))))))))))))))))))))))) p))

(** val leaf_pre : bytes **)

let leaf_pre =
  tag_prefix tag_leaf

(** val leaf_mid : n list **)

let leaf_mid =
  tag_mid tag_leaf

(** val branch_pre : bytes **)

let branch_pre =
  tag_prefix tag_branch

(** val branch_mid : n list **)

let branch_mid =
  tag_mid tag_branch

(** val tweak_pre : bytes **)

let tweak_pre =
  tag_prefix tag_tweak

(** val tweak_mid : n list **)

let tweak_mid =
  tag_mid tag_tweak

(** val leaf_hash : tapleaf -> bytes **)

let leaf_hash l =
  tagged_from_mid leaf_pre leaf_mid
    (l.tlf_version :: (var_slice l.tlf_script))

(** val branch_hash_raw : bytes -> bytes -> bytes **)

let branch_hash_raw l r =
  tagged_from_mid branch_pre branch_mid (app l r)

type 'a toutcome =
| Done of 'a
| GoPanic
| OutOfFuel

(** val tobind : 'a1 toutcome -> ('a1 -> 'a2 toutcome) -> 'a2 toutcome **)

let tobind x f =
  match x with
  | Done a -> f a
  | GoPanic -> GoPanic
  | OutOfFuel -> OutOfFuel

(** val tupd : nat -> ('a1 -> 'a1) -> 'a1 list -> 'a1 list toutcome **)

let rec tupd i f = function
| [] -> GoPanic
| x :: r ->
  (match i with
   | O -> Done ((f x) :: r)
   | S i' -> tobind (tupd i' f r) (fun r' -> Done (x :: r')))

(** val split_last : 'a1 list -> ('a1 list * 'a1) option **)

let rec split_last = function
| [] -> None
| x :: r ->
  (match r with
   | [] -> Some ([], x)
   | _ :: _ ->
     (match split_last r with
      | Some p -> let (i, y) = p in Some ((x :: i), y)
      | None -> None))

(** val branch : (bytes -> bytes -> bytes) -> bytes -> bytes -> bytes **)

let branch bHR l r =
  if bytes_gt l r then bHR r l else bHR l r

type tnode =
| TLeaf of bytes * tapleaf
| TBranch of bytes * tnode * tnode

(** val tnode_hash : tnode -> bytes **)

let tnode_hash = function
| TLeaf (h, _) -> h
| TBranch (h, _, _) -> h

(** val mk_leaf : (tapleaf -> bytes) -> tapleaf -> tnode **)

let mk_leaf lH l =
  TLeaf ((lH l), l)

(** val mk_branch : (bytes -> bytes -> bytes) -> tnode -> tnode -> tnode **)

let mk_branch bHR a b =
  TBranch ((branch bHR (tnode_hash a) (tnode_hash b)), a, b)

(** val leaves_of : tnode -> tnode list **)

let rec leaves_of n0 = match n0 with
| TLeaf (_, _) -> n0 :: []
| TBranch (_, a, b) -> app (leaves_of a) (leaves_of b)

type proof_entry = { pe_leaf : tapleaf; pe_proof : bytes }

(** val zero_entry : proof_entry **)

let zero_entry =
  { pe_leaf = { tlf_version = X00; tlf_script = [] }; pe_proof = [] }

(** val add_proof : bytes -> proof_entry -> proof_entry **)

let add_proof h e =
  { pe_leaf = e.pe_leaf; pe_proof = (app e.pe_proof h) }

(** val set_leaf_add : tapleaf -> bytes -> proof_entry -> proof_entry **)

let set_leaf_add l h e =
  { pe_leaf = l; pe_proof = (app e.pe_proof h) }

type index = (bytes * nat) list

(** val idx_get : index -> bytes -> nat **)

let rec idx_get ix h =
  match ix with
  | [] -> O
  | p :: r -> let (k, v) = p in if bytes_eqb k h then v else idx_get r h

(** val build_index :
    (tapleaf -> bytes) -> nat -> tapleaf list -> index -> index **)

let rec build_index lH i ls ix =
  match ls with
  | [] -> ix
  | l :: r -> build_index lH (S i) r (((lH l), i) :: ix)

type tbranch = tnode * tnode

(** val bnode : (bytes -> bytes -> bytes) -> tbranch -> tnode **)

let bnode bHR b =
  mk_branch bHR (fst b) (snd b)

(** val pair_pass :
    (tapleaf -> bytes) -> (bytes -> bytes -> bytes) -> index -> nat ->
    tapleaf list -> tbranch list -> proof_entry list -> (tbranch
    list * proof_entry list) toutcome **)

let rec pair_pass lH bHR ix i ls brs st0 =
  match ls with
  | [] -> Done (brs, st0)
  | l :: l0 ->
    (match l0 with
     | [] ->
       (match split_last brs with
        | Some p ->
          let (ini, btm) = p in
          let bt = bnode bHR btm in
          let lf = mk_leaf lH l in
          let brs' = app ini ((bt, lf) :: []) in
          tobind (tupd i (set_leaf_add l (tnode_hash bt)) st0) (fun st1 ->
            tobind
              (tupd (idx_get ix (tnode_hash (fst btm)))
                (add_proof (tnode_hash lf)) st1) (fun st2 ->
              tobind
                (tupd (idx_get ix (tnode_hash (snd btm)))
                  (add_proof (tnode_hash lf)) st2) (fun st3 -> Done (brs',
                st3))))
        | None -> GoPanic)
     | r :: rest ->
       let ln = mk_leaf lH l in
       let rn = mk_leaf lH r in
       tobind (tupd i (set_leaf_add l (tnode_hash rn)) st0) (fun st1 ->
         tobind (tupd (S i) (set_leaf_add r (tnode_hash ln)) st1) (fun st2 ->
           pair_pass lH bHR ix (S (S i)) rest (app brs ((ln, rn) :: [])) st2)))

(** val add_to_leaves :
    index -> tnode list -> bytes -> proof_entry list -> proof_entry list
    toutcome **)

let rec add_to_leaves ix ds h st0 =
  match ds with
  | [] -> Done st0
  | d :: r ->
    tobind (tupd (idx_get ix (tnode_hash d)) (add_proof h) st0)
      (add_to_leaves ix r h)

(** val merge_phase :
    (bytes -> bytes -> bytes) -> index -> nat -> tbranch list -> proof_entry
    list -> (tnode option * proof_entry list) toutcome **)

let rec merge_phase bHR ix fuel brs st0 =
  match brs with
  | [] -> Done (None, st0)
  | l :: l0 ->
    (match l0 with
     | [] -> Done ((Some (bnode bHR l)), st0)
     | r :: rest ->
       (match fuel with
        | O -> OutOfFuel
        | S f ->
          let l1 = bnode bHR l in
          let r0 = bnode bHR r in
          tobind (add_to_leaves ix (leaves_of l1) (tnode_hash r0) st0)
            (fun st1 ->
            tobind (add_to_leaves ix (leaves_of r0) (tnode_hash l1) st1)
              (fun st2 ->
              merge_phase bHR ix f (app rest ((l1, r0) :: [])) st2))))

(** val assemble :
    (tapleaf -> bytes) -> (bytes -> bytes -> bytes) -> tapleaf list -> (tnode
    option * proof_entry list) toutcome **)

let assemble lH bHR ls = match ls with
| [] ->
  let ix = build_index lH O ls [] in
  let st0 = repeat zero_entry (length ls) in
  tobind (pair_pass lH bHR ix O ls [] st0) (fun p ->
    merge_phase bHR ix (length (fst p)) (fst p) (snd p))
| leaf :: l ->
  (match l with
   | [] ->
     Done ((Some (mk_leaf lH leaf)), ({ pe_leaf = leaf; pe_proof =
       [] } :: []))
   | _ :: _ ->
     let ix = build_index lH O ls [] in
     let st0 = repeat zero_entry (length ls) in
     tobind (pair_pass lH bHR ix O ls [] st0) (fun p ->
       merge_phase bHR ix (length (fst p)) (fst p) (snd p)))

(** val root_from :
    (bytes -> bytes -> bytes) -> nat -> bytes -> bytes -> bytes **)

let rec root_from bHR k acc proof =
  match k with
  | O -> acc
  | S k' ->
    root_from bHR k'
      (branch bHR acc
        (firstn (S (S (S (S (S (S (S (S (S (S (S (S (S (S (S (S (S (S (S (S
          (S (S (S (S (S (S (S (S (S (S (S (S
          O)))))))))))))))))))))))))))))))) proof))
      (skipn (S (S (S (S (S (S (S (S (S (S (S (S (S (S (S (S (S (S (S (S (S
        (S (S (S (S (S (S (S (S (S (S (S O))))))))))))))))))))))))))))))))
        proof)

(** val proof_root : (bytes -> bytes -> bytes) -> bytes -> bytes -> bytes **)

let proof_root bHR proof leafh =
  root_from bHR
    (Nat.div (length proof) (S (S (S (S (S (S (S (S (S (S (S (S (S (S (S (S
      (S (S (S (S (S (S (S (S (S (S (S (S (S (S (S (S
      O))))))))))))))))))))))))))))))))) leafh proof

type cblock = { cb_key : bytes; cb_odd : bool; cb_version : byte;
                cb_proof : bytes }

(** val ser_cb : cblock -> bytes **)

let ser_cb c =
  (b8 (N.coq_lor (n8 c.cb_version) (if c.cb_odd then Npos XH else N0))) :: 
    (app c.cb_key c.cb_proof)

(** val cb_base_size : nat **)

let cb_base_size =
  S (S (S (S (S (S (S (S (S (S (S (S (S (S (S (S (S (S (S (S (S (S (S (S (S
    (S (S (S (S (S (S (S (S O))))))))))))))))))))))))))))))))

(** val cb_node_size : nat **)

let cb_node_size =
  S (S (S (S (S (S (S (S (S (S (S (S (S (S (S (S (S (S (S (S (S (S (S (S (S
    (S (S (S (S (S (S (S O)))))))))))))))))))))))))))))))

(** val cb_max_size : nat **)

let cb_max_size =
  add (S (S (S (S (S (S (S (S (S (S (S (S (S (S (S (S (S (S (S (S (S (S (S (S
    (S (S (S (S (S (S (S (S (S O)))))))))))))))))))))))))))))))))
    (mul (S (S (S (S (S (S (S (S (S (S (S (S (S (S (S (S (S (S (S (S (S (S (S
      (S (S (S (S (S (S (S (S (S O)))))))))))))))))))))))))))))))) (S (S (S
      (S (S (S (S (S (S (S (S (S (S (S (S (S (S (S (S (S (S (S (S (S (S (S (S
      (S (S (S (S (S (S (S (S (S (S (S (S (S (S (S (S (S (S (S (S (S (S (S (S
      (S (S (S (S (S (S (S (S (S (S (S (S (S (S (S (S (S (S (S (S (S (S (S (S
      (S (S (S (S (S (S (S (S (S (S (S (S (S (S (S (S (S (S (S (S (S (S (S (S
      (S (S (S (S (S (S (S (S (S (S (S (S (S (S (S (S (S (S (S (S (S (S (S (S
      (S (S (S (S (S
      O)))))))))))))))))))))))))))))))))))))))))))))))))))))))))))))))))))))))))))))))))))))))))))))))))))))))))))))))))))))))))))))))))

(** val tap_p : z **)

let tap_p =
  Zpos (XI (XI (XI (XI (XO (XI (XO (XO (XO (XO (XI (XI (XI (XI (XI (XI (XI
    (XI (XI (XI (XI (XI (XI (XI (XI (XI (XI (XI (XI (XI (XI (XI (XO (XI (XI
    (XI (XI (XI (XI (XI (XI (XI (XI (XI (XI (XI (XI (XI (XI (XI (XI (XI (XI
    (XI (XI (XI (XI (XI (XI (XI (XI (XI (XI (XI (XI (XI (XI (XI (XI (XI (XI
    (XI (XI (XI (XI (XI (XI (XI (XI (XI (XI (XI (XI (XI (XI (XI (XI (XI (XI
    (XI (XI (XI (XI (XI (XI (XI (XI (XI (XI (XI (XI (XI (XI (XI (XI (XI (XI
    (XI (XI (XI (XI (XI (XI (XI (XI (XI (XI (XI (XI (XI (XI (XI (XI (XI (XI
    (XI (XI (XI (XI (XI (XI (XI (XI (XI (XI (XI (XI (XI (XI (XI (XI (XI (XI
    (XI (XI (XI (XI (XI (XI (XI (XI (XI (XI (XI (XI (XI (XI (XI (XI (XI (XI
    (XI (XI (XI (XI (XI (XI (XI (XI (XI (XI (XI (XI (XI (XI (XI (XI (XI (XI
    (XI (XI (XI (XI (XI (XI (XI (XI (XI (XI (XI (XI (XI (XI (XI (XI (XI (XI
    (XI (XI (XI (XI (XI (XI (XI (XI (XI (XI (XI (XI (XI (XI (XI (XI (XI (XI
    (XI (XI (XI (XI (XI (XI (XI (XI (XI (XI (XI (XI (XI (XI (XI (XI (XI (XI
    (XI (XI (XI (XI (XI (XI (XI (XI (XI (XI (XI (XI (XI (XI (XI (XI (XI (XI
    (XI (XI (XI (XI
    XH)))))))))))))))))))))))))))))))))))))))))))))))))))))))))))))))))))))))))))))))))))))))))))))))))))))))))))))))))))))))))))))))))))))))))))))))))))))))))))))))))))))))))))))))))))))))))))))))))))))))))))))))))))))))))))))))))))))))))))))))))))))))))))))))

(** val tap_n : z **)

let tap_n =
  Zpos (XI (XO (XO (XO (XO (XO (XI (XO (XI (XO (XO (XO (XO (XO (XI (XO (XO
    (XI (XI (XO (XI (XI (XO (XO (XO (XO (XO (XO (XI (XO (XI (XI (XO (XO (XI
    (XI (XO (XO (XO (XI (XO (XI (XI (XI (XI (XO (XI (XO (XO (XI (XO (XO (XI
    (XO (XI (XI (XI (XI (XI (XI (XI (XI (XO (XI (XI (XI (XO (XI (XI (XI (XO
    (XO (XO (XO (XO (XO (XO (XI (XO (XI (XO (XO (XO (XI (XO (XO (XI (XO (XI
    (XI (XI (XI (XO (XI (XO (XI (XO (XI (XI (XO (XO (XI (XI (XI (XO (XO (XI
    (XI (XI (XO (XI (XI (XO (XI (XI (XI (XO (XI (XO (XI (XO (XI (XO (XI (XI
    (XI (XO (XI (XO (XI (XI (XI (XI (XI (XI (XI (XI (XI (XI (XI (XI (XI (XI
    (XI (XI (XI (XI (XI (XI (XI (XI (XI (XI (XI (XI (XI (XI (XI (XI (XI (XI
    (XI (XI (XI (XI (XI (XI (XI (XI (XI (XI (XI (XI (XI (XI (XI (XI (XI (XI
    (XI (XI (XI (XI (XI (XI (XI (XI (XI (XI (XI (XI (XI (XI (XI (XI (XI (XI
    (XI (XI (XI (XI (XI (XI (XI (XI (XI (XI (XI (XI (XI (XI (XI (XI (XI (XI
    (XI (XI (XI (XI (XI (XI (XI (XI (XI (XI (XI (XI (XI (XI (XI (XI (XI (XI
    (XI (XI (XI (XI (XI (XI (XI (XI (XI (XI (XI (XI (XI (XI (XI (XI (XI (XI
    (XI (XI (XI (XI
    XH)))))))))))))))))))))))))))))))))))))))))))))))))))))))))))))))))))))))))))))))))))))))))))))))))))))))))))))))))))))))))))))))))))))))))))))))))))))))))))))))))))))))))))))))))))))))))))))))))))))))))))))))))))))))))))))))))))))))))))))))))))))))))))))))

(** val powmod_pos : z -> positive -> z -> z **)

let rec powmod_pos b e m =
  match e with
  | XI e' ->
    let r = powmod_pos b e' m in Z.modulo (Z.mul (Z.modulo (Z.mul r r) m) b) m
  | XO e' -> let r = powmod_pos b e' m in Z.modulo (Z.mul r r) m
  | XH -> Z.modulo b m

(** val x_on_curve : bytes -> bool **)

let x_on_curve kx =
  let x = Z.of_N (be_dec kx) in
  (&&)
    ((&&)
      (Nat.eqb (length kx) (S (S (S (S (S (S (S (S (S (S (S (S (S (S (S (S (S
        (S (S (S (S (S (S (S (S (S (S (S (S (S (S (S
        O))))))))))))))))))))))))))))))))) (Z.ltb x tap_p))
    (match Z.div (Z.sub tap_p (Zpos XH)) (Zpos (XO XH)) with
     | Zpos e ->
       Z.eqb
         (powmod_pos
           (Z.modulo (Z.add (Z.mul (Z.mul x x) x) (Zpos (XI (XI XH)))) tap_p)
           e tap_p) (Zpos XH)
     | _ -> false)

(** val parse_cb : (bytes -> bool) -> bytes -> cblock option **)

let parse_cb liftable bs =
  let n0 = length bs in
  if Nat.ltb n0 cb_base_size
  then None
  else if Nat.ltb cb_max_size n0
       then None
       else if negb
                 (Nat.eqb (Nat.modulo (sub n0 cb_base_size) cb_node_size) O)
            then None
            else (match bs with
                  | [] -> None
                  | b0 :: rest ->
                    let key =
                      firstn (S (S (S (S (S (S (S (S (S (S (S (S (S (S (S (S
                        (S (S (S (S (S (S (S (S (S (S (S (S (S (S (S (S
                        O)))))))))))))))))))))))))))))))) rest
                    in
                    if liftable key
                    then Some { cb_key = key; cb_odd =
                           (N.testbit (n8 b0) N0); cb_version =
                           (b8
                             (N.coq_land (n8 b0) (Npos (XO (XI (XI (XI (XI
                               (XI (XI XH)))))))))); cb_proof =
                           (skipn (S (S (S (S (S (S (S (S (S (S (S (S (S (S
                             (S (S (S (S (S (S (S (S (S (S (S (S (S (S (S (S
                             (S (S O)))))))))))))))))))))))))))))))) rest) }
                    else None)

(** val to_cb : proof_entry -> bytes -> bool -> cblock **)

let to_cb e keyx odd =
  { cb_key = keyx; cb_odd = odd; cb_version = e.pe_leaf.tlf_version;
    cb_proof = e.pe_proof }

(** val cb_root :
    (tapleaf -> bytes) -> (bytes -> bytes -> bytes) -> cblock -> bytes ->
    bytes **)

let cb_root lH bHR c script0 =
  proof_root bHR c.cb_proof
    (lH { tlf_version = c.cb_version; tlf_script = script0 })

(** val tapleaf_kv : tapleaf -> cblock -> bytes * bytes **)

let tapleaf_kv l c =
  ((ser_cb c), (app l.tlf_script (l.tlf_version :: [])))

type kv_result =
| KvOk of tapleaf * cblock
| KvErr
| KvPanic

(** val parse_tapleaf_kv : (bytes -> bool) -> bytes -> bytes -> kv_result **)

let parse_tapleaf_kv liftable key value =
  if negb
       (Z.eqb
         (Z.rem (Z.sub (Z.of_nat (length key)) (Zpos XH)) (Zpos (XO (XO (XO
           (XO (XO XH))))))) Z0)
  then KvErr
  else (match parse_cb liftable key with
        | Some c ->
          (match split_last value with
           | Some p ->
             let (script0, ver) = p in
             if negb (beqb c.cb_version ver)
             then KvErr
             else KvOk ({ tlf_version = c.cb_version; tlf_script = script0 },
                    c)
           | None -> KvPanic)
        | None -> KvErr)

(** val scalar_of_bytes : bytes -> z **)

let scalar_of_bytes b =
  Z.modulo (Z.of_N (be_dec b)) tap_n

(** val scalar_to_bytes : z -> bytes **)

let scalar_to_bytes z0 =
  be_enc (S (S (S (S (S (S (S (S (S (S (S (S (S (S (S (S (S (S (S (S (S (S (S
    (S (S (S (S (S (S (S (S (S O)))))))))))))))))))))))))))))))) (Z.to_N z0)

(** val tweak_hash : bytes -> bytes -> bytes **)

let tweak_hash kx root =
  tagged_from_mid tweak_pre tweak_mid (app kx root)

(** val tweak_scalar : bytes -> bytes -> z **)

let tweak_scalar kx root =
  scalar_of_bytes (tweak_hash kx root)

(** val tweak_priv_with :
    (bytes -> bytes -> z) -> bool -> bytes -> z -> bytes -> z * z **)

let tweak_priv_with tS pk_odd pkx d root =
  let d1 = if pk_odd then Z.modulo (Z.sub tap_n d) tap_n else d in
  let t = tS pkx root in let d2 = Z.modulo (Z.add d1 t) tap_n in (d2, d)

(** val tweak_priv : bool -> bytes -> z -> bytes -> z * z **)

let tweak_priv =
  tweak_priv_with tweak_scalar

(** val verify_with_oracle : cblock -> bytes -> bytes -> bool -> bool **)

let verify_with_oracle c program qx qodd =
  (&&) (bytes_eqb qx program) (eqb c.cb_odd qodd)

(** val assemble_c :
    tapleaf list -> (tnode option * proof_entry list) toutcome **)

let assemble_c =
  assemble leaf_hash branch_hash_raw

(** val cb_root_c : cblock -> bytes -> bytes **)

let cb_root_c =
  cb_root leaf_hash branch_hash_raw

(** val parse_cb_c : bytes -> cblock option **)

let parse_cb_c =
  parse_cb x_on_curve

(** val parse_tapleaf_kv_c : bytes -> bytes -> kv_result **)

let parse_tapleaf_kv_c =
  parse_tapleaf_kv x_on_curve

type vsite =
| VPInputIndex
| VPSigNil
| VPTxInputIndex
| VPDigestIndex

type 'a vres =
| VOk of 'a
| VErr
| VPanic of vsite

(** val vbind : 'a1 vres -> ('a1 -> 'a2 vres) -> 'a2 vres **)

let vbind x f =
  match x with
  | VOk a -> f a
  | VErr -> VErr
  | VPanic s -> VPanic s

(** val vs_opnames : bytes list **)

let vs_opnames =
  (X30 :: []) :: ([] :: ([] :: ([] :: ([] :: ([] :: ([] :: ([] :: ([] :: ([] :: ([] :: ([] :: ([] :: ([] :: ([] :: ([] :: ([] :: ([] :: ([] :: ([] :: ([] :: ([] :: ([] :: ([] :: ([] :: ([] :: ([] :: ([] :: ([] :: ([] :: ([] :: ([] :: ([] :: ([] :: ([] :: ([] :: ([] :: ([] :: ([] :: ([] :: ([] :: ([] :: ([] :: ([] :: ([] :: ([] :: ([] :: ([] :: ([] :: ([] :: ([] :: ([] :: ([] :: ([] :: ([] :: ([] :: ([] :: ([] :: ([] :: ([] :: ([] :: ([] :: ([] :: ([] :: ([] :: ([] :: ([] :: ([] :: ([] :: ([] :: ([] :: ([] :: ([] :: ([] :: ([] :: ([] :: ([] :: ([] :: ([] :: ((X2d :: (X31 :: [])) :: ((X4f :: (X50 :: (X5f :: (X52 :: (X45 :: (X53 :: (X45 :: (X52 :: (X56 :: (X45 :: (X44 :: []))))))))))) :: ((X31 :: []) :: ((X32 :: []) :: ((X33 :: []) :: ((X34 :: []) :: ((X35 :: []) :: ((X36 :: []) :: ((X37 :: []) :: ((X38 :: []) :: ((X39 :: []) :: ((X31 :: (X30 :: [])) :: ((X31 :: (X31 :: [])) :: ((X31 :: (X32 :: [])) :: ((X31 :: (X33 :: [])) :: ((X31 :: (X34 :: [])) :: ((X31 :: (X35 :: [])) :: ((X31 :: (X36 :: [])) :: ((X4f :: (X50 :: (X5f :: (X4e :: (X4f :: (X50 :: [])))))) :: ((X4f :: (X50 :: (X5f :: (X56 :: (X45 :: (X52 :: [])))))) :: ((X4f :: (X50 :: (X5f :: (X49 :: (X46 :: []))))) :: ((X4f :: (X50 :: (X5f :: (X4e :: (X4f :: (X54 :: (X49 :: (X46 :: [])))))))) :: ((X4f :: (X50 :: (X5f :: (X56 :: (X45 :: (X52 :: (X49 :: (X46 :: [])))))))) :: ((X4f :: (X50 :: (X5f :: (X56 :: (X45 :: (X52 :: (X4e :: (X4f :: (X54 :: (X49 :: (X46 :: []))))))))))) :: ((X4f :: (X50 :: (X5f :: (X45 :: (X4c :: (X53 :: (X45 :: []))))))) :: ((X4f :: (X50 :: (X5f :: (X45 :: (X4e :: (X44 :: (X49 :: (X46 :: [])))))))) :: ((X4f :: (X50 :: (X5f :: (X56 :: (X45 :: (X52 :: (X49 :: (X46 :: (X59 :: []))))))))) :: ((X4f :: (X50 :: (X5f :: (X52 :: (X45 :: (X54 :: (X55 :: (X52 :: (X4e :: []))))))))) :: ((X4f :: (X50 :: (X5f :: (X54 :: (X4f :: (X41 :: (X4c :: (X54 :: (X53 :: (X54 :: (X41 :: (X43 :: (X4b :: []))))))))))))) :: ((X4f :: (X50 :: (X5f :: (X46 :: (X52 :: (X4f :: (X4d :: (X41 :: (X4c :: (X54 :: (X53 :: (X54 :: (X41 :: (X43 :: (X4b :: []))))))))))))))) :: ((X4f :: (X50 :: (X5f :: (X32 :: (X44 :: (X52 :: (X4f :: (X50 :: [])))))))) :: ((X4f :: (X50 :: (X5f :: (X32 :: (X44 :: (X55 :: (X50 :: []))))))) :: ((X4f :: (X50 :: (X5f :: (X33 :: (X44 :: (X55 :: (X50 :: []))))))) :: ((X4f :: (X50 :: (X5f :: (X32 :: (X4f :: (X56 :: (X45 :: (X52 :: [])))))))) :: ((X4f :: (X50 :: (X5f :: (X32 :: (X52 :: (X4f :: (X54 :: []))))))) :: ((X4f :: (X50 :: (X5f :: (X32 :: (X53 :: (X57 :: (X41 :: (X50 :: [])))))))) :: ((X4f :: (X50 :: (X5f :: (X49 :: (X46 :: (X44 :: (X55 :: (X50 :: [])))))))) :: ((X4f :: (X50 :: (X5f :: (X44 :: (X45 :: (X50 :: (X54 :: (X48 :: [])))))))) :: ((X4f :: (X50 :: (X5f :: (X44 :: (X52 :: (X4f :: (X50 :: []))))))) :: ((X4f :: (X50 :: (X5f :: (X44 :: (X55 :: (X50 :: [])))))) :: ((X4f :: (X50 :: (X5f :: (X4e :: (X49 :: (X50 :: [])))))) :: ((X4f :: (X50 :: (X5f :: (X4f :: (X56 :: (X45 :: (X52 :: []))))))) :: ((X4f :: (X50 :: (X5f :: (X50 :: (X49 :: (X43 :: (X4b :: []))))))) :: ((X4f :: (X50 :: (X5f :: (X52 :: (X4f :: (X4c :: (X4c :: []))))))) :: ((X4f :: (X50 :: (X5f :: (X52 :: (X4f :: (X54 :: [])))))) :: ((X4f :: (X50 :: (X5f :: (X53 :: (X57 :: (X41 :: (X50 :: []))))))) :: ((X4f :: (X50 :: (X5f :: (X54 :: (X55 :: (X43 :: (X4b :: []))))))) :: ((X4f :: (X50 :: (X5f :: (X43 :: (X41 :: (X54 :: [])))))) :: ((X4f :: (X50 :: (X5f :: (X53 :: (X55 :: (X42 :: (X53 :: (X54 :: (X52 :: []))))))))) :: ((X4f :: (X50 :: (X5f :: (X4c :: (X45 :: (X46 :: (X54 :: []))))))) :: ((X4f :: (X50 :: (X5f :: (X52 :: (X49 :: (X47 :: (X48 :: (X54 :: [])))))))) :: ((X4f :: (X50 :: (X5f :: (X53 :: (X49 :: (X5a :: (X45 :: []))))))) :: ((X4f :: (X50 :: (X5f :: (X49 :: (X4e :: (X56 :: (X45 :: (X52 :: (X54 :: []))))))))) :: ((X4f :: (X50 :: (X5f :: (X41 :: (X4e :: (X44 :: [])))))) :: ((X4f :: (X50 :: (X5f :: (X4f :: (X52 :: []))))) :: ((X4f :: (X50 :: (X5f :: (X58 :: (X4f :: (X52 :: [])))))) :: ((X4f :: (X50 :: (X5f :: (X45 :: (X51 :: (X55 :: (X41 :: (X4c :: [])))))))) :: ((X4f :: (X50 :: (X5f :: (X45 :: (X51 :: (X55 :: (X41 :: (X4c :: (X56 :: (X45 :: (X52 :: (X49 :: (X46 :: (X59 :: [])))))))))))))) :: ((X4f :: (X50 :: (X5f :: (X52 :: (X45 :: (X53 :: (X45 :: (X52 :: (X56 :: (X45 :: (X44 :: (X31 :: [])))))))))))) :: ((X4f :: (X50 :: (X5f :: (X52 :: (X45 :: (X53 :: (X45 :: (X52 :: (X56 :: (X45 :: (X44 :: (X32 :: [])))))))))))) :: ((X4f :: (X50 :: (X5f :: (X31 :: (X41 :: (X44 :: (X44 :: []))))))) :: ((X4f :: (X50 :: (X5f :: (X31 :: (X53 :: (X55 :: (X42 :: []))))))) :: ((X4f :: (X50 :: (X5f :: (X32 :: (X4d :: (X55 :: (X4c :: []))))))) :: ((X4f :: (X50 :: (X5f :: (X32 :: (X44 :: (X49 :: (X56 :: []))))))) :: ((X4f :: (X50 :: (X5f :: (X4e :: (X45 :: (X47 :: (X41 :: (X54 :: (X45 :: []))))))))) :: ((X4f :: (X50 :: (X5f :: (X41 :: (X42 :: (X53 :: [])))))) :: ((X4f :: (X50 :: (X5f :: (X4e :: (X4f :: (X54 :: [])))))) :: ((X4f :: (X50 :: (X5f :: (X30 :: (X4e :: (X4f :: (X54 :: (X45 :: (X51 :: (X55 :: (X41 :: (X4c :: [])))))))))))) :: ((X4f :: (X50 :: (X5f :: (X41 :: (X44 :: (X44 :: [])))))) :: ((X4f :: (X50 :: (X5f :: (X53 :: (X55 :: (X42 :: [])))))) :: ((X4f :: (X50 :: (X5f :: (X4d :: (X55 :: (X4c :: [])))))) :: ((X4f :: (X50 :: (X5f :: (X44 :: (X49 :: (X56 :: [])))))) :: ((X4f :: (X50 :: (X5f :: (X4d :: (X4f :: (X44 :: [])))))) :: ((X4f :: (X50 :: (X5f :: (X4c :: (X53 :: (X48 :: (X49 :: (X46 :: (X54 :: []))))))))) :: ((X4f :: (X50 :: (X5f :: (X52 :: (X53 :: (X48 :: (X49 :: (X46 :: (X54 :: []))))))))) :: ((X4f :: (X50 :: (X5f :: (X42 :: (X4f :: (X4f :: (X4c :: (X41 :: (X4e :: (X44 :: [])))))))))) :: ((X4f :: (X50 :: (X5f :: (X42 :: (X4f :: (X4f :: (X4c :: (X4f :: (X52 :: []))))))))) :: ((X4f :: (X50 :: (X5f :: (X4e :: (X55 :: (X4d :: (X45 :: (X51 :: (X55 :: (X41 :: (X4c :: []))))))))))) :: ((X4f :: (X50 :: (X5f :: (X4e :: (X55 :: (X4d :: (X45 :: (X51 :: (X55 :: (X41 :: (X4c :: (X56 :: (X45 :: (X52 :: (X49 :: (X46 :: (X59 :: []))))))))))))))))) :: ((X4f :: (X50 :: (X5f :: (X4e :: (X55 :: (X4d :: (X4e :: (X4f :: (X54 :: (X45 :: (X51 :: (X55 :: (X41 :: (X4c :: [])))))))))))))) :: ((X4f :: (X50 :: (X5f :: (X4c :: (X45 :: (X53 :: (X53 :: (X54 :: (X48 :: (X41 :: (X4e :: []))))))))))) :: ((X4f :: (X50 :: (X5f :: (X47 :: (X52 :: (X45 :: (X41 :: (X54 :: (X45 :: (X52 :: (X54 :: (X48 :: (X41 :: (X4e :: [])))))))))))))) :: ((X4f :: (X50 :: (X5f :: (X4c :: (X45 :: (X53 :: (X53 :: (X54 :: (X48 :: (X41 :: (X4e :: (X4f :: (X52 :: (X45 :: (X51 :: (X55 :: (X41 :: (X4c :: [])))))))))))))))))) :: ((X4f :: (X50 :: (X5f :: (X47 :: (X52 :: (X45 :: (X41 :: (X54 :: (X45 :: (X52 :: (X54 :: (X48 :: (X41 :: (X4e :: (X4f :: (X52 :: (X45 :: (X51 :: (X55 :: (X41 :: (X4c :: []))))))))))))))))))))) :: ((X4f :: (X50 :: (X5f :: (X4d :: (X49 :: (X4e :: [])))))) :: ((X4f :: (X50 :: (X5f :: (X4d :: (X41 :: (X58 :: [])))))) :: ((X4f :: (X50 :: (X5f :: (X57 :: (X49 :: (X54 :: (X48 :: (X49 :: (X4e :: []))))))))) :: ((X4f :: (X50 :: (X5f :: (X52 :: (X49 :: (X50 :: (X45 :: (X4d :: (X44 :: (X31 :: (X36 :: (X30 :: [])))))))))))) :: ((X4f :: (X50 :: (X5f :: (X53 :: (X48 :: (X41 :: (X31 :: []))))))) :: ((X4f :: (X50 :: (X5f :: (X53 :: (X48 :: (X41 :: (X32 :: (X35 :: (X36 :: []))))))))) :: ((X4f :: (X50 :: (X5f :: (X48 :: (X41 :: (X53 :: (X48 :: (X31 :: (X36 :: (X30 :: [])))))))))) :: ((X4f :: (X50 :: (X5f :: (X48 :: (X41 :: (X53 :: (X48 :: (X32 :: (X35 :: (X36 :: [])))))))))) :: ((X4f :: (X50 :: (X5f :: (X43 :: (X4f :: (X44 :: (X45 :: (X53 :: (X45 :: (X50 :: (X41 :: (X52 :: (X41 :: (X54 :: (X4f :: (X52 :: [])))))))))))))))) :: ((X4f :: (X50 :: (X5f :: (X43 :: (X48 :: (X45 :: (X43 :: (X4b :: (X53 :: (X49 :: (X47 :: []))))))))))) :: ((X4f :: (X50 :: (X5f :: (X43 :: (X48 :: (X45 :: (X43 :: (X4b :: (X53 :: (X49 :: (X47 :: (X56 :: (X45 :: (X52 :: (X49 :: (X46 :: (X59 :: []))))))))))))))))) :: ((X4f :: (X50 :: (X5f :: (X43 :: (X48 :: (X45 :: (X43 :: (X4b :: (X4d :: (X55 :: (X4c :: (X54 :: (X49 :: (X53 :: (X49 :: (X47 :: [])))))))))))))))) :: ((X4f :: (X50 :: (X5f :: (X43 :: (X48 :: (X45 :: (X43 :: (X4b :: (X4d :: (X55 :: (X4c :: (X54 :: (X49 :: (X53 :: (X49 :: (X47 :: (X56 :: (X45 :: (X52 :: (X49 :: (X46 :: (X59 :: [])))))))))))))))))))))) :: ((X4f :: (X50 :: (X5f :: (X4e :: (X4f :: (X50 :: (X31 :: []))))))) :: ((X4f :: (X50 :: (X5f :: (X43 :: (X48 :: (X45 :: (X43 :: (X4b :: (X4c :: (X4f :: (X43 :: (X4b :: (X54 :: (X49 :: (X4d :: (X45 :: (X56 :: (X45 :: (X52 :: (X49 :: (X46 :: (X59 :: [])))))))))))))))))))))) :: ((X4f :: (X50 :: (X5f :: (X43 :: (X48 :: (X45 :: (X43 :: (X4b :: (X53 :: (X45 :: (X51 :: (X55 :: (X45 :: (X4e :: (X43 :: (X45 :: (X56 :: (X45 :: (X52 :: (X49 :: (X46 :: (X59 :: [])))))))))))))))))))))) :: ((X4f :: (X50 :: (X5f :: (X4e :: (X4f :: (X50 :: (X34 :: []))))))) :: ((X4f :: (X50 :: (X5f :: (X4e :: (X4f :: (X50 :: (X35 :: []))))))) :: ((X4f :: (X50 :: (X5f :: (X4e :: (X4f :: (X50 :: (X36 :: []))))))) :: ((X4f :: (X50 :: (X5f :: (X4e :: (X4f :: (X50 :: (X37 :: []))))))) :: ((X4f :: (X50 :: (X5f :: (X4e :: (X4f :: (X50 :: (X38 :: []))))))) :: ((X4f :: (X50 :: (X5f :: (X4e :: (X4f :: (X50 :: (X39 :: []))))))) :: ((X4f :: (X50 :: (X5f :: (X4e :: (X4f :: (X50 :: (X31 :: (X30 :: [])))))))) :: ((X4f :: (X50 :: (X5f :: (X43 :: (X48 :: (X45 :: (X43 :: (X4b :: (X53 :: (X49 :: (X47 :: (X41 :: (X44 :: (X44 :: [])))))))))))))) :: ((X4f :: (X50 :: (X5f :: (X55 :: (X4e :: (X4b :: (X4e :: (X4f :: (X57 :: (X4e :: (X31 :: (X38 :: (X37 :: []))))))))))))) :: ((X4f :: (X50 :: (X5f :: (X55 :: (X4e :: (X4b :: (X4e :: (X4f :: (X57 :: (X4e :: (X31 :: (X38 :: (X38 :: []))))))))))))) :: ((X4f :: (X50 :: (X5f :: (X55 :: (X4e :: (X4b :: (X4e :: (X4f :: (X57 :: (X4e :: (X31 :: (X38 :: (X39 :: []))))))))))))) :: ((X4f :: (X50 :: (X5f :: (X55 :: (X4e :: (X4b :: (X4e :: (X4f :: (X57 :: (X4e :: (X31 :: (X39 :: (X30 :: []))))))))))))) :: ((X4f :: (X50 :: (X5f :: (X55 :: (X4e :: (X4b :: (X4e :: (X4f :: (X57 :: (X4e :: (X31 :: (X39 :: (X31 :: []))))))))))))) :: ((X4f :: (X50 :: (X5f :: (X55 :: (X4e :: (X4b :: (X4e :: (X4f :: (X57 :: (X4e :: (X31 :: (X39 :: (X32 :: []))))))))))))) :: ((X4f :: (X50 :: (X5f :: (X55 :: (X4e :: (X4b :: (X4e :: (X4f :: (X57 :: (X4e :: (X31 :: (X39 :: (X33 :: []))))))))))))) :: ((X4f :: (X50 :: (X5f :: (X55 :: (X4e :: (X4b :: (X4e :: (X4f :: (X57 :: (X4e :: (X31 :: (X39 :: (X34 :: []))))))))))))) :: ((X4f :: (X50 :: (X5f :: (X55 :: (X4e :: (X4b :: (X4e :: (X4f :: (X57 :: (X4e :: (X31 :: (X39 :: (X35 :: []))))))))))))) :: ((X4f :: (X50 :: (X5f :: (X55 :: (X4e :: (X4b :: (X4e :: (X4f :: (X57 :: (X4e :: (X31 :: (X39 :: (X36 :: []))))))))))))) :: ((X4f :: (X50 :: (X5f :: (X55 :: (X4e :: (X4b :: (X4e :: (X4f :: (X57 :: (X4e :: (X31 :: (X39 :: (X37 :: []))))))))))))) :: ((X4f :: (X50 :: (X5f :: (X55 :: (X4e :: (X4b :: (X4e :: (X4f :: (X57 :: (X4e :: (X31 :: (X39 :: (X38 :: []))))))))))))) :: ((X4f :: (X50 :: (X5f :: (X55 :: (X4e :: (X4b :: (X4e :: (X4f :: (X57 :: (X4e :: (X31 :: (X39 :: (X39 :: []))))))))))))) :: ((X4f :: (X50 :: (X5f :: (X55 :: (X4e :: (X4b :: (X4e :: (X4f :: (X57 :: (X4e :: (X32 :: (X30 :: (X30 :: []))))))))))))) :: ((X4f :: (X50 :: (X5f :: (X55 :: (X4e :: (X4b :: (X4e :: (X4f :: (X57 :: (X4e :: (X32 :: (X30 :: (X31 :: []))))))))))))) :: ((X4f :: (X50 :: (X5f :: (X55 :: (X4e :: (X4b :: (X4e :: (X4f :: (X57 :: (X4e :: (X32 :: (X30 :: (X32 :: []))))))))))))) :: ((X4f :: (X50 :: (X5f :: (X55 :: (X4e :: (X4b :: (X4e :: (X4f :: (X57 :: (X4e :: (X32 :: (X30 :: (X33 :: []))))))))))))) :: ((X4f :: (X50 :: (X5f :: (X55 :: (X4e :: (X4b :: (X4e :: (X4f :: (X57 :: (X4e :: (X32 :: (X30 :: (X34 :: []))))))))))))) :: ((X4f :: (X50 :: (X5f :: (X55 :: (X4e :: (X4b :: (X4e :: (X4f :: (X57 :: (X4e :: (X32 :: (X30 :: (X35 :: []))))))))))))) :: ((X4f :: (X50 :: (X5f :: (X55 :: (X4e :: (X4b :: (X4e :: (X4f :: (X57 :: (X4e :: (X32 :: (X30 :: (X36 :: []))))))))))))) :: ((X4f :: (X50 :: (X5f :: (X55 :: (X4e :: (X4b :: (X4e :: (X4f :: (X57 :: (X4e :: (X32 :: (X30 :: (X37 :: []))))))))))))) :: ((X4f :: (X50 :: (X5f :: (X55 :: (X4e :: (X4b :: (X4e :: (X4f :: (X57 :: (X4e :: (X32 :: (X30 :: (X38 :: []))))))))))))) :: ((X4f :: (X50 :: (X5f :: (X55 :: (X4e :: (X4b :: (X4e :: (X4f :: (X57 :: (X4e :: (X32 :: (X30 :: (X39 :: []))))))))))))) :: ((X4f :: (X50 :: (X5f :: (X55 :: (X4e :: (X4b :: (X4e :: (X4f :: (X57 :: (X4e :: (X32 :: (X31 :: (X30 :: []))))))))))))) :: ((X4f :: (X50 :: (X5f :: (X55 :: (X4e :: (X4b :: (X4e :: (X4f :: (X57 :: (X4e :: (X32 :: (X31 :: (X31 :: []))))))))))))) :: ((X4f :: (X50 :: (X5f :: (X55 :: (X4e :: (X4b :: (X4e :: (X4f :: (X57 :: (X4e :: (X32 :: (X31 :: (X32 :: []))))))))))))) :: ((X4f :: (X50 :: (X5f :: (X55 :: (X4e :: (X4b :: (X4e :: (X4f :: (X57 :: (X4e :: (X32 :: (X31 :: (X33 :: []))))))))))))) :: ((X4f :: (X50 :: (X5f :: (X55 :: (X4e :: (X4b :: (X4e :: (X4f :: (X57 :: (X4e :: (X32 :: (X31 :: (X34 :: []))))))))))))) :: ((X4f :: (X50 :: (X5f :: (X55 :: (X4e :: (X4b :: (X4e :: (X4f :: (X57 :: (X4e :: (X32 :: (X31 :: (X35 :: []))))))))))))) :: ((X4f :: (X50 :: (X5f :: (X55 :: (X4e :: (X4b :: (X4e :: (X4f :: (X57 :: (X4e :: (X32 :: (X31 :: (X36 :: []))))))))))))) :: ((X4f :: (X50 :: (X5f :: (X55 :: (X4e :: (X4b :: (X4e :: (X4f :: (X57 :: (X4e :: (X32 :: (X31 :: (X37 :: []))))))))))))) :: ((X4f :: (X50 :: (X5f :: (X55 :: (X4e :: (X4b :: (X4e :: (X4f :: (X57 :: (X4e :: (X32 :: (X31 :: (X38 :: []))))))))))))) :: ((X4f :: (X50 :: (X5f :: (X55 :: (X4e :: (X4b :: (X4e :: (X4f :: (X57 :: (X4e :: (X32 :: (X31 :: (X39 :: []))))))))))))) :: ((X4f :: (X50 :: (X5f :: (X55 :: (X4e :: (X4b :: (X4e :: (X4f :: (X57 :: (X4e :: (X32 :: (X32 :: (X30 :: []))))))))))))) :: ((X4f :: (X50 :: (X5f :: (X55 :: (X4e :: (X4b :: (X4e :: (X4f :: (X57 :: (X4e :: (X32 :: (X32 :: (X31 :: []))))))))))))) :: ((X4f :: (X50 :: (X5f :: (X55 :: (X4e :: (X4b :: (X4e :: (X4f :: (X57 :: (X4e :: (X32 :: (X32 :: (X32 :: []))))))))))))) :: ((X4f :: (X50 :: (X5f :: (X55 :: (X4e :: (X4b :: (X4e :: (X4f :: (X57 :: (X4e :: (X32 :: (X32 :: (X33 :: []))))))))))))) :: ((X4f :: (X50 :: (X5f :: (X55 :: (X4e :: (X4b :: (X4e :: (X4f :: (X57 :: (X4e :: (X32 :: (X32 :: (X34 :: []))))))))))))) :: ((X4f :: (X50 :: (X5f :: (X55 :: (X4e :: (X4b :: (X4e :: (X4f :: (X57 :: (X4e :: (X32 :: (X32 :: (X35 :: []))))))))))))) :: ((X4f :: (X50 :: (X5f :: (X55 :: (X4e :: (X4b :: (X4e :: (X4f :: (X57 :: (X4e :: (X32 :: (X32 :: (X36 :: []))))))))))))) :: ((X4f :: (X50 :: (X5f :: (X55 :: (X4e :: (X4b :: (X4e :: (X4f :: (X57 :: (X4e :: (X32 :: (X32 :: (X37 :: []))))))))))))) :: ((X4f :: (X50 :: (X5f :: (X55 :: (X4e :: (X4b :: (X4e :: (X4f :: (X57 :: (X4e :: (X32 :: (X32 :: (X38 :: []))))))))))))) :: ((X4f :: (X50 :: (X5f :: (X55 :: (X4e :: (X4b :: (X4e :: (X4f :: (X57 :: (X4e :: (X32 :: (X32 :: (X39 :: []))))))))))))) :: ((X4f :: (X50 :: (X5f :: (X55 :: (X4e :: (X4b :: (X4e :: (X4f :: (X57 :: (X4e :: (X32 :: (X33 :: (X30 :: []))))))))))))) :: ((X4f :: (X50 :: (X5f :: (X55 :: (X4e :: (X4b :: (X4e :: (X4f :: (X57 :: (X4e :: (X32 :: (X33 :: (X31 :: []))))))))))))) :: ((X4f :: (X50 :: (X5f :: (X55 :: (X4e :: (X4b :: (X4e :: (X4f :: (X57 :: (X4e :: (X32 :: (X33 :: (X32 :: []))))))))))))) :: ((X4f :: (X50 :: (X5f :: (X55 :: (X4e :: (X4b :: (X4e :: (X4f :: (X57 :: (X4e :: (X32 :: (X33 :: (X33 :: []))))))))))))) :: ((X4f :: (X50 :: (X5f :: (X55 :: (X4e :: (X4b :: (X4e :: (X4f :: (X57 :: (X4e :: (X32 :: (X33 :: (X34 :: []))))))))))))) :: ((X4f :: (X50 :: (X5f :: (X55 :: (X4e :: (X4b :: (X4e :: (X4f :: (X57 :: (X4e :: (X32 :: (X33 :: (X35 :: []))))))))))))) :: ((X4f :: (X50 :: (X5f :: (X55 :: (X4e :: (X4b :: (X4e :: (X4f :: (X57 :: (X4e :: (X32 :: (X33 :: (X36 :: []))))))))))))) :: ((X4f :: (X50 :: (X5f :: (X55 :: (X4e :: (X4b :: (X4e :: (X4f :: (X57 :: (X4e :: (X32 :: (X33 :: (X37 :: []))))))))))))) :: ((X4f :: (X50 :: (X5f :: (X55 :: (X4e :: (X4b :: (X4e :: (X4f :: (X57 :: (X4e :: (X32 :: (X33 :: (X38 :: []))))))))))))) :: ((X4f :: (X50 :: (X5f :: (X55 :: (X4e :: (X4b :: (X4e :: (X4f :: (X57 :: (X4e :: (X32 :: (X33 :: (X39 :: []))))))))))))) :: ((X4f :: (X50 :: (X5f :: (X55 :: (X4e :: (X4b :: (X4e :: (X4f :: (X57 :: (X4e :: (X32 :: (X34 :: (X30 :: []))))))))))))) :: ((X4f :: (X50 :: (X5f :: (X55 :: (X4e :: (X4b :: (X4e :: (X4f :: (X57 :: (X4e :: (X32 :: (X34 :: (X31 :: []))))))))))))) :: ((X4f :: (X50 :: (X5f :: (X55 :: (X4e :: (X4b :: (X4e :: (X4f :: (X57 :: (X4e :: (X32 :: (X34 :: (X32 :: []))))))))))))) :: ((X4f :: (X50 :: (X5f :: (X55 :: (X4e :: (X4b :: (X4e :: (X4f :: (X57 :: (X4e :: (X32 :: (X34 :: (X33 :: []))))))))))))) :: ((X4f :: (X50 :: (X5f :: (X55 :: (X4e :: (X4b :: (X4e :: (X4f :: (X57 :: (X4e :: (X32 :: (X34 :: (X34 :: []))))))))))))) :: ((X4f :: (X50 :: (X5f :: (X55 :: (X4e :: (X4b :: (X4e :: (X4f :: (X57 :: (X4e :: (X32 :: (X34 :: (X35 :: []))))))))))))) :: ((X4f :: (X50 :: (X5f :: (X55 :: (X4e :: (X4b :: (X4e :: (X4f :: (X57 :: (X4e :: (X32 :: (X34 :: (X36 :: []))))))))))))) :: ((X4f :: (X50 :: (X5f :: (X55 :: (X4e :: (X4b :: (X4e :: (X4f :: (X57 :: (X4e :: (X32 :: (X34 :: (X37 :: []))))))))))))) :: ((X4f :: (X50 :: (X5f :: (X55 :: (X4e :: (X4b :: (X4e :: (X4f :: (X57 :: (X4e :: (X32 :: (X34 :: (X38 :: []))))))))))))) :: ((X4f :: (X50 :: (X5f :: (X55 :: (X4e :: (X4b :: (X4e :: (X4f :: (X57 :: (X4e :: (X32 :: (X34 :: (X39 :: []))))))))))))) :: ((X4f :: (X50 :: (X5f :: (X53 :: (X4d :: (X41 :: (X4c :: (X4c :: (X49 :: (X4e :: (X54 :: (X45 :: (X47 :: (X45 :: (X52 :: []))))))))))))))) :: ((X4f :: (X50 :: (X5f :: (X50 :: (X55 :: (X42 :: (X4b :: (X45 :: (X59 :: (X53 :: [])))))))))) :: ((X4f :: (X50 :: (X5f :: (X55 :: (X4e :: (X4b :: (X4e :: (X4f :: (X57 :: (X4e :: (X32 :: (X35 :: (X32 :: []))))))))))))) :: ((X4f :: (X50 :: (X5f :: (X50 :: (X55 :: (X42 :: (X4b :: (X45 :: (X59 :: (X48 :: (X41 :: (X53 :: (X48 :: []))))))))))))) :: ((X4f :: (X50 :: (X5f :: (X50 :: (X55 :: (X42 :: (X4b :: (X45 :: (X59 :: []))))))))) :: ((X4f :: (X50 :: (X5f :: (X49 :: (X4e :: (X56 :: (X41 :: (X4c :: (X49 :: (X44 :: (X4f :: (X50 :: (X43 :: (X4f :: (X44 :: (X45 :: [])))))))))))))))) :: [])))))))))))))))))))))))))))))))))))))))))))))))))))))))))))))))))))))))))))))))))))))))))))))))))))))))))))))))))))))))))))))))))))))))))))))))))))))))))))))))))))))))))))))))))))))))))))))))))))))))))))))))))))))))))))))))))))))))))))))))))))))))))))))))

(** val vs_opname : n -> bytes **)

let vs_opname op0 =
  match nth_error vs_opnames (N.to_nat op0) with
  | Some n0 -> n0
  | None -> []

(** val vs_tokenize : nat -> bytes -> (n * bytes option) list option **)

let rec vs_tokenize fuel s =
  match fuel with
  | O -> None
  | S f ->
    (match s with
     | [] -> Some []
     | b :: r ->
       let op0 = n8 b in
       let push = fun lenlen ->
         match p_le lenlen r with
         | Some p ->
           let (n0, r1) = p in
           if N.leb (Npos (XO (XO (XO (XO (XO (XO (XO (XO (XO (XO (XO (XO (XO
                (XO (XO (XO (XO (XO (XO (XO (XO (XO (XO (XO (XO (XO (XO (XO
                (XO (XO (XO XH)))))))))))))))))))))))))))))))) n0
           then None
           else (match takeN n0 r1 with
                 | Some p0 ->
                   let (d, r2) = p0 in
                   (match vs_tokenize f r2 with
                    | Some ts -> Some ((op0, (Some d)) :: ts)
                    | None -> None)
                 | None -> None)
         | None -> None
       in
       if (&&) (N.leb (Npos XH) op0)
            (N.leb op0 (Npos (XI (XI (XO (XI (XO (XO XH))))))))
       then (match takeN op0 r with
             | Some p ->
               let (d, r2) = p in
               (match vs_tokenize f r2 with
                | Some ts -> Some ((op0, (Some d)) :: ts)
                | None -> None)
             | None -> None)
       else if N.eqb op0 (Npos (XO (XO (XI (XI (XO (XO XH)))))))
            then push (S O)
            else if N.eqb op0 (Npos (XI (XO (XI (XI (XO (XO XH)))))))
                 then push (S (S O))
                 else if N.eqb op0 (Npos (XO (XI (XI (XI (XO (XO XH)))))))
                      then push (S (S (S (S O))))
                      else (match vs_tokenize f r with
                            | Some ts -> Some ((op0, None) :: ts)
                            | None -> None))

(** val vs_script_tokens : bytes -> (n * bytes option) list option **)

let vs_script_tokens s =
  vs_tokenize (S (length s)) s

(** val vs_token_text : (n * bytes option) -> bytes **)

let vs_token_text t =
  match snd t with
  | Some d -> to_hex d
  | None -> vs_opname (fst t)

(** val vs_join : bytes list -> bytes **)

let rec vs_join = function
| [] -> []
| t :: r -> (match r with
             | [] -> t
             | _ :: _ -> app t (X20 :: (vs_join r)))

(** val vs_disasm : bytes -> bytes option **)

let vs_disasm s =
  match vs_script_tokens s with
  | Some ts -> Some (vs_join (map vs_token_text ts))
  | None -> None

type vstype =
| StP2WPKH
| StP2WSH
| StP2TR
| StP2SH
| StP2PKH
| StOther

(** val vs_script_type : bytes -> vstype **)

let vs_script_type s = match s with
| [] -> StOther
| b :: _ ->
  let n0 = n8 b in
  if N.eqb n0 N0
  then if Nat.eqb (length s) (S (S (S (S (S (S (S (S (S (S (S (S (S (S (S (S
            (S (S (S (S (S (S O))))))))))))))))))))))
       then StP2WPKH
       else StP2WSH
  else if N.eqb n0 (Npos (XI (XO (XO (XO (XI (XO XH)))))))
       then StP2TR
       else if N.eqb n0 (Npos (XI (XO (XO (XI (XO (XI (XO XH))))))))
            then StP2SH
            else if N.eqb n0 (Npos (XO (XI (XI (XO (XI (XI XH)))))))
                 then StP2PKH
                 else StOther

(** val vs_p2pkh_code : bytes -> bytes **)

let vs_p2pkh_code h =
  app (X76 :: (Xa9 :: [])) ((b8 (lenN h)) :: (app h (X88 :: (Xac :: []))))

type vsig = { svg_pub : bytes option; svg_sig : bytes }

type vinput = { svi_nonwit : tx option; svi_wit : txout option;
                svi_redeem : bytes option; svi_witscript : bytes option;
                svi_sigs : vsig option list; svi_prev_txid : bytes;
                svi_prev_index : n }

type vpacket = { svp_tx : tx; svp_ins : vinput list }

type vver =
| VsV0
| VsV2

type valgo =
| VLegacy
| VSegwitV0

(** val vs_opt : bytes option -> bytes **)

let vs_opt = function
| Some b -> b
| None -> []

(** val vs_p2sh_prog : bytes -> bytes option **)

let vs_p2sh_prog = function
| [] -> None
| a :: l ->
  (match l with
   | [] -> None
   | b :: r ->
     if (&&)
          ((&&)
            ((&&) (N.eqb (n8 a) (Npos (XI (XO (XO (XI (XO (XI (XO XH)))))))))
              (N.eqb (n8 b) (Npos (XO (XO (XI (XO XH)))))))
            (Nat.eqb (length r) (S (S (S (S (S (S (S (S (S (S (S (S (S (S (S
              (S (S (S (S (S (S O)))))))))))))))))))))))
          (bytes_eqb
            (skipn (S (S (S (S (S (S (S (S (S (S (S (S (S (S (S (S (S (S (S
              (S O)))))))))))))))))))) r) (X87 :: []))
     then Some
            (firstn (S (S (S (S (S (S (S (S (S (S (S (S (S (S (S (S (S (S (S
              (S O)))))))))))))))))))) r)
     else None)

(** val vs_p2wsh_prog : bytes -> bytes option **)

let vs_p2wsh_prog = function
| [] -> None
| a :: l ->
  (match l with
   | [] -> None
   | b :: r ->
     if (&&)
          ((&&) (N.eqb (n8 a) N0)
            (N.eqb (n8 b) (Npos (XO (XO (XO (XO (XO XH))))))))
          (Nat.eqb (length r) (S (S (S (S (S (S (S (S (S (S (S (S (S (S (S (S
            (S (S (S (S (S (S (S (S (S (S (S (S (S (S (S (S
            O)))))))))))))))))))))))))))))))))
     then Some r
     else None)

(** val vs_is_witness_of : bytes -> bytes -> bool **)

let vs_is_witness_of ws program =
  match vs_p2wsh_prog program with
  | Some prog -> bytes_eqb (sha256 ws) prog
  | None -> false

(** val vs_outpoint : vver -> vpacket -> nat -> vinput -> (bytes * n) vres **)

let vs_outpoint v p i inp =
  match v with
  | VsV0 ->
    (match nth_error p.svp_tx.t_ins i with
     | Some ti -> VOk (ti.in_hash, ti.in_index)
     | None -> VPanic VPTxInputIndex)
  | VsV2 -> VOk (inp.svi_prev_txid, inp.svi_prev_index)

(** val vs_prev_id_ok : bytes -> bytes -> bool **)

let vs_prev_id_ok =
  bytes_eqb

(** val vs_is_redeem_of : (bytes -> bytes) -> bytes -> bytes -> bool **)

let vs_is_redeem_of hash161 redeem spent0 =
  match vs_p2sh_prog spent0 with
  | Some prog -> bytes_eqb (hash161 redeem) prog
  | None -> false

(** val vs_pick_script : (bytes -> bytes) -> vinput -> bytes -> bytes vres **)

let vs_pick_script hash161 inp spent0 =
  match inp.svi_redeem with
  | Some r -> if vs_is_redeem_of hash161 r spent0 then VOk r else VErr
  | None -> VOk spent0

(** val vs_digest_v0 :
    (valgo -> tx -> nat -> bytes -> bytes -> n -> bytes) -> vpacket -> nat ->
    bytes -> bytes -> n -> bytes vres **)

let vs_digest_v0 digest p i script0 amount ht =
  if Nat.ltb i (length p.svp_tx.t_ins)
  then VOk (digest VSegwitV0 p.svp_tx i script0 amount ht)
  else VPanic VPDigestIndex

(** val vs_hash_and_script :
    (valgo -> tx -> nat -> bytes -> bytes -> n -> bytes) -> (bytes -> bytes)
    -> vver -> vpacket -> nat -> vinput -> n -> (bytes * bytes) vres **)

let vs_hash_and_script digest hash161 v p i inp ht =
  match inp.svi_nonwit with
  | Some prev ->
    vbind (vs_outpoint v p i inp) (fun op0 ->
      if negb (vs_prev_id_ok (fst op0) (txid prev))
      then VErr
      else if N.leb (lenL prev.t_outs) (snd op0)
           then VErr
           else (match nth_error prev.t_outs (N.to_nat (snd op0)) with
                 | Some prevout ->
                   vbind (vs_pick_script hash161 inp prevout.o_script)
                     (fun script0 ->
                     match vs_script_type script0 with
                     | StP2WPKH ->
                       vbind
                         (vs_digest_v0 digest p i
                           (vs_p2pkh_code (skipn (S (S O)) script0))
                           prevout.o_value ht) (fun d -> VOk (d, script0))
                     | StP2WSH ->
                       (match inp.svi_witscript with
                        | Some ws ->
                          if negb (vs_is_witness_of ws script0)
                          then VErr
                          else vbind
                                 (vs_digest_v0 digest p i ws prevout.o_value
                                   ht) (fun d -> VOk (d, ws))
                        | None -> VErr)
                     | StP2TR ->
                       VOk ((digest VLegacy p.svp_tx i script0 [] ht),
                         script0)
                     | StP2SH ->
                       VOk ((digest VLegacy p.svp_tx i script0 [] ht),
                         script0)
                     | StP2PKH ->
                       VOk ((digest VLegacy p.svp_tx i script0 [] ht),
                         script0)
                     | StOther ->
                       VOk ((digest VLegacy p.svp_tx i script0 [] ht),
                         script0))
                 | None -> VErr))
  | None ->
    (match inp.svi_wit with
     | Some w ->
       vbind (vs_pick_script hash161 inp w.o_script) (fun script0 ->
         match vs_script_type script0 with
         | StP2WPKH ->
           vbind
             (vs_digest_v0 digest p i
               (vs_p2pkh_code (skipn (S (S O)) script0)) w.o_value ht)
             (fun d -> VOk (d, script0))
         | StP2WSH ->
           let ws = vs_opt inp.svi_witscript in
           if negb (vs_is_witness_of ws script0)
           then VErr
           else vbind (vs_digest_v0 digest p i ws w.o_value ht) (fun d -> VOk
                  (d, ws))
         | _ -> VErr)
     | None -> VErr)

(** val vs_key_in_pushes :
    (bytes -> bytes) -> bytes -> bytes -> (n * bytes option) list -> bool **)

let vs_key_in_pushes hash161 ck pub ts =
  existsb (fun t ->
    match snd t with
    | Some d -> (||) (bytes_eqb d ck) (bytes_eqb d (hash161 pub))
    | None -> false) ts

(** val vs_verify_script :
    (bytes -> bytes option) -> (bytes -> bytes) -> bytes -> bytes -> bool vres **)

let vs_verify_script parse_pk hash161 script0 pub =
  match parse_pk pub with
  | Some ck ->
    (match vs_script_tokens script0 with
     | Some ts -> VOk (vs_key_in_pushes hash161 ck pub ts)
     | None -> VErr)
  | None -> VErr

(** val vs_pub_missing : vver -> vsig -> bool **)

let vs_pub_missing v s =
  match s.svg_pub with
  | Some b ->
    (match b with
     | [] -> (match v with
              | VsV0 -> false
              | VsV2 -> true)
     | _ :: _ -> false)
  | None -> true

(** val vs_validate_sig :
    (valgo -> tx -> nat -> bytes -> bytes -> n -> bytes) -> (bytes -> bytes
    option) -> (bytes -> bool) -> (bytes -> bytes -> bytes -> bool) -> (bytes
    -> bytes) -> vver -> vpacket -> nat -> vinput -> vsig option -> bool vres **)

let vs_validate_sig digest parse_pk der_ok verify hash161 v p i inp = function
| Some s ->
  if vs_pub_missing v s
  then VErr
  else let pub = vs_opt s.svg_pub in
       (match rev s.svg_sig with
        | [] -> VErr
        | last :: rder ->
          let ht = n8 last in
          let der = rev rder in
          vbind (vs_hash_and_script digest hash161 v p i inp ht) (fun hs ->
            vbind (vs_verify_script parse_pk hash161 (snd hs) pub)
              (fun inscript ->
              if negb inscript
              then VOk false
              else if negb (der_ok der)
                   then VOk false
                   else (match parse_pk pub with
                         | Some ck -> VOk (verify ck (fst hs) der)
                         | None -> VOk false))))
| None -> VPanic VPSigNil

(** val vs_validate_sigs :
    (valgo -> tx -> nat -> bytes -> bytes -> n -> bytes) -> (bytes -> bytes
    option) -> (bytes -> bool) -> (bytes -> bytes -> bytes -> bool) -> (bytes
    -> bytes) -> vver -> vpacket -> nat -> vinput -> vsig option list -> bool
    vres **)

let rec vs_validate_sigs digest parse_pk der_ok verify hash161 v p i inp = function
| [] -> VOk true
| s :: r ->
  (match vs_validate_sig digest parse_pk der_ok verify hash161 v p i inp s with
   | VOk a ->
     if a
     then vs_validate_sigs digest parse_pk der_ok verify hash161 v p i inp r
     else VOk false
   | x -> x)

(** val vs_validate_input :
    (valgo -> tx -> nat -> bytes -> bytes -> n -> bytes) -> (bytes -> bytes
    option) -> (bytes -> bool) -> (bytes -> bytes -> bytes -> bool) -> (bytes
    -> bytes) -> vver -> vpacket -> nat -> bool vres **)

let vs_validate_input digest parse_pk der_ok verify hash161 v p i =
  match nth_error p.svp_ins i with
  | Some inp ->
    (match inp.svi_sigs with
     | [] -> VOk false
     | _ :: _ ->
       vs_validate_sigs digest parse_pk der_ok verify hash161 v p i inp
         inp.svi_sigs)
  | None -> VPanic VPInputIndex

(** val vs_validate_from :
    (valgo -> tx -> nat -> bytes -> bytes -> n -> bytes) -> (bytes -> bytes
    option) -> (bytes -> bool) -> (bytes -> bytes -> bytes -> bool) -> (bytes
    -> bytes) -> vver -> vpacket -> nat -> nat -> bool vres **)

let rec vs_validate_from digest parse_pk der_ok verify hash161 v p k = function
| O -> VOk true
| S n' ->
  (match vs_validate_input digest parse_pk der_ok verify hash161 v p k with
   | VOk a ->
     if a
     then vs_validate_from digest parse_pk der_ok verify hash161 v p (S k) n'
     else VOk false
   | x -> x)

(** val vs_validate_all :
    (valgo -> tx -> nat -> bytes -> bytes -> n -> bytes) -> (bytes -> bytes
    option) -> (bytes -> bool) -> (bytes -> bytes -> bytes -> bool) -> (bytes
    -> bytes) -> vver -> vpacket -> bool vres **)

let vs_validate_all digest parse_pk der_ok verify hash161 v p =
  vs_validate_from digest parse_pk der_ok verify hash161 v p O
    (length p.svp_ins)

module R11 =
 struct
  type script =
  | SEmpty
  | SPkh of n
  | SWpkh of n
  | SMs of n
  | STr
  | SJunk
  | SSh of script
  | SWsh of script

  (** val script_eqb : script -> script -> bool **)

  let rec script_eqb a b =
    match a with
    | SEmpty -> (match b with
                 | SEmpty -> true
                 | _ -> false)
    | SPkh x -> (match b with
                 | SPkh y -> N.eqb x y
                 | _ -> false)
    | SWpkh x -> (match b with
                  | SWpkh y -> N.eqb x y
                  | _ -> false)
    | SMs x -> (match b with
                | SMs y -> N.eqb x y
                | _ -> false)
    | STr -> (match b with
              | STr -> true
              | _ -> false)
    | SJunk -> (match b with
                | SJunk -> true
                | _ -> false)
    | SSh x -> (match b with
                | SSh y -> script_eqb x y
                | _ -> false)
    | SWsh x -> (match b with
                 | SWsh y -> script_eqb x y
                 | _ -> false)

  (** val is_witness_program : script -> bool **)

  let is_witness_program = function
  | SWpkh _ -> true
  | STr -> true
  | SWsh _ -> true
  | _ -> false

  (** val is_p2wsh : script -> bool **)

  let is_p2wsh = function
  | SWsh _ -> true
  | _ -> false

  (** val is_p2wpkh : script -> bool **)

  let is_p2wpkh = function
  | SWpkh _ -> true
  | _ -> false

  (** val is_p2tr : script -> bool **)

  let is_p2tr = function
  | STr -> true
  | _ -> false

  (** val is_p2sh : script -> bool **)

  let is_p2sh = function
  | SSh _ -> true
  | _ -> false

  (** val parse_ok : script -> bool **)

  let parse_ok = function
  | SJunk -> false
  | _ -> true

  (** val nonempty : script option -> bool **)

  let nonempty = function
  | Some s -> (match s with
               | SEmpty -> false
               | _ -> true)
  | None -> false

  (** val non_nil : script option -> bool **)

  let non_nil = function
  | Some _ -> true
  | None -> false

  (** val or_empty : script option -> script **)

  let or_empty = function
  | Some s -> s
  | None -> SEmpty

  (** val prevouts : script list **)

  let prevouts =
    (SWpkh N0) :: ((SPkh N0) :: ((SSh (SWpkh N0)) :: ((SWsh (SMs (Npos (XO
      XH)))) :: ((SSh (SMs (Npos XH))) :: (STr :: [])))))

  type utxo = { u_script : script; u_conf : bool }

  (** val u_script : utxo -> script **)

  let u_script u =
    u.u_script

  (** val u_conf : utxo -> bool **)

  let u_conf u =
    u.u_conf

  type tss = { ts_pk : n; ts_pklen : n; ts_siglen : n; ts_leaf : n;
               ts_lhlen : n }

  (** val ts_pk : tss -> n **)

  let ts_pk t =
    t.ts_pk

  (** val ts_pklen : tss -> n **)

  let ts_pklen t =
    t.ts_pklen

  (** val ts_siglen : tss -> n **)

  let ts_siglen t =
    t.ts_siglen

  (** val ts_leaf : tss -> n **)

  let ts_leaf t =
    t.ts_leaf

  (** val ts_lhlen : tss -> n **)

  let ts_lhlen t =
    t.ts_lhlen

  type tbd = { tb_key : n; tb_nh : n; tb_hlen : n; tb_path : bool }

  (** val tb_key : tbd -> n **)

  let tb_key t =
    t.tb_key

  (** val tb_nh : tbd -> n **)

  let tb_nh t =
    t.tb_nh

  (** val tb_hlen : tbd -> n **)

  let tb_hlen t =
    t.tb_hlen

  type core = { c_t : n; c_short : bool; c_idx : n; c_seq : n; c_time : 
                n; c_height : n }

  (** val c_t : core -> n **)

  let c_t c =
    c.c_t

  (** val c_short : core -> bool **)

  let c_short c =
    c.c_short

  (** val c_idx : core -> n **)

  let c_idx c =
    c.c_idx

  (** val c_time : core -> n **)

  let c_time c =
    c.c_time

  (** val c_height : core -> n **)

  let c_height c =
    c.c_height

  type aux = { a_nw : bool; a_nwrp : bool; a_w : utxo option;
               a_psigs : (n * n) list; a_sighash : n;
               a_redeem : script option; a_wscript : script option;
               a_bip32 : (n * bool) list; a_fss : bool; a_fsw : bool;
               a_issval : n; a_isskeys : n; a_entropy : bool; a_nonce : 
               bool; a_blindediss : bool option; a_issblind : bool;
               a_urp : bool; a_expval : n; a_valproof : bool; a_expasset : 
               n; a_assetproof : bool; a_tapkeysig : n; a_tapss : tss list;
               a_tapleaves : n list; a_tapbip32 : tbd list; a_tapik : 
               n; a_tapmr : n }

  (** val a_nw : aux -> bool **)

  let a_nw a =
    a.a_nw

  (** val a_nwrp : aux -> bool **)

  let a_nwrp a =
    a.a_nwrp

  (** val a_w : aux -> utxo option **)

  let a_w a =
    a.a_w

  (** val a_psigs : aux -> (n * n) list **)

  let a_psigs a =
    a.a_psigs

  (** val a_sighash : aux -> n **)

  let a_sighash a =
    a.a_sighash

  (** val a_redeem : aux -> script option **)

  let a_redeem a =
    a.a_redeem

  (** val a_wscript : aux -> script option **)

  let a_wscript a =
    a.a_wscript

  (** val a_bip32 : aux -> (n * bool) list **)

  let a_bip32 a =
    a.a_bip32

  (** val a_fss : aux -> bool **)

  let a_fss a =
    a.a_fss

  (** val a_fsw : aux -> bool **)

  let a_fsw a =
    a.a_fsw

  (** val a_issval : aux -> n **)

  let a_issval a =
    a.a_issval

  (** val a_isskeys : aux -> n **)

  let a_isskeys a =
    a.a_isskeys

  (** val a_entropy : aux -> bool **)

  let a_entropy a =
    a.a_entropy

  (** val a_nonce : aux -> bool **)

  let a_nonce a =
    a.a_nonce

  (** val a_blindediss : aux -> bool option **)

  let a_blindediss a =
    a.a_blindediss

  (** val a_issblind : aux -> bool **)

  let a_issblind a =
    a.a_issblind

  (** val a_urp : aux -> bool **)

  let a_urp a =
    a.a_urp

  (** val a_expval : aux -> n **)

  let a_expval a =
    a.a_expval

  (** val a_valproof : aux -> bool **)

  let a_valproof a =
    a.a_valproof

  (** val a_expasset : aux -> n **)

  let a_expasset a =
    a.a_expasset

  (** val a_assetproof : aux -> bool **)

  let a_assetproof a =
    a.a_assetproof

  (** val a_tapkeysig : aux -> n **)

  let a_tapkeysig a =
    a.a_tapkeysig

  (** val a_tapss : aux -> tss list **)

  let a_tapss a =
    a.a_tapss

  (** val a_tapleaves : aux -> n list **)

  let a_tapleaves a =
    a.a_tapleaves

  (** val a_tapbip32 : aux -> tbd list **)

  let a_tapbip32 a =
    a.a_tapbip32

  (** val a_tapik : aux -> n **)

  let a_tapik a =
    a.a_tapik

  (** val a_tapmr : aux -> n **)

  let a_tapmr a =
    a.a_tapmr

  (** val set_a_nw : bool -> aux -> aux **)

  let set_a_nw v x =
    { a_nw = v; a_nwrp = x.a_nwrp; a_w = x.a_w; a_psigs = x.a_psigs;
      a_sighash = x.a_sighash; a_redeem = x.a_redeem; a_wscript =
      x.a_wscript; a_bip32 = x.a_bip32; a_fss = x.a_fss; a_fsw = x.a_fsw;
      a_issval = x.a_issval; a_isskeys = x.a_isskeys; a_entropy =
      x.a_entropy; a_nonce = x.a_nonce; a_blindediss = x.a_blindediss;
      a_issblind = x.a_issblind; a_urp = x.a_urp; a_expval = x.a_expval;
      a_valproof = x.a_valproof; a_expasset = x.a_expasset; a_assetproof =
      x.a_assetproof; a_tapkeysig = x.a_tapkeysig; a_tapss = x.a_tapss;
      a_tapleaves = x.a_tapleaves; a_tapbip32 = x.a_tapbip32; a_tapik =
      x.a_tapik; a_tapmr = x.a_tapmr }

  (** val set_a_nwrp : bool -> aux -> aux **)

  let set_a_nwrp v x =
    { a_nw = x.a_nw; a_nwrp = v; a_w = x.a_w; a_psigs = x.a_psigs;
      a_sighash = x.a_sighash; a_redeem = x.a_redeem; a_wscript =
      x.a_wscript; a_bip32 = x.a_bip32; a_fss = x.a_fss; a_fsw = x.a_fsw;
      a_issval = x.a_issval; a_isskeys = x.a_isskeys; a_entropy =
      x.a_entropy; a_nonce = x.a_nonce; a_blindediss = x.a_blindediss;
      a_issblind = x.a_issblind; a_urp = x.a_urp; a_expval = x.a_expval;
      a_valproof = x.a_valproof; a_expasset = x.a_expasset; a_assetproof =
      x.a_assetproof; a_tapkeysig = x.a_tapkeysig; a_tapss = x.a_tapss;
      a_tapleaves = x.a_tapleaves; a_tapbip32 = x.a_tapbip32; a_tapik =
      x.a_tapik; a_tapmr = x.a_tapmr }

  (** val set_a_w : utxo option -> aux -> aux **)

  let set_a_w v x =
    { a_nw = x.a_nw; a_nwrp = x.a_nwrp; a_w = v; a_psigs = x.a_psigs;
      a_sighash = x.a_sighash; a_redeem = x.a_redeem; a_wscript =
      x.a_wscript; a_bip32 = x.a_bip32; a_fss = x.a_fss; a_fsw = x.a_fsw;
      a_issval = x.a_issval; a_isskeys = x.a_isskeys; a_entropy =
      x.a_entropy; a_nonce = x.a_nonce; a_blindediss = x.a_blindediss;
      a_issblind = x.a_issblind; a_urp = x.a_urp; a_expval = x.a_expval;
      a_valproof = x.a_valproof; a_expasset = x.a_expasset; a_assetproof =
      x.a_assetproof; a_tapkeysig = x.a_tapkeysig; a_tapss = x.a_tapss;
      a_tapleaves = x.a_tapleaves; a_tapbip32 = x.a_tapbip32; a_tapik =
      x.a_tapik; a_tapmr = x.a_tapmr }

  (** val set_a_psigs : (n * n) list -> aux -> aux **)

  let set_a_psigs v x =
    { a_nw = x.a_nw; a_nwrp = x.a_nwrp; a_w = x.a_w; a_psigs = v; a_sighash =
      x.a_sighash; a_redeem = x.a_redeem; a_wscript = x.a_wscript; a_bip32 =
      x.a_bip32; a_fss = x.a_fss; a_fsw = x.a_fsw; a_issval = x.a_issval;
      a_isskeys = x.a_isskeys; a_entropy = x.a_entropy; a_nonce = x.a_nonce;
      a_blindediss = x.a_blindediss; a_issblind = x.a_issblind; a_urp =
      x.a_urp; a_expval = x.a_expval; a_valproof = x.a_valproof; a_expasset =
      x.a_expasset; a_assetproof = x.a_assetproof; a_tapkeysig =
      x.a_tapkeysig; a_tapss = x.a_tapss; a_tapleaves = x.a_tapleaves;
      a_tapbip32 = x.a_tapbip32; a_tapik = x.a_tapik; a_tapmr = x.a_tapmr }

  (** val set_a_sighash : n -> aux -> aux **)

  let set_a_sighash v x =
    { a_nw = x.a_nw; a_nwrp = x.a_nwrp; a_w = x.a_w; a_psigs = x.a_psigs;
      a_sighash = v; a_redeem = x.a_redeem; a_wscript = x.a_wscript;
      a_bip32 = x.a_bip32; a_fss = x.a_fss; a_fsw = x.a_fsw; a_issval =
      x.a_issval; a_isskeys = x.a_isskeys; a_entropy = x.a_entropy; a_nonce =
      x.a_nonce; a_blindediss = x.a_blindediss; a_issblind = x.a_issblind;
      a_urp = x.a_urp; a_expval = x.a_expval; a_valproof = x.a_valproof;
      a_expasset = x.a_expasset; a_assetproof = x.a_assetproof; a_tapkeysig =
      x.a_tapkeysig; a_tapss = x.a_tapss; a_tapleaves = x.a_tapleaves;
      a_tapbip32 = x.a_tapbip32; a_tapik = x.a_tapik; a_tapmr = x.a_tapmr }

  (** val set_a_redeem : script option -> aux -> aux **)

  let set_a_redeem v x =
    { a_nw = x.a_nw; a_nwrp = x.a_nwrp; a_w = x.a_w; a_psigs = x.a_psigs;
      a_sighash = x.a_sighash; a_redeem = v; a_wscript = x.a_wscript;
      a_bip32 = x.a_bip32; a_fss = x.a_fss; a_fsw = x.a_fsw; a_issval =
      x.a_issval; a_isskeys = x.a_isskeys; a_entropy = x.a_entropy; a_nonce =
      x.a_nonce; a_blindediss = x.a_blindediss; a_issblind = x.a_issblind;
      a_urp = x.a_urp; a_expval = x.a_expval; a_valproof = x.a_valproof;
      a_expasset = x.a_expasset; a_assetproof = x.a_assetproof; a_tapkeysig =
      x.a_tapkeysig; a_tapss = x.a_tapss; a_tapleaves = x.a_tapleaves;
      a_tapbip32 = x.a_tapbip32; a_tapik = x.a_tapik; a_tapmr = x.a_tapmr }

  (** val set_a_wscript : script option -> aux -> aux **)

  let set_a_wscript v x =
    { a_nw = x.a_nw; a_nwrp = x.a_nwrp; a_w = x.a_w; a_psigs = x.a_psigs;
      a_sighash = x.a_sighash; a_redeem = x.a_redeem; a_wscript = v;
      a_bip32 = x.a_bip32; a_fss = x.a_fss; a_fsw = x.a_fsw; a_issval =
      x.a_issval; a_isskeys = x.a_isskeys; a_entropy = x.a_entropy; a_nonce =
      x.a_nonce; a_blindediss = x.a_blindediss; a_issblind = x.a_issblind;
      a_urp = x.a_urp; a_expval = x.a_expval; a_valproof = x.a_valproof;
      a_expasset = x.a_expasset; a_assetproof = x.a_assetproof; a_tapkeysig =
      x.a_tapkeysig; a_tapss = x.a_tapss; a_tapleaves = x.a_tapleaves;
      a_tapbip32 = x.a_tapbip32; a_tapik = x.a_tapik; a_tapmr = x.a_tapmr }

  (** val set_a_bip32 : (n * bool) list -> aux -> aux **)

  let set_a_bip32 v x =
    { a_nw = x.a_nw; a_nwrp = x.a_nwrp; a_w = x.a_w; a_psigs = x.a_psigs;
      a_sighash = x.a_sighash; a_redeem = x.a_redeem; a_wscript =
      x.a_wscript; a_bip32 = v; a_fss = x.a_fss; a_fsw = x.a_fsw; a_issval =
      x.a_issval; a_isskeys = x.a_isskeys; a_entropy = x.a_entropy; a_nonce =
      x.a_nonce; a_blindediss = x.a_blindediss; a_issblind = x.a_issblind;
      a_urp = x.a_urp; a_expval = x.a_expval; a_valproof = x.a_valproof;
      a_expasset = x.a_expasset; a_assetproof = x.a_assetproof; a_tapkeysig =
      x.a_tapkeysig; a_tapss = x.a_tapss; a_tapleaves = x.a_tapleaves;
      a_tapbip32 = x.a_tapbip32; a_tapik = x.a_tapik; a_tapmr = x.a_tapmr }

  (** val set_a_fss : bool -> aux -> aux **)

  let set_a_fss v x =
    { a_nw = x.a_nw; a_nwrp = x.a_nwrp; a_w = x.a_w; a_psigs = x.a_psigs;
      a_sighash = x.a_sighash; a_redeem = x.a_redeem; a_wscript =
      x.a_wscript; a_bip32 = x.a_bip32; a_fss = v; a_fsw = x.a_fsw;
      a_issval = x.a_issval; a_isskeys = x.a_isskeys; a_entropy =
      x.a_entropy; a_nonce = x.a_nonce; a_blindediss = x.a_blindediss;
      a_issblind = x.a_issblind; a_urp = x.a_urp; a_expval = x.a_expval;
      a_valproof = x.a_valproof; a_expasset = x.a_expasset; a_assetproof =
      x.a_assetproof; a_tapkeysig = x.a_tapkeysig; a_tapss = x.a_tapss;
      a_tapleaves = x.a_tapleaves; a_tapbip32 = x.a_tapbip32; a_tapik =
      x.a_tapik; a_tapmr = x.a_tapmr }

  (** val set_a_fsw : bool -> aux -> aux **)

  let set_a_fsw v x =
    { a_nw = x.a_nw; a_nwrp = x.a_nwrp; a_w = x.a_w; a_psigs = x.a_psigs;
      a_sighash = x.a_sighash; a_redeem = x.a_redeem; a_wscript =
      x.a_wscript; a_bip32 = x.a_bip32; a_fss = x.a_fss; a_fsw = v;
      a_issval = x.a_issval; a_isskeys = x.a_isskeys; a_entropy =
      x.a_entropy; a_nonce = x.a_nonce; a_blindediss = x.a_blindediss;
      a_issblind = x.a_issblind; a_urp = x.a_urp; a_expval = x.a_expval;
      a_valproof = x.a_valproof; a_expasset = x.a_expasset; a_assetproof =
      x.a_assetproof; a_tapkeysig = x.a_tapkeysig; a_tapss = x.a_tapss;
      a_tapleaves = x.a_tapleaves; a_tapbip32 = x.a_tapbip32; a_tapik =
      x.a_tapik; a_tapmr = x.a_tapmr }

  (** val set_a_issval : n -> aux -> aux **)

  let set_a_issval v x =
    { a_nw = x.a_nw; a_nwrp = x.a_nwrp; a_w = x.a_w; a_psigs = x.a_psigs;
      a_sighash = x.a_sighash; a_redeem = x.a_redeem; a_wscript =
      x.a_wscript; a_bip32 = x.a_bip32; a_fss = x.a_fss; a_fsw = x.a_fsw;
      a_issval = v; a_isskeys = x.a_isskeys; a_entropy = x.a_entropy;
      a_nonce = x.a_nonce; a_blindediss = x.a_blindediss; a_issblind =
      x.a_issblind; a_urp = x.a_urp; a_expval = x.a_expval; a_valproof =
      x.a_valproof; a_expasset = x.a_expasset; a_assetproof = x.a_assetproof;
      a_tapkeysig = x.a_tapkeysig; a_tapss = x.a_tapss; a_tapleaves =
      x.a_tapleaves; a_tapbip32 = x.a_tapbip32; a_tapik = x.a_tapik;
      a_tapmr = x.a_tapmr }

  (** val set_a_isskeys : n -> aux -> aux **)

  let set_a_isskeys v x =
    { a_nw = x.a_nw; a_nwrp = x.a_nwrp; a_w = x.a_w; a_psigs = x.a_psigs;
      a_sighash = x.a_sighash; a_redeem = x.a_redeem; a_wscript =
      x.a_wscript; a_bip32 = x.a_bip32; a_fss = x.a_fss; a_fsw = x.a_fsw;
      a_issval = x.a_issval; a_isskeys = v; a_entropy = x.a_entropy;
      a_nonce = x.a_nonce; a_blindediss = x.a_blindediss; a_issblind =
      x.a_issblind; a_urp = x.a_urp; a_expval = x.a_expval; a_valproof =
      x.a_valproof; a_expasset = x.a_expasset; a_assetproof = x.a_assetproof;
      a_tapkeysig = x.a_tapkeysig; a_tapss = x.a_tapss; a_tapleaves =
      x.a_tapleaves; a_tapbip32 = x.a_tapbip32; a_tapik = x.a_tapik;
      a_tapmr = x.a_tapmr }

  (** val set_a_entropy : bool -> aux -> aux **)

  let set_a_entropy v x =
    { a_nw = x.a_nw; a_nwrp = x.a_nwrp; a_w = x.a_w; a_psigs = x.a_psigs;
      a_sighash = x.a_sighash; a_redeem = x.a_redeem; a_wscript =
      x.a_wscript; a_bip32 = x.a_bip32; a_fss = x.a_fss; a_fsw = x.a_fsw;
      a_issval = x.a_issval; a_isskeys = x.a_isskeys; a_entropy = v;
      a_nonce = x.a_nonce; a_blindediss = x.a_blindediss; a_issblind =
      x.a_issblind; a_urp = x.a_urp; a_expval = x.a_expval; a_valproof =
      x.a_valproof; a_expasset = x.a_expasset; a_assetproof = x.a_assetproof;
      a_tapkeysig = x.a_tapkeysig; a_tapss = x.a_tapss; a_tapleaves =
      x.a_tapleaves; a_tapbip32 = x.a_tapbip32; a_tapik = x.a_tapik;
      a_tapmr = x.a_tapmr }

  (** val set_a_nonce : bool -> aux -> aux **)

  let set_a_nonce v x =
    { a_nw = x.a_nw; a_nwrp = x.a_nwrp; a_w = x.a_w; a_psigs = x.a_psigs;
      a_sighash = x.a_sighash; a_redeem = x.a_redeem; a_wscript =
      x.a_wscript; a_bip32 = x.a_bip32; a_fss = x.a_fss; a_fsw = x.a_fsw;
      a_issval = x.a_issval; a_isskeys = x.a_isskeys; a_entropy =
      x.a_entropy; a_nonce = v; a_blindediss = x.a_blindediss; a_issblind =
      x.a_issblind; a_urp = x.a_urp; a_expval = x.a_expval; a_valproof =
      x.a_valproof; a_expasset = x.a_expasset; a_assetproof = x.a_assetproof;
      a_tapkeysig = x.a_tapkeysig; a_tapss = x.a_tapss; a_tapleaves =
      x.a_tapleaves; a_tapbip32 = x.a_tapbip32; a_tapik = x.a_tapik;
      a_tapmr = x.a_tapmr }

  (** val set_a_blindediss : bool option -> aux -> aux **)

  let set_a_blindediss v x =
    { a_nw = x.a_nw; a_nwrp = x.a_nwrp; a_w = x.a_w; a_psigs = x.a_psigs;
      a_sighash = x.a_sighash; a_redeem = x.a_redeem; a_wscript =
      x.a_wscript; a_bip32 = x.a_bip32; a_fss = x.a_fss; a_fsw = x.a_fsw;
      a_issval = x.a_issval; a_isskeys = x.a_isskeys; a_entropy =
      x.a_entropy; a_nonce = x.a_nonce; a_blindediss = v; a_issblind =
      x.a_issblind; a_urp = x.a_urp; a_expval = x.a_expval; a_valproof =
      x.a_valproof; a_expasset = x.a_expasset; a_assetproof = x.a_assetproof;
      a_tapkeysig = x.a_tapkeysig; a_tapss = x.a_tapss; a_tapleaves =
      x.a_tapleaves; a_tapbip32 = x.a_tapbip32; a_tapik = x.a_tapik;
      a_tapmr = x.a_tapmr }

  (** val set_a_issblind : bool -> aux -> aux **)

  let set_a_issblind v x =
    { a_nw = x.a_nw; a_nwrp = x.a_nwrp; a_w = x.a_w; a_psigs = x.a_psigs;
      a_sighash = x.a_sighash; a_redeem = x.a_redeem; a_wscript =
      x.a_wscript; a_bip32 = x.a_bip32; a_fss = x.a_fss; a_fsw = x.a_fsw;
      a_issval = x.a_issval; a_isskeys = x.a_isskeys; a_entropy =
      x.a_entropy; a_nonce = x.a_nonce; a_blindediss = x.a_blindediss;
      a_issblind = v; a_urp = x.a_urp; a_expval = x.a_expval; a_valproof =
      x.a_valproof; a_expasset = x.a_expasset; a_assetproof = x.a_assetproof;
      a_tapkeysig = x.a_tapkeysig; a_tapss = x.a_tapss; a_tapleaves =
      x.a_tapleaves; a_tapbip32 = x.a_tapbip32; a_tapik = x.a_tapik;
      a_tapmr = x.a_tapmr }

  (** val set_a_urp : bool -> aux -> aux **)

  let set_a_urp v x =
    { a_nw = x.a_nw; a_nwrp = x.a_nwrp; a_w = x.a_w; a_psigs = x.a_psigs;
      a_sighash = x.a_sighash; a_redeem = x.a_redeem; a_wscript =
      x.a_wscript; a_bip32 = x.a_bip32; a_fss = x.a_fss; a_fsw = x.a_fsw;
      a_issval = x.a_issval; a_isskeys = x.a_isskeys; a_entropy =
      x.a_entropy; a_nonce = x.a_nonce; a_blindediss = x.a_blindediss;
      a_issblind = x.a_issblind; a_urp = v; a_expval = x.a_expval;
      a_valproof = x.a_valproof; a_expasset = x.a_expasset; a_assetproof =
      x.a_assetproof; a_tapkeysig = x.a_tapkeysig; a_tapss = x.a_tapss;
      a_tapleaves = x.a_tapleaves; a_tapbip32 = x.a_tapbip32; a_tapik =
      x.a_tapik; a_tapmr = x.a_tapmr }

  (** val set_a_expval : n -> aux -> aux **)

  let set_a_expval v x =
    { a_nw = x.a_nw; a_nwrp = x.a_nwrp; a_w = x.a_w; a_psigs = x.a_psigs;
      a_sighash = x.a_sighash; a_redeem = x.a_redeem; a_wscript =
      x.a_wscript; a_bip32 = x.a_bip32; a_fss = x.a_fss; a_fsw = x.a_fsw;
      a_issval = x.a_issval; a_isskeys = x.a_isskeys; a_entropy =
      x.a_entropy; a_nonce = x.a_nonce; a_blindediss = x.a_blindediss;
      a_issblind = x.a_issblind; a_urp = x.a_urp; a_expval = v; a_valproof =
      x.a_valproof; a_expasset = x.a_expasset; a_assetproof = x.a_assetproof;
      a_tapkeysig = x.a_tapkeysig; a_tapss = x.a_tapss; a_tapleaves =
      x.a_tapleaves; a_tapbip32 = x.a_tapbip32; a_tapik = x.a_tapik;
      a_tapmr = x.a_tapmr }

  (** val set_a_valproof : bool -> aux -> aux **)

  let set_a_valproof v x =
    { a_nw = x.a_nw; a_nwrp = x.a_nwrp; a_w = x.a_w; a_psigs = x.a_psigs;
      a_sighash = x.a_sighash; a_redeem = x.a_redeem; a_wscript =
      x.a_wscript; a_bip32 = x.a_bip32; a_fss = x.a_fss; a_fsw = x.a_fsw;
      a_issval = x.a_issval; a_isskeys = x.a_isskeys; a_entropy =
      x.a_entropy; a_nonce = x.a_nonce; a_blindediss = x.a_blindediss;
      a_issblind = x.a_issblind; a_urp = x.a_urp; a_expval = x.a_expval;
      a_valproof = v; a_expasset = x.a_expasset; a_assetproof =
      x.a_assetproof; a_tapkeysig = x.a_tapkeysig; a_tapss = x.a_tapss;
      a_tapleaves = x.a_tapleaves; a_tapbip32 = x.a_tapbip32; a_tapik =
      x.a_tapik; a_tapmr = x.a_tapmr }

  (** val set_a_expasset : n -> aux -> aux **)

  let set_a_expasset v x =
    { a_nw = x.a_nw; a_nwrp = x.a_nwrp; a_w = x.a_w; a_psigs = x.a_psigs;
      a_sighash = x.a_sighash; a_redeem = x.a_redeem; a_wscript =
      x.a_wscript; a_bip32 = x.a_bip32; a_fss = x.a_fss; a_fsw = x.a_fsw;
      a_issval = x.a_issval; a_isskeys = x.a_isskeys; a_entropy =
      x.a_entropy; a_nonce = x.a_nonce; a_blindediss = x.a_blindediss;
      a_issblind = x.a_issblind; a_urp = x.a_urp; a_expval = x.a_expval;
      a_valproof = x.a_valproof; a_expasset = v; a_assetproof =
      x.a_assetproof; a_tapkeysig = x.a_tapkeysig; a_tapss = x.a_tapss;
      a_tapleaves = x.a_tapleaves; a_tapbip32 = x.a_tapbip32; a_tapik =
      x.a_tapik; a_tapmr = x.a_tapmr }

  (** val set_a_assetproof : bool -> aux -> aux **)

  let set_a_assetproof v x =
    { a_nw = x.a_nw; a_nwrp = x.a_nwrp; a_w = x.a_w; a_psigs = x.a_psigs;
      a_sighash = x.a_sighash; a_redeem = x.a_redeem; a_wscript =
      x.a_wscript; a_bip32 = x.a_bip32; a_fss = x.a_fss; a_fsw = x.a_fsw;
      a_issval = x.a_issval; a_isskeys = x.a_isskeys; a_entropy =
      x.a_entropy; a_nonce = x.a_nonce; a_blindediss = x.a_blindediss;
      a_issblind = x.a_issblind; a_urp = x.a_urp; a_expval = x.a_expval;
      a_valproof = x.a_valproof; a_expasset = x.a_expasset; a_assetproof = v;
      a_tapkeysig = x.a_tapkeysig; a_tapss = x.a_tapss; a_tapleaves =
      x.a_tapleaves; a_tapbip32 = x.a_tapbip32; a_tapik = x.a_tapik;
      a_tapmr = x.a_tapmr }

  (** val set_a_tapkeysig : n -> aux -> aux **)

  let set_a_tapkeysig v x =
    { a_nw = x.a_nw; a_nwrp = x.a_nwrp; a_w = x.a_w; a_psigs = x.a_psigs;
      a_sighash = x.a_sighash; a_redeem = x.a_redeem; a_wscript =
      x.a_wscript; a_bip32 = x.a_bip32; a_fss = x.a_fss; a_fsw = x.a_fsw;
      a_issval = x.a_issval; a_isskeys = x.a_isskeys; a_entropy =
      x.a_entropy; a_nonce = x.a_nonce; a_blindediss = x.a_blindediss;
      a_issblind = x.a_issblind; a_urp = x.a_urp; a_expval = x.a_expval;
      a_valproof = x.a_valproof; a_expasset = x.a_expasset; a_assetproof =
      x.a_assetproof; a_tapkeysig = v; a_tapss = x.a_tapss; a_tapleaves =
      x.a_tapleaves; a_tapbip32 = x.a_tapbip32; a_tapik = x.a_tapik;
      a_tapmr = x.a_tapmr }

  (** val set_a_tapss : tss list -> aux -> aux **)

  let set_a_tapss v x =
    { a_nw = x.a_nw; a_nwrp = x.a_nwrp; a_w = x.a_w; a_psigs = x.a_psigs;
      a_sighash = x.a_sighash; a_redeem = x.a_redeem; a_wscript =
      x.a_wscript; a_bip32 = x.a_bip32; a_fss = x.a_fss; a_fsw = x.a_fsw;
      a_issval = x.a_issval; a_isskeys = x.a_isskeys; a_entropy =
      x.a_entropy; a_nonce = x.a_nonce; a_blindediss = x.a_blindediss;
      a_issblind = x.a_issblind; a_urp = x.a_urp; a_expval = x.a_expval;
      a_valproof = x.a_valproof; a_expasset = x.a_expasset; a_assetproof =
      x.a_assetproof; a_tapkeysig = x.a_tapkeysig; a_tapss = v; a_tapleaves =
      x.a_tapleaves; a_tapbip32 = x.a_tapbip32; a_tapik = x.a_tapik;
      a_tapmr = x.a_tapmr }

  (** val set_a_tapleaves : n list -> aux -> aux **)

  let set_a_tapleaves v x =
    { a_nw = x.a_nw; a_nwrp = x.a_nwrp; a_w = x.a_w; a_psigs = x.a_psigs;
      a_sighash = x.a_sighash; a_redeem = x.a_redeem; a_wscript =
      x.a_wscript; a_bip32 = x.a_bip32; a_fss = x.a_fss; a_fsw = x.a_fsw;
      a_issval = x.a_issval; a_isskeys = x.a_isskeys; a_entropy =
      x.a_entropy; a_nonce = x.a_nonce; a_blindediss = x.a_blindediss;
      a_issblind = x.a_issblind; a_urp = x.a_urp; a_expval = x.a_expval;
      a_valproof = x.a_valproof; a_expasset = x.a_expasset; a_assetproof =
      x.a_assetproof; a_tapkeysig = x.a_tapkeysig; a_tapss = x.a_tapss;
      a_tapleaves = v; a_tapbip32 = x.a_tapbip32; a_tapik = x.a_tapik;
      a_tapmr = x.a_tapmr }

  (** val set_a_tapbip32 : tbd list -> aux -> aux **)

  let set_a_tapbip32 v x =
    { a_nw = x.a_nw; a_nwrp = x.a_nwrp; a_w = x.a_w; a_psigs = x.a_psigs;
      a_sighash = x.a_sighash; a_redeem = x.a_redeem; a_wscript =
      x.a_wscript; a_bip32 = x.a_bip32; a_fss = x.a_fss; a_fsw = x.a_fsw;
      a_issval = x.a_issval; a_isskeys = x.a_isskeys; a_entropy =
      x.a_entropy; a_nonce = x.a_nonce; a_blindediss = x.a_blindediss;
      a_issblind = x.a_issblind; a_urp = x.a_urp; a_expval = x.a_expval;
      a_valproof = x.a_valproof; a_expasset = x.a_expasset; a_assetproof =
      x.a_assetproof; a_tapkeysig = x.a_tapkeysig; a_tapss = x.a_tapss;
      a_tapleaves = x.a_tapleaves; a_tapbip32 = v; a_tapik = x.a_tapik;
      a_tapmr = x.a_tapmr }

  (** val set_a_tapik : n -> aux -> aux **)

  let set_a_tapik v x =
    { a_nw = x.a_nw; a_nwrp = x.a_nwrp; a_w = x.a_w; a_psigs = x.a_psigs;
      a_sighash = x.a_sighash; a_redeem = x.a_redeem; a_wscript =
      x.a_wscript; a_bip32 = x.a_bip32; a_fss = x.a_fss; a_fsw = x.a_fsw;
      a_issval = x.a_issval; a_isskeys = x.a_isskeys; a_entropy =
      x.a_entropy; a_nonce = x.a_nonce; a_blindediss = x.a_blindediss;
      a_issblind = x.a_issblind; a_urp = x.a_urp; a_expval = x.a_expval;
      a_valproof = x.a_valproof; a_expasset = x.a_expasset; a_assetproof =
      x.a_assetproof; a_tapkeysig = x.a_tapkeysig; a_tapss = x.a_tapss;
      a_tapleaves = x.a_tapleaves; a_tapbip32 = x.a_tapbip32; a_tapik = v;
      a_tapmr = x.a_tapmr }

  (** val set_a_tapmr : n -> aux -> aux **)

  let set_a_tapmr v x =
    { a_nw = x.a_nw; a_nwrp = x.a_nwrp; a_w = x.a_w; a_psigs = x.a_psigs;
      a_sighash = x.a_sighash; a_redeem = x.a_redeem; a_wscript =
      x.a_wscript; a_bip32 = x.a_bip32; a_fss = x.a_fss; a_fsw = x.a_fsw;
      a_issval = x.a_issval; a_isskeys = x.a_isskeys; a_entropy =
      x.a_entropy; a_nonce = x.a_nonce; a_blindediss = x.a_blindediss;
      a_issblind = x.a_issblind; a_urp = x.a_urp; a_expval = x.a_expval;
      a_valproof = x.a_valproof; a_expasset = x.a_expasset; a_assetproof =
      x.a_assetproof; a_tapkeysig = x.a_tapkeysig; a_tapss = x.a_tapss;
      a_tapleaves = x.a_tapleaves; a_tapbip32 = x.a_tapbip32; a_tapik =
      x.a_tapik; a_tapmr = v }

  type outp = { o_value : n; o_assetlen : n; o_script : script option;
                o_bk : n; o_bidx : n; o_blinded : bool;
                o_redeem : script option; o_wscript : script option;
                o_bip32 : (n * bool) list }

  (** val o_value : outp -> n **)

  let o_value o =
    o.o_value

  (** val o_assetlen : outp -> n **)

  let o_assetlen o =
    o.o_assetlen

  (** val o_script : outp -> script option **)

  let o_script o =
    o.o_script

  (** val o_bk : outp -> n **)

  let o_bk o =
    o.o_bk

  (** val o_bidx : outp -> n **)

  let o_bidx o =
    o.o_bidx

  (** val o_blinded : outp -> bool **)

  let o_blinded o =
    o.o_blinded

  (** val o_redeem : outp -> script option **)

  let o_redeem o =
    o.o_redeem

  (** val o_wscript : outp -> script option **)

  let o_wscript o =
    o.o_wscript

  (** val o_bip32 : outp -> (n * bool) list **)

  let o_bip32 o =
    o.o_bip32

  (** val set_o_bidx : n -> outp -> outp **)

  let set_o_bidx v x =
    { o_value = x.o_value; o_assetlen = x.o_assetlen; o_script = x.o_script;
      o_bk = x.o_bk; o_bidx = v; o_blinded = x.o_blinded; o_redeem =
      x.o_redeem; o_wscript = x.o_wscript; o_bip32 = x.o_bip32 }

  (** val set_o_blinded : bool -> outp -> outp **)

  let set_o_blinded v x =
    { o_value = x.o_value; o_assetlen = x.o_assetlen; o_script = x.o_script;
      o_bk = x.o_bk; o_bidx = x.o_bidx; o_blinded = v; o_redeem = x.o_redeem;
      o_wscript = x.o_wscript; o_bip32 = x.o_bip32 }

  (** val set_o_redeem : script option -> outp -> outp **)

  let set_o_redeem v x =
    { o_value = x.o_value; o_assetlen = x.o_assetlen; o_script = x.o_script;
      o_bk = x.o_bk; o_bidx = x.o_bidx; o_blinded = x.o_blinded; o_redeem =
      v; o_wscript = x.o_wscript; o_bip32 = x.o_bip32 }

  (** val set_o_wscript : script option -> outp -> outp **)

  let set_o_wscript v x =
    { o_value = x.o_value; o_assetlen = x.o_assetlen; o_script = x.o_script;
      o_bk = x.o_bk; o_bidx = x.o_bidx; o_blinded = x.o_blinded; o_redeem =
      x.o_redeem; o_wscript = v; o_bip32 = x.o_bip32 }

  (** val set_o_bip32 : (n * bool) list -> outp -> outp **)

  let set_o_bip32 v x =
    { o_value = x.o_value; o_assetlen = x.o_assetlen; o_script = x.o_script;
      o_bk = x.o_bk; o_bidx = x.o_bidx; o_blinded = x.o_blinded; o_redeem =
      x.o_redeem; o_wscript = x.o_wscript; o_bip32 = v }

  (** val aux0 : aux **)

  let aux0 =
    { a_nw = false; a_nwrp = false; a_w = None; a_psigs = []; a_sighash = N0;
      a_redeem = None; a_wscript = None; a_bip32 = []; a_fss = false; a_fsw =
      false; a_issval = N0; a_isskeys = N0; a_entropy = false; a_nonce =
      false; a_blindediss = None; a_issblind = false; a_urp = false;
      a_expval = N0; a_valproof = false; a_expasset = N0; a_assetproof =
      false; a_tapkeysig = N0; a_tapss = []; a_tapleaves = []; a_tapbip32 =
      []; a_tapik = N0; a_tapmr = N0 }

  type pset = { g_nin : n; g_nout : n; g_flags : n option;
                g_fallback : n option; g_scalars : n list;
                p_cores : core list; p_auxs : aux list; p_outs : outp list }

  (** val g_nin : pset -> n **)

  let g_nin p =
    p.g_nin

  (** val g_nout : pset -> n **)

  let g_nout p =
    p.g_nout

  (** val g_flags : pset -> n option **)

  let g_flags p =
    p.g_flags

  (** val g_fallback : pset -> n option **)

  let g_fallback p =
    p.g_fallback

  (** val g_scalars : pset -> n list **)

  let g_scalars p =
    p.g_scalars

  (** val p_cores : pset -> core list **)

  let p_cores p =
    p.p_cores

  (** val p_auxs : pset -> aux list **)

  let p_auxs p =
    p.p_auxs

  (** val p_outs : pset -> outp list **)

  let p_outs p =
    p.p_outs

  type outcome =
  | Ok
  | Err
  | Panic

  (** val upd : pset -> aux list -> outp list -> n list -> pset **)

  let upd p auxs outs scalars =
    { g_nin = p.g_nin; g_nout = p.g_nout; g_flags = p.g_flags; g_fallback =
      p.g_fallback; g_scalars = scalars; p_cores = p.p_cores; p_auxs = auxs;
      p_outs = outs }

  (** val set_nth : nat -> 'a1 -> 'a1 list -> 'a1 list **)

  let rec set_nth n0 x = function
  | [] -> []
  | h :: t -> (match n0 with
               | O -> x :: t
               | S m -> h :: (set_nth m x t))

  (** val testbit : n option -> n -> bool -> bool **)

  let testbit f i dflt =
    match f with
    | Some n0 -> N.testbit n0 i
    | None -> dflt

  (** val inputs_modifiable : pset -> bool **)

  let inputs_modifiable p =
    testbit p.g_flags N0 true

  (** val outputs_modifiable : pset -> bool **)

  let outputs_modifiable p =
    testbit p.g_flags (Npos XH) true

  (** val needs_blinding_o : outp -> bool **)

  let needs_blinding_o o =
    negb (N.eqb o.o_bk N0)

  (** val needs_blinding : pset -> bool **)

  let needs_blinding p =
    existsb (fun o -> (&&) (needs_blinding_o o) (negb o.o_blinded)) p.p_outs

  (** val is_fully_blinded : pset -> bool **)

  let is_fully_blinded p =
    if negb (needs_blinding p)
    then false
    else forallb (fun o ->
           negb ((&&) (needs_blinding_o o) (negb o.o_blinded))) p.p_outs

  (** val finalized : aux -> bool **)

  let finalized a =
    (||) a.a_fss a.a_fsw

  (** val is_taproot : aux -> bool **)

  let is_taproot a =
    (||)
      ((||)
        ((||) ((||) (N.ltb N0 a.a_tapkeysig) (N.ltb N0 a.a_tapik))
          (N.ltb N0 a.a_tapmr))
        (negb (match a.a_tapleaves with
               | [] -> true
               | _ :: _ -> false)))
      (negb (match a.a_tapss with
             | [] -> true
             | _ :: _ -> false))

  (** val len_ok_0_32 : n -> bool **)

  let len_ok_0_32 n0 =
    (||) (N.eqb n0 N0) (N.eqb n0 (Npos (XO (XO (XO (XO (XO XH)))))))

  (** val siglen_ok : n -> bool **)

  let siglen_ok n0 =
    (||) (N.eqb n0 (Npos (XO (XO (XO (XO (XO (XO XH))))))))
      (N.eqb n0 (Npos (XI (XO (XO (XO (XO (XO XH))))))))

  (** val in_sane : aux -> bool **)

  let in_sane a =
    (&&)
      ((&&)
        ((&&)
          ((&&)
            ((&&)
              ((&&)
                ((&&)
                  ((&&)
                    ((&&)
                      (negb
                        ((&&)
                          (match a.a_w with
                           | Some _ -> false
                           | None -> true) (nonempty a.a_wscript)))
                      (negb
                        ((&&)
                          (match a.a_w with
                           | Some _ -> false
                           | None -> true) a.a_fsw)))
                    (negb
                      ((||) ((&&) (N.ltb N0 a.a_expval) (negb a.a_valproof))
                        ((&&) (N.eqb a.a_expval N0) a.a_valproof))))
                  (negb
                    ((||)
                      ((&&) (N.ltb N0 a.a_expasset) (negb a.a_assetproof))
                      ((&&) (N.eqb a.a_expasset N0) a.a_assetproof))))
                (len_ok_0_32 a.a_tapik)) (len_ok_0_32 a.a_tapmr))
            ((||) (N.eqb a.a_tapkeysig N0) (siglen_ok a.a_tapkeysig)))
          (forallb (fun l -> negb (N.eqb l (Npos (XO XH)))) a.a_tapleaves))
        (forallb (fun s ->
          (&&) (N.eqb s.ts_pklen (Npos (XO (XO (XO (XO (XO XH)))))))
            (siglen_ok s.ts_siglen)) a.a_tapss))
      (forallb (fun d ->
        (&&) (N.ltb N0 d.tb_nh)
          (N.eqb d.tb_hlen (Npos (XO (XO (XO (XO (XO XH)))))))) a.a_tapbip32)

  (** val out_sane : outp -> bool **)

  let out_sane o =
    (&&) (negb ((&&) (negb o.o_blinded) (N.eqb o.o_assetlen N0)))
      (negb ((&&) o.o_blinded (negb (N.eqb o.o_bidx N0))))

  (** val sanity_parts : aux list -> outp list -> n list -> bool **)

  let sanity_parts auxs outs scalars =
    (&&) ((&&) (forallb in_sane auxs) (forallb out_sane outs))
      (negb
        ((&&)
          ((&&) (existsb (fun o -> o.o_blinded) outs)
            (match scalars with
             | [] -> true
             | _ :: _ -> false))
          (existsb (fun o -> (&&) (needs_blinding_o o) (negb o.o_blinded))
            outs)))

  (** val sanity : pset -> bool **)

  let sanity p =
    sanity_parts p.p_auxs p.p_outs p.g_scalars

  (** val max_time : core list -> n **)

  let max_time cs =
    fold_left (fun m c -> N.max m c.c_time) cs N0

  (** val max_height : core list -> n **)

  let max_height cs =
    fold_left (fun m c -> N.max m c.c_height) cs N0

  (** val fallback_or_0 : pset -> n **)

  let fallback_or_0 p =
    match p.g_fallback with
    | Some n0 -> n0
    | None -> N0

  (** val locktime : pset -> n **)

  let locktime p =
    let h = max_height p.p_cores in
    let t = max_time p.p_cores in
    let time_only_seen =
      existsb (fun c -> (&&) (N.ltb N0 c.c_time) (N.eqb c.c_height N0))
        p.p_cores
    in
    if (&&) (N.ltb N0 h) (negb time_only_seen)
    then h
    else if N.ltb N0 t then t else fallback_or_0 p

  type inarg = { ia_cls : n; ia_t : n; ia_idx : n; ia_seq : n; ia_height : 
                 n; ia_time : n }

  (** val ia_cls : inarg -> n **)

  let ia_cls i =
    i.ia_cls

  (** val ia_t : inarg -> n **)

  let ia_t i =
    i.ia_t

  (** val ia_idx : inarg -> n **)

  let ia_idx i =
    i.ia_idx

  (** val ia_seq : inarg -> n **)

  let ia_seq i =
    i.ia_seq

  (** val ia_height : inarg -> n **)

  let ia_height i =
    i.ia_height

  (** val ia_time : inarg -> n **)

  let ia_time i =
    i.ia_time

  type outarg = { oa_cls : n; oa_amount : n; oa_script : script option;
                  oa_bk : n; oa_bidx : n }

  (** val oa_cls : outarg -> n **)

  let oa_cls o =
    o.oa_cls

  (** val oa_amount : outarg -> n **)

  let oa_amount o =
    o.oa_amount

  (** val oa_script : outarg -> script option **)

  let oa_script o =
    o.oa_script

  (** val oa_bk : outarg -> n **)

  let oa_bk o =
    o.oa_bk

  (** val oa_bidx : outarg -> n **)

  let oa_bidx o =
    o.oa_bidx

  (** val to_core : inarg -> core **)

  let to_core a =
    { c_t = a.ia_t; c_short = (N.eqb a.ia_cls (Npos (XI XH))); c_idx =
      a.ia_idx; c_seq =
      (if N.eqb a.ia_seq N0
       then Npos (XI (XI (XI (XI (XI (XI (XI (XI (XI (XI (XI (XI (XI (XI (XI
              (XI (XI (XI (XI (XI (XI (XI (XI (XI (XI (XI (XI (XI (XI (XI (XI
              XH)))))))))))))))))))))))))))))))
       else a.ia_seq); c_time = a.ia_time; c_height = a.ia_height }

  (** val same_outpoint : core -> core -> bool **)

  let same_outpoint x y =
    (&&) ((&&) (N.eqb x.c_t y.c_t) (eqb x.c_short y.c_short))
      (N.eqb x.c_idx y.c_idx)

  (** val lock_loop :
      core list -> aux list -> n -> n -> bool -> ((n * n) * bool) option **)

  let rec lock_loop cs auxs t h sigs =
    match cs with
    | [] -> Some ((t, h), sigs)
    | c :: cs' ->
      let a = hd aux0 auxs in
      let h1 =
        if (&&) (negb (N.eqb c.c_time N0)) (N.eqb c.c_height N0)
        then N0
        else h
      in
      if (&&) ((&&) (negb (N.eqb c.c_time N0)) (N.eqb c.c_height N0))
           (N.eqb t N0)
      then None
      else let t1 =
             if (&&) (N.eqb c.c_time N0) (negb (N.eqb c.c_height N0))
             then N0
             else t
           in
           if (&&) ((&&) (N.eqb c.c_time N0) (negb (N.eqb c.c_height N0)))
                (N.eqb h1 N0)
           then None
           else let t2 =
                  if (&&) (negb (N.eqb c.c_time N0)) (negb (N.eqb t1 N0))
                  then N.max t1 c.c_time
                  else t1
                in
                let h2 =
                  if (&&) (negb (N.eqb c.c_height N0)) (negb (N.eqb h1 N0))
                  then N.max h1 c.c_height
                  else h1
                in
                lock_loop cs' (tl auxs) t2 h2
                  ((||) sigs
                    (negb (match a.a_psigs with
                           | [] -> true
                           | _ :: _ -> false)))

  (** val add_input : pset -> inarg -> pset option **)

  let add_input p a =
    let c = to_core a in
    if (||) (N.eqb a.ia_cls (Npos XH)) (N.eqb a.ia_cls (Npos (XO XH)))
    then None
    else if existsb (same_outpoint c) p.p_cores
         then None
         else if negb (inputs_modifiable p)
              then None
              else let lock_ok =
                     if (||) (negb (N.eqb c.c_height N0))
                          (negb (N.eqb c.c_time N0))
                     then (match lock_loop p.p_cores p.p_auxs c.c_time
                                   c.c_height false with
                           | Some p0 ->
                             let (p1, sigs) = p0 in
                             let (t, h) = p1 in
                             let nl = fallback_or_0 p in
                             let nl0 = if negb (N.eqb t N0) then t else nl in
                             let nl1 = if negb (N.eqb h N0) then h else nl0 in
                             negb ((&&) sigs (negb (N.eqb (locktime p) nl1)))
                           | None -> false)
                     else true
                   in
                   if negb lock_ok
                   then None
                   else Some { g_nin = (N.add p.g_nin (Npos XH)); g_nout =
                          p.g_nout; g_flags = p.g_flags; g_fallback =
                          p.g_fallback; g_scalars = p.g_scalars; p_cores =
                          (app p.p_cores (c :: [])); p_auxs =
                          (app p.p_auxs (aux0 :: [])); p_outs = p.p_outs }

  (** val add_inputs : pset -> inarg list -> pset option **)

  let rec add_inputs p = function
  | [] -> Some p
  | a :: l' ->
    (match add_input p a with
     | Some p' -> add_inputs p' l'
     | None -> None)

  (** val to_outp : outarg -> outp **)

  let to_outp a =
    { o_value = a.oa_amount; o_assetlen =
      (if N.eqb a.oa_cls N0
       then Npos (XO (XO (XO (XO (XO XH)))))
       else if N.eqb a.oa_cls (Npos (XI XH))
            then Npos (XI (XI (XI (XI XH))))
            else N0); o_script = a.oa_script; o_bk = a.oa_bk; o_bidx =
      a.oa_bidx; o_blinded = false; o_redeem = None; o_wscript = None;
      o_bip32 = [] }

  (** val add_output : pset -> outp -> pset option **)

  let add_output p o =
    if negb (out_sane o)
    then None
    else if negb (outputs_modifiable p)
         then None
         else Some { g_nin = p.g_nin; g_nout = (N.add p.g_nout (Npos XH));
                g_flags = p.g_flags; g_fallback = p.g_fallback; g_scalars =
                p.g_scalars; p_cores = p.p_cores; p_auxs = p.p_auxs; p_outs =
                (app p.p_outs (o :: [])) }

  (** val add_outputs : pset -> outp list -> pset option **)

  let rec add_outputs p = function
  | [] -> Some p
  | o :: l' ->
    (match add_output p o with
     | Some p' -> add_outputs p' l'
     | None -> None)

  type init_res =
  | IOk of pset
  | IErr
  | IPanic

  (** val empty_pset : n option -> pset **)

  let empty_pset fb =
    { g_nin = N0; g_nout = N0; g_flags = (Some (Npos (XI XH))); g_fallback =
      fb; g_scalars = []; p_cores = []; p_auxs = []; p_outs = [] }

  (** val outarg_valid : outarg -> bool **)

  let outarg_valid a =
    (&&)
      ((&&) (N.eqb a.oa_cls N0)
        ((||) (negb (nonempty a.oa_script)) (parse_ok (or_empty a.oa_script))))
      (negb (N.eqb a.oa_bk (Npos (XO XH))))

  (** val new_ins : pset -> inarg list -> pset option **)

  let rec new_ins p = function
  | [] -> Some p
  | a :: l' ->
    if negb (N.eqb a.ia_cls N0)
    then None
    else (match add_input p a with
          | Some p' -> new_ins p' l'
          | None -> None)

  (** val new_outs : pset -> outarg list -> init_res **)

  let rec new_outs p = function
  | [] -> IOk p
  | a :: l' ->
    if negb (outarg_valid a)
    then IErr
    else (match add_output p (to_outp a) with
          | Some p' -> new_outs p' l'
          | None -> IErr)

  (** val init : inarg list -> outarg list -> n option -> init_res **)

  let init ins outs fb =
    match new_ins (empty_pset fb) ins with
    | Some p -> new_outs p outs
    | None -> IErr

  type issue_args = { is_prec : n; is_contract : n; is_aamt : n; is_tamt : 
                      n; is_aaddr : n; is_taddr : n; is_blinded : bool }

  (** val is_prec : issue_args -> n **)

  let is_prec i =
    i.is_prec

  (** val is_contract : issue_args -> n **)

  let is_contract i =
    i.is_contract

  (** val is_aamt : issue_args -> n **)

  let is_aamt i =
    i.is_aamt

  (** val is_tamt : issue_args -> n **)

  let is_tamt i =
    i.is_tamt

  (** val is_aaddr : issue_args -> n **)

  let is_aaddr i =
    i.is_aaddr

  (** val is_taddr : issue_args -> n **)

  let is_taddr i =
    i.is_taddr

  (** val is_blinded : issue_args -> bool **)

  let is_blinded i =
    i.is_blinded

  type reissue_args = { ri_blinder : n; ri_entropy : n; ri_aamt : n;
                        ri_aaddr : n; ri_tamt : n; ri_taddr : n }

  (** val ri_blinder : reissue_args -> n **)

  let ri_blinder r =
    r.ri_blinder

  (** val ri_entropy : reissue_args -> n **)

  let ri_entropy r =
    r.ri_entropy

  (** val ri_aamt : reissue_args -> n **)

  let ri_aamt r =
    r.ri_aamt

  (** val ri_aaddr : reissue_args -> n **)

  let ri_aaddr r =
    r.ri_aaddr

  (** val ri_tamt : reissue_args -> n **)

  let ri_tamt r =
    r.ri_tamt

  (** val ri_taddr : reissue_args -> n **)

  let ri_taddr r =
    r.ri_taddr

  type blind_args = { bl_last : bool; bl_owned : n list;
                      bl_iss : (n * bool) list; bl_outs : (n * n) list;
                      bl_surj : bool; bl_basset : bool; bl_range : bool;
                      bl_bvalue : bool; bl_gfail : n; bl_scalar : n }

  (** val bl_last : blind_args -> bool **)

  let bl_last b =
    b.bl_last

  (** val bl_owned : blind_args -> n list **)

  let bl_owned b =
    b.bl_owned

  (** val bl_iss : blind_args -> (n * bool) list **)

  let bl_iss b =
    b.bl_iss

  (** val bl_outs : blind_args -> (n * n) list **)

  let bl_outs b =
    b.bl_outs

  (** val bl_surj : blind_args -> bool **)

  let bl_surj b =
    b.bl_surj

  (** val bl_basset : blind_args -> bool **)

  let bl_basset b =
    b.bl_basset

  (** val bl_range : blind_args -> bool **)

  let bl_range b =
    b.bl_range

  (** val bl_bvalue : blind_args -> bool **)

  let bl_bvalue b =
    b.bl_bvalue

  (** val bl_gfail : blind_args -> n **)

  let bl_gfail b =
    b.bl_gfail

  (** val bl_scalar : blind_args -> n **)

  let bl_scalar b =
    b.bl_scalar

  type op =
  | OSetMod of n option
  | OAddInputs of inarg list
  | OAddOutputs of outarg list
  | ONwUtxo of z * n
  | OWUtxo of z * utxo option
  | ORedeem of z * script option
  | OWScript of z * script option
  | OBip32 of z * n option * bool
  | OSighash of z * n
  | OUtxoRp of z * bool
  | OExpAsset of z * bool * bool
  | OExpValue of z * n * bool
  | OIssue of z * issue_args
  | OReissue of z * reissue_args
  | OTapIk of z * n
  | OTapMr of z * n
  | OTapLeaf of z * n
  | OTapBip32 of z * tbd
  | OOutBip32 of z * n option * bool
  | OOutRedeem of z * script option
  | OOutWScript of z * script option
  | OSign of z * bool * n * n option * script option * script option
  | OTapKeySig of z * n
  | OTapScriptSig of z * tss
  | OBlind of blind_args
  | OFinalize of z
  | OMaybeFinalize of z
  | OFinalizeAll
  | OMaybeFinalizeAll

  type lres =
  | LSan
  | LOk
  | LErr
  | LPanic

  (** val finish : lres -> bool -> outcome **)

  let finish r sane =
    match r with
    | LSan -> if sane then Ok else Err
    | LOk -> Ok
    | LErr -> Err
    | LPanic -> Panic

  (** val in_index :
      pset -> z -> bool -> ((nat * core) * aux, outcome) sum **)

  let in_index p i guard_neg =
    if Z.ltb i Z0
    then Inr (if guard_neg then Err else Panic)
    else if Z.ltb (Z.sub (Z.of_N p.g_nin) (Zpos XH)) i
         then Inr Err
         else (match nth_error p.p_cores (Z.to_nat i) with
               | Some c ->
                 (match nth_error p.p_auxs (Z.to_nat i) with
                  | Some a -> Inl (((Z.to_nat i), c), a)
                  | None -> Inr Panic)
               | None -> Inr Panic)

  (** val out_index : pset -> z -> (nat * outp, outcome) sum **)

  let out_index p i =
    if Z.ltb i Z0
    then Inr Panic
    else if Z.ltb (Z.sub (Z.of_N p.g_nout) (Zpos XH)) i
         then Inr Err
         else (match nth_error p.p_outs (Z.to_nat i) with
               | Some o -> Inl ((Z.to_nat i), o)
               | None -> Inr Panic)

  (** val on_input :
      pset -> z -> bool -> (core -> aux -> aux * lres) -> ((aux list * outp
      list) * n list) * outcome **)

  let on_input p i guard_neg f =
    match in_index p i guard_neg with
    | Inl p0 ->
      let (p1, a) = p0 in
      let (n0, c) = p1 in
      let (a', r) = f c a in
      let auxs = set_nth n0 a' p.p_auxs in
      (((auxs, p.p_outs), p.g_scalars),
      (finish r (sanity_parts auxs p.p_outs p.g_scalars)))
    | Inr o -> (((p.p_auxs, p.p_outs), p.g_scalars), o)

  (** val on_output :
      pset -> z -> (outp -> outp * lres) -> ((aux list * outp list) * n
      list) * outcome **)

  let on_output p i f =
    match out_index p i with
    | Inl p0 ->
      let (n0, o) = p0 in
      let (o', r) = f o in
      let outs = set_nth n0 o' p.p_outs in
      (((p.p_auxs, outs), p.g_scalars),
      (finish r (sanity_parts p.p_auxs outs p.g_scalars)))
    | Inr o -> (((p.p_auxs, p.p_outs), p.g_scalars), o)

  type gu =
  | GuNil
  | GuPanic
  | GuSome of utxo * aux

  (** val get_utxo : core -> aux -> gu **)

  let get_utxo c a =
    match a.a_w with
    | Some u -> GuSome (u, a)
    | None ->
      if negb a.a_nw
      then GuNil
      else (match nth_error prevouts
                    (N.to_nat
                      (N.min c.c_idx (Npos (XO (XO (XO (XI (XO (XI (XI (XI
                        (XI XH)))))))))))) with
            | Some s -> GuSome ({ u_script = s; u_conf = false }, a)
            | None -> GuPanic)

  (** val prevout_script : core -> script option **)

  let prevout_script c =
    nth_error prevouts
      (N.to_nat
        (N.min c.c_idx (Npos (XO (XO (XO (XI (XO (XI (XI (XI (XI XH))))))))))))

  (** val key_in : n -> (n * bool) list -> bool **)

  let key_in k l =
    existsb (fun x -> N.eqb (fst x) k) l

  (** val nw_to_w : core -> aux -> aux option **)

  let nw_to_w c a =
    if negb a.a_nw
    then None
    else (match prevout_script c with
          | Some s ->
            Some
              (set_a_w (Some { u_script = s; u_conf = false })
                (set_a_nwrp false (set_a_nw false a)))
          | None -> None)

  (** val p2wpkh_of : n -> script **)

  let p2wpkh_of k =
    SWpkh k

  (** val add_psig : core -> aux -> bool -> n -> n option -> aux * lres **)

  let add_psig c a sigok h = function
  | Some k0 ->
    if negb sigok
    then (a, LErr)
    else if existsb (fun x -> N.eqb (fst x) k0) a.a_psigs
         then (a, LErr)
         else let commit = ((set_a_psigs (app a.a_psigs ((k0, h) :: [])) a),
                LSan)
              in
              if a.a_nw
              then (match a.a_redeem with
                    | Some r ->
                      (match prevout_script c with
                       | Some spk ->
                         if script_eqb (SSh r) spk then commit else (a, LErr)
                       | None -> (a, LPanic))
                    | None -> commit)
              else (match a.a_w with
                    | Some u ->
                      let spk = u.u_script in
                      let chk =
                        match a.a_redeem with
                        | Some r ->
                          if script_eqb (SSh r) spk then Some r else None
                        | None -> Some spk
                      in
                      (match chk with
                       | Some scr ->
                         (match a.a_wscript with
                          | Some w ->
                            if script_eqb scr (SWsh w)
                            then commit
                            else (a, LErr)
                          | None ->
                            if script_eqb (p2wpkh_of k0) scr
                            then commit
                            else (a, LErr))
                       | None -> (a, LErr))
                    | None -> (a, LErr))
  | None -> (a, LErr)

  (** val sign_local :
      bool -> bool -> bool -> n -> n option -> script option -> script option
      -> core -> aux -> aux * lres **)

  let sign_local rest_sane0 blocked0 sigok h k rs ws c a =
    if finalized a
    then (a, LOk)
    else if (&&)
              (N.eqb (N.coq_land a.a_sighash (Npos (XI (XI (XI (XI XH))))))
                (Npos XH)) blocked0
         then (a, LErr)
         else let a1 = match ws with
                       | Some _ -> set_a_wscript ws a
                       | None -> a
              in
              if (&&) (non_nil ws) (negb ((&&) (in_sane a1) rest_sane0))
              then (a1, LErr)
              else let a2 =
                     match rs with
                     | Some _ -> set_a_redeem rs a1
                     | None -> a1
                   in
                   if (&&) (non_nil rs) (negb ((&&) (in_sane a2) rest_sane0))
                   then (a2, LErr)
                   else let convert = fun a0 ->
                          match nw_to_w c a0 with
                          | Some a' ->
                            if (&&) (in_sane a') rest_sane0
                            then Inl a'
                            else Inr (a', LErr)
                          | None -> Inr (a0, LPanic)
                        in
                        let no_w =
                          match a2.a_w with
                          | Some _ -> false
                          | None -> true
                        in
                        let a3 =
                          if non_nil a2.a_wscript
                          then if no_w then convert a2 else Inl a2
                          else if non_nil a2.a_redeem
                               then if match rs with
                                       | Some r -> is_witness_program r
                                       | None -> false
                                    then if no_w then convert a2 else Inl a2
                                    else Inl a2
                               else if no_w
                                    then if negb a2.a_nw
                                         then Inr (a2, LPanic)
                                         else (match prevout_script c with
                                               | Some s ->
                                                 if is_witness_program s
                                                 then convert a2
                                                 else Inl a2
                                               | None -> Inr (a2, LPanic))
                                    else Inl a2
                        in
                        (match a3 with
                         | Inl a4 -> add_psig c a4 sigok h k
                         | Inr r -> r)

  (** val expected_sighash : aux -> n **)

  let expected_sighash a =
    if N.eqb a.a_sighash N0 then Npos XH else a.a_sighash

  (** val sigs_ok : aux -> bool **)

  let sigs_ok a =
    forallb (fun x -> N.eqb (snd x) (expected_sighash a)) a.a_psigs

  (** val nsigs : aux -> n **)

  let nsigs a =
    N.of_nat (length a.a_psigs)

  (** val multisig_ok : script -> aux -> bool **)

  let multisig_ok s a =
    match s with
    | SMs m ->
      (&&) (N.eqb m (nsigs a))
        (forallb (fun x -> N.ltb (fst x) (Npos (XO XH))) a.a_psigs)
    | _ -> false

  (** val finalize_witness : aux -> aux option **)

  let finalize_witness a =
    if finalized a
    then None
    else if negb (sigs_ok a)
         then None
         else if N.eqb (nsigs a) N0
              then None
              else let hasR = nonempty a.a_redeem in
                   let hasW = nonempty a.a_wscript in
                   let okw = Some (set_a_fsw true (set_a_fss hasR a)) in
                   if negb hasR
                   then if (&&) (N.eqb (nsigs a) (Npos XH)) (negb hasW)
                        then okw
                        else if negb hasW
                             then None
                             else if multisig_ok (or_empty a.a_wscript) a
                                  then okw
                                  else None
                   else if negb hasW
                        then if N.eqb (nsigs a) (Npos XH) then okw else None
                        else if multisig_ok (or_empty a.a_wscript) a
                             then okw
                             else None

  (** val finalize_nonwitness : aux -> aux option **)

  let finalize_nonwitness a =
    if finalized a
    then None
    else if negb (sigs_ok a)
         then None
         else if N.eqb (nsigs a) N0
              then None
              else if negb (nonempty a.a_redeem)
                   then if N.eqb (nsigs a) (Npos XH)
                        then Some (set_a_fss true a)
                        else None
                   else if multisig_ok (or_empty a.a_redeem) a
                        then Some (set_a_fss true a)
                        else None

  (** val norm_sighash : n -> n **)

  let norm_sighash t =
    if N.eqb t N0 then Npos XH else t

  (** val tap_sig_ok : aux -> n -> bool **)

  let tap_sig_ok a siglen =
    N.eqb
      (norm_sighash
        (if N.eqb siglen (Npos (XI (XO (XO (XO (XO (XO XH)))))))
         then Npos (XI XH)
         else N0)) (norm_sighash a.a_sighash)

  (** val finalize_taproot : aux -> aux option **)

  let finalize_taproot a =
    if finalized a
    then None
    else if N.ltb N0 a.a_tapkeysig
         then if tap_sig_ok a a.a_tapkeysig
              then Some (set_a_fsw true a)
              else None
         else (match a.a_tapss with
               | [] -> None
               | _ :: _ ->
                 (match a.a_tapleaves with
                  | [] -> None
                  | leaf0 :: _ ->
                    let mine =
                      filter (fun s ->
                        (&&) (N.eqb s.ts_leaf leaf0)
                          (N.eqb s.ts_lhlen (Npos (XO (XO (XO (XO (XO
                            XH)))))))) a.a_tapss
                    in
                    if negb (forallb (fun s -> tap_sig_ok a s.ts_siglen) mine)
                    then None
                    else (match mine with
                          | [] -> None
                          | _ :: _ -> Some (set_a_fsw true a))))

  (** val finalize_local : core -> aux -> aux * lres **)

  let finalize_local _ a =
    match a.a_w with
    | Some _ ->
      if is_taproot a
      then (match finalize_taproot a with
            | Some a' -> (a', LOk)
            | None -> (a, LErr))
      else (match finalize_witness a with
            | Some a' -> ((set_a_psigs [] a'), LSan)
            | None -> (a, LErr))
    | None ->
      if a.a_nw
      then (match finalize_nonwitness a with
            | Some a' -> ((set_a_psigs [] a'), LSan)
            | None -> (a, LErr))
      else (a, LErr)

  (** val is_finalizable : core -> aux -> bool option **)

  let is_finalizable c a =
    if N.eqb (nsigs a) N0
    then Some false
    else (match a.a_w with
          | Some u ->
            let spk = u.u_script in
            Some
            (if is_witness_program spk
             then if is_p2wsh spk
                  then negb
                         ((||) (negb (nonempty a.a_wscript))
                           (nonempty a.a_redeem))
                  else if is_p2tr spk
                       then if N.ltb N0 a.a_tapkeysig
                            then true
                            else forallb (fun s ->
                                   (&&)
                                     (N.eqb s.ts_lhlen (Npos (XO (XO (XO (XO
                                       (XO XH)))))))
                                     (existsb (fun l -> N.eqb l s.ts_leaf)
                                       a.a_tapleaves)) a.a_tapss
                       else negb
                              ((||) (nonempty a.a_wscript)
                                (nonempty a.a_redeem))
             else if is_p2sh spk
                  then if negb (nonempty a.a_redeem)
                       then false
                       else if is_p2wsh (or_empty a.a_redeem)
                            then nonempty a.a_wscript
                            else if is_p2wpkh (or_empty a.a_redeem)
                                 then negb (nonempty a.a_wscript)
                                 else false
                  else false)
          | None ->
            if a.a_nw
            then if nonempty a.a_wscript
                 then Some false
                 else (match prevout_script c with
                       | Some s ->
                         Some
                           (if is_p2sh s
                            then nonempty a.a_redeem
                            else negb (nonempty a.a_redeem))
                       | None -> None)
            else Some false)

  (** val maybe_finalize_local : core -> aux -> aux * lres **)

  let maybe_finalize_local c a =
    if finalized a
    then (a, LOk)
    else (match is_finalizable c a with
          | Some b -> if b then finalize_local c a else (a, LErr)
          | None -> (a, LPanic))

  (** val finalize_loop :
      (core -> aux -> aux * lres) -> core list -> nat -> nat -> aux list ->
      outp list -> n list -> aux list * outcome **)

  let rec finalize_loop f cs n0 fuel auxs outs scalars =
    match fuel with
    | O -> (auxs, Ok)
    | S fuel' ->
      (match cs with
       | [] -> (auxs, Ok)
       | c :: cs' ->
         (match nth_error auxs n0 with
          | Some a ->
            let (a', r) = f c a in
            let auxs' = set_nth n0 a' auxs in
            (match finish r (sanity_parts auxs' outs scalars) with
             | Ok -> finalize_loop f cs' (S n0) fuel' auxs' outs scalars
             | x -> (auxs', x))
          | None -> (auxs, Panic)))

  (** val insert_by_idx : (n * n) -> (n * n) list -> (n * n) list **)

  let rec insert_by_idx x l = match l with
  | [] -> x :: []
  | y :: l' ->
    if N.ltb (fst x) (fst y) then x :: l else y :: (insert_by_idx x l')

  (** val sort_by_idx : (n * n) list -> (n * n) list **)

  let sort_by_idx l =
    fold_left (fun acc x -> insert_by_idx x acc) l []

  type bres =
  | BGo of aux list
  | BStop of aux list * outcome

  (** val owned_validate : pset -> aux list -> n list -> bres **)

  let rec owned_validate p auxs = function
  | [] -> BGo auxs
  | i :: rest ->
    if Z.ltb (Z.sub (Z.of_N p.g_nin) (Zpos XH)) (Z.of_N i)
    then BStop (auxs, Err)
    else (match nth_error p.p_cores (N.to_nat i) with
          | Some c ->
            (match nth_error auxs (N.to_nat i) with
             | Some a ->
               (match get_utxo c a with
                | GuNil -> BStop (auxs, Err)
                | GuPanic -> BStop (auxs, Panic)
                | GuSome (_, a') ->
                  owned_validate p (set_nth (N.to_nat i) a' auxs) rest)
             | None -> BStop (auxs, Panic))
          | None -> BStop (auxs, Panic))

  (** val prevout_loop : core list -> nat -> aux list -> n list -> bres **)

  let rec prevout_loop cs n0 auxs owned =
    match cs with
    | [] -> BGo auxs
    | c :: cs' ->
      if existsb (fun i -> N.eqb i (N.of_nat n0)) owned
      then prevout_loop cs' (S n0) auxs owned
      else (match nth_error auxs n0 with
            | Some a ->
              (match get_utxo c a with
               | GuNil -> BStop (auxs, Err)
               | GuPanic -> BStop (auxs, Panic)
               | GuSome (_, a') ->
                 prevout_loop cs' (S n0) (set_nth n0 a' auxs) owned)
            | None -> BStop (auxs, Panic))

  (** val outargs_validate : pset -> bool -> (n * n) list -> bool **)

  let rec outargs_validate p last = function
  | [] -> true
  | p0 :: l' ->
    let (i, cls) = p0 in
    let is_last_output =
      (&&) last (match l' with
                 | [] -> true
                 | _ :: _ -> false)
    in
    if Z.ltb (Z.sub (Z.of_N p.g_nout) (Zpos XH)) (Z.of_N i)
    then false
    else (match nth_error p.p_outs (N.to_nat i) with
          | Some o ->
            if negb (needs_blinding_o o)
            then false
            else if N.eqb cls (Npos XH)
                 then false
                 else if (&&) (N.eqb cls (Npos (XO XH))) (negb is_last_output)
                      then false
                      else outargs_validate p last l'
          | None -> false)

  (** val outargs_proofs : pset -> blind_args -> (n * n) list -> bool **)

  let rec outargs_proofs p a = function
  | [] -> true
  | p0 :: l' ->
    let (i, _) = p0 in
    let last_args =
      (&&) a.bl_last (match l' with
                      | [] -> true
                      | _ :: _ -> false)
    in
    (match nth_error p.p_outs (N.to_nat i) with
     | Some o ->
       if negb (existsb (fun x -> N.eqb x o.o_bidx) a.bl_owned)
       then false
       else if negb a.bl_surj
            then false
            else if negb a.bl_basset
                 then false
                 else if (&&) (negb last_args) (negb a.bl_range)
                      then false
                      else if (&&) (negb last_args) (negb a.bl_bvalue)
                           then false
                           else outargs_proofs p a l'
     | None -> false)

  (** val blind_outs :
      blind_args -> (n * n) list -> outp list -> outp list * bool **)

  let rec blind_outs a l outs =
    match l with
    | [] -> (outs, true)
    | p :: l' ->
      let (i, _) = p in
      let last_args =
        (&&) a.bl_last (match l' with
                        | [] -> true
                        | _ :: _ -> false)
      in
      if (&&) last_args
           ((||) (N.eqb a.bl_gfail (Npos (XO XH)))
             (N.eqb a.bl_gfail (Npos (XI XH))))
      then (outs, false)
      else (match nth_error outs (N.to_nat i) with
            | Some o ->
              blind_outs a l'
                (set_nth (N.to_nat i) (set_o_bidx N0 (set_o_blinded true o))
                  outs)
            | None -> (outs, false))

  (** val do_blind :
      pset -> blind_args -> ((aux list * outp list) * n list) * outcome **)

  let do_blind p a =
    let stop = fun auxs o -> (((auxs, p.p_outs), p.g_scalars), o) in
    if negb (sanity p)
    then stop p.p_auxs Err
    else if negb (needs_blinding p)
         then stop p.p_auxs Err
         else (match a.bl_owned with
               | [] -> stop p.p_auxs Err
               | _ :: _ ->
                 (match owned_validate p p.p_auxs a.bl_owned with
                  | BGo auxs ->
                    if is_fully_blinded p
                    then stop auxs Ok
                    else if existsb (fun x ->
                              (||)
                                (Z.ltb (Z.sub (Z.of_N p.g_nin) (Zpos XH))
                                  (Z.of_N (fst x)))
                                (match nth_error auxs (N.to_nat (fst x)) with
                                 | Some ax -> finalized ax
                                 | None -> false)) a.bl_iss
                         then stop auxs Err
                         else let outs_sorted = sort_by_idx a.bl_outs in
                              if negb
                                   (outargs_validate p a.bl_last outs_sorted)
                              then stop auxs Err
                              else (match prevout_loop p.p_cores O auxs
                                            a.bl_owned with
                                    | BGo auxs0 ->
                                      if negb (outargs_proofs p a outs_sorted)
                                      then stop auxs0 Err
                                      else if N.eqb a.bl_gfail (Npos XH)
                                           then stop auxs0 Err
                                           else (match outs_sorted with
                                                 | [] -> stop auxs0 Panic
                                                 | _ :: _ ->
                                                   let auxs' =
                                                     fold_left (fun l x ->
                                                       match nth_error l
                                                               (N.to_nat
                                                                 (fst x)) with
                                                       | Some ax ->
                                                         set_nth
                                                           (N.to_nat (fst x))
                                                           (set_a_issblind
                                                             (snd x) ax) l
                                                       | None -> l) a.bl_iss
                                                       auxs0
                                                   in
                                                   let (outs, done0) =
                                                     blind_outs a outs_sorted
                                                       p.p_outs
                                                   in
                                                   if negb done0
                                                   then stop auxs0 Err
                                                   else let scalars =
                                                          if a.bl_last
                                                          then []
                                                          else app
                                                                 p.g_scalars
                                                                 (a.bl_scalar :: [])
                                                        in
                                                        if sanity_parts auxs'
                                                             outs scalars
                                                        then (((auxs', outs),
                                                               scalars), Ok)
                                                        else stop auxs0 Err)
                                    | BStop (auxs0, o) -> stop auxs0 o)
                  | BStop (auxs, o) -> stop auxs o))

  (** val publish : pset -> pset -> pset * outcome **)

  let publish p staged =
    if sanity staged then (staged, Ok) else (p, Err)

  (** val staged_parts :
      pset -> (((aux list * outp list) * n list) * outcome) -> ((aux
      list * outp list) * n list) * outcome **)

  let staged_parts p r =
    match snd r with
    | Ok -> r
    | x -> (((p.p_auxs, p.p_outs), p.g_scalars), x)

  (** val addr_ok : n -> bool **)

  let addr_ok c =
    (||) (N.eqb c (Npos XH)) (N.eqb c (Npos (XO XH)))

  (** val addr_bk : n -> n **)

  let addr_bk c =
    if N.eqb c (Npos (XO XH)) then Npos XH else N0

  (** val issue_validate : issue_args -> bool **)

  let issue_validate a =
    (&&)
      ((&&)
        ((&&)
          ((&&) (N.leb a.is_prec (Npos (XO (XO (XO XH)))))
            (negb (N.eqb a.is_contract (Npos (XO XH)))))
          (negb (N.eqb a.is_aaddr N0))) (addr_ok a.is_aaddr))
      ((||) (N.eqb a.is_tamt N0)
        ((&&) (negb (N.eqb a.is_taddr N0)) (addr_ok a.is_taddr)))

  (** val mk_out : n -> n -> n -> outp **)

  let mk_out amount addr bidx =
    { o_value = amount; o_assetlen = (Npos (XO (XO (XO (XO (XO XH))))));
      o_script = (Some (SWpkh N0)); o_bk = (addr_bk addr); o_bidx = bidx;
      o_blinded = false; o_redeem = None; o_wscript = None; o_bip32 = [] }

  (** val do_issue : pset -> z -> issue_args -> pset * outcome **)

  let do_issue p i a =
    if negb (issue_validate a)
    then (p, Err)
    else (match p.p_cores with
          | [] -> (p, Err)
          | _ :: _ ->
            (match in_index p i true with
             | Inl p0 ->
               let (p1, ax) = p0 in
               let (n0, c) = p1 in
               if ax.a_entropy
               then (p, Err)
               else if finalized ax
                    then (p, Err)
                    else if c.c_short
                         then (p, Err)
                         else let ax' =
                                set_a_blindediss (Some a.is_blinded)
                                  (set_a_nonce true
                                    (set_a_isskeys a.is_tamt
                                      (set_a_issval a.is_aamt
                                        (set_a_entropy true ax))))
                              in
                              let p2 =
                                upd p (set_nth n0 ax' p.p_auxs) p.p_outs
                                  p.g_scalars
                              in
                              let outs =
                                (mk_out a.is_aamt a.is_aaddr (Z.to_N i)) :: (
                                if N.ltb N0 a.is_tamt
                                then (mk_out a.is_tamt a.is_taddr (Z.to_N i)) :: []
                                else [])
                              in
                              (match add_outputs p2 outs with
                               | Some p3 -> publish p p3
                               | None -> (p, Err))
             | Inr o -> (p, o)))

  (** val reissue_validate : reissue_args -> bool **)

  let reissue_validate a =
    (&&)
      ((&&)
        ((&&)
          ((&&)
            ((&&)
              ((&&) ((&&) (N.eqb a.ri_blinder N0) (N.eqb a.ri_entropy N0))
                (negb (N.eqb a.ri_aamt N0))) (negb (N.eqb a.ri_tamt N0)))
            (negb (N.eqb a.ri_aaddr N0))) (addr_ok a.ri_aaddr))
        (negb (N.eqb a.ri_taddr N0))) (addr_ok a.ri_taddr)

  (** val do_reissue : pset -> z -> reissue_args -> pset * outcome **)

  let do_reissue p i a =
    match in_index p i true with
    | Inl p0 ->
      let (p1, ax) = p0 in
      let (n0, _) = p1 in
      if ax.a_entropy
      then (p, Err)
      else if negb (reissue_validate a)
           then (p, Err)
           else if finalized ax
                then (p, Err)
                else let bidx = fun addr ->
                       if N.eqb (addr_bk addr) N0 then N0 else Z.to_N i
                     in
                     let outs =
                       (mk_out a.ri_aamt a.ri_aaddr (bidx a.ri_aaddr)) :: (
                       (mk_out a.ri_tamt a.ri_taddr (bidx a.ri_taddr)) :: [])
                     in
                     (match add_outputs p outs with
                      | Some p2 ->
                        let ax' =
                          set_a_nonce true
                            (set_a_issval a.ri_aamt (set_a_entropy true ax))
                        in
                        let p3 =
                          upd p2 (set_nth n0 ax' p2.p_auxs) p2.p_outs
                            p2.g_scalars
                        in
                        publish p p3
                      | None -> (p, Err))
    | Inr o -> (p, o)

  (** val rest_sane : pset -> nat -> bool **)

  let rest_sane p n0 =
    sanity_parts (set_nth n0 aux0 p.p_auxs) p.p_outs p.g_scalars

  (** val blocked : pset -> bool **)

  let blocked p =
    existsb (fun o -> (&&) (needs_blinding_o o) (negb o.o_blinded)) p.p_outs

  (** val local_step :
      pset -> op -> ((aux list * outp list) * n list) * outcome **)

  let local_step p o =
    let same = ((p.p_auxs, p.p_outs), p.g_scalars) in
    (match o with
     | ONwUtxo (i, t) ->
       staged_parts p
         (on_input p i false (fun c a ->
           if (&&) (N.eqb c.c_t t) (negb c.c_short)
           then ((set_a_nwrp false (set_a_nw true a)), LSan)
           else (a, LErr)))
     | OWUtxo (i, u) ->
       staged_parts p (on_input p i false (fun _ a -> ((set_a_w u a), LSan)))
     | ORedeem (i, s) ->
       staged_parts p
         (on_input p i false (fun _ a -> ((set_a_redeem s a), LSan)))
     | OWScript (i, s) ->
       staged_parts p
         (on_input p i false (fun _ a -> ((set_a_wscript s a), LSan)))
     | OBip32 (i, k, pathne) ->
       staged_parts p
         (on_input p i false (fun _ a ->
           match k with
           | Some k0 ->
             if key_in k0 a.a_bip32
             then (a, LErr)
             else ((set_a_bip32 (app a.a_bip32 ((k0, pathne) :: [])) a), LSan)
           | None -> (a, LErr)))
     | OSighash (i, n0) ->
       staged_parts p
         (on_input p i false (fun _ a -> ((set_a_sighash n0 a), LSan)))
     | OUtxoRp (i, b) ->
       staged_parts p
         (on_input p i false (fun _ a -> ((set_a_urp b a), LSan)))
     | OExpAsset (i, lenok, proof) ->
       staged_parts p
         (on_input p i false (fun c a ->
           if negb lenok
           then (a, LErr)
           else if negb proof
                then (a, LErr)
                else (match get_utxo c a with
                      | GuNil -> (a, LErr)
                      | GuPanic -> (a, LPanic)
                      | GuSome (u, a') ->
                        if negb u.u_conf
                        then (a', LErr)
                        else ((set_a_assetproof true
                                (set_a_expasset (Npos (XO (XO (XO (XO (XO
                                  XH)))))) a')), LSan))))
     | OExpValue (i, v, proof) ->
       staged_parts p
         (on_input p i false (fun c a ->
           if N.eqb v N0
           then (a, LErr)
           else if negb proof
                then (a, LErr)
                else (match get_utxo c a with
                      | GuNil -> (a, LErr)
                      | GuPanic -> (a, LPanic)
                      | GuSome (u, a') ->
                        if negb u.u_conf
                        then (a', LErr)
                        else ((set_a_valproof true (set_a_expval v a')), LSan))))
     | OTapIk (i, len) ->
       staged_parts p
         (on_input p i false (fun _ a ->
           if N.ltb N0 a.a_tapik
           then (a, LErr)
           else ((set_a_tapik len a), LSan)))
     | OTapMr (i, len) ->
       staged_parts p
         (on_input p i false (fun _ a ->
           if N.ltb N0 a.a_tapmr
           then (a, LErr)
           else ((set_a_tapmr len a), LSan)))
     | OTapLeaf (i, l) ->
       staged_parts p
         (on_input p i false (fun _ a ->
           if existsb (fun x -> N.eqb x l) a.a_tapleaves
           then (a, LErr)
           else ((set_a_tapleaves (app a.a_tapleaves (l :: [])) a), LSan)))
     | OTapBip32 (i, d) ->
       staged_parts p
         (on_input p i false (fun _ a ->
           if existsb (fun x -> N.eqb x.tb_key d.tb_key) a.a_tapbip32
           then (a, LErr)
           else ((set_a_tapbip32 (app a.a_tapbip32 (d :: [])) a), LSan)))
     | OOutBip32 (i, k, pathne) ->
       staged_parts p
         (on_output p i (fun o0 ->
           match k with
           | Some k0 ->
             if key_in k0 o0.o_bip32
             then (o0, LErr)
             else ((set_o_bip32 (app o0.o_bip32 ((k0, pathne) :: [])) o0),
                    LSan)
           | None -> (o0, LErr)))
     | OOutRedeem (i, s) ->
       staged_parts p (on_output p i (fun o0 -> ((set_o_redeem s o0), LSan)))
     | OOutWScript (i, s) ->
       staged_parts p (on_output p i (fun o0 -> ((set_o_wscript s o0), LSan)))
     | OSign (i, sigok, h, k, rs, ws) ->
       (match in_index p i true with
        | Inl p0 ->
          let (p1, _) = p0 in
          let (n0, _) = p1 in
          staged_parts p
            (on_input p i true
              (sign_local (rest_sane p n0) (blocked p) sigok h k rs ws))
        | Inr o0 -> (same, o0))
     | OTapKeySig (i, len) ->
       staged_parts p
         (on_input p i true (fun _ a ->
           if finalized a
           then (a, LOk)
           else (match a.a_tapss with
                 | [] -> ((set_a_tapkeysig len a), LSan)
                 | _ :: _ -> (a, LErr))))
     | OTapScriptSig (i, s) ->
       staged_parts p
         (on_input p i true (fun _ a ->
           if finalized a
           then (a, LOk)
           else if N.ltb N0 a.a_tapkeysig
                then (a, LErr)
                else if negb
                          ((&&)
                            (N.eqb s.ts_pklen (Npos (XO (XO (XO (XO (XO
                              XH)))))))
                            (N.eqb s.ts_lhlen (Npos (XO (XO (XO (XO (XO
                              XH))))))))
                     then (a, LErr)
                     else if negb (siglen_ok s.ts_siglen)
                          then (a, LErr)
                          else if existsb (fun x ->
                                    (&&) (N.eqb x.ts_pk s.ts_pk)
                                      (N.eqb x.ts_leaf s.ts_leaf)) a.a_tapss
                               then (a, LErr)
                               else ((set_a_tapss (app a.a_tapss (s :: [])) a),
                                      LSan)))
     | OBlind a -> do_blind p a
     | OFinalize i ->
       if (||) (Z.ltb i Z0) (Z.leb (Z.of_nat (length p.p_auxs)) i)
       then (same, Panic)
       else (match nth_error p.p_cores (Z.to_nat i) with
             | Some c ->
               (match nth_error p.p_auxs (Z.to_nat i) with
                | Some a ->
                  let (a', r) = finalize_local c a in
                  let auxs = set_nth (Z.to_nat i) a' p.p_auxs in
                  (((auxs, p.p_outs), p.g_scalars),
                  (finish r (sanity_parts auxs p.p_outs p.g_scalars)))
                | None -> (same, Panic))
             | None -> (same, Panic))
     | OMaybeFinalize i ->
       if (||) (Z.ltb i Z0) (Z.leb (Z.of_nat (length p.p_auxs)) i)
       then (same, Panic)
       else (match nth_error p.p_cores (Z.to_nat i) with
             | Some c ->
               (match nth_error p.p_auxs (Z.to_nat i) with
                | Some a ->
                  let (a', r) = maybe_finalize_local c a in
                  let auxs = set_nth (Z.to_nat i) a' p.p_auxs in
                  (((auxs, p.p_outs), p.g_scalars),
                  (finish r (sanity_parts auxs p.p_outs p.g_scalars)))
                | None -> (same, Panic))
             | None -> (same, Panic))
     | OFinalizeAll ->
       let (auxs, o0) =
         finalize_loop finalize_local p.p_cores O (length p.p_cores) p.p_auxs
           p.p_outs p.g_scalars
       in
       staged_parts p (((auxs, p.p_outs), p.g_scalars), o0)
     | OMaybeFinalizeAll ->
       let (auxs, o0) =
         finalize_loop maybe_finalize_local p.p_cores O (length p.p_cores)
           p.p_auxs p.p_outs p.g_scalars
       in
       (((auxs, p.p_outs), p.g_scalars), o0)
     | _ -> (same, Ok))

  (** val set_flags : pset -> n option -> pset **)

  let set_flags p f =
    { g_nin = p.g_nin; g_nout = p.g_nout; g_flags = f; g_fallback =
      p.g_fallback; g_scalars = p.g_scalars; p_cores = p.p_cores; p_auxs =
      p.p_auxs; p_outs = p.p_outs }

  (** val step : pset -> op -> pset * outcome **)

  let step p o = match o with
  | OSetMod f -> ((set_flags p f), Ok)
  | OAddInputs l ->
    if negb (forallb (fun a -> N.eqb a.ia_cls N0) l)
    then (p, Err)
    else (match add_inputs p l with
          | Some p' -> publish p p'
          | None -> (p, Err))
  | OAddOutputs l ->
    if negb (forallb outarg_valid l)
    then (p, Err)
    else (match add_outputs p (map to_outp l) with
          | Some p' -> publish p p'
          | None -> (p, Err))
  | OIssue (i, a) -> do_issue p i a
  | OReissue (i, a) -> do_reissue p i a
  | _ ->
    let (p0, r) = local_step p o in
    let (p1, scalars) = p0 in
    let (auxs, outs) = p1 in ((upd p auxs outs scalars), r)

  (** val nodup_n : n list -> bool **)

  let rec nodup_n = function
  | [] -> true
  | x :: l' -> (&&) (negb (existsb (fun y -> N.eqb y x) l')) (nodup_n l')

  (** val core_reparses : core -> bool **)

  let core_reparses c =
    negb c.c_short

  (** val nodup_pairs : (n * n) list -> bool **)

  let rec nodup_pairs = function
  | [] -> true
  | x :: l' ->
    (&&)
      (negb
        (existsb (fun y ->
          (&&) (N.eqb (fst y) (fst x)) (N.eqb (snd y) (snd x))) l'))
      (nodup_pairs l')

  (** val aux_reparses : aux -> bool **)

  let aux_reparses a =
    (&&)
      ((&&)
        (forallb (fun s ->
          N.eqb (N.add s.ts_pklen s.ts_lhlen) (Npos (XO (XO (XO (XO (XO (XO
            XH)))))))) a.a_tapss)
        (nodup_pairs (map (fun s -> (s.ts_pk, s.ts_leaf)) a.a_tapss)))
      (nodup_n (map (fun t -> t.tb_key) a.a_tapbip32))

  (** val out_reparses : outp -> bool **)

  let out_reparses o =
    (&&) (N.eqb o.o_assetlen (Npos (XO (XO (XO (XO (XO XH)))))))
      (negb (N.eqb o.o_bk (Npos (XO XH))))

  (** val rt : pset -> bool **)

  let rt p =
    (&&)
      ((&&)
        ((&&)
          ((&&)
            ((&&)
              ((&&)
                ((&&) (sanity p)
                  (N.eqb p.g_nin (N.of_nat (length p.p_cores))))
                (N.eqb p.g_nout (N.of_nat (length p.p_outs))))
              (match p.g_flags with
               | Some f -> N.ltb f (Npos (XO (XO (XO XH))))
               | None -> true)) (nodup_n p.g_scalars))
          (forallb core_reparses p.p_cores)) (forallb aux_reparses p.p_auxs))
      (forallb out_reparses p.p_outs)

  type rtc =
  | RtSame
  | RtDiff
  | RtFail

  (** val rt_class : pset -> rtc **)

  let rt_class p =
    if rt p then RtSame else RtFail
 end

type ('g, 'c) prims = { p_hash : (bytes -> bytes);
                        p_ecdh : (bytes -> bytes -> bytes option);
                        p_gen_parse : (bytes -> 'g option);
                        p_gen_ser : ('g -> bytes);
                        p_gen_generate : (bytes -> 'g option);
                        p_gen_blinded : (bytes -> bytes -> 'g option);
                        p_commit_parse : (bytes -> 'c option);
                        p_commit_ser : ('c -> bytes);
                        p_commit : (bytes -> n -> 'g -> 'c option);
                        p_sign : (n -> 'c -> bytes -> bytes -> z -> z -> n ->
                                 bytes -> bytes -> 'g -> bytes option);
                        p_rewind : ('c -> bytes -> bytes -> bytes -> 'g ->
                                   ((bytes * n) * bytes) option);
                        p_verify : ('c -> bytes -> bytes -> 'g -> bool) }

type 'a ures =
| UOk of 'a
| UErr
| UPanic

(** val ub_zero32 : bytes **)

let ub_zero32 =
  repeat X00 (S (S (S (S (S (S (S (S (S (S (S (S (S (S (S (S (S (S (S (S (S
    (S (S (S (S (S (S (S (S (S (S (S O))))))))))))))))))))))))))))))))

(** val ub_fit : nat -> bytes -> bytes **)

let ub_fit n0 bs =
  firstn n0 (app bs (repeat X00 n0))

(** val ub_obind : 'a1 option -> ('a1 -> 'a2 option) -> 'a2 option **)

let ub_obind o f =
  match o with
  | Some a -> f a
  | None -> None

type unb_result = { u_value : n; u_asset : bytes; u_vbf : bytes; u_abf : bytes }

type rp_args = { ra_value : n; ra_nonce : bytes; ra_asset : bytes;
                 ra_abf : bytes; ra_vbf : bytes; ra_vcommit : bytes;
                 ra_script : bytes; ra_exp : z; ra_minbits : z }

(** val uB_OP_RETURN : n **)

let uB_OP_RETURN =
  Npos (XO (XI (XO (XI (XO (XI XH))))))

(** val ub_maxScriptSize : n **)

let ub_maxScriptSize =
  Npos (XO (XO (XO (XO (XI (XO (XO (XO (XI (XI (XI (XO (XO XH)))))))))))))

(** val is_unspendable : bytes -> bool **)

let is_unspendable script0 = match script0 with
| [] -> true
| b :: _ ->
  (||) (N.eqb (n8 b) uB_OP_RETURN) (N.ltb ub_maxScriptSize (lenN script0))

(** val ra_min_value : rp_args -> n **)

let ra_min_value a =
  if N.eqb a.ra_value N0
  then N0
  else if is_unspendable a.ra_script then N0 else Npos XH

(** val ra_exp_eff : rp_args -> z **)

let ra_exp_eff a =
  if (||) (Z.ltb a.ra_exp (Zneg XH))
       (Z.ltb (Zpos (XO (XI (XO (XO XH))))) a.ra_exp)
  then Z0
  else a.ra_exp

(** val ra_minbits_eff : rp_args -> z **)

let ra_minbits_eff a =
  if Z.leb a.ra_minbits Z0
  then Zpos (XO (XO (XI (XO (XI XH)))))
  else a.ra_minbits

(** val value_from_bytes : bytes -> n option **)

let value_from_bytes v = match v with
| [] -> None
| p :: r ->
  if (&&) (Nat.eqb (length v) (S (S (S (S (S (S (S (S (S O))))))))))
       (N.eqb (n8 p) (Npos XH))
  then Some (be_dec r)
  else None

(** val nonce_hash : ('a1, 'a2) prims -> bytes -> bytes -> bytes option **)

let nonce_hash p pub priv =
  option_map p.p_hash (p.p_ecdh pub priv)

(** val asset_commitment :
    ('a1, 'a2) prims -> bytes -> bytes -> bytes option **)

let asset_commitment p asset factor =
  option_map p.p_gen_ser (p.p_gen_blinded asset factor)

(** val value_commitment :
    ('a1, 'a2) prims -> n -> bytes -> bytes -> bytes option **)

let value_commitment p value generator factor =
  ub_obind (p.p_gen_parse generator) (fun g ->
    option_map p.p_commit_ser (p.p_commit factor value g))

(** val range_proof : ('a1, 'a2) prims -> rp_args -> bytes option **)

let range_proof p a =
  ub_obind (p.p_gen_blinded a.ra_asset a.ra_abf) (fun g ->
    let message = app a.ra_asset a.ra_abf in
    ub_obind (p.p_commit_parse a.ra_vcommit) (fun c ->
      p.p_sign (ra_min_value a) c a.ra_vbf a.ra_nonce (ra_exp_eff a)
        (ra_minbits_eff a) a.ra_value message a.ra_script g))

(** val verify_range_proof :
    ('a1, 'a2) prims -> bytes -> bytes -> bytes -> bytes -> bool **)

let verify_range_proof p vcommit acommit script0 proof =
  match p.p_commit_parse vcommit with
  | Some c ->
    (match p.p_gen_parse acommit with
     | Some g -> p.p_verify c proof script0 g
     | None -> false)
  | None -> false

(** val unblind_output :
    ('a1, 'a2) prims -> txout -> bytes -> unb_result ures **)

let unblind_output p o nonce =
  if Nat.eqb (length o.o_rp) O
  then UErr
  else (match p.p_commit_parse o.o_value with
        | Some c ->
          (match if Nat.eqb (length o.o_asset) (S (S (S (S (S (S (S (S (S (S
                      (S (S (S (S (S (S (S (S (S (S (S (S (S (S (S (S (S (S
                      (S (S (S (S (S O)))))))))))))))))))))))))))))))))
                 then p.p_gen_parse o.o_asset
                 else p.p_gen_generate o.o_asset with
           | Some g ->
             (match p.p_rewind c o.o_rp nonce o.o_script g with
              | Some p0 ->
                let (p1, message) = p0 in
                let (vbf, v) = p1 in
                if Nat.ltb (length message) (S (S (S (S (S (S (S (S (S (S (S
                     (S (S (S (S (S (S (S (S (S (S (S (S (S (S (S (S (S (S (S
                     (S (S O))))))))))))))))))))))))))))))))
                then UPanic
                else UOk { u_value = v; u_asset =
                       (firstn (S (S (S (S (S (S (S (S (S (S (S (S (S (S (S
                         (S (S (S (S (S (S (S (S (S (S (S (S (S (S (S (S (S
                         O)))))))))))))))))))))))))))))))) message); u_vbf =
                       vbf; u_abf =
                       (skipn (S (S (S (S (S (S (S (S (S (S (S (S (S (S (S (S
                         (S (S (S (S (S (S (S (S (S (S (S (S (S (S (S (S
                         O)))))))))))))))))))))))))))))))) message) }
              | None -> UErr)
           | None -> UErr)
        | None -> UErr)

(** val unblind_explicit : txout -> unb_result ures **)

let unblind_explicit o =
  match value_from_bytes o.o_value with
  | Some v ->
    (match o.o_asset with
     | [] -> UPanic
     | _ :: a ->
       UOk { u_value = v; u_asset = a; u_vbf = ub_zero32; u_abf = ub_zero32 })
  | None -> UErr

(** val unblind_with_key :
    ('a1, 'a2) prims -> txout -> bytes -> unb_result ures **)

let unblind_with_key p o blind_key =
  if negb (is_conf_out o)
  then unblind_explicit o
  else (match nonce_hash p o.o_nonce blind_key with
        | Some nonce -> unblind_output p o nonce
        | None -> UErr)

(** val unblind_with_nonce :
    ('a1, 'a2) prims -> txout -> bytes -> unb_result ures **)

let unblind_with_nonce p o nonce =
  if negb (is_conf_out o)
  then unblind_explicit o
  else unblind_output p o
         (ub_fit (S (S (S (S (S (S (S (S (S (S (S (S (S (S (S (S (S (S (S (S
           (S (S (S (S (S (S (S (S (S (S (S (S
           O)))))))))))))))))))))))))))))))) nonce)

(** val ub_is_reissuance : issuance -> bool **)

let ub_is_reissuance s =
  negb (bytes_eqb s.iss_nonce ub_zero32)

(** val has_token_amount : issuance -> bool **)

let has_token_amount s =
  Nat.ltb (S O) (length s.iss_token)

(** val ub_compute_entropy : bytes -> n -> bytes -> bytes option **)

let ub_compute_entropy hash index0 contract =
  if Nat.eqb (length hash) (S (S (S (S (S (S (S (S (S (S (S (S (S (S (S (S (S
       (S (S (S (S (S (S (S (S (S (S (S (S (S (S (S
       O))))))))))))))))))))))))))))))))
  then Some
         (midstate256
           (app (dsha256 (app hash (le_enc (S (S (S (S O)))) index0)))
             contract))
  else None

(** val ub_compute_asset : bytes -> bytes option **)

let ub_compute_asset entropy =
  if Nat.eqb (length entropy) (S (S (S (S (S (S (S (S (S (S (S (S (S (S (S (S
       (S (S (S (S (S (S (S (S (S (S (S (S (S (S (S (S
       O))))))))))))))))))))))))))))))))
  then Some (midstate256 (app entropy ub_zero32))
  else None

(** val ub_compute_token : bytes -> n -> bytes option **)

let ub_compute_token entropy flag =
  if Nat.eqb (length entropy) (S (S (S (S (S (S (S (S (S (S (S (S (S (S (S (S
       (S (S (S (S (S (S (S (S (S (S (S (S (S (S (S (S
       O))))))))))))))))))))))))))))))))
  then Some
         (midstate256
           (app entropy
             ((b8 (N.add flag (Npos XH))) :: (repeat X00 (S (S (S (S (S (S (S
                                               (S (S (S (S (S (S (S (S (S (S
                                               (S (S (S (S (S (S (S (S (S (S
                                               (S (S (S (S
                                               O)))))))))))))))))))))))))))))))))))
  else None

(** val issuance_entropy : txin -> issuance -> bytes option **)

let issuance_entropy i s =
  if ub_is_reissuance s
  then Some s.iss_entropy
  else ub_compute_entropy i.in_hash i.in_index s.iss_entropy

(** val calc_asset_hash : txin -> issuance -> bytes option **)

let calc_asset_hash i s =
  ub_obind (issuance_entropy i s) ub_compute_asset

(** val calc_token_hash : txin -> issuance -> bytes option **)

let calc_token_hash i s =
  ub_obind (issuance_entropy i s) (fun e -> ub_compute_token e (Npos XH))

(** val unblind_issuance_amount :
    ('a1, 'a2) prims -> txout -> bytes -> unb_result ures **)

let unblind_issuance_amount p o key =
  match unblind_output p o
          (ub_fit (S (S (S (S (S (S (S (S (S (S (S (S (S (S (S (S (S (S (S (S
            (S (S (S (S (S (S (S (S (S (S (S (S
            O)))))))))))))))))))))))))))))))) key) with
  | UOk u ->
    UOk { u_value = u.u_value; u_asset = o.o_asset; u_vbf = u.u_vbf; u_abf =
      ub_zero32 }
  | x -> x

(** val unblind_issuance :
    ('a1, 'a2) prims -> txin -> bytes list -> (unb_result * unb_result
    option) ures **)

let unblind_issuance p i = function
| [] -> UErr
| k0 :: l ->
  (match l with
   | [] -> UErr
   | k1 :: _ ->
     (match i.in_iss with
      | Some s ->
        if Nat.eqb (length i.in_irp) O
        then UErr
        else if (&&) (has_token_amount s) (Nat.eqb (length i.in_inrp) O)
             then UErr
             else (match calc_asset_hash i s with
                   | Some asset ->
                     let oa = { o_asset = asset; o_value = s.iss_amount;
                       o_script = []; o_nonce = []; o_rp = i.in_irp; o_sp =
                       [] }
                     in
                     if has_token_amount s
                     then (match calc_token_hash i s with
                           | Some token ->
                             let ot = { o_asset = token; o_value =
                               s.iss_token; o_script = []; o_nonce = [];
                               o_rp = i.in_inrp; o_sp = [] }
                             in
                             (match unblind_issuance_amount p oa k0 with
                              | UOk ua ->
                                (match unblind_issuance_amount p ot k1 with
                                 | UOk ut -> UOk (ua, (Some ut))
                                 | UErr -> UErr
                                 | UPanic -> UPanic)
                              | UErr -> UErr
                              | UPanic -> UPanic)
                           | None -> UErr)
                     else (match unblind_issuance_amount p oa k0 with
                           | UOk ua -> UOk (ua, None)
                           | UErr -> UErr
                           | UPanic -> UPanic)
                   | None -> UErr)
      | None -> UErr))

type ub_blinded = { bl_asset : bytes; bl_value : bytes; bl_nonce : bytes;
                    bl_proof : bytes }

(** val blind_output :
    ('a1, 'a2) prims -> n -> bytes -> bytes -> bytes -> bytes -> bytes ->
    bytes -> z -> z -> ub_blinded option **)

let blind_output p value asset abf vbf script0 blinding_pub eph_priv exp minbits =
  ub_obind (asset_commitment p asset abf) (fun ac ->
    ub_obind (value_commitment p value ac vbf) (fun vc ->
      ub_obind (nonce_hash p blinding_pub eph_priv) (fun nonce ->
        ub_obind
          (range_proof p { ra_value = value; ra_nonce = nonce; ra_asset =
            asset; ra_abf = abf; ra_vbf =
            (ub_fit (S (S (S (S (S (S (S (S (S (S (S (S (S (S (S (S (S (S (S
              (S (S (S (S (S (S (S (S (S (S (S (S (S
              O)))))))))))))))))))))))))))))))) vbf); ra_vcommit = vc;
            ra_script = script0; ra_exp = exp; ra_minbits = minbits })
          (fun proof -> Some { bl_asset = ac; bl_value = vc; bl_nonce =
          nonce; bl_proof = proof }))))

(** val blind_issuance_amount :
    ('a1, 'a2) prims -> n -> bytes -> bytes -> bytes -> ub_blinded option **)

let blind_issuance_amount p value asset vbf key =
  ub_obind (asset_commitment p asset ub_zero32) (fun ac ->
    ub_obind (value_commitment p value ac vbf) (fun vc ->
      ub_obind
        (range_proof p { ra_value = value; ra_nonce =
          (ub_fit (S (S (S (S (S (S (S (S (S (S (S (S (S (S (S (S (S (S (S (S
            (S (S (S (S (S (S (S (S (S (S (S (S
            O)))))))))))))))))))))))))))))))) key); ra_asset = asset;
          ra_abf = ub_zero32; ra_vbf =
          (ub_fit (S (S (S (S (S (S (S (S (S (S (S (S (S (S (S (S (S (S (S (S
            (S (S (S (S (S (S (S (S (S (S (S (S
            O)))))))))))))))))))))))))))))))) vbf); ra_vcommit = vc;
          ra_script = []; ra_exp = Z0; ra_minbits = (Zpos (XO (XO (XI (XO (XI
          XH)))))) }) (fun proof -> Some { bl_asset = ac; bl_value = vc;
        bl_nonce =
        (ub_fit (S (S (S (S (S (S (S (S (S (S (S (S (S (S (S (S (S (S (S (S
          (S (S (S (S (S (S (S (S (S (S (S (S
          O)))))))))))))))))))))))))))))))) key); bl_proof = proof })))

(** val last_value_range_proof :
    ('a1, 'a2) prims -> n -> bytes -> bytes -> bytes -> bytes -> bytes ->
    bytes -> bytes option **)

let last_value_range_proof p value asset abf vcommit vbf script0 nonce =
  range_proof p { ra_value = value; ra_nonce =
    (ub_fit (S (S (S (S (S (S (S (S (S (S (S (S (S (S (S (S (S (S (S (S (S (S
      (S (S (S (S (S (S (S (S (S (S O)))))))))))))))))))))))))))))))) nonce);
    ra_asset = asset; ra_abf = abf; ra_vbf =
    (ub_fit (S (S (S (S (S (S (S (S (S (S (S (S (S (S (S (S (S (S (S (S (S (S
      (S (S (S (S (S (S (S (S (S (S O)))))))))))))))))))))))))))))))) vbf);
    ra_vcommit = vcommit; ra_script = script0; ra_exp = Z0; ra_minbits =
    (Zpos (XO (XO (XI (XO (XI XH)))))) }

type sign_entry = { se_min : n; se_commit : bytes; se_vbf : bytes;
                    se_nonce : bytes; se_exp : z; se_mb : z; se_value : 
                    n; se_msg : bytes; se_extra : bytes; se_gen : bytes;
                    se_proof : bytes option }

type ub_oracle = { or_ecdh : ((bytes * bytes) * bytes option) list;
                   or_genb : ((bytes * bytes) * bytes option) list;
                   or_geng : (bytes * bytes option) list;
                   or_commit : (((bytes * n) * bytes) * bytes option) list;
                   or_sign : sign_entry list }

(** val obytes_eqb : bytes option -> bytes option -> bool **)

let obytes_eqb a b =
  match a with
  | Some x -> (match b with
               | Some y -> bytes_eqb x y
               | None -> false)
  | None -> (match b with
             | Some _ -> false
             | None -> true)

(** val lookup2 :
    ((bytes * bytes) * bytes option) list -> bytes -> bytes -> bytes option **)

let rec lookup2 l a b =
  match l with
  | [] -> None
  | p :: l' ->
    let (p0, r) = p in
    let (x, y) = p0 in
    if (&&) (bytes_eqb x a) (bytes_eqb y b) then r else lookup2 l' a b

(** val lookup1 : (bytes * bytes option) list -> bytes -> bytes option **)

let rec lookup1 l a =
  match l with
  | [] -> None
  | p :: l' -> let (x, r) = p in if bytes_eqb x a then r else lookup1 l' a

(** val lookup_commit :
    (((bytes * n) * bytes) * bytes option) list -> bytes -> n -> bytes ->
    bytes option **)

let rec lookup_commit l blind v g =
  match l with
  | [] -> None
  | p :: l' ->
    let (p0, r) = p in
    let (p1, y) = p0 in
    let (x, w) = p1 in
    if (&&) ((&&) (bytes_eqb x blind) (N.eqb w v)) (bytes_eqb y g)
    then r
    else lookup_commit l' blind v g

(** val se_args_eqb :
    sign_entry -> n -> bytes -> bytes -> bytes -> z -> z -> n -> bytes ->
    bytes -> bytes -> bool **)

let se_args_eqb e mn c vbf nonce ex mb v msg extra g =
  (&&)
    ((&&)
      ((&&)
        ((&&)
          ((&&)
            ((&&)
              ((&&)
                ((&&) ((&&) (N.eqb e.se_min mn) (bytes_eqb e.se_commit c))
                  (bytes_eqb e.se_vbf vbf)) (bytes_eqb e.se_nonce nonce))
              (Z.eqb e.se_exp ex)) (Z.eqb e.se_mb mb)) (N.eqb e.se_value v))
        (bytes_eqb e.se_msg msg)) (bytes_eqb e.se_extra extra))
    (bytes_eqb e.se_gen g)

(** val lookup_sign :
    sign_entry list -> n -> bytes -> bytes -> bytes -> z -> z -> n -> bytes
    -> bytes -> bytes -> bytes option **)

let rec lookup_sign l mn c vbf nonce ex mb v msg extra g =
  match l with
  | [] -> None
  | e :: l' ->
    if se_args_eqb e mn c vbf nonce ex mb v msg extra g
    then e.se_proof
    else lookup_sign l' mn c vbf nonce ex mb v msg extra g

(** val find_proof : sign_entry list -> bytes -> sign_entry option **)

let rec find_proof l proof =
  match l with
  | [] -> None
  | e :: l' ->
    if obytes_eqb e.se_proof (Some proof) then Some e else find_proof l' proof

(** val has_prefix : bytes -> n -> n -> bool **)

let has_prefix b p q =
  match b with
  | [] -> false
  | x :: _ -> (||) (N.eqb (n8 x) p) (N.eqb (n8 x) q)

(** val oracle_rewind :
    ub_oracle -> bytes -> bytes -> bytes -> bytes -> bytes ->
    ((bytes * n) * bytes) option **)

let oracle_rewind t c proof nonce extra g =
  match find_proof t.or_sign proof with
  | Some e ->
    if (&&)
         ((&&) ((&&) (bytes_eqb e.se_commit c) (bytes_eqb e.se_nonce nonce))
           (bytes_eqb e.se_extra extra)) (bytes_eqb e.se_gen g)
    then Some ((e.se_vbf, e.se_value),
           (ub_fit (S (S (S (S (S (S (S (S (S (S (S (S (S (S (S (S (S (S (S
             (S (S (S (S (S (S (S (S (S (S (S (S (S (S (S (S (S (S (S (S (S
             (S (S (S (S (S (S (S (S (S (S (S (S (S (S (S (S (S (S (S (S (S
             (S (S (S
             O))))))))))))))))))))))))))))))))))))))))))))))))))))))))))))))))
             e.se_msg))
    else None
  | None -> None

(** val oracle_verify :
    ub_oracle -> bytes -> bytes -> bytes -> bytes -> bool **)

let oracle_verify t c proof extra g =
  match find_proof t.or_sign proof with
  | Some e ->
    (&&) ((&&) (bytes_eqb e.se_commit c) (bytes_eqb e.se_extra extra))
      (bytes_eqb e.se_gen g)
  | None -> false

(** val oracle_prims : ub_oracle -> (bytes, bytes) prims **)

let oracle_prims t =
  { p_hash = sha256; p_ecdh = (lookup2 t.or_ecdh); p_gen_parse = (fun b ->
    if (&&)
         (Nat.eqb (length b) (S (S (S (S (S (S (S (S (S (S (S (S (S (S (S (S
           (S (S (S (S (S (S (S (S (S (S (S (S (S (S (S (S (S
           O))))))))))))))))))))))))))))))))))
         (has_prefix b (Npos (XO (XI (XO XH)))) (Npos (XI (XI (XO XH)))))
    then Some b
    else None); p_gen_ser = (fun g -> g); p_gen_generate =
    (lookup1 t.or_geng); p_gen_blinded = (lookup2 t.or_genb);
    p_commit_parse = (fun b ->
    if (&&)
         (Nat.eqb (length b) (S (S (S (S (S (S (S (S (S (S (S (S (S (S (S (S
           (S (S (S (S (S (S (S (S (S (S (S (S (S (S (S (S (S
           O))))))))))))))))))))))))))))))))))
         (has_prefix b (Npos (XO (XO (XO XH)))) (Npos (XI (XO (XO XH)))))
    then Some b
    else None); p_commit_ser = (fun c -> c); p_commit =
    (lookup_commit t.or_commit); p_sign = (lookup_sign t.or_sign); p_rewind =
    (oracle_rewind t); p_verify = (oracle_verify t) }

(** val o_nonce_hash : ub_oracle -> bytes -> bytes -> bytes option **)

let o_nonce_hash t =
  nonce_hash (oracle_prims t)

(** val o_asset_commitment : ub_oracle -> bytes -> bytes -> bytes option **)

let o_asset_commitment t =
  asset_commitment (oracle_prims t)

(** val o_value_commitment :
    ub_oracle -> n -> bytes -> bytes -> bytes option **)

let o_value_commitment t =
  value_commitment (oracle_prims t)

(** val o_range_proof : ub_oracle -> rp_args -> bytes option **)

let o_range_proof t =
  range_proof (oracle_prims t)

(** val o_verify_range_proof :
    ub_oracle -> bytes -> bytes -> bytes -> bytes -> bool **)

let o_verify_range_proof t =
  verify_range_proof (oracle_prims t)

(** val o_blind_output :
    ub_oracle -> n -> bytes -> bytes -> bytes -> bytes -> bytes -> bytes -> z
    -> z -> ub_blinded option **)

let o_blind_output t =
  blind_output (oracle_prims t)

(** val o_blind_issuance_amount :
    ub_oracle -> n -> bytes -> bytes -> bytes -> ub_blinded option **)

let o_blind_issuance_amount t =
  blind_issuance_amount (oracle_prims t)

(** val o_unblind_with_key :
    ub_oracle -> txout -> bytes -> unb_result ures **)

let o_unblind_with_key t =
  unblind_with_key (oracle_prims t)

(** val o_unblind_with_nonce :
    ub_oracle -> txout -> bytes -> unb_result ures **)

let o_unblind_with_nonce t =
  unblind_with_nonce (oracle_prims t)

(** val o_unblind_issuance :
    ub_oracle -> txin -> bytes list -> (unb_result * unb_result option) ures **)

let o_unblind_issuance t =
  unblind_issuance (oracle_prims t)

(** val o_last_value_range_proof :
    ub_oracle -> n -> bytes -> bytes -> bytes -> bytes -> bytes -> bytes ->
    bytes option **)

let o_last_value_range_proof t =
  last_value_range_proof (oracle_prims t)

type owned_input = { ow_index : n; ow_value : n; ow_asset : bytes;
                     ow_vbf : bytes; ow_abf : bytes }

type gen_keys =
| GKeys of bytes list
| GMaster of (bytes -> bytes)

(** val keys_for : gen_keys -> txout -> bytes list **)

let keys_for gk o =
  match gk with
  | GKeys ks -> ks
  | GMaster d -> (d o.o_script) :: []

(** val try_keys :
    ('a1, 'a2) prims -> bytes list -> txout -> unb_result ures **)

let rec try_keys p ks o =
  match ks with
  | [] -> UErr
  | k :: r ->
    (match unblind_with_key p o k with
     | UErr -> try_keys p r o
     | x -> x)

(** val gen_unblind_output :
    ('a1, 'a2) prims -> gen_keys -> txout -> unb_result ures **)

let gen_unblind_output p gk o =
  if negb (is_conf_out o)
  then (match o.o_asset with
        | [] -> UPanic
        | _ :: a ->
          UOk { u_value =
            (match value_from_bytes o.o_value with
             | Some v -> v
             | None -> N0); u_asset = a; u_vbf = ub_zero32; u_abf =
            ub_zero32 })
  else try_keys p (keys_for gk o) o

(** val unblind_each :
    ('a1, 'a2) prims -> gen_keys -> txout list -> n list -> owned_input list
    ures **)

let rec unblind_each p gk prevouts0 = function
| [] -> UOk []
| i :: r ->
  (match nth_error prevouts0 (N.to_nat i) with
   | Some o ->
     (match gen_unblind_output p gk o with
      | UOk u ->
        (match unblind_each p gk prevouts0 r with
         | UOk l ->
           UOk ({ ow_index = i; ow_value = u.u_value; ow_asset = u.u_asset;
             ow_vbf = u.u_vbf; ow_abf = u.u_abf } :: l)
         | x -> x)
      | UErr -> UErr
      | UPanic -> UPanic)
   | None -> UPanic)

(** val unblind_inputs :
    ('a1, 'a2) prims -> gen_keys -> txout list -> n list -> owned_input list
    ures **)

let unblind_inputs p gk prevouts0 idxs =
  if existsb (fun i -> N.leb (N.of_nat (length prevouts0)) i) idxs
  then UErr
  else let idxs' =
         match idxs with
         | [] -> map N.of_nat (seq O (length prevouts0))
         | _ :: _ -> idxs
       in
       unblind_each p gk prevouts0 idxs'

type packet = txout list * n list

(** val gen_step :
    ('a1, 'a2) prims -> gen_keys -> packet -> gen_keys * owned_input list ures **)

let gen_step p st0 p0 =
  (st0, (unblind_inputs p st0 (fst p0) (snd p0)))

(** val gen_run :
    ('a1, 'a2) prims -> gen_keys -> packet list -> gen_keys * owned_input
    list ures list **)

let rec gen_run p st0 = function
| [] -> (st0, [])
| p0 :: r ->
  let (st1, res0) = gen_step p st0 p0 in
  let (st2, rs) = gen_run p st1 r in (st2, (res0 :: rs))

(** val o_gen_run :
    ub_oracle -> gen_keys -> packet list -> gen_keys * owned_input list ures
    list **)

let o_gen_run t =
  gen_run (oracle_prims t)

(** val g_BLECH32 : z **)

let g_BLECH32 =
  Zpos XH

(** val g_BLECH32M : z **)

let g_BLECH32M =
  Zpos (XI (XO (XO (XO (XO (XI (XO (XI (XI (XI (XI (XO (XI (XI (XI (XI (XO
    (XO (XO (XO (XI (XO (XI (XO (XI (XI (XO (XO (XI (XI (XO (XO (XO (XI (XO
    (XI (XO (XI (XO (XO (XI (XI (XI (XO (XI (XO (XO (XI (XI (XO (XI (XO (XI
    (XO (XI (XO (XO (XO
    XH))))))))))))))))))))))))))))))))))))))))))))))))))))))))))

(** val g_gen : z list **)

let g_gen =
  (Zpos (XO (XI (XI (XO (XO (XO (XO (XI (XO (XO (XO (XI (XI (XO (XI (XI (XI
    (XI (XO (XI (XO (XO (XO (XO (XO (XO (XI (XO (XO (XI (XO (XI (XI (XI (XO
    (XI (XI (XI (XI (XI (XO (XI (XO (XO (XI (XO (XI (XO (XI (XO (XI (XI (XI
    (XI XH))))))))))))))))))))))))))))))))))))))))))))))))))))))) :: ((Zpos
    (XO (XO (XI (XI (XO (XO (XO (XO (XI (XO (XI (XO (XI (XO (XO (XI (XI (XI
    (XO (XO (XO (XO (XO (XO (XO (XI (XO (XI (XI (XO (XO (XO (XI (XI (XI (XI
    (XI (XI (XO (XI (XI (XO (XI (XI (XO (XO (XO (XI (XO (XI (XI (XI (XI (XO
    XH))))))))))))))))))))))))))))))))))))))))))))))))))))))) :: ((Zpos (XO
    (XO (XO (XI (XI (XO (XO (XO (XO (XI (XO (XI (XO (XI (XO (XO (XI (XI (XI
    (XO (XO (XO (XO (XO (XO (XO (XI (XO (XI (XI (XI (XO (XO (XO (XI (XI (XI
    (XI (XO (XO (XO (XI (XO (XI (XI (XI (XO (XO (XO (XO (XI (XI
    XH))))))))))))))))))))))))))))))))))))))))))))))))))))) :: ((Zpos (XI (XO
    (XO (XI (XI (XI (XO (XO (XI (XO (XO (XO (XI (XO (XI (XO (XO (XI (XI (XI
    (XO (XO (XO (XO (XO (XI (XO (XI (XI (XI (XI (XI (XO (XI (XO (XO (XI (XI
    (XI (XO (XI (XO (XI (XI (XI (XO (XI (XO (XO (XO (XO (XI (XI
    XH)))))))))))))))))))))))))))))))))))))))))))))))))))))) :: ((Zpos (XI
    (XI (XO (XI (XI (XO (XI (XO (XO (XI (XI (XO (XO (XO (XO (XI (XO (XO (XO
    (XI (XO (XO (XO (XO (XO (XI (XI (XO (XO (XI (XO (XI (XI (XO (XI (XO (XO
    (XI (XI (XI (XI (XI (XO (XO (XI (XO (XO (XI (XO (XO (XO (XO (XI (XI
    XH))))))))))))))))))))))))))))))))))))))))))))))))))))))) :: []))))

(** val g_charset : z list **)

let g_charset =
  (Zpos (XI (XO (XO (XO (XI (XI XH))))))) :: ((Zpos (XO (XO (XO (XO (XI (XI
    XH))))))) :: ((Zpos (XO (XI (XO (XI (XI (XI XH))))))) :: ((Zpos (XO (XI
    (XO (XO (XI (XI XH))))))) :: ((Zpos (XI (XO (XO (XI (XI (XI
    XH))))))) :: ((Zpos (XI (XO (XO (XI (XI XH)))))) :: ((Zpos (XO (XO (XO
    (XI (XI (XI XH))))))) :: ((Zpos (XO (XO (XO (XI (XI XH)))))) :: ((Zpos
    (XI (XI (XI (XO (XO (XI XH))))))) :: ((Zpos (XO (XI (XI (XO (XO (XI
    XH))))))) :: ((Zpos (XO (XI (XO (XO (XI XH)))))) :: ((Zpos (XO (XO (XI
    (XO (XI (XI XH))))))) :: ((Zpos (XO (XI (XI (XO (XI (XI
    XH))))))) :: ((Zpos (XO (XO (XI (XO (XO (XI XH))))))) :: ((Zpos (XI (XI
    (XI (XO (XI (XI XH))))))) :: ((Zpos (XO (XO (XO (XO (XI
    XH)))))) :: ((Zpos (XI (XI (XO (XO (XI (XI XH))))))) :: ((Zpos (XI (XI
    (XO (XO (XI XH)))))) :: ((Zpos (XO (XI (XO (XI (XO (XI
    XH))))))) :: ((Zpos (XO (XI (XI (XI (XO (XI XH))))))) :: ((Zpos (XI (XO
    (XI (XO (XI XH)))))) :: ((Zpos (XO (XO (XI (XO (XI XH)))))) :: ((Zpos (XI
    (XI (XO (XI (XO (XI XH))))))) :: ((Zpos (XO (XO (XO (XI (XO (XI
    XH))))))) :: ((Zpos (XI (XI (XO (XO (XO (XI XH))))))) :: ((Zpos (XI (XO
    (XI (XO (XO (XI XH))))))) :: ((Zpos (XO (XI (XI (XO (XI
    XH)))))) :: ((Zpos (XI (XO (XI (XI (XO (XI XH))))))) :: ((Zpos (XI (XO
    (XI (XO (XI (XI XH))))))) :: ((Zpos (XI (XO (XO (XO (XO (XI
    XH))))))) :: ((Zpos (XI (XI (XI (XO (XI XH)))))) :: ((Zpos (XO (XO (XI
    (XI (XO (XI XH))))))) :: [])))))))))))))))))))))))))))))))

module B32 =
 struct
  (** val coq_BLECH32 : n **)

  let coq_BLECH32 =
    Z.to_N g_BLECH32

  (** val coq_BLECH32M : n **)

  let coq_BLECH32M =
    Z.to_N g_BLECH32M

  (** val gen : n list **)

  let gen =
    map Z.to_N g_gen

  (** val charset : bytes **)

  let charset =
    map (fun z0 -> b8 (Z.to_N z0)) g_charset

  (** val encoding_of_version : byte -> n option **)

  let encoding_of_version v =
    if N.eqb (n8 v) N0
    then Some coq_BLECH32
    else if N.eqb (n8 v) (Npos XH) then Some coq_BLECH32M else None

  (** val apply_gen : n -> n list -> n -> n -> n **)

  let rec apply_gen b gs i acc =
    match gs with
    | [] -> acc
    | g :: r ->
      apply_gen b r (N.add i (Npos XH))
        (if N.testbit b i then N.coq_lxor acc g else acc)

  (** val mask55 : n **)

  let mask55 =
    Npos (XI (XI (XI (XI (XI (XI (XI (XI (XI (XI (XI (XI (XI (XI (XI (XI (XI
      (XI (XI (XI (XI (XI (XI (XI (XI (XI (XI (XI (XI (XI (XI (XI (XI (XI (XI
      (XI (XI (XI (XI (XI (XI (XI (XI (XI (XI (XI (XI (XI (XI (XI (XI (XI (XI
      (XI XH))))))))))))))))))))))))))))))))))))))))))))))))))))))

  (** val polymod_step : n -> n -> n **)

  let polymod_step chk v =
    let b = N.shiftr chk (Npos (XI (XI (XI (XO (XI XH)))))) in
    apply_gen b gen N0
      (N.coq_lxor (N.shiftl (N.coq_land chk mask55) (Npos (XI (XO XH)))) v)

  (** val polymod_from : n -> n list -> n **)

  let polymod_from chk values =
    fold_left polymod_step values chk

  (** val polymod : n list -> n **)

  let polymod values =
    polymod_from (Npos XH) values

  (** val hrp_expand : bytes -> n list **)

  let hrp_expand hrp =
    app (map (fun c -> N.shiftr (n8 c) (Npos (XI (XO XH)))) hrp)
      (app (N0 :: [])
        (map (fun c -> N.coq_land (n8 c) (Npos (XI (XI (XI (XI XH)))))) hrp))

  (** val ints : bytes -> n list **)

  let ints data =
    map n8 data

  (** val idx12 : n list **)

  let idx12 =
    N0 :: ((Npos XH) :: ((Npos (XO XH)) :: ((Npos (XI XH)) :: ((Npos (XO (XO
      XH))) :: ((Npos (XI (XO XH))) :: ((Npos (XO (XI XH))) :: ((Npos (XI (XI
      XH))) :: ((Npos (XO (XO (XO XH)))) :: ((Npos (XI (XO (XO
      XH)))) :: ((Npos (XO (XI (XO XH)))) :: ((Npos (XI (XI (XO
      XH)))) :: [])))))))))))

  (** val checksum_symbols : n -> bytes **)

  let checksum_symbols pm =
    map (fun i ->
      b8
        (N.coq_land
          (N.shiftr pm
            (N.mul (Npos (XI (XO XH))) (N.sub (Npos (XI (XI (XO XH)))) i)))
          (Npos (XI (XI (XI (XI XH))))))) idx12

  (** val create_checksum : bytes -> bytes -> n -> bytes **)

  let create_checksum hrp data enc =
    let values =
      app (hrp_expand hrp)
        (app (ints data)
          (repeat N0 (S (S (S (S (S (S (S (S (S (S (S (S O))))))))))))))
    in
    checksum_symbols (N.coq_lxor (polymod values) enc)

  (** val verify_checksum : bytes -> bytes -> n -> bool **)

  let verify_checksum hrp data enc =
    N.eqb (polymod (app (hrp_expand hrp) (ints data))) enc

  (** val index_of : byte -> bytes -> n -> n option **)

  let rec index_of c l i =
    match l with
    | [] -> None
    | x :: r -> if beqb x c then Some i else index_of c r (N.add i (Npos XH))

  (** val to_bytes : bytes -> bytes option **)

  let rec to_bytes = function
  | [] -> Some []
  | c :: r ->
    (match index_of c charset N0 with
     | Some i ->
       (match to_bytes r with
        | Some d -> Some ((b8 i) :: d)
        | None -> None)
     | None -> None)

  (** val nth_opt : 'a1 list -> n -> 'a1 option **)

  let rec nth_opt l i =
    match l with
    | [] -> None
    | x :: r -> if N.eqb i N0 then Some x else nth_opt r (N.sub i (Npos XH))

  (** val to_chars : bytes -> bytes option **)

  let rec to_chars = function
  | [] -> Some []
  | b :: r ->
    (match nth_opt charset (n8 b) with
     | Some c ->
       (match to_chars r with
        | Some s -> Some (c :: s)
        | None -> None)
     | None -> None)

  (** val to_lower : byte -> byte **)

  let to_lower c =
    if (&&) (N.leb (Npos (XI (XO (XO (XO (XO (XO XH))))))) (n8 c))
         (N.leb (n8 c) (Npos (XO (XI (XO (XI (XI (XO XH))))))))
    then b8 (N.add (n8 c) (Npos (XO (XO (XO (XO (XO XH)))))))
    else c

  (** val to_upper : byte -> byte **)

  let to_upper c =
    if (&&) (N.leb (Npos (XI (XO (XO (XO (XO (XI XH))))))) (n8 c))
         (N.leb (n8 c) (Npos (XO (XI (XO (XI (XI (XI XH))))))))
    then b8 (N.sub (n8 c) (Npos (XO (XO (XO (XO (XO XH)))))))
    else c

  (** val sep : byte **)

  let sep =
    X31

  (** val last_index_from :
      byte -> bytes -> nat -> nat option -> nat option **)

  let rec last_index_from c s i acc =
    match s with
    | [] -> acc
    | x :: r -> last_index_from c r (S i) (if beqb x c then Some i else acc)

  (** val last_index : byte -> bytes -> nat option **)

  let last_index c s =
    last_index_from c s O None

  type gres =
  | GOk of bytes * bytes * bytes
  | GErr
  | GPanic

  (** val char_ok : byte -> bool **)

  let char_ok c =
    (&&) (N.leb (Npos (XI (XO (XO (XO (XO XH)))))) (n8 c))
      (N.leb (n8 c) (Npos (XO (XI (XI (XI (XI (XI XH))))))))

  (** val decode_generic : bytes -> gres **)

  let decode_generic s =
    if (||) (Nat.ltb (length s) (S (S (S (S (S (S (S (S O)))))))))
         (Nat.ltb (S (S (S (S (S (S (S (S (S (S (S (S (S (S (S (S (S (S (S (S
           (S (S (S (S (S (S (S (S (S (S (S (S (S (S (S (S (S (S (S (S (S (S
           (S (S (S (S (S (S (S (S (S (S (S (S (S (S (S (S (S (S (S (S (S (S
           (S (S (S (S (S (S (S (S (S (S (S (S (S (S (S (S (S (S (S (S (S (S
           (S (S (S (S (S (S (S (S (S (S (S (S (S (S (S (S (S (S (S (S (S (S
           (S (S (S (S (S (S (S (S (S (S (S (S (S (S (S (S (S (S (S (S (S (S
           (S (S (S (S (S (S (S (S (S (S (S (S (S (S (S (S (S (S (S (S (S (S
           (S (S (S (S (S (S (S (S (S (S (S (S (S (S (S (S (S (S (S (S (S (S
           (S (S (S (S (S (S (S (S (S (S (S (S (S (S (S (S (S (S (S (S (S (S
           (S (S (S (S (S (S (S (S (S (S (S (S (S (S (S (S (S (S (S (S (S (S
           (S (S (S (S (S (S (S (S (S (S (S (S (S (S (S (S (S (S (S (S (S (S
           (S (S (S (S (S (S (S (S (S (S (S (S (S (S (S (S (S (S (S (S (S (S
           (S (S (S (S (S (S (S (S (S (S (S (S (S (S (S (S (S (S (S (S (S (S
           (S (S (S (S (S (S (S (S (S (S (S (S (S (S (S (S (S (S (S (S (S (S
           (S (S (S (S (S (S (S (S (S (S (S (S (S (S (S (S (S (S (S (S (S (S
           (S (S (S (S (S (S (S (S (S (S (S (S (S (S (S (S (S (S (S (S (S (S
           (S (S (S (S (S (S (S (S (S (S (S (S (S (S (S (S (S (S (S (S (S (S
           (S (S (S (S (S (S (S (S (S (S (S (S (S (S (S (S (S (S (S (S (S (S
           (S (S (S (S (S (S (S (S (S (S (S (S (S (S (S (S (S (S (S (S (S (S
           (S (S (S (S (S (S (S (S (S (S (S (S (S (S (S (S (S (S (S (S (S (S
           (S (S (S (S (S (S (S (S (S (S (S (S (S (S (S (S (S (S (S (S (S (S
           (S (S (S (S (S (S (S (S (S (S (S (S (S (S (S (S (S (S (S (S (S (S
           (S (S (S (S (S (S (S (S (S (S (S (S (S (S (S (S (S (S (S (S (S (S
           (S (S (S (S (S (S (S (S (S (S (S (S (S (S (S (S (S (S (S (S (S (S
           (S (S (S (S (S (S (S (S (S (S (S (S (S (S (S (S (S (S (S (S (S (S
           (S (S (S (S (S (S (S (S (S (S (S (S (S (S (S (S (S (S (S (S (S (S
           (S (S (S (S (S (S (S (S (S (S (S (S (S (S (S (S (S (S (S (S (S (S
           (S (S (S (S (S (S (S (S (S (S (S (S (S (S (S (S (S (S (S (S (S (S
           (S (S (S (S (S (S (S (S (S (S (S (S (S (S (S (S (S (S (S (S (S (S
           (S (S (S (S (S (S (S (S (S (S (S (S (S (S (S (S (S (S (S (S (S (S
           (S (S (S (S (S (S (S (S (S (S (S (S (S (S (S (S (S (S (S (S (S (S
           (S (S (S (S (S (S (S (S (S (S (S (S (S (S (S (S (S (S (S (S (S (S
           (S (S (S (S (S (S (S (S (S (S (S (S (S (S (S (S (S (S (S (S (S (S
           (S (S (S (S (S (S (S (S (S (S (S (S (S (S (S (S (S (S (S (S (S (S
           (S (S (S (S (S (S (S (S (S (S (S (S (S (S (S (S (S (S (S (S (S (S
           (S (S (S (S (S (S (S (S (S (S (S (S (S (S (S (S (S (S (S (S (S (S
           (S (S (S (S (S (S (S (S (S (S (S (S (S (S (S (S (S (S (S (S (S (S
           (S (S (S (S (S (S (S (S (S (S (S (S (S (S (S (S (S (S (S (S (S (S
           (S (S (S (S (S (S (S (S (S (S (S (S (S (S (S (S (S (S (S (S (S (S
           (S (S (S (S (S (S (S (S (S (S (S (S (S (S (S (S (S (S (S (S (S (S
           (S (S (S (S (S (S (S (S (S (S (S (S (S (S (S (S (S (S (S (S (S (S
           (S (S (S (S (S (S (S (S (S (S (S (S (S (S (S (S (S (S (S (S (S (S
           (S (S (S (S (S (S (S (S (S (S (S (S (S (S (S (S (S (S (S (S (S (S
           (S (S (S (S (S (S (S (S (S (S (S (S (S (S (S (S (S (S (S (S (S (S
           (S (S (S (S (S (S (S (S (S (S (S (S (S (S (S (S (S (S (S (S (S (S
           (S (S (S (S (S (S (S (S (S (S (S (S
           O))))))))))))))))))))))))))))))))))))))))))))))))))))))))))))))))))))))))))))))))))))))))))))))))))))))))))))))))))))))))))))))))))))))))))))))))))))))))))))))))))))))))))))))))))))))))))))))))))))))))))))))))))))))))))))))))))))))))))))))))))))))))))))))))))))))))))))))))))))))))))))))))))))))))))))))))))))))))))))))))))))))))))))))))))))))))))))))))))))))))))))))))))))))))))))))))))))))))))))))))))))))))))))))))))))))))))))))))))))))))))))))))))))))))))))))))))))))))))))))))))))))))))))))))))))))))))))))))))))))))))))))))))))))))))))))))))))))))))))))))))))))))))))))))))))))))))))))))))))))))))))))))))))))))))))))))))))))))))))))))))))))))))))))))))))))))))))))))))))))))))))))))))))))))))))))))))))))))))))))))))))))))))))))))))))))))))))))))))))))))))))))))))))))))))))))))))))))))))))))))))))))))))))))))))))))))))))))))))))))))))))))))))))))))))))))))))))))))))))))))))))))))))))))))))))))))))))))))))))))))))))))))))))))))))))))))))))))))))))))))))))))))))))))))))))))))))))))))))))))))
           (length s))
    then GErr
    else if negb (forallb char_ok s)
         then GErr
         else let lower = map to_lower s in
              let upper = map to_upper s in
              if (&&) (negb (bytes_eqb s lower)) (negb (bytes_eqb s upper))
              then GErr
              else (match last_index sep lower with
                    | Some one ->
                      if (||) (Nat.ltb one (S O))
                           (Nat.ltb (length lower)
                             (add one (S (S (S (S (S (S (S (S (S (S (S (S (S
                               O)))))))))))))))
                      then GErr
                      else let hrp = firstn one lower in
                           let data = skipn (add one (S O)) lower in
                           (match to_bytes data with
                            | Some decoded ->
                              if Nat.ltb (length decoded) (S (S (S (S (S (S
                                   (S (S (S (S (S (S O))))))))))))
                              then GPanic
                              else GOk (hrp,
                                     (firstn
                                       (sub (length decoded) (S (S (S (S (S
                                         (S (S (S (S (S (S (S O)))))))))))))
                                       decoded),
                                     (skipn
                                       (sub (length decoded) (S (S (S (S (S
                                         (S (S (S (S (S (S (S O)))))))))))))
                                       decoded))
                            | None -> GErr)
                    | None -> GErr)

  type dres =
  | DOk of bytes * bytes
  | DErr
  | DPanic

  (** val decode : bytes -> dres **)

  let decode s =
    match decode_generic s with
    | GOk (hrp, data, checksum) ->
      (match data with
       | [] -> DErr
       | v :: _ ->
         (match encoding_of_version v with
          | Some enc ->
            if verify_checksum hrp (app data checksum) enc
            then DOk (hrp, data)
            else DErr
          | None -> DErr))
    | GErr -> DErr
    | GPanic -> DPanic

  (** val encode : bytes -> bytes -> n -> bytes option **)

  let encode hrp data enc =
    let checksum = create_checksum hrp data enc in
    (match to_chars (app data checksum) with
     | Some cs -> Some (app hrp (app (sep :: []) cs))
     | None -> None)

  (** val u8 : n -> n **)

  let u8 x =
    N.modulo x (Npos (XO (XO (XO (XO (XO (XO (XO (XO XH)))))))))

  type cb_state = { cb_out : bytes; cb_next : n; cb_filled : n }

  (** val cb_out : cb_state -> bytes **)

  let cb_out c =
    c.cb_out

  (** val cb_next : cb_state -> n **)

  let cb_next c =
    c.cb_next

  (** val cb_filled : cb_state -> n **)

  let cb_filled c =
    c.cb_filled

  (** val cb_inner : nat -> n -> n -> n -> cb_state -> cb_state **)

  let rec cb_inner fuel to_bits0 b rem0 st0 =
    match fuel with
    | O -> st0
    | S f ->
      if N.eqb rem0 N0
      then st0
      else let rem_to = N.sub to_bits0 st0.cb_filled in
           let to_extract = if N.ltb rem_to rem0 then rem_to else rem0 in
           let next =
             u8
               (N.coq_lor (u8 (N.shiftl st0.cb_next to_extract))
                 (N.shiftr b (N.sub (Npos (XO (XO (XO XH)))) to_extract)))
           in
           let b' = u8 (N.shiftl b to_extract) in
           let rem' = N.sub rem0 to_extract in
           let filled = N.add st0.cb_filled to_extract in
           if N.eqb filled to_bits0
           then cb_inner f to_bits0 b' rem' { cb_out =
                  ((b8 next) :: st0.cb_out); cb_next = N0; cb_filled = N0 }
           else cb_inner f to_bits0 b' rem' { cb_out = st0.cb_out; cb_next =
                  next; cb_filled = filled }

  (** val cb_byte : n -> n -> cb_state -> byte -> cb_state **)

  let cb_byte from_bits to_bits0 st0 x =
    let b = u8 (N.shiftl (n8 x) (N.sub (Npos (XO (XO (XO XH)))) from_bits)) in
    cb_inner (S (S (S (S (S (S (S (S O)))))))) to_bits0 b from_bits st0

  (** val convert_bits : bytes -> n -> n -> bool -> bytes option **)

  let convert_bits data from_bits to_bits0 pad0 =
    if (||)
         ((||)
           ((||) (N.ltb from_bits (Npos XH))
             (N.ltb (Npos (XO (XO (XO XH)))) from_bits))
           (N.ltb to_bits0 (Npos XH)))
         (N.ltb (Npos (XO (XO (XO XH)))) to_bits0)
    then None
    else let st0 =
           fold_left (cb_byte from_bits to_bits0) data { cb_out = [];
             cb_next = N0; cb_filled = N0 }
         in
         let st' =
           if (&&) pad0 (N.ltb N0 st0.cb_filled)
           then { cb_out =
                  ((b8
                     (u8
                       (N.shiftl st0.cb_next (N.sub to_bits0 st0.cb_filled)))) :: st0.cb_out);
                  cb_next = N0; cb_filled = N0 }
           else st0
         in
         if (&&) (N.ltb N0 st'.cb_filled)
              ((||) (N.ltb (Npos (XO (XO XH))) st'.cb_filled)
                (negb (N.eqb st'.cb_next N0)))
         then None
         else Some (rev st'.cb_out)
 end

module XC =
 struct
  (** val b58_alphabet : bytes **)

  let b58_alphabet =
    map b8 ((Npos (XI (XO (XO (XO (XI XH)))))) :: ((Npos (XO (XI (XO (XO (XI
      XH)))))) :: ((Npos (XI (XI (XO (XO (XI XH)))))) :: ((Npos (XO (XO (XI
      (XO (XI XH)))))) :: ((Npos (XI (XO (XI (XO (XI XH)))))) :: ((Npos (XO
      (XI (XI (XO (XI XH)))))) :: ((Npos (XI (XI (XI (XO (XI
      XH)))))) :: ((Npos (XO (XO (XO (XI (XI XH)))))) :: ((Npos (XI (XO (XO
      (XI (XI XH)))))) :: ((Npos (XI (XO (XO (XO (XO (XO XH))))))) :: ((Npos
      (XO (XI (XO (XO (XO (XO XH))))))) :: ((Npos (XI (XI (XO (XO (XO (XO
      XH))))))) :: ((Npos (XO (XO (XI (XO (XO (XO XH))))))) :: ((Npos (XI (XO
      (XI (XO (XO (XO XH))))))) :: ((Npos (XO (XI (XI (XO (XO (XO
      XH))))))) :: ((Npos (XI (XI (XI (XO (XO (XO XH))))))) :: ((Npos (XO (XO
      (XO (XI (XO (XO XH))))))) :: ((Npos (XO (XI (XO (XI (XO (XO
      XH))))))) :: ((Npos (XI (XI (XO (XI (XO (XO XH))))))) :: ((Npos (XO (XO
      (XI (XI (XO (XO XH))))))) :: ((Npos (XI (XO (XI (XI (XO (XO
      XH))))))) :: ((Npos (XO (XI (XI (XI (XO (XO XH))))))) :: ((Npos (XO (XO
      (XO (XO (XI (XO XH))))))) :: ((Npos (XI (XO (XO (XO (XI (XO
      XH))))))) :: ((Npos (XO (XI (XO (XO (XI (XO XH))))))) :: ((Npos (XI (XI
      (XO (XO (XI (XO XH))))))) :: ((Npos (XO (XO (XI (XO (XI (XO
      XH))))))) :: ((Npos (XI (XO (XI (XO (XI (XO XH))))))) :: ((Npos (XO (XI
      (XI (XO (XI (XO XH))))))) :: ((Npos (XI (XI (XI (XO (XI (XO
      XH))))))) :: ((Npos (XO (XO (XO (XI (XI (XO XH))))))) :: ((Npos (XI (XO
      (XO (XI (XI (XO XH))))))) :: ((Npos (XO (XI (XO (XI (XI (XO
      XH))))))) :: ((Npos (XI (XO (XO (XO (XO (XI XH))))))) :: ((Npos (XO (XI
      (XO (XO (XO (XI XH))))))) :: ((Npos (XI (XI (XO (XO (XO (XI
      XH))))))) :: ((Npos (XO (XO (XI (XO (XO (XI XH))))))) :: ((Npos (XI (XO
      (XI (XO (XO (XI XH))))))) :: ((Npos (XO (XI (XI (XO (XO (XI
      XH))))))) :: ((Npos (XI (XI (XI (XO (XO (XI XH))))))) :: ((Npos (XO (XO
      (XO (XI (XO (XI XH))))))) :: ((Npos (XI (XO (XO (XI (XO (XI
      XH))))))) :: ((Npos (XO (XI (XO (XI (XO (XI XH))))))) :: ((Npos (XI (XI
      (XO (XI (XO (XI XH))))))) :: ((Npos (XI (XO (XI (XI (XO (XI
      XH))))))) :: ((Npos (XO (XI (XI (XI (XO (XI XH))))))) :: ((Npos (XI (XI
      (XI (XI (XO (XI XH))))))) :: ((Npos (XO (XO (XO (XO (XI (XI
      XH))))))) :: ((Npos (XI (XO (XO (XO (XI (XI XH))))))) :: ((Npos (XO (XI
      (XO (XO (XI (XI XH))))))) :: ((Npos (XI (XI (XO (XO (XI (XI
      XH))))))) :: ((Npos (XO (XO (XI (XO (XI (XI XH))))))) :: ((Npos (XI (XO
      (XI (XO (XI (XI XH))))))) :: ((Npos (XO (XI (XI (XO (XI (XI
      XH))))))) :: ((Npos (XI (XI (XI (XO (XI (XI XH))))))) :: ((Npos (XO (XO
      (XO (XI (XI (XI XH))))))) :: ((Npos (XI (XO (XO (XI (XI (XI
      XH))))))) :: ((Npos (XO (XI (XO (XI (XI (XI
      XH))))))) :: []))))))))))))))))))))))))))))))))))))))))))))))))))))))))))

  (** val b58_value : bytes -> n -> n option **)

  let rec b58_value s acc =
    match s with
    | [] -> Some acc
    | c :: r ->
      (match B32.index_of c b58_alphabet N0 with
       | Some d ->
         b58_value r (N.add (N.mul acc (Npos (XO (XI (XO (XI (XI XH))))))) d)
       | None -> None)

  (** val be_bytes : nat -> n -> bytes **)

  let rec be_bytes fuel x =
    match fuel with
    | O -> []
    | S f ->
      if N.eqb x N0
      then []
      else app
             (be_bytes f
               (N.div x (Npos (XO (XO (XO (XO (XO (XO (XO (XO XH)))))))))))
             ((b8 x) :: [])

  (** val leading : byte -> bytes -> nat **)

  let rec leading c = function
  | [] -> O
  | x :: r -> if beqb x c then S (leading c r) else O

  (** val b58_decode : bytes -> bytes **)

  let b58_decode s =
    match b58_value s N0 with
    | Some v -> app (repeat X00 (leading X31 s)) (be_bytes (length s) v)
    | None -> []

  (** val b58_digits : nat -> n -> bytes **)

  let rec b58_digits fuel x =
    match fuel with
    | O -> []
    | S f ->
      if N.eqb x N0
      then []
      else app (b58_digits f (N.div x (Npos (XO (XI (XO (XI (XI XH))))))))
             (match B32.nth_opt b58_alphabet
                      (N.modulo x (Npos (XO (XI (XO (XI (XI XH))))))) with
              | Some c -> c :: []
              | None -> [])

  (** val b58_encode : bytes -> bytes **)

  let b58_encode b =
    app (repeat X31 (leading X00 b))
      (b58_digits (add (mul (S (S O)) (length b)) (S O)) (be_dec b))

  (** val check_encode : bytes -> byte -> bytes **)

  let check_encode input version =
    let b = version :: input in
    b58_encode (app b (firstn (S (S (S (S O)))) (dsha256 b)))

  (** val check_decode : bytes -> (bytes * byte) option **)

  let check_decode s =
    let d = b58_decode s in
    if Nat.ltb (length d) (S (S (S (S (S O)))))
    then None
    else (match d with
          | [] -> None
          | version :: _ ->
            let body = firstn (sub (length d) (S (S (S (S O))))) d in
            if bytes_eqb (firstn (S (S (S (S O)))) (dsha256 body))
                 (skipn (sub (length d) (S (S (S (S O))))) d)
            then Some ((skipn (S O) body), version)
            else None)

  (** val bech_gen : n list **)

  let bech_gen =
    (Npos (XO (XI (XO (XO (XI (XI (XO (XI (XI (XI (XI (XO (XI (XO (XI (XO (XO
      (XI (XO (XI (XO (XI (XI (XO (XI (XI (XO (XI (XI
      XH)))))))))))))))))))))))))))))) :: ((Npos (XI (XO (XI (XI (XO (XI (XI
      (XO (XO (XI (XI (XI (XO (XO (XO (XI (XO (XO (XO (XO (XI (XO (XI (XO (XO
      (XI (XI (XO (XO XH)))))))))))))))))))))))))))))) :: ((Npos (XO (XI (XO
      (XI (XI (XI (XI (XI (XI (XO (XO (XI (XI (XO (XO (XO (XI (XO (XO (XO (XO
      (XI (XO (XI (XO (XI (XI (XI XH))))))))))))))))))))))))))))) :: ((Npos
      (XI (XO (XI (XI (XI (XO (XI (XI (XI (XI (XO (XO (XI (XI (XO (XO (XO (XI
      (XO (XO (XO (XO (XI (XO (XI (XO (XI (XI (XI
      XH)))))))))))))))))))))))))))))) :: ((Npos (XI (XI (XO (XO (XI (XI (XO
      (XI (XO (XI (XO (XO (XO (XI (XI (XO (XO (XO (XI (XO (XI (XO (XO (XO (XO
      (XI (XO (XI (XO XH)))))))))))))))))))))))))))))) :: []))))

  (** val bech_const : bool -> n **)

  let bech_const = function
  | true ->
    Npos (XI (XI (XO (XO (XO (XI (XO (XI (XO (XO (XO (XO (XI (XI (XO (XO (XO
      (XO (XO (XI (XO (XO (XI (XI (XI (XI (XO (XI (XO
      XH)))))))))))))))))))))))))))))
  | false -> Npos XH

  (** val bech_step : n -> n -> n **)

  let bech_step chk v =
    let b = N.shiftr chk (Npos (XI (XO (XO (XI XH))))) in
    let c =
      N.coq_lxor
        (N.shiftl
          (N.coq_land chk (Npos (XI (XI (XI (XI (XI (XI (XI (XI (XI (XI (XI
            (XI (XI (XI (XI (XI (XI (XI (XI (XI (XI (XI (XI (XI
            XH)))))))))))))))))))))))))) (Npos (XI (XO XH)))) v
    in
    fst
      (fold_left (fun st0 g ->
        ((if N.testbit b (snd st0) then N.coq_lxor (fst st0) g else fst st0),
        (N.add (snd st0) (Npos XH)))) bech_gen (c, N0))

  (** val bech_polymod : bytes -> n list -> n **)

  let bech_polymod hrp values =
    fold_left bech_step (app (B32.hrp_expand hrp) values) (Npos XH)

  (** val bech_checksum : bytes -> bytes -> bool -> bytes **)

  let bech_checksum hrp data m =
    let pm =
      N.coq_lxor
        (bech_polymod hrp
          (app (B32.ints data) (repeat N0 (S (S (S (S (S (S O)))))))))
        (bech_const m)
    in
    map (fun i ->
      b8
        (N.coq_land
          (N.shiftr pm
            (N.mul (Npos (XI (XO XH))) (N.sub (Npos (XI (XO XH))) i))) (Npos
          (XI (XI (XI (XI XH))))))) (N0 :: ((Npos XH) :: ((Npos (XO
      XH)) :: ((Npos (XI XH)) :: ((Npos (XO (XO XH))) :: ((Npos (XI (XO
      XH))) :: []))))))

  (** val has_lower : bytes -> bool **)

  let has_lower s =
    existsb (fun c ->
      (&&) (N.leb (Npos (XI (XO (XO (XO (XO (XI XH))))))) (n8 c))
        (N.leb (n8 c) (Npos (XO (XI (XO (XI (XI (XI XH))))))))) s

  (** val has_upper : bytes -> bool **)

  let has_upper s =
    existsb (fun c ->
      (&&) (N.leb (Npos (XI (XO (XO (XO (XO (XO XH))))))) (n8 c))
        (N.leb (n8 c) (Npos (XO (XI (XO (XI (XI (XO XH))))))))) s

  (** val bech_decode : bytes -> ((bytes * bytes) * bool) option **)

  let bech_decode s =
    if Nat.ltb (S (S (S (S (S (S (S (S (S (S (S (S (S (S (S (S (S (S (S (S (S
         (S (S (S (S (S (S (S (S (S (S (S (S (S (S (S (S (S (S (S (S (S (S (S
         (S (S (S (S (S (S (S (S (S (S (S (S (S (S (S (S (S (S (S (S (S (S (S
         (S (S (S (S (S (S (S (S (S (S (S (S (S (S (S (S (S (S (S (S (S (S (S
         O))))))))))))))))))))))))))))))))))))))))))))))))))))))))))))))))))))))))))))))))))))))))))
         (length s)
    then None
    else if Nat.ltb (length s) (S (S (S (S (S (S (S (S O))))))))
         then None
         else if negb (forallb B32.char_ok s)
              then None
              else if (&&) (has_lower s) (has_upper s)
                   then None
                   else let lower = map B32.to_lower s in
                        (match B32.last_index B32.sep lower with
                         | Some one ->
                           if (||) (Nat.ltb one (S O))
                                (Nat.ltb (length lower)
                                  (add one (S (S (S (S (S (S (S O)))))))))
                           then None
                           else let hrp = firstn one lower in
                                (match B32.to_bytes
                                         (skipn (add one (S O)) lower) with
                                 | Some decoded ->
                                   let pm =
                                     bech_polymod hrp (B32.ints decoded)
                                   in
                                   let data =
                                     firstn
                                       (sub (length decoded) (S (S (S (S (S
                                         (S O))))))) decoded
                                   in
                                   if N.eqb pm (bech_const false)
                                   then Some ((hrp, data), false)
                                   else if N.eqb pm (bech_const true)
                                        then Some ((hrp, data), true)
                                        else None
                                 | None -> None)
                         | None -> None)

  (** val bech_encode : bool -> bytes -> bytes -> bytes option **)

  let bech_encode m hrp data =
    let hrp0 = map B32.to_lower hrp in
    (match B32.to_chars data with
     | Some cs ->
       (match B32.to_chars (bech_checksum hrp0 data m) with
        | Some ck -> Some (app hrp0 (app (B32.sep :: []) (app cs ck)))
        | None -> None)
     | None -> None)
 end

(** val g_Liquid_Bech32 : z list **)

let g_Liquid_Bech32 =
  (Zpos (XI (XO (XI (XO (XO (XI XH))))))) :: ((Zpos (XO (XO (XO (XI (XI (XI
    XH))))))) :: [])

(** val g_Liquid_Blech32 : z list **)

let g_Liquid_Blech32 =
  (Zpos (XO (XO (XI (XI (XO (XI XH))))))) :: ((Zpos (XI (XO (XO (XO (XI (XI
    XH))))))) :: [])

(** val g_Liquid_PubKeyHash : z **)

let g_Liquid_PubKeyHash =
  Zpos (XI (XO (XO (XI (XI XH)))))

(** val g_Liquid_ScriptHash : z **)

let g_Liquid_ScriptHash =
  Zpos (XI (XI (XI (XO (XO XH)))))

(** val g_Liquid_Confidential : z **)

let g_Liquid_Confidential =
  Zpos (XO (XO (XI XH)))

(** val g_Regtest_Bech32 : z list **)

let g_Regtest_Bech32 =
  (Zpos (XI (XO (XI (XO (XO (XI XH))))))) :: ((Zpos (XO (XI (XO (XO (XI (XI
    XH))))))) :: ((Zpos (XO (XO (XI (XO (XI (XI XH))))))) :: []))

(** val g_Regtest_Blech32 : z list **)

let g_Regtest_Blech32 =
  (Zpos (XI (XO (XI (XO (XO (XI XH))))))) :: ((Zpos (XO (XO (XI (XI (XO (XI
    XH))))))) :: [])

(** val g_Regtest_PubKeyHash : z **)

let g_Regtest_PubKeyHash =
  Zpos (XI (XI (XO (XI (XO (XI (XI XH)))))))

(** val g_Regtest_ScriptHash : z **)

let g_Regtest_ScriptHash =
  Zpos (XI (XI (XO (XI (XO (XO XH))))))

(** val g_Regtest_Confidential : z **)

let g_Regtest_Confidential =
  Zpos (XO (XO XH))

(** val g_Testnet_Bech32 : z list **)

let g_Testnet_Bech32 =
  (Zpos (XO (XO (XI (XO (XI (XI XH))))))) :: ((Zpos (XI (XO (XI (XO (XO (XI
    XH))))))) :: ((Zpos (XO (XO (XO (XI (XI (XI XH))))))) :: []))

(** val g_Testnet_Blech32 : z list **)

let g_Testnet_Blech32 =
  (Zpos (XO (XO (XI (XO (XI (XI XH))))))) :: ((Zpos (XO (XO (XI (XI (XO (XI
    XH))))))) :: ((Zpos (XI (XO (XO (XO (XI (XI XH))))))) :: []))

(** val g_Testnet_PubKeyHash : z **)

let g_Testnet_PubKeyHash =
  Zpos (XO (XO (XI (XO (XO XH)))))

(** val g_Testnet_ScriptHash : z **)

let g_Testnet_ScriptHash =
  Zpos (XI (XI (XO (XO XH))))

(** val g_Testnet_Confidential : z **)

let g_Testnet_Confidential =
  Zpos (XI (XI (XI (XO XH))))

(** val g_P2Pkh : z **)

let g_P2Pkh =
  Z0

(** val g_P2Sh : z **)

let g_P2Sh =
  Zpos XH

(** val g_ConfidentialP2Pkh : z **)

let g_ConfidentialP2Pkh =
  Zpos (XO XH)

(** val g_ConfidentialP2Sh : z **)

let g_ConfidentialP2Sh =
  Zpos (XI XH)

(** val g_P2Wpkh : z **)

let g_P2Wpkh =
  Zpos (XO (XO XH))

(** val g_P2Wsh : z **)

let g_P2Wsh =
  Zpos (XI (XO XH))

(** val g_ConfidentialP2Wpkh : z **)

let g_ConfidentialP2Wpkh =
  Zpos (XO (XI XH))

(** val g_ConfidentialP2Wsh : z **)

let g_ConfidentialP2Wsh =
  Zpos (XI (XI XH))

(** val g_P2TR : z **)

let g_P2TR =
  Zpos (XO (XO (XO XH)))

(** val g_ConfidentialP2TR : z **)

let g_ConfidentialP2TR =
  Zpos (XI (XO (XO XH)))

module Addr =
 struct
  type 'a res =
  | Ok of 'a
  | Err
  | Panic

  type net = { n_id : n; n_bech32 : bytes; n_blech32 : bytes; n_pkh : 
               byte; n_sh : byte; n_conf : byte }

  (** val n_id : net -> n **)

  let n_id n0 =
    n0.n_id

  (** val n_bech32 : net -> bytes **)

  let n_bech32 n0 =
    n0.n_bech32

  (** val n_blech32 : net -> bytes **)

  let n_blech32 n0 =
    n0.n_blech32

  (** val n_pkh : net -> byte **)

  let n_pkh n0 =
    n0.n_pkh

  (** val n_sh : net -> byte **)

  let n_sh n0 =
    n0.n_sh

  (** val n_conf : net -> byte **)

  let n_conf n0 =
    n0.n_conf

  (** val zs : z list -> bytes **)

  let zs l =
    map (fun z0 -> b8 (Z.to_N z0)) l

  (** val zb : z -> byte **)

  let zb z0 =
    b8 (Z.to_N z0)

  (** val liquid : net **)

  let liquid =
    { n_id = N0; n_bech32 = (zs g_Liquid_Bech32); n_blech32 =
      (zs g_Liquid_Blech32); n_pkh = (zb g_Liquid_PubKeyHash); n_sh =
      (zb g_Liquid_ScriptHash); n_conf = (zb g_Liquid_Confidential) }

  (** val regtest : net **)

  let regtest =
    { n_id = (Npos XH); n_bech32 = (zs g_Regtest_Bech32); n_blech32 =
      (zs g_Regtest_Blech32); n_pkh = (zb g_Regtest_PubKeyHash); n_sh =
      (zb g_Regtest_ScriptHash); n_conf = (zb g_Regtest_Confidential) }

  (** val testnet : net **)

  let testnet =
    { n_id = (Npos (XO XH)); n_bech32 = (zs g_Testnet_Bech32); n_blech32 =
      (zs g_Testnet_Blech32); n_pkh = (zb g_Testnet_PubKeyHash); n_sh =
      (zb g_Testnet_ScriptHash); n_conf = (zb g_Testnet_Confidential) }

  (** val nets : net list **)

  let nets =
    liquid :: (regtest :: (testnet :: []))

  (** val coq_P2Pkh : n **)

  let coq_P2Pkh =
    Z.to_N g_P2Pkh

  (** val coq_P2Sh : n **)

  let coq_P2Sh =
    Z.to_N g_P2Sh

  (** val coq_ConfidentialP2Pkh : n **)

  let coq_ConfidentialP2Pkh =
    Z.to_N g_ConfidentialP2Pkh

  (** val coq_ConfidentialP2Sh : n **)

  let coq_ConfidentialP2Sh =
    Z.to_N g_ConfidentialP2Sh

  (** val coq_P2Wpkh : n **)

  let coq_P2Wpkh =
    Z.to_N g_P2Wpkh

  (** val coq_P2Wsh : n **)

  let coq_P2Wsh =
    Z.to_N g_P2Wsh

  (** val coq_ConfidentialP2Wpkh : n **)

  let coq_ConfidentialP2Wpkh =
    Z.to_N g_ConfidentialP2Wpkh

  (** val coq_ConfidentialP2Wsh : n **)

  let coq_ConfidentialP2Wsh =
    Z.to_N g_ConfidentialP2Wsh

  (** val coq_P2TR : n **)

  let coq_P2TR =
    Z.to_N g_P2TR

  (** val coq_ConfidentialP2TR : n **)

  let coq_ConfidentialP2TR =
    Z.to_N g_ConfidentialP2TR

  (** val segwit_prefix : bytes -> bytes **)

  let segwit_prefix s =
    match B32.last_index B32.sep s with
    | Some i -> firstn i s
    | None -> []

  (** val is_hrp : bytes -> bytes -> bool **)

  let is_hrp s p =
    bytes_eqb (segwit_prefix s) p

  (** val lenb : bytes -> nat -> bool **)

  let lenb l n0 =
    Nat.eqb (length l) n0

  (** val coq_OP_0 : byte **)

  let coq_OP_0 =
    X00

  (** val coq_OP_1 : byte **)

  let coq_OP_1 =
    X51

  (** val coq_OP_DUP : byte **)

  let coq_OP_DUP =
    X76

  (** val coq_OP_HASH160 : byte **)

  let coq_OP_HASH160 =
    Xa9

  (** val coq_OP_EQUAL : byte **)

  let coq_OP_EQUAL =
    X87

  (** val coq_OP_EQUALVERIFY : byte **)

  let coq_OP_EQUALVERIFY =
    X88

  (** val coq_OP_CHECKSIG : byte **)

  let coq_OP_CHECKSIG =
    Xac

  (** val add_data : bytes -> bytes option **)

  let add_data d = match d with
  | [] -> Some (coq_OP_0 :: [])
  | b :: l ->
    (match l with
     | [] ->
       if N.eqb (n8 b) N0
       then Some (coq_OP_0 :: [])
       else if N.leb (n8 b) (Npos (XO (XO (XO (XO XH)))))
            then Some
                   ((b8
                      (N.add (Npos (XO (XO (XO (XO (XI (XO XH))))))) (n8 b))) :: [])
            else if N.eqb (n8 b) (Npos (XI (XO (XO (XO (XO (XO (XO XH))))))))
                 then Some (X4f :: [])
                 else Some (X01 :: (b :: []))
     | _ :: _ ->
       if Nat.leb (length d) (S (S (S (S (S (S (S (S (S (S (S (S (S (S (S (S
            (S (S (S (S (S (S (S (S (S (S (S (S (S (S (S (S (S (S (S (S (S (S
            (S (S (S (S (S (S (S (S (S (S (S (S (S (S (S (S (S (S (S (S (S (S
            (S (S (S (S (S (S (S (S (S (S (S (S (S (S (S
            O)))))))))))))))))))))))))))))))))))))))))))))))))))))))))))))))))))))))))))
       then Some ((b8 (N.of_nat (length d))) :: d)
       else None)

  (** val script_p2pkh : bytes -> bytes option **)

  let script_p2pkh h =
    match add_data h with
    | Some p ->
      Some
        (app (coq_OP_DUP :: (coq_OP_HASH160 :: []))
          (app p (coq_OP_EQUALVERIFY :: (coq_OP_CHECKSIG :: []))))
    | None -> None

  (** val script_p2sh : bytes -> bytes option **)

  let script_p2sh h =
    match add_data h with
    | Some p -> Some (app (coq_OP_HASH160 :: []) (app p (coq_OP_EQUAL :: [])))
    | None -> None

  (** val script_segwit : byte -> bytes -> bytes option **)

  let script_segwit version program =
    match add_data program with
    | Some p ->
      Some
        ((if N.eqb (n8 version) (Npos XH) then coq_OP_1 else coq_OP_0) :: p)
    | None -> None

  (** val from_base58 :
      (bytes -> (bytes * byte) option) -> bytes -> (byte * bytes) res **)

  let from_base58 b58dec s =
    match b58dec s with
    | Some p ->
      let (d, v) = p in
      if lenb d (S (S (S (S (S (S (S (S (S (S (S (S (S (S (S (S (S (S (S (S
           O))))))))))))))))))))
      then Ok (v, d)
      else Err
    | None -> Err

  (** val to_base58 : (bytes -> byte -> bytes) -> byte -> bytes -> bytes **)

  let to_base58 b58enc v d =
    b58enc d v

  (** val from_base58_conf :
      (bytes -> (bytes * byte) option) -> bytes ->
      (((byte * byte) * bytes) * bytes) res **)

  let from_base58_conf b58dec s =
    match b58dec s with
    | Some p ->
      let (d, v) = p in
      if lenb d (S (S (S (S (S (S (S (S (S (S (S (S (S (S (S (S (S (S (S (S
           (S (S (S (S (S (S (S (S (S (S (S (S (S (S (S (S (S (S (S (S (S (S
           (S (S (S (S (S (S (S (S (S (S (S (S
           O))))))))))))))))))))))))))))))))))))))))))))))))))))))
      then (match d with
            | [] -> Panic
            | d0 :: _ ->
              Ok (((v, d0),
                (firstn (S (S (S (S (S (S (S (S (S (S (S (S (S (S (S (S (S (S
                  (S (S (S (S (S (S (S (S (S (S (S (S (S (S (S
                  O))))))))))))))))))))))))))))))))) (skipn (S O) d))),
                (skipn (S (S (S (S (S (S (S (S (S (S (S (S (S (S (S (S (S (S
                  (S (S (S (S (S (S (S (S (S (S (S (S (S (S (S (S
                  O)))))))))))))))))))))))))))))))))) d)))
      else Err
    | None -> Err

  (** val to_base58_conf :
      (bytes -> byte -> bytes) -> byte -> byte -> bytes -> bytes -> bytes **)

  let to_base58_conf b58enc cv v key d =
    b58enc (app (v :: []) (app key d)) cv

  (** val from_bech32 :
      (bytes -> ((bytes * bytes) * bool) option) -> (bytes -> n -> n -> bool
      -> bytes option) -> bytes -> ((bytes * byte) * bytes) res **)

  let from_bech32 bech_dec bcb s =
    match B32.last_index B32.sep s with
    | Some one ->
      if Nat.leb one (S O)
      then Err
      else (match bech_dec s with
            | Some p ->
              let (p0, m) = p in
              let (prefix, data) = p0 in
              (match data with
               | [] -> Err
               | v :: rest ->
                 if N.ltb (Npos (XO (XO (XO (XO XH))))) (n8 v)
                 then Err
                 else if negb (eqb (N.eqb (n8 v) N0) (negb m))
                      then Err
                      else (match bcb rest (Npos (XI (XO XH))) (Npos (XO (XO
                                    (XO XH)))) false with
                            | Some rg ->
                              if (||) (Nat.ltb (length rg) (S (S O)))
                                   (Nat.ltb (S (S (S (S (S (S (S (S (S (S (S
                                     (S (S (S (S (S (S (S (S (S (S (S (S (S
                                     (S (S (S (S (S (S (S (S (S (S (S (S (S
                                     (S (S (S
                                     O))))))))))))))))))))))))))))))))))))))))
                                     (length rg))
                              then Err
                              else if (&&)
                                        ((&&) (N.eqb (n8 v) N0)
                                          (negb
                                            (lenb rg (S (S (S (S (S (S (S (S
                                              (S (S (S (S (S (S (S (S (S (S
                                              (S (S O)))))))))))))))))))))))
                                        (negb
                                          (lenb rg (S (S (S (S (S (S (S (S (S
                                            (S (S (S (S (S (S (S (S (S (S (S
                                            (S (S (S (S (S (S (S (S (S (S (S
                                            (S
                                            O))))))))))))))))))))))))))))))))))
                                   then Err
                                   else Ok ((prefix, v), rg)
                            | None -> Err))
            | None -> Err)
    | None -> Err

  (** val to_bech32 :
      (bool -> bytes -> bytes -> bytes option) -> (bytes -> n -> n -> bool ->
      bytes option) -> bytes -> byte -> bytes -> bytes res **)

  let to_bech32 bech_enc bcb prefix v program =
    match bcb program (Npos (XO (XO (XO XH)))) (Npos (XI (XO XH))) true with
    | Some conv ->
      if N.eqb (n8 v) N0
      then (match bech_enc false prefix (v :: conv) with
            | Some s -> Ok s
            | None -> Err)
      else if N.eqb (n8 v) (Npos XH)
           then (match bech_enc true prefix (v :: conv) with
                 | Some s -> Ok s
                 | None -> Err)
           else Err
    | None -> Err

  (** val from_blech32 : bytes -> (((bytes * byte) * bytes) * bytes) res **)

  let from_blech32 s =
    match B32.last_index B32.sep s with
    | Some one ->
      if Nat.leb one (S O)
      then Err
      else (match B32.decode s with
            | B32.DOk (prefix, data) ->
              (match data with
               | [] -> Err
               | v :: rest ->
                 if N.ltb (Npos (XO (XO (XO (XO XH))))) (n8 v)
                 then Err
                 else (match B32.convert_bits rest (Npos (XI (XO XH))) (Npos
                               (XO (XO (XO XH)))) false with
                       | Some rg ->
                         if (||)
                              (Nat.ltb (length rg)
                                (add (S (S O)) (S (S (S (S (S (S (S (S (S (S
                                  (S (S (S (S (S (S (S (S (S (S (S (S (S (S
                                  (S (S (S (S (S (S (S (S (S
                                  O)))))))))))))))))))))))))))))))))))
                              (Nat.ltb
                                (add (S (S (S (S (S (S (S (S (S (S (S (S (S
                                  (S (S (S (S (S (S (S (S (S (S (S (S (S (S
                                  (S (S (S (S (S (S (S (S (S (S (S (S (S
                                  O))))))))))))))))))))))))))))))))))))))))
                                  (S (S (S (S (S (S (S (S (S (S (S (S (S (S
                                  (S (S (S (S (S (S (S (S (S (S (S (S (S (S
                                  (S (S (S (S (S
                                  O))))))))))))))))))))))))))))))))))
                                (length rg))
                         then Err
                         else if (&&)
                                   ((&&) (N.eqb (n8 v) N0)
                                     (negb
                                       (lenb rg (S (S (S (S (S (S (S (S (S (S
                                         (S (S (S (S (S (S (S (S (S (S (S (S
                                         (S (S (S (S (S (S (S (S (S (S (S (S
                                         (S (S (S (S (S (S (S (S (S (S (S (S
                                         (S (S (S (S (S (S (S
                                         O))))))))))))))))))))))))))))))))))))))))))))))))))))))))
                                   (negb
                                     (lenb rg (S (S (S (S (S (S (S (S (S (S
                                       (S (S (S (S (S (S (S (S (S (S (S (S (S
                                       (S (S (S (S (S (S (S (S (S (S (S (S (S
                                       (S (S (S (S (S (S (S (S (S (S (S (S (S
                                       (S (S (S (S (S (S (S (S (S (S (S (S (S
                                       (S (S (S
                                       O)))))))))))))))))))))))))))))))))))))))))))))))))))))))))))))))))))
                              then Err
                              else Ok (((prefix, v),
                                     (firstn (S (S (S (S (S (S (S (S (S (S (S
                                       (S (S (S (S (S (S (S (S (S (S (S (S (S
                                       (S (S (S (S (S (S (S (S (S
                                       O))))))))))))))))))))))))))))))))) rg)),
                                     (skipn (S (S (S (S (S (S (S (S (S (S (S
                                       (S (S (S (S (S (S (S (S (S (S (S (S (S
                                       (S (S (S (S (S (S (S (S (S
                                       O))))))))))))))))))))))))))))))))) rg))
                       | None -> Err))
            | B32.DErr -> Err
            | B32.DPanic -> Panic)
    | None -> Err

  (** val to_blech32 : bytes -> byte -> bytes -> bytes -> bytes res **)

  let to_blech32 prefix v key program =
    match B32.convert_bits (app key program) (Npos (XO (XO (XO XH)))) (Npos
            (XI (XO XH))) true with
    | Some conv ->
      (match B32.encoding_of_version v with
       | Some enc ->
         (match B32.encode prefix (v :: conv) enc with
          | Some s ->
            (match from_blech32 s with
             | Ok a ->
               let (p, p') = a in
               let (p0, k') = p in
               let (_, v') = p0 in
               if (&&) (beqb v' v) (bytes_eqb (app k' p') (app key program))
               then Ok s
               else Err
             | Err -> Err
             | Panic -> Panic)
          | None -> Err)
       | None -> Err)
    | None -> Err

  (** val net_by_hrp : bytes -> net option **)

  let net_by_hrp s =
    find (fun n0 -> (||) (is_hrp s n0.n_bech32) (is_hrp s n0.n_blech32)) nets

  (** val net_by_version : byte -> net option **)

  let net_by_version p =
    find (fun n0 ->
      (||) ((||) (beqb p n0.n_conf) (beqb p n0.n_pkh)) (beqb p n0.n_sh)) nets

  (** val network_for_address :
      (bytes -> (bytes * byte) option) -> bytes -> net res **)

  let network_for_address b58dec s =
    match net_by_hrp s with
    | Some n0 -> Ok n0
    | None ->
      (match b58dec s with
       | Some p0 ->
         let (_, p) = p0 in
         (match net_by_version p with
          | Some n0 -> Ok n0
          | None -> Err)
       | None -> Err)

  (** val decode_segwit_type : n -> n -> n -> byte -> bytes -> n res **)

  let decode_segwit_type t0_20 t0_32 t1 v program =
    if N.eqb (n8 v) N0
    then if lenb program (S (S (S (S (S (S (S (S (S (S (S (S (S (S (S (S (S
              (S (S (S O))))))))))))))))))))
         then Ok t0_20
         else if lenb program (S (S (S (S (S (S (S (S (S (S (S (S (S (S (S (S
                   (S (S (S (S (S (S (S (S (S (S (S (S (S (S (S (S
                   O))))))))))))))))))))))))))))))))
              then Ok t0_32
              else Err
    else if N.eqb (n8 v) (Npos XH) then Ok t1 else Err

  (** val decode_blech32 : bytes -> n res **)

  let decode_blech32 s =
    match from_blech32 s with
    | Ok a ->
      let (p0, p) = a in
      let (p1, _) = p0 in
      let (_, v) = p1 in
      decode_segwit_type coq_ConfidentialP2Wpkh coq_ConfidentialP2Wsh
        coq_ConfidentialP2TR v p
    | Err -> Err
    | Panic -> Panic

  (** val decode_bech32 :
      (bytes -> ((bytes * bytes) * bool) option) -> (bytes -> n -> n -> bool
      -> bytes option) -> bytes -> n res **)

  let decode_bech32 bech_dec bcb s =
    match from_bech32 bech_dec bcb s with
    | Ok a ->
      let (p0, p) = a in
      let (_, v) = p0 in decode_segwit_type coq_P2Wpkh coq_P2Wsh coq_P2TR v p
    | Err -> Err
    | Panic -> Panic

  (** val pick_type : bool -> bool -> n -> n -> n res **)

  let pick_type is_pkh is_sh tp ts =
    if (&&) is_pkh is_sh
    then Err
    else if is_pkh then Ok tp else if is_sh then Ok ts else Err

  (** val decode_base58 :
      (bytes -> (bytes * byte) option) -> bytes -> net -> n res **)

  let decode_base58 b58dec s n0 =
    match b58dec s with
    | Some p ->
      let (d, id) = p in
      if beqb id n0.n_conf
      then if Nat.ltb (length d) (S (S (S (S (S (S (S (S (S (S (S (S (S (S (S
                (S (S (S (S (S (S (S (S (S (S (S (S (S (S (S (S (S (S (S
                O))))))))))))))))))))))))))))))))))
           then Err
           else if lenb
                     (skipn (S (S (S (S (S (S (S (S (S (S (S (S (S (S (S (S
                       (S (S (S (S (S (S (S (S (S (S (S (S (S (S (S (S (S (S
                       O)))))))))))))))))))))))))))))))))) d) (S (S (S (S (S
                     (S (S (S (S (S (S (S (S (S (S (S (S (S (S (S
                     O))))))))))))))))))))
                then (match d with
                      | [] -> Panic
                      | p0 :: _ ->
                        pick_type (beqb p0 n0.n_pkh) (beqb p0 n0.n_sh)
                          coq_ConfidentialP2Pkh coq_ConfidentialP2Sh)
                else Err
      else if lenb d (S (S (S (S (S (S (S (S (S (S (S (S (S (S (S (S (S (S (S
                (S O))))))))))))))))))))
           then pick_type (beqb id n0.n_pkh) (beqb id n0.n_sh) coq_P2Pkh
                  coq_P2Sh
           else Err
    | None -> Err

  (** val decode_type :
      (bytes -> (bytes * byte) option) -> (bytes -> ((bytes * bytes) * bool)
      option) -> (bytes -> n -> n -> bool -> bytes option) -> bytes -> n res **)

  let decode_type b58dec bech_dec bcb s =
    match network_for_address b58dec s with
    | Ok n0 ->
      if is_hrp s n0.n_blech32
      then decode_blech32 s
      else if is_hrp s n0.n_bech32
           then decode_bech32 bech_dec bcb s
           else decode_base58 b58dec s n0
    | Err -> Err
    | Panic -> Panic

  (** val is_conf_type : n -> bool **)

  let is_conf_type t =
    (||)
      ((||)
        ((||)
          ((||) (N.eqb t coq_ConfidentialP2Pkh)
            (N.eqb t coq_ConfidentialP2Sh)) (N.eqb t coq_ConfidentialP2Wpkh))
        (N.eqb t coq_ConfidentialP2Wsh)) (N.eqb t coq_ConfidentialP2TR)

  (** val is_confidential :
      (bytes -> (bytes * byte) option) -> (bytes -> ((bytes * bytes) * bool)
      option) -> (bytes -> n -> n -> bool -> bytes option) -> bytes -> bool
      res **)

  let is_confidential b58dec bech_dec bcb s =
    match decode_type b58dec bech_dec bcb s with
    | Ok t -> Ok (is_conf_type t)
    | Err -> Err
    | Panic -> Panic

  (** val of_opt : 'a1 option -> 'a1 res **)

  let of_opt = function
  | Some a -> Ok a
  | None -> Err

  (** val to_output_script :
      (bytes -> (bytes * byte) option) -> (bytes -> ((bytes * bytes) * bool)
      option) -> (bytes -> n -> n -> bool -> bytes option) -> bytes -> bytes
      res **)

  let to_output_script b58dec bech_dec bcb s =
    match decode_type b58dec bech_dec bcb s with
    | Ok t ->
      if N.eqb t coq_P2Pkh
      then (match b58dec s with
            | Some p -> let (d, _) = p in of_opt (script_p2pkh d)
            | None -> Err)
      else if N.eqb t coq_P2Sh
           then (match b58dec s with
                 | Some p -> let (d, _) = p in of_opt (script_p2sh d)
                 | None -> Err)
           else if N.eqb t coq_ConfidentialP2Pkh
                then (match b58dec s with
                      | Some p ->
                        let (d, _) = p in
                        if Nat.ltb (length d) (S (S (S (S (S (S (S (S (S (S
                             (S (S (S (S (S (S (S (S (S (S (S (S (S (S (S (S
                             (S (S (S (S (S (S (S (S
                             O))))))))))))))))))))))))))))))))))
                        then Panic
                        else of_opt
                               (script_p2pkh
                                 (skipn (S (S (S (S (S (S (S (S (S (S (S (S
                                   (S (S (S (S (S (S (S (S (S (S (S (S (S (S
                                   (S (S (S (S (S (S (S (S
                                   O)))))))))))))))))))))))))))))))))) d))
                      | None -> Err)
                else if N.eqb t coq_ConfidentialP2Sh
                     then (match b58dec s with
                           | Some p ->
                             let (d, _) = p in
                             if Nat.ltb (length d) (S (S (S (S (S (S (S (S (S
                                  (S (S (S (S (S (S (S (S (S (S (S (S (S (S
                                  (S (S (S (S (S (S (S (S (S (S (S
                                  O))))))))))))))))))))))))))))))))))
                             then Panic
                             else of_opt
                                    (script_p2sh
                                      (skipn (S (S (S (S (S (S (S (S (S (S (S
                                        (S (S (S (S (S (S (S (S (S (S (S (S
                                        (S (S (S (S (S (S (S (S (S (S (S
                                        O)))))))))))))))))))))))))))))))))) d))
                           | None -> Err)
                     else if (||)
                               ((||) (N.eqb t coq_P2Wpkh) (N.eqb t coq_P2Wsh))
                               (N.eqb t coq_P2TR)
                          then (match from_bech32 bech_dec bcb s with
                                | Ok a ->
                                  let (p0, p) = a in
                                  let (_, v) = p0 in
                                  of_opt (script_segwit v p)
                                | Err -> Err
                                | Panic -> Panic)
                          else if (||)
                                    ((||) (N.eqb t coq_ConfidentialP2Wpkh)
                                      (N.eqb t coq_ConfidentialP2Wsh))
                                    (N.eqb t coq_ConfidentialP2TR)
                               then (match from_blech32 s with
                                     | Ok a ->
                                       let (p0, p) = a in
                                       let (p1, _) = p0 in
                                       let (_, v) = p1 in
                                       of_opt (script_segwit v p)
                                     | Err -> Err
                                     | Panic -> Panic)
                               else Err
    | Err -> Err
    | Panic -> Panic

  (** val from_confidential :
      (bytes -> byte -> bytes) -> (bytes -> (bytes * byte) option) -> (bytes
      -> ((bytes * bytes) * bool) option) -> (bool -> bytes -> bytes -> bytes
      option) -> (bytes -> n -> n -> bool -> bytes option) -> bytes ->
      ((bytes * bytes) * bytes) res **)

  let from_confidential b58enc b58dec bech_dec bech_enc bcb s =
    match network_for_address b58dec s with
    | Ok n0 ->
      (match decode_type b58dec bech_dec bcb s with
       | Ok t ->
         let finish0 = fun addr key ->
           match to_output_script b58dec bech_dec bcb addr with
           | Ok scr -> Ok ((addr, key), scr)
           | Err -> Ok ((addr, key), [])
           | Panic -> Panic
         in
         if (||) (N.eqb t coq_ConfidentialP2Pkh)
              (N.eqb t coq_ConfidentialP2Sh)
         then (match from_base58_conf b58dec s with
               | Ok a ->
                 let (p, d) = a in
                 let (p0, key) = p in
                 let (_, v) = p0 in finish0 (to_base58 b58enc v d) key
               | Err -> Err
               | Panic -> Panic)
         else if (||)
                   ((||) (N.eqb t coq_ConfidentialP2Wpkh)
                     (N.eqb t coq_ConfidentialP2Wsh))
                   (N.eqb t coq_ConfidentialP2TR)
              then (match from_blech32 s with
                    | Ok a ->
                      let (p0, p) = a in
                      let (p1, key) = p0 in
                      let (_, v) = p1 in
                      (match to_bech32 bech_enc bcb n0.n_bech32 v p with
                       | Ok addr -> finish0 addr key
                       | Err -> Err
                       | Panic -> Panic)
                    | Err -> Err
                    | Panic -> Panic)
              else Err
       | Err -> Err
       | Panic -> Panic)
    | Err -> Err
    | Panic -> Panic

  (** val to_confidential :
      (bytes -> byte -> bytes) -> (bytes -> (bytes * byte) option) -> (bytes
      -> ((bytes * bytes) * bool) option) -> (bytes -> n -> n -> bool ->
      bytes option) -> bytes -> bytes -> bytes res **)

  let to_confidential b58enc b58dec bech_dec bcb addr key =
    match network_for_address b58dec addr with
    | Ok n0 ->
      if is_hrp addr n0.n_bech32
      then (match from_bech32 bech_dec bcb addr with
            | Ok a ->
              let (p0, p) = a in
              let (_, v) = p0 in to_blech32 n0.n_blech32 v key p
            | Err -> Err
            | Panic -> Panic)
      else (match from_base58 b58dec addr with
            | Ok a ->
              let (v, d) = a in Ok (to_base58_conf b58enc n0.n_conf v key d)
            | Err -> Err
            | Panic -> Panic)
    | Err -> Err
    | Panic -> Panic

  (** val swallow : bytes res -> bytes res **)

  let swallow r = match r with
  | Err -> Ok []
  | _ -> r

  (** val nonempty_b : bytes -> bool **)

  let nonempty_b = function
  | [] -> false
  | _ :: _ -> true

  (** val pay_address :
      (bytes -> byte -> bytes) -> (bool -> bytes -> bytes -> bytes option) ->
      (bytes -> n -> n -> bool -> bytes option) -> n -> net -> bytes -> bytes
      -> bytes -> bytes -> bytes res **)

  let pay_address b58enc bech_enc bcb kind n0 hash whash tapkey key =
    if N.eqb kind N0
    then if nonempty_b hash then Ok (to_base58 b58enc n0.n_pkh hash) else Err
    else if N.eqb kind (Npos XH)
         then if nonempty_b hash
              then Ok (b58enc (app (n0.n_pkh :: []) (app key hash)) n0.n_conf)
              else Err
         else if N.eqb kind (Npos (XO XH))
              then if nonempty_b hash
                   then Ok (to_base58 b58enc n0.n_sh hash)
                   else Err
              else if N.eqb kind (Npos (XI XH))
                   then if nonempty_b hash
                        then Ok
                               (b58enc (app (n0.n_sh :: []) (app key hash))
                                 n0.n_conf)
                        else Err
                   else if N.eqb kind (Npos (XO (XO XH)))
                        then if nonempty_b whash
                             then swallow
                                    (to_bech32 bech_enc bcb n0.n_bech32 X00
                                      whash)
                             else Err
                        else if N.eqb kind (Npos (XI (XO XH)))
                             then if nonempty_b whash
                                  then to_blech32 n0.n_blech32 X00 key whash
                                  else Err
                             else if N.eqb kind (Npos (XO (XI XH)))
                                  then if nonempty_b whash
                                       then to_bech32 bech_enc bcb
                                              n0.n_bech32 X00 whash
                                       else Err
                                  else if N.eqb kind (Npos (XI (XI XH)))
                                       then if nonempty_b whash
                                            then swallow
                                                   (to_blech32 n0.n_blech32
                                                     X00 key whash)
                                            else Err
                                       else if N.eqb kind (Npos (XO (XO (XO
                                                 XH))))
                                            then if lenb tapkey (S (S (S (S
                                                      (S (S (S (S (S (S (S (S
                                                      (S (S (S (S (S (S (S (S
                                                      (S (S (S (S (S (S (S (S
                                                      (S (S (S (S
                                                      O))))))))))))))))))))))))))))))))
                                                 then to_bech32 bech_enc bcb
                                                        n0.n_bech32 X01 tapkey
                                                 else Err
                                            else if N.eqb kind (Npos (XI (XO
                                                      (XO XH))))
                                                 then if lenb tapkey (S (S (S
                                                           (S (S (S (S (S (S
                                                           (S (S (S (S (S (S
                                                           (S (S (S (S (S (S
                                                           (S (S (S (S (S (S
                                                           (S (S (S (S (S
                                                           O))))))))))))))))))))))))))))))))
                                                      then swallow
                                                             (to_blech32
                                                               n0.n_blech32
                                                               X01 key tapkey)
                                                      else Err
                                                 else Err
 end

(** val zero32b : bytes **)

let zero32b =
  repeat X00 (S (S (S (S (S (S (S (S (S (S (S (S (S (S (S (S (S (S (S (S (S
    (S (S (S (S (S (S (S (S (S (S (S O))))))))))))))))))))))))))))))))

(** val compute_entropy : bytes -> n -> bytes -> bytes option **)

let compute_entropy hash index0 chash =
  if negb
       (Nat.eqb (length hash) (S (S (S (S (S (S (S (S (S (S (S (S (S (S (S (S
         (S (S (S (S (S (S (S (S (S (S (S (S (S (S (S (S
         O)))))))))))))))))))))))))))))))))
  then None
  else if negb
            (Nat.eqb (length chash) (S (S (S (S (S (S (S (S (S (S (S (S (S (S
              (S (S (S (S (S (S (S (S (S (S (S (S (S (S (S (S (S (S
              O)))))))))))))))))))))))))))))))))
       then None
       else Some
              (midstate256
                (app (dsha256 (app hash (le_enc (S (S (S (S O)))) index0)))
                  chash))

(** val compute_asset : bytes -> bytes option **)

let compute_asset entropy =
  if negb
       (Nat.eqb (length entropy) (S (S (S (S (S (S (S (S (S (S (S (S (S (S (S
         (S (S (S (S (S (S (S (S (S (S (S (S (S (S (S (S (S
         O)))))))))))))))))))))))))))))))))
  then None
  else Some
         (midstate256
           (app entropy
             (repeat X00 (S (S (S (S (S (S (S (S (S (S (S (S (S (S (S (S (S
               (S (S (S (S (S (S (S (S (S (S (S (S (S (S (S
               O)))))))))))))))))))))))))))))))))))

(** val compute_token : bytes -> n -> bytes option **)

let compute_token entropy flag =
  if negb
       (Nat.eqb (length entropy) (S (S (S (S (S (S (S (S (S (S (S (S (S (S (S
         (S (S (S (S (S (S (S (S (S (S (S (S (S (S (S (S (S
         O)))))))))))))))))))))))))))))))))
  then None
  else if negb ((||) (N.eqb flag N0) (N.eqb flag (Npos XH)))
       then None
       else Some
              (midstate256
                (app entropy
                  ((b8 (N.add flag (Npos XH))) :: (repeat X00 (S (S (S (S (S
                                                    (S (S (S (S (S (S (S (S
                                                    (S (S (S (S (S (S (S (S
                                                    (S (S (S (S (S (S (S (S
                                                    (S (S
                                                    O)))))))))))))))))))))))))))))))))))

type iss_contract = { c_name : bytes; c_ticker : bytes; c_version : n;
                      c_precision : n; c_pubkey : bytes; c_domain : bytes }

(** val dec_digits : nat -> n -> bytes -> bytes **)

let rec dec_digits fuel n0 acc =
  match fuel with
  | O -> acc
  | S f ->
    let acc' =
      (b8
        (N.add (Npos (XO (XO (XO (XO (XI XH))))))
          (N.modulo n0 (Npos (XO (XI (XO XH))))))) :: acc
    in
    if N.eqb (N.div n0 (Npos (XO (XI (XO XH))))) N0
    then acc'
    else dec_digits f (N.div n0 (Npos (XO (XI (XO XH))))) acc'

(** val dec_of_N : n -> bytes **)

let dec_of_N n0 =
  dec_digits (S (S (S (S (S (S (S (S (S (S (S (S (S (S (S (S (S (S (S (S
    O)))))))))))))))))))) n0 []

type iss_jvalue =
| JStr of bytes
| JNum of n
| JObj of (bytes * iss_jvalue) list

(** val bytes_ltb : bytes -> bytes -> bool **)

let rec bytes_ltb a b =
  match a with
  | [] -> (match b with
           | [] -> false
           | _ :: _ -> true)
  | x :: a' ->
    (match b with
     | [] -> false
     | y :: b' ->
       if N.ltb (n8 x) (n8 y)
       then true
       else if N.ltb (n8 y) (n8 x) then false else bytes_ltb a' b')

(** val insert_field :
    (bytes * iss_jvalue) -> (bytes * iss_jvalue) list -> (bytes * iss_jvalue)
    list **)

let rec insert_field f l = match l with
| [] -> f :: []
| g :: r ->
  if bytes_ltb (fst g) (fst f) then g :: (insert_field f r) else f :: l

(** val sort_fields :
    (bytes * iss_jvalue) list -> (bytes * iss_jvalue) list **)

let sort_fields l =
  fold_right insert_field [] l

(** val iss_quote : byte **)

let iss_quote =
  b8 (Npos (XO (XI (XO (XO (XO XH))))))

(** val jstr : bytes -> bytes **)

let jstr s =
  iss_quote :: (app s (iss_quote :: []))

(** val ser_json : nat -> iss_jvalue -> bytes **)

let rec ser_json fuel v =
  match fuel with
  | O -> []
  | S f ->
    (match v with
     | JStr s -> jstr s
     | JNum n0 -> dec_of_N n0
     | JObj fields ->
       let body =
         map (fun kv ->
           app (jstr (fst kv))
             ((b8 (Npos (XO (XI (XO (XI (XI XH))))))) :: (ser_json f (snd kv))))
           (sort_fields fields)
       in
       let commas =
         let rec commas = function
         | [] -> []
         | x :: r ->
           (match r with
            | [] -> x
            | _ :: _ ->
              app x ((b8 (Npos (XO (XO (XI (XI (XO XH))))))) :: (commas r)))
         in commas
       in
       (b8 (Npos (XI (XI (XO (XI (XI (XI XH)))))))) :: (app (commas body)
                                                         ((b8 (Npos (XI (XO
                                                            (XI (XI (XI (XI
                                                            XH)))))))) :: [])))

(** val iss_ascii : n list -> bytes **)

let iss_ascii l =
  map b8 l

(** val k_name : bytes **)

let k_name =
  iss_ascii ((Npos (XO (XI (XI (XI (XO (XI XH))))))) :: ((Npos (XI (XO (XO
    (XO (XO (XI XH))))))) :: ((Npos (XI (XO (XI (XI (XO (XI
    XH))))))) :: ((Npos (XI (XO (XI (XO (XO (XI XH))))))) :: []))))

(** val k_ticker : bytes **)

let k_ticker =
  iss_ascii ((Npos (XO (XO (XI (XO (XI (XI XH))))))) :: ((Npos (XI (XO (XO
    (XI (XO (XI XH))))))) :: ((Npos (XI (XI (XO (XO (XO (XI
    XH))))))) :: ((Npos (XI (XI (XO (XI (XO (XI XH))))))) :: ((Npos (XI (XO
    (XI (XO (XO (XI XH))))))) :: ((Npos (XO (XI (XO (XO (XI (XI
    XH))))))) :: []))))))

(** val k_version : bytes **)

let k_version =
  iss_ascii ((Npos (XO (XI (XI (XO (XI (XI XH))))))) :: ((Npos (XI (XO (XI
    (XO (XO (XI XH))))))) :: ((Npos (XO (XI (XO (XO (XI (XI
    XH))))))) :: ((Npos (XI (XI (XO (XO (XI (XI XH))))))) :: ((Npos (XI (XO
    (XO (XI (XO (XI XH))))))) :: ((Npos (XI (XI (XI (XI (XO (XI
    XH))))))) :: ((Npos (XO (XI (XI (XI (XO (XI XH))))))) :: [])))))))

(** val k_precision : bytes **)

let k_precision =
  iss_ascii ((Npos (XO (XO (XO (XO (XI (XI XH))))))) :: ((Npos (XO (XI (XO
    (XO (XI (XI XH))))))) :: ((Npos (XI (XO (XI (XO (XO (XI
    XH))))))) :: ((Npos (XI (XI (XO (XO (XO (XI XH))))))) :: ((Npos (XI (XO
    (XO (XI (XO (XI XH))))))) :: ((Npos (XI (XI (XO (XO (XI (XI
    XH))))))) :: ((Npos (XI (XO (XO (XI (XO (XI XH))))))) :: ((Npos (XI (XI
    (XI (XI (XO (XI XH))))))) :: ((Npos (XO (XI (XI (XI (XO (XI
    XH))))))) :: [])))))))))

(** val k_pubkey : bytes **)

let k_pubkey =
  iss_ascii ((Npos (XI (XO (XO (XI (XO (XI XH))))))) :: ((Npos (XI (XI (XO
    (XO (XI (XI XH))))))) :: ((Npos (XI (XI (XO (XO (XI (XI
    XH))))))) :: ((Npos (XI (XO (XI (XO (XI (XI XH))))))) :: ((Npos (XI (XO
    (XI (XO (XO (XI XH))))))) :: ((Npos (XO (XI (XO (XO (XI (XI
    XH))))))) :: ((Npos (XI (XI (XI (XI (XI (XO XH))))))) :: ((Npos (XO (XO
    (XO (XO (XI (XI XH))))))) :: ((Npos (XI (XO (XI (XO (XI (XI
    XH))))))) :: ((Npos (XO (XI (XO (XO (XO (XI XH))))))) :: ((Npos (XI (XI
    (XO (XI (XO (XI XH))))))) :: ((Npos (XI (XO (XI (XO (XO (XI
    XH))))))) :: ((Npos (XI (XO (XO (XI (XI (XI XH))))))) :: [])))))))))))))

(** val k_entity : bytes **)

let k_entity =
  iss_ascii ((Npos (XI (XO (XI (XO (XO (XI XH))))))) :: ((Npos (XO (XI (XI
    (XI (XO (XI XH))))))) :: ((Npos (XO (XO (XI (XO (XI (XI
    XH))))))) :: ((Npos (XI (XO (XO (XI (XO (XI XH))))))) :: ((Npos (XO (XO
    (XI (XO (XI (XI XH))))))) :: ((Npos (XI (XO (XO (XI (XI (XI
    XH))))))) :: []))))))

(** val k_domain : bytes **)

let k_domain =
  iss_ascii ((Npos (XO (XO (XI (XO (XO (XI XH))))))) :: ((Npos (XI (XI (XI
    (XI (XO (XI XH))))))) :: ((Npos (XI (XO (XI (XI (XO (XI
    XH))))))) :: ((Npos (XI (XO (XO (XO (XO (XI XH))))))) :: ((Npos (XI (XO
    (XO (XI (XO (XI XH))))))) :: ((Npos (XO (XI (XI (XI (XO (XI
    XH))))))) :: []))))))

(** val contract_fields : iss_contract -> (bytes * iss_jvalue) list **)

let contract_fields c =
  (k_name, (JStr c.c_name)) :: ((k_ticker, (JStr c.c_ticker)) :: ((k_version,
    (JNum c.c_version)) :: ((k_precision, (JNum
    c.c_precision)) :: ((k_pubkey, (JStr c.c_pubkey)) :: ((k_entity, (JObj
    ((k_domain, (JStr c.c_domain)) :: []))) :: [])))))

(** val contract_json : iss_contract -> bytes **)

let contract_json c =
  ser_json (S (S (S O))) (JObj (contract_fields c))

(** val contract_hash : iss_contract -> bytes **)

let contract_hash c =
  sha256 (contract_json c)

type iss_ext = { ie_iss : issuance; ie_precision : n; ie_chash : bytes }

(** val iss_value_to_bytes : n -> bytes **)

let iss_value_to_bytes v =
  (b8 (Npos XH)) :: (be_enc (S (S (S (S (S (S (S (S O)))))))) v)

(** val issuance_amount : n -> bytes **)

let issuance_amount v =
  if N.eqb v N0 then X00 :: [] else iss_value_to_bytes v

(** val new_tx_issuance :
    n -> n -> n -> iss_contract option -> iss_ext option **)

let new_tx_issuance asset token precision c =
  if N.ltb (Npos (XO (XO (XO XH)))) precision
  then None
  else (match c with
        | Some ct ->
          if negb (N.eqb ct.c_precision precision)
          then None
          else Some { ie_iss = { iss_nonce = zero32b; iss_entropy = [];
                 iss_amount = (issuance_amount asset); iss_token =
                 (issuance_amount token) }; ie_precision = precision;
                 ie_chash = (contract_hash ct) }
        | None ->
          Some { ie_iss = { iss_nonce = zero32b; iss_entropy = [];
            iss_amount = (issuance_amount asset); iss_token =
            (issuance_amount token) }; ie_precision = precision; ie_chash =
            zero32b })

(** val generate_entropy : iss_ext -> bytes -> n -> iss_ext option **)

let generate_entropy ie hash index0 =
  match compute_entropy hash index0 ie.ie_chash with
  | Some e ->
    Some { ie_iss = { iss_nonce = ie.ie_iss.iss_nonce; iss_entropy = e;
      iss_amount = ie.ie_iss.iss_amount; iss_token = ie.ie_iss.iss_token };
      ie_precision = ie.ie_precision; ie_chash = ie.ie_chash }
  | None -> None

(** val generate_asset : iss_ext -> bytes option **)

let generate_asset ie =
  compute_asset ie.ie_iss.iss_entropy

(** val generate_token : iss_ext -> n -> bytes option **)

let generate_token ie flag =
  compute_token ie.ie_iss.iss_entropy flag

(** val is_reissuance : issuance -> bool **)

let is_reissuance s =
  negb (bytes_eqb s.iss_nonce zero32b)

(** val from_entropy : bytes -> iss_ext **)

let from_entropy e =
  { ie_iss = { iss_nonce = []; iss_entropy = e; iss_amount = []; iss_token =
    [] }; ie_precision = N0; ie_chash = [] }

(** val from_contract_hash : bytes -> iss_ext **)

let from_contract_hash h =
  { ie_iss = { iss_nonce = []; iss_entropy = []; iss_amount = []; iss_token =
    [] }; ie_precision = N0; ie_chash = h }

(** val new_from_input : bytes -> n -> issuance -> iss_ext option **)

let new_from_input hash index0 s =
  if is_reissuance s
  then Some (from_entropy s.iss_entropy)
  else generate_entropy (from_contract_hash s.iss_entropy) hash index0

type iss_addr = { ad_present : bool; ad_valid : bool; ad_conf : bool;
                  ad_script : bytes; ad_key : bytes }

type iss_args = { ia_precision : n; ia_contract : iss_contract option;
                  ia_asset : n; ia_token : n; ia_aaddr : iss_addr;
                  ia_taddr : iss_addr; ia_blinded : bool }

(** val explicit_asset : bytes -> bytes **)

let explicit_asset id =
  (b8 (Npos XH)) :: id

(** val new_tx_output : bytes -> bytes -> bytes -> txout **)

let new_tx_output asset value script0 =
  { o_asset = asset; o_value = value; o_script = script0; o_nonce =
    (X00 :: []); o_rp = []; o_sp = [] }

type v0pkt = { v0_tx : tx; v0_nin : n; v0_nout : n }

(** val v0_add_output : v0pkt -> txout -> v0pkt **)

let v0_add_output p o =
  let t = p.v0_tx in
  { v0_tx = { t_version = t.t_version; t_flag = t.t_flag; t_locktime =
  t.t_locktime; t_ins = t.t_ins; t_outs = (app t.t_outs (o :: [])) };
  v0_nin = p.v0_nin; v0_nout = (N.add p.v0_nout (Npos XH)) }

(** val v0_add_input : v0pkt -> txin -> v0pkt **)

let v0_add_input p i =
  let t = p.v0_tx in
  { v0_tx = { t_version = t.t_version; t_flag = t.t_flag; t_locktime =
  t.t_locktime; t_ins = (app t.t_ins (i :: [])); t_outs = t.t_outs };
  v0_nin = (N.add p.v0_nin (Npos XH)); v0_nout = p.v0_nout }

(** val set_in_iss : txin -> issuance -> txin **)

let set_in_iss i s =
  { in_hash = i.in_hash; in_index = i.in_index; in_seq = i.in_seq;
    in_script = i.in_script; in_witness = i.in_witness; in_pegin =
    i.in_pegin; in_pegwit = i.in_pegwit; in_iss = (Some s); in_irp =
    i.in_irp; in_inrp = i.in_inrp }

(** val iss_set_nth : nat -> ('a1 -> 'a1) -> 'a1 list -> 'a1 list **)

let rec iss_set_nth n0 f = function
| [] -> []
| x :: r -> (match n0 with
             | O -> (f x) :: r
             | S k -> x :: (iss_set_nth k f r))

(** val v0_set_iss : v0pkt -> nat -> issuance -> v0pkt **)

let v0_set_iss p idx s =
  let t = p.v0_tx in
  { v0_tx = { t_version = t.t_version; t_flag = t.t_flag; t_locktime =
  t.t_locktime; t_ins = (iss_set_nth idx (fun i -> set_in_iss i s) t.t_ins);
  t_outs = t.t_outs }; v0_nin = p.v0_nin; v0_nout = p.v0_nout }

(** val find_empty : txin list -> nat -> (nat * txin) option **)

let rec find_empty l k =
  match l with
  | [] -> None
  | i :: r ->
    (match i.in_iss with
     | Some _ -> find_empty r (S k)
     | None -> Some (k, i))

(** val v0_validate : iss_args -> bool **)

let v0_validate a =
  match new_tx_issuance a.ia_asset a.ia_token a.ia_precision a.ia_contract with
  | Some _ ->
    (&&)
      ((&&)
        (if N.ltb N0 a.ia_asset
         then (&&) a.ia_aaddr.ad_present a.ia_aaddr.ad_valid
         else true)
        (if N.ltb N0 a.ia_token
         then (&&) a.ia_taddr.ad_present a.ia_taddr.ad_valid
         else true))
      (if (||) (negb a.ia_aaddr.ad_present) (negb a.ia_taddr.ad_present)
       then true
       else eqb a.ia_aaddr.ad_conf a.ia_taddr.ad_conf)
  | None -> false

(** val iss_flag_of : bool -> n **)

let iss_flag_of = function
| true -> Npos XH
| false -> N0

(** val v0_add_issuance : v0pkt -> iss_args -> bool * v0pkt **)

let v0_add_issuance p a =
  if negb (v0_validate a)
  then (false, p)
  else (match p.v0_tx.t_ins with
        | [] -> (false, p)
        | _ :: _ ->
          (match new_tx_issuance a.ia_asset a.ia_token a.ia_precision
                   a.ia_contract with
           | Some iss0 ->
             (match find_empty p.v0_tx.t_ins O with
              | Some p0 ->
                let (idx, i) = p0 in
                (match generate_entropy iss0 i.in_hash i.in_index with
                 | Some iss ->
                   let s = iss.ie_iss in
                   let p1 =
                     v0_set_iss p idx { iss_nonce = s.iss_nonce;
                       iss_entropy = iss.ie_chash; iss_amount = s.iss_amount;
                       iss_token = s.iss_token }
                   in
                   (match generate_asset iss with
                    | Some asset ->
                      if negb a.ia_aaddr.ad_valid
                      then (false, p1)
                      else let p2 =
                             if N.ltb N0 a.ia_asset
                             then v0_add_output p1
                                    (new_tx_output (explicit_asset asset)
                                      s.iss_amount a.ia_aaddr.ad_script)
                             else p1
                           in
                           if N.ltb N0 a.ia_token
                           then (match generate_token iss
                                         (iss_flag_of a.ia_aaddr.ad_conf) with
                                 | Some token ->
                                   if negb a.ia_taddr.ad_valid
                                   then (false, p2)
                                   else (true,
                                          (v0_add_output p2
                                            (new_tx_output
                                              (explicit_asset token)
                                              s.iss_token
                                              a.ia_taddr.ad_script)))
                                 | None -> (false, p2))
                           else (true, p2)
                    | None -> (false, p1))
                 | None -> (false, p))
              | None -> (false, p))
           | None -> (false, p)))

type v0_reiss_args = { rva_utxo_ok : bool; rva_hash : bytes option;
                       rva_index : n; rva_blinder : bytes;
                       rva_entropy : bytes option; rva_asset : n;
                       rva_token : n; rva_aaddr : iss_addr;
                       rva_taddr : iss_addr }

(** val iss_hex32 : bytes option -> bool **)

let iss_hex32 = function
| Some b ->
  Nat.eqb (length b) (S (S (S (S (S (S (S (S (S (S (S (S (S (S (S (S (S (S (S
    (S (S (S (S (S (S (S (S (S (S (S (S (S O))))))))))))))))))))))))))))))))
| None -> false

(** val iss_obytes : bytes option -> bytes **)

let iss_obytes = function
| Some b -> b
| None -> []

(** val v0_reiss_validate : v0_reiss_args -> bool **)

let v0_reiss_validate a =
  (&&)
    ((&&)
      ((&&)
        ((&&)
          ((&&)
            ((&&)
              ((&&)
                ((&&)
                  ((&&)
                    ((&&) ((&&) a.rva_utxo_ok (iss_hex32 a.rva_hash))
                      (Nat.eqb (length a.rva_blinder) (S (S (S (S (S (S (S (S
                        (S (S (S (S (S (S (S (S (S (S (S (S (S (S (S (S (S (S
                        (S (S (S (S (S (S O))))))))))))))))))))))))))))))))))
                    (iss_hex32 a.rva_entropy)) (N.ltb N0 a.rva_asset))
                (N.ltb N0 a.rva_token)) a.rva_aaddr.ad_present)
            a.rva_aaddr.ad_valid) a.rva_taddr.ad_present)
        a.rva_taddr.ad_valid) a.rva_aaddr.ad_conf) a.rva_taddr.ad_conf

(** val new_tx_input : bytes -> n -> txin **)

let new_tx_input hash index0 =
  { in_hash = hash; in_index =
    (if N.eqb index0 minusOne
     then index0
     else N.coq_land index0 outpointIndexMask); in_seq = (Npos (XI (XI (XI
    (XI (XI (XI (XI (XI (XI (XI (XI (XI (XI (XI (XI (XI (XI (XI (XI (XI (XI
    (XI (XI (XI (XI (XI (XI (XI (XI (XI (XI
    XH)))))))))))))))))))))))))))))))); in_script = []; in_witness = [];
    in_pegin = false; in_pegwit = []; in_iss = None; in_irp = []; in_inrp =
    [] }

(** val v0_add_reissuance : v0pkt -> v0_reiss_args -> bool * v0pkt **)

let v0_add_reissuance p a =
  if negb (v0_reiss_validate a)
  then (false, p)
  else if N.eqb p.v0_nin N0
       then (false, p)
       else let prevout_hash = rev (iss_obytes a.rva_hash) in
            let p1 = v0_add_input p (new_tx_input prevout_hash a.rva_index) in
            let input_index = N.to_nat (N.sub p1.v0_nin (Npos XH)) in
            let entropy = rev (iss_obytes a.rva_entropy) in
            let iss = from_entropy entropy in
            let asset = match generate_asset iss with
                        | Some x -> x
                        | None -> []
            in
            let token =
              match generate_token iss (Npos XH) with
              | Some x -> x
              | None -> []
            in
            let asset_amount = iss_value_to_bytes a.rva_asset in
            let token_amount = iss_value_to_bytes a.rva_token in
            let p2 =
              v0_add_output p1
                (new_tx_output (explicit_asset asset) asset_amount
                  a.rva_aaddr.ad_script)
            in
            let p3 =
              v0_add_output p2
                (new_tx_output (explicit_asset token) token_amount
                  a.rva_taddr.ad_script)
            in
            (true,
            (v0_set_iss p3 input_index { iss_nonce = a.rva_blinder;
              iss_entropy = entropy; iss_amount = asset_amount; iss_token =
              (X00 :: []) }))

type v2in = { vi_txid : bytes; vi_index : n; vi_seq : n; vi_value : n;
              vi_vcommit : bytes option; vi_keys : n;
              vi_kcommit : bytes option; vi_nonce : bytes option;
              vi_entropy : bytes option; vi_blinded : bool option }

type v2out = { vo_value : n; vo_asset : bytes; vo_script : bytes;
               vo_bkey : bytes; vo_bidx : n; vo_vcommit : bytes option;
               vo_acommit : bytes option; vo_ecdh : bytes option }

type v2pkt = { v2_incount : n; v2_outcount : n; v2_outs_modifiable : 
               bool; v2_ins : v2in list; v2_outs : v2out list }

(** val iss_olen : bytes option -> nat **)

let iss_olen o =
  length (iss_obytes o)

(** val iss_is_some : 'a1 option -> bool **)

let iss_is_some = function
| Some _ -> true
| None -> false

(** val vi_has_issuance : v2in -> bool **)

let vi_has_issuance i =
  (||) (N.ltb N0 i.vi_value) (N.ltb N0 i.vi_keys)

(** val vi_has_reissuance : v2in -> bool **)

let vi_has_reissuance i =
  if Nat.eqb (iss_olen i.vi_nonce) O
  then false
  else negb (bytes_eqb (iss_obytes i.vi_nonce) zero32b)

(** val vi_is_blinded : v2in -> bool **)

let vi_is_blinded i =
  match i.vi_blinded with
  | Some b -> b
  | None -> true

(** val vi_issuance : v2in -> iss_ext **)

let vi_issuance i =
  if vi_has_reissuance i
  then from_entropy (iss_obytes i.vi_entropy)
  else (match generate_entropy (from_contract_hash (iss_obytes i.vi_entropy))
                i.vi_txid i.vi_index with
        | Some x -> x
        | None -> from_contract_hash (iss_obytes i.vi_entropy))

(** val get_issuance_asset_hash : v2in -> bytes option **)

let get_issuance_asset_hash i =
  if negb (vi_has_issuance i) then None else generate_asset (vi_issuance i)

(** val get_issuance_keys_hash : v2in -> bytes option **)

let get_issuance_keys_hash i =
  if negb (vi_has_issuance i)
  then None
  else generate_token (vi_issuance i) (iss_flag_of (vi_is_blinded i))

(** val v2_validate : iss_args -> bool **)

let v2_validate a =
  match new_tx_issuance a.ia_asset a.ia_token a.ia_precision a.ia_contract with
  | Some _ ->
    (&&) ((&&) a.ia_aaddr.ad_present a.ia_aaddr.ad_valid)
      (if N.ltb N0 a.ia_token
       then (&&) a.ia_taddr.ad_present a.ia_taddr.ad_valid
       else true)
  | None -> false

(** val v2_index_ok : v2pkt -> z -> v2in option **)

let v2_index_ok p idx =
  if (||) (Z.ltb idx Z0) (Z.ltb (Z.sub (Z.of_N p.v2_incount) (Zpos XH)) idx)
  then None
  else (match nth_error p.v2_ins (Z.to_nat idx) with
        | Some i -> if iss_is_some i.vi_entropy then None else Some i
        | None -> None)

(** val v2_new_output : bytes -> n -> iss_addr -> n -> n -> v2out **)

let v2_new_output asset amount a arg_bidx final_bidx =
  let key = if a.ad_conf then a.ad_key else [] in
  { vo_value = amount; vo_asset = asset; vo_script = a.ad_script; vo_bkey =
  key; vo_bidx = (if Nat.ltb O (length key) then final_bidx else arg_bidx);
  vo_vcommit = None; vo_acommit = None; vo_ecdh = None }

(** val v2_add_output : v2pkt -> v2out -> v2pkt option **)

let v2_add_output p o =
  if Nat.eqb (length o.vo_asset) O
  then None
  else if negb p.v2_outs_modifiable
       then None
       else Some { v2_incount = p.v2_incount; v2_outcount =
              (N.add p.v2_outcount (Npos XH)); v2_outs_modifiable =
              p.v2_outs_modifiable; v2_ins = p.v2_ins; v2_outs =
              (app p.v2_outs (o :: [])) }

(** val v2_set_in : v2pkt -> nat -> (v2in -> v2in) -> v2pkt **)

let v2_set_in p idx f =
  { v2_incount = p.v2_incount; v2_outcount = p.v2_outcount;
    v2_outs_modifiable = p.v2_outs_modifiable; v2_ins =
    (iss_set_nth idx f p.v2_ins); v2_outs = p.v2_outs }

(** val v2_add_in_issuance : v2pkt -> z -> iss_args -> bool * v2pkt **)

let v2_add_in_issuance p idx a =
  if negb (v2_validate a)
  then (false, p)
  else (match p.v2_ins with
        | [] -> (false, p)
        | _ :: _ ->
          (match v2_index_ok p idx with
           | Some input ->
             (match new_tx_issuance a.ia_asset a.ia_token a.ia_precision
                      a.ia_contract with
              | Some iss0 ->
                (match generate_entropy iss0 input.vi_txid input.vi_index with
                 | Some iss ->
                   let k = Z.to_nat idx in
                   let p1 =
                     v2_set_in p k (fun i -> { vi_txid = i.vi_txid;
                       vi_index = i.vi_index; vi_seq = i.vi_seq; vi_value =
                       a.ia_asset; vi_vcommit = i.vi_vcommit; vi_keys =
                       a.ia_token; vi_kcommit = i.vi_kcommit; vi_nonce =
                       (Some iss.ie_iss.iss_nonce); vi_entropy = (Some
                       iss.ie_chash); vi_blinded = (Some a.ia_blinded) })
                   in
                   let asset =
                     match generate_asset iss with
                     | Some x -> x
                     | None -> []
                   in
                   let bidx =
                     N.modulo (Z.to_N idx) (Npos (XO (XO (XO (XO (XO (XO (XO
                       (XO (XO (XO (XO (XO (XO (XO (XO (XO (XO (XO (XO (XO
                       (XO (XO (XO (XO (XO (XO (XO (XO (XO (XO (XO (XO
                       XH)))))))))))))))))))))))))))))))))
                   in
                   (match v2_add_output p1
                            (v2_new_output asset a.ia_asset a.ia_aaddr bidx
                              bidx) with
                    | Some p2 ->
                      if N.ltb N0 a.ia_token
                      then let token =
                             match generate_token iss
                                     (iss_flag_of a.ia_blinded) with
                             | Some x -> x
                             | None -> []
                           in
                           (match v2_add_output p2
                                    (v2_new_output token a.ia_token
                                      a.ia_taddr bidx bidx) with
                            | Some p3 -> (true, p3)
                            | None -> (false, p))
                      else (true, p2)
                    | None -> (false, p))
                 | None -> (false, p))
              | None -> (false, p))
           | None -> (false, p)))

type reiss2_args = { r2_blinder : bytes; r2_entropy : bytes option;
                     r2_asset : n; r2_token : n; r2_aaddr : iss_addr;
                     r2_taddr : iss_addr }

(** val v2_reiss_validate : reiss2_args -> bool **)

let v2_reiss_validate a =
  (&&)
    ((&&)
      ((&&)
        ((&&)
          ((&&)
            ((&&)
              ((&&)
                ((&&)
                  (Nat.eqb (length a.r2_blinder) (S (S (S (S (S (S (S (S (S
                    (S (S (S (S (S (S (S (S (S (S (S (S (S (S (S (S (S (S (S
                    (S (S (S (S O)))))))))))))))))))))))))))))))))
                  (negb (bytes_eqb a.r2_blinder zero32b)))
                (iss_hex32 a.r2_entropy)) (negb (N.eqb a.r2_asset N0)))
            (negb (N.eqb a.r2_token N0))) a.r2_aaddr.ad_present)
        a.r2_aaddr.ad_valid) a.r2_taddr.ad_present) a.r2_taddr.ad_valid

(** val v2_add_in_reissuance : v2pkt -> z -> reiss2_args -> bool * v2pkt **)

let v2_add_in_reissuance p idx a =
  match v2_index_ok p idx with
  | Some _ ->
    if negb (v2_reiss_validate a)
    then (false, p)
    else let entropy = rev (iss_obytes a.r2_entropy) in
         let iss = from_entropy entropy in
         let asset = match generate_asset iss with
                     | Some x -> x
                     | None -> [] in
         let bidx =
           N.modulo (Z.to_N idx) (Npos (XO (XO (XO (XO (XO (XO (XO (XO (XO
             (XO (XO (XO (XO (XO (XO (XO (XO (XO (XO (XO (XO (XO (XO (XO (XO
             (XO (XO (XO (XO (XO (XO (XO XH)))))))))))))))))))))))))))))))))
         in
         (match v2_add_output p
                  (v2_new_output asset a.r2_asset a.r2_aaddr N0 bidx) with
          | Some p1 ->
            let token =
              match generate_token iss (Npos XH) with
              | Some x -> x
              | None -> []
            in
            (match v2_add_output p1
                     (v2_new_output token a.r2_token a.r2_taddr N0 bidx) with
             | Some p2 ->
               (true,
                 (v2_set_in p2 (Z.to_nat idx) (fun i -> { vi_txid =
                   i.vi_txid; vi_index = i.vi_index; vi_seq = i.vi_seq;
                   vi_value = a.r2_asset; vi_vcommit = i.vi_vcommit;
                   vi_keys = i.vi_keys; vi_kcommit = i.vi_kcommit; vi_nonce =
                   (Some a.r2_blinder); vi_entropy = (Some entropy);
                   vi_blinded = i.vi_blinded })))
             | None -> (false, p))
          | None -> (false, p))
  | None -> (false, p)

(** val tx_issuance_of : v2in -> issuance option **)

let tx_issuance_of i =
  match i.vi_entropy with
  | Some e ->
    let amount =
      match i.vi_vcommit with
      | Some c -> c
      | None ->
        if N.ltb N0 i.vi_value
        then iss_value_to_bytes i.vi_value
        else X00 :: []
    in
    let token =
      match i.vi_kcommit with
      | Some c -> c
      | None ->
        if N.ltb N0 i.vi_keys then iss_value_to_bytes i.vi_keys else X00 :: []
    in
    Some { iss_nonce = (iss_obytes i.vi_nonce); iss_entropy = e; iss_amount =
    amount; iss_token = token }
  | None -> None

(** val unsigned_issuance : v2in -> issuance option **)

let unsigned_issuance =
  tx_issuance_of

(** val extract_issuance : v2in -> issuance option **)

let extract_issuance =
  tx_issuance_of

(** val unsigned_output : v2out -> txout **)

let unsigned_output o =
  { o_asset =
    (match o.vo_acommit with
     | Some c -> c
     | None -> explicit_asset o.vo_asset); o_value =
    (match o.vo_vcommit with
     | Some c -> c
     | None -> iss_value_to_bytes o.vo_value); o_script = o.vo_script;
    o_nonce = (match o.vo_ecdh with
               | Some c -> c
               | None -> X00 :: []); o_rp = []; o_sp = [] }

(** val expected_issuance : v2in -> issuance option **)

let expected_issuance i =
  match i.vi_entropy with
  | Some e ->
    Some { iss_nonce = (iss_obytes i.vi_nonce); iss_entropy = e; iss_amount =
      (issuance_amount i.vi_value); iss_token = (issuance_amount i.vi_keys) }
  | None -> None

type heap = bytes list

type slice = { s_arr : nat; s_off : nat; s_len : nat; s_cap : nat }

(** val arr : heap -> nat -> bytes **)

let arr h a =
  nth a h []

(** val upd0 : heap -> nat -> bytes -> heap **)

let rec upd0 h a bs =
  match h with
  | [] -> []
  | x :: t -> (match a with
               | O -> bs :: t
               | S a' -> x :: (upd0 t a' bs))

(** val alloc : heap -> bytes -> heap * nat **)

let alloc h bs =
  ((app h (bs :: [])), (length h))

(** val zeros : nat -> bytes **)

let zeros n0 =
  repeat X00 n0

(** val window : nat -> nat -> bytes -> bytes **)

let window off n0 bs =
  firstn n0 (skipn off bs)

(** val splice : bytes -> nat -> bytes -> bytes **)

let splice bs pos d =
  firstn (length bs)
    (app (firstn pos bs) (app d (skipn (add pos (length d)) bs)))

(** val wr : heap -> nat -> nat -> bytes -> heap **)

let wr h a pos d =
  upd0 h a (splice (arr h a) pos d)

(** val rd : heap -> slice -> bytes **)

let rd h s =
  window s.s_off s.s_len (arr h s.s_arr)

(** val rd_cap : heap -> slice -> bytes **)

let rd_cap h s =
  window s.s_off s.s_cap (arr h s.s_arr)

type policy = nat -> nat -> nat

(** val exact_policy : policy **)

let exact_policy _ n0 =
  n0

(** val go_policy : policy **)

let go_policy c n0 =
  if Nat.ltb (mul (S (S O)) c) n0
  then n0
  else if Nat.ltb c (S (S (S (S (S (S (S (S (S (S (S (S (S (S (S (S (S (S (S
            (S (S (S (S (S (S (S (S (S (S (S (S (S (S (S (S (S (S (S (S (S (S
            (S (S (S (S (S (S (S (S (S (S (S (S (S (S (S (S (S (S (S (S (S (S
            (S (S (S (S (S (S (S (S (S (S (S (S (S (S (S (S (S (S (S (S (S (S
            (S (S (S (S (S (S (S (S (S (S (S (S (S (S (S (S (S (S (S (S (S (S
            (S (S (S (S (S (S (S (S (S (S (S (S (S (S (S (S (S (S (S (S (S (S
            (S (S (S (S (S (S (S (S (S (S (S (S (S (S (S (S (S (S (S (S (S (S
            (S (S (S (S (S (S (S (S (S (S (S (S (S (S (S (S (S (S (S (S (S (S
            (S (S (S (S (S (S (S (S (S (S (S (S (S (S (S (S (S (S (S (S (S (S
            (S (S (S (S (S (S (S (S (S (S (S (S (S (S (S (S (S (S (S (S (S (S
            (S (S (S (S (S (S (S (S (S (S (S (S (S (S (S (S (S (S (S (S (S (S
            (S (S (S (S (S (S (S (S (S (S (S (S (S (S (S (S (S
            O))))))))))))))))))))))))))))))))))))))))))))))))))))))))))))))))))))))))))))))))))))))))))))))))))))))))))))))))))))))))))))))))))))))))))))))))))))))))))))))))))))))))))))))))))))))))))))))))))))))))))))))))))))))))))))))))))))))))))))))))))))))))))))))))
       then mul (S (S O)) c
       else add c
              (Nat.div
                (add c (S (S (S (S (S (S (S (S (S (S (S (S (S (S (S (S (S (S
                  (S (S (S (S (S (S (S (S (S (S (S (S (S (S (S (S (S (S (S (S
                  (S (S (S (S (S (S (S (S (S (S (S (S (S (S (S (S (S (S (S (S
                  (S (S (S (S (S (S (S (S (S (S (S (S (S (S (S (S (S (S (S (S
                  (S (S (S (S (S (S (S (S (S (S (S (S (S (S (S (S (S (S (S (S
                  (S (S (S (S (S (S (S (S (S (S (S (S (S (S (S (S (S (S (S (S
                  (S (S (S (S (S (S (S (S (S (S (S (S (S (S (S (S (S (S (S (S
                  (S (S (S (S (S (S (S (S (S (S (S (S (S (S (S (S (S (S (S (S
                  (S (S (S (S (S (S (S (S (S (S (S (S (S (S (S (S (S (S (S (S
                  (S (S (S (S (S (S (S (S (S (S (S (S (S (S (S (S (S (S (S (S
                  (S (S (S (S (S (S (S (S (S (S (S (S (S (S (S (S (S (S (S (S
                  (S (S (S (S (S (S (S (S (S (S (S (S (S (S (S (S (S (S (S (S
                  (S (S (S (S (S (S (S (S (S (S (S (S (S (S (S (S (S (S (S (S
                  (S (S (S (S (S (S (S (S (S (S (S (S (S (S (S (S (S (S (S (S
                  (S (S (S (S (S (S (S (S (S (S (S (S (S (S (S (S (S (S (S (S
                  (S (S (S (S (S (S (S (S (S (S (S (S (S (S (S (S (S (S (S (S
                  (S (S (S (S (S (S (S (S (S (S (S (S (S (S (S (S (S (S (S (S
                  (S (S (S (S (S (S (S (S (S (S (S (S (S (S (S (S (S (S (S (S
                  (S (S (S (S (S (S (S (S (S (S (S (S (S (S (S (S (S (S (S (S
                  (S (S (S (S (S (S (S (S (S (S (S (S (S (S (S (S (S (S (S (S
                  (S (S (S (S (S (S (S (S (S (S (S (S (S (S (S (S (S (S (S (S
                  (S (S (S (S (S (S (S (S (S (S (S (S (S (S (S (S (S (S (S (S
                  (S (S (S (S (S (S (S (S (S (S (S (S (S (S (S (S (S (S (S (S
                  (S (S (S (S (S (S (S (S (S (S (S (S (S (S (S (S (S (S (S (S
                  (S (S (S (S (S (S (S (S (S (S (S (S (S (S (S (S (S (S (S (S
                  (S (S (S (S (S (S (S (S (S (S (S (S (S (S (S (S (S (S (S (S
                  (S (S (S (S (S (S (S (S (S (S (S (S (S (S (S (S (S (S (S (S
                  (S (S (S (S (S (S (S (S (S (S (S (S (S (S (S (S (S (S (S (S
                  (S (S (S (S (S (S (S (S (S (S (S (S (S (S (S (S (S (S (S (S
                  (S (S (S (S (S (S (S (S (S (S (S (S (S (S (S (S (S (S (S (S
                  (S (S (S (S (S (S (S (S (S (S (S (S (S (S (S (S (S (S (S (S
                  (S (S (S (S (S (S (S (S (S (S (S (S (S (S (S (S (S (S (S (S
                  (S (S (S (S (S (S (S (S (S (S (S (S (S (S (S (S (S (S (S (S
                  (S (S (S (S (S (S (S (S (S (S (S (S (S (S (S (S (S (S (S (S
                  (S (S (S (S (S (S (S (S (S (S (S (S (S (S (S (S (S (S (S (S
                  (S (S (S (S (S (S (S (S (S (S (S (S (S (S (S (S (S (S (S (S
                  (S (S (S (S (S (S (S (S (S (S (S (S (S (S (S (S (S (S (S (S
                  (S (S (S (S (S (S (S (S (S (S (S (S (S (S (S (S (S (S (S (S
                  (S (S (S (S (S (S (S (S (S (S
                  O)))))))))))))))))))))))))))))))))))))))))))))))))))))))))))))))))))))))))))))))))))))))))))))))))))))))))))))))))))))))))))))))))))))))))))))))))))))))))))))))))))))))))))))))))))))))))))))))))))))))))))))))))))))))))))))))))))))))))))))))))))))))))))))))))))))))))))))))))))))))))))))))))))))))))))))))))))))))))))))))))))))))))))))))))))))))))))))))))))))))))))))))))))))))))))))))))))))))))))))))))))))))))))))))))))))))))))))))))))))))))))))))))))))))))))))))))))))))))))))))))))))))))))))))))))))))))))))))))))))))))))))))))))))))))))))))))))))))))))))))))))))))))))))))))))))))))))))))))))))))))))))))))))))))))))))))))))))))))))))))))))))))))))))))))))))))))))))))))))))))))))))))))))))))))))))))))))))))))))))))))))))))))))))))))))))))))))))))))))))))))))))))))
                (S (S (S (S O)))))

(** val go_append : policy -> heap -> slice -> bytes -> heap * slice **)

let go_append g h s d =
  let n0 = add s.s_len (length d) in
  if Nat.leb n0 s.s_cap
  then ((wr h s.s_arr (add s.s_off s.s_len) d), { s_arr = s.s_arr; s_off =
         s.s_off; s_len = n0; s_cap = s.s_cap })
  else let c = Nat.max n0 (g s.s_cap n0) in
       let (h', a) = alloc h (app (rd h s) (app d (zeros (sub c n0)))) in
       (h', { s_arr = a; s_off = O; s_len = n0; s_cap = c })

(** val go_make : heap -> nat -> nat -> heap * slice **)

let go_make h len cap =
  let c = Nat.max len cap in
  let (h', a) = alloc h (zeros c) in
  (h', { s_arr = a; s_off = O; s_len = len; s_cap = c })

(** val go_lit : heap -> bytes -> heap * slice **)

let go_lit h bs =
  let (h', a) = alloc h bs in
  (h', { s_arr = a; s_off = O; s_len = (length bs); s_cap = (length bs) })

(** val go_sub : slice -> nat -> nat -> slice option **)

let go_sub s lo hi =
  if (&&) (Nat.leb lo hi) (Nat.leb hi s.s_cap)
  then Some { s_arr = s.s_arr; s_off = (add s.s_off lo); s_len = (sub hi lo);
         s_cap = (sub s.s_cap lo) }
  else None

(** val go_copy : heap -> slice -> slice -> heap * nat **)

let go_copy h dst src =
  let n0 = Nat.min dst.s_len src.s_len in
  ((wr h dst.s_arr dst.s_off (firstn n0 (rd h src))), n0)

(** val go_set : heap -> slice -> nat -> byte -> heap option **)

let go_set h s i b =
  if Nat.ltb i s.s_len
  then Some (wr h s.s_arr (add s.s_off i) (b :: []))
  else None

(** val go_get : heap -> slice -> nat -> byte option **)

let go_get h s i =
  nth_error (rd h s) i

(** val wf_sliceb : heap -> slice -> bool **)

let wf_sliceb h s =
  (&&) ((&&) (Nat.ltb s.s_arr (length h)) (Nat.leb s.s_len s.s_cap))
    (Nat.leb (add s.s_off s.s_cap) (length (arr h s.s_arr)))

(** val run : ('a1 -> nat -> 'a1) -> 'a1 -> nat list -> 'a1 **)

let run step0 s sch =
  fold_left step0 sch s

module Al =
 struct
  (** val concat2 : policy -> heap -> slice -> slice -> heap * slice **)

  let concat2 g h a b =
    let (h1, t) = go_lit h [] in
    let (h2, t1) = go_append g h1 t (rd h1 a) in go_append g h2 t1 (rd h2 b)

  (** val compute_asset : heap -> slice -> heap * slice option **)

  let compute_asset h e =
    if negb
         (Nat.eqb e.s_len (S (S (S (S (S (S (S (S (S (S (S (S (S (S (S (S (S
           (S (S (S (S (S (S (S (S (S (S (S (S (S (S (S
           O)))))))))))))))))))))))))))))))))
    then (h, None)
    else let (h1, buf) =
           go_make h
             (add e.s_len (S (S (S (S (S (S (S (S (S (S (S (S (S (S (S (S (S
               (S (S (S (S (S (S (S (S (S (S (S (S (S (S (S
               O)))))))))))))))))))))))))))))))))
             (add e.s_len (S (S (S (S (S (S (S (S (S (S (S (S (S (S (S (S (S
               (S (S (S (S (S (S (S (S (S (S (S (S (S (S (S
               O)))))))))))))))))))))))))))))))))
         in
         let (h2, _) = go_copy h1 buf e in
         let (h3, out) = go_lit h2 (midstate256 (rd h2 buf)) in
         (h3, (Some out))

  (** val compute_token :
      policy -> heap -> slice -> n -> heap * slice option **)

  let compute_token g h e flag =
    if negb
         (Nat.eqb e.s_len (S (S (S (S (S (S (S (S (S (S (S (S (S (S (S (S (S
           (S (S (S (S (S (S (S (S (S (S (S (S (S (S (S
           O)))))))))))))))))))))))))))))))))
    then (h, None)
    else if negb ((||) (N.eqb flag N0) (N.eqb flag (Npos XH)))
         then (h, None)
         else let (h1, buf) =
                go_make h (S (S (S (S (S (S (S (S (S (S (S (S (S (S (S (S (S
                  (S (S (S (S (S (S (S (S (S (S (S (S (S (S (S
                  O)))))))))))))))))))))))))))))))) (S (S (S (S (S (S (S (S
                  (S (S (S (S (S (S (S (S (S (S (S (S (S (S (S (S (S (S (S (S
                  (S (S (S (S O))))))))))))))))))))))))))))))))
              in
              (match go_set h1 buf O (b8 (N.add flag (Npos XH))) with
               | Some h2 ->
                 let (h3, t2) = concat2 g h2 e buf in
                 let (h4, out) = go_lit h3 (midstate256 (rd h3 t2)) in
                 (h4, (Some out))
               | None -> (h1, None))

  (** val final_vbf_values :
      policy -> heap -> slice -> slice -> heap * slice **)

  let final_vbf_values =
    concat2

  (** val range_proof_message :
      policy -> heap -> slice -> slice -> heap * slice **)

  let range_proof_message =
    concat2

  (** val b32_encode :
      policy -> heap -> bytes -> slice -> n -> heap * slice option **)

  let b32_encode g h hrp data enc =
    let (h1, ck) = go_lit h (B32.create_checksum hrp (rd h data) enc) in
    let (h2, combined) = concat2 g h1 data ck in
    (match B32.to_chars (rd h2 combined) with
     | Some cs ->
       let (h3, out) = go_lit h2 (app hrp (app (B32.sep :: []) cs)) in
       (h3, (Some out))
     | None -> (h2, None))

  type dres =
  | DOk of bytes * slice
  | DErr
  | DPanic

  (** val b32_decode : policy -> heap -> bytes -> heap * dres **)

  let b32_decode g h s =
    match B32.decode_generic s with
    | B32.GOk (hrp, data, checksum) ->
      let n0 = add (length data) (length checksum) in
      let (h1, d0) = go_make h O n0 in
      let (h2, decoded) = go_append g h1 d0 (app data checksum) in
      (match go_sub decoded O
               (sub n0 (S (S (S (S (S (S (S (S (S (S (S (S O))))))))))))) with
       | Some sdata ->
         (match go_sub decoded
                  (sub n0 (S (S (S (S (S (S (S (S (S (S (S (S O)))))))))))))
                  n0 with
          | Some sck ->
            (match rd h2 sdata with
             | [] -> (h2, DErr)
             | v :: _ ->
               (match B32.encoding_of_version v with
                | Some enc ->
                  let (h3, all) = go_append g h2 sdata (rd h2 sck) in
                  if B32.verify_checksum hrp (rd h3 all) enc
                  then (h3, (DOk (hrp, sdata)))
                  else (h3, DErr)
                | None -> (h2, DErr)))
          | None -> (h2, DPanic))
       | None -> (h2, DPanic))
    | B32.GErr -> (h, DErr)
    | B32.GPanic -> (h, DPanic)

  (** val to_base58_conf :
      policy -> heap -> byte -> byte -> slice -> slice -> heap * slice **)

  let to_base58_conf g h ver cver pk data =
    let (h1, t) = go_lit h (ver :: []) in
    let (h2, t1) = go_append g h1 t (rd h1 pk) in
    let (h3, t2) = go_append g h2 t1 (rd h2 data) in
    go_lit h3 (XC.check_encode (rd h3 t2) cver)

  (** val to_blech32_gen :
      (policy -> heap -> slice -> slice -> heap * slice) -> policy -> heap ->
      bytes -> byte -> slice -> slice -> heap * slice option **)

  let to_blech32_gen cat g h prefix v pk prog =
    let (h1, kp) = cat g h pk prog in
    (match B32.convert_bits (rd h1 kp) (Npos (XO (XO (XO XH)))) (Npos (XI (XO
             XH))) true with
     | Some conv ->
       let (h2, converted) = go_lit h1 conv in
       let (h3, combined) =
         go_make h2 (add (length conv) (S O)) (add (length conv) (S O))
       in
       (match go_set h3 combined O v with
        | Some h4 ->
          (match go_sub combined (S O) combined.s_len with
           | Some tail ->
             let (h5, _) = go_copy h4 tail converted in
             (match B32.encoding_of_version v with
              | Some enc ->
                let (h6, o) = b32_encode g h5 prefix combined enc in
                (match o with
                 | Some addr ->
                   (match Addr.from_blech32 (rd h6 addr) with
                    | Addr.Ok a ->
                      let (p, p') = a in
                      let (p0, k') = p in
                      let (_, v') = p0 in
                      let (h7, rg) = go_lit h6 (app k' p') in
                      (match go_sub rg O (S (S (S (S (S (S (S (S (S (S (S (S
                               (S (S (S (S (S (S (S (S (S (S (S (S (S (S (S
                               (S (S (S (S (S (S
                               O))))))))))))))))))))))))))))))))) with
                       | Some bk ->
                         (match go_sub rg (S (S (S (S (S (S (S (S (S (S (S (S
                                  (S (S (S (S (S (S (S (S (S (S (S (S (S (S
                                  (S (S (S (S (S (S (S
                                  O))))))))))))))))))))))))))))))))) rg.s_len with
                          | Some bp ->
                            let (h8, blech_data) = cat g h7 bk bp in
                            let (h9, bl_data) = cat g h8 pk prog in
                            if (&&) (eqb0 v' v)
                                 (bytes_eqb (rd h9 blech_data)
                                   (rd h9 bl_data))
                            then (h9, (Some addr))
                            else (h9, None)
                          | None -> (h7, None))
                       | None -> (h7, None))
                    | _ -> (h6, None))
                 | None -> (h6, None))
              | None -> (h5, None))
           | None -> (h3, None))
        | None -> (h3, None))
     | None -> (h1, None))

  (** val to_blech32 :
      policy -> heap -> bytes -> byte -> slice -> slice -> heap * slice option **)

  let to_blech32 =
    to_blech32_gen concat2

  (** val tap_script_sigs_gen :
      (policy -> heap -> slice -> slice -> heap * slice) -> policy -> heap ->
      (slice * slice) list -> heap * slice list **)

  let rec tap_script_sigs_gen cat g h = function
  | [] -> (h, [])
  | p :: r ->
    let (pk, leaf) = p in
    let (h1, kd) = cat g h pk leaf in
    let (h2, kds) = tap_script_sigs_gen cat g h1 r in (h2, (kd :: kds))

  (** val tap_script_sigs :
      policy -> heap -> (slice * slice) list -> heap * slice list **)

  let tap_script_sigs =
    tap_script_sigs_gen concat2

  (** val append_byte : policy -> heap -> slice -> byte -> heap * slice **)

  let append_byte g h s b =
    let (h1, t) = go_lit h [] in
    let (h2, t1) = go_append g h1 t (rd h1 s) in go_append g h2 t1 (b :: [])

  (** val tap_leaf_scripts_gen :
      (policy -> heap -> slice -> byte -> heap * slice) -> policy -> heap ->
      (slice * byte) list -> heap * slice list **)

  let rec tap_leaf_scripts_gen ab g h = function
  | [] -> (h, [])
  | p :: r ->
    let (scr, ver) = p in
    let (h1, v) = ab g h scr ver in
    let (h2, vs) = tap_leaf_scripts_gen ab g h1 r in (h2, (v :: vs))

  (** val tap_leaf_scripts :
      policy -> heap -> (slice * byte) list -> heap * slice list **)

  let tap_leaf_scripts =
    tap_leaf_scripts_gen append_byte

  type txo = { txo_rest : slice list; txo_rp : slice }

  (** val txo_rest : txo -> slice list **)

  let txo_rest t =
    t.txo_rest

  type ostore = txo list

  type v2in = { i_witness_utxo : nat option;
                i_nonwitness_outs : nat list option; i_prev_index : nat;
                i_utxo_rp : slice }

  (** val i_witness_utxo : v2in -> nat option **)

  let i_witness_utxo v =
    v.i_witness_utxo

  (** val i_nonwitness_outs : v2in -> nat list option **)

  let i_nonwitness_outs v =
    v.i_nonwitness_outs

  (** val i_prev_index : v2in -> nat **)

  let i_prev_index v =
    v.i_prev_index

  (** val i_utxo_rp : v2in -> slice **)

  let i_utxo_rp v =
    v.i_utxo_rp

  type gres =
  | GNil
  | GPtr of nat
  | GPanic

  (** val pick_utxo : v2in -> gres **)

  let pick_utxo i =
    match i.i_witness_utxo with
    | Some p -> GPtr p
    | None ->
      (match i.i_nonwitness_outs with
       | Some outs ->
         (match nth_error outs i.i_prev_index with
          | Some p -> GPtr p
          | None -> GPanic)
       | None -> GNil)

  (** val get_utxo : ostore -> v2in -> ostore * gres **)

  let get_utxo os i =
    match pick_utxo i with
    | GPtr p ->
      (match nth_error os p with
       | Some u ->
         ((app os ({ txo_rest = u.txo_rest; txo_rp = i.i_utxo_rp } :: [])),
           (GPtr (length os)))
       | None -> (os, GPanic))
    | x -> (os, x)

  (** val rev_loop : heap -> slice -> nat -> heap option **)

  let rec rev_loop h tmp = function
  | O -> Some h
  | S i ->
    let j = sub (sub tmp.s_len (S O)) i in
    (match go_get h tmp i with
     | Some bi ->
       (match go_get h tmp j with
        | Some bj ->
          (match go_set h tmp i bj with
           | Some h1 ->
             (match go_set h1 tmp j bi with
              | Some h2 -> rev_loop h2 tmp i
              | None -> None)
           | None -> None)
        | None -> None)
     | None -> None)

  (** val reverse_bytes : heap -> slice -> heap * slice option **)

  let reverse_bytes h buf =
    if Nat.ltb buf.s_len (S O)
    then (h, (Some buf))
    else let (h1, tmp) = go_make h buf.s_len buf.s_len in
         let (h2, _) = go_copy h1 tmp buf in
         (match rev_loop h2 tmp (Nat.div tmp.s_len (S (S O))) with
          | Some h3 -> (h3, (Some tmp))
          | None -> (h2, None))

  type vres =
  | VOk of n
  | VErr
  | VPanic

  (** val value_from_bytes : heap -> slice -> heap * vres **)

  let value_from_bytes h val0 =
    if negb (Nat.eqb val0.s_len (S (S (S (S (S (S (S (S (S O))))))))))
    then (h, VErr)
    else (match go_get h val0 O with
          | Some b0 ->
            if negb (N.eqb (n8 b0) (Npos XH))
            then (h, VErr)
            else (match go_sub val0 (S O) val0.s_len with
                  | Some tl0 ->
                    let (h1, o) = reverse_bytes h tl0 in
                    (match o with
                     | Some r -> (h1, (VOk (le_dec (rd h1 r))))
                     | None -> (h1, VPanic))
                  | None -> (h, VPanic))
          | None -> (h, VPanic))

  (** val asset_hash_from_bytes : heap -> slice -> heap * slice option **)

  let asset_hash_from_bytes h buf =
    match go_sub buf (S O) buf.s_len with
    | Some tl0 -> reverse_bytes h tl0
    | None -> (h, None)

  (** val txid_from_bytes : heap -> slice -> heap * slice option **)

  let txid_from_bytes =
    reverse_bytes

  (** val ser_new : heap -> heap * slice **)

  let ser_new h =
    go_lit h []

  (** val ser_write_slice :
      policy -> heap -> slice -> slice -> heap * slice **)

  let ser_write_slice g h sb val0 =
    go_append g h sb (rd h val0)

  (** val ser_write_varint : policy -> heap -> slice -> n -> heap * slice **)

  let ser_write_varint g h sb n0 =
    let (h1, scratch) = go_lit h (varint n0) in
    go_append g h1 sb (rd h1 scratch)

  (** val ser_write_var_slice :
      policy -> heap -> slice -> slice -> heap * slice **)

  let ser_write_var_slice g h sb val0 =
    let (h1, sb1) = ser_write_varint g h sb (N.of_nat val0.s_len) in
    ser_write_slice g h1 sb1 val0

  (** val ser_write_items :
      policy -> heap -> slice -> slice list -> heap * slice **)

  let rec ser_write_items g h sb = function
  | [] -> (h, sb)
  | x :: r ->
    let (h1, sb1) = ser_write_var_slice g h sb x in ser_write_items g h1 sb1 r

  (** val ser_write_vector :
      policy -> heap -> slice -> slice list -> heap * slice **)

  let ser_write_vector g h sb v =
    let (h1, sb1) = ser_write_varint g h sb (N.of_nat (length v)) in
    ser_write_items g h1 sb1 v

  (** val ser_vector : policy -> heap -> slice list -> heap * slice **)

  let ser_vector g h v =
    let (h1, sb) = ser_new h in ser_write_vector g h1 sb v

  (** val copy_bytes : heap -> slice -> heap * slice **)

  let copy_bytes h src =
    let (h1, dst) = go_make h src.s_len src.s_len in
    let (h2, _) = go_copy h1 dst src in (h2, dst)

  (** val copy_all : heap -> slice list -> heap * slice list **)

  let rec copy_all h = function
  | [] -> (h, [])
  | s :: r ->
    let (h1, d) = copy_bytes h s in
    let (h2, ds) = copy_all h1 r in (h2, (d :: ds))

  (** val read_all : heap -> slice list -> bytes list **)

  let read_all h l =
    map (rd h) l

  (** val of_codes : n list -> bytes **)

  let of_codes l =
    map b8 l

  (** val pkg_tx_one : bytes **)

  let pkg_tx_one =
    app
      (zeros (S (S (S (S (S (S (S (S (S (S (S (S (S (S (S (S (S (S (S (S (S
        (S (S (S (S (S (S (S (S (S (S O))))))))))))))))))))))))))))))))
      (X01 :: [])

  (** val pkg_tx_zero : bytes **)

  let pkg_tx_zero =
    zeros (S (S (S (S (S (S (S (S (S (S (S (S (S (S (S (S (S (S (S (S (S (S
      (S (S (S (S (S (S (S (S (S (S O))))))))))))))))))))))))))))))))

  (** val pkg_max_conf_value : bytes **)

  let pkg_max_conf_value =
    repeat Xff (S (S (S (S (S (S (S (S O))))))))

  (** val pkg_conf_zero : bytes **)

  let pkg_conf_zero =
    zeros (S (S (S (S (S (S (S (S (S (S (S (S (S (S (S (S (S (S (S (S (S (S
      (S (S (S (S (S (S (S (S (S (S O))))))))))))))))))))))))))))))))

  (** val pkg_tag_leaf : bytes **)

  let pkg_tag_leaf =
    of_codes ((Npos (XO (XO (XI (XO (XI (XO XH))))))) :: ((Npos (XI (XO (XO
      (XO (XO (XI XH))))))) :: ((Npos (XO (XO (XO (XO (XI (XI
      XH))))))) :: ((Npos (XO (XO (XI (XI (XO (XO XH))))))) :: ((Npos (XI (XO
      (XI (XO (XO (XI XH))))))) :: ((Npos (XI (XO (XO (XO (XO (XI
      XH))))))) :: ((Npos (XO (XI (XI (XO (XO (XI XH))))))) :: ((Npos (XI (XI
      (XI (XI (XO XH)))))) :: ((Npos (XI (XO (XI (XO (XO (XI
      XH))))))) :: ((Npos (XO (XO (XI (XI (XO (XI XH))))))) :: ((Npos (XI (XO
      (XI (XO (XO (XI XH))))))) :: ((Npos (XI (XO (XI (XI (XO (XI
      XH))))))) :: ((Npos (XI (XO (XI (XO (XO (XI XH))))))) :: ((Npos (XO (XI
      (XI (XI (XO (XI XH))))))) :: ((Npos (XO (XO (XI (XO (XI (XI
      XH))))))) :: ((Npos (XI (XI (XO (XO (XI (XI
      XH))))))) :: []))))))))))))))))

  (** val pkg_tag_branch : bytes **)

  let pkg_tag_branch =
    of_codes ((Npos (XO (XO (XI (XO (XI (XO XH))))))) :: ((Npos (XI (XO (XO
      (XO (XO (XI XH))))))) :: ((Npos (XO (XO (XO (XO (XI (XI
      XH))))))) :: ((Npos (XO (XI (XO (XO (XO (XO XH))))))) :: ((Npos (XO (XI
      (XO (XO (XI (XI XH))))))) :: ((Npos (XI (XO (XO (XO (XO (XI
      XH))))))) :: ((Npos (XO (XI (XI (XI (XO (XI XH))))))) :: ((Npos (XI (XI
      (XO (XO (XO (XI XH))))))) :: ((Npos (XO (XO (XO (XI (XO (XI
      XH))))))) :: ((Npos (XI (XI (XI (XI (XO XH)))))) :: ((Npos (XI (XO (XI
      (XO (XO (XI XH))))))) :: ((Npos (XO (XO (XI (XI (XO (XI
      XH))))))) :: ((Npos (XI (XO (XI (XO (XO (XI XH))))))) :: ((Npos (XI (XO
      (XI (XI (XO (XI XH))))))) :: ((Npos (XI (XO (XI (XO (XO (XI
      XH))))))) :: ((Npos (XO (XI (XI (XI (XO (XI XH))))))) :: ((Npos (XO (XO
      (XI (XO (XI (XI XH))))))) :: ((Npos (XI (XI (XO (XO (XI (XI
      XH))))))) :: []))))))))))))))))))

  (** val pkg_tag_sighash : bytes **)

  let pkg_tag_sighash =
    of_codes ((Npos (XO (XO (XI (XO (XI (XO XH))))))) :: ((Npos (XI (XO (XO
      (XO (XO (XI XH))))))) :: ((Npos (XO (XO (XO (XO (XI (XI
      XH))))))) :: ((Npos (XI (XI (XO (XO (XI (XO XH))))))) :: ((Npos (XI (XO
      (XO (XI (XO (XI XH))))))) :: ((Npos (XI (XI (XI (XO (XO (XI
      XH))))))) :: ((Npos (XO (XO (XO (XI (XO (XI XH))))))) :: ((Npos (XI (XO
      (XO (XO (XO (XI XH))))))) :: ((Npos (XI (XI (XO (XO (XI (XI
      XH))))))) :: ((Npos (XO (XO (XO (XI (XO (XI XH))))))) :: ((Npos (XI (XI
      (XI (XI (XO XH)))))) :: ((Npos (XI (XO (XI (XO (XO (XI
      XH))))))) :: ((Npos (XO (XO (XI (XI (XO (XI XH))))))) :: ((Npos (XI (XO
      (XI (XO (XO (XI XH))))))) :: ((Npos (XI (XO (XI (XI (XO (XI
      XH))))))) :: ((Npos (XI (XO (XI (XO (XO (XI XH))))))) :: ((Npos (XO (XI
      (XI (XI (XO (XI XH))))))) :: ((Npos (XO (XO (XI (XO (XI (XI
      XH))))))) :: ((Npos (XI (XI (XO (XO (XI (XI
      XH))))))) :: [])))))))))))))))))))

  (** val pkg_tag_tweak : bytes **)

  let pkg_tag_tweak =
    of_codes ((Npos (XO (XO (XI (XO (XI (XO XH))))))) :: ((Npos (XI (XO (XO
      (XO (XO (XI XH))))))) :: ((Npos (XO (XO (XO (XO (XI (XI
      XH))))))) :: ((Npos (XO (XO (XI (XO (XI (XO XH))))))) :: ((Npos (XI (XI
      (XI (XO (XI (XI XH))))))) :: ((Npos (XI (XO (XI (XO (XO (XI
      XH))))))) :: ((Npos (XI (XO (XO (XO (XO (XI XH))))))) :: ((Npos (XI (XI
      (XO (XI (XO (XI XH))))))) :: ((Npos (XI (XI (XI (XI (XO
      XH)))))) :: ((Npos (XI (XO (XI (XO (XO (XI XH))))))) :: ((Npos (XO (XO
      (XI (XI (XO (XI XH))))))) :: ((Npos (XI (XO (XI (XO (XO (XI
      XH))))))) :: ((Npos (XI (XO (XI (XI (XO (XI XH))))))) :: ((Npos (XI (XO
      (XI (XO (XO (XI XH))))))) :: ((Npos (XO (XI (XI (XI (XO (XI
      XH))))))) :: ((Npos (XO (XO (XI (XO (XI (XI XH))))))) :: ((Npos (XI (XI
      (XO (XO (XI (XI XH))))))) :: [])))))))))))))))))

  (** val pkg_liquid_hdpub : bytes **)

  let pkg_liquid_hdpub =
    of_codes ((Npos (XO (XO XH))) :: ((Npos (XO (XO (XO (XI (XO (XO (XO
      XH)))))))) :: ((Npos (XO (XI (XO (XO (XI (XI (XO XH)))))))) :: ((Npos
      (XO (XI (XI (XI XH))))) :: []))))

  (** val pkg_liquid_hdprv : bytes **)

  let pkg_liquid_hdprv =
    of_codes ((Npos (XO (XO XH))) :: ((Npos (XO (XO (XO (XI (XO (XO (XO
      XH)))))))) :: ((Npos (XI (XO (XI (XI (XO (XI (XO XH)))))))) :: ((Npos
      (XO (XO (XI (XO (XO (XI (XI XH)))))))) :: []))))

  (** val pkg_regtest_hdpub : bytes **)

  let pkg_regtest_hdpub =
    of_codes ((Npos (XO (XO XH))) :: ((Npos (XI (XO (XI (XO (XI
      XH)))))) :: ((Npos (XI (XI (XI (XO (XO (XO (XO XH)))))))) :: ((Npos (XI
      (XI (XI (XI (XO (XO (XI XH)))))))) :: []))))

  (** val pkg_regtest_hdprv : bytes **)

  let pkg_regtest_hdprv =
    of_codes ((Npos (XO (XO XH))) :: ((Npos (XI (XO (XI (XO (XI
      XH)))))) :: ((Npos (XI (XI (XO (XO (XO (XO (XO XH)))))))) :: ((Npos (XO
      (XO (XI (XO (XI (XO (XO XH)))))))) :: []))))

  (** val pkg_testnet_hdpub : bytes **)

  let pkg_testnet_hdpub =
    of_codes ((Npos (XO (XO XH))) :: ((Npos (XI (XO (XI (XO (XI
      XH)))))) :: ((Npos (XI (XI (XI (XO (XO (XO (XO XH)))))))) :: ((Npos (XI
      (XI (XI (XI (XO (XO (XI XH)))))))) :: []))))

  (** val pkg_testnet_hdprv : bytes **)

  let pkg_testnet_hdprv =
    of_codes ((Npos (XO (XO XH))) :: ((Npos (XI (XO (XI (XO (XI
      XH)))))) :: ((Npos (XI (XI (XO (XO (XO (XO (XO XH)))))))) :: ((Npos (XO
      (XO (XI (XO (XI (XO (XO XH)))))))) :: []))))

  (** val pkg_globals : heap **)

  let pkg_globals =
    pkg_tx_one :: (pkg_tx_zero :: (pkg_max_conf_value :: (pkg_conf_zero :: (pkg_tag_leaf :: (pkg_tag_branch :: (pkg_tag_sighash :: (pkg_tag_tweak :: (pkg_liquid_hdpub :: (pkg_liquid_hdprv :: (pkg_regtest_hdpub :: (pkg_regtest_hdprv :: (pkg_testnet_hdpub :: (pkg_testnet_hdprv :: [])))))))))))))
 end

module FL =
 struct
  type op =
  | Put of nat * n
  | Get of nat

  type pc =
  | Idle
  | PBorrowed of nat * nat * n
  | PFilled of nat * nat * n
  | PWritten of nat * nat * n
  | PReturned of nat * nat * n
  | GBorrowed of nat * nat
  | GRead of nat * nat * bool * bytes
  | GDecoded of nat * nat * bytes * n
  | GReturned of nat * nat * bytes

  type thread = { t_prog : op list; t_todo : op list; t_done : op list;
                  t_pc : pc; t_out : bytes; t_in : bytes;
                  t_res : (bytes * n option) list }

  (** val t_prog : thread -> op list **)

  let t_prog t =
    t.t_prog

  (** val t_todo : thread -> op list **)

  let t_todo t =
    t.t_todo

  (** val t_done : thread -> op list **)

  let t_done t =
    t.t_done

  (** val t_pc : thread -> pc **)

  let t_pc t =
    t.t_pc

  (** val t_out : thread -> bytes **)

  let t_out t =
    t.t_out

  (** val t_in : thread -> bytes **)

  let t_in t =
    t.t_in

  (** val t_res : thread -> (bytes * n option) list **)

  let t_res t =
    t.t_res

  type state = { chan : nat list; bufs : bytes list; threads : thread list }

  (** val chan : state -> nat list **)

  let chan s =
    s.chan

  (** val bufs : state -> bytes list **)

  let bufs s =
    s.bufs

  (** val threads : state -> thread list **)

  let threads s =
    s.threads

  (** val flist_cap : nat **)

  let flist_cap =
    S (S (S (S (S (S (S (S (S (S (S (S (S (S (S (S (S (S (S (S (S (S (S (S (S
      (S (S (S (S (S (S (S (S (S (S (S (S (S (S (S (S (S (S (S (S (S (S (S (S
      (S (S (S (S (S (S (S (S (S (S (S (S (S (S (S (S (S (S (S (S (S (S (S (S
      (S (S (S (S (S (S (S (S (S (S (S (S (S (S (S (S (S (S (S (S (S (S (S (S
      (S (S (S (S (S (S (S (S (S (S (S (S (S (S (S (S (S (S (S (S (S (S (S (S
      (S (S (S (S (S (S (S (S (S (S (S (S (S (S (S (S (S (S (S (S (S (S (S (S
      (S (S (S (S (S (S (S (S (S (S (S (S (S (S (S (S (S (S (S (S (S (S (S (S
      (S (S (S (S (S (S (S (S (S (S (S (S (S (S (S (S (S (S (S (S (S (S (S (S
      (S (S (S (S (S (S (S (S (S (S (S (S (S (S (S (S (S (S (S (S (S (S (S (S
      (S (S (S (S (S (S (S (S (S (S (S (S (S (S (S (S (S (S (S (S (S (S (S (S
      (S (S (S (S (S (S (S (S (S (S (S (S (S (S (S (S (S (S (S (S (S (S (S (S
      (S (S (S (S (S (S (S (S (S (S (S (S (S (S (S (S (S (S (S (S (S (S (S (S
      (S (S (S (S (S (S (S (S (S (S (S (S (S (S (S (S (S (S (S (S (S (S (S (S
      (S (S (S (S (S (S (S (S (S (S (S (S (S (S (S (S (S (S (S (S (S (S (S (S
      (S (S (S (S (S (S (S (S (S (S (S (S (S (S (S (S (S (S (S (S (S (S (S (S
      (S (S (S (S (S (S (S (S (S (S (S (S (S (S (S (S (S (S (S (S (S (S (S (S
      (S (S (S (S (S (S (S (S (S (S (S (S (S (S (S (S (S (S (S (S (S (S (S (S
      (S (S (S (S (S (S (S (S (S (S (S (S (S (S (S (S (S (S (S (S (S (S (S (S
      (S (S (S (S (S (S (S (S (S (S (S (S (S (S (S (S (S (S (S (S (S (S (S (S
      (S (S (S (S (S (S (S (S (S (S (S (S (S (S (S (S (S (S (S (S (S (S (S (S
      (S (S (S (S (S (S (S (S (S (S (S (S (S (S (S (S (S (S (S (S (S (S (S (S
      (S (S (S (S (S (S (S (S (S (S (S (S (S (S (S (S (S (S (S (S (S (S (S (S
      (S (S (S (S (S (S (S (S (S (S (S (S (S (S (S (S (S (S (S (S (S (S (S (S
      (S (S (S (S (S (S (S (S (S (S (S (S (S (S (S (S (S (S (S (S (S (S (S (S
      (S (S (S (S (S (S (S (S (S (S (S (S (S (S (S (S (S (S (S (S (S (S (S (S
      (S (S (S (S (S (S (S (S (S (S (S (S (S (S (S (S (S (S (S (S (S (S (S (S
      (S (S (S (S (S (S (S (S (S (S (S (S (S (S (S (S (S (S (S (S (S (S (S (S
      (S (S (S (S (S (S (S (S (S (S (S (S (S (S (S (S (S (S (S (S (S (S (S (S
      (S (S (S (S (S (S (S (S (S (S (S (S (S (S (S (S (S (S (S (S (S (S (S (S
      (S (S (S (S (S (S (S (S (S (S (S (S (S (S (S (S (S (S (S (S (S (S (S (S
      (S (S (S (S (S (S (S (S (S (S (S (S (S (S (S (S (S (S (S (S (S (S (S (S
      (S (S (S (S (S (S (S (S (S (S (S (S (S (S (S (S (S (S (S (S (S (S (S (S
      (S (S (S (S (S (S (S (S (S (S (S (S (S (S (S (S (S (S (S (S (S (S (S (S
      (S (S (S (S (S (S (S (S (S (S (S (S (S (S (S (S (S (S (S (S (S (S (S (S
      (S (S (S (S (S (S (S (S (S (S (S (S (S (S (S (S (S (S (S (S (S (S (S (S
      (S (S (S (S (S (S (S (S (S (S (S (S (S (S (S (S (S (S (S (S (S (S (S (S
      (S (S (S (S (S (S (S (S (S (S (S (S (S (S (S (S (S (S (S (S (S (S (S (S
      (S (S (S (S (S (S (S (S (S (S (S (S (S (S (S (S (S (S (S (S (S (S (S (S
      (S (S (S (S (S (S (S (S (S (S (S (S (S (S (S (S (S (S (S (S (S (S (S (S
      (S (S (S (S (S (S (S (S (S (S (S (S (S (S (S (S (S (S (S (S (S (S (S (S
      (S (S (S (S (S (S (S (S (S (S (S (S (S (S (S (S (S (S (S (S (S (S (S (S
      (S (S (S (S (S (S (S (S (S (S (S (S (S (S (S (S (S (S (S (S (S (S (S (S
      (S (S (S (S (S (S (S (S (S (S (S (S (S (S (S
      O)))))))))))))))))))))))))))))))))))))))))))))))))))))))))))))))))))))))))))))))))))))))))))))))))))))))))))))))))))))))))))))))))))))))))))))))))))))))))))))))))))))))))))))))))))))))))))))))))))))))))))))))))))))))))))))))))))))))))))))))))))))))))))))))))))))))))))))))))))))))))))))))))))))))))))))))))))))))))))))))))))))))))))))))))))))))))))))))))))))))))))))))))))))))))))))))))))))))))))))))))))))))))))))))))))))))))))))))))))))))))))))))))))))))))))))))))))))))))))))))))))))))))))))))))))))))))))))))))))))))))))))))))))))))))))))))))))))))))))))))))))))))))))))))))))))))))))))))))))))))))))))))))))))))))))))))))))))))))))))))))))))))))))))))))))))))))))))))))))))))))))))))))))))))))))))))))))))))))))))))))))))))))))))))))))))))))))))))))))))))))))))))))))))))))))))))))))))))))))))))))))))))))))))))))))))))))))))))))))))))))))))))))))))))))))))))))))))))))))))))))))))))))))))))))))))))))))))))))))))))))))))))))))))))))))))))))))))))))))))))))))))))))))))))))))))))))))))))))))))))))))))))))))))))))))))))

  (** val zeros8 : bytes **)

  let zeros8 =
    repeat X00 (S (S (S (S (S (S (S (S O))))))))

  (** val set_nth : 'a1 list -> nat -> 'a1 -> 'a1 list **)

  let rec set_nth l k x =
    match l with
    | [] -> []
    | y :: t -> (match k with
                 | O -> x :: t
                 | S k' -> y :: (set_nth t k' x))

  (** val bget : bytes list -> nat -> bytes **)

  let bget bs b =
    nth b bs []

  (** val bput : bytes list -> nat -> bytes -> bytes list **)

  let bput bs b x =
    set_nth bs b (app x (skipn (length x) (bget bs b)))

  (** val recv_or_alloc :
      nat list -> bytes list -> (nat list * bytes list) * nat **)

  let recv_or_alloc ch0 bs =
    match ch0 with
    | [] -> (([], (app bs (zeros8 :: []))), (length bs))
    | b :: c -> ((c, bs), b)

  (** val send : nat -> nat list -> nat -> nat list **)

  let send cap ch0 b =
    if Nat.ltb (length ch0) cap then app ch0 (b :: []) else ch0

  (** val set_pc : thread -> pc -> thread **)

  let set_pc t p =
    { t_prog = t.t_prog; t_todo = t.t_todo; t_done = t.t_done; t_pc = p;
      t_out = t.t_out; t_in = t.t_in; t_res = t.t_res }

  (** val set_out : thread -> bytes -> thread **)

  let set_out t o =
    { t_prog = t.t_prog; t_todo = t.t_todo; t_done = t.t_done; t_pc = t.t_pc;
      t_out = o; t_in = t.t_in; t_res = t.t_res }

  (** val set_in : thread -> bytes -> thread **)

  let set_in t i =
    { t_prog = t.t_prog; t_todo = t.t_todo; t_done = t.t_done; t_pc = t.t_pc;
      t_out = t.t_out; t_in = i; t_res = t.t_res }

  (** val finish : thread -> op -> thread **)

  let finish t o =
    { t_prog = t.t_prog; t_todo = (tl t.t_todo); t_done =
      (app t.t_done (o :: [])); t_pc = Idle; t_out = t.t_out; t_in = t.t_in;
      t_res = t.t_res }

  (** val add_res : thread -> (bytes * n option) -> thread **)

  let add_res t e =
    { t_prog = t.t_prog; t_todo = t.t_todo; t_done = t.t_done; t_pc = t.t_pc;
      t_out = t.t_out; t_in = t.t_in; t_res = (app t.t_res (e :: [])) }

  (** val tstep :
      bool -> nat -> nat list -> bytes list -> thread -> (nat list * bytes
      list) * thread **)

  let tstep early cap ch0 bs t =
    match t.t_pc with
    | Idle ->
      (match t.t_todo with
       | [] -> ((ch0, bs), t)
       | o :: _ ->
         (match o with
          | Put (n0, v) ->
            let (p, b) = recv_or_alloc ch0 bs in
            (p, (set_pc t (PBorrowed (b, n0, v))))
          | Get n0 ->
            let (p, b) = recv_or_alloc ch0 bs in
            (p, (set_pc t (GBorrowed (b, n0))))))
    | PBorrowed (b, n0, v) ->
      ((ch0, (bput bs b (le_enc n0 v))), (set_pc t (PFilled (b, n0, v))))
    | PFilled (b, n0, v) ->
      if early
      then (((send cap ch0 b), bs), (set_pc t (PReturned (b, n0, v))))
      else ((ch0, bs),
             (set_out (set_pc t (PWritten (b, n0, v)))
               (app t.t_out (firstn n0 (bget bs b)))))
    | PWritten (b, n0, v) ->
      (((send cap ch0 b), bs), (finish t (Put (n0, v))))
    | PReturned (b, n0, v) ->
      ((ch0, bs),
        (finish (set_out t (app t.t_out (firstn n0 (bget bs b)))) (Put (n0,
          v))))
    | GBorrowed (b, n0) ->
      if Nat.leb n0 (length t.t_in)
      then ((ch0, (bput bs b (firstn n0 t.t_in))),
             (set_in (set_pc t (GRead (b, n0, true, (firstn n0 t.t_in))))
               (skipn n0 t.t_in)))
      else ((ch0, (bput bs b t.t_in)),
             (set_in (set_pc t (GRead (b, n0, false, t.t_in))) []))
    | GRead (b, n0, ok, x) ->
      if ok
      then if early
           then (((send cap ch0 b), bs), (set_pc t (GReturned (b, n0, x))))
           else ((ch0, bs),
                  (set_pc t (GDecoded (b, n0, x,
                    (le_dec (firstn n0 (bget bs b)))))))
      else (((send cap ch0 b), bs), (add_res (finish t (Get n0)) (x, None)))
    | GDecoded (b, n0, x, v) ->
      (((send cap ch0 b), bs), (add_res (finish t (Get n0)) (x, (Some v))))
    | GReturned (b, n0, x) ->
      ((ch0, bs),
        (add_res (finish t (Get n0)) (x, (Some
          (le_dec (firstn n0 (bget bs b)))))))

  (** val step : bool -> nat -> state -> nat -> state **)

  let step early cap st0 i =
    match nth_error st0.threads i with
    | Some t ->
      let (p, t') = tstep early cap st0.chan st0.bufs t in
      let (c, bs) = p in
      { chan = c; bufs = bs; threads = (set_nth st0.threads i t') }
    | None -> st0

  (** val run_sched : bool -> nat -> state -> nat list -> state **)

  let run_sched early cap st0 sch =
    run (step early cap) st0 sch

  (** val new_thread : op list -> bytes -> thread **)

  let new_thread prog input =
    { t_prog = prog; t_todo = prog; t_done = []; t_pc = Idle; t_out = [];
      t_in = input; t_res = [] }

  (** val init : (op list * bytes) list -> state **)

  let init progs =
    { chan = []; bufs = []; threads =
      (map (fun p -> new_thread (fst p) (snd p)) progs) }

  (** val run_seq : nat -> op list -> bytes -> state **)

  let run_seq cap prog input =
    run_sched false cap (init ((prog, input) :: []))
      (repeat O (mul (S (S (S (S O)))) (length prog)))
 end

(** val extract_hist :
    ('a1 -> 'a1 -> 'a1) -> ('a1 -> 'a1 -> bool) -> bool -> n -> 'a1 list ->
    bool list -> ('a1 * 'a1 list) option * bool **)

let extract_hist h eqA bad n0 hashes bits =
  if N.eqb n0 N0
  then (None, bad)
  else if N.ltb max_txs n0
       then (None, bad)
       else if N.ltb n0 (lenL hashes)
            then (None, bad)
            else if N.ltb (lenL bits) (lenL hashes)
                 then (None, bad)
                 else (match height_loop (S (S (S (S (S (S (S (S (S (S (S (S
                               (S (S (S (S (S (S (S (S (S (S (S (S (S (S (S
                               (S (S (S (S (S (S (S
                               O)))))))))))))))))))))))))))))))))) n0 N0 with
                       | Some h0 ->
                         (match traverse h eqA n0 (N.to_nat h0) N0 { s_bits =
                                  bits; s_hashes = hashes; s_match = [];
                                  s_bad = bad } with
                          | Some p ->
                            let (root, s) = p in
                            if s.s_bad
                            then (None, true)
                            else let bits_used =
                                   N.sub (lenL bits) (lenL s.s_bits)
                                 in
                                 if negb
                                      (N.eqb
                                        (N.div
                                          (N.add bits_used (Npos (XI (XI
                                            XH)))) (Npos (XO (XO (XO XH)))))
                                        (N.div
                                          (N.add (lenL bits) (Npos (XI (XI
                                            XH)))) (Npos (XO (XO (XO XH))))))
                                 then (None, false)
                                 else if negb (Nat.eqb (length s.s_hashes) O)
                                      then (None, false)
                                      else ((Some (root, s.s_match)), false)
                          | None -> (None, true))
                       | None -> (None, bad))

type hop =
| HExtract
| HCount of n
| HFlip of nat
| HHash of nat * nat * n

type hobj = { h_count : n; h_hashes : bytes list; h_bits : bool list;
              h_bad : bool }

(** val upd_nth :
    'a1 list -> nat -> ('a1 -> 'a1 option) -> 'a1 list option **)

let rec upd_nth l i f =
  match l with
  | [] -> None
  | x :: r ->
    (match i with
     | O -> (match f x with
             | Some y -> Some (y :: r)
             | None -> None)
     | S i' ->
       (match upd_nth r i' f with
        | Some r' -> Some (x :: r')
        | None -> None))

(** val hobj_of : merkle_block -> hobj **)

let hobj_of m =
  { h_count = m.mb_count; h_hashes = m.mb_hashes; h_bits =
    (bits_of_bytes m.mb_flags); h_bad = false }

(** val hstep :
    hobj -> hop -> (hobj * (bytes * bytes list) option option) option **)

let hstep o = function
| HExtract ->
  let (res0, bad') =
    extract_hist node_hash bytes_eqb o.h_bad o.h_count o.h_hashes o.h_bits
  in
  Some ({ h_count = o.h_count; h_hashes = o.h_hashes; h_bits = o.h_bits;
  h_bad = bad' }, (Some res0))
| HCount n0 ->
  Some ({ h_count = n0; h_hashes = o.h_hashes; h_bits = o.h_bits; h_bad =
    o.h_bad }, None)
| HFlip i ->
  (match upd_nth o.h_bits i (fun b -> Some (negb b)) with
   | Some bits' ->
     Some ({ h_count = o.h_count; h_hashes = o.h_hashes; h_bits = bits';
       h_bad = o.h_bad }, None)
   | None -> None)
| HHash (i, j, mask0) ->
  (match upd_nth o.h_hashes i (fun h ->
           upd_nth h j (fun b -> Some (b8 (N.coq_lxor (n8 b) mask0)))) with
   | Some hs' ->
     Some ({ h_count = o.h_count; h_hashes = hs'; h_bits = o.h_bits; h_bad =
       o.h_bad }, None)
   | None -> None)

(** val run_hist :
    hobj -> hop list -> (bytes * bytes list) option list option **)

let rec run_hist o = function
| [] -> Some []
| op0 :: r ->
  (match hstep o op0 with
   | Some p ->
     let (o', out) = p in
     (match run_hist o' r with
      | Some l -> Some (match out with
                        | Some res0 -> res0 :: l
                        | None -> l)
      | None -> None)
   | None -> None)

(** val mkl_hist :
    bytes -> hop list -> (bytes * bytes list) option list option option **)

let mkl_hist blob ops =
  match parse_merkle_block blob with
  | Some p -> let (m, _) = p in Some (run_hist (hobj_of m) ops)
  | None -> None
