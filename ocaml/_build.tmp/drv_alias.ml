(* drv_alias.ml — C18 families: alias (heap-level site models) and flist (free-list contract).
   Slice argument = 4 tokens: <array> <off> <len> <cap>; <array> is hex, "-" (empty) or "@k"
   (the same array object as the k-th slice argument of this case). *)
open Model
open Drv_util

type actx = { mutable heap : byte list list; mutable ids : int list (* array id per argument, in order *) }

let new_ctx () = { heap = []; ids = [] }

let read_slice (c : actx) (t : toks) : slice =
  let a = next t in
  let off = next_int t in let len = next_int t in let cap = next_int t in
  let id =
    if Stdlib.String.length a > 0 && a.[0] = '@' then
      Stdlib.List.nth c.ids (int_of_string (Stdlib.String.sub a 1 (Stdlib.String.length a - 1)))
    else begin
      let id = Stdlib.List.length c.heap in
      c.heap <- c.heap @ [bytes_of_hex a]; id
    end in
  c.ids <- c.ids @ [id];
  { s_arr = nat_of_int id; s_off = nat_of_int off; s_len = nat_of_int len; s_cap = nat_of_int cap }

let diff_arr (before : byte list) (after : byte list) : string =
  if before = after then "-" else begin
    let rec first i a b = match a, b with
      | x :: a', y :: b' -> if x = y then first (i + 1) a' b' else i
      | _, _ -> i in
    Printf.sprintf "%d:%s" (first 0 before after) (hex_of_bytes after)
  end

(* per argument: did its whole array change, and where *)
let chg (c : actx) (h0 : byte list list) (h1 : byte list list) : string =
  match c.ids with
  | [] -> "none"
  | ids -> Stdlib.String.concat "," (Stdlib.List.map (fun id ->
      diff_arr (arr h0 (nat_of_int id)) (arr h1 (nat_of_int id))) ids)

let hexs l = match l with [] -> "none" | _ -> Stdlib.String.concat "," (Stdlib.List.map hex_of_bytes l)
let g = go_policy
let byte_of_int i = byte_tbl.(i land 255)
let flip (b : byte) : byte = byte_of_int ((int_of_byte b) lxor 0xff)

let res_opt h (r : slice option) = match r with Some s -> hex_of_bytes (rd h s) | None -> "err"

let cmd_alias t =
  let site = next t in
  let c = new_ctx () in
  match site with
  | "asset" ->
    let e = read_slice c t in
    let h0 = c.heap in
    let (h1, r) = Al.compute_asset h0 e in
    Printf.printf "res=%s chg=%s\n" (res_opt h1 r) (chg c h0 h1)
  | "token" ->
    let e = read_slice c t in let flag = next_n t in
    let h0 = c.heap in
    let (h1, r) = Al.compute_token g h0 e flag in
    Printf.printf "res=%s chg=%s\n" (res_opt h1 r) (chg c h0 h1)
  | "fvbf" ->
    let a = read_slice c t in let b = read_slice c t in
    let h0 = c.heap in
    let (h1, v) = Al.final_vbf_values g h0 a b in
    ignore v;
    Printf.printf "res=ok chg=%s\n" (chg c h0 h1)
  | "rpmsg" ->
    let a = read_slice c t in let b = read_slice c t in
    let h0 = c.heap in
    let (h1, m) = Al.range_proof_message g h0 a b in
    Printf.printf "res=ok msg=%s chg=%s\n" (hex_of_bytes (rd h1 m)) (chg c h0 h1)
  | "b58c" ->
    let ver = byte_of_int (next_int t) in let cver = byte_of_int (next_int t) in
    let pk = read_slice c t in let d = read_slice c t in
    let h0 = c.heap in
    let (h1, r) = Al.to_base58_conf g h0 ver cver pk d in
    Printf.printf "res=%s chg=%s\n" (hex_of_bytes (rd h1 r)) (chg c h0 h1)
  | "blech" ->
    let prefix = next_hex t in let v = byte_of_int (next_int t) in
    let pk = read_slice c t in let prog = read_slice c t in
    let h0 = c.heap in
    let (h1, r) = Al.to_blech32 g h0 prefix v pk prog in
    Printf.printf "res=%s chg=%s\n" (res_opt h1 r) (chg c h0 h1)
  | "b32enc" ->
    let hrp = next_hex t in let enc = if next_int t = 1 then B32.coq_BLECH32M else B32.coq_BLECH32 in
    let d = read_slice c t in
    let h0 = c.heap in
    let (h1, r) = Al.b32_encode g h0 hrp d enc in
    Printf.printf "res=%s chg=%s\n" (res_opt h1 r) (chg c h0 h1)
  | "b32dec" ->
    let s = next_hex t in
    let (h1, r) = Al.b32_decode g [] s in
    (match r with
     | Al.DOk (hrp, d) ->
       let all = rd_cap h1 d in
       let n = int_of_nat d.s_len in
       let tail = Stdlib.List.filteri (fun i _ -> i >= n) all in
       Printf.printf "res=%s/%s tail=%s\n" (hex_of_bytes hrp) (hex_of_bytes (rd h1 d)) (hex_of_bytes tail)
     | Al.DErr -> Printf.printf "res=err\n"
     | Al.DPanic -> Printf.printf "panic\n")
  | "tapsig" ->
    let k = next_int t in
    let sigs = Stdlib.List.init k (fun _ -> let pk = read_slice c t in let lf = read_slice c t in (pk, lf)) in
    let h0 = c.heap in
    let (h1, kds) = Al.tap_script_sigs g h0 sigs in
    Printf.printf "kd=%s chg=%s\n" (hexs (Stdlib.List.map (rd h1) kds)) (chg c h0 h1)
  | "tapleaf" ->
    let k = next_int t in
    let ls = Stdlib.List.init k (fun _ -> let s = read_slice c t in let v = byte_of_int (next_int t) in (s, v)) in
    let h0 = c.heap in
    let (h1, vs) = Al.tap_leaf_scripts g h0 ls in
    Printf.printf "kd=%s chg=%s\n" (hexs (Stdlib.List.map (rd h1) vs)) (chg c h0 h1)
  | "getutxo" ->
    let has_w = next_int t = 1 in let has_n = next_int t = 1 in
    let prev = next_int t in let nouts = next_int t in
    let stored = read_slice c t in let inrp = read_slice c t in
    let h0 = c.heap in
    (* object store: object 0 = the witness UTXO (if any), then the outputs of the previous transaction *)
    let nw = if has_w then 1 else 0 in
    let os = Stdlib.List.init (nw + (if has_n then nouts else 0)) (fun _ -> { Al.txo_rest = []; Al.txo_rp = stored }) in
    let i = { Al.i_witness_utxo = (if has_w then Some O else None);
              Al.i_nonwitness_outs = (if has_n then Some (Stdlib.List.init nouts (fun j -> nat_of_int (nw + j))) else None);
              Al.i_prev_index = nat_of_int prev; Al.i_utxo_rp = inrp } in
    let (os1, r) = Al.get_utxo os i in
    let stored_after = Stdlib.String.concat "," (Stdlib.List.mapi (fun j _ ->
        hex_of_bytes (rd h0 (Stdlib.List.nth os1 j).Al.txo_rp)) os) in
    (match r with
     | Al.GNil -> Printf.printf "res=nil stored=%s\n" (if os = [] then "none" else stored_after)
     | Al.GPanic -> Printf.printf "panic\n"
     | Al.GPtr p ->
       let pi = int_of_nat p in
       Printf.printf "res=ptr rp=%s same=%s stored=%s\n"
         (hex_of_bytes (rd h0 (Stdlib.List.nth os1 pi).Al.txo_rp))
         (b2s (pi < Stdlib.List.length os)) stored_after)
  | "rev" ->
    let b = read_slice c t in
    let h0 = c.heap in
    let (h1, r) = Al.reverse_bytes h0 b in
    (match r with
     | Some s ->
       let alias = int_of_nat s.s_arr = int_of_nat b.s_arr && int_of_nat b.s_cap > 0 in
       Printf.printf "res=%s alias=%s chg=%s\n" (hex_of_bytes (rd h1 s)) (b2s alias) (chg c h0 h1)
     | None -> Printf.printf "panic\n")
  | "valfrom" ->
    let v = read_slice c t in
    let h0 = c.heap in
    let (h1, r) = Al.value_from_bytes h0 v in
    (match r with
     | Al.VOk n -> Printf.printf "res=%s chg=%s\n" (hex_of_n n) (chg c h0 h1)
     | Al.VErr -> Printf.printf "res=err chg=%s\n" (chg c h0 h1)
     | Al.VPanic -> Printf.printf "panic\n")
  | "assethash" | "txid" ->
    let b = read_slice c t in
    let h0 = c.heap in
    let (h1, r) = if site = "assethash" then Al.asset_hash_from_bytes h0 b else Al.txid_from_bytes h0 b in
    (match r with
     | Some s -> Printf.printf "res=%s chg=%s\n" (hex_of_bytes (rd h1 s)) (chg c h0 h1)
     | None -> Printf.printf "panic\n")
  | "ser" ->
    let k = next_int t in
    let v = Stdlib.List.init k (fun _ -> read_slice c t) in
    let h0 = c.heap in
    let (h1, r) = Al.ser_vector g h0 v in
    Printf.printf "res=%s chg=%s\n" (hex_of_bytes (rd h1 r)) (chg c h0 h1)
  | "copy" ->
    let k = next_int t in
    let l = Stdlib.List.init k (fun _ -> read_slice c t) in
    let h0 = c.heap in
    let (h1, ds) = Al.copy_all h0 l in
    let rdc = hexs (Al.read_all h1 ds) in
    (* flip every byte of every copied slice over its full capacity *)
    let h2 = Stdlib.List.fold_left (fun h d -> wr h d.s_arr d.s_off (Stdlib.List.map flip (rd_cap h d))) h1 ds in
    let c1 = chg c h0 h2 in
    (* flip every byte of every original array; then look at the copy *)
    let nold = Stdlib.List.length h0 in
    let h3 = Stdlib.List.fold_left (fun h id -> wr h (nat_of_int id) O (Stdlib.List.map flip (arr h (nat_of_int id))))
        h1 (Stdlib.List.init nold (fun i -> i)) in
    let cchg = if Al.read_all h3 ds = Al.read_all h1 ds then "-" else "changed" in
    Printf.printf "rd=%s chg=%s cchg=%s\n" rdc c1 cchg
  | "globals" ->
    Printf.printf "g=%s\n" (hexs Al.pkg_globals)
  | s -> Printf.printf "unknown-site %s\n" s

(* flist <hex input stream> <k> { p<n> <hex value> | g<n> } *)
let cmd_flist t =
  let input = next_hex t in
  let k = next_int t in
  let prog = Stdlib.List.init k (fun _ ->
    let o = next t in
    let n = int_of_string (Stdlib.String.sub o 1 (Stdlib.String.length o - 1)) in
    if o.[0] = 'p' then FL.Put (nat_of_int n, n_of_hex (next t)) else FL.Get (nat_of_int n)) in
  let st = FL.run_seq FL.flist_cap prog input in
  match st.FL.threads with
  | [th] ->
    let res = match th.FL.t_res with
      | [] -> "none"
      | l -> Stdlib.String.concat "," (Stdlib.List.map (fun (_, v) ->
          match v with Some x -> hex_of_n x | None -> "err") l) in
    let fl = Stdlib.List.map (fun b -> Stdlib.List.nth st.FL.bufs (int_of_nat b)) st.FL.chan in
    Printf.printf "out=%s res=%s left=%s fl=%d bufs=%s cap=%d done=%s\n"
      (hex_of_bytes th.FL.t_out) res (hex_of_bytes th.FL.t_in)
      (Stdlib.List.length st.FL.chan) (hexs fl) (int_of_nat FL.flist_cap)
      (b2s (th.FL.t_todo = []))
  | _ -> Printf.printf "driver-error threads\n"

let () = register "alias" cmd_alias; register "flist" cmd_flist
