(* drv_vsig.ml — family vsig (C10): partial-signature validation, and family vs_disasm.
   The oracle part of the case line (key parsing, DER parsing, candidate digests,
   verifying triples, HASH160 of the keys) instantiates the Section variables of
   Model/SigValidate.v; a digest/key/DER the tables do not list is a driver error. *)
open Model
open Drv_util

(* own copy of the transaction reader of drv_tx.ml (same text format), so that this file
   depends on Drv_util only (link order) *)
let vs_read_tx t : tx =
  let ver = next_n t in let flag = next_n t in let lt = next_n t in
  let ins = next_list t (fun t ->
    let h = next_hex t in let idx = next_n t in let sq = next_n t in let scr = next_hex t in
    let peg = next_int t = 1 in
    let iss = if next_int t = 1 then begin
        let a = next_hex t in let b = next_hex t in let c = next_hex t in let d = next_hex t in
        Some { iss_nonce = a; iss_entropy = b; iss_amount = c; iss_token = d } end else None in
    let irp = next_hex t in let inrp = next_hex t in
    let wit = next_list t next_hex in let pw = next_list t next_hex in
    { in_hash = h; in_index = idx; in_seq = sq; in_script = scr; in_witness = wit; in_pegin = peg;
      in_pegwit = pw; in_iss = iss; in_irp = irp; in_inrp = inrp }) in
  let outs = next_list t (fun t ->
    let a = next_hex t in let v = next_hex t in let s = next_hex t in let n = next_hex t in
    let rp = next_hex t in let sp = next_hex t in
    { o_asset = a; o_value = v; o_script = s; o_nonce = n; o_rp = rp; o_sp = sp }) in
  { t_version = ver; t_flag = flag; t_locktime = lt; t_ins = ins; t_outs = outs }

let next_opt t = match next t with
  | "nil" -> None
  | "-" -> Some []
  | s -> Some (bytes_of_hex s)

let read_txout_sv t =
  let s = next_opt t in let v = next_opt t in
  let ob = function Some b -> b | None -> [] in
  { o_asset = []; o_value = ob v; o_script = ob s; o_nonce = []; o_rp = []; o_sp = [] }

let read_pin t : vinput =
  let ptx = (match next_opt t with Some b -> b | None -> []) in
  let pidx = next_n t in
  let nonwit = if next_int t = 1 then Some (vs_read_tx t) else None in
  let wit = if next_int t = 1 then Some (read_txout_sv t) else None in
  let redeem = next_opt t in
  let ws = next_opt t in
  let _declared_sighash_type = next t in   (* PInput.SighashType: not read by the validator *)
  let sigs = next_list t (fun t ->
    if next_int t = 1 then begin
      let pub = next_opt t in
      let sg = (match next_opt t with Some b -> b | None -> []) in
      Some { svg_pub = pub; svg_sig = sg } end
    else None) in
  { svi_nonwit = nonwit; svi_wit = wit; svi_redeem = redeem; svi_witscript = ws; svi_sigs = sigs;
    svi_prev_txid = ptx; svi_prev_index = pidx }

let out_str = function
  | VOk true -> "true" | VOk false -> "false" | VErr -> "err" | VPanic _ -> "panic"

(* evaluates one vsig case from the token stream: (ValidateInputSignatures, ValidateAllSignatures) *)
let eval_vsig t : string * string =
  let ver = if next_int t = 0 then VsV0 else VsV2 in
  let idx = next_int t in
  let tx = vs_read_tx t in
  let ins = next_list t read_pin in
  let _ = next_list t (fun t -> let a = next t in let b = next t in (a, b)) in   (* private keys: for S only *)
  let keys = next_list t (fun t ->
    let pub = next t in let ok = next_int t = 1 in let comp = next_hex t in let h = next_hex t in
    (pub, (ok, comp, h))) in
  let ders = next_list t (fun t -> let d = next t in let ok = next_int t = 1 in (d, ok)) in
  let digs = next_list t (fun t ->
    let a = next_int t in let k = next_int t in let s = next t in let am = next t in
    let ht = next_int t in let d = next_hex t in
    ((a, k, s, am, ht), d)) in
  let vers = next_list t (fun t -> let c = next t in let d = next t in let s = next t in (c, d, s)) in
  let digest a _ i script amount ht =
    let key = ((match a with VLegacy -> 0 | VSegwitV0 -> 1), int_of_nat i, hex_of_bytes script,
               hex_of_bytes amount, int_of_n ht) in
    match Stdlib.List.assoc_opt key digs with Some d -> d | None -> failwith "digest-not-in-table" in
  let find_key pub = match Stdlib.List.assoc_opt (hex_of_bytes pub) keys with
    | Some x -> x | None -> failwith "key-not-in-table" in
  let parse_pk pub = let (ok, comp, _) = find_key pub in if ok then Some comp else None in
  (* HASH160 is the executable Model.hash160 (Model/Ripemd160.v); the oracle column is only cross-checked *)
  let hash160 pub =
    let h = Model.hash160 pub in
    (match Stdlib.List.assoc_opt (hex_of_bytes pub) keys with
     | Some (_, _, h') when h' <> h -> failwith "hash160-differs-from-implementation"
     | _ -> ());
    h in
  let der_ok d = match Stdlib.List.assoc_opt (hex_of_bytes d) ders with
    | Some b -> b | None -> failwith "der-not-in-table" in
  let verify ck d s = Stdlib.List.mem (hex_of_bytes ck, hex_of_bytes d, hex_of_bytes s) vers in
  let p = { svp_tx = tx; svp_ins = ins } in
  let r = vs_validate_input digest parse_pk der_ok verify hash160 ver p (nat_of_int idx) in
  let a = vs_validate_all digest parse_pk der_ok verify hash160 ver p in
  (out_str r, out_str a)

let cmd_vsig t =
  let (r, a) = eval_vsig t in
  Printf.printf "res=%s all=%s\n" r a

(* family vhist: validate(A), then the same object with the fields of B: the model is a pure
   function of the packet, so the two steps are validate(A) and validate(B) *)
let cmd_vhist t =
  let (r1, a1) = eval_vsig t in
  let (r, a) = eval_vsig t in
  Printf.printf "res1=%s all1=%s res=%s all=%s\n" r1 a1 r a

let cmd_disasm t =
  let s = next_hex t in
  match vs_disasm s with
  | Some a -> Printf.printf "asm=%s\n" (hex_of_bytes a)
  | None -> Printf.printf "asm=err\n"

let () = register "vsig" cmd_vsig; register "vhist" cmd_vhist; register "disasm" cmd_disasm
