(* drv_unblind.ml — C06 families: ubl (ub_blinded output), uiss (ub_blinded issuance) *)
open Model
open Drv_util

let z_of_int i = if i = 0 then Z0 else if i > 0 then Zpos (pos_of_int i) else Zneg (pos_of_int (-i))
let next_hn t = n_of_hex (next t)
let next_opt t = let s = next t in if s = "!" then None else Some (bytes_of_hex s)

let read_oracle t : ub_oracle =
  let ecdh = next_list t (fun t -> let a = next_hex t in let b = next_hex t in let r = next_opt t in ((a, b), r)) in
  let genb = next_list t (fun t -> let a = next_hex t in let b = next_hex t in let r = next_opt t in ((a, b), r)) in
  let geng = next_list t (fun t -> let a = next_hex t in let r = next_opt t in (a, r)) in
  let commit = next_list t (fun t ->
    let b = next_hex t in let v = next_hn t in let g = next_hex t in let r = next_opt t in (((b, v), g), r)) in
  let sign = next_list t (fun t ->
    let mn = next_hn t in let c = next_hex t in let vbf = next_hex t in let nonce = next_hex t in
    let ex = z_of_int (next_int t) in let mb = z_of_int (next_int t) in let v = next_hn t in
    let msg = next_hex t in let extra = next_hex t in let g = next_hex t in let r = next_opt t in
    { se_min = mn; se_commit = c; se_vbf = vbf; se_nonce = nonce; se_exp = ex; se_mb = mb; se_value = v;
      se_msg = msg; se_extra = extra; se_gen = g; se_proof = r }) in
  { or_ecdh = ecdh; or_genb = genb; or_geng = geng; or_commit = commit; or_sign = sign }

type op = Xor of int * int * int | Set of int * byte list

let read_ops t : op list =
  next_list t (fun t ->
    let k = next t in let f = next_int t in
    if k = "x" then (let i = next_int t in let m = next_int t in Xor (f, i, m))
    else Set (f, next_hex t))

let xor_byte (b : byte) (m : int) : byte = byte_tbl.((int_of_byte b) lxor m)

let apply_op (f : byte list array) (o : op) =
  match o with
  | Xor (k, i, m) -> f.(k) <- Stdlib.List.mapi (fun j b -> if j = i then xor_byte b m else b) f.(k)
  | Set (k, v) -> f.(k) <- v

let len l = Stdlib.List.length l

let rc_of (tb : ub_oracle) (u : unb_result) (out_asset : byte list) (out_value : byte list) : string =
  if len u.u_asset <> 32 || len u.u_abf <> 32 || len u.u_vbf <> 32 || len out_asset <> 33 then "na"
  else match o_asset_commitment tb u.u_asset u.u_abf with
    | Some ac when ac = out_asset ->
      (match o_value_commitment tb u.u_value out_asset u.u_vbf with
       | Some vc when vc = out_value -> "1"
       | _ -> "0")
    | _ -> "0"

let cmd_ubl t =
  let value = next_hn t in
  let asset = next_hex t in let abf = next_hex t in let vbf = next_hex t in let script = next_hex t in
  let ex = z_of_int (next_int t) in let mb = z_of_int (next_int t) in
  let rpub = next_hex t in let esk = next_hex t in let epub = next_hex t in let _rsk = next_hex t in
  let ops = read_ops t in
  let mode = next t in let key = next_hex t in
  let tb = read_oracle t in
  (* stepwise, to name the failing step; cross-checked against blind_output *)
  let whole = o_blind_output tb value asset abf vbf script rpub esk ex mb in
  let step =
    match o_asset_commitment tb asset abf with
    | None -> Error "ac"
    | Some ac ->
      match o_value_commitment tb value ac vbf with
      | None -> Error "vc"
      | Some vc ->
        match o_nonce_hash tb rpub esk with
        | None -> Error "nonce"
        | Some nonce ->
          match o_range_proof tb { ra_value = value; ra_nonce = nonce; ra_asset = asset; ra_abf = abf;
                                   ra_vbf = ub_fit (nat_of_int 32) vbf; ra_vcommit = vc; ra_script = script;
                                   ra_exp = ex; ra_minbits = mb } with
          | None -> Error "proof"
          | Some proof -> Ok { bl_asset = ac; bl_value = vc; bl_nonce = nonce; bl_proof = proof } in
  match step, whole with
  | Error w, None -> Printf.printf "blind=err@%s\n" w
  | Error _, Some _ | Ok _, None -> Printf.printf "model-inconsistent\n"
  | Ok b, Some b' ->
    if b <> b' then Printf.printf "model-inconsistent\n" else begin
      let verify = o_verify_range_proof tb b.bl_value b.bl_asset script b.bl_proof in
      let f = [| b.bl_asset; b.bl_value; script; epub; b.bl_proof |] in
      Stdlib.List.iter (apply_op f) ops;
      let out = { o_asset = f.(0); o_value = f.(1); o_script = f.(2); o_nonce = f.(3); o_rp = f.(4); o_sp = [] } in
      let r = if mode = "k" then o_unblind_with_key tb out key else o_unblind_with_nonce tb out key in
      let lv = match o_last_value_range_proof tb value asset abf b.bl_value vbf script b.bl_nonce with
        | None -> "err" | Some p -> if p = b.bl_proof then "same" else hex_of_bytes p in
      let head = Printf.sprintf "blind=ok ac=%s vc=%s nonce=%s proof=%s verify=%s lv=%s"
          (hex_of_bytes b.bl_asset) (hex_of_bytes b.bl_value) (hex_of_bytes b.bl_nonce) (hex_of_bytes b.bl_proof) (b2s verify) lv in
      match r with
      | UErr -> Printf.printf "%s res=err\n" head
      | UPanic -> Printf.printf "%s res=panic\n" head
      | UOk u ->
        let rc = if is_conf_out out then rc_of tb u out.o_asset out.o_value else "na" in
        Printf.printf "%s res=ok v=%s a=%s vbf=%s abf=%s rc=%s\n" head (hex_of_n u.u_value)
          (hex_of_bytes u.u_asset) (hex_of_bytes u.u_vbf) (hex_of_bytes u.u_abf) rc
    end

(* uiss <hash> <index> <blinding nonce> <entropy field> <va> <vbfa> <ka> <hastoken> [<vt> <vbft> <kt>] <tokenfield-if-not-ub_blinded>
        <ops> <nkeys> keys.. <ub_oracle> *)
let cmd_uiss t =
  let hash = next_hex t in let index = next_hn t in
  let bnonce = next_hex t in let entropy = next_hex t in
  let va = next_hn t in let vbfa = next_hex t in let ka = next_hex t in
  let hastoken = next_int t = 1 in
  let (vt, vbft, kt) = if hastoken then (let a = next_hn t in let b = next_hex t in let c = next_hex t in (a, b, c)) else (N0, [], []) in
  let tokfield = next_hex t in
  let ops = read_ops t in
  let keys = next_list t next_hex in
  let tb = read_oracle t in
  let iss0 = { iss_nonce = bnonce; iss_entropy = entropy; iss_amount = []; iss_token = [] } in
  let in0 = { in_hash = hash; in_index = index; in_seq = N0; in_script = []; in_witness = []; in_pegin = false;
              in_pegwit = []; in_iss = Some iss0; in_irp = []; in_inrp = [] } in
  match calc_asset_hash in0 iss0, calc_token_hash in0 iss0 with
  | None, _ | _, None -> Printf.printf "ids=err\n"
  | Some aid, Some tid ->
    let ba = o_blind_issuance_amount tb va aid vbfa ka in
    let bt = if hastoken then o_blind_issuance_amount tb vt tid vbft kt else Some { bl_asset = []; bl_value = tokfield; bl_nonce = []; bl_proof = [] } in
    match ba, bt with
    | None, _ -> Printf.printf "aid=%s tid=%s blind=err@asset\n" (hex_of_bytes aid) (hex_of_bytes tid)
    | _, None -> Printf.printf "aid=%s tid=%s blind=err@token\n" (hex_of_bytes aid) (hex_of_bytes tid)
    | Some ba, Some bt ->
      (* fields: 0 AssetAmount 1 TokenAmount 2 IssuanceRangeProof 3 InflationRangeProof 4 AssetEntropy 5 prevout hash 6 AssetBlindingNonce *)
      let f = [| ba.bl_value; bt.bl_value; ba.bl_proof; bt.bl_proof; entropy; hash; bnonce |] in
      Stdlib.List.iter (apply_op f) ops;
      let iss = { iss_nonce = f.(6); iss_entropy = f.(4); iss_amount = f.(0); iss_token = f.(1) } in
      let inp = { in0 with in_hash = f.(5); in_iss = Some iss; in_irp = f.(2); in_inrp = f.(3) } in
      let head = Printf.sprintf "aid=%s tid=%s blind=ok aamt=%s tamt=%s arp=%s trp=%s" (hex_of_bytes aid) (hex_of_bytes tid)
          (hex_of_bytes ba.bl_value) (hex_of_bytes bt.bl_value) (hex_of_bytes ba.bl_proof) (hex_of_bytes bt.bl_proof) in
      let pu (p : string) (u : unb_result) =
        Printf.sprintf "%sv=%s %sa=%s %svbf=%s %sabf=%s" p (hex_of_n u.u_value) p (hex_of_bytes u.u_asset)
          p (hex_of_bytes u.u_vbf) p (hex_of_bytes u.u_abf) in
      match o_unblind_issuance tb inp keys with
      | UErr -> Printf.printf "%s res=err\n" head
      | UPanic -> Printf.printf "%s res=panic\n" head
      | UOk (ua, None) -> Printf.printf "%s res=ok %s tok=0\n" head (pu "a" ua)
      | UOk (ua, Some ut) -> Printf.printf "%s res=ok %s tok=1 %s\n" head (pu "a" ua) (pu "t" ut)

let () = register "ubl" cmd_ubl; register "uiss" cmd_uiss

(* uhist <mode> <master> <nkeys> k.. <nbase> {value asset abf vbf script R esk E}* <nsteps>
         { <nin> { <outpoint> (c <base> <ops> | e <asset> <value> <script>) }* <nidx> idx* }*
         <nderive> {script key}* <oracle> *)
type uh_in = UhC of int * op list | UhE of byte list * byte list * byte list

let cmd_uhist t =
  let mode = next t in let _master = next_hex t in
  let keys = next_list t next_hex in
  let bases = next_list t (fun t ->
    let v = next_hn t in let a = next_hex t in let abf = next_hex t in let vbf = next_hex t in
    let s = next_hex t in let r = next_hex t in let esk = next_hex t in let e = next_hex t in
    (v, a, abf, vbf, s, r, esk, e)) in
  let steps = next_list t (fun t ->
    let ins = next_list t (fun t ->
      let _outpoint = next_int t in
      if next t = "e" then (let a = next_hex t in let v = next_hex t in let s = next_hex t in UhE (a, v, s))
      else (let b = next_int t in let ops = read_ops t in UhC (b, ops))) in
    let idxs = next_list t next_n in (ins, idxs)) in
  let derive = next_list t (fun t -> let s = next_hex t in let k = next_hex t in (s, k)) in
  let tb = read_oracle t in
  let z0 = Z0 and z52 = z_of_int 52 in
  let blinded = Stdlib.List.map (fun (v, a, abf, vbf, s, r, esk, e) ->
    match o_blind_output tb v a abf vbf s r esk z0 z52 with
    | Some b -> Some [| b.bl_asset; b.bl_value; s; e; b.bl_proof |]
    | None -> None) bases in
  if Stdlib.List.exists (fun x -> x = None) blinded then Printf.printf "blind=err\n" else begin
    let blinded = Array.of_list (Stdlib.List.map (function Some x -> x | None -> [||]) blinded) in
    let gk = if mode = "m"
      then GMaster (fun scr -> match Stdlib.List.assoc_opt scr derive with Some k -> k | None -> [])
      else GKeys keys in
    let prevout = function
      | UhE (a, v, s) -> { o_asset = a; o_value = v; o_script = s; o_nonce = [byte_tbl.(0)]; o_rp = []; o_sp = [] }
      | UhC (b, ops) ->
        let f = Array.copy blinded.(b) in
        Stdlib.List.iter (apply_op f) ops;
        { o_asset = f.(0); o_value = f.(1); o_script = f.(2); o_nonce = f.(3); o_rp = f.(4); o_sp = [] } in
    let hist = Stdlib.List.map (fun (ins, idxs) -> (Stdlib.List.map prevout ins, idxs)) steps in
    let (_, results) = o_gen_run tb gk hist in
    let b = Buffer.create 256 in
    Buffer.add_string b "blind=ok";
    Stdlib.List.iteri (fun k r ->
      let s = match r with
        | UErr -> "err" | UPanic -> "panic"
        | UOk l -> "ok:" ^ Stdlib.String.concat ";" (Stdlib.List.map (fun o ->
            Printf.sprintf "%d,%s,%s,%s,%s" (int_of_n o.ow_index) (hex_of_n o.ow_value) (hex_of_bytes o.ow_asset)
              (hex_of_bytes o.ow_vbf) (hex_of_bytes o.ow_abf)) l) in
      Buffer.add_string b (Printf.sprintf " s%d=%s" k s)) results;
    print_endline (Buffer.contents b)
  end

let () = register "uhist" cmd_uhist
