(* drv_block.ml — block family: blk (abstract block value), rawblk (bytes) *)
open Model
open Drv_util
open Drv_tx

let read_params t : dparams =
  match next_int t with
  | 0 -> DNull
  | 1 -> let s = next_hex t in let l = next_n t in let r = next_hex t in
    DCompact { cp_script = s; cp_limit = l; cp_root = r }
  | _ -> let s = next_hex t in let l = next_n t in let p = next_hex t in let f = next_hex t in
    let e = next_list t next_hex in
    DFull { fp_script = s; fp_limit = l; fp_program = p; fp_fedscript = f; fp_ext = e }

let read_header t : header =
  let v = next_n t in let prev = next_hex t in let mr = next_hex t in
  let ts = next_n t in let ht = next_n t in
  let ext = if next_int t = 1 then begin
      let c = read_params t in let p = read_params t in let w = next_list t next_hex in
      EDyna { d_current = c; d_proposed = p; d_witness = w } end
    else begin
      let c = next_hex t in let s = next_hex t in EProof { p_challenge = c; p_solution = s } end in
  { h_version = v; h_prev = prev; h_merkle = mr; h_time = ts; h_height = ht; h_ext = ext }

let dump_params b (p : dparams) =
  let add s = Buffer.add_string b s; Buffer.add_char b ',' in
  match p with
  | DNull -> add "0"
  | DCompact c -> add "1"; add (hex_of_bytes c.cp_script); add (string_of_int (int_of_n c.cp_limit)); add (hex_of_bytes c.cp_root)
  | DFull f -> add "2"; add (hex_of_bytes f.fp_script); add (string_of_int (int_of_n f.fp_limit));
    add (hex_of_bytes f.fp_program); add (hex_of_bytes f.fp_fedscript);
    add (string_of_int (Stdlib.List.length f.fp_ext)); Stdlib.List.iter (fun x -> add (hex_of_bytes x)) f.fp_ext

let dump_header (h : header) : string =
  let b = Buffer.create 256 in
  let add s = Buffer.add_string b s; Buffer.add_char b ',' in
  add (string_of_int (int_of_n h.h_version)); add (hex_of_bytes h.h_prev); add (hex_of_bytes h.h_merkle);
  add (string_of_int (int_of_n h.h_time)); add (string_of_int (int_of_n h.h_height));
  (match h.h_ext with
   | EProof p -> add "0"; add (hex_of_bytes p.p_challenge); add (hex_of_bytes p.p_solution)
   | EDyna d -> add "1"; dump_params b d.d_current; dump_params b d.d_proposed;
     add (string_of_int (Stdlib.List.length d.d_witness)); Stdlib.List.iter (fun x -> add (hex_of_bytes x)) d.d_witness);
  Buffer.contents b

let dump_block (x : block) : string =
  dump_header x.b_header ^ string_of_int (Stdlib.List.length x.b_txs) ^ "," ^
  Stdlib.String.concat ";" (Stdlib.List.map dump_tx x.b_txs)

let cmd_blk t =
  let h = read_header t in
  let txs = next_list t read_tx in
  let b = { b_header = h; b_txs = txs } in
  let ser = ser_block b in
  let parsed = match parse_block ser with
    | Some (y, rest) -> Printf.sprintf "%s/rest=%d" (dump_block y) (Stdlib.List.length rest)
    | None -> "none" in
  Printf.printf "ser=%s hdr=%s forhash=%s hash=%s parse=%s\n" (hex_of_bytes ser)
    (hex_of_bytes (ser_header false h)) (hex_of_bytes (ser_header true h))
    (hex_of_bytes (dsha256 (ser_header true h))) parsed

let cmd_rawblk t =
  let bs = next_hex t in
  match parse_block bs with
  | None -> Printf.printf "parse=none\n"
  | Some (y, rest) ->
    Printf.printf "parse=%s rest=%d reser=%s canon=%s\n" (dump_block y) (Stdlib.List.length rest)
      (hex_of_bytes (ser_block y)) (b2s (Stdlib.List.for_all (fun x -> canonical_flag x) y.b_txs))

let () = register "blk" cmd_blk; register "rawblk" cmd_rawblk
