(* drv_util.ml — runs the extracted Coq models on case lines (one per line on stdin)
   and prints one canonical result line per case. Trusted glue: hex/number
   conversion and the line formats only; all semantics live in Model (extracted). *)
open Model

let rec pos_of_int i =
  if i = 1 then XH else if i land 1 = 1 then XI (pos_of_int (i lsr 1)) else XO (pos_of_int (i lsr 1))
let n_of_int i = if i < 0 then failwith "neg" else if i = 0 then N0 else Npos (pos_of_int i)
let rec int_of_pos = function XH -> 1 | XO p -> 2 * int_of_pos p | XI p -> 2 * int_of_pos p + 1
let int_of_n = function N0 -> 0 | Npos p -> int_of_pos p
let int_of_z = function Z0 -> 0 | Zpos p -> int_of_pos p | Zneg p -> - (int_of_pos p)
let rec nat_of_int i = if i = 0 then O else S (nat_of_int (i - 1))
let rec int_of_nat = function O -> 0 | S n -> 1 + int_of_nat n

(* arbitrary-size N <-> lowercase hex without leading zeros ("0" for zero) *)
let hex_of_n (x : n) : string =
  match x with
  | N0 -> "0"
  | Npos p ->
    let rec bits p acc = match p with XH -> 1 :: acc | XO q -> bits q (0 :: acc) | XI q -> bits q (1 :: acc) in
    (* bits returns MSB first? we cons LSB first then recurse: acc grows with older (lower) bits at the tail *)
    let rec lsb p = match p with XH -> [1] | XO q -> 0 :: lsb q | XI q -> 1 :: lsb q in
    ignore bits;
    let l = lsb p in
    let rec group l = match l with
      | [] -> []
      | a :: b :: c :: d :: r -> (a + 2*b + 4*c + 8*d) :: group r
      | [a; b; c] -> [a + 2*b + 4*c]
      | [a; b] -> [a + 2*b]
      | [a] -> [a] in
    let ds = Stdlib.List.rev (group l) in
    Stdlib.String.concat "" (Stdlib.List.map (fun d -> Printf.sprintf "%x" d) ds)

let n_of_hex (s : string) : n =
  let acc = ref N0 in
  Stdlib.String.iter (fun c ->
    let d = int_of_string ("0x" ^ Stdlib.String.make 1 c) in
    acc := N.add (N.mul !acc (n_of_int 16)) (n_of_int d)) s;
  !acc

let byte_tbl : byte array =
  Array.init 256 (fun i -> match of_N (n_of_int i) with Some b -> b | None -> assert false)
let int_of_byte (b : byte) : int = int_of_n (to_N b)

let bytes_of_hex (s : string) : byte list =
  if s = "-" then [] else begin
    let n = Stdlib.String.length s / 2 in
    let rec go i acc = if i < 0 then acc else
      go (i - 1) (byte_tbl.(int_of_string ("0x" ^ Stdlib.String.sub s (2*i) 2)) :: acc) in
    go (n - 1) []
  end
let hex_of_bytes (bs : byte list) : string =
  match bs with [] -> "-" | _ ->
  let b = Buffer.create 64 in
  Stdlib.List.iter (fun x -> Buffer.add_string b (Printf.sprintf "%02x" (int_of_byte x))) bs;
  Buffer.contents b

(* ---- token stream ---- *)
type toks = { mutable l : string list }
let next t = match t.l with [] -> failwith "eof" | x :: r -> t.l <- r; x
let next_int t = int_of_string (next t)
let next_n t = n_of_int (next_int t)
let next_hex t = bytes_of_hex (next t)
let next_list t f = let n = next_int t in Stdlib.List.init n (fun _ -> f t)


let b2s b = if b then "1" else "0"

(* command table: every drv_<family>.ml registers its commands at load time *)
let dispatch : (string, toks -> unit) Hashtbl.t = Hashtbl.create 64
let register (name : string) (f : toks -> unit) = Hashtbl.replace dispatch name f
