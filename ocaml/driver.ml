(* driver.ml — runs the extracted Coq models on case lines (one per line on stdin)
   and prints one canonical result line per case. Trusted glue: hex/number
   conversion and the line formats only; all semantics live in Model (extracted). *)
open Model

let rec pos_of_int i =
  if i = 1 then XH else if i land 1 = 1 then XI (pos_of_int (i lsr 1)) else XO (pos_of_int (i lsr 1))
let n_of_int i = if i < 0 then failwith "neg" else if i = 0 then N0 else Npos (pos_of_int i)
let rec int_of_pos = function XH -> 1 | XO p -> 2 * int_of_pos p | XI p -> 2 * int_of_pos p + 1
let int_of_n = function N0 -> 0 | Npos p -> int_of_pos p
let int_of_z = function Z0 -> 0 | Zpos p -> int_of_pos p | Zneg p -> - (int_of_pos p)
let rec nat_of_int i = if i = 0 then O else S (nat_of_int (i - 1))
let rec int_of_nat = function O -> 0 | S n -> 1 + int_of_nat n

(* arbitrary-size N <-> lowercase hex without leading zeros ("0" for zero) *)
let hex_of_n (x : n) : string =
  match x with
  | N0 -> "0"
  | Npos p ->
    let rec bits p acc = match p with XH -> 1 :: acc | XO q -> bits q (0 :: acc) | XI q -> bits q (1 :: acc) in
    (* bits returns MSB first? we cons LSB first then recurse: acc grows with older (lower) bits at the tail *)
    let rec lsb p = match p with XH -> [1] | XO q -> 0 :: lsb q | XI q -> 1 :: lsb q in
    ignore bits;
    let l = lsb p in
    let rec group l = match l with
      | [] -> []
      | a :: b :: c :: d :: r -> (a + 2*b + 4*c + 8*d) :: group r
      | [a; b; c] -> [a + 2*b + 4*c]
      | [a; b] -> [a + 2*b]
      | [a] -> [a] in
    let ds = Stdlib.List.rev (group l) in
    Stdlib.String.concat "" (Stdlib.List.map (fun d -> Printf.sprintf "%x" d) ds)

let n_of_hex (s : string) : n =
  let acc = ref N0 in
  Stdlib.String.iter (fun c ->
    let d = int_of_string ("0x" ^ Stdlib.String.make 1 c) in
    acc := N.add (N.mul !acc (n_of_int 16)) (n_of_int d)) s;
  !acc

let byte_tbl : byte array =
  Array.init 256 (fun i -> match of_N (n_of_int i) with Some b -> b | None -> assert false)
let int_of_byte (b : byte) : int = int_of_n (to_N b)

let bytes_of_hex (s : string) : byte list =
  if s = "-" then [] else begin
    let n = Stdlib.String.length s / 2 in
    let rec go i acc = if i < 0 then acc else
      go (i - 1) (byte_tbl.(int_of_string ("0x" ^ Stdlib.String.sub s (2*i) 2)) :: acc) in
    go (n - 1) []
  end
let hex_of_bytes (bs : byte list) : string =
  match bs with [] -> "-" | _ ->
  let b = Buffer.create 64 in
  Stdlib.List.iter (fun x -> Buffer.add_string b (Printf.sprintf "%02x" (int_of_byte x))) bs;
  Buffer.contents b

(* ---- token stream ---- *)
type toks = { mutable l : string list }
let next t = match t.l with [] -> failwith "eof" | x :: r -> t.l <- r; x
let next_int t = int_of_string (next t)
let next_n t = n_of_int (next_int t)
let next_hex t = bytes_of_hex (next t)
let next_list t f = let n = next_int t in Stdlib.List.init n (fun _ -> f t)

(* ---- abstract transaction text format ---- *)
let read_tx t : tx =
  let ver = next_n t in let flag = next_n t in let lt = next_n t in
  let ins = next_list t (fun t ->
    let h = next_hex t in let idx = next_n t in let sq = next_n t in let scr = next_hex t in
    let peg = next_int t = 1 in
    let iss = if next_int t = 1 then begin
        let a = next_hex t in let b = next_hex t in let c = next_hex t in let d = next_hex t in
        Some { iss_nonce = a; iss_entropy = b; iss_amount = c; iss_token = d } end else None in
    let irp = next_hex t in let inrp = next_hex t in
    let wit = next_list t next_hex in let pw = next_list t next_hex in
    { in_hash = h; in_index = idx; in_seq = sq; in_script = scr; in_witness = wit; in_pegin = peg;
      in_pegwit = pw; in_iss = iss; in_irp = irp; in_inrp = inrp }) in
  let outs = next_list t (fun t ->
    let a = next_hex t in let v = next_hex t in let s = next_hex t in let n = next_hex t in
    let rp = next_hex t in let sp = next_hex t in
    { o_asset = a; o_value = v; o_script = s; o_nonce = n; o_rp = rp; o_sp = sp }) in
  { t_version = ver; t_flag = flag; t_locktime = lt; t_ins = ins; t_outs = outs }

let dump_tx (x : tx) : string =
  let b = Buffer.create 256 in
  let add s = Buffer.add_string b s; Buffer.add_char b ' ' in
  let addn v = add (string_of_int (int_of_n v)) in
  let addh h = add (hex_of_bytes h) in
  let addl l = add (string_of_int (Stdlib.List.length l)); Stdlib.List.iter addh l in
  addn x.t_version; addn x.t_flag; addn x.t_locktime;
  add (string_of_int (Stdlib.List.length x.t_ins));
  Stdlib.List.iter (fun i ->
    addh i.in_hash; addn i.in_index; addn i.in_seq; addh i.in_script;
    add (if i.in_pegin then "1" else "0");
    (match i.in_iss with
     | Some s -> add "1"; addh s.iss_nonce; addh s.iss_entropy; addh s.iss_amount; addh s.iss_token
     | None -> add "0");
    addh i.in_irp; addh i.in_inrp; addl i.in_witness; addl i.in_pegwit) x.t_ins;
  add (string_of_int (Stdlib.List.length x.t_outs));
  Stdlib.List.iter (fun o ->
    addh o.o_asset; addh o.o_value; addh o.o_script; addh o.o_nonce; addh o.o_rp; addh o.o_sp) x.t_outs;
  let s = Buffer.contents b in
  Stdlib.String.map (fun c -> if c = ' ' then ',' else c) (Stdlib.String.trim s)

let b2s b = if b then "1" else "0"

let cmd_tx t =
  let x = read_tx t in
  let ser = ser_full x in
  let parsed = match parse_tx ser with
    | Some (y, rest) -> Printf.sprintf "%s/rest=%d" (dump_tx y) (Stdlib.List.length rest)
    | None -> "none" in
  Printf.printf "ser=%s sz0=%s sz1=%s w=%s vs=%s dw=%d dvs=%d hasw=%s txid=%s wtxid=%s parse=%s copy=%s\n"
    (hex_of_bytes ser) (hex_of_n (size_tx false false x)) (hex_of_n (size_tx true false x))
    (hex_of_n (weight x)) (hex_of_n (vsize x)) (int_of_z (discount_weight x)) (int_of_z (discount_vsize_go x))
    (b2s (has_witness x)) (hex_of_bytes (txid x)) (hex_of_bytes (wtxid x)) parsed (dump_tx (copy_tx x))

let cmd_raw t =
  let bs = next_hex t in
  match parse_tx bs with
  | None -> Printf.printf "parse=none\n"
  | Some (y, rest) ->
    Printf.printf "parse=%s rest=%d reser=%s canon=%s\n" (dump_tx y) (Stdlib.List.length rest)
      (hex_of_bytes (ser_full y)) (b2s (canonical_flag y))

let cmd_sha t =
  let bs = next_hex t in
  Printf.printf "sha=%s dsha=%s mid=%s\n" (hex_of_bytes (sha256 bs)) (hex_of_bytes (dsha256 bs)) (hex_of_bytes (midstate256 bs))

let cmd_varint t =
  let v = n_of_hex (next t) in
  let e = varint v in
  let back = match p_varint e with Some (w, []) -> hex_of_n w | _ -> "bad" in
  Printf.printf "enc=%s back=%s\n" (hex_of_bytes e) back

let cmd_rvarint t =
  let bs = next_hex t in
  match p_varint bs with
  | Some (w, rest) -> Printf.printf "v=%s rest=%d\n" (hex_of_n w) (Stdlib.List.length rest)
  | None -> Printf.printf "v=none\n"

let dispatch : (string * (toks -> unit)) list ref = ref [
  "tx", cmd_tx; "raw", cmd_raw; "sha", cmd_sha; "varint", cmd_varint; "rvarint", cmd_rvarint ]

let () =
  (try
    while true do
      let line = input_line stdin in
      let line = Stdlib.String.trim line in
      if line <> "" then begin
        let t = { l = Stdlib.String.split_on_char ' ' line } in
        let c = next t in
        (match Stdlib.List.assoc_opt c !dispatch with
         | Some f -> (try f t with e -> Printf.printf "driver-error %s\n" (Printexc.to_string e))
         | None -> Printf.printf "unknown-command %s\n" c)
      end
    done
  with End_of_file -> ());
  flush stdout
